-------------------------------- MODULE Qdb --------------------------------
(***************************************************************************)
(* lib/others/qdb : the embedded key-value store (peers database).         *)
(*                                                                         *)
(* Volatile state (lost when the process dies): the index map `mem`        *)
(* (QdbIndex.Index: key -> oneIdx{data, DataSeq, datpos, datlen, flags}),  *)
(* PendingRecords, DataSeq, VersionSequence, DatfileIndex, the two space   *)
(* counters, NoSyncMode, the open handles (LogFile = current data file,    *)
(* Idx.file = index log) and the program counter of the procedure that is  *)
(* running under DB.Mutex.                                                 *)
(* Files: <seq>.dat (4-byte header + appended values), qdbidx.0/qdbidx.1   *)
(* (snapshot: seq, entries, ffffffff-seq-FINI), qdbidx.log (seq, entries). *)
(*                                                                         *)
(* API calls (Put/PutExt, Del, Get, Browse, BrowseAll, ApplyFlags, Defrag, *)
(* Sync, NoSync, Close, NewDBExt) are one step each; every FILE OPERATION  *)
(* of sync(), defrag(), checklogfile(), writedatfile(), cleanupold() and   *)
(* NewDBidx() is its own step.  pc names the verif.Point("qdb_<pc>") that  *)
(* the code reaches right AFTER the file operation of that step, so the    *)
(* state after step X is exactly what a process killed at hook X leaves.   *)
(*                                                                         *)
(* Deliberate deviations (named):                                          *)
(*   FixNoCache = TRUE : freerec() does not drop data that is not on disk  *)
(*                       yet and sync() loads a record before writing it   *)
(*                       (the code as it stands: FALSE)                    *)
(*   FixLogHdr  = TRUE : loadlog() discards an index log without header    *)
(*                       (the code as it stands: FALSE)                    *)
(*   CanonOrder        : Go map iteration order inside one sync()/defrag() *)
(*                       is not observable; batches are written in key     *)
(*                       order (data appends of sync() stay unordered)     *)
(*   a buffered write (bufio, < 1 MB) is one file operation                *)
(***************************************************************************)
EXTENDS Integers, Sequences, FiniteSets, TLC

CONSTANTS
    Keys,               \* set of key ids (naturals >= 1)
    Vals,               \* set of value ids (naturals >= 1); 0 = "no value"
    VLen,               \* [Vals -> Nat] byte length of a value
    MaxPending,         \* ExtraOpts.MaxPending
    MaxPendingNoSync,   \* ExtraOpts.MaxPendingNoSync
    DefragPerc,         \* ExtraOpts.DefragPercentVal
    ForcedPerc,         \* ExtraOpts.ForcedDefragPerc
    VolModes,           \* subset of BOOLEAN: NewDBOpts.Volatile values tried
    LoadModes,          \* subset of BOOLEAN: NewDBOpts.LoadData values tried
    PutFlags,           \* subset of 0..3 : flags of PutExt (1 = NO_BROWSE, 2 = NO_CACHE)
    BrowseRes,          \* subset of {"none","NB","NC"}          : what a Browse walk returns for one key
    AllRes,             \* subset of {"none","NB","YB","NC","YC"}: what a BrowseAll walk returns for one key
    ApplyRes,           \* subset of {"NB","YB","NC","YC"}       : ApplyFlags argument
    MaxOps, MaxCrash, MaxReopen,   \* bounds
    FixNoCache, FixLogHdr

VARIABLES
    \* ---- volatile
    open, vol, ldData, mem, pending, dataSeq, verSeq, idxSel, maxSeq, need, extra, noSync,
    datOpen, logOpen, pc, stack, todo, used, cur,
    \* ---- files
    datF, idxF, logF,
    \* ---- ghosts
    ref, refNB, synced, since, written, failed, ops, crashes, reopens

volatile == <<open, vol, ldData, mem, pending, dataSeq, verSeq, idxSel, maxSeq, need, extra, noSync,
              datOpen, logOpen, pc, stack, todo, used, cur>>
files    == <<datF, idxF, logF>>
ghosts   == <<ref, refNB, synced, since, written>>
vars     == <<volatile, files, ghosts, failed, ops, crashes, reopens>>

VLenDef == [v \in Vals |-> 8 * v]

Missing == -2       \* reading from a data file that does not exist (the code exits)
Bad     == -1       \* reading beyond the end of a data file (short read: garbage)

NoRec == [in |-> FALSE, ld |-> FALSE, val |-> 0, seq |-> 0, pos |-> 0, len |-> 0, nb |-> FALSE, nc |-> FALSE]
NoIdx == [ex |-> FALSE, fini |-> FALSE, seq |-> 0, ents |-> {}]
NoLog == [ex |-> FALSE, hdr |-> FALSE, seq |-> 0, ents |-> <<>>]
EmptyMem == [k \in Keys |-> NoRec]

Max(a, b) == IF a > b THEN a ELSE b
MinOf(S) == CHOOSE x \in S : \A y \in S : x <= y
Top == stack[Len(stack)]
Pop == SubSeq(stack, 1, Len(stack) - 1)

RECURSIVE Sorted(_)
Sorted(S) == IF S = {} THEN <<>> ELSE LET m == MinOf(S) IN <<m>> \o Sorted(S \ {m})

ReadCell(s, p) ==
    IF s \notin DOMAIN datF THEN Missing
    ELSE IF p >= 1 /\ p <= Len(datF[s].cells) THEN datF[s].cells[p] ELSE Bad

\* what the store would hand out for k (record m)
ContentOf(m) == IF ~m.in THEN 0 ELSE IF m.ld THEN m.val ELSE ReadCell(m.seq, m.pos)

ApplyFl(r, f) ==
    CASE f = "NB" -> [r EXCEPT !.nb = TRUE]
      [] f = "YB" -> [r EXCEPT !.nb = FALSE]
      [] f = "NC" -> [r EXCEPT !.nc = TRUE]
      [] f = "YC" -> [r EXCEPT !.nc = FALSE]
      [] OTHER    -> r

\* oneIdx.freerec(): NO_CACHE records drop their data
FreeRec(r) == IF r.nc /\ (FixNoCache => r.pos # 0) THEN [r EXCEPT !.ld = FALSE, !.val = 0] ELSE r

\* QdbIndex.memput / memdel space accounting -> <<need', extra'>>
PutAcc(m, k, len, nd, ex, v) ==
    LET had == m[k].in /\ ~v
        dif == 24 + m[k].len
        nd1 == IF had THEN nd - dif ELSE nd
        ex1 == IF had THEN ex + dif ELSE ex
    IN <<IF v THEN nd1 ELSE nd1 + 24 + len, ex1>>
DelAcc(m, k, nd, ex, v) ==
    LET had == m[k].in /\ ~v
        dif == 12 + m[k].len
    IN <<IF had THEN nd - dif ELSE nd, IF had THEN ex + dif ELSE ex>>

\* index entries as they are written to qdbidx.N / qdbidx.log
IdxEntry(k) == [k |-> k, del |-> FALSE, pos |-> mem[k].pos, len |-> mem[k].len, seq |-> mem[k].seq,
                nb |-> mem[k].nb, nc |-> mem[k].nc]
DelEntry(k) == [k |-> k, del |-> TRUE, pos |-> 0, len |-> 0, seq |-> 0, nb |-> FALSE, nc |-> FALSE]
LogEntry(k) == IF mem[k].in THEN IdxEntry(k) ELSE DelEntry(k)

\* loaddat / loadlog: replay one entry into st = [mem, need, extra, used, max]
LoadEnt(st, e) ==
    IF e.del
    THEN LET a == DelAcc(st.mem, e.k, st.need, st.extra, vol) IN
         [st EXCEPT !.mem = [@ EXCEPT ![e.k] = NoRec], !.need = a[1], !.extra = a[2]]
    ELSE LET a == PutAcc(st.mem, e.k, e.len, st.need, st.extra, vol) IN
         [mem |-> [st.mem EXCEPT ![e.k] = [in |-> TRUE, ld |-> FALSE, val |-> 0, seq |-> e.seq, pos |-> e.pos,
                                            len |-> e.len, nb |-> e.nb, nc |-> e.nc]],
          need |-> a[1], extra |-> a[2], used |-> st.used \cup {e.seq}, max |-> Max(st.max, e.seq)]
RECURSIVE LoadSeq(_, _, _)
LoadSeq(st, s, i) == IF i > Len(s) THEN st ELSE LoadSeq(LoadEnt(st, s[i]), s, i + 1)
LoadSet(st, S) == LET ks == Sorted({e.k : e \in S})
                      q  == [i \in 1..Len(ks) |-> CHOOSE e \in S : e.k = ks[i]]
                  IN LoadSeq(st, q, 1)

SyncNeeded(p) == ~vol /\ (Cardinality(p) > MaxPendingNoSync \/ (~noSync /\ Cardinality(p) > MaxPending))

-----------------------------------------------------------------------------
Init ==
    /\ open = FALSE /\ vol = FALSE /\ ldData = FALSE /\ mem = EmptyMem /\ pending = {}
    /\ dataSeq = 0 /\ verSeq = 0 /\ idxSel = 0 /\ maxSeq = 0 /\ need = 0 /\ extra = 0 /\ noSync = FALSE
    /\ datOpen = FALSE /\ logOpen = FALSE /\ pc = "idle" /\ stack = <<>> /\ todo = {} /\ used = {} /\ cur = 0
    /\ datF = <<>> /\ idxF = [i \in 0..1 |-> NoIdx] /\ logF = NoLog
    /\ ref = [k \in Keys |-> 0] /\ refNB = {} /\ synced = [k \in Keys |-> 0]
    /\ since = [k \in Keys |-> {}] /\ written = [k \in Keys |-> {}]
    /\ failed = FALSE /\ ops = 0 /\ crashes = 0 /\ reopens = 0

\* the process is gone (Close finished, SIGKILL, os.Exit, panic)
ResetVolatile ==
    /\ open' = FALSE /\ vol' = FALSE /\ ldData' = FALSE /\ mem' = EmptyMem /\ pending' = {}
    /\ dataSeq' = 0 /\ verSeq' = 0 /\ idxSel' = 0 /\ maxSeq' = 0 /\ need' = 0 /\ extra' = 0 /\ noSync' = FALSE
    /\ datOpen' = FALSE /\ logOpen' = FALSE /\ pc' = "idle" /\ stack' = <<>> /\ todo' = {} /\ used' = {} /\ cur' = 0

\* os.Exit(1) / panic
Fail == failed' = TRUE /\ ResetVolatile /\ UNCHANGED <<files, ghosts, ops, crashes, reopens>>

Api == open /\ pc = "idle" /\ ~failed /\ ops < MaxOps /\ ops' = ops + 1 /\ UNCHANGED <<crashes, reopens, failed>>

\* where a finished procedure returns to
Ret(stk) == IF stk = <<>> THEN "idle" ELSE IF stk[Len(stk)] = "close" THEN "close_end" ELSE "sync_end"

-----------------------------------------------------------------------------
(* API calls *)

\* after Put/PutExt/Del: volatile mode only sets NoSyncMode; otherwise pending + maybe "go sync()"
AfterWrite(k) ==
    IF vol THEN /\ noSync' = TRUE /\ UNCHANGED <<pending, pc, stack>>
    ELSE /\ pending' = pending \cup {k}
         /\ UNCHANGED noSync
         /\ IF SyncNeeded(pending \cup {k})
            THEN pc' = "sync_begin" /\ stack' = <<"sync">>
            ELSE UNCHANGED <<pc, stack>>

Put(k, v, fl) ==
    /\ Api
    /\ LET a == PutAcc(mem, k, VLen[v], need, extra, vol) IN need' = a[1] /\ extra' = a[2]
    /\ mem' = [mem EXCEPT ![k] = [in |-> TRUE, ld |-> TRUE, val |-> v, seq |-> 0, pos |-> 0, len |-> VLen[v],
                                  nb |-> (fl % 2 = 1), nc |-> (fl \div 2 = 1)]]
    /\ AfterWrite(k)
    /\ ref' = [ref EXCEPT ![k] = v]
    /\ refNB' = IF fl % 2 = 1 THEN refNB \cup {k} ELSE refNB \ {k}
    /\ since' = [since EXCEPT ![k] = @ \cup {v}]
    /\ written' = [written EXCEPT ![k] = @ \cup {v}]
    /\ UNCHANGED <<open, vol, ldData, dataSeq, verSeq, idxSel, maxSeq, datOpen, logOpen, todo, used, cur, files, synced>>

Del(k) ==
    /\ Api
    /\ LET a == DelAcc(mem, k, need, extra, vol) IN need' = a[1] /\ extra' = a[2]
    /\ mem' = [mem EXCEPT ![k] = NoRec]
    /\ AfterWrite(k)
    /\ ref' = [ref EXCEPT ![k] = 0]
    /\ refNB' = refNB \ {k}
    /\ since' = [since EXCEPT ![k] = @ \cup {0}]
    /\ UNCHANGED <<open, vol, ldData, dataSeq, verSeq, idxSel, maxSeq, datOpen, logOpen, todo, used, cur, files, synced, written>>

\* DB.Get: loadrec + YES_CACHE
GetResult(k) == ContentOf(mem[k])
Get(k) ==
    IF open /\ pc = "idle" /\ mem[k].in /\ ~mem[k].ld /\ ReadCell(mem[k].seq, mem[k].pos) = Missing
    THEN ~failed /\ ops < MaxOps /\ Fail
    ELSE /\ Api
         /\ mem' = IF mem[k].in THEN [mem EXCEPT ![k] = [@ EXCEPT !.ld = TRUE, !.val = ContentOf(mem[k]), !.nc = FALSE]] ELSE mem
         /\ UNCHANGED <<open, vol, ldData, pending, dataSeq, verSeq, idxSel, maxSeq, need, extra, noSync, datOpen, logOpen,
                        pc, stack, todo, used, cur, files, ghosts>>

\* DB.Browse (all = FALSE) / BrowseAll (all = TRUE): vis = records handed to the walk function,
\* the walk returns flag f for key k0 and 0 for every other record
Visitable(all) == {k \in Keys : mem[k].in /\ (all \/ ~mem[k].nb)}
BrowseObs(all) == {<<k, ContentOf(mem[k])>> : k \in Visitable(all)}
BrowseOp(all, vis, k0, f) ==
    /\ vis \subseteq Visitable(all)
    /\ IF open /\ pc = "idle" /\ \E k \in vis : ~mem[k].ld /\ ReadCell(mem[k].seq, mem[k].pos) = Missing
       THEN ~failed /\ ops < MaxOps /\ Fail
       ELSE /\ Api
            /\ mem' = [k \in Keys |->
                          IF k \in vis
                          THEN FreeRec(ApplyFl([mem[k] EXCEPT !.ld = TRUE, !.val = ContentOf(mem[k])], IF k = k0 THEN f ELSE "none"))
                          ELSE mem[k]]
            /\ refNB' = IF k0 \in vis /\ f = "NB" THEN refNB \cup {k0}
                        ELSE IF k0 \in vis /\ f = "YB" THEN refNB \ {k0} ELSE refNB
            /\ UNCHANGED <<open, vol, ldData, pending, dataSeq, verSeq, idxSel, maxSeq, need, extra, noSync, datOpen, logOpen,
                           pc, stack, todo, used, cur, files, ref, synced, since, written>>

ApplyFlags(k, f) ==
    /\ Api
    /\ mem' = IF mem[k].in THEN [mem EXCEPT ![k] = ApplyFl(@, f)] ELSE mem
    /\ refNB' = IF mem[k].in /\ f = "NB" THEN refNB \cup {k} ELSE IF mem[k].in /\ f = "YB" THEN refNB \ {k} ELSE refNB
    /\ UNCHANGED <<open, vol, ldData, pending, dataSeq, verSeq, idxSel, maxSeq, need, extra, noSync, datOpen, logOpen,
                   pc, stack, todo, used, cur, files, ref, synced, since, written>>

DefragDoing(force) == ~vol /\ (force \/ extra > (DefragPerc * need) \div 100)
Defrag(force) ==
    /\ Api
    /\ IF DefragDoing(force) THEN pc' = "defrag_begin" /\ stack' = <<"defrag">> ELSE UNCHANGED <<pc, stack>>
    /\ UNCHANGED <<open, vol, ldData, mem, pending, dataSeq, verSeq, idxSel, maxSeq, need, extra, noSync, datOpen, logOpen,
                   todo, used, cur, files, ghosts>>

Sync ==
    /\ Api
    /\ IF vol THEN UNCHANGED <<noSync, pc, stack>>
       ELSE noSync' = FALSE /\ pc' = "sync_begin" /\ stack' = <<"sync">>
    /\ UNCHANGED <<open, vol, ldData, mem, pending, dataSeq, verSeq, idxSel, maxSeq, need, extra, datOpen, logOpen,
                   todo, used, cur, files, ghosts>>

NoSync ==
    /\ Api
    /\ noSync' = IF vol THEN noSync ELSE TRUE
    /\ UNCHANGED <<open, vol, ldData, mem, pending, dataSeq, verSeq, idxSel, maxSeq, need, extra, datOpen, logOpen,
                   pc, stack, todo, used, cur, files, ghosts>>

Close ==
    /\ Api
    /\ IF vol
       THEN IF noSync THEN pc' = "defrag_begin" /\ stack' = <<"close", "defrag">>
                      ELSE pc' = "close_end" /\ stack' = <<"close">>
       ELSE pc' = "sync_begin" /\ stack' = <<"close", "sync">>
    /\ UNCHANGED <<open, vol, ldData, mem, pending, dataSeq, verSeq, idxSel, maxSeq, need, extra, noSync, datOpen, logOpen,
                   todo, used, cur, files, ghosts>>

\* NewDBExt(Volatile = v, LoadData = ld) on the directory as it is
Open(v, ld) ==
    /\ ~open /\ pc = "idle" /\ ~failed /\ reopens < MaxReopen
    /\ reopens' = reopens + 1
    /\ vol' = v /\ ldData' = ld
    /\ pc' = "load_idx" /\ stack' = <<"open">>
    /\ UNCHANGED <<open, mem, pending, dataSeq, verSeq, idxSel, maxSeq, need, extra, noSync, datOpen, logOpen, todo, used, cur,
                   files, ghosts, failed, ops, crashes>>

\* the process dies (SIGKILL): completed file operations stay, everything volatile is gone
Crash ==
    /\ (open \/ pc # "idle") /\ ~failed /\ crashes < MaxCrash
    /\ crashes' = crashes + 1
    /\ ResetVolatile
    /\ UNCHANGED <<files, ghosts, failed, ops, reopens>>

-----------------------------------------------------------------------------
(* internal steps: one file operation each *)

Stp(p) == pc = p /\ ~failed /\ UNCHANGED <<ops, crashes, reopens>>

LogStart == IF logOpen THEN "log_append" ELSE "log_create"
AfterDat(td) == IF \E k \in td : mem[k].in THEN "sync_data" ELSE LogStart

CleanCands(dom, u, c, ds) == {s \in dom : s > c /\ s # ds /\ s \notin u}
CleanStart(u, ds) == IF CleanCands(DOMAIN datF, u, 0, ds) = {} THEN "cleanup_end" ELSE "dat_remove"

\* sync(): entered (non-volatile)
SyncBegin ==
    /\ Stp("sync_begin")
    /\ todo' = pending
    /\ pc' = IF pending = {} THEN "sync_end" ELSE IF ~datOpen THEN "dat_create" ELSE AfterDat(pending)
    /\ UNCHANGED <<open, vol, ldData, mem, pending, dataSeq, verSeq, idxSel, maxSeq, need, extra, noSync, datOpen, logOpen,
                   stack, used, cur, files, ghosts, failed>>

\* DB.checklogfile(): os.Create(<DataSeq>.dat)
DatCreate ==
    /\ Stp("dat_create")
    /\ datF' = [s \in DOMAIN datF \cup {dataSeq} |-> IF s = dataSeq THEN [hdr |-> FALSE, cells |-> <<>>] ELSE datF[s]]
    /\ datOpen' = TRUE
    /\ pc' = "dat_hdr"
    /\ UNCHANGED <<open, vol, ldData, mem, pending, dataSeq, verSeq, idxSel, maxSeq, need, extra, noSync, logOpen,
                   stack, todo, used, cur, idxF, logF, ghosts, failed>>

\* DB.checklogfile(): 4-byte sequence header
DatHdr ==
    /\ Stp("dat_hdr")
    /\ datF' = [datF EXCEPT ![dataSeq].hdr = TRUE]
    /\ pc' = IF Top = "sync" THEN AfterDat(todo) ELSE "defrag_flush"
    /\ UNCHANGED <<open, vol, ldData, mem, pending, dataSeq, verSeq, idxSel, maxSeq, need, extra, noSync, datOpen, logOpen,
                   stack, todo, used, cur, idxF, logF, ghosts, failed>>

\* sync(): one pending record appended to the data file (map order: any key)
SyncData ==
    \E k \in todo :
      /\ mem[k].in
      /\ IF ~mem[k].ld /\ (~FixNoCache \/ ReadCell(mem[k].seq, mem[k].pos) = Missing)
         THEN pc = "sync_data" /\ ~failed /\ Fail             \* rec.Slice() on freed data panics / loadrec exits
         ELSE /\ Stp("sync_data")
              /\ LET v == ContentOf(mem[k]) IN
                 /\ datF' = [datF EXCEPT ![dataSeq].cells = Append(@, v)]
                 /\ mem' = [mem EXCEPT ![k] = [@ EXCEPT !.seq = dataSeq, !.pos = Len(datF[dataSeq].cells) + 1,
                                                        !.ld = ~mem[k].nc, !.val = IF mem[k].nc THEN 0 ELSE v]]
              /\ todo' = todo \ {k}
              /\ pc' = AfterDat(todo \ {k})
              /\ UNCHANGED <<open, vol, ldData, pending, dataSeq, verSeq, idxSel, maxSeq, need, extra, noSync, datOpen, logOpen,
                             stack, used, cur, idxF, logF, ghosts, failed>>

\* QdbIndex.checklogfile(): os.Create(qdbidx.log)
LogCreate ==
    /\ Stp("log_create")
    /\ logF' = [ex |-> TRUE, hdr |-> FALSE, seq |-> 0, ents |-> <<>>]
    /\ logOpen' = TRUE
    /\ pc' = "log_hdr"
    /\ UNCHANGED <<open, vol, ldData, mem, pending, dataSeq, verSeq, idxSel, maxSeq, need, extra, noSync, datOpen,
                   stack, todo, used, cur, datF, idxF, ghosts, failed>>

LogHdr ==
    /\ Stp("log_hdr")
    /\ logF' = [logF EXCEPT !.hdr = TRUE, !.seq = verSeq]
    /\ pc' = "log_append"
    /\ UNCHANGED <<open, vol, ldData, mem, pending, dataSeq, verSeq, idxSel, maxSeq, need, extra, noSync, datOpen, logOpen,
                   stack, todo, used, cur, datF, idxF, ghosts, failed>>

\* QdbIndex.writebuf(): all index changes of this sync() in one write; sync() is complete
LogAppend ==
    /\ Stp("log_append")
    /\ LET ks == Sorted(pending) IN
       logF' = [logF EXCEPT !.ents = @ \o [i \in 1..Len(ks) |-> LogEntry(ks[i])]]
    /\ pending' = {}
    /\ synced' = ref
    /\ since' = [k \in Keys |-> {}]
    /\ IF extra > (ForcedPerc * need) \div 100
       THEN pc' = "defrag_begin" /\ stack' = Append(stack, "defrag")
       ELSE pc' = "sync_end" /\ UNCHANGED stack
    /\ UNCHANGED <<open, vol, ldData, mem, dataSeq, verSeq, idxSel, maxSeq, need, extra, noSync, datOpen, logOpen,
                   todo, used, cur, datF, idxF, ref, refNB, written, failed>>

SyncEnd ==
    /\ Stp("sync_end")
    /\ stack' = Pop
    /\ pc' = Ret(Pop)
    /\ UNCHANGED <<open, vol, ldData, mem, pending, dataSeq, verSeq, idxSel, maxSeq, need, extra, noSync, datOpen, logOpen,
                   todo, used, cur, files, ghosts, failed>>

\* defrag(): DataSeq++, current data file closed
DefragBegin ==
    /\ Stp("defrag_begin")
    /\ dataSeq' = dataSeq + 1
    /\ datOpen' = FALSE
    /\ pc' = "dat_create"
    /\ UNCHANGED <<open, vol, ldData, mem, pending, verSeq, idxSel, maxSeq, need, extra, noSync, logOpen,
                   stack, todo, used, cur, files, ghosts, failed>>

\* defrag(): every record (loaded from its old file if necessary) written to the new data file, flushed
DefragFlush ==
    LET ks == Sorted({k \in Keys : mem[k].in}) IN
    IF \E k \in Keys : mem[k].in /\ ~mem[k].ld /\ ReadCell(mem[k].seq, mem[k].pos) = Missing
    THEN pc = "defrag_flush" /\ ~failed /\ Fail
    ELSE /\ Stp("defrag_flush")
         /\ datF' = [datF EXCEPT ![dataSeq].cells = @ \o [i \in 1..Len(ks) |-> ContentOf(mem[ks[i]])]]
         /\ mem' = [k \in Keys |->
                      IF ~mem[k].in THEN mem[k]
                      ELSE LET i == CHOOSE j \in 1..Len(ks) : ks[j] = k IN
                           FreeRec([mem[k] EXCEPT !.ld = TRUE, !.val = ContentOf(mem[k]), !.seq = dataSeq,
                                                  !.pos = Len(datF[dataSeq].cells) + i])]
         /\ pc' = "idx_create"
         /\ UNCHANGED <<open, vol, ldData, pending, dataSeq, verSeq, idxSel, maxSeq, need, extra, noSync, datOpen, logOpen,
                        stack, todo, used, cur, idxF, logF, ghosts, failed>>

\* writedatfile(): the other snapshot file is created (truncated)
IdxCreate ==
    /\ Stp("idx_create")
    /\ idxSel' = 1 - idxSel
    /\ verSeq' = verSeq + 1
    /\ idxF' = [idxF EXCEPT ![1 - idxSel] = [ex |-> TRUE, fini |-> FALSE, seq |-> 0, ents |-> {}]]
    /\ pc' = "idx_write"
    /\ UNCHANGED <<open, vol, ldData, mem, pending, dataSeq, maxSeq, need, extra, noSync, datOpen, logOpen,
                   stack, todo, used, cur, datF, logF, ghosts, failed>>

\* writedatfile(): sequence, all entries, ffffffff-sequence-FINI; everything in memory is durable now
IdxWrite ==
    /\ Stp("idx_write")
    /\ idxF' = [idxF EXCEPT ![idxSel] = [ex |-> TRUE, fini |-> TRUE, seq |-> verSeq,
                                         ents |-> {IdxEntry(k) : k \in {x \in Keys : mem[x].in}}]]
    /\ synced' = ref
    /\ since' = [k \in Keys |-> {}]
    /\ pc' = "log_remove"
    /\ UNCHANGED <<open, vol, ldData, mem, pending, dataSeq, verSeq, idxSel, maxSeq, need, extra, noSync, datOpen, logOpen,
                   stack, todo, used, cur, datF, logF, ref, refNB, written, failed>>

LogRemove ==
    /\ Stp("log_remove")
    /\ logF' = NoLog
    /\ logOpen' = FALSE
    /\ pc' = "idx_remove"
    /\ UNCHANGED <<open, vol, ldData, mem, pending, dataSeq, verSeq, idxSel, maxSeq, need, extra, noSync, datOpen,
                   stack, todo, used, cur, datF, idxF, ghosts, failed>>

\* writedatfile(): previous snapshot removed; cleanupold({DataSeq}) starts
IdxRemove ==
    /\ Stp("idx_remove")
    /\ idxF' = [idxF EXCEPT ![1 - idxSel] = NoIdx]
    /\ used' = {dataSeq}
    /\ cur' = 0
    /\ pc' = CleanStart({dataSeq}, dataSeq)
    /\ UNCHANGED <<open, vol, ldData, mem, pending, dataSeq, verSeq, idxSel, maxSeq, need, extra, noSync, datOpen, logOpen,
                   stack, todo, datF, logF, ghosts, failed>>

\* cleanupold(): one unreferenced data file removed (directory order = sequence order)
DatRemove ==
    /\ Stp("dat_remove")
    /\ LET s == MinOf(CleanCands(DOMAIN datF, used, cur, dataSeq)) IN
       /\ datF' = [x \in DOMAIN datF \ {s} |-> datF[x]]
       /\ cur' = s
       /\ pc' = IF CleanCands(DOMAIN datF \ {s}, used, s, dataSeq) = {} THEN "cleanup_end" ELSE "dat_remove"
    /\ UNCHANGED <<open, vol, ldData, mem, pending, dataSeq, verSeq, idxSel, maxSeq, need, extra, noSync, datOpen, logOpen,
                   stack, todo, used, idxF, logF, ghosts, failed>>

CleanupEnd ==
    /\ Stp("cleanup_end")
    /\ pc' = IF Top = "defrag" THEN "defrag_end" ELSE "open_end"
    /\ UNCHANGED <<open, vol, ldData, mem, pending, dataSeq, verSeq, idxSel, maxSeq, need, extra, noSync, datOpen, logOpen,
                   stack, todo, used, cur, files, ghosts, failed>>

DefragEnd ==
    /\ Stp("defrag_end")
    /\ extra' = 0
    /\ stack' = Pop
    /\ pc' = Ret(Pop)
    /\ UNCHANGED <<open, vol, ldData, mem, pending, dataSeq, verSeq, idxSel, maxSeq, need, noSync, datOpen, logOpen,
                   todo, used, cur, files, ghosts, failed>>

\* Close(): handles closed, object dead
CloseEnd ==
    /\ Stp("close_end")
    /\ ResetVolatile
    /\ UNCHANGED <<files, ghosts, failed>>

-----------------------------------------------------------------------------
(* NewDBidx: loaddat (loadneweridx), loadlog, cleanupold;  NewDBExt: Idx.load, DataSeq *)

IdxValid(i) == idxF[i].ex /\ idxF[i].fini

LoadIdx ==
    /\ Stp("load_idx")
    /\ LET v0 == IdxValid(0)
           v1 == IdxValid(1)
           win == IF v0 /\ v1 THEN (IF idxF[0].seq - idxF[1].seq >= 0 THEN 0 ELSE 1)
                  ELSE IF v1 THEN 1 ELSE 0
           st0 == [mem |-> EmptyMem, need |-> 0, extra |-> 0, used |-> {}, max |-> 0]
       IN IF ~v0 /\ ~v1
          THEN UNCHANGED <<idxF, mem, need, extra, used, maxSeq, idxSel, verSeq>>      \* "no valid file": nothing removed
          ELSE LET st == LoadSet(st0, idxF[win].ents) IN
               /\ idxF' = [idxF EXCEPT ![1 - win] = NoIdx]
               /\ idxSel' = win /\ verSeq' = idxF[win].seq
               /\ mem' = st.mem /\ need' = st.need /\ extra' = st.extra /\ used' = st.used /\ maxSeq' = st.max
    /\ pc' = "load_log"
    /\ UNCHANGED <<open, vol, ldData, pending, dataSeq, noSync, datOpen, logOpen, stack, todo, cur, datF, logF, ghosts, failed>>

\* first four bytes of the log file as loadlog reads them: -1 = bytes of an entry (no header was written)
LogSeqRead == IF logF.hdr THEN logF.seq ELSE IF logF.ents = <<>> THEN 0 ELSE -1

LoadLog ==
    /\ Stp("load_log")
    /\ cur' = 0
    /\ IF ~logF.ex
       THEN /\ UNCHANGED <<logF, logOpen, mem, need, extra, maxSeq>>
            /\ used' = used
       ELSE IF LogSeqRead # verSeq \/ (FixLogHdr /\ ~logF.hdr)
       THEN /\ logF' = NoLog /\ logOpen' = FALSE                    \* "incorrect seq in the log file": removed
            /\ UNCHANGED <<mem, need, extra, maxSeq>>
            /\ used' = used
       ELSE LET st == LoadSeq([mem |-> mem, need |-> need, extra |-> extra, used |-> used, max |-> maxSeq], logF.ents, 1) IN
            /\ logOpen' = TRUE /\ UNCHANGED logF
            /\ mem' = st.mem /\ need' = st.need /\ extra' = st.extra /\ used' = st.used /\ maxSeq' = st.max
    /\ pc' = CleanStart(used', 0)
    /\ UNCHANGED <<open, vol, ldData, pending, dataSeq, verSeq, idxSel, noSync, datOpen, stack, todo, datF, idxF, ghosts, failed>>

Recovered(m) == [k \in Keys |-> ContentOf(m[k])]

OpenEnd ==
    LET loadNow(k) == mem[k].in /\ ldData /\ ~mem[k].nc IN
    IF \E k \in Keys : loadNow(k) /\ ReadCell(mem[k].seq, mem[k].pos) \in {Missing, Bad}
    THEN pc = "open_end" /\ ~failed /\ Fail            \* "Database corrupt - missing file" / slice out of range
    ELSE /\ Stp("open_end")
         /\ mem' = [k \in Keys |-> IF loadNow(k) THEN [mem[k] EXCEPT !.ld = TRUE, !.val = ContentOf(mem[k])] ELSE mem[k]]
         /\ dataSeq' = maxSeq + 1
         /\ maxSeq' = 0 /\ used' = {} /\ cur' = 0
         /\ open' = TRUE /\ pc' = "idle" /\ stack' = <<>>
         \* the client sees the recovered contents from now on
         /\ ref' = Recovered(mem) /\ synced' = Recovered(mem)
         /\ refNB' = {k \in Keys : mem[k].in /\ mem[k].nb}
         /\ since' = [k \in Keys |-> {}]
         /\ UNCHANGED <<vol, ldData, pending, verSeq, idxSel, need, extra, noSync, datOpen, logOpen, todo, files, written, failed>>

-----------------------------------------------------------------------------
Internal ==
    \/ SyncBegin \/ DatCreate \/ DatHdr \/ SyncData \/ LogCreate \/ LogHdr \/ LogAppend \/ SyncEnd
    \/ DefragBegin \/ DefragFlush \/ IdxCreate \/ IdxWrite \/ LogRemove \/ IdxRemove \/ DatRemove \/ CleanupEnd
    \/ DefragEnd \/ CloseEnd \/ LoadIdx \/ LoadLog \/ OpenEnd

FirstKey == MinOf(Keys)
Browse(k0, f)    == BrowseOp(FALSE, Visitable(FALSE), k0, f) /\ (IF f = "none" THEN k0 = FirstKey ELSE k0 \in Visitable(FALSE))
BrowseAll(k0, f) == BrowseOp(TRUE, Visitable(TRUE), k0, f) /\ (IF f = "none" THEN k0 = FirstKey ELSE k0 \in Visitable(TRUE))

ApiNext ==
    \/ \E k \in Keys, v \in Vals, fl \in PutFlags : Put(k, v, fl)
    \/ \E k \in Keys : Del(k) \/ Get(k)
    \/ \E k \in Keys, f \in BrowseRes : Browse(k, f)
    \/ \E k \in Keys, f \in AllRes : BrowseAll(k, f)
    \/ \E k \in Keys, f \in ApplyRes : ApplyFlags(k, f)
    \/ \E force \in BOOLEAN : Defrag(force)
    \/ Sync \/ NoSync \/ Close
    \/ \E v \in VolModes, ld \in LoadModes : Open(v, ld)

Next == ApiNext \/ Internal \/ Crash

Spec == Init /\ [][Next]_vars

-----------------------------------------------------------------------------
(* Properties (C19) *)

TypeOK ==
    /\ open \in BOOLEAN /\ vol \in BOOLEAN /\ pending \subseteq Keys /\ todo \subseteq Keys
    /\ dataSeq \in Nat /\ verSeq \in Nat /\ idxSel \in 0..1 /\ need \in Nat /\ extra \in Nat
    /\ \A k \in Keys : ref[k] \in Vals \cup {0} /\ written[k] \subseteq Vals
    /\ refNB \subseteq Keys

Quiet == open /\ pc = "idle"

\* Get / Browse / BrowseAll / Count show exactly the reference map (NO_BROWSE records hidden from Browse)
CountObs == Cardinality({k \in Keys : mem[k].in})
MapEquivalence ==
    Quiet => /\ \A k \in Keys : GetResult(k) = ref[k]
             /\ CountObs = Cardinality({k \in Keys : ref[k] # 0})
             /\ BrowseObs(TRUE) = {<<k, ref[k]>> : k \in {x \in Keys : ref[x] # 0}}
             /\ BrowseObs(FALSE) = {<<k, ref[k]>> : k \in {x \in Keys : ref[x] # 0 /\ x \notin refNB}}

\* every record that claims to be on disk points at its own bytes in an existing data file
NoDanglingRef ==
    Quiet => \A k \in Keys : (mem[k].in /\ mem[k].pos # 0) => ReadCell(mem[k].seq, mem[k].pos) = ref[k]

\* the store never exits / panics (missing data file, freed record)
ReopenNeverFails == ~failed

\* after a (re)open every key holds its value at the last completed sync or a later written one
DurableStep ==
    (pc = "open_end" /\ open') =>
        \A k \in Keys : /\ ContentOf(mem'[k]) \in {synced[k]} \cup since[k]
                        /\ ContentOf(mem'[k]) \in written[k] \cup {0}
DurableAfterReopen == [][DurableStep]_vars

\* pending covers every unsynced write (non-volatile mode)
PendingCovers == (Quiet /\ ~vol) => \A k \in Keys : since[k] # {} => k \in pending
=============================================================================
