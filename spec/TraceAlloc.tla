---------------------------- MODULE TraceAlloc ----------------------------
(* Trace validation (R->V).  The hooks in lib/others/memory emit one event *)
(* inside the class lock per state change, so the per-class order of the   *)
(* recorded events is the linearisation order.  Addresses are normalised   *)
(* by the harness to <<page id by first appearance in the class, slot>>.   *)
(*                                                                         *)
(* Strict = TRUE : the recorded run must be a behaviour of Alloc: every    *)
(*   returned slot is the one the deterministic choice of the model yields *)
(*   (bump the current page, else the head of the class free list, else a  *)
(*   new page), every relocation moves the slot the model moves to the     *)
(*   slot the model picks, page selection is a legal outcome of the sort,  *)
(*   and the bookkeeping the harness reads back at quiescent points (page  *)
(*   list, headers, both free lists) equals the model's.  All invariants   *)
(*   of Alloc are evaluated in every state.                                *)
(* Strict = FALSE: only what property C20 itself demands is checked, with  *)
(*   no assumption about allocation policy: a returned slot lies in a      *)
(*   linked page below the capacity, is long enough and is not live; a     *)
(*   freed slot is live; a relocation moves a live slot of an evacuated    *)
(*   page to a slot that is not live, after exactly one callback; a page   *)
(*   leaves the class with no live slot; the free lists read back never    *)
(*   hold a live slot, hold no slot twice and agree with each other; the   *)
(*   counters are exact.                                                   *)
(* In both readings a class is defragmented only when the pass            *)
(* (DefragAllImproved) chose it, and by one defragClass call per pass:     *)
(* the per-class state is protected by "one goroutine per class".          *)
(* A trace rejected under Strict but accepted without is a difference of   *)
(* policy between model and code (the check reports it as a machinery      *)
(* problem, not as a violation); rejected by both is a violation.          *)
EXTENDS Alloc, Json

CONSTANT Strict

Trace == ndJsonDeserialize("trace.ndjson")
Opts == JsonDeserialize("opts.json")
CapTrace == [c \in Classes |-> Opts.capseq[c]]
SlotDataTrace == [c \in Classes |-> Opts.dataseq[c]]

VARIABLES l,      \* next event
          cbq,    \* [Classes -> callbacks seen and not yet matched by the relocation they belong to]
          due     \* DefragAllImproved: [Classes -> 0 | 1 = the pass decided to defragment the class (one goroutine
                  \* is started for it) | 2 = defragClass is running / has run for it in this pass]

tvars == <<vars, l, cbq, due>>

Ev(e) == l <= Len(Trace) /\ Trace[l].ev = e /\ l' = l + 1
E == Trace[l]

Globals == <<allocs, privMmaps, sharedMmaps, bytes, cache, pc, ops, defrags>>
OnlyCls == UNCHANGED <<privs, dfr, cbq, due>> /\ UNCHANGED Globals
OnlyClsDfr == UNCHANGED <<privs, cbq, due>> /\ UNCHANGED Globals

Slots(w) == [i \in 1..Len(w) |-> w[i][2]]
LiveAt(c, a) == {x \in cls[c].live : x.a = a}
LiveIn(C, p) == {x \in C.live : x.a[1] = p}

TInit == Init /\ l = 1 /\ cbq = [c \in Classes |-> <<>>] /\ due = [c \in Classes |-> 0] /\ TLCSet(1, 1)

TReset ==
    /\ Ev("Reset")
    /\ cls' = [c \in Classes |-> ClassInit] /\ privs' = {} /\ dfr' = [c \in Classes |-> DfrOff]
    /\ cbq' = [c \in Classes |-> <<>>] /\ due' = [c \in Classes |-> 0]
    /\ UNCHANGED Globals

\* linkSharedPage / newSharedPageLocal
TLink ==
    /\ Ev("link")
    /\ LET c == E.c IN
       /\ IF Strict THEN NeedPage(cls[c]) /\ E.p = cls[c].nextPg + 1
                    ELSE E.p > 0 /\ E.p \notin Range(cls[c].pages)
       /\ cls' = [cls EXCEPT ![c] = IF Strict THEN Link(@, Cap[c])
                                    ELSE [@ EXCEPT !.pages = Append(@, E.p), !.nextPg = E.p]]
    /\ OnlyCls

\* Malloc, after the page test
TMalloc ==
    /\ Ev("malloc")
    /\ LET c == E.c
           a == <<E.p, E.s>>
           rec == [a |-> a, id |-> E.id, len |-> E.len]
       IN IF Strict
          THEN /\ ~NeedPage(cls[c])
               /\ E.aligned
               /\ ClassOf(E.len) = c
               /\ LET tk == Take(cls[c], Cap[c]) IN
                  /\ tk.r = a
                  /\ cls' = [cls EXCEPT ![c] = [tk.C EXCEPT !.live = Enum(@ \cup {rec})]]
          ELSE /\ E.aligned
               /\ E.p \in Range(cls[c].pages) /\ E.s \in 0..(Cap[c] - 1)
               /\ LiveAt(c, a) = {}
               /\ E.len <= SlotData[c]
               /\ cls' = [cls EXCEPT ![c].live = Enum(@ \cup {rec})]
    /\ OnlyCls

TFree ==
    /\ Ev("free")
    /\ LET c == E.c
           xs == LiveAt(c, <<E.p, E.s>>)
       IN /\ xs # {}
          /\ LET x == CHOOSE y \in xs : TRUE IN
             IF Strict
             THEN E.released = 0 /\ FreeSection(c, x) /\ UNCHANGED <<allocs, pc, ops, cbq, due>>
             ELSE /\ E.released = 0
                  /\ cls' = [cls EXCEPT ![c].live = Enum(@ \ {x})]
                  /\ OnlyCls

TPMalloc ==
    /\ Ev("pmalloc")
    /\ E.id > 0 /\ \A x \in privs : x.id # E.id
    /\ \A c \in Classes : E.len > SlotData[c]
    /\ PMallocSection(E.len, E.id)
    /\ UNCHANGED <<allocs, pc, ops, cbq, due>>

TPFree ==
    /\ Ev("pfree")
    /\ LET xs == {x \in privs : x.id = E.id} IN
       /\ xs # {}
       /\ PFreeSection(CHOOSE x \in xs : TRUE)
    /\ UNCHANGED <<allocs, pc, ops, cbq, due>>

\* DefragAllImproved: "for every class over the threshold: one goroutine runs defragClass(that class)".
\* The property's mechanism (per-class state touched by one goroutine at a time) rests on it, so it is
\* demanded in both readings: a class is defragmented only if the pass chose it, and once per pass.
TDall ==
    /\ Ev("dall")
    /\ due[E.c] = 0 /\ ~dfr[E.c].on
    /\ Strict => PotFree(cls[E.c], Cap[E.c]) >= TrigMin         \* the threshold itself is policy
    /\ due' = [due EXCEPT ![E.c] = 1]
    /\ UNCHANGED <<vars, cbq>>

TDbegin ==
    /\ Ev("dbegin")
    /\ due[E.c] = 1                                              \* chosen by the pass, not yet running
    /\ due' = [due EXCEPT ![E.c] = 2]
    /\ UNCHANGED <<vars, cbq>>

TDallEnd ==
    /\ Ev("dallend")
    /\ \A c \in Classes : due[c] # 1 /\ ~dfr[c].on                 \* every chosen class was served, all are done
    /\ due' = [c \in Classes |-> 0]
    /\ UNCHANGED <<vars, cbq>>

\* defragClass: selection made, pages marked, their free slots off the class list
TDsel ==
    /\ Ev("dsel")
    /\ due[E.c] = 2
    /\ LET c == E.c
           sel == E.pages
       IN IF Strict
          THEN DefragSelect(c, sel)
          ELSE /\ ~dfr[c].on /\ Len(sel) >= 1
               /\ \A i \in 1..Len(sel) : sel[i] \in Range(cls[c].pages)
               /\ NoDup(sel)
               /\ dfr' = [dfr EXCEPT ![c] = [DfrOff EXCEPT !.on = TRUE, !.sel = sel, !.i = 1,
                                                            !.toMove = {x.id : x \in {y \in cls[c].live : y.a[1] \in Range(sel)}}]]
               /\ UNCHANGED cls
    /\ OnlyClsDfr

\* the relocate callback as the harness saw it: old slice, new slice, new holds the old contents
TCb ==
    /\ Ev("cb")
    /\ LET c == E.c IN
       /\ dfr[c].on /\ cbq[c] = <<>>
       /\ E.ok
       /\ cbq' = [cbq EXCEPT ![c] = <<[o |-> <<E.p, E.s>>, n |-> <<E.np, E.ns>>]>>]
    /\ UNCHANGED <<vars, due>>

\* one live slot moved (classMalloc, copy, callback, classFree)
TReloc ==
    /\ Ev("reloc")
    /\ LET c == E.c
           o == <<E.p, E.s>>
           n == <<E.np, E.ns>>
           d == dfr[c]
       IN /\ d.on
          /\ cbq[c] = <<[o |-> o, n |-> n]>>          \* exactly one callback, for this move
          /\ cbq' = [cbq EXCEPT ![c] = <<>>]
          /\ IF Strict
             THEN /\ d.i <= Len(d.sel) /\ UsedLeft(c) # {}
                  /\ RelocOld(c) = o /\ RelocNew(c) = n
                  /\ RelocateStep(c)
             ELSE /\ LiveAt(c, o) # {} /\ o[1] \in Range(d.sel)
                  /\ LiveAt(c, n) = {} /\ n[1] \in Range(cls[c].pages) \ Range(d.sel) /\ n[2] \in 0..(Cap[c] - 1)
                  /\ LET x == CHOOSE y \in LiveAt(c, o) : TRUE IN
                     /\ cls' = [cls EXCEPT ![c].live = Enum((@ \ {x}) \cup {[x EXCEPT !.a = n]})]
                     /\ dfr' = [dfr EXCEPT ![c].moved = Append(@, x.id), ![c].cnt = @ + 1]
    /\ UNCHANGED <<privs, due>> /\ UNCHANGED Globals

\* an evacuated page leaves the class and is unmapped
TDunl ==
    /\ Ev("dunl")
    /\ LET c == E.c
           d == dfr[c]
       IN /\ d.on /\ cbq[c] = <<>>
          /\ IF Strict
             THEN d.i <= Len(d.sel) /\ d.sel[d.i] = E.p /\ UnlinkStep(c)
             ELSE /\ E.p \in Range(d.sel) /\ E.p \in Range(cls[c].pages)
                  /\ LiveIn(cls[c], E.p) = {}
                  /\ cls' = [cls EXCEPT ![c].pages = SeqWithout(@, E.p)]
                  /\ dfr' = [dfr EXCEPT ![c].i = @ + 1]
    /\ OnlyClsDfr

TDend ==
    /\ Ev("dend")
    /\ LET c == E.c
           d == dfr[c]
       IN /\ d.on /\ cbq[c] = <<>>
          /\ E.cnt = d.cnt
          /\ d.i > Len(d.sel)
          /\ Range(d.moved) = d.toMove /\ NoDup(d.moved)
          /\ dfr' = [dfr EXCEPT ![c] = DfrOff]
    /\ UNCHANGED <<cls, privs, cbq, due>> /\ UNCHANGED Globals

RECURSIVE SumLen(_)
SumLen(S) == IF S = {} THEN 0 ELSE LET c == CHOOSE q \in S : TRUE IN Len(cls[c].pages) + SumLen(S \ {c})

\* all goroutines parked: the atomic counters say what is there
TQuiesce ==
    /\ Ev("quiesce")
    /\ E.allocs = Cardinality(AllLive) + Cardinality(privs)
    /\ E.pm = Cardinality(privs)
    /\ E.sm = SumLen(Classes)
    /\ UNCHANGED <<vars, cbq, due>>

\* the bookkeeping of a class read back from memory at a quiescent point
StateAgrees(C, o) ==
    /\ o.broken = ""
    /\ o.pages = C.pages /\ o.cur = C.cur /\ o.pageCount = C.pageCount /\ o.freeSlots = C.freeSlots
    /\ Len(o.hdr) = Len(C.pages)
    /\ \A i \in 1..Len(C.pages) :
          LET p == C.pages[i] IN
          /\ o.hdr[i].p = p /\ o.hdr[i].brk = C.hdr[p].brk /\ o.hdr[i].used = C.hdr[p].used
          /\ o.hdr[i].free = C.hdr[p].free /\ o.hdr[i].evac = C.hdr[p].evac
          /\ o.hdr[i].fl = Slots(PageWalk(C, p))
    /\ LET G == GlobalWalk(C) IN o.g = [i \in 1..Len(G) |-> [p |-> G[i][1], s |-> G[i][2]]]

RECURSIVE SumSeq(_, _)
SumSeq(s, i) == IF i = 0 THEN 0 ELSE s[i].free + SumSeq(s, i - 1)

StateSound(C, o, k) ==
    LET listedG == {<<o.g[i].p, o.g[i].s>> : i \in 1..Len(o.g)}
        listedOf(i) == {<<o.hdr[i].p, o.hdr[i].fl[j]>> : j \in 1..Len(o.hdr[i].fl)}
        listedP == UNION {listedOf(i) : i \in 1..Len(o.hdr)}
    IN /\ o.broken = ""
       /\ Cardinality(listedG) = Len(o.g)                                \* no slot twice on the class list
       /\ \A i \in 1..Len(o.hdr) : Cardinality(listedOf(i)) = Len(o.hdr[i].fl)
       /\ listedG = listedP                                              \* two views of the same free set
       /\ \A x \in C.live : x.a \notin listedG                           \* never both live and free
       /\ Len(o.hdr) = Len(C.pages) /\ {o.hdr[i].p : i \in 1..Len(o.hdr)} = Range(C.pages)
       /\ \A i \in 1..Len(o.hdr) :
             /\ o.hdr[i].used = Cardinality(LiveIn(C, o.hdr[i].p))
             /\ o.hdr[i].free = k - o.hdr[i].used
             /\ ~o.hdr[i].evac
             /\ \A j \in 1..Len(o.hdr[i].fl) : o.hdr[i].fl[j] < o.hdr[i].brk
             /\ o.hdr[i].brk <= k
       /\ o.pageCount = Len(o.hdr)
       /\ o.freeSlots = SumSeq(o.hdr, Len(o.hdr))

TState ==
    /\ Ev("state")
    /\ IF Strict THEN StateAgrees(cls[E.c], E.st) ELSE StateSound(cls[E.c], E.st, Cap[E.c])
    /\ UNCHANGED <<vars, cbq, due>>

TNext == TReset \/ TLink \/ TMalloc \/ TFree \/ TPMalloc \/ TPFree \/ TDall \/ TDbegin \/ TDallEnd \/ TDsel \/ TCb \/ TReloc \/ TDunl \/ TDend
         \/ TQuiesce \/ TState

TSpec == TInit /\ [][TNext]_tvars

-----------------------------------------------------------------------------
\* every step changes at most the class its event names, so the class-level invariants and action
\* properties are evaluated for that class only (all classes start from ClassInit, which satisfies them)
ClsEvents == {"link", "malloc", "free", "dsel", "cb", "reloc", "dunl", "dend", "state", "dall", "dbegin"}
ClassAt(i) == IF i >= 1 /\ i <= Len(Trace) /\ Trace[i].ev \in ClsEvents THEN Trace[i].c ELSE 0
PrevClass == ClassAt(l - 1)

TNoOverlap == PrevClass # 0 => NoOverlapC(cls[PrevClass])
TListsWellFormed == PrevClass # 0 => ListsWellFormedC(cls[PrevClass])
TCountersExact == PrevClass # 0 => CountersExactC(cls[PrevClass], Cap[PrevClass])
TCapacityOK == PrevClass # 0 => CapacityOKC(cls[PrevClass], PrevClass)     \* (private mappings: checked in TPMalloc)
TFreeBranchLive == PrevClass # 0 => FreeBranchLiveC(cls[PrevClass])
THeadIsPageHead == LET C == cls[IF PrevClass = 0 THEN 1 ELSE PrevClass] IN C.head # Nil /\ C.head \in DOMAIN C.node => C.node[C.head].pip = Nil
TRelocateAtMostOnce == PrevClass # 0 => RelocateOnceC(dfr[PrevClass])

IsReset == l <= Len(Trace) /\ Trace[l].ev = "Reset"
TRelocateExactlyOnce == [][IsReset \/ (ClassAt(l) # 0 => LET c == ClassAt(l) IN (dfr[c].on /\ ~dfr'[c].on) => Range(dfr[c].moved) = dfr[c].toMove)]_tvars
ContentsStepC(c) ==
    LET old == cls[c].live
        new == cls'[c].live
    IN \/ new = old
       \/ Ids(cls'[c]) = Ids(cls[c])                                          \* moved
       \/ old \subseteq new /\ Cardinality(new \ old) = 1                      \* Malloc
             /\ (CHOOSE x \in new \ old : TRUE).a \notin {y.a : y \in old}
       \/ new \subseteq old /\ Cardinality(old \ new) = 1                      \* Free
TContentsKept == [][IsReset \/ (ClassAt(l) # 0 => ContentsStepC(ClassAt(l)))]_tvars

\* the part of the invariants that does not depend on the modelled policy (Strict = FALSE)
GhostOK ==
    PrevClass # 0 =>
       LET c == PrevClass IN
       /\ Cardinality({x.a : x \in cls[c].live}) = Cardinality(cls[c].live)
       /\ Cardinality({x.id : x \in cls[c].live}) = Cardinality(cls[c].live)
       /\ \A x \in cls[c].live : x.a[1] \in Range(cls[c].pages) /\ x.a[2] < Cap[c] /\ x.len <= SlotData[c]
       /\ NoDup(cls[c].pages)
       /\ RelocateOnceC(dfr[c])

HighWater == TLCSet(1, IF l > TLCGet(1) THEN l ELSE TLCGet(1))
Accepted == IF TLCGet(1) = Len(Trace) + 1 THEN TRUE
            ELSE Print(<<"VFREJECT", TLCGet(1)>>, FALSE)
=============================================================================
