--------------------------- MODULE TraceUtxoSave ---------------------------
(* Trace validation (R->V): the hook trace of an UNGATED, perturbed run of   *)
(* the real UnspentDB must be a behaviour of UtxoSave.                        *)
(*                                                                           *)
(* One line per hook hit (in the total order of the hook package's sequence  *)
(* counter) plus "begin" (Main is about to call an operation) and "ret" (the  *)
(* operation returned).  A hook is hit AFTER the code of its segment ran, and *)
(* other goroutines may log in between: so the specification may execute a    *)
(* segment silently and owes its hook to the log (owed); a goroutine with an  *)
(* owed hook does not move until the log has shown it.  Internal steps are    *)
(* always silent.  Writer goroutines carry an opaque tag in the trace; it is  *)
(* bound to the model's writer when its first hook is matched.                *)
EXTENDS UtxoSave, Json

Trace == ndJsonDeserialize("trace.ndjson")

VARIABLES l, owed, pend, bind
tvars == <<vars, l, owed, pend, bind>>

MKey == <<"M", 0>>
HookOfT(pc) == IF pc \in Hooks THEN pc ELSE IF pc = "idle" THEN "ret" ELSE ""

TInit == Init /\ dirty = Trace[1].d /\ l = 2 /\ owed = {} /\ pend = "" /\ bind = <<>> /\ TLCSet(1, 1)

\* ------------------------------------------------------------ silent execution of segments
Silent ==
    /\ UNCHANGED <<l, bind>>
    /\ \/ /\ pend # "" /\ MKey \notin owed
          /\ M_Begin(pend) /\ pend' = ""
          /\ owed' = IF HookOfT(mpc') # "" THEN owed \cup {MKey} ELSE owed
       \/ /\ MKey \notin owed /\ MainInternal /\ UNCHANGED pend
          /\ owed' = IF HookOfT(mpc') # "" THEN owed \cup {MKey} ELSE owed
       \/ \E s \in Savers :
            /\ <<"S", s>> \notin owed /\ SaverNext(s) /\ UNCHANGED pend
            /\ owed' = IF spc'[s] \in Hooks THEN owed \cup {<<"S", s>>} ELSE owed
       \/ \E w \in Savers :
            /\ <<"W", w>> \notin owed /\ WriterNext(w) /\ UNCHANGED pend
            /\ owed' = IF wpc'[w] \in Hooks THEN owed \cup {<<"W", w>>} ELSE owed

\* ------------------------------------------------------------ consumption of one trace line
E == Trace[l]
Bound == {bind[t] : t \in DOMAIN bind}

Logged ==
    /\ l <= Len(Trace) /\ l' = l + 1
    /\ \/ /\ E.ev = "Reset"                       \* next recorded history: everything starts again
          /\ mpc' = "idle" /\ mop' = "" /\ nops' = 0 /\ nsaves' = 0 /\ closed' = FALSE /\ mw' = {}
          /\ last' = InitH /\ mapv' = [k \in Buckets |-> InitH] /\ dirty' = E.d /\ onDisk' = InitH
          /\ wip' = FALSE /\ abortCh' = 0 /\ hurryCh' = 0 /\ writingDone' = 0 /\ lastFileClosed' = 0
          /\ rlock' = [k \in Buckets |-> {}]
          /\ spc' = [s \in Savers |-> "none"] /\ si' = [s \in Savers |-> 0] /\ shurry' = [s \in Savers |-> FALSE]
          /\ scheck' = [s \in Savers |-> FALSE] /\ sabort' = [s \in Savers |-> FALSE] /\ hdr' = [s \in Savers |-> -1]
          /\ chan' = [s \in Savers |-> <<>>] /\ exitCh' = [s \in Savers |-> "none"]
          /\ wpc' = [s \in Savers |-> "none"] /\ wpath' = [s \in Savers |-> -1] /\ wino' = [s \in Savers |-> 0]
          /\ wexit' = [s \in Savers |-> FALSE]
          /\ fdb' = InitIno /\ fold' = 0 /\ tmp' = [b \in 0..MaxH |-> 0] /\ inode' = [n \in Savers |-> <<>>]
          /\ owed' = {} /\ pend' = "" /\ bind' = <<>>
       \/ /\ E.ev = "begin"
          /\ pend = "" /\ MKey \notin owed /\ mpc = "idle"
          /\ pend' = E.op /\ UNCHANGED <<vars, owed, bind>>
       \/ /\ E.p = "M" /\ E.ev # "begin"
          /\ MKey \in owed /\ HookOfT(mpc) = E.ev
          /\ E.ev = "ret" => E.last = last         \* what Main sees of LastBlock when the operation returns
          /\ owed' = owed \ {MKey} /\ UNCHANGED <<vars, pend, bind>>
       \/ /\ E.p = "S"
          /\ E.i \in Savers /\ <<"S", E.i>> \in owed /\ spc[E.i] = E.ev
          /\ E.ev = "save_exit_sent" => sabort[E.i] = E.ab
          /\ owed' = owed \ {<<"S", E.i>>} /\ UNCHANGED <<vars, pend, bind>>
       \/ /\ E.p = "W"
          /\ \E w \in Savers :
               /\ IF E.i \in DOMAIN bind THEN w = bind[E.i] /\ UNCHANGED bind
                  ELSE E.ev = "writer_start" /\ w \notin Bound /\ bind' = bind @@ (E.i :> w)
               /\ <<"W", w>> \in owed /\ wpc[w] = E.ev
               /\ owed' = owed \ {<<"W", w>>}
          /\ UNCHANGED <<vars, pend>>

TNext == Silent \/ Logged
TSpec == TInit /\ [][TNext]_tvars

\* invariants of UtxoSave are evaluated in every state of every accepted history
HighWater == TLCSet(1, IF l > TLCGet(1) THEN l ELSE TLCGet(1))
Accepted == IF TLCGet(1) = Len(Trace) + 1 THEN TRUE
            ELSE Print(<<"VFREJECT", TLCGet(1)>>, FALSE)
=============================================================================
