----------------------------- MODULE HDPathGen -----------------------------
(* G->R export for HDPath (run with -workers 1): every MakeWallet step      *)
(* prints the configuration with the derivation term of every listed key,   *)
(* the extended keys that must be shown and the public derivations that     *)
(* must commute; every Bip39Case step prints the entropy with the word      *)
(* indices the model computes.  Thin > 1 keeps every Thin-th case of the    *)
(* breadth-first enumeration, starting at Salt % Thin.                      *)
EXTENDS HDPath

CONSTANTS Thin, Salt

Payload ==
    IF phase' = "listed"
    THEN [phase |-> "listed", cfg |-> cfg', path |-> path', out |-> out', nsubs |-> NSubs,
          wraps |-> \E j \in 1..Len(out'.keys) : out'.keys[j].k = "hd" /\ \E q \in 1..Len(path) : out'.keys[j].path[q].h # path[q].h]
    ELSE [phase |-> "bip39", e |-> EntTable[ent'], indices |-> Indices(EntTable[ent']), entbits |-> EntBits(EntTable[ent']),
          csbits |-> CsBits(EntTable[ent'])]

Completes == phase' \in {"listed", "bip39"}

Emit == Completes =>
            LET n == TLCGet(2) IN
            /\ TLCSet(2, n + 1)
            /\ (n % Thin = 0 => PrintT(<<"VFT", ToJson(Payload)>>))

GInit == Init /\ TLCSet(2, Salt % Thin)
GNext == Next /\ Emit
GSpec == GInit /\ [][GNext]_vars
=============================================================================
