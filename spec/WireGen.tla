------------------------------ MODULE WireGen ------------------------------
(* Generation wrapper: every case (shape, perturbation) of Wire becomes one  *)
(* implementation test: the layout to concretise and the model's prediction  *)
(* (verdict, rule, bytes consumed, decoded structure, sizes).                *)
(* Layout tokens are printed compactly: O(n) as n, C(f, v) as <<f, v, have>>.*)
(* Part / Parts split the shapes over several TLC runs (each -workers 1).    *)
EXTENDS Wire, Json

CONSTANTS Part, Parts

VARIABLE g          \* 0 = nothing chosen yet, 1 = a shape, 2 = a perturbed shape (the case itself is c)

Tok(t) == IF t.k = "O" THEN t.n ELSE <<t.f, t.v, t.n>>
TxJ(x) == [wit |-> x.wit, ins |-> [i \in 1..Len(x.ins) |-> [s |-> x.ins[i].script, w |-> x.ins[i].stack]], outs |-> x.outs]
ShapeJ(sh) == IF sh.kind = "tx" THEN TxJ(sh.tx)
              ELSE IF sh.kind = "block" THEN [txs |-> [i \in 1..Len(sh.b.txs) |-> TxJ(sh.b.txs[i])]]
              ELSE [v |-> sh.c.v, f |-> sh.c.f]

\* An empty block is accepted by Bitcoin's deserialiser and thrown out by CheckBlock (bad-blk-length), and
\* a block decoder has no way to report bytes left over: the property does not oblige a decoder to accept
\* either.  strict = FALSE: a refusal is tolerated, an acceptance must show exactly the predicted result.
Strict(kind, d, len) == ~(kind = "block" /\ d.v = "accept" /\ (Len(d.txs) = 0 \/ d.n < len))

Pred(kind, d, len) ==
    IF d.v # "accept" THEN [v |-> d.v, why |-> d.why, strict |-> TRUE]
    ELSE IF kind = "tx" THEN
        [v |-> "accept", strict |-> TRUE, n |-> d.n, dec |-> TxJ(d.dec), size |-> Size(d.dec), nowit |-> NoWitSize(d.dec),
         weight |-> Weight(d.dec), vsize |-> VSize(d.dec)]
    ELSE IF kind = "block" THEN
        [v |-> "accept", strict |-> Strict(kind, d, len), n |-> d.n,
         txs |-> [i \in 1..Len(d.txs) |-> [size |-> d.txs[i].size, nowit |-> d.txs[i].nowit, dec |-> TxJ(d.txs[i].dec)]],
         bw |-> BlockWeight(d.txs)]
    ELSE [v |-> "accept", strict |-> TRUE, n |-> d.n]

CaseOf(cc, s0, s, d) ==
        [t |-> cc.sh.kind, sh |-> ShapeJ(cc.sh),
         p |-> [k |-> cc.p.k, i |-> cc.p.i, a |-> cc.p.a, role |-> IF cc.p.i > 0 THEN s0[cc.p.i].role ELSE ""],
         s |-> [i \in 1..Len(s) |-> Tok(s[i])],
         e |-> Pred(cc.sh.kind, d, NBytes(s))]

\* a cheap deterministic partition of the shapes
PartOf(sh) == LET s == Encode(sh) IN (NBytes(s) + Len(s)) % Parts

GInit == g = 0 /\ c = [sh |-> [kind |-> "none"], p |-> NoPert]
GStep ==
    \/ /\ g = 0 /\ g' = 1
       /\ \E x \in Shapes : PartOf(x) = Part /\ c' = [sh |-> x, p |-> NoPert]
    \/ /\ g = 1 /\ g' = 2
       /\ \E s \in {Encode(c.sh)} : \E q \in Perts(c.sh.kind, s) : c' = [c EXCEPT !.p = q]
\* (bound by quantifiers, not LET: see the note at Wire!TypeOK)
Emit == \A s0 \in {Base(c')} : \A s \in {Apply(s0, c'.p)} : \A d \in {Decode(c'.sh.kind, s)} :
            PrintT(<<"VFT", ToJson(CaseOf(c', s0, s, d))>>)
GNext == GStep /\ Emit
GSpec == GInit /\ [][GNext]_<<c, g>>
=============================================================================
