------------------------------ MODULE CurveGen ------------------------------
(* G->R export for Curve (run with -workers 1).  One line per transition of the abstract state graph        *)
(* (VIEW = representation attributes): the initial loads, the concrete shortest path to the source state,    *)
(* the step, and the model's prediction for the register the step wrote / observed.                          *)
(*   VFF  field layer    VFG  group layer    VFB  one line per table entry with TableScalar                  *)
(*   VFL  one line per (limb pattern, magnitude variant) with the operations the contract allows on it         *)
EXTENDS Curve, Json

CONSTANT EmitAt     \* 0 = one line per transition (BFS export); n > 0 = one line per behaviour of n steps (simulation)

VARIABLES h, ini
gvars == <<vars, h, ini>>
XView == AbsView

\* field step record: op, destination, operands, integer parameter, and the attributes of the destination afterwards
FRec(op, d, a, b, k) == [op |-> op, d |-> d, a |-> a, b |-> b, k |-> k,
                         e |-> fr'[d].e, m |-> fr'[d].m, nz |-> fr'[d].nz, z |-> fr'[d].z]
\* group step record
GRec(op, d, a, b, x, na, ng, odd, sg) == [op |-> op, d |-> d, a |-> a, b |-> b, x |-> x, na |-> na, ng |-> ng, odd |-> odd, sg |-> sg,
                                          f |-> gr'[d].f, inf |-> FmIsZero(gr'[d].f), reuse |-> op \in ReuseOps]

\* every step carries its own prediction, so a line is checked step by step
Emit(tag, rec) == /\ h' = Append(h, rec)
                  /\ (EmitAt = 0 \/ Len(h') = EmitAt) => PrintT(<<tag, ToJson([ini |-> ini, steps |-> h'])>>)

GFStep ==
    \/ \E r \in FRegs : FNormalize(r) /\ Emit("VFF", FRec("Normalize", r, r, 0, 0))
    \/ \E a, b \in FRegs : \E d \in Dst(a) : FMul(d, a, b) /\ Emit("VFF", FRec("Mul", d, a, b, 0))
    \/ \E a \in FRegs : \E d \in Dst(a) : \/ FSqr(d, a) /\ Emit("VFF", FRec("Sqr", d, a, 0, 0))
                                          \/ FInv(d, a) /\ Emit("VFF", FRec("Inv", d, a, 0, 0))
                                          \/ FInvVar(d, a) /\ Emit("VFF", FRec("InvVar", d, a, 0, 0))
                                          \/ FSqrt(d, a) /\ Emit("VFF", FRec("Sqrt", d, a, 0, 0))
    \/ \E a \in FRegs : \E d \in Dst(a) : \E mm \in {fr[a].m, MagMax - 1} : FNegate(d, a, mm) /\ Emit("VFF", FRec("Negate", d, a, 0, mm))
    \/ \E r \in FRegs : \E k \in {2, 3, 8} : FMulInt(r, k) /\ Emit("VFF", FRec("MulInt", r, r, 0, k))
    \/ \E r, a \in FRegs : FSetAdd(r, a) /\ Emit("VFF", FRec("SetAdd", r, a, 0, 0))
    \/ \E a \in FRegs : \/ FIsOdd(a) /\ Emit("VFF", FRec("IsOdd", a, a, 0, 0))
                        \/ FIsZero(a) /\ Emit("VFF", FRec("IsZero", a, a, 0, 0))
                        \/ FGetB32(a) /\ Emit("VFF", FRec("GetB32", a, a, 0, 0))
    \/ \E a, b \in FRegs : a < b /\ FEquals(a, b) /\ Emit("VFF", FRec("Equals", a, a, b, 0))

GGStep ==
    \/ \E a, b \in GRegs : \E d \in Dst(a) : GAdd(d, a, b) /\ Emit("VFG", GRec("Add", d, a, b, "", "", "", FALSE, 0))
    \/ \E a \in GRegs : \E d \in Dst(a) : \E x \in DOMAIN AffOps : GAddXY(d, a, x) /\ Emit("VFG", GRec("AddXY", d, a, 0, x, "", "", FALSE, 0))
    \/ \E a \in GRegs : \E d \in Dst(a) : \/ GDouble(d, a) /\ Emit("VFG", GRec("Double", d, a, 0, "", "", "", FALSE, 0))
                                          \/ GNeg(d, a) /\ Emit("VFG", GRec("Neg", d, a, 0, "", "", "", FALSE, 0))
    \/ \E a \in GRegs : \E d \in Dst(a) : \E pr \in EcmultPairs :
          GEcmult(d, a, pr[1], pr[2]) /\ Emit("VFG", GRec("ECmult", d, a, 0, "", pr[1], pr[2], FALSE, 0))
    \/ \E d \in GRegs : \E s \in ScalarNames : GEcmultGen(d, s) /\ Emit("VFG", GRec("ECmultGen", d, d, 0, "", s, "", FALSE, 0))
    \/ \E a \in GRegs : \E d \in Dst(a) : \E odd \in BOOLEAN : \E sg \in {1, -1} :
          GLift(d, a, odd, sg) /\ Emit("VFG", GRec("Lift", d, a, 0, "", "", "", odd, sg))
    \/ \E a \in GRegs : GObserve(a) /\ Emit("VFG", GRec("Observe", a, a, 0, "", "", "", FALSE, 0))

GTStep == /\ TStep /\ h' = h
          /\ PrintT(<<"VFB", ToJson([table |-> tb'.table, i |-> tb'.i, j |-> tb'.j, scalar |-> TableScalar(tb'.table, tb'.i, tb'.j)])>>)

XInit == /\ Init /\ h = <<>>
         /\ ini = IF Mode = "field" THEN [kind |-> "field", r1 |-> fr[1].e, r2 |-> fr[2].e, g1 |-> GLoads.inf, g2 |-> GLoads.inf]
                  ELSE [kind |-> "group", r1 |-> "", r2 |-> "", g1 |-> gr[1], g2 |-> gr[2]]

XNext == /\ ini' = ini
         /\ \/ Mode = "field" /\ len < MaxLen /\ GFStep /\ len' = len + 1 /\ UNCHANGED <<gr, tb, fm, lb>>
            \/ Mode = "group" /\ len < MaxLen /\ GGStep /\ len' = len + 1 /\ UNCHANGED <<fr, tb, fm, lb>>
            \/ Mode = "tables" /\ GTStep /\ UNCHANGED <<fr, gr, fm, lb, len>>
            \/ Mode = "limbs" /\ LStep /\ h' = h /\ PrintT(<<"VFL", ToJson(lb')>>) /\ UNCHANGED <<fr, gr, tb, fm, len>>

XSpec == XInit /\ [][XNext]_gvars
=============================================================================
