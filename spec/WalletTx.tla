------------------------------ MODULE WalletTx ------------------------------
(***************************************************************************)
(* C13 - what the `wallet` binary writes for a payment request.            *)
(*                                                                         *)
(* A case is built step by step (ChooseCfg, AddUnspent*, AddDest*,         *)
(* ChooseOptsA/B/C) so that TLC can enumerate the small space exhaustively and *)
(* walk the large one in simulation mode; then                              *)
(*   Build     transcribes wallet/send.go (parse_spend, parse_batch,        *)
(*             send_request) + wallet/signtx.go:make_signed_tx,             *)
(*   Build2    transcribes wallet/unspent.go:apply_to_balance followed by a *)
(*             second make_signed_tx over the rewritten balance folder,     *)
(*   SignRaw   transcribes wallet/signtx.go:process_raw_tx (the -raw path). *)
(* The property is the set of invariants at the end; they are stated over   *)
(* the request and the result only, not over the way Build computes it.     *)
(*                                                                         *)
(* Abstraction: an unspent output is [st, amt, t, v]: script type, exact    *)
(* amount (Amt), number of the previous transaction in balance/ and output  *)
(* index.  Keys, hashes, scripts and signatures are the concretiser's       *)
(* business (harness/cmd/wallettx): it builds real previous transactions    *)
(* paying to the addresses the wallet itself lists, and it judges every     *)
(* signature of the written transaction.  Class names (sequence, lock time, *)
(* message) carry both the command line argument and the expected field.    *)
(***************************************************************************)
EXTENDS Amt, FiniteSets, TLC

CONSTANTS
    WTypes,     \* wallet types: subset of {3, 4}
    ATypes,     \* subset of {"p2kh", "segwit", "bech32", "tap"}
    Nets,       \* subset of BOOLEAN (testnet?)
    STypes,     \* script types of unspent outputs offered: subset of OwnSTypes \cup ForeignSTypes
    UAmts,      \* amount classes of unspent outputs
    MaxUnsp,
    VOffs,      \* output-index classes of listed outputs inside their previous transaction: subset of 0..255
    DTypes,     \* destination address types
    DAmts,      \* destination amount classes
    MaxDest,
    Fees, UseAll, Changes, Msgs, Seqs, Locks, Vers, SubFees, Modes,
    SigOpts,    \* signing switches: "auto" (the concretiser picks none / -rfc6979 / -minsig), "both" (-minsig AND -rfc6979: must terminate)
    TuneTargets, TuneDeltas,   \* tuning of the last amount: demand = funds of the first k owned outputs + delta satoshi
    Raws,       \* shapes of externally supplied raw transactions
    Second,     \* subset of {"sweep"}: second send over the rewritten balance folder
    Bug         \* "none", or the name of a deliberately broken rule (the invariants must refute it)

VARIABLES phase, cfg, plan, unsp, dests, opts, res, raw, rres, unsp2, res2

vars == <<phase, cfg, plan, unsp, dests, opts, res, raw, rres, unsp2, res2>>

OwnSTypes == {"P2PKH", "P2SH", "P2WPKH", "P2TR", "IMPC", "IMPU"}   \* IMPC / IMPU: P2PKH of a key imported through .others (compressed / uncompressed)
ForeignSTypes == {"FPKH", "FMS"}                                   \* somebody else's P2PKH, a P2SH multisig
\* P2SH m-of-n multisig outputs made of keys of the wallet (F: only one of the n keys is the wallet's).  make_signed_tx
\* skips them like foreign outputs (no single key); -raw signs them after `-p2sh` put the redeem script in place.
MSTypes == {"MS22", "MS23", "MS13F", "MS23F"}
MSFull(st) == st \in {"MS22", "MS23", "MS13F"}                     \* the wallet alone holds enough keys
AllDTypes == {"P2PKH", "P2SH", "P2WPKH", "P2WSH", "P2TR", "OWN"}   \* OWN: an address of the wallet's own listing

Pow64 == [h |-> 1844, u |-> 67440737, e |-> 9551616]      \* 2^64 = 18446744073709551616
AmtOf(c) == CASE c = "sat1"  -> A(0, 1)
              [] c = "dust"  -> A(0, 546)
              [] c = "k5"    -> A(0, 5000)
              [] c = "small" -> A(0, 10000)
              [] c = "mid"   -> A(0, 12345678)
              [] c = "btc"   -> A(1, 0)
              [] c = "big"   -> A(12, 34567890)
              [] c = "huge"  -> A(5000000, 99999999)      \* (four of them stay below the 21M BTC that can exist)
              \* amounts no balance covers, at the edges of the code's uint64 arithmetic (the model does not wrap)
              [] c = "p63"     -> Pow63                                        \* 2^63: two of them add up to 2^64
              [] c = "max64"   -> [h |-> 1844, u |-> 67440737, e |-> 9551615]  \* 2^64 - 1
              [] c = "p64"     -> Pow64                                        \* 2^64
              [] c = "wrapfee" -> Pow64                                        \* stands for 2^64 - fee (resolved by Base)

\* "def": no -fee argument and no fee line in wallet.cfg: the built-in 0.001
FeeOf(c) == CASE c = "zero" -> Zero
              [] c = "sat1" -> A(0, 1)
              [] c = "k1"   -> A(0, 1000)
              [] c = "def"  -> A(0, 100000)
              [] c = "btc"  -> A(1, 0)

\* -seq is an int flag converted with uint32(): -1 / -2 are the "final" values, the default is -3
SeqOf(c) == CASE c = "def"  -> [arg |-> "",           want |-> "fffffffd"]
              [] c = "m1"   -> [arg |-> "-1",         want |-> "ffffffff"]
              [] c = "m2"   -> [arg |-> "-2",         want |-> "fffffffe"]
              [] c = "zero" -> [arg |-> "0",          want |-> "00000000"]
              [] c = "n"    -> [arg |-> "305419896",  want |-> "12345678"]
              [] c = "rbf"  -> [arg |-> "4294967293", want |-> "fffffffd"]
\* -msg: the extra output is OP_RETURN followed by the canonical (minimal) push of exactly the message bytes
MsgLen(c) == CASE c = "none" -> 0 [] c = "short" -> 14 [] c = "long" -> 80 [] c = "m1" -> 1 [] c = "m75" -> 75 [] c = "m76" -> 76
               [] c = "m77" -> 77 [] c = "m255" -> 255 [] c = "m256" -> 256 [] c = "m520" -> 520
MsgOf(c) == [cls |-> c, len |-> MsgLen(c),
             push |-> IF MsgLen(c) <= 75 THEN "direct" ELSE IF MsgLen(c) <= 255 THEN "pushdata1" ELSE "pushdata2"]
LockOf(c) == CASE c = "def"   -> [arg |-> "",           want |-> "00000000"]
               [] c = "h"     -> [arg |-> "499999999",  want |-> "1dcd64ff"]
               [] c = "t"     -> [arg |-> "500000000",  want |-> "1dcd6500"]
               [] c = "max"   -> [arg |-> "4294967295", want |-> "ffffffff"]
VerOf(c) == CASE c = "def" -> [arg |-> "",  want |-> "00000002"]
              [] c = "v1"  -> [arg |-> "1", want |-> "00000001"]
              [] c = "v2"  -> [arg |-> "2", want |-> "00000002"]
              [] c = "v3"  -> [arg |-> "3", want |-> "00000003"]

DeltaOf(d) == CASE d = "m1" -> -1 [] d = "z" -> 0 [] d = "p1" -> 1      \* (the cfg parser has no negative numbers)
Tunes == (IF "none" \in TuneTargets THEN {<<"none", 0>>} ELSE {}) \cup ((TuneTargets \ {"none"}) \X {DeltaOf(d) : d \in TuneDeltas})

NoRes == [written |-> FALSE, ins |-> <<>>, outs |-> <<>>, seqc |-> "", lt |-> "", ver |-> "", why |-> "none"]
NoRaw == [ins |-> <<>>, outs |-> <<>>, ver |-> "", lt |-> "", signed |-> <<>>, shape |-> "none"]
NoOpts == [fee |-> "zero", useall |-> FALSE, change |-> "none", msg |-> "none", seqc |-> "def", lt |-> "def",
           ver |-> "def", subfee |-> FALSE, mode |-> "send", tune |-> <<"none", 0>>, sig |-> "auto"]
NoCfg == [wt |-> 0, atype |-> "", testnet |-> FALSE]

----------------------------------------------------------------------------
(* Which outputs the wallet can spend: wallet.go:pkscr_to_key.  A P2SH(P2WPKH) *)
(* output is recognised only when the listing mode makes segwit[] hold P2SH    *)
(* addresses (atype p2kh / segwit): under bech32 / tap the wallet does not     *)
(* track nested segwit and skips such an output like a foreign one.            *)
OwnedIn(u, c) == \/ u.st \in {"P2PKH", "P2WPKH", "P2TR", "IMPC", "IMPU"}
                 \/ u.st = "P2SH" /\ c.atype \in {"p2kh", "segwit"}
Owned(u) == OwnedIn(u, cfg)

\* script type of an address of the wallet's own listing
ListType(c) == CASE c.atype = "p2kh" -> "P2PKH" [] c.atype = "segwit" -> "P2SH" [] c.atype = "bech32" -> "P2WPKH" [] c.atype = "tap" -> "P2TR"

RECURSIVE SumAmt(_)
SumAmt(s) == IF s = <<>> THEN Zero ELSE AmtAdd(s[1].amt, SumAmt(Tail(s)))

OwnedSeq(us) == SelectSeq(us, Owned)
TotalOwned(us) == SumAmt(OwnedSeq(us))
FirstK(us, k) == LET o == OwnedSeq(us) IN SumAmt(SubSeq(o, 1, IF k < Len(o) THEN k ELSE Len(o)))

Fee == FeeOf(opts.fee)

\* -f is honoured by parse_spend only, for the first pair of -send (send.go:42); parse_batch ignores it
SubApplies == opts.subfee /\ opts.mode \in {"send", "mixed"}

\* requested amounts; the last one may be tuned so that the demand hits a boundary of the funds:
\* demand = (sum of the first k owned outputs | all of them) + delta satoshi
\* the amount written on the command line for destination i ("wrapfee": 2^64 - fee, 2^64 - 1 when the fee is zero)
Base(i) == IF dests[i].cls = "wrapfee" THEN AmtSub(Pow64, IF FeeOf(opts.fee) = Zero THEN A(0, 1) ELSE FeeOf(opts.fee)) ELSE dests[i].amt
Others == SumAmt([i \in 1..(Len(dests) - 1) |-> [amt |-> Base(i)]])
TuneTarget == CASE opts.tune[1] = "first" -> FirstK(unsp, 1)
                [] opts.tune[1] = "two"   -> FirstK(unsp, 2)
                [] opts.tune[1] = "all"   -> TotalOwned(unsp)
                [] OTHER -> Zero
TuneFixed == AmtAdd(Others, IF SubApplies THEN Zero ELSE Fee)                 \* what the demand contains besides the last amount
TuneGoal == IF opts.tune[2] >= 0 THEN AmtAdd(TuneTarget, A(0, opts.tune[2]))
            ELSE IF AmtLE(A(0, -opts.tune[2]), TuneTarget) THEN AmtSub(TuneTarget, A(0, -opts.tune[2])) ELSE Zero
TuneOK == opts.tune[1] = "none" \/ AmtLT(TuneFixed, TuneGoal)                 \* the tuned amount is at least 1 satoshi
Req(i) == IF i = Len(dests) /\ opts.tune[1] # "none" THEN AmtSub(TuneGoal, TuneFixed) ELSE Base(i)

\* amounts as make_signed_tx sees them
SubUnderflow == SubApplies /\ AmtLT(Req(1), Fee)
Eff(i) == IF i = 1 /\ SubApplies THEN (IF Bug = "subfee_twice" THEN AmtSub(AmtSub(Req(1), Fee), Fee) ELSE AmtSub(Req(1), Fee)) ELSE Req(i)
RECURSIVE SumEff(_)
SumEff(n) == IF n = 0 THEN Zero ELSE AmtAdd(Eff(n), SumEff(n - 1))
Spend == SumEff(Len(dests))
Need == AmtAdd(Spend, Fee)

(* make_signed_tx, input selection: owned outputs in file order until the sum reaches the need *)
RECURSIVE Select(_, _, _, _, _, _)
Select(us, i, acc, sum, need, all) ==
    IF i > Len(us) THEN [ins |-> acc, sum |-> sum]
    ELSE IF ~Owned(us[i]) /\ ~(Bug = "foreign_in" /\ us[i].st = "FPKH") THEN Select(us, i + 1, acc, sum, need, all)
    ELSE LET s2 == AmtAdd(sum, us[i].amt)
             a2 == Append(acc, i)
         IN  IF ~all /\ AmtLE(need, s2) THEN [ins |-> a2, sum |-> s2] ELSE Select(us, i + 1, a2, s2, need, all)

Refused(w) == [NoRes EXCEPT !.why = w]

Outputs(n, eff(_), chg, msg) ==
       [i \in 1..n |-> [k |-> "dest", i |-> i, amt |-> eff(i)]]
    \o (IF chg # Zero THEN <<[k |-> "change", i |-> 0, amt |-> chg]>> ELSE <<>>)
    \o (IF msg # "none" THEN <<[k |-> "msg", i |-> 0, amt |-> Zero]>> ELSE <<>>)

BuildRes ==
    IF SubUnderflow THEN Refused("subfee_underflow")       \* the request cannot be met: first amount smaller than the fee it has to carry
    ELSE LET s == Select(unsp, 1, <<>>, Zero, Need, opts.useall) IN
         IF AmtLT(s.sum, Need) /\ Bug # "write_insufficient" THEN Refused("insufficient")
         ELSE LET base == IF Bug = "change_all" THEN TotalOwned(unsp) ELSE s.sum
                  chg == IF AmtLE(Need, base) THEN AmtSub(base, Need) ELSE Zero
              IN  [written |-> TRUE, ins |-> s.ins, outs |-> Outputs(Len(dests), Eff, chg, opts.msg),
                   seqc |-> opts.seqc, lt |-> opts.lt, ver |-> opts.ver, why |-> "ok"]

----------------------------------------------------------------------------
(* apply_to_balance: spent lines dropped, the new transaction's outputs that pay to a key of the *)
(* wallet appended in output order (t = 0 stands for the transaction just written).             *)
ChangeType == IF opts.change = "own" THEN ListType(cfg)
              ELSE IF opts.change = "foreign" THEN "FPKH"
              ELSE (OwnedSeq(unsp))[1].st                       \* get_change_addr: the script of the first owned line
\* IMPC / IMPU lines are P2PKH scripts: change returned there is a P2PKH output of the same imported key
OutType(o) == IF o.k = "dest" THEN (IF dests[o.i].dt = "OWN" THEN ListType(cfg) ELSE "F")
              ELSE IF o.k = "change" THEN ChangeType ELSE "F"
NewOwn(r) == LET idx == SelectSeq([j \in 1..Len(r.outs) |-> j], LAMBDA j : OutType(r.outs[j]) \in OwnSTypes /\ OwnedIn([st |-> OutType(r.outs[j])], cfg))
             IN  [n \in 1..Len(idx) |-> [st |-> OutType(r.outs[idx[n]]), amt |-> r.outs[idx[n]].amt, t |-> 0, v |-> idx[n] - 1]]
Applied(r) == LET keep == SelectSeq([j \in 1..Len(unsp) |-> j], LAMBDA j : \A n \in 1..Len(r.ins) : r.ins[n] # j)
              IN  [n \in 1..Len(keep) |-> unsp[keep[n]]] \o NewOwn(r)

\* second request: sweep everything that is left to one foreign P2WPKH address (-useallinputs, amount = funds - fee)
Sweep(us) ==
    LET tot == TotalOwned(us)
        s == Select(us, 1, <<>>, Zero, tot, TRUE)
    IN  IF ~AmtLT(Fee, tot) THEN NoRes
        ELSE [written |-> TRUE, ins |-> s.ins, outs |-> <<[k |-> "dest", i |-> 1, amt |-> AmtSub(tot, Fee)]>>,
              seqc |-> "def", lt |-> "def", ver |-> "def", why |-> "ok"]

----------------------------------------------------------------------------
(* -raw: an externally supplied unsigned transaction over outputs of the balance folder (for multisig inputs the *)
(* redeem script is first inserted with -p2sh -input n, one run per such input: multisig.go:make_p2sh).          *)
SeqCycle == <<"fffffffe", "00000005", "00000000", "ffffffff", "fffffffd">>
RawIns(shape) ==
    LET n == Len(unsp)
        ord == CASE shape \in {"fwd", "fwd1"} -> [j \in 1..n |-> j]
                 [] shape = "rev"   -> [j \in 1..n |-> n + 1 - j]
                 [] shape = "first" -> <<1>>
                 [] shape = "last"  -> <<n>>
    IN  [j \in 1..Len(ord) |-> [u |-> ord[j], sq |-> SeqCycle[((j + n) % 5) + 1]]]
RawOf(shape) ==
    [ins |-> RawIns(shape),
     outs |-> IF shape = "fwd1" THEN <<[dt |-> "P2TR", amt |-> A(0, 1)]>>
              ELSE <<[dt |-> "P2WPKH", amt |-> A(0, 10000)], [dt |-> "P2PKH", amt |-> A(21000000, 0)], [dt |-> "P2SH", amt |-> Zero]>>,
     ver |-> IF shape \in {"rev", "last"} THEN "00000001" ELSE "00000002",
     lt |-> IF shape \in {"rev", "first"} THEN "00092a6f" ELSE "00000000",
     signed |-> <<>>, shape |-> shape]
\* process_raw_tx + sign_tx: every input whose previous output belongs to a key of the wallet gets signed, nothing else changes
SignRawRes(r) ==
    [r EXCEPT !.signed = [j \in 1..Len(r.ins) |-> Owned(unsp[r.ins[j].u]) \/ MSFull(unsp[r.ins[j].u].st)],
              !.ins = IF Bug = "raw_seq" THEN [j \in 1..Len(r.ins) |-> [r.ins[j] EXCEPT !.sq = "ffffffff"]] ELSE r.ins]

----------------------------------------------------------------------------
Init ==
    /\ phase = "cfg" /\ cfg = NoCfg /\ plan = [nu |-> 0, nd |-> 0, raw |-> "none"] /\ unsp = <<>> /\ dests = <<>> /\ opts = NoOpts
    /\ res = NoRes /\ raw = NoRaw /\ rres = NoRaw /\ unsp2 = <<>> /\ res2 = NoRes

\* the case's size and kind (a request with nd destinations, or a raw transaction of a given shape) are fixed first,
\* so that random walks spread evenly over them
Plans == {[nu |-> nu, nd |-> nd, raw |-> "none"] : nu \in 1..MaxUnsp, nd \in 1..MaxDest}
         \cup {[nu |-> nu, nd |-> 0, raw |-> r] : nu \in 1..MaxUnsp, r \in Raws}
ChooseCfg ==
    /\ phase = "cfg"
    /\ \E w \in WTypes, a \in ATypes, n \in Nets : cfg' = [wt |-> w, atype |-> a, testnet |-> n]
    /\ \E pl \in Plans : plan' = pl
    /\ phase' = "unsp"
    /\ UNCHANGED <<unsp, dests, opts, res, raw, rres, unsp2, res2>>

\* previous transactions are numbered 1, 2, ...; a new line either opens a new one (output index off) or is a later output
\* of the last one (off outputs further).  The outputs of a previous transaction that are NOT listed are decoys of the
\* concretiser (some pay to keys of the wallet, some do not): a listed index read wrongly (balance/unspent.txt spells it
\* %03d: 010, 008, 100 ...) lands on an unlisted outpoint or on no spendable one, which OnlyListedInputs / SufficientWrites see.
AddUnspent ==
    /\ phase = "unsp"
    /\ \E st \in STypes, am \in UAmts, same \in BOOLEAN, off \in VOffs :
          /\ same => unsp # <<>>
          /\ LET last == IF unsp = <<>> THEN [t |-> 0, v |-> 0] ELSE unsp[Len(unsp)]
                 op == IF same THEN [t |-> last.t, v |-> last.v + 1 + off] ELSE [t |-> last.t + 1, v |-> off]
             IN  unsp' = Append(unsp, [st |-> st, amt |-> AmtOf(am), t |-> op.t, v |-> op.v])
    /\ phase' = IF Len(unsp') < plan.nu THEN "unsp" ELSE IF plan.raw = "none" THEN "dest" ELSE "raw"
    /\ UNCHANGED <<cfg, plan, dests, opts, res, raw, rres, unsp2, res2>>

AddDest ==
    /\ phase = "dest"
    /\ \E dt \in DTypes, am \in DAmts : dests' = Append(dests, [dt |-> dt, amt |-> AmtOf(am), cls |-> am])
    /\ phase' = IF Len(dests') = plan.nd THEN "optA" ELSE "dest"
    /\ UNCHANGED <<cfg, plan, unsp, opts, res, raw, rres, unsp2, res2>>

\* the options are chosen in three steps only to keep the branching of a random walk small
ChooseOptsA ==
    /\ phase = "optA"
    /\ \E f \in Fees, ua \in UseAll, ch \in Changes, sf \in SubFees :
          opts' = [opts EXCEPT !.fee = f, !.useall = ua, !.change = ch, !.subfee = sf]
    /\ phase' = "optB"
    /\ UNCHANGED <<cfg, plan, unsp, dests, res, raw, rres, unsp2, res2>>

ChooseOptsB ==
    /\ phase = "optB"
    /\ \E m \in Msgs, sq \in Seqs, lk \in Locks, vr \in Vers, sg \in SigOpts :
          opts' = [opts EXCEPT !.msg = m, !.seqc = sq, !.lt = lk, !.ver = vr, !.sig = sg]
    /\ phase' = "optC"
    /\ UNCHANGED <<cfg, plan, unsp, dests, res, raw, rres, unsp2, res2>>

ChooseOptsC ==
    /\ phase = "optC"
    /\ \E md \in Modes, tu \in Tunes :
          /\ md = "mixed" => Len(dests) >= 2
          /\ opts' = [opts EXCEPT !.mode = md, !.tune = tu]
    /\ phase' = "ready"
    /\ UNCHANGED <<cfg, plan, unsp, dests, res, raw, rres, unsp2, res2>>

Build ==
    /\ phase = "ready" /\ TuneOK
    /\ res' = BuildRes
    /\ phase' = "built"
    /\ UNCHANGED <<cfg, plan, unsp, dests, opts, raw, rres, unsp2, res2>>

Build2 ==
    /\ phase = "built" /\ res.written /\ "sweep" \in Second
    /\ unsp2' = Applied(res)
    /\ res2' = Sweep(unsp2')
    /\ phase' = "built2"
    /\ UNCHANGED <<cfg, plan, unsp, dests, opts, res, raw, rres>>

\* the raw transaction depends on the balance folder only
SignRaw ==
    /\ phase = "raw"
    /\ raw' = RawOf(plan.raw) /\ rres' = SignRawRes(raw')
    /\ phase' = "rawsigned"
    /\ UNCHANGED <<cfg, plan, unsp, dests, opts, res, unsp2, res2>>

Next == ChooseCfg \/ AddUnspent \/ AddDest \/ ChooseOptsA \/ ChooseOptsB \/ ChooseOptsC \/ Build \/ Build2 \/ SignRaw

Spec == Init /\ [][Next]_vars

----------------------------------------------------------------------------
(* The property. *)
Done == phase \in {"built", "built2"}

InSum(us, r) == SumAmt([j \in 1..Len(r.ins) |-> us[r.ins[j]]])
OutSum(r) == SumAmt(r.outs)
Kinds(r, k) == {j \in 1..Len(r.outs) : r.outs[j].k = k}

\* every requested destination gets exactly the requested amount (less the fee for the first one when -f applies), in order
Wanted(i) == IF i = 1 /\ SubApplies THEN AmtSub(Req(1), Fee) ELSE Req(i)
PaysExactly ==
    Done /\ res.written =>
        /\ Len(res.outs) >= Len(dests)
        /\ \A i \in 1..Len(dests) : res.outs[i] = [k |-> "dest", i |-> i, amt |-> Wanted(i)]
        /\ Kinds(res, "dest") = 1..Len(dests)

\* inputs - payments - fee goes to the change address, as one output, iff it is not zero
ChangeExact ==
    Done /\ res.written =>
        LET in == InSum(unsp, res)
            pay == SumAmt([i \in 1..Len(dests) |-> [amt |-> Wanted(i)]])
            due == AmtAdd(pay, Fee)
        IN  /\ AmtLE(due, in)
            /\ in = AmtAdd(OutSum(res), Fee)
            /\ Cardinality(Kinds(res, "change")) = (IF in = due THEN 0 ELSE 1)
            /\ \A j \in Kinds(res, "change") : res.outs[j].amt = AmtSub(in, due) /\ j = Len(dests) + 1
            /\ Cardinality(Kinds(res, "msg")) = (IF opts.msg = "none" THEN 0 ELSE 1)
            /\ \A j \in Kinds(res, "msg") : j = Len(res.outs) /\ res.outs[j].amt = Zero

\* only listed outputs the wallet has a key for, each at most once
ListedOwnedDistinct(us, r) ==
    /\ \A j \in 1..Len(r.ins) : r.ins[j] \in 1..Len(us) /\ Owned(us[r.ins[j]])
    /\ \A j, k \in 1..Len(r.ins) : j # k => r.ins[j] # r.ins[k]
OnlyListedInputs ==
    /\ Done /\ res.written => ListedOwnedDistinct(unsp, res) /\ res.ins # <<>>
    /\ phase = "built2" /\ res2.written => ListedOwnedDistinct(unsp2, res2)

\* the written transaction exists iff the funds cover the demand; a refusal writes nothing
InsufficientWritesNothing ==
    Done => /\ (SubUnderflow \/ AmtLT(TotalOwned(unsp), AmtAdd(SumAmt([i \in 1..Len(dests) |-> [amt |-> Wanted(i)]]), Fee))) => ~res.written
            /\ ~res.written => res.ins = <<>> /\ res.outs = <<>>
SufficientWrites ==
    Done /\ ~SubUnderflow /\ AmtLE(AmtAdd(SumAmt([i \in 1..Len(dests) |-> [amt |-> Wanted(i)]]), Fee), TotalOwned(unsp)) => res.written

FieldsAsAsked == Done /\ res.written => res.seqc = opts.seqc /\ res.lt = opts.lt /\ res.ver = opts.ver

\* the balance folder after a send: nothing spent stays listed, nothing listed was spent, the wallet's new outputs are listed
BalanceAfter ==
    phase = "built2" =>
        /\ \A j \in 1..Len(unsp) : (\E n \in 1..Len(res.ins) : res.ins[n] = j) <=> ~(\E m \in 1..Len(unsp2) : unsp2[m] = unsp[j] /\ unsp2[m].t # 0)
        /\ \A m \in 1..Len(unsp2) : unsp2[m].t = 0 => res.outs[unsp2[m].v + 1].amt = unsp2[m].amt /\ res.outs[unsp2[m].v + 1].k \in {"dest", "change"}
        /\ res2.written => InSum(unsp2, res2) = AmtAdd(OutSum(res2), Fee) /\ Len(res2.ins) = Len(OwnedSeq(unsp2))

\* -raw: outputs, outpoints, sequence numbers, version and lock time are those of the supplied transaction
RawUntouched ==
    phase = "rawsigned" =>
        /\ rres.outs = raw.outs /\ rres.ver = raw.ver /\ rres.lt = raw.lt
        /\ Len(rres.ins) = Len(raw.ins)
        /\ \A j \in 1..Len(raw.ins) : rres.ins[j] = raw.ins[j]
        /\ \A j \in 1..Len(raw.ins) : rres.signed[j] = (Owned(unsp[raw.ins[j].u]) \/ MSFull(unsp[raw.ins[j].u].st))

TypeOK ==
    /\ phase \in {"cfg", "unsp", "raw", "dest", "optA", "optB", "optC", "ready", "built", "built2", "rawsigned"}
    /\ Len(unsp) <= MaxUnsp /\ Len(dests) <= MaxDest
    /\ \A j \in 1..Len(unsp) : unsp[j].st \in OwnSTypes \cup ForeignSTypes \cup MSTypes /\ unsp[j].amt.h = 0
    /\ \A j, k \in 1..Len(unsp) : j # k => <<unsp[j].t, unsp[j].v>> # <<unsp[k].t, unsp[k].v>>
    /\ \A j \in 1..Len(dests) : dests[j].dt \in AllDTypes
    /\ res.written \in BOOLEAN /\ res2.written \in BOOLEAN
=============================================================================
