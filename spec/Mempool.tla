------------------------------- MODULE Mempool -------------------------------
(***************************************************************************)
(* client/txpool : the memory pool (C12).                                  *)
(*                                                                         *)
(* The algorithmic part models what the code does, index by index:         *)
(*   pool    TransactionsToSend   tx -> [fee, vsize, sops, vol, mem, mic]   *)
(*                                (sops = SigopsCost, vol = Volume,        *)
(*                                 mem = MemInputs, mic = MemInputCnt)     *)
(*   spent   SpentOutputs         set of [tx, vout, by]                    *)
(*   orph    TransactionsRejected entries with Waiting4 (WaitingForInputs) *)
(*   sortedL BestT2S..WorstT2S    the incrementally kept sorted list       *)
(*   dirty   SortListDirty                                                 *)
(* One action per public call:                                             *)
(*   Submit       NeedThisTxExt + HandleNetTx / SubmitLocalTx (processTx,  *)
(*                txAccepted: the retry cascade of waiting orphans)        *)
(*   BlockMined   txMined in reverse order (mined(), Delete), txAccepted   *)
(*   BlockUndone  processTx(Unmined) in block order, unmined()             *)
(*   Expire/Evict Tick (expireOldTxs: Delete with children;                *)
(*                removeExcessiveTxs: Delete from the listing's end)       *)
(*   SaveLoad     MempoolSave + MempoolLoad (indexes are rebuilt); with a  *)
(*                damaged file: SaveLoadFailed (InitMempool: empty pool)   *)
(*   Observe      GetSortedMempoolRBF (rebuilds a dirty list; CPFP merge)  *)
(*   DropOrphan   limitRejected (which entry is dropped is policy)         *)
(* What is POLICY is left open on purpose: a submission may be refused at  *)
(* will (fee floor, RBF rules, AllowMemInputs, size), an orphan may be     *)
(* dropped at will, any descendant-closed set may expire.  The property    *)
(* does not state policy, so the model must not.                           *)
(*                                                                         *)
(* The property (C12) is the set of invariants below; StepOK is what an    *)
(* observed step of the implementation must look like (used by             *)
(* TraceMempool on recorded histories and checked here on the model of the *)
(* code, so that the trace check cannot be stricter than the design).      *)
(*                                                                         *)
(* The confirmed chain: base coinbases 1..BaseH (one 50 BTC output each,   *)
(* tx id = height) + the blocks connected since.  Coinbases of later       *)
(* blocks are left out (not spendable within 100 blocks).                  *)
(***************************************************************************)
EXTENDS Amt, FiniteSets, TLC

CONSTANTS
    BaseH,      \* height of the base chain
    TxIds,      \* ids of the scenario transactions (naturals > BaseH)
    TxDef,      \* [TxIds -> [ins : Seq([tx, vout, ok]), outs : Seq([amt]), vsize, sops]]   (sops = BIP141 sigop cost)
    MaxBlocks,  \* bound: BlockMined steps
    MaxUndo,    \* bound: BlockUndone steps
    MaxFgn,     \* bound: transactions in a block that is not built from the listing
    RepairedRbf,   \* TRUE: a replacement that spends an output of a transaction it replaces is refused
                   \* FALSE: processTx as found (no such rule)
    RepairedRetry, \* TRUE: txAccepted processes every waiting transaction once per pass
                   \* FALSE: txAccepted as found - a transaction that is rejected again as waiting for the very same
                   \*        parent is picked up again, and again: the call never returns (shown as last.res = "crash")
    AllowEvict  \* TRUE: the size-limit eviction may fire

Maturity == 100
SigopLimit == 80000     \* MAX_BLOCK_SIGOPS_COST

VARIABLES
    chain,      \* blocks connected above the base: Seq([txs : Seq(TxIds), spent : SUBSET utxo entries])
    utxo,       \* confirmed unspent outputs: set of [tx, vout, h]
    pool, spent, orph, sortedL, dirty,
    obs,        \* last listing handed out: [fresh, lst (GetSortedMempoolRBF), srt (GetSortedMempool)]
    need,       \* height the chain must reach before the pool is used again (a reorganisation is one
                \* uninterrupted sequence of BlockUndone and BlockMined calls that ends higher than it began)
    nMined, nUndone,
    last        \* what the last step was: [a, t, res]

vars == <<chain, utxo, pool, spent, orph, sortedL, dirty, obs, need, nMined, nUndone, last>>

Range(s) == {s[i] : i \in 1..Len(s)}
Min(S) == CHOOSE x \in S : \A y \in S : x <= y
Restrict(f, S) == [x \in S |-> f[x]]
SeqOfSet(S) == LET RECURSIVE F(_) F(s) == IF s = {} THEN <<>> ELSE LET x == Min(s) IN <<x>> \o F(s \ {x}) IN F(S)
RemoveAt(s, i) == SubSeq(s, 1, i - 1) \o SubSeq(s, i + 1, Len(s))
InsertAt(s, i, x) == SubSeq(s, 1, i - 1) \o <<x>> \o SubSeq(s, i, Len(s))    \* x becomes element i
Without(s, X) == SelectSeq(s, LAMBDA e : e \notin X)

----------------------------------------------------------------------------
(* transactions and outputs *)

IsBaseCb(t) == t >= 1 /\ t <= BaseH
OutsOf(t) == IF IsBaseCb(t) THEN <<[amt |-> A(50, 0)]>> ELSE IF t \in TxIds THEN TxDef[t].outs ELSE <<>>
Ins(t) == TxDef[t].ins
NIns(t) == Len(TxDef[t].ins)
OP(in) == [tx |-> in.tx, vout |-> in.vout]
InOuts(t) == {OP(Ins(t)[i]) : i \in 1..NIns(t)}
OutExists(o) == o.vout >= 1 /\ o.vout <= Len(OutsOf(o.tx))
AmtOf(o) == OutsOf(o.tx)[o.vout].amt
OutSum(t) == AmtSumSeq([k \in 1..Len(TxDef[t].outs) |-> TxDef[t].outs[k].amt])
InSum(t) == AmtSumSeq([i \in 1..NIns(t) |-> IF OutExists(OP(Ins(t)[i])) THEN AmtOf(OP(Ins(t)[i])) ELSE Zero])
ScriptsOK(t) == \A i \in 1..NIns(t) : Ins(t)[i].ok

Height == BaseH + Len(chain)
UtxoEnt(u, o) == {e \in u : e.tx = o.tx /\ e.vout = o.vout}
UtxoHas(u, o) == UtxoEnt(u, o) # {}
MatureAt(u, o, h) == \A e \in UtxoEnt(u, o) : IsBaseCb(e.tx) => h - e.h >= Maturity
Confirmed(t) == \E i \in 1..Len(chain) : t \in Range(chain[i].txs)
BaseUtxo == {[tx |-> t, vout |-> 1, h |-> t] : t \in 1..BaseH}
Created(t, h) == {[tx |-> t, vout |-> v, h |-> h] : v \in 1..Len(OutsOf(t))}

\* a sequence of transactions is valid as the body of a block of height h on view u (C04 in small:
\* inputs exist in the view at that point of the block, mature, scripts valid, outputs covered)
RECURSIVE SeqValid(_, _, _)
SeqValid(u, txs, h) ==
    IF txs = <<>> THEN TRUE
    ELSE LET t == Head(txs) IN
         /\ \A i \in 1..NIns(t) : UtxoHas(u, OP(Ins(t)[i])) /\ MatureAt(u, OP(Ins(t)[i]), h)
         /\ Cardinality(InOuts(t)) = NIns(t)
         /\ ScriptsOK(t)
         /\ ~AmtLT(InSum(t), OutSum(t))
         /\ \A e \in u : e.tx # t
         /\ SeqValid((u \ UNION {UtxoEnt(u, o) : o \in InOuts(t)}) \cup Created(t, h), Tail(txs), h)

\* real sigop cost of a sequence of transactions; a block may carry SigopLimit at most
RECURSIVE SumSops(_)
SumSops(txs) == IF txs = <<>> THEN 0 ELSE TxDef[Head(txs)].sops + SumSops(Tail(txs))
BlockValid(u, txs, h) == SeqValid(u, txs, h) /\ SumSops(txs) <= SigopLimit

\* block assembly as client/rpcapi does it: the listing is cut where the RECORDED sigop cost would pass the limit
RECURSIVE AssembleN(_, _, _, _)
AssembleN(p, lst, i, acc) ==
    IF i > Len(lst) THEN Len(lst)
    ELSE IF acc + p[lst[i]].sops > SigopLimit THEN i - 1
    ELSE AssembleN(p, lst, i + 1, acc + p[lst[i]].sops)
Assemble(p, lst) == SubSeq(lst, 1, AssembleN(p, lst, 1, 0))

RECURSIVE ApplySeq(_, _, _)
ApplySeq(u, txs, h) ==
    IF txs = <<>> THEN u
    ELSE LET t == Head(txs) IN
         ApplySeq((u \ UNION {UtxoEnt(u, o) : o \in InOuts(t)}) \cup Created(t, h), Tail(txs), h)

----------------------------------------------------------------------------
(* the pool's indexes, as the code walks them *)

\* u, h: the confirmed outputs and the height as the pool's callbacks see them (the chain is updated first)
St == [pool |-> pool, spent |-> spent, orph |-> orph, L |-> sortedL, dirty |-> dirty, crash |-> FALSE, u |-> utxo, h |-> Height]

SpentBy(sp, o) == {e.by : e \in {s \in sp : s.tx = o.tx /\ s.vout = o.vout}}
ChildrenIdx(sp, t) == {e.by : e \in {s \in sp : s.tx = t}}                \* GetChildren: through SpentOutputs
RECURSIVE DescIdx(_, _, _)
DescIdx(sp, todo, acc) ==                                                  \* GetAllChildren / Delete(with_children)
    IF todo = {} THEN acc
    ELSE LET x == Min(todo)
             ch == ChildrenIdx(sp, x) \ (acc \cup {x})
         IN DescIdx(sp, (todo \ {x}) \cup ch, acc \cup {x})

AnyMem(p, t) == \E i \in 1..NIns(t) : p[t].mem[i]
MemParents(p, t) == {Ins(t)[i].tx : i \in {j \in 1..NIns(t) : p[t].mem[j]}}

\* fee rate comparison (isFirstTxBetter): fees of the model-checking universes are below 10^6 satoshi
FeeSat(p, t) == p[t].fee.u * COIN + p[t].fee.e
Better(p, a, b) == FeeSat(p, a) * TxDef[b].vsize > FeeSat(p, b) * TxDef[a].vsize

PosIn(L, x) == CHOOSE i \in 1..Len(L) : L[i] = x

\* AddToSort / DelFromSort; inBlk = BlockCommitInProgress (SortingDisabled)
AddToSort(st, t, inBlk) ==
    IF st.dirty THEN st
    ELSE IF inBlk THEN [st EXCEPT !.dirty = TRUE]
    ELSE LET L == st.L
             mp == MemParents(st.pool, t) \cap Range(L)
             w == IF mp = {} THEN 0 ELSE CHOOSE i \in 1..Len(L) : L[i] \in mp /\ \A j \in (i + 1)..Len(L) : L[j] \notin mp
             cand == {j \in (w + 1)..Len(L) : Better(st.pool, t, L[j])}
         IN [st EXCEPT !.L = IF cand = {} THEN Append(L, t) ELSE InsertAt(L, Min(cand), t)]

DelFromSort(st, t, inBlk) ==
    IF st.dirty THEN st
    ELSE IF inBlk THEN [st EXCEPT !.dirty = TRUE]
    ELSE [st EXCEPT !.L = Without(@, {t})]

\* OneTxToSend.Delete(false, _): index entries of its inputs, the map entry, the sorted list
Del1(st, t, inBlk) ==
    LET st1 == [st EXCEPT !.spent = {e \in @ : e.by # t}, !.pool = Restrict(@, DOMAIN @ \ {t})]
    IN DelFromSort(st1, t, inBlk)

\* delete a set, children first (Delete(true, _) / the RBF loop "find one with no children")
RECURSIVE DelSet(_, _, _)
DelSet(st, S, inBlk) ==
    IF S = {} THEN st
    ELSE LET leaves == {x \in S : ChildrenIdx(st.spent, x) \cap S = {}}
             x == IF leaves = {} THEN Min(S) ELSE Min(leaves)
         IN DelSet(Del1(st, x, inBlk), S \ {x}, inBlk)

\* processTx.  pol = FALSE: refused for a policy reason.  Returns [st, res].
Proc(st, t, unm, trusted, pol, inBlk) ==
    LET ins == Ins(t)
        n == NIns(t)
        confl == UNION {SpentBy(st.spent, OP(ins[i])) : i \in 1..n}
        R == DescIdx(st.spent, confl, {})
        memf == [i \in 1..n |-> ins[i].tx \in DOMAIN st.pool]
        badvout == \E i \in 1..n : memf[i] /\ ~OutExists(OP(ins[i]))
        missing == {i \in 1..n : ~memf[i] /\ ~UtxoHas(st.u, OP(ins[i]))}
        immature == \E i \in 1..n : ~memf[i] /\ i \notin missing /\ ~MatureAt(st.u, OP(ins[i]), st.h + 1)
        spendsR == \E i \in 1..n : memf[i] /\ ins[i].tx \in R
        refuse == [st |-> st, res |-> "refused"]
    IN
    IF badvout THEN refuse
    ELSE IF missing # {}
         THEN IF unm THEN [st |-> [st EXCEPT !.crash = TRUE], res |-> "refused"]     \* "No UTXO for unmined tx": os.Exit(1)
              ELSE IF pol THEN [st |-> [st EXCEPT !.orph = (t :> ins[Min(missing)].tx) @@ @], res |-> "orphaned"]
              ELSE refuse                                                             \* BAD_PARENT, NOT_MINED
    ELSE IF ~unm /\ immature THEN refuse
    ELSE IF RepairedRbf /\ spendsR THEN refuse
    ELSE IF AmtLT(InSum(t), OutSum(t)) THEN refuse
    ELSE IF ~unm /\ ~pol THEN refuse                                                  \* fee floor, RBF rules
    ELSE IF ~trusted /\ ~ScriptsOK(t) THEN refuse
    ELSE LET st1 == DelSet(st, R, inBlk)
             rec == [fee |-> AmtSub(InSum(t), OutSum(t)), vsize |-> TxDef[t].vsize, sops |-> TxDef[t].sops, vol |-> InSum(t), mem |-> memf,
                     mic |-> Cardinality({i \in 1..n : memf[i]})]
             st2 == [st1 EXCEPT !.pool = (t :> rec) @@ @,
                                !.spent = @ \cup {[tx |-> ins[i].tx, vout |-> ins[i].vout, by |-> t] : i \in 1..n}]
         IN [st |-> AddToSort(st2, t, inBlk), res |-> "accepted"]

\* txAccepted: transactions that waited for an accepted one are processed again
RECURSIVE Retry(_, _, _, _, _)
Retry(st, todo, tried, polf, inBlk) ==
    IF todo = <<>> \/ st.crash THEN st
    ELSE LET x == Head(todo)
             W == {o \in DOMAIN st.orph : st.orph[o] = x} \ tried
         IN IF W = {} THEN Retry(st, Tail(todo), tried, polf, inBlk)
            ELSE LET o == Min(W)
                     st1 == [st EXCEPT !.orph = Restrict(@, DOMAIN @ \ {o})]
                     r == Proc(st1, o, FALSE, FALSE, polf[o], inBlk)
                     again == r.res = "orphaned" /\ r.st.orph[o] = x
                 IN IF again /\ ~RepairedRetry THEN [r.st EXCEPT !.crash = TRUE]
                    ELSE Retry(r.st, IF r.res = "accepted" THEN Append(todo, o) ELSE todo, tried \cup {o}, polf, inBlk)

\* GetSortedMempoolSlow: by fee rate, then parents first - driven by the MemInputs marks
SortByRate(p) ==
    LET RECURSIVE F(_) F(S) == IF S = {} THEN <<>>
                               ELSE LET b == CHOOSE x \in S : \A y \in S \ {x} : Better(p, x, y) \/ (~Better(p, y, x) /\ x < y)
                                    IN <<b>> \o F(S \ {b})
    IN F(DOMAIN p)

RECURSIVE AppendTx(_, _, _, _)
AppendTx(p, acc, t, fuel) ==      \* acc = [res, waiting : [tx -> Seq of deferred children]]
    LET a1 == [acc EXCEPT !.res = Append(@, t)]
        kids == IF t \in DOMAIN a1.waiting THEN a1.waiting[t] ELSE <<>>
        RECURSIVE G(_, _) G(a, i) ==
            IF i > Len(kids) THEN a
            ELSE LET c == kids[i] IN
                 IF c \in Range(a.res) \/ fuel = 0 THEN G(a, i + 1)
                 ELSE IF MemParents(p, c) \subseteq Range(a.res) THEN G(AppendTx(p, a, c, fuel - 1), i + 1)
                 ELSE G(a, i + 1)
    IN G([a1 EXCEPT !.waiting = Restrict(@, DOMAIN @ \ {t})], 1)

Rebuild(p) ==
    LET S == SortByRate(p)
        RECURSIVE F(_, _) F(acc, i) ==
            IF i > Len(S) THEN acc
            ELSE LET t == S[i]
                     miss == (MemParents(p, t) \cap DOMAIN p) \ Range(acc.res)
                 IN IF t \in Range(acc.res) THEN F(acc, i + 1)
                    ELSE IF miss # {}
                    THEN F([acc EXCEPT !.waiting = [x \in DOMAIN @ \cup miss |->
                                   IF x \in miss THEN Append(IF x \in DOMAIN @ THEN @[x] ELSE <<>>, t) ELSE @[x]]], i + 1)
                    ELSE F(AppendTx(p, acc, t, Cardinality(DOMAIN p)), i + 1)
    IN F([res |-> <<>>, waiting |-> <<>>], 1).res

\* GetAllParentsExcept(t, except): unconfirmed ancestors in post-order, following the MemInputs marks
RECURSIVE AncPost(_, _, _, _, _)
AncPost(p, t, except, acc, isStart) ==      \* acc = [seq, seen]
    LET pars == [i \in 1..NIns(t) |-> Ins(t)[i].tx]
        RECURSIVE G(_, _) G(a, i) ==
            IF i > NIns(t) THEN a
            ELSE IF p[t].mem[i] /\ pars[i] # except /\ pars[i] \notin a.seen /\ pars[i] \in DOMAIN p
                 THEN G(AncPost(p, pars[i], except, a, FALSE), i + 1)
                 ELSE G(a, i + 1)
        a1 == G(acc, 1)
    IN IF isStart \/ t \in a1.seen THEN a1 ELSE [seq |-> Append(a1.seq, t), seen |-> a1.seen \cup {t}]

\* GetItWithAllChildren
WithAllChildren(p, sp, t) ==
    LET RECURSIVE F(_, _) F(res, idx) ==
            IF idx > Len(res) THEN res
            ELSE LET par == res[idx]
                     chs == SeqOfSet(ChildrenIdx(sp, par) \cap DOMAIN p)
                     RECURSIVE G(_, _) G(r, k) ==
                         IF k > Len(chs) THEN r
                         ELSE IF chs[k] \in Range(r) THEN G(r, k + 1)
                         ELSE LET anc == AncPost(p, chs[k], par, [seq |-> <<>>, seen |-> {chs[k]}], TRUE).seq
                                  add == SelectSeq(anc, LAMBDA x : x \notin Range(r))
                              IN G(Append(r \o add, chs[k]), k + 1)
                 IN F(G(res, 1), idx + 1)
    IN F(<<t>>, 1)

\* buildListAndPackages + GetSortedMempoolRBF: fee packages of a top parent with everything below it are
\* moved in front of the first single transaction they beat
RbfListing(p, sp, L) ==
    LET tops == SelectSeq(L, LAMBDA t : ~AnyMem(p, t))
        raw == [i \in 1..Len(tops) |-> WithAllChildren(p, sp, tops[i])]
        idxs == {i \in 1..Len(tops) : Len(raw[i]) > 1}
        PFee(i) == LET RECURSIVE S(_) S(k) == IF k = 0 THEN 0 ELSE FeeSat(p, raw[i][k]) + S(k - 1) IN S(Len(raw[i]))
        PWt(i) == LET RECURSIVE S(_) S(k) == IF k = 0 THEN 0 ELSE TxDef[raw[i][k]].vsize + S(k - 1) IN S(Len(raw[i]))
        PBetter(i, j) == PFee(i) * PWt(j) > PFee(j) * PWt(i)
        pk == LET RECURSIVE F(_) F(S) == IF S = {} THEN <<>>
                                         ELSE LET b == CHOOSE x \in S : \A y \in S \ {x} : PBetter(x, y) \/ (~PBetter(y, x) /\ x < y)
                                              IN <<b>> \o F(S \ {b})
              IN F(idxs)
        RECURSIVE Walk(_, _, _)
        Walk(res, li, pi) ==
            IF li > Len(L) THEN res
            ELSE LET t == L[li] IN
                 IF pi <= Len(pk) /\ PFee(pk[pi]) * TxDef[t].vsize > FeeSat(p, t) * PWt(pk[pi])
                 THEN IF Range(raw[pk[pi]]) \cap Range(res) # {} THEN Walk(res, li, pi + 1)
                      ELSE Walk(res \o raw[pk[pi]], li, pi + 1)
                 ELSE Walk(IF t \in Range(res) THEN res ELSE Append(res, t), li + 1, pi)
    IN Walk(<<>>, 1, 1)

ListNow(st) == IF st.dirty THEN Rebuild(st.pool) ELSE st.L

----------------------------------------------------------------------------
Init ==
    /\ chain = <<>> /\ utxo = BaseUtxo
    /\ pool = <<>> /\ spent = {} /\ orph = <<>> /\ sortedL = <<>> /\ dirty = FALSE
    /\ obs = [fresh |-> TRUE, lst |-> <<>>, srt |-> <<>>]
    /\ need = 0 /\ nMined = 0 /\ nUndone = 0
    /\ last = [a |-> "Init", t |-> 0, res |-> ""]

Install(st) ==
    /\ pool' = st.pool /\ spent' = st.spent /\ orph' = st.orph /\ dirty' = st.dirty
    /\ sortedL' = IF st.dirty THEN <<>> ELSE st.L          \* a dirty list is never read

Stale == obs' = [fresh |-> FALSE, lst |-> <<>>, srt |-> <<>>]
Idle == Height >= need          \* no reorganisation under way

Modes == {"net", "trusted", "local"}

\* the network layer / the text UI ask NeedThisTxExt first; own transactions are first removed from the reject cache
Submit(t, mode, polf) ==
    /\ Idle
    /\ (mode # "net") => ScriptsOK(t)      \* ASSUMPTION: trusted peers and the operator hand in valid scripts (not verified by the pool)
    /\ LET st0 == IF mode = "local" THEN [St EXCEPT !.orph = Restrict(@, DOMAIN @ \ {t})] ELSE St
           notneeded == t \in DOMAIN st0.pool \/ t \in DOMAIN st0.orph \/ \E e \in utxo : e.tx = t    \* why_not 1, 2, 4
           r == Proc(st0, t, FALSE, mode # "net", polf[t], FALSE)
           st2 == IF r.res = "accepted" THEN Retry(r.st, <<t>>, {}, polf, FALSE) ELSE r.st
       IN IF notneeded
          THEN Install(st0) /\ last' = [a |-> "Submit", t |-> t, res |-> "notneeded"]
          ELSE Install(st2) /\ last' = [a |-> "Submit", t |-> t, res |-> IF st2.crash THEN "crash" ELSE r.res]
    /\ Stale
    /\ UNCHANGED <<chain, utxo, need, nMined, nUndone>>

\* mined(): the MemInputs marks of the children of a mined transaction are cleared
MinedMarks(st, t) ==
    LET ch == {e \in st.spent : e.tx = t /\ e.by \in DOMAIN st.pool}
    IN IF ch = {} THEN st
       ELSE [st EXCEPT !.dirty = TRUE,
                       !.pool = [c \in DOMAIN @ |-> [@[c] EXCEPT
                                     !.mem = [i \in 1..NIns(c) |->
                                         IF Ins(c)[i].tx = t /\ [tx |-> t, vout |-> Ins(c)[i].vout, by |-> c] \in ch THEN FALSE ELSE @[i]],
                                     !.mic = @ - Cardinality({e \in ch : e.by = c})]]]      \* MemInputCnt-- per index entry

\* txMined
TxMined(st, t) ==
    LET hits == {o \in DOMAIN st.orph : InOuts(o) \cap InOuts(t) # {}} \cup {t}      \* RejectedSpentOutputs / the tx itself
        st0 == [st EXCEPT !.orph = Restrict(@, DOMAIN @ \ hits)]
    IN IF t \in DOMAIN st0.pool
       THEN Del1(MinedMarks(st0, t), t, TRUE)
       ELSE LET confl == UNION {SpentBy(st0.spent, o) : o \in InOuts(t)}
            IN DelSet(st0, DescIdx(st0.spent, confl, {}), TRUE)

RECURSIVE MineAll(_, _, _)
MineAll(st, txs, i) == IF i = 0 THEN st ELSE MineAll(TxMined(st, txs[i]), txs, i - 1)

\* a block is connected: the chain first, then the pool's callback (BlockCommitInProgress is set)
BlockMined(txs, polf) ==
    /\ nMined < MaxBlocks
    /\ BlockValid(utxo, txs, Height + 1)
    /\ LET u1 == ApplySeq(utxo, txs, Height + 1)
           st0 == [St EXCEPT !.u = u1, !.h = Height + 1]
           st1 == MineAll(st0, txs, Len(txs))
           st2 == IF txs = <<>> THEN st1 ELSE Retry(st1, txs, {}, polf, TRUE)
       IN /\ utxo' = u1
          /\ chain' = Append(chain, [txs |-> txs, spent |-> utxo \ u1])
          /\ Install(st2)
          /\ last' = [a |-> "BlockMined", t |-> 0, res |-> IF st2.crash THEN "crash" ELSE ""]
    /\ nMined' = nMined + 1
    /\ Stale
    /\ UNCHANGED <<need, nUndone>>

\* unmined(): the children of a transaction that came back are marked again
UnminedMarks(st, t) ==
    LET ch == {e \in st.spent : e.tx = t /\ e.by \in DOMAIN st.pool}
    IN IF ch = {} THEN st
       ELSE [st EXCEPT !.dirty = TRUE,
                       !.pool = [c \in DOMAIN @ |-> [@[c] EXCEPT
                                     !.mem = [i \in 1..NIns(c) |->
                                         IF Ins(c)[i].tx = t /\ [tx |-> t, vout |-> Ins(c)[i].vout, by |-> c] \in ch THEN TRUE ELSE @[i]],
                                     !.mic = @ + Cardinality({e \in ch : e.by = c /\ ~\E i \in 1..NIns(c) :
                                                                 Ins(c)[i].tx = t /\ Ins(c)[i].vout = e.vout /\ st.pool[c].mem[i]})]]]

RECURSIVE UndoAll(_, _, _)
UndoAll(st, txs, i) ==
    IF i > Len(txs) THEN st
    ELSE LET t == txs[i]
             st0 == [st EXCEPT !.orph = Restrict(@, DOMAIN @ \ {t})]
             r == Proc(st0, t, TRUE, TRUE, TRUE, TRUE)
         IN UndoAll(IF r.res = "accepted" THEN UnminedMarks(r.st, t) ELSE [r.st EXCEPT !.crash = TRUE], txs, i + 1)

\* a block is disconnected: the chain first (UndoBlockTxs), then the pool's callback.  BlockUndone calls
\* os.Exit(1) when a transaction of the block cannot be put back: last.res = "crash"
BlockUndone ==
    /\ chain # <<>> /\ nUndone < MaxUndo
    /\ Idle \/ last.a = "BlockUndone"            \* the disconnections of a reorganisation come first, in one run
    /\ LET b == chain[Len(chain)]
           u1 == (utxo \ UNION {Created(b.txs[i], Height) : i \in 1..Len(b.txs)}) \cup b.spent
           st1 == UndoAll([St EXCEPT !.u = u1, !.h = Height - 1], b.txs, 1)
       IN /\ utxo' = u1
          /\ chain' = SubSeq(chain, 1, Len(chain) - 1)
          /\ Install(st1)
          /\ last' = [a |-> "BlockUndone", t |-> 0, res |-> IF st1.crash THEN "crash" ELSE ""]
    /\ need' = IF need > Height + 1 THEN need ELSE Height + 1
    /\ nUndone' = nUndone + 1
    /\ Stale
    /\ UNCHANGED nMined

\* Tick / expireOldTxs: every transaction of S0 is deleted with all its children
Expire(S0) ==
    /\ Idle /\ S0 # {} /\ S0 \subseteq DOMAIN pool
    /\ Install(DelSet(St, DescIdx(spent, S0, {}), FALSE))
    /\ Stale
    /\ last' = [a |-> "Tick", t |-> 0, res |-> ""]
    /\ UNCHANGED <<chain, utxo, need, nMined, nUndone>>

\* removeExcessiveTxs: the worst k entries of the listing are deleted one by one, without their children
RECURSIVE DelSeqRev(_, _, _)
DelSeqRev(st, seq, k) == IF k = 0 THEN st ELSE DelSeqRev(Del1(st, seq[Len(seq)], FALSE), SubSeq(seq, 1, Len(seq) - 1), k - 1)
Evict(k) ==
    /\ AllowEvict /\ Idle /\ k >= 1 /\ k <= Cardinality(DOMAIN pool)
    /\ LET L == ListNow(St)
           st1 == [St EXCEPT !.L = L, !.dirty = FALSE]
           lst == RbfListing(pool, spent, L)
       IN Install(DelSeqRev(st1, lst, k))
    /\ Stale
    /\ last' = [a |-> "Tick", t |-> 0, res |-> "evict"]
    /\ UNCHANGED <<chain, utxo, need, nMined, nUndone>>

\* limitRejected / the reject ring: a waiting transaction is forgotten
DropOrphan(o) ==
    /\ o \in DOMAIN orph
    /\ orph' = Restrict(orph, DOMAIN orph \ {o})
    /\ last' = [a |-> "Tick", t |-> o, res |-> "drop"]
    /\ UNCHANGED <<chain, utxo, pool, spent, sortedL, dirty, obs, need, nMined, nUndone>>

\* MempoolSave + MempoolLoad: transactions and the reject cache come back; SpentOutputs is rebuilt from the
\* inputs; MemInputs are recomputed for the transactions that had any; both sort structures are dirty
SaveLoad ==
    /\ Idle
    /\ pool' = [t \in DOMAIN pool |->
                  LET m == [i \in 1..NIns(t) |-> AnyMem(pool, t) /\ Ins(t)[i].tx \in DOMAIN pool]
                  IN [pool[t] EXCEPT !.mem = m, !.mic = Cardinality({i \in 1..NIns(t) : m[i]})]]
    /\ spent' = UNION {{[tx |-> Ins(t)[i].tx, vout |-> Ins(t)[i].vout, by |-> t] : i \in 1..NIns(t)} : t \in DOMAIN pool}
    /\ dirty' = TRUE /\ sortedL' = <<>>
    /\ Stale
    /\ last' = [a |-> "SaveLoad", t |-> 0, res |-> ""]
    /\ UNCHANGED <<chain, utxo, orph, need, nMined, nUndone>>

\* MempoolSave, the file cut short or damaged (a crash while saving), MempoolLoad on the same tip: any error while
\* loading ends in InitMempool - the node goes on with an EMPTY, fully consistent pool and reject cache
SaveLoadFailed ==
    /\ Idle
    /\ pool' = <<>> /\ spent' = {} /\ orph' = <<>> /\ sortedL' = <<>> /\ dirty' = FALSE
    /\ Stale
    /\ last' = [a |-> "SaveLoad", t |-> 0, res |-> "failed"]
    /\ UNCHANGED <<chain, utxo, need, nMined, nUndone>>

\* GetSortedMempoolRBF (+ GetSortedMempool): a dirty list is rebuilt first
Observe ==
    /\ Idle /\ ~obs.fresh
    /\ LET L == ListNow(St) IN
       /\ sortedL' = L /\ dirty' = FALSE
       /\ obs' = [fresh |-> TRUE, lst |-> RbfListing(pool, spent, L), srt |-> L]
    /\ last' = [a |-> "Observe", t |-> 0, res |-> ""]
    /\ UNCHANGED <<chain, utxo, pool, spent, orph, need, nMined, nUndone>>

\* blocks: a prefix of the listing (a miner using this node), or any valid sequence of scenario transactions
\* (somebody else's block: pooled, conflicting and unknown transactions)
PolFs(S) == {f \in [TxIds -> BOOLEAN] : \A x \in TxIds \ S : f[x]}     \* policy verdicts that can matter in this step
RECURSIVE ValidSeqs(_, _, _)
ValidSeqs(u, h, n) ==
    IF n = 0 THEN {<<>>}
    ELSE {<<>>} \cup UNION {{<<t>> \o s : s \in ValidSeqs(ApplySeq(u, <<t>>, h), h, n - 1)} : t \in {x \in TxIds : SeqValid(u, <<x>>, h)}}

\* the orphans a retry cascade started by the transactions of S can reach
RECURSIVE Waiters(_, _)
Waiters(S, acc) ==
    LET nxt == {o \in DOMAIN orph : orph[o] \in S \cup acc} \ acc
    IN IF nxt = {} THEN acc ELSE Waiters(S, acc \cup nxt)

\* "trusted" differs from "net" only in skipping the script check, which the assumption above makes void;
\* "local" differs only for a transaction that sits in the reject cache
ModesFor(t) == IF t \in DOMAIN orph THEN {"net", "local"} ELSE {"net"}

Next ==
    \/ \E t \in TxIds : \E m \in ModesFor(t) : \E pf \in PolFs({t} \cup Waiters({t}, {})) : Submit(t, m, pf)
    \/ \E pf \in PolFs(DOMAIN orph) :
          \/ Idle /\ obs.fresh /\ \E k \in 0..Len(Assemble(pool, obs.lst)) : BlockMined(SubSeq(obs.lst, 1, k), pf)
          \/ \E s \in ValidSeqs(utxo, Height + 1, MaxFgn) : BlockMined(s, pf)      \* (BlockMined refuses what exceeds the sigop limit)
    \/ BlockUndone
    \/ \E t \in DOMAIN pool : Expire({t})
    \/ \E k \in 1..2 : Evict(k)
    \/ \E o \in DOMAIN orph : DropOrphan(o)
    \/ SaveLoad
    \/ SaveLoadFailed
    \/ Observe

Spec == Init /\ [][Next]_vars

\* `last` only says what the step was (read by StepOK and NoCrash): not part of a state's identity
View == <<chain, utxo, pool, spent, orph, sortedL, dirty, obs, need, nMined, nUndone, last.res = "crash", last.a = "BlockUndone">>

----------------------------------------------------------------------------
(* The property (C12) *)

P == DOMAIN pool

TypeOK ==
    /\ P \subseteq TxIds /\ DOMAIN orph \subseteq TxIds
    /\ \A t \in P : Len(pool[t].mem) = NIns(t)

\* no two pooled transactions spend the same output
NoConflicts == \A a, b \in P : a # b => InOuts(a) \cap InOuts(b) = {}

\* each input of a pooled transaction is an unspent confirmed output or an output of another pooled transaction
InputOK(t, i) ==
    LET o == OP(Ins(t)[i]) IN
    \/ o.tx \in P /\ o.tx # t /\ OutExists(o)
    \/ UtxoHas(utxo, o) /\ (Idle => MatureAt(utxo, o, Height + 1))
InputsSpendable == \A t \in P : \A i \in 1..NIns(t) : InputOK(t, i)

\* nothing pooled duplicates the active chain (conflicts with it are excluded by InputsSpendable)
DisjointFromChain == \A t \in P : ~Confirmed(t) /\ ~\E e \in utxo : e.tx = t

\* recorded fee = sum of inputs - sum of outputs, recorded size = the BIP141 size
FeeExact ==
    \A t \in P : /\ \A i \in 1..NIns(t) : OutExists(OP(Ins(t)[i]))
                 /\ ~AmtLT(InSum(t), OutSum(t))
                 /\ pool[t].fee = AmtSub(InSum(t), OutSum(t))
                 /\ pool[t].vsize = TxDef[t].vsize

\* the other recorded attributes: total input value, sigop cost (legacy x 4, P2SH redeem script x 4, witness x 1)
AttrsExact == \A t \in P : pool[t].vol = InSum(t) /\ pool[t].sops = TxDef[t].sops

\* the spent-output index is exactly the inputs of the pool; the mem-input marks are exactly the pooled parents
\* and the mem-input counter is their number
SpentDef == UNION {{[tx |-> Ins(t)[i].tx, vout |-> Ins(t)[i].vout, by |-> t] : i \in 1..NIns(t)} : t \in P}
IndexesAgree ==
    /\ spent = SpentDef
    /\ \A t \in P : /\ \A i \in 1..NIns(t) : pool[t].mem[i] = (Ins(t)[i].tx \in P)
                 /\ pool[t].mic = Cardinality({i \in 1..NIns(t) : Ins(t)[i].tx \in P})

\* a listing holds every pooled transaction once, parents before children
IsListing(L) ==
    /\ Range(L) = P /\ Len(L) = Cardinality(P)
    /\ \A i, j \in 1..Len(L) : (\E k \in 1..NIns(L[j]) : Ins(L[j])[k].tx = L[i]) => i < j
ParentsBeforeChildren == (obs.fresh /\ Idle) => IsListing(obs.lst) /\ IsListing(obs.srt)

\* a block assembled from the listing - any prefix of it, cut where the recorded sigop cost reaches the limit -
\* is valid on the chain: everything listed is spendable in that order, and what was assembled really fits
TemplateValid == (obs.fresh /\ Idle) => /\ SeqValid(utxo, obs.lst, Height + 1)
                                         /\ SumSops(Assemble(pool, obs.lst)) <= SigopLimit

\* the same two for the listing the pool WOULD hand out in this state (model checking only)
ListingAlwaysGood ==
    Idle => LET L == ListNow(St)
                R == RbfListing(pool, spent, L)
            IN IsListing(L) /\ IsListing(R) /\ SeqValid(utxo, R, Height + 1) /\ SumSops(Assemble(pool, R)) <= SigopLimit

\* the incrementally kept list, while it is trusted, is a listing
SortedListGood == (~dirty /\ Idle) => IsListing(sortedL)

\* nothing with an invalid script is pooled (trusted / own submissions are assumed valid, see Submit): in
\* particular not through the retry of a transaction that waited for its parent
PoolScriptsOK == \A t \in P : ScriptsOK(t)

NoCrash == last.res # "crash"

\* orphans wait for a parent they really have
OrphansSane == \A o \in DOMAIN orph : o \notin P /\ \E i \in 1..NIns(o) : Ins(o)[i].tx = orph[o]

----------------------------------------------------------------------------
(* What an observed step must look like (R->V).  Everything else about a step follows from the           *)
(* invariants holding before and after it.                                                               *)

Conflicting(p, t) == {x \in DOMAIN p : x # t /\ InOuts(x) \cap InOuts(t) # {}}
RECURSIVE DescDef(_, _, _)
DescDef(p, todo, acc) ==
    IF todo = {} THEN acc
    ELSE LET x == Min(todo)
             ch == {c \in DOMAIN p : \E i \in 1..NIns(c) : Ins(c)[i].tx = x} \ (acc \cup {x})
         IN DescDef(p, (todo \ {x}) \cup ch, acc \cup {x})

\* removals must be explained: by a transaction that may have entered in this step (cands) conflicting with
\* them or with an ancestor; by a block (its transactions and what they conflict with); by expiry / eviction
Explained(cands) ==
    LET seeds == UNION {Conflicting(pool, c) : c \in cands}
    IN (P \ DOMAIN pool') \subseteq DescDef(pool, seeds, {})

StepSubmit(t, res) ==
    LET added == DOMAIN pool' \ P
        cands == {t} \cup DOMAIN orph
    IN /\ added \subseteq cands
       /\ res \in {"refused", "orphaned", "notneeded"} => pool' = pool /\ spent' = spent
       /\ res = "orphaned" => \E i \in 1..NIns(t) : Ins(t)[i].tx \notin P /\ ~UtxoHas(utxo, OP(Ins(t)[i]))
                              \* (whether it is still in the reject cache afterwards is policy: the cache is bounded)
       /\ res = "accepted" => (t \in DOMAIN pool' \/ AllowEvict)
       /\ AllowEvict \/ Explained(IF res = "accepted" THEN cands ELSE {})

StepMined(txs) ==
    LET added == DOMAIN pool' \ P
    IN /\ added \subseteq DOMAIN orph
       /\ Range(txs) \cap DOMAIN pool' = {}
       /\ (P \ DOMAIN pool') \subseteq Range(txs) \cup DescDef(pool, UNION {Conflicting(pool, c) : c \in Range(txs) \cup DOMAIN orph}, {})

\* (that every transaction of the block is put back is what BlockUndone does, but not what the property asks:
\* a child left without its parent is caught by InputsSpendable)
StepUndone(txs) ==
    /\ DOMAIN pool' \ P \subseteq Range(txs)
    /\ AllowEvict \/ Explained(Range(txs))

\* save + load: nothing appears; a load that reports failure leaves an empty pool and an empty reject cache
StepSaveLoad(ok) == /\ DOMAIN pool' \subseteq P
                    /\ ~ok => DOMAIN pool' = {} /\ spent' = {} /\ DOMAIN orph' = {}
StepTick == DOMAIN pool' \subseteq P                                            \* Expire, Evict, SaveLoad: nothing appears
StepQuiet == pool' = pool /\ spent' = spent                                     \* Observe, DropOrphan

StepOK ==
    \/ last'.a = "Submit" /\ StepSubmit(last'.t, last'.res)
    \/ last'.a = "BlockMined" /\ StepMined(chain'[Len(chain')].txs)
    \/ last'.a = "BlockUndone" /\ StepUndone(chain[Len(chain)].txs)
    \/ last'.a = "Tick" /\ StepTick
    \/ last'.a = "SaveLoad" /\ StepSaveLoad(last'.res # "failed")
    \/ last'.a = "Observe" /\ StepQuiet
StepsOK == [][StepOK]_vars

----------------------------------------------------------------------------
(* Universes for model checking and for the generated operation sequences (BaseH = 120: the base           *)
(* coinbases 1..21 are mature for the next block, 22 matures one block later).  Fees stay below 10^6        *)
(* satoshi so that fee-rate products fit TLC's integers.                                                     *)

I(tx, vout) == [tx |-> tx, vout |-> vout, ok |-> TRUE]
IBad(tx, vout) == [tx |-> tx, vout |-> vout, ok |-> FALSE]
O(u, e) == [amt |-> A(u, e)]
T(ins, outs, vs) == [ins |-> ins, outs |-> outs, vsize |-> vs, sops |-> 0]
TS(ins, outs, vs, so) == [ins |-> ins, outs |-> outs, vsize |-> vs, sops |-> so]
MCIds == 201..206

\* (201, 202, 203 cost 30000 sigops each: a block holds two of them, the assembly has to cut the listing)
\* a chain 201-202-203 (the child pays more: CPFP), a double spend of 201 that pays more than the whole chain
\* (204, with its own child 206: accepting it removes descendants two levels deep),
\* and 205: double spend of 201 that also spends an output of 201 (it spends what it replaces)
FamChain == (201 :> TS(<<I(1, 1)>>, <<O(29, 99990000), O(20, 0)>>, 150, 30000)) @@
            (202 :> TS(<<I(201, 1)>>, <<O(29, 99980000)>>, 100, 30000)) @@
            (203 :> TS(<<I(202, 1)>>, <<O(29, 99950000)>>, 100, 30000)) @@
            (204 :> T(<<I(1, 1)>>, <<O(49, 99800000)>>, 120)) @@
            (205 :> T(<<I(1, 1), I(201, 2)>>, <<O(69, 99900000)>>, 200)) @@
            (206 :> T(<<I(204, 1)>>, <<O(49, 99790000)>>, 100))

\* a diamond 201 -> {202, 203} -> 204, a double spend of one side (205), and 206 joining a confirmed
\* output with one side of the diamond (conflicts with the join 204)
FamDiamond == (201 :> T(<<I(1, 1)>>, <<O(25, 0), O(24, 99990000)>>, 150)) @@
              (202 :> T(<<I(201, 1)>>, <<O(24, 99990000)>>, 100)) @@
              (203 :> T(<<I(201, 2)>>, <<O(24, 99970000)>>, 100)) @@
              (204 :> T(<<I(202, 1), I(203, 1)>>, <<O(49, 99900000)>>, 180)) @@
              (205 :> T(<<I(201, 2)>>, <<O(24, 99840000)>>, 110)) @@
              (206 :> T(<<I(2, 1), I(202, 1)>>, <<O(74, 99890000)>>, 190))

\* double spends whose contested output is not their first input: 203 (two inputs, cheaper than 201: refused by
\* the real fee rule but kept in the reject cache) and 204 (three inputs, dearer) against 201 with its child 202;
\* 205 grandchild of 201 (204 pays more than 201, 202 and 205 together); 206 single-input double spend of 203's first input.  Blocks that confirm 203 or 204 must
\* clear 201 and 202 from the pool whichever input carries the conflict.
FamConfl == (201 :> T(<<I(1, 1)>>, <<O(25, 0), O(24, 99950000)>>, 150)) @@
            (202 :> T(<<I(201, 1)>>, <<O(24, 99980000)>>, 100)) @@
            (203 :> T(<<I(2, 1), I(1, 1)>>, <<O(99, 99990000)>>, 200)) @@
            (204 :> T(<<I(3, 1), I(4, 1), I(1, 1)>>, <<O(149, 99800000)>>, 250)) @@
            (205 :> T(<<I(202, 1)>>, <<O(24, 99960000)>>, 100)) @@
            (206 :> T(<<I(2, 1)>>, <<O(49, 99940000)>>, 100))

\* an orphan chain 201-202-203-204 (any arrival order) whose third link carries a script that does not satisfy
\* its parent's output (203: never pooled, from the network, whether it arrives before or after 202; 204 never
\* pooled either), a coinbase that matures
\* one block later (205), an output index the parent does not have (206, next to a confirmed input)
FamOrphan == (201 :> T(<<I(1, 1)>>, <<O(49, 99990000)>>, 100)) @@
             (202 :> T(<<I(201, 1)>>, <<O(49, 99970000)>>, 100)) @@
             (203 :> T(<<IBad(202, 1)>>, <<O(49, 99960000)>>, 100)) @@
             (204 :> T(<<I(203, 1)>>, <<O(49, 99950000)>>, 100)) @@
             (205 :> T(<<I(22, 1)>>, <<O(49, 99988000)>>, 100)) @@
             (206 :> T(<<I(202, 2), I(3, 1)>>, <<O(49, 99900000)>>, 150))
=============================================================================
