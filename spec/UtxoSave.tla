------------------------------ MODULE UtxoSave ------------------------------
(***************************************************************************)
(* Model of the UTXO snapshot protocol of lib/utxo/unspent_db.go:          *)
(*   Main     the thread that owns the UnspentDB: CommitBlockTxs,          *)
(*            UndoBlockTxs, AbortWriting, Idle, Save, HurryUp, Close       *)
(*   Saver s  the goroutine started by the s-th successful Save(): save()  *)
(*   Writer s the file-writer goroutine started by Saver s                 *)
(* One action = the code between two consecutive verif hooks of one        *)
(* goroutine ("segment"); a pc value that is a hook name means "parked at  *)
(* / just passed that hook".  Every blocking operation (channel receive,   *)
(* WaitGroup.Wait, RWMutex.Lock) is the FIRST operation of its segment, so *)
(* the guard of the action is the condition under which the operation      *)
(* completes.  Pcs that are not hook names are internal (no hook is hit).  *)
(*                                                                         *)
(* Abstraction: block id = height (re-connecting an undone block gives the *)
(* same hash); the UTXO set of block b is the value b; a bucket holds the  *)
(* version of the block it currently reflects (-1: in the middle of an     *)
(* undo); one record = one chunk of the data channel; a file is an inode   *)
(* (list of chunks written into it), names map to inodes.                  *)
(***************************************************************************)
EXTENDS Integers, Sequences, FiniteSets, TLC

CONSTANTS
    MaxOps,     \* number of operations Main may perform
    MaxSaves,   \* saves Main may start through Idle/Save (Close may start one more)
    InitH,      \* block the database holds initially (UTXO.db on disk is its snapshot)
    MaxH,       \* highest block
    NB,         \* buckets 1..NB  (MapMutex[i] / HashMap[i])
    RPB,        \* records per bucket
    Cap,        \* capacity of data_channel (save_buffer_cnt)
    Throttle,   \* UTXO_WRITING_TIME_TARGET > 0
    Timeouts,   \* the time.After branches of the two selects may fire
    Ops,        \* operations Main may choose from
    WaitWriter, \* TRUE: Save() waits for lastFileClosed before it starts a save (the code since the fix);
                \* FALSE: the old behaviour without the wait (a refuted variant: two writers can share one tmp file)
    Bug         \* "none" or the name of a deliberately broken variant (must be refuted)

NSav    == MaxSaves + 2                   \* + the save Close may start, + one Idle may start after its budget test
                                          \*   (a running save ended between Idle's two reads)
Savers  == 1..NSav
Buckets == 1..NB
N       == NB * RPB                       \* records = chunks of one snapshot
BucketOf(i) == ((i - 1) \div RPB) + 1
InitIno == 99                             \* inode of the UTXO.db found at start

VARIABLES
    \* ---- Main
    mpc, mop, nops, nsaves, closed, mw,
    \* ---- database fields
    last,        \* LastBlockHash / LastBlockHeight
    mapv,        \* bucket -> version
    dirty,       \* DirtyDB
    onDisk,      \* CurrentHeightOnDisk
    wip,         \* WritingInProgress
    abortCh,     \* tokens in abortwritingnow (capacity 1)
    hurryCh,     \* tokens in hurryup (capacity 1)
    writingDone, lastFileClosed,   \* the two wait groups
    rlock,       \* bucket -> set of savers holding the read lock
    \* ---- savers
    spc, si, shurry, scheck, sabort, hdr, chan, exitCh,
    \* ---- writers
    wpc, wpath, wino, wexit,
    \* ---- files
    fdb, fold, tmp, inode

mvars == <<mpc, mop, nops, nsaves, closed, mw>>
dvars == <<last, mapv, dirty, onDisk, wip, abortCh, hurryCh, writingDone, lastFileClosed, rlock>>
svars == <<spc, si, shurry, scheck, sabort, hdr, chan, exitCh>>
wvars == <<wpc, wpath, wino, wexit>>
fvars == <<fdb, fold, tmp, inode>>
vars  == <<mvars, dvars, svars, wvars, fvars>>

Hooks == {"abort_send", "abort_sent", "abort_waited", "commit_start", "commit_mem_done", "commit_done",
          "undo_start", "undo_deleted", "undo_done", "save_start", "close_start", "close_wait_saver",
          "close_wait_files", "close_done",
          "save_begin", "save_db_to_old", "save_iter", "save_poll", "save_full", "save_exit_sent", "save_done",
          "save_returned",
          "writer_start", "writer_created", "writer_chunk", "writer_before_remove", "writer_removed",
          "writer_before_rename", "writer_renamed"}

Init ==
    /\ mpc = "idle" /\ mop = "" /\ nops = 0 /\ nsaves = 0 /\ closed = FALSE /\ mw = {}
    /\ last = InitH /\ mapv = [k \in Buckets |-> InitH] /\ dirty \in BOOLEAN /\ onDisk = InitH
    /\ wip = FALSE /\ abortCh = 0 /\ hurryCh = 0 /\ writingDone = 0 /\ lastFileClosed = 0
    /\ rlock = [k \in Buckets |-> {}]
    /\ spc = [s \in Savers |-> "none"] /\ si = [s \in Savers |-> 0] /\ shurry = [s \in Savers |-> FALSE]
    /\ scheck = [s \in Savers |-> FALSE] /\ sabort = [s \in Savers |-> FALSE] /\ hdr = [s \in Savers |-> -1]
    /\ chan = [s \in Savers |-> <<>>] /\ exitCh = [s \in Savers |-> "none"]
    /\ wpc = [s \in Savers |-> "none"] /\ wpath = [s \in Savers |-> -1] /\ wino = [s \in Savers |-> 0]
    /\ wexit = [s \in Savers |-> FALSE]
    /\ fdb = InitIno /\ fold = 0 /\ tmp = [b \in 0..MaxH |-> 0]
    /\ inode = [n \in Savers |-> <<>>]

-----------------------------------------------------------------------------
(* Main *)

WriterAlive(w) == wpc[w] \notin {"none", "finished"}

StartOf(op) == CASE op = "Commit" -> "commit_start" [] op = "Undo" -> "undo_start" [] OTHER -> "idle"

\* Save(): returns false when a save is in progress; otherwise it waits until the file writer of every earlier
\* save has finished (lastFileClosed.Wait(), pc "save_wait": not a hook) and then starts one (event save_start)
CanStartSave == ~wip /\ nsaves < MaxSaves
DoSave ==
    IF wip THEN mpc' = "idle" /\ UNCHANGED <<wip, writingDone, nsaves>>
    ELSE IF WaitWriter THEN mpc' = "save_wait" /\ UNCHANGED <<wip, writingDone, nsaves>>
    ELSE /\ wip' = TRUE /\ writingDone' = writingDone + 1 /\ nsaves' = nsaves + 1 /\ mpc' = "save_start"

M_Begin(op) ==
    /\ mpc = "idle" /\ ~closed /\ nops < MaxOps /\ op \in Ops
    /\ nops' = nops + 1 /\ mop' = op
    /\ CASE op \in {"Commit", "Undo", "Abort"} ->
              /\ op = "Commit" => last < MaxH
              /\ op = "Undo" => last > 0
              /\ mpc' = IF wip /\ ~(Bug = "noabort_undo" /\ op = "Undo") THEN "abort_send" ELSE StartOf(op)
              /\ mw' = IF op = "Abort" THEN {} ELSE Buckets
              /\ UNCHANGED <<nsaves, closed, dvars>>
         [] op = "Idle" ->     \* the test of DirtyDB / CurrentHeightOnDisk and Save()'s test of WritingInProgress are
                               \* separate reads: a saver may finish in between (pc "idle_save": not a hook)
              /\ IF dirty /\ last # onDisk
                 THEN (wip \/ nsaves < MaxSaves) /\ mpc' = "idle_save"    \* (bound of the model, see NSav)
                 ELSE mpc' = "idle"
              /\ UNCHANGED <<wip, writingDone, nsaves, closed, mw, last, mapv, dirty, onDisk, abortCh, hurryCh, lastFileClosed, rlock>>
         [] op = "Save" ->
              /\ (wip \/ CanStartSave) /\ DoSave
              /\ UNCHANGED <<closed, mw, last, mapv, dirty, onDisk, abortCh, hurryCh, lastFileClosed, rlock>>
         [] op = "HurryUp" ->
              /\ hurryCh' = 1 /\ mpc' = "idle"
              /\ UNCHANGED <<nsaves, closed, mw, last, mapv, dirty, onDisk, wip, abortCh, writingDone, lastFileClosed, rlock>>
         [] op = "Close" ->
              /\ mpc' = "close_start"
              /\ UNCHANGED <<nsaves, closed, mw, dvars>>
    /\ UNCHANGED <<svars, wvars, fvars>>

M_AbortSend ==           \* abortwritingnow <- true
    /\ mpc = "abort_send" /\ abortCh = 0
    /\ abortCh' = 1 /\ mpc' = "abort_sent"
    /\ UNCHANGED <<mop, nops, nsaves, closed, mw, last, mapv, dirty, onDisk, wip, hurryCh, writingDone, lastFileClosed, rlock, svars, wvars, fvars>>

M_AbortWait ==           \* writingDone.Wait()
    /\ mpc = "abort_sent" /\ writingDone = 0
    /\ mpc' = "abort_waited"
    /\ UNCHANGED <<mop, nops, nsaves, closed, mw, dvars, svars, wvars, fvars>>

M_AbortDrain ==          \* select { case <-abortwritingnow: default: } and on into the operation
    /\ mpc = "abort_waited"
    /\ abortCh' = 0 /\ mpc' = StartOf(mop)
    /\ UNCHANGED <<mop, nops, nsaves, closed, mw, last, mapv, dirty, onDisk, wip, hurryCh, writingDone, lastFileClosed, rlock, svars, wvars, fvars>>

M_IdleSave ==            \* Idle(): return db.Save()
    /\ mpc = "idle_save" /\ DoSave
    /\ UNCHANGED <<mop, nops, closed, mw, last, mapv, dirty, onDisk, abortCh, hurryCh, lastFileClosed, rlock, svars, wvars, fvars>>

M_SaveWait ==            \* lastFileClosed.Wait(); WritingInProgress.Set(); writingDone.Add(1)
    /\ mpc = "save_wait" /\ lastFileClosed = 0
    /\ wip' = TRUE /\ writingDone' = writingDone + 1 /\ mpc' = "save_start"
    /\ nsaves' = IF mop = "Close" THEN nsaves ELSE nsaves + 1
    /\ UNCHANGED <<mop, nops, closed, mw, last, mapv, dirty, onDisk, abortCh, hurryCh, lastFileClosed, rlock, svars, wvars, fvars>>

M_SaveSpawn ==           \* go db.save()
    /\ mpc = "save_start"
    /\ LET s == CHOOSE x \in Savers : spc[x] = "none" /\ \A y \in Savers : y < x => spc[y] # "none" IN
       spc' = [spc EXCEPT ![s] = "spawned"]
    /\ mpc' = IF mop = "Close" THEN "close_wait_saver" ELSE "idle"
    /\ UNCHANGED <<mop, nops, nsaves, closed, mw, dvars, si, shurry, scheck, sabort, hdr, chan, exitCh, wvars, fvars>>

\* commit(): every bucket is written under its write lock (workers in any order)
M_CommitBucket(k) ==
    /\ mpc \in {"commit_start", "commit_w"} /\ k \in mw /\ rlock[k] = {}
    /\ mapv' = [mapv EXCEPT ![k] = last + 1]
    /\ mw' = mw \ {k}
    /\ mpc' = IF mw' = {} THEN "commit_mem_done" ELSE "commit_w"
    /\ UNCHANGED <<mop, nops, nsaves, closed, last, dirty, onDisk, wip, abortCh, hurryCh, writingDone, lastFileClosed, rlock, svars, wvars, fvars>>

M_CommitFinish ==        \* LastBlockHash / LastBlockHeight / DirtyDB
    /\ mpc = "commit_mem_done"
    /\ last' = last + 1 /\ dirty' = TRUE /\ mpc' = "commit_done"
    /\ UNCHANGED <<mop, nops, nsaves, closed, mw, mapv, onDisk, wip, abortCh, hurryCh, writingDone, lastFileClosed, rlock, svars, wvars, fvars>>

M_Ret ==                 \* the operation returns
    /\ mpc \in {"commit_done", "undo_done"}
    /\ mpc' = "idle"
    /\ UNCHANGED <<mop, nops, nsaves, closed, mw, dvars, svars, wvars, fvars>>

M_UndoDel(k) ==          \* first phase: the block's own records are deleted
    /\ mpc \in {"undo_start", "undo_w1"} /\ k \in mw /\ rlock[k] = {}
    /\ mapv' = [mapv EXCEPT ![k] = -1]
    /\ IF mw = {k} THEN mw' = Buckets /\ mpc' = "undo_deleted" ELSE mw' = mw \ {k} /\ mpc' = "undo_w1"
    /\ UNCHANGED <<mop, nops, nsaves, closed, last, dirty, onDisk, wip, abortCh, hurryCh, writingDone, lastFileClosed, rlock, svars, wvars, fvars>>

M_UndoAdd(k) ==          \* second phase: the spent records are put back; then LastBlock*, DirtyDB
    /\ mpc \in {"undo_deleted", "undo_w2"} /\ k \in mw /\ rlock[k] = {}
    /\ mapv' = [mapv EXCEPT ![k] = last - 1]
    /\ IF mw = {k}
       THEN mw' = {} /\ mpc' = "undo_done" /\ last' = last - 1 /\ dirty' = TRUE
       ELSE mw' = mw \ {k} /\ mpc' = "undo_w2" /\ UNCHANGED <<last, dirty>>
    /\ UNCHANGED <<mop, nops, nsaves, closed, onDisk, wip, abortCh, hurryCh, writingDone, lastFileClosed, rlock, svars, wvars, fvars>>

M_CloseStart ==          \* if DirtyDB { HurryUp(); ...
    /\ mpc = "close_start"
    /\ IF dirty THEN hurryCh' = 1 /\ mpc' = "close_save"
                ELSE mpc' = "close_wait_saver" /\ UNCHANGED hurryCh
    /\ UNCHANGED <<mop, nops, nsaves, closed, mw, last, mapv, dirty, onDisk, wip, abortCh, writingDone, lastFileClosed, rlock, svars, wvars, fvars>>

M_CloseSave ==           \* ... Save() }  (its test of WritingInProgress is a separate read: pc "close_save" is not a hook)
    /\ mpc = "close_save"
    /\ IF wip THEN mpc' = "close_wait_saver" /\ UNCHANGED <<wip, writingDone>>
       ELSE IF WaitWriter THEN mpc' = "save_wait" /\ UNCHANGED <<wip, writingDone>>
       ELSE wip' = TRUE /\ writingDone' = writingDone + 1 /\ mpc' = "save_start"
    /\ UNCHANGED <<mop, nops, nsaves, closed, mw, last, mapv, dirty, onDisk, abortCh, hurryCh, lastFileClosed, rlock, svars, wvars, fvars>>

M_CloseWaitSaver ==      \* writingDone.Wait()
    /\ mpc = "close_wait_saver" /\ writingDone = 0
    /\ mpc' = "close_wait_files"
    /\ UNCHANGED <<mop, nops, nsaves, closed, mw, dvars, svars, wvars, fvars>>

M_CloseWaitFiles ==      \* lastFileClosed.Wait()
    /\ mpc = "close_wait_files" /\ lastFileClosed = 0
    /\ mpc' = "close_done"
    /\ UNCHANGED <<mop, nops, nsaves, closed, mw, dvars, svars, wvars, fvars>>

M_CloseRet ==
    /\ mpc = "close_done"
    /\ mpc' = "idle" /\ closed' = TRUE
    /\ UNCHANGED <<mop, nops, nsaves, mw, dvars, svars, wvars, fvars>>

MainInternal ==
    \/ M_AbortSend \/ M_AbortWait \/ M_AbortDrain \/ M_IdleSave \/ M_SaveWait \/ M_SaveSpawn \/ M_CloseSave
    \/ \E k \in Buckets : M_CommitBucket(k) \/ M_UndoDel(k) \/ M_UndoAdd(k)
    \/ M_CommitFinish \/ M_Ret \/ M_CloseStart \/ M_CloseWaitSaver \/ M_CloseWaitFiles \/ M_CloseRet

MainNext == (\E op \in Ops : M_Begin(op)) \/ MainInternal

-----------------------------------------------------------------------------
(* Saver s = save() *)

S_Begin(s) ==
    /\ spc[s] = "spawned"
    /\ spc' = [spc EXCEPT ![s] = "save_begin"]
    /\ UNCHANGED <<mvars, dvars, si, shurry, scheck, sabort, hdr, chan, exitCh, wvars, fvars>>

S_Rename(s) ==           \* os.Rename(UTXO.db, UTXO.old)
    /\ spc[s] = "save_begin"
    /\ IF fdb # 0 THEN fold' = fdb /\ fdb' = 0 ELSE UNCHANGED <<fdb, fold>>
    /\ spc' = [spc EXCEPT ![s] = "save_db_to_old"]
    /\ UNCHANGED <<mvars, dvars, si, shurry, scheck, sabort, hdr, chan, exitCh, wvars, tmp, inode>>

S_Header(s) ==           \* header from LastBlock*, lastFileClosed.Add(1), go writer(<hash>.db.tmp), RLock of the first bucket
    /\ spc[s] = "save_db_to_old"
    /\ hdr' = [hdr EXCEPT ![s] = last]
    /\ lastFileClosed' = lastFileClosed + 1
    /\ wpc' = [wpc EXCEPT ![s] = "spawned"] /\ wpath' = [wpath EXCEPT ![s] = last]
    /\ shurry' = [shurry EXCEPT ![s] = ~Throttle]
    /\ rlock' = [rlock EXCEPT ![1] = @ \cup {s}]
    /\ si' = [si EXCEPT ![s] = 1]
    /\ spc' = [spc EXCEPT ![s] = "save_iter"]
    /\ UNCHANGED <<mvars, last, mapv, dirty, onDisk, wip, abortCh, hurryCh, writingDone, scheck, sabort, chan, exitCh, wino, wexit, fvars>>

\* exit_channel <- abort
Finito(s, ab) ==
    /\ exitCh' = [exitCh EXCEPT ![s] = IF ab THEN "abort" ELSE "ok"]
    /\ sabort' = [sabort EXCEPT ![s] = ab]
    /\ spc' = [spc EXCEPT ![s] = "save_exit_sent"]

\* one record is serialised and its chunk handed to the writer; hy = the value of hurryup at that moment
Record(s, hy) ==
    LET i == si[s]  k == BucketOf(i) IN
    /\ chan' = [chan EXCEPT ![s] = Append(@, [s |-> s, i |-> i, v |-> mapv[k]])]
    /\ scheck' = [scheck EXCEPT ![s] = ~hy]
    /\ si' = [si EXCEPT ![s] = i + 1]
    /\ IF i = N
       THEN Finito(s, FALSE) /\ UNCHANGED rlock
       ELSE /\ spc' = [spc EXCEPT ![s] = "save_iter"]
            /\ UNCHANGED <<exitCh, sabort>>
            /\ LET k2 == BucketOf(i + 1) IN
               IF k2 = k THEN UNCHANGED rlock
               ELSE rlock' = [b \in Buckets |->
                        IF b = k2 THEN rlock[b] \cup {s}
                        ELSE IF b = k /\ Bug = "early_unlock" THEN rlock[b] \ {s} ELSE rlock[b]]

\* "for len(data_channel) >= cap(data_channel)" and then the record
Proceed(s, hy) ==
    IF Len(chan[s]) >= Cap
    THEN spc' = [spc EXCEPT ![s] = "save_full"] /\ UNCHANGED <<si, scheck, sabort, chan, exitCh, rlock>>
    ELSE Record(s, hy)

S_Iter(s) ==
    /\ spc[s] = "save_iter"
    /\ IF scheck[s]
       THEN \/ /\ spc' = [spc EXCEPT ![s] = "save_poll"]      \* data_progress > time_progress
               /\ scheck' = [scheck EXCEPT ![s] = FALSE]
               /\ UNCHANGED <<si, sabort, chan, exitCh, rlock>>
            \/ Timeouts /\ Proceed(s, shurry[s])               \* the save is behind its time target: no poll
       ELSE Proceed(s, shurry[s])
    /\ UNCHANGED <<mvars, last, mapv, dirty, onDisk, wip, abortCh, hurryCh, writingDone, lastFileClosed, shurry, hdr, wvars, fvars>>

S_Poll(s) ==             \* the throttling select
    /\ spc[s] = "save_poll"
    /\ \/ /\ abortCh = 1 /\ abortCh' = 0 /\ Finito(s, TRUE)
          /\ UNCHANGED <<hurryCh, shurry, si, scheck, chan, rlock>>
       \/ /\ hurryCh = 1 /\ hurryCh' = 0 /\ shurry' = [shurry EXCEPT ![s] = TRUE]
          /\ Proceed(s, TRUE) /\ UNCHANGED abortCh
       \/ /\ Timeouts /\ Proceed(s, shurry[s]) /\ UNCHANGED <<abortCh, hurryCh, shurry>>
    /\ UNCHANGED <<mvars, last, mapv, dirty, onDisk, wip, writingDone, lastFileClosed, hdr, wvars, fvars>>

S_Full(s) ==             \* the select of the channel-full loop (time.After(1ms) re-evaluates the loop condition)
    /\ spc[s] = "save_full"
    /\ \/ /\ abortCh = 1 /\ abortCh' = 0 /\ Finito(s, TRUE)
          /\ UNCHANGED <<hurryCh, shurry, si, scheck, chan, rlock>>
       \/ /\ hurryCh = 1 /\ hurryCh' = 0 /\ shurry' = [shurry EXCEPT ![s] = TRUE]
          /\ Proceed(s, TRUE) /\ UNCHANGED abortCh
       \/ /\ Timeouts /\ Len(chan[s]) < Cap /\ Record(s, shurry[s]) /\ UNCHANGED <<abortCh, hurryCh, shurry>>
    /\ UNCHANGED <<mvars, last, mapv, dirty, onDisk, wip, writingDone, lastFileClosed, hdr, wvars, fvars>>

S_ExitSent(s) ==         \* DirtyDB.Clr, CurrentHeightOnDisk (only when not aborted); WritingInProgress.Clr
    /\ spc[s] = "save_exit_sent"
    /\ IF sabort[s] THEN UNCHANGED <<dirty, onDisk>> ELSE dirty' = FALSE /\ onDisk' = last
    /\ wip' = FALSE
    /\ spc' = [spc EXCEPT ![s] = "save_done"]
    /\ UNCHANGED <<mvars, last, mapv, abortCh, hurryCh, writingDone, lastFileClosed, rlock, si, shurry, scheck, sabort, hdr, chan, exitCh, wvars, fvars>>

S_Done(s) ==             \* writingDone.Done()
    /\ spc[s] = "save_done"
    /\ writingDone' = writingDone - 1
    /\ spc' = [spc EXCEPT ![s] = "unlocking"]
    /\ UNCHANGED <<mvars, last, mapv, dirty, onDisk, wip, abortCh, hurryCh, lastFileClosed, rlock, si, shurry, scheck, sabort, hdr, chan, exitCh, wvars, fvars>>

S_Unlock(s) ==           \* the deferred RUnlocks run when save() returns
    /\ spc[s] = "unlocking"
    /\ rlock' = [b \in Buckets |-> rlock[b] \ {s}]
    /\ spc' = [spc EXCEPT ![s] = "save_returned"]
    /\ UNCHANGED <<mvars, last, mapv, dirty, onDisk, wip, abortCh, hurryCh, writingDone, lastFileClosed, si, shurry, scheck, sabort, hdr, chan, exitCh, wvars, fvars>>

SaverNext(s) == S_Begin(s) \/ S_Rename(s) \/ S_Header(s) \/ S_Iter(s) \/ S_Poll(s) \/ S_Full(s)
                \/ S_ExitSent(s) \/ S_Done(s) \/ S_Unlock(s)

-----------------------------------------------------------------------------
(* Writer w = the goroutine started by Saver w *)

W_Begin(w) ==
    /\ wpc[w] = "spawned"
    /\ wpc' = [wpc EXCEPT ![w] = "writer_start"]
    /\ UNCHANGED <<mvars, dvars, svars, wpath, wino, wexit, fvars>>

W_Create(w) ==           \* os.Create(<hash>.db.tmp): a new inode, or the truncated inode another writer is using
    /\ wpc[w] = "writer_start"
    /\ LET p == wpath[w] IN
       IF tmp[p] # 0
       THEN /\ wino' = [wino EXCEPT ![w] = tmp[p]]
            /\ inode' = [inode EXCEPT ![tmp[p]] = <<>>]
            /\ UNCHANGED tmp
       ELSE /\ wino' = [wino EXCEPT ![w] = w]
            /\ tmp' = [tmp EXCEPT ![p] = w]
            /\ inode' = [inode EXCEPT ![w] = <<>>]
    /\ wpc' = [wpc EXCEPT ![w] = "writer_created"]
    /\ UNCHANGED <<mvars, dvars, svars, wpath, wexit, fdb, fold>>

W_Loop(w) ==             \* one turn of the select loop (what the next hook will be is a function of the channels)
    /\ wpc[w] \in {"writer_created", "writer_chunk"}
    /\ IF exitCh[w] = "abort"
       THEN /\ exitCh' = [exitCh EXCEPT ![w] = "none"]
            /\ wpc' = [wpc EXCEPT ![w] = "writer_before_remove"]
            /\ UNCHANGED <<chan, wexit, inode>>
       ELSE IF chan[w] # <<>>
       THEN /\ chan' = [chan EXCEPT ![w] = Tail(@)]
            /\ inode' = [inode EXCEPT ![wino[w]] = Append(@, Head(chan[w]))]
            /\ IF exitCh[w] = "ok"
               THEN exitCh' = [exitCh EXCEPT ![w] = "none"] /\ wexit' = [wexit EXCEPT ![w] = TRUE]
               ELSE UNCHANGED <<exitCh, wexit>>
            /\ wpc' = [wpc EXCEPT ![w] = "writer_chunk"]
       ELSE /\ exitCh[w] = "ok" \/ wexit[w]
            /\ exitCh' = [exitCh EXCEPT ![w] = "none"]
            /\ wexit' = [wexit EXCEPT ![w] = TRUE]
            /\ wpc' = [wpc EXCEPT ![w] = "writer_before_rename"]
            /\ UNCHANGED <<chan, inode>>
    /\ UNCHANGED <<mvars, dvars, spc, si, shurry, scheck, sabort, hdr, wpath, wino, fdb, fold, tmp>>

W_Remove(w) ==           \* os.Remove(fname)  (Bug rename_on_abort: the aborted writer renames instead)
    /\ wpc[w] = "writer_before_remove"
    /\ IF Bug = "rename_on_abort"
       THEN IF tmp[wpath[w]] # 0
            THEN fdb' = tmp[wpath[w]] /\ tmp' = [tmp EXCEPT ![wpath[w]] = 0]
            ELSE UNCHANGED <<fdb, tmp>>
       ELSE tmp' = [tmp EXCEPT ![wpath[w]] = 0] /\ UNCHANGED fdb
    /\ wpc' = [wpc EXCEPT ![w] = "writer_removed"]
    /\ UNCHANGED <<mvars, dvars, svars, wpath, wino, wexit, fold, inode>>

W_Rename(w) ==           \* os.Rename(fname, UTXO.db): whatever inode the name points to now
    /\ wpc[w] = "writer_before_rename"
    /\ IF tmp[wpath[w]] # 0
       THEN fdb' = tmp[wpath[w]] /\ tmp' = [tmp EXCEPT ![wpath[w]] = 0]
       ELSE UNCHANGED <<fdb, tmp>>
    /\ wpc' = [wpc EXCEPT ![w] = "writer_renamed"]
    /\ UNCHANGED <<mvars, dvars, svars, wpath, wino, wexit, fold, inode>>

W_Done(w) ==             \* lastFileClosed.Done()
    /\ wpc[w] \in {"writer_removed", "writer_renamed"}
    /\ lastFileClosed' = lastFileClosed - 1
    /\ wpc' = [wpc EXCEPT ![w] = "finished"]
    /\ UNCHANGED <<mvars, last, mapv, dirty, onDisk, wip, abortCh, hurryCh, writingDone, rlock, svars, wpath, wino, wexit, fvars>>

WriterNext(w) == W_Begin(w) \/ W_Create(w) \/ W_Loop(w) \/ W_Remove(w) \/ W_Rename(w) \/ W_Done(w)

-----------------------------------------------------------------------------
AllQuiet == /\ mpc = "idle" /\ (closed \/ nops = MaxOps)
            /\ \A s \in Savers : spc[s] \in {"none", "save_returned"} /\ wpc[s] \in {"none", "finished"}
Finished == AllQuiet /\ UNCHANGED vars

Next == MainNext \/ (\E s \in Savers : SaverNext(s) \/ WriterNext(s)) \/ Finished

Spec == Init /\ [][Next]_vars

FairSpec == Spec /\ WF_vars(MainInternal)
                 /\ \A s \in Savers : WF_vars(SaverNext(s)) /\ WF_vars(WriterNext(s))

-----------------------------------------------------------------------------
(* Properties *)

TypeOK ==
    /\ abortCh \in 0..1 /\ hurryCh \in 0..1 /\ writingDone \in 0..NSav /\ lastFileClosed \in 0..NSav
    /\ last \in 0..MaxH /\ \A k \in Buckets : mapv[k] \in -1..MaxH
    /\ \A s \in Savers : Len(chan[s]) <= Cap /\ si[s] \in 0..(N + 1)

Full(s) == [i \in 1..N |-> [s |-> s, i |-> i, v |-> hdr[s]]]
LiveWriterOn(n) == \E w \in Savers : wino[w] = n /\ wpc[w] \in {"writer_created", "writer_chunk"}
\* the file is the complete snapshot of exactly the block in its header, and nobody is still writing into it
Good(n) == n = InitIno \/ (~LiveWriterOn(n) /\ \E s \in Savers : hdr[s] >= 0 /\ inode[n] = Full(s))

VisibleSnapshotMatchesHeader == fdb # 0 => Good(fdb)

Iterating(s) == spc[s] \in {"save_iter", "save_poll", "save_full"}
MainMutating == mpc \in {"commit_start", "commit_w", "commit_mem_done", "undo_start", "undo_w1", "undo_deleted", "undo_w2"}
\* the memory phase of a commit / undo never overlaps the iteration of a save, and a bucket is never written
\* while a saver holds its read lock (the guards of the write actions; stated for the reader)
NoMutationUnderIteration == MainMutating => \A s \in Savers : ~Iterating(s)

Owns(w) == wpc[w] \in {"writer_created", "writer_chunk", "writer_before_remove", "writer_before_rename"}
TmpNamesDoNotCollide == \A w1, w2 \in Savers : (w1 # w2 /\ Owns(w1) /\ Owns(w2)) => wpath[w1] # wpath[w2]

\* since Save() waits for lastFileClosed, at most one file writer exists at any time
OneWriterAtATime == Cardinality({w \in Savers : WriterAlive(w)}) <= 1

\* abortwritingnow is never full when abortWriting sends (the send cannot block)
AbortSendNeverBlocks == mpc = "abort_send" => abortCh = 0

\* liveness (FairSpec): abortWriting and Close return
AbortReturns == (mpc = "abort_sent") ~> (mpc = "abort_waited")
CloseReturns == (mpc = "close_start") ~> closed
SaveWaitReturns == (mpc = "save_wait") ~> (mpc = "save_start")
SaveTerminates == \A s \in Savers : (spc[s] = "spawned") ~> (spc[s] = "save_returned")
=============================================================================
