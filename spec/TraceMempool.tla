---------------------------- MODULE TraceMempool ----------------------------
(***************************************************************************)
(* Trace validation (R->V) for C12.  A recorded history of the real         *)
(* client/txpool (harness/cmd/mempool) is replayed event by event:          *)
(*  - the chain part of the state (chain, utxo, need) evolves by the        *)
(*    specification's own rules from the logged block contents;             *)
(*  - the pool part (pool, spent, orph, the listings) is what the           *)
(*    implementation showed after the step;                                 *)
(*  - every invariant of Mempool (= the property) is evaluated in every     *)
(*    state, and every step must satisfy the specification's step relation *)
(*    (Step* of Mempool, checked there on the model of the code as well).   *)
(* Outcomes are read from the implementation and only constrained: which    *)
(* submission is refused, which orphan is dropped, what expires is policy.  *)
(* Traces are concatenated with Reset events.                               *)
(***************************************************************************)
EXTENDS Mempool, Json

Trace == ndJsonDeserialize("trace.ndjson")
Scen == JsonDeserialize("scenario.json")        \* [baseh, ids : Seq(id), tx : [id as string -> [ins, outs, vsize, sops]]] written by the driver

\* (TLC re-evaluates a definition that is substituted for a constant at every use: the table must be cheap to
\* build - a lookup by key, not a search - or validation time grows with the square of the universe)
TraceIds == {Scen.ids[i] : i \in 1..Len(Scen.ids)}
TraceTxDef == [t \in TraceIds |-> Scen.tx[ToString(t)]]

VARIABLES
    l,      \* next event
    chk     \* verdicts of the last event: [mp, bad, blk, step] (TRUE = fine)

tvars == <<vars, l, chk>>

Ev(e) == l <= Len(Trace) /\ Trace[l].ev = e /\ l' = l + 1
E == Trace[l]

ObsPool(o) == [t \in {o.pool[i].t : i \in 1..Len(o.pool)} |->
                 LET r == o.pool[CHOOSE i \in 1..Len(o.pool) : o.pool[i].t = t]
                 IN [fee |-> r.fee, vsize |-> r.vsize, sops |-> r.sops, vol |-> r.vol, mem |-> r.mem, mic |-> r.mic]]
ObsSpent(o) == {[tx |-> o.spent[i].tx, vout |-> o.spent[i].vout, by |-> o.spent[i].by] : i \in 1..Len(o.spent)}
ObsOrph(o) == LET idx == {i \in 1..Len(o.rej) : o.rej[i].kind = "orphan"}
              IN [t \in {o.rej[i].t : i \in idx} |-> o.rej[CHOOSE i \in idx : o.rej[i].t = t].w4]

SetObs(o) ==
    /\ pool' = ObsPool(o) /\ spent' = ObsSpent(o) /\ orph' = ObsOrph(o)
    /\ sortedL' = <<>> /\ dirty' = TRUE                   \* the incrementally kept list is not observable
    /\ obs' = IF o.haslst THEN [fresh |-> TRUE, lst |-> o.lst, srt |-> o.srt]
              ELSE [fresh |-> FALSE, lst |-> <<>>, srt |-> <<>>]

Chk(o, blk, step) == chk' = [mp |-> ~o.mp, bad |-> o.bad = <<>>, dup |-> Len(o.pool) = Cardinality({o.pool[i].t : i \in 1..Len(o.pool)}),
                             blk |-> blk, step |-> step]
ChkOK == [mp |-> TRUE, bad |-> TRUE, dup |-> TRUE, blk |-> TRUE, step |-> TRUE]

TInit == Init /\ l = 1 /\ chk = ChkOK /\ TLCSet(1, 1)

TReset ==
    /\ Ev("Reset")
    /\ chain' = <<>> /\ utxo' = BaseUtxo
    /\ pool' = <<>> /\ spent' = {} /\ orph' = <<>> /\ sortedL' = <<>> /\ dirty' = FALSE
    /\ obs' = [fresh |-> TRUE, lst |-> <<>>, srt |-> <<>>]
    /\ need' = 0 /\ nMined' = 0 /\ nUndone' = 0
    /\ last' = [a |-> "Init", t |-> 0, res |-> ""]
    /\ chk' = ChkOK

TSubmit ==
    /\ Ev("Submit")
    /\ SetObs(E.obs)
    /\ last' = [a |-> "Submit", t |-> E.t, res |-> E.res]
    /\ Chk(E.obs, TRUE, Idle /\ E.t \in TxIds /\ StepSubmit(E.t, E.res))
    /\ UNCHANGED <<chain, utxo, need, nMined, nUndone>>

\* the chain connected a block (the driver logs from inside the BlockMinedCB callback)
TMined ==
    /\ Ev("Mined")
    /\ BlockValid(utxo, E.txs, Height + 1)                \* else the chain accepted what the model's rules refuse: not C12's business, rejected
    /\ LET u1 == ApplySeq(utxo, E.txs, Height + 1) IN
       /\ utxo' = u1
       /\ chain' = Append(chain, [txs |-> E.txs, spent |-> utxo \ u1])
    /\ nMined' = nMined + 1
    /\ SetObs(E.obs)
    /\ last' = [a |-> "BlockMined", t |-> 0, res |-> ""]
    /\ Chk(E.obs, TRUE, StepMined(E.txs))
    /\ UNCHANGED <<need, nUndone>>

TUndone ==
    /\ Ev("Undone")
    /\ chain # <<>> /\ chain[Len(chain)].txs = E.txs
    /\ LET b == chain[Len(chain)] IN
       /\ utxo' = (utxo \ UNION {Created(b.txs[i], Height) : i \in 1..Len(b.txs)}) \cup b.spent
       /\ chain' = SubSeq(chain, 1, Len(chain) - 1)
    /\ need' = IF need > Height + 1 THEN need ELSE Height + 1
    /\ nUndone' = nUndone + 1
    /\ SetObs(E.obs)
    /\ last' = [a |-> "BlockUndone", t |-> 0, res |-> ""]
    /\ Chk(E.obs, TRUE, StepUndone(E.txs))
    /\ UNCHANGED nMined

\* a block was handed to the chain (after its callbacks, if any, ran): a block assembled from the listing
\* must have been accepted - the last sentence of the property
TDeliver ==
    /\ Ev("Deliver")
    /\ SetObs(E.obs)
    /\ last' = [a |-> "Observe", t |-> 0, res |-> ""]
    /\ Chk(E.obs, (E.src = "listing") => E.acc, StepQuiet)
    /\ UNCHANGED <<chain, utxo, need, nMined, nUndone>>

TObserve ==
    /\ Ev("Observe")
    /\ SetObs(E.obs)
    /\ last' = [a |-> "Observe", t |-> 0, res |-> ""]
    /\ Chk(E.obs, TRUE, Idle /\ StepQuiet)
    /\ UNCHANGED <<chain, utxo, need, nMined, nUndone>>

TTick ==
    /\ Ev("Tick")
    /\ SetObs(E.obs)
    /\ last' = [a |-> "Tick", t |-> 0, res |-> ""]
    /\ Chk(E.obs, TRUE, Idle /\ StepTick /\ (AllowEvict \/ (P \ DOMAIN pool') \subseteq DescDef(pool, Range(E.aged) \cap P, {})))
    /\ UNCHANGED <<chain, utxo, need, nMined, nUndone>>

TSaveLoad ==
    /\ Ev("SaveLoad")
    /\ SetObs(E.obs)
    /\ last' = [a |-> "SaveLoad", t |-> 0, res |-> IF E.acc THEN "" ELSE "failed"]
    /\ Chk(E.obs, TRUE, Idle /\ StepSaveLoad(E.acc) /\ (~E.acc => Len(E.obs.rej) = 0))
    /\ UNCHANGED <<chain, utxo, need, nMined, nUndone>>

TNext == TReset \/ TSubmit \/ TMined \/ TUndone \/ TDeliver \/ TObserve \/ TTick \/ TSaveLoad

TSpec == TInit /\ [][TNext]_tvars

\* verdicts on the observations themselves
MempoolCheckClean == chk.mp             \* the package's own MempoolCheck() found nothing
DriverFoundNothing == chk.bad /\ chk.dup \* raw size fields, totals, unknown objects (checked by the driver)
ListingBlockAccepted == chk.blk         \* the chain accepted the block assembled from the listing
StepAllowed == chk.step                 \* the step relation of the specification

\* error traces show only the position (the events are in the trace file)
Shown == [l |-> l]

HighWater == TLCSet(1, IF l > TLCGet(1) THEN l ELSE TLCGet(1))
Accepted == IF TLCGet(1) = Len(Trace) + 1 THEN TRUE
            ELSE Print(<<"VFREJECT", TLCGet(1)>>, FALSE)
=============================================================================
