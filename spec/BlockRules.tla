------------------------------ MODULE BlockRules ------------------------------
(***************************************************************************)
(* C05 - header, structure and commitment rules of a Bitcoin block.        *)
(*                                                                         *)
(* A RULE module: it states what Bitcoin requires of a block at a given    *)
(* place of a given chain (written from the consensus rules: BIP34, 65,    *)
(* 66, 113, 141, 94, the retargeting and median-time-past rules), not what *)
(* lib/chain does.  The acceptance predicate is                            *)
(*        Valid(c, d) == HeaderOK(c, d) /\ BodyOK(c, d)                    *)
(* over an abstract context c (network kind, timestamps and targets of the *)
(* parent chain, activation heights) and an abstract block descriptor d    *)
(* (one class per rule input).  The same function is written a second time *)
(* rule by rule (Violations) so that TLC can check the two agree.          *)
(*                                                                         *)
(* TLC is used as a decision-table generator: the state space is           *)
(*   { (c, d) : d differs from a base descriptor of c in <= 2 fields }     *)
(* so every rule boundary is hit alone and in every pairing (rule order    *)
(* and masking).  BlockRulesGen exports each state with the verdict; the   *)
(* harness builds the real block on a real chain and compares.             *)
(*                                                                         *)
(* Uninterpreted: 256-bit target arithmetic.  A target is a TERM           *)
(*   <<>>              the proof-of-work limit                             *)
(*   <<s1, .., sn>>    Retarget(..Retarget(limit, s1).., sn)               *)
(* where Retarget(b, s) = Compact(min(limit, Target(b) * s / T)).  The     *)
(* model decides WHICH timestamps, clamp and base feed it; the harness     *)
(* evaluates terms with math/big.  The only arithmetic identities used are *)
(* Retarget(b, T) = b and Retarget(limit, s) = limit for s >= T (the cap); *)
(* the harness refuses to judge a descriptor whose term (in)equality is not *)
(* matched by the values (counted as degenerate, never a verdict).         *)
(*                                                                         *)
(* Time: model times are seconds after the genesis block of the context.   *)
(* A block time is [k |-> "abs", v |-> t] or [k |-> "now", v |-> x]        *)
(* (wall clock of the node + x).  Assumption NowLate: every "abs" time of  *)
(* a context is earlier than now - 7200.                                   *)
(***************************************************************************)
EXTENDS Integers, Sequences, FiniteSets, TLC

CONSTANTS
    CtxSel,        \* context ids to enumerate
    PairCtx,       \* contexts in which pairs of deviations are enumerated (single deviations elsewhere)
    HeavyCtx,      \* contexts in which the weight classes are enumerated (about 1 MB per block)
    HeavyPairs,    \* BOOLEAN: weight classes also paired with every other deviation
    Break          \* "none", or the name of a deliberately wrong rule (refutation runs of the _mc cfg)

T         == 1209600      \* target timespan: two weeks
Interval  == 2016
MaxFuture == 7200
TwentyMin == 1200
Never     == 100000000

Limit == <<>>

Min(a, b) == IF a < b THEN a ELSE b
Max(a, b) == IF a > b THEN a ELSE b

-----------------------------------------------------------------------------
(* Contexts.  A context is the parent chain of the block under test:       *)
(*   net    "main" | "test3" (20-minute rule) | "test4" (20-minute rule +   *)
(*          BIP94: retarget from the first block of the period)            *)
(*   P      height of the parent; the block under test has height H = P+1  *)
(*   segs   timestamps / targets of the bulk of the chain, piecewise:      *)
(*          blocks from `from` on have time t + (h - from) * step and the  *)
(*          target `bits` (stated; CtxChainOK checks them against the rule)*)
(*   tail   timestamps of the last <= 11 blocks (the MTP window); their    *)
(*          targets follow from the rule (BuildTail)                       *)
(*   act    activation heights of BIP34 / 66 / 65 / CSV (BIP113) / segwit   *)
(*   txs    the chain holds matured coins, blocks carry transactions       *)
(*   fields / bitsdev / timedev / bases: what is enumerated here           *)
(* Families:                                                               *)
(*   on, off, plain-*, h255, h256     128-block chain with an irregular    *)
(*        (non-monotone) tail, everything active / nothing active / other  *)
(*        network kinds / heights whose BIP34 push changes length or sign  *)
(*   at-x, next-x, prev-x   activation height of x = H, H+1, H-1           *)
(*   short-P                chains of P < 11 (and 15, 16) blocks: MTP over  *)
(*                          fewer than 11 timestamps, OP_N height pushes   *)
(*   rt1-net-k, rt2-net-k   H = 2016 / 4032: retarget with timespan        *)
(*        Span(k) in {T/4-1, T/4, T/4+1, T-1, T, T+1, 4T-1, 4T, 4T+1};      *)
(*        rt2 chains have a real first retarget (target limit/4), so both  *)
(*        clamps, the cap and the BIP94 base are observable                *)
(*   rt3-net-k              H = 4032 after a second period whose last      *)
(*        block is stamped before / 1 s before / at the time of its first  *)
(*        block: negative and zero timespans (clamped to T/4)              *)
(*   pr1, pr2, pr3          H = 2017, 2018, 4034: the 20-minute rule and    *)
(*        its walk-back after a real retarget                              *)

Perturb == <<0, 100, -900, -300, -1500, -500, -1500, -1600, -900, -2100, -2000>>
ShortTs == <<0, 600, 700, 650, 1900, 1300, 2500, 2400, 2600, 4100, 3500>>

PlainSegs == << [from |-> 0, t |-> 0, step |-> 600, bits |-> Limit] >>
PlainTail(P) == IF P <= 10 THEN SubSeq(ShortTs, 1, P + 1)
                ELSE [i \in 1..11 |-> 600 * (P - 11 + i) + Perturb[i]]

Span(k) == CASE k = 1 -> (T \div 4) - 1 [] k = 2 -> T \div 4 [] k = 3 -> (T \div 4) + 1
             [] k = 4 -> T - 1 [] k = 5 -> T [] k = 6 -> T + 1
             [] k = 7 -> 4 * T - 1 [] k = 8 -> 4 * T [] k = 9 -> 4 * T + 1

Q == T \div 4      \* 302400: the first period of the two-period chains lasts exactly T/4
R1 == <<Q>>

\* negative / zero timespans of the second period: its last block is stamped before / at the time of its first block
\* (legal: a timestamp is only bounded from below by the median of the previous 11)
NSpan(k) == CASE k = 1 -> 4031 - (Q + 1) [] k = 2 -> -1 [] k = 3 -> 0

Rt1Segs == << [from |-> 0, t |-> 0, step |-> 1, bits |-> Limit] >>
Rt2Segs == << [from |-> 0, t |-> 0, step |-> 1, bits |-> Limit],
              [from |-> 2015, t |-> Q, step |-> 1, bits |-> Limit],
              [from |-> 2016, t |-> Q + 1, step |-> 1, bits |-> R1] >>

\* as Rt2Segs, but the second period runs on the old clock: blocks 2017.. carry the times 2017.. (all before block 2016)
Rt3Segs == << [from |-> 0, t |-> 0, step |-> 1, bits |-> Limit],
              [from |-> 2015, t |-> Q, step |-> 1, bits |-> Limit],
              [from |-> 2016, t |-> Q + 1, step |-> 1, bits |-> R1],
              [from |-> 2017, t |-> 2017, step |-> 1, bits |-> R1] >>

AllOn  == [b34 |-> 1, b66 |-> 1, b65 |-> 1, csv |-> 1, sw |-> 1]
Deps   == {"b34", "b66", "b65", "csv", "sw"}
ActAll(a) == [x \in Deps |-> a]

AllFields == {"pow", "bits", "time", "ver", "cb", "cblen", "b34", "lock", "seqfin", "ltx", "ntx", "merkle", "commit", "witdata", "weight"}
HdrFields == {"pow", "bits", "time"}
NoTxFields == AllFields \ {"ltx", "ntx", "witdata", "weight"}

PlainBits == {"harder", "above", "neg", "zero", "ovf"}
RtBits    == PlainBits \cup {"parent", "limit", "unclamped", "minclamp", "maxclamp", "otherbase", "walk"}
PlainTime == {"mtp", "mtp+1", "now+7200", "now+7201"}
RtTime    == PlainTime \cup {"p+1200", "p+1201"}

Nets == {"main", "test3", "test4"}

MkCtx(id, net, P, segs, tail, act, txs, fields, bitsdev, timedev, bases) ==
    [id |-> id, net |-> net, P |-> P, segs |-> segs, tail |-> tail, act |-> act, txs |-> txs,
     fields |-> fields, bitsdev |-> bitsdev, timedev |-> timedev, bases |-> bases]

Plain(id, net, P, act, bases) ==
    MkCtx(id, net, P, PlainSegs, PlainTail(P), act, P >= 103, IF P >= 103 THEN AllFields ELSE NoTxFields, PlainBits, PlainTime, bases)

OnlyDep(x, a) == [y \in Deps |-> IF y = x THEN a ELSE Never]
AllBut(x, a)  == [y \in Deps |-> IF y = x THEN a ELSE 1]

\* context ids are tuples <<family, ...>>; Name gives the string used in cfg files and in the export
ActCtxIds == { <<k, x>> : k \in {"at", "next", "prev"}, x \in Deps }
RtIds     == { <<r, n, k>> : r \in {"rt1", "rt2"}, n \in Nets, k \in 1..9 } \cup { <<"rt3", n, k>> : n \in Nets, k \in 1..3 }
PrIds     == { <<r, n>> : r \in {"pr1", "pr2", "pr3"}, n \in Nets }
ShortIds  == { <<"short", p>> : p \in {0, 1, 2, 5, 10, 15, 16} }
MiscIds   == { <<"on">>, <<"off">>, <<"h255">>, <<"h256">>, <<"plain", "main">>, <<"plain", "test3">> }
AllCtxIds == ActCtxIds \cup RtIds \cup PrIds \cup ShortIds \cup MiscIds

\* the name used in the cfg files and in the export
Name(id) == CASE id[1] = "short" -> "short-" \o ToString(id[2])
              [] Len(id) = 3 -> id[1] \o "-" \o id[2] \o "-" \o ToString(id[3])
              [] Len(id) = 2 /\ id[1] # "short" -> id[1] \o "-" \o id[2]
              [] OTHER -> id[1]

CtxRaw(id) ==
    CASE id = <<"on">>  -> Plain(id, "test4", 127, AllOn, {"B0", "B1"})
      [] id = <<"off">> -> Plain(id, "test4", 127, ActAll(129), {"B0"})
      [] id = <<"h255">> -> Plain(id, "test4", 254, AllOn, {"B0", "B1"})
      [] id = <<"h256">> -> Plain(id, "test4", 255, AllOn, {"B0", "B1"})
      [] id[1] = "plain" -> Plain(id, id[2], 127, AllOn, {"B0", "B1"})
      [] id[1] = "short" -> Plain(id, "test4", id[2], AllOn, {"B0", "B1"})
      [] id[1] = "at"   -> Plain(id, "test4", 127, OnlyDep(id[2], 128), IF id[2] = "sw" THEN {"B0", "B1"} ELSE {"B0"})
      [] id[1] = "prev" -> Plain(id, "test4", 127, OnlyDep(id[2], 127), IF id[2] = "sw" THEN {"B0", "B1"} ELSE {"B0"})
      [] id[1] = "next" -> Plain(id, "test4", 127, AllBut(id[2], 129), IF id[2] = "sw" THEN {"B0"} ELSE {"B0", "B1"})
      [] id[1] = "rt1"  -> MkCtx(id, id[2], 2015, Rt1Segs, [i \in 1..11 |-> IF i = 11 THEN Span(id[3]) ELSE 2004 + i],
                                 AllOn, FALSE, HdrFields, RtBits, RtTime, {"B0"})
      [] id[1] = "rt2"  -> MkCtx(id, id[2], 4031, Rt2Segs, [i \in 1..11 |-> IF i = 11 THEN Q + 1 + Span(id[3]) ELSE Q + 1 + (4020 + i - 2016)],
                                 AllOn, FALSE, HdrFields, RtBits, RtTime, {"B0"})
      [] id[1] = "rt3"  -> MkCtx(id, id[2], 4031, Rt3Segs, [i \in 1..11 |-> IF i = 11 THEN Q + 1 + NSpan(id[3]) ELSE 4020 + i],
                                 AllOn, FALSE, HdrFields, RtBits, RtTime, {"B0"})
      [] id[1] = "pr1"  -> MkCtx(id, id[2], 2016, Rt2Segs, [i \in 1..11 |-> IF i = 11 THEN Q + 1 ELSE IF i = 10 THEN Q ELSE 2005 + i],
                                 AllOn, FALSE, HdrFields, RtBits, RtTime, {"B0"})
      \* two blocks into the third period after a retarget whose timespan was exactly T (testnet3: the period's target is the limit)
      [] id[1] = "pr3"  -> MkCtx(id, id[2], 4033, Rt2Segs,
                                 [i \in 1..11 |-> IF i >= 9 THEN Q + 1 + T + (i - 9) ELSE Q + 1 + (4022 + i - 2016)],
                                 AllOn, FALSE, HdrFields, RtBits, RtTime, {"B0"})
      [] id[1] = "pr2"  -> MkCtx(id, id[2], 2017, Rt2Segs,
                                 [i \in 1..11 |-> IF i = 11 THEN Q + 1 + TwentyMin + 1 ELSE IF i = 10 THEN Q + 1 ELSE IF i = 9 THEN Q ELSE 2006 + i],
                                 AllOn, FALSE, HdrFields, RtBits, RtTime, {"B0"})

H(c) == c.P + 1
TailStart(c) == c.P - Len(c.tail) + 1
Active(c, x) == H(c) >= c.act[x]

RECURSIVE SegOf(_, _, _)
SegOf(c, h, i) == IF h >= c.segs[i].from THEN c.segs[i] ELSE SegOf(c, h, i - 1)

TsAt(c, h) == IF h >= TailStart(c) THEN c.tail[h - TailStart(c) + 1]
              ELSE LET s == SegOf(c, h, Len(c.segs)) IN s.t + (h - s.from) * s.step

Abs(t) == [k |-> "abs", v |-> t]
\* time value tv is later than the model time n   (NowLate: "now" + x, x >= 0, is later than every model time)
Later(tv, n) == IF tv.k = "abs" THEN tv.v > n ELSE TRUE

-----------------------------------------------------------------------------
(* Median time past of the block at height h: median of the timestamps of  *)
(* the (at most 11) blocks before it.                                      *)
MTPAt(c, h) ==
    LET lo == Max(0, h - 11)
        ts == [i \in 1..(h - lo) |-> TsAt(c, lo + i - 1)]
        s  == SortSeq(ts, LAMBDA a, b : a < b)
        ix == IF Break = "mtp_index" THEN Max(1, Len(s) \div 2) ELSE (Len(s) \div 2) + 1
    IN s[ix]

-----------------------------------------------------------------------------
(* The required target of the block at height h >= 1 with time tv.         *)
Clamp(s) == IF Break = "clamps_swapped"
            THEN Max(Min(s, T \div 4), 4 * T)     \* (nonsense on purpose)
            ELSE Max(Min(s, 4 * T), T \div 4)

\* The two arithmetic identities the model uses: Retarget(b, T) = b and Retarget(limit, s) = limit for s >= T (the cap)
RECURSIVE DropT(_), DropCapped(_)
DropT(term) == IF term = <<>> THEN <<>>
               ELSE IF Head(term) = T THEN DropT(Tail(term)) ELSE <<Head(term)>> \o DropT(Tail(term))
DropCapped(term) == IF Len(term) >= 1 /\ term[1] >= T THEN DropCapped(Tail(term)) ELSE term
Norm(term) == DropCapped(DropT(term))

\* Targets of the parent chain: segments state them (checked by CtxChainOK), tail blocks follow the rule.
\* tb = targets of the tail blocks TailStart .. (TailStart + Len(tb) - 1) computed so far.
BitsF(c, tb, g) == IF g = 0 THEN Limit
                   ELSE IF g >= TailStart(c) THEN tb[g - TailStart(c) + 1]
                   ELSE SegOf(c, g, Len(c.segs)).bits

\* testnet: the target of the last block that is not a 20-minute-exception block
RECURSIVE WalkBackF(_, _, _)
WalkBackF(c, tb, g) ==
    IF g >= TailStart(c)
    THEN LET b == BitsF(c, tb, g) IN
         IF g = 0 \/ g % Interval = 0 \/ b # Limit THEN b ELSE WalkBackF(c, tb, g - 1)
    ELSE \* inside a segment all blocks carry the segment's target: walk segment-wise (same definition)
         LET s == SegOf(c, g, Len(c.segs))
             boundary == g - (g % Interval)
         IN IF s.bits # Limit THEN s.bits
            ELSE IF boundary >= s.from THEN Limit
            ELSE WalkBackF(c, tb, s.from - 1)

RetargetBaseF(c, tb, h) == IF c.net = "test4" THEN BitsF(c, tb, h - Interval)    \* BIP94: first block of the period
                           ELSE BitsF(c, tb, h - 1)
FirstOfWindow(h) == IF Break = "window" THEN Max(0, h - 1 - Interval) ELSE h - Interval   \* 2015 blocks before the parent

ReqF(c, tb, h, tv) ==
    IF h % Interval # 0
    THEN IF c.net = "main" THEN BitsF(c, tb, h - 1)
         ELSE IF Later(tv, TsAt(c, h - 1) + TwentyMin) THEN Limit ELSE WalkBackF(c, tb, h - 1)
    ELSE Norm(Append(RetargetBaseF(c, tb, h), Clamp(TsAt(c, h - 1) - TsAt(c, FirstOfWindow(h)))))

RECURSIVE BuildTail(_, _, _)
BuildTail(c, tb, h) == IF h > c.P THEN tb
                       ELSE BuildTail(c, Append(tb, IF h = 0 THEN Limit ELSE ReqF(c, tb, h, Abs(TsAt(c, h)))), h + 1)
TailBits(c) == c.tb      \* precomputed once per context (CtxTab)

BitsAt(c, g)     == BitsF(c, TailBits(c), g)
WalkBack(c, g)   == WalkBackF(c, TailBits(c), g)
RetargetBase(c, h) == RetargetBaseF(c, TailBits(c), h)
Req(c, h, tv)    == ReqF(c, TailBits(c), h, tv)

\* the table of selected contexts with the derived values (a constant: evaluated once)
CtxTab == [id \in {i \in AllCtxIds : Name(i) \in CtxSel} |->
              LET c0 == CtxRaw(id) IN
              c0 @@ [tb |-> BuildTail(c0, <<>>, TailStart(c0)), mtp |-> MTPAt(c0, c0.P + 1)]]
Ctx(id) == CtxTab[id]

-----------------------------------------------------------------------------
(* Descriptors                                                             *)

Base(c, b) ==
    [pow |-> "ok", bits |-> "req", time |-> "p+600", ver |-> "4", cb |-> "first", cblen |-> "normal",
     b34 |-> "correct", lock |-> "zero", seqfin |-> FALSE, ltx |-> IF c.txs THEN "tx" ELSE "cb",
     ntx |-> IF c.txs THEN 3 ELSE 1,
     merkle |-> "correct", commit |-> IF b = "B1" THEN "correct" ELSE "absent",
     witdata |-> (b = "B1" /\ c.txs), weight |-> "normal"]

Commits == {"absent", "correct", "wrong", "nonce31", "nonce33", "items2", "nononce", "two_lastgood", "two_lastbad", "long_good"}

Alts(c, f) ==
    CASE f = "pow"     -> {"ok", "bad"}
      [] f = "bits"    -> {"req"} \cup c.bitsdev
      [] f = "time"    -> {"p+600"} \cup c.timedev
      [] f = "ver"     -> {"0", "1", "2", "3", "4", "big", "neg"}
      [] f = "cb"      -> IF c.txs THEN {"first", "none", "two", "notfirst", "notx80", "notx81"} ELSE {"first", "two", "notx80", "notx81"}
      [] f = "cblen"   -> {"normal", "1", "2", "100", "101"}
      [] f = "b34"     -> {"correct", "wrong", "wrongm", "nonmin", "pushdata1", "missing"}
      [] f = "lock"    -> {"zero", "h-1", "h", "h+1", "mtp-1", "mtp", "mtp+1", "bt-1", "bt", "bt+1"}
      [] f = "seqfin"  -> BOOLEAN
      [] f = "ltx"     -> {"tx", "cb"}
      [] f = "ntx"     -> IF c.txs THEN {3, 5, 6, 7, 12} ELSE {1}     \* transactions incl. the coinbase (layout "first")
      [] f = "merkle"  -> IF c.txs THEN {"correct", "wrong", "dup1", "dup2", "dup4"} ELSE {"correct", "wrong"}
      [] f = "commit"  -> Commits
      [] f = "witdata" -> BOOLEAN
      [] f = "weight"  -> IF Name(c.id) \in HeavyCtx THEN {"normal", "max", "over"} ELSE {"normal"}

MTP(c) == c.mtp

TimeVal(c, d) ==
    CASE d.time = "p+600"    -> Abs(TsAt(c, c.P) + 600)
      [] d.time = "p+1200"   -> Abs(TsAt(c, c.P) + TwentyMin)
      [] d.time = "p+1201"   -> Abs(TsAt(c, c.P) + TwentyMin + 1)
      [] d.time = "mtp"      -> Abs(MTP(c))
      [] d.time = "mtp+1"    -> Abs(MTP(c) + 1)
      [] d.time = "now+7200" -> [k |-> "now", v |-> MaxFuture]
      [] d.time = "now+7201" -> [k |-> "now", v |-> MaxFuture + 1]

Shift(tv, n) == [k |-> tv.k, v |-> tv.v + n]

LockVal(c, d) ==
    CASE d.lock = "zero"  -> [k |-> "zero", v |-> 0]
      [] d.lock = "h-1"   -> [k |-> "height", v |-> H(c) - 1]
      [] d.lock = "h"     -> [k |-> "height", v |-> H(c)]
      [] d.lock = "h+1"   -> [k |-> "height", v |-> H(c) + 1]
      [] d.lock = "mtp-1" -> Abs(MTP(c) - 1)
      [] d.lock = "mtp"   -> Abs(MTP(c))
      [] d.lock = "mtp+1" -> Abs(MTP(c) + 1)
      [] d.lock = "bt-1"  -> Shift(TimeVal(c, d), -1)
      [] d.lock = "bt"    -> TimeVal(c, d)
      [] d.lock = "bt+1"  -> Shift(TimeVal(c, d), 1)

\* a < b for two time values (NowLate)
Earlier(a, b) == IF a.k = b.k THEN a.v < b.v ELSE a.k = "abs"

ReqBits(c, d) == Req(c, H(c), TimeVal(c, d))

RawSpan(c) == TsAt(c, c.P) - TsAt(c, H(c) - Interval)

\* the target term (or special header value) the descriptor's class stands for in this context
BitsTerm(c, d) ==
    LET r == ReqBits(c, d) IN
    CASE d.bits = "req"    -> r
      [] d.bits = "harder" -> <<-1>>      \* well-formed, one mantissa step below the required target
      [] d.bits = "above"  -> <<-2>>      \* well-formed, above the proof-of-work limit
      [] d.bits = "neg"    -> <<-3>>      \* sign bit set
      [] d.bits = "zero"   -> <<-4>>      \* zero mantissa
      [] d.bits = "ovf"    -> <<-5>>      \* overflowing exponent
      [] d.bits = "parent" -> BitsAt(c, c.P)
      [] d.bits = "limit"  -> Limit
      [] d.bits = "walk"   -> WalkBack(c, c.P)
      [] d.bits = "unclamped" -> IF H(c) % Interval # 0 THEN r
                                 ELSE IF RawSpan(c) <= 0 THEN <<-4>>     \* base * span / T for span <= 0: no positive target
                                 ELSE Norm(Append(RetargetBase(c, H(c)), RawSpan(c)))
      \* the targets the two clamp values give (what a timespan computed in the wrong domain ends up with)
      [] d.bits = "minclamp"  -> IF H(c) % Interval # 0 THEN r ELSE Norm(Append(RetargetBase(c, H(c)), T \div 4))
      [] d.bits = "maxclamp"  -> IF H(c) % Interval # 0 THEN r ELSE Norm(Append(RetargetBase(c, H(c)), 4 * T))
      [] d.bits = "otherbase" -> IF H(c) % Interval = 0
                                 THEN Norm(Append(IF c.net = "test4" THEN BitsAt(c, c.P) ELSE BitsAt(c, H(c) - Interval), Clamp(RawSpan(c))))
                                 ELSE r

ValidTargetClass(d) == d.bits \notin {"neg", "zero", "ovf"}

VerNum(v) == CASE v = "0" -> 0 [] v = "1" -> 1 [] v = "2" -> 2 [] v = "3" -> 3 [] v = "4" -> 4
               [] v = "big" -> 536870912 [] v = "neg" -> -1

PushLen(h) == IF h <= 16 THEN 1 ELSE IF h <= 127 THEN 2 ELSE IF h <= 32767 THEN 3 ELSE IF h <= 8388607 THEN 4 ELSE 5

\* CVE-2012-2459: a transaction list whose node count is odd at some tree level can be extended by a copy of its last
\* 2^j transactions without changing the merkle root. dupK = the list followed by a copy of its last K transactions;
\* only the root-preserving combinations are enumerated (DupFeasible).
Dups == {"dup1", "dup2", "dup4"}
DupK(d) == CASE d.merkle = "dup1" -> 1 [] d.merkle = "dup2" -> 2 [] d.merkle = "dup4" -> 4 [] OTHER -> 0
TotalTx(d) == CASE d.cb \in {"first", "notfirst"} -> d.ntx [] d.cb = "none" -> d.ntx - 1 [] d.cb = "two" -> d.ntx + 1 [] OTHER -> 0
DupFeasible(d) == d.merkle \in Dups => LET n == TotalTx(d) k == DupK(d) IN n % k = 0 /\ (n \div k) % 2 = 1 /\ n \div k > 1

HasBody(d)     == d.cb \notin {"notx80", "notx81"}
HasCoinbase(d) == d.cb \in {"first", "two", "notfirst"}
CbFirst(d)     == d.cb \in {"first", "two"}

CbLen(c, d) == CASE d.cblen = "normal" -> 20    \* some length within 2..100 that holds whatever prefix the class asks for
                 [] d.cblen = "1" -> 1 [] d.cblen = "2" -> 2 [] d.cblen = "100" -> 100 [] d.cblen = "101" -> 101

Bip34OK(c, d) == d.b34 = "correct" /\ CbLen(c, d) >= PushLen(H(c))

\* BIP113: the lock-time cutoff
Cutoff(c, d) == IF Active(c, "csv") /\ Break # "csv_blocktime" THEN Abs(MTP(c)) ELSE TimeVal(c, d)

LockedTxPresent(c, d) == IF d.ltx = "tx" THEN c.txs ELSE HasCoinbase(d)

Final(c, d) ==
    LET lv == LockVal(c, d) IN
    \/ lv.k = "zero"
    \/ lv.k = "height" /\ lv.v < H(c)
    \/ lv.k \in {"abs", "now"} /\ Earlier(lv, Cutoff(c, d))
    \/ d.seqfin

CbWitness(d) == HasCoinbase(d) /\ d.commit \notin {"absent", "nononce"}
AnyWitness(c, d) == (c.txs /\ d.witdata) \/ CbWitness(d)

-----------------------------------------------------------------------------
(* The acceptance predicate                                                *)

PowOK(c, d)     == d.pow = "ok" /\ ValidTargetClass(d)
BitsOK(c, d)    == BitsTerm(c, d) = ReqBits(c, d)
TimeOldOK(c, d) == IF Break = "mtp_ge" THEN Later(Shift(TimeVal(c, d), 1), MTP(c)) ELSE Later(TimeVal(c, d), MTP(c))
TimeNewOK(c, d) == LET tv == TimeVal(c, d) IN tv.k = "abs" \/ tv.v <= MaxFuture
VersionOK(c, d) == LET v == VerNum(d.ver) IN
                   /\ ~(v < 2 /\ Active(c, "b34"))
                   /\ ~(v < 3 /\ Active(c, "b66"))
                   /\ ~(v < 4 /\ Active(c, "b65"))

HeaderOK(c, d) == PowOK(c, d) /\ BitsOK(c, d) /\ TimeOldOK(c, d) /\ TimeNewOK(c, d) /\ VersionOK(c, d)

CommitOK(c, d) ==
    IF ~Active(c, "sw") THEN ~AnyWitness(c, d)
    ELSE CASE d.commit = "absent" -> ~AnyWitness(c, d)
           [] d.commit \in {"correct", "two_lastgood", "long_good"} -> TRUE
           [] OTHER -> FALSE

BodyOK(c, d) ==
    /\ HasBody(d)                                   \* at least one transaction
    /\ d.cb = "first"                               \* exactly the first transaction is a coinbase
    /\ CbLen(c, d) >= 2 /\ CbLen(c, d) <= 100
    /\ Active(c, "b34") => Bip34OK(c, d)
    /\ LockedTxPresent(c, d) => Final(c, d)
    /\ d.merkle = "correct"
    /\ CommitOK(c, d)
    /\ d.weight # "over"

Valid(c, d) == HeaderOK(c, d) /\ BodyOK(c, d)

\* the same, rule by rule (names are for the reader of a failure report)
Violations(c, d) ==
       (IF d.pow = "bad" \/ ~ValidTargetClass(d) THEN {"pow"} ELSE {})
  \cup (IF BitsTerm(c, d) # ReqBits(c, d) THEN {"bits"} ELSE {})
  \cup (IF ~TimeOldOK(c, d) THEN {"time-old"} ELSE {})
  \cup (IF ~TimeNewOK(c, d) THEN {"time-new"} ELSE {})
  \cup (IF ~VersionOK(c, d) THEN {"version"} ELSE {})
  \cup (IF ~HasBody(d) THEN {"length"} ELSE
           (IF ~CbFirst(d) THEN {"cb-missing"} ELSE {})
      \cup (IF d.cb \in {"two", "notfirst"} THEN {"cb-multiple"} ELSE {})
      \cup (IF HasCoinbase(d) /\ (CbLen(c, d) < 2 \/ CbLen(c, d) > 100) THEN {"cb-length"} ELSE {})
      \cup (IF CbFirst(d) /\ Active(c, "b34") /\ ~Bip34OK(c, d) THEN {"cb-height"} ELSE {})
      \cup (IF LockedTxPresent(c, d) /\ ~Final(c, d) THEN {"nonfinal"} ELSE {})
      \cup (IF d.merkle = "wrong" THEN {"merkle"} ELSE {})
      \cup (IF d.merkle \in Dups THEN {"mutated"} ELSE {})
      \cup (IF ~Active(c, "sw") \/ d.commit = "absent" \/ ~CbFirst(d)
            THEN (IF AnyWitness(c, d) THEN {"wit-unexpected"} ELSE {})
            ELSE (IF d.commit \in {"wrong", "two_lastbad"} THEN {"wit-commit"} ELSE {})
            \cup (IF d.commit \in {"nonce31", "nonce33", "items2", "nononce"} THEN {"wit-nonce"} ELSE {}))
      \cup (IF d.weight = "over" THEN {"weight"} ELSE {}))

\* gocoin refuses version 0 at every height, Bitcoin only once BIP34 is active: stricter, not a C05 violation
\* (C05 is one-directional); such descriptors are exported with either = TRUE and only "refusal changes nothing" is checked
Either(c, d) == d.ver = "0" /\ Valid(c, d)

-----------------------------------------------------------------------------
(* Enumeration: base + single deviations + pairs                           *)

VARIABLES cid, bid, d, devs
vars == <<cid, bid, d, devs>>

MaxDev(id) == IF Name(id) \in PairCtx THEN 2 ELSE 1

Init == /\ cid \in {id \in AllCtxIds : Name(id) \in CtxSel}
        /\ bid \in Ctx(cid).bases
        /\ d = Base(Ctx(cid), bid)
        /\ devs = {}

Deviate(f, v) ==
    LET c == Ctx(cid) IN
    /\ f \in c.fields \ devs
    /\ v \in Alts(c, f) \ {d[f]}
    /\ Cardinality(devs) < MaxDev(cid)
    /\ (f = "weight" \/ "weight" \in devs) => (devs = {} \/ HeavyPairs)
    /\ DupFeasible([d EXCEPT ![f] = v])
    /\ d' = [d EXCEPT ![f] = v]
    /\ devs' = devs \cup {f}
    /\ UNCHANGED <<cid, bid>>

Next == \E f \in AllFields : \E v \in Alts(Ctx(cid), f) : Deviate(f, v)

Spec == Init /\ [][Next]_vars

-----------------------------------------------------------------------------
(* Design checks (cfg BlockRules_mc)                                       *)

C == Ctx(cid)
B == Base(C, bid)

TypeOK == /\ cid \in AllCtxIds /\ devs \subseteq AllFields
          /\ \A f \in AllFields : d[f] \in Alts(C, f)

\* the two formulations of the rules agree
Agree == Valid(C, d) <=> Violations(C, d) = {}

\* every base descriptor is acceptable in its context
BaseValid == devs = {} => Valid(C, d)

\* hand-stated boundary verdicts (the anchor of the table: a wrong rule in the module shows here)
Anchors ==
    /\ d.time = "mtp" => ~Valid(C, d)
    /\ d.time = "now+7201" => ~Valid(C, d)
    /\ (devs = {"time"} /\ d.time \in {"mtp+1", "now+7200", "p+1200", "p+1201"}) => Valid(C, d)
    /\ (devs = {"lock"} /\ d.lock \in {"h", "h+1"}) => ~Valid(C, d)
    /\ (devs = {"lock"} /\ d.lock = "h-1") => Valid(C, d)
    /\ (devs = {"lock"} /\ Active(C, "csv")) => (Valid(C, d) <=> d.lock \in {"h-1", "mtp-1"})
    /\ (devs = {"lock"} /\ ~Active(C, "csv")) => (Valid(C, d) <=> d.lock \in {"h-1", "mtp-1", "mtp", "mtp+1", "bt-1"})
    /\ (devs = {"lock", "seqfin"}) => Valid(C, d)
    /\ (devs = {"ver"} /\ cid = <<"on">>) => (Valid(C, d) <=> d.ver = "big")
    /\ (devs = {"ver"} /\ cid = <<"off">>) => Valid(C, d)
    /\ (devs = {"ver"} /\ cid = <<"at", "b66">>) => (Valid(C, d) <=> d.ver \in {"3", "big"})
    /\ (devs = {"ver"} /\ cid = <<"next", "b65">>) => (Valid(C, d) <=> d.ver \in {"3", "big"})
    /\ (devs = {"cblen"}) => (Valid(C, d) <=> (d.cblen = "100" \/ (d.cblen = "2" /\ (PushLen(H(C)) <= 2 \/ ~Active(C, "b34")))))
    /\ (devs = {"b34"}) => (Valid(C, d) <=> ~Active(C, "b34"))
    /\ d.merkle # "correct" => ~Valid(C, d)
    /\ devs = {"ntx"} => Valid(C, d)
    /\ DupFeasible(d)
    /\ d.weight = "over" => ~Valid(C, d)
    /\ (devs = {"weight"} /\ d.weight = "max") => Valid(C, d)
    /\ (devs = {"bits"}) => (Valid(C, d) <=> BitsTerm(C, d) = ReqBits(C, B))
    /\ (cid[1] = "rt1" /\ devs = {}) => ReqBits(C, d) = (IF cid[3] <= 2 THEN <<Q>> ELSE IF cid[3] = 3 THEN <<Q + 1>> ELSE IF cid[3] = 4 THEN <<T - 1>> ELSE Limit)
    /\ (cid[1] = "rt2" /\ devs = {} /\ cid[2] # "test3") =>
            ReqBits(C, d) = (IF cid[3] = 5 THEN <<Q>> ELSE <<Q, CASE cid[3] <= 2 -> Q [] cid[3] >= 8 -> 4 * T [] OTHER -> Span(cid[3])>>)
    /\ (cid[1] = "rt2" /\ devs = {} /\ cid[2] = "test3") =>
            ReqBits(C, d) = (IF cid[3] <= 2 THEN <<Q>> ELSE IF cid[3] = 3 THEN <<Q + 1>> ELSE IF cid[3] = 4 THEN <<T - 1>> ELSE Limit)
    /\ (cid[1] = "rt3" /\ devs = {}) => (RawSpan(C) <= 0 /\
            ReqBits(C, d) = (IF cid[2] = "test3" /\ cid[3] >= 2 THEN <<Q>> ELSE <<Q, Q>>))
    /\ (cid = <<"pr1", "main">> /\ devs = {"time"}) => ReqBits(C, d) = R1
    /\ (cid[1] = "pr1" /\ cid[2] # "main" /\ devs = {"time"}) => (ReqBits(C, d) = IF d.time \in {"p+1201", "now+7200", "now+7201"} THEN Limit ELSE R1)
    /\ (cid[1] = "pr2" /\ cid[2] # "main" /\ devs = {}) => (BitsAt(C, C.P) = Limit /\ ReqBits(C, d) = R1)
    /\ (cid = <<"pr3", "test3">> /\ devs = {}) => (BitsAt(C, 4032) = Limit /\ BitsAt(C, 4030) = R1 /\ ReqBits(C, d) = Limit)
    /\ (cid = <<"pr3", "test4">> /\ devs = {}) => ReqBits(C, d) = R1
    /\ (cid = <<"on">> /\ devs = {}) => MTP(C) = 72300
    /\ (cid = <<"short", 0>>) => MTP(C) = 0
    /\ (cid = <<"short", 1>>) => MTP(C) = 600
    /\ (cid = <<"short", 5>>) => MTP(C) = 700
    /\ (cid = <<"short", 10>>) => MTP(C) = 1900

\* Fields whose verdicts depend on each other; for every other pair a refusal cannot be repaired by a second deviation
Interact(f, g) == {f, g} \in { {"lock", "seqfin"}, {"lock", "ltx"}, {"lock", "time"}, {"lock", "cb"}, {"ltx", "cb"}, {"seqfin", "ltx"},
                               {"commit", "witdata"}, {"bits", "time"}, {"commit", "cb"}, {"witdata", "cb"} }
NoUnmasking ==
    \A f \in devs : \A g \in devs \ {f} :
        (~Valid(C, [B EXCEPT ![f] = d[f]]) /\ ~Interact(f, g)) => ~Valid(C, d)

\* the parent chains of the contexts obey the rules themselves (segment targets, timestamps above the median)
CtxChainOK ==
    LET c == C IN
    /\ \A h \in Max(1, TailStart(c)) .. c.P : TsAt(c, h) > MTPAt(c, h)
    /\ \A i \in 1..Len(c.segs) : LET h == c.segs[i].from IN
          (h >= 1 /\ h < TailStart(c)) => Req(c, h, Abs(TsAt(c, h))) = c.segs[i].bits

-----------------------------------------------------------------------------
(* Compact target encoding classes (exponent, mantissa incl. sign bit)     *)
CExps  == (0..6) \cup (28..36) \cup {255}
CMants == {0, 1, 127, 128, 255, 256, 32767, 32768, 65535, 65536, 8388607, 8388608, 8388609, 8388736, 12648430, 16777215}
Pow256(n) == IF n = 0 THEN 1 ELSE IF n = 1 THEN 256 ELSE IF n = 2 THEN 65536 ELSE 16777216
CWord(e, m) == LET w == m % 8388608 IN IF e <= 3 THEN w \div Pow256(3 - e) ELSE w
CNeg(e, m)  == CWord(e, m) # 0 /\ m >= 8388608
CZero(e, m) == CWord(e, m) = 0
COvf(e, m)  == LET w == CWord(e, m) IN w # 0 /\ (e > 34 \/ (w > 255 /\ e > 33) \/ (w > 65535 /\ e > 32))
CompactClass(e, m) == [e |-> e, m |-> m, neg |-> CNeg(e, m), zero |-> CZero(e, m), ovf |-> COvf(e, m),
                       valid |-> ~CNeg(e, m) /\ ~CZero(e, m) /\ ~COvf(e, m)]
=============================================================================
