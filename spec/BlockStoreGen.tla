--------------------------- MODULE BlockStoreGen ---------------------------
(* Generation wrapper: every transition of BlockStore becomes one            *)
(* implementation test (path that reaches the source state + the step and    *)
(* the model's prediction of what the real BlockDB will show after it).      *)
EXTENDS BlockStore, Json

CONSTANT EmitAt      \* 0 = print every transition (BFS export); n > 0 = print behaviours of exactly n steps (simulation)

VARIABLE h           \* history: sequence of [a, b, tr, res, walk, idx]

gvars == <<vars, h>>
GView == vars        \* h is output only

Rec(a, b, tr, res, w) == [a |-> a, b |-> b, tr |-> tr, res |-> res, walk |-> w, idx |-> idxF', q |-> Len(queue')]
Strip(r) == [a |-> r.a, b |-> r.b, tr |-> r.tr]

Log(r) == h' = Append(h, r)

GInit == Init /\ h = <<>>

GStep ==
    \/ \E b \in Blocks, tr \in BOOLEAN : Add(b, tr) /\ Log(Rec("Add", b, tr, "", <<>>))
    \/ WriteOne /\ Log(Rec("WriteOne", 0, FALSE, "", <<>>))
    \/ Idle /\ Log(Rec("Idle", 0, FALSE, "", <<>>))
    \/ \E b \in Blocks : Invalid(b) /\ Log(Rec("Invalid", b, FALSE, "", <<>>))
    \/ \E b \in Blocks : Trusted(b) /\ Log(Rec("Trusted", b, FALSE, "", <<>>))
    \/ \E b \in Blocks : Get(b) /\ Log(Rec("Get", b, FALSE, IF index[b].in /\ ~Retained(b) THEN "any" ELSE GetResult(b), <<>>))
    \/ Close /\ Log(Rec("Close", 0, FALSE, "", <<>>))
    \/ Reopen /\ Log(Rec("Reopen", 0, FALSE, "", walk'))

Emit ==
    IF EmitAt = 0
    THEN PrintT(<<"VFT", ToJson([path |-> [i \in 1..Len(h) |-> Strip(h[i])], last |-> h'[Len(h')]])>>)
    ELSE (Len(h') = EmitAt) => PrintT(<<"VFT", ToJson([steps |-> h'])>>)

GNext == GStep /\ Emit

GSpec == GInit /\ [][GNext]_gvars
=============================================================================
