----------------------------- MODULE AllocGen -----------------------------
(* Generation wrapper (G->R): sequential use of the allocator.  Every      *)
(* transition of the small model (or every simulated behaviour of EmitAt   *)
(* steps) becomes one implementation test: the operations to perform and   *)
(* the model's prediction of the returned slot, of the complete class      *)
(* bookkeeping (page list, headers, both free lists) and of the counters.  *)
EXTENDS Alloc, Json

CONSTANT EmitAt      \* 0 = print every transition (BFS); n > 0 = print behaviours of exactly n steps (simulation)

VARIABLE h

gvars == <<vars, h>>
GView == vars

T0 == CHOOSE t \in Threads : TRUE

Slots(w) == [i \in 1..Len(w) |-> w[i][2]]
Proj(C) == [pages |-> C.pages,
            hdr |-> [i \in 1..Len(C.pages) |->
                       LET p == C.pages[i] IN
                       [p |-> p, brk |-> C.hdr[p].brk, used |-> C.hdr[p].used, free |-> C.hdr[p].free,
                        evac |-> C.hdr[p].evac, fl |-> Slots(PageWalk(C, p))]],
            g |-> [i \in 1..Len(GlobalWalk(C)) |-> [p |-> GlobalWalk(C)[i][1], s |-> GlobalWalk(C)[i][2]]],
            cur |-> C.cur, pageCount |-> C.pageCount, freeSlots |-> C.freeSlots,
            live |-> {[p |-> x.a[1], s |-> x.a[2], id |-> x.id, len |-> x.len] : x \in C.live}]
NoProj == Proj(ClassInit)

\* one history entry: the operation, the model's answer, the predicted state after it
Rec(a, size, c, id, p, s, sel, np, ns) ==
    [a |-> a, size |-> size, c |-> c, id |-> id, p |-> p, s |-> s, sel |-> sel, np |-> np, ns |-> ns,
     st |-> IF c = 0 THEN NoProj ELSE Proj(cls'[c]),
     allocs |-> allocs', pm |-> privMmaps', sm |-> sharedMmaps']
Strip(r) == [a |-> r.a, size |-> r.size, c |-> r.c, id |-> r.id, p |-> r.p, s |-> r.s, sel |-> r.sel, np |-> r.np, ns |-> r.ns]
Log(r) == h' = Append(h, r)

Count == ops' = [ops EXCEPT ![T0] = @ + 1] /\ UNCHANGED pc
NewRec(c) == CHOOSE x \in cls'[c].live : x \notin cls[c].live

GInit == Init /\ h = <<>>

SeqMalloc(size) ==
    LET c == ClassOf(size) IN
    /\ ~AnyDefrag /\ ops[T0] < MaxOps
    /\ allocs' = allocs + 1 /\ Count
    /\ IF c # 0
       THEN /\ MallocSection(c, size, FreshId)
            /\ Log(Rec("malloc", size, c, NewRec(c).id, NewRec(c).a[1], NewRec(c).a[2], <<>>, 0, 0))
       ELSE /\ PMallocSection(size, FreshId)
            /\ Log(Rec("pmalloc", size, 0, (CHOOSE x \in privs' : x \notin privs).id, 0, 0, <<>>, 0, 0))

SeqFree(c, x) ==
    /\ ~AnyDefrag /\ ops[T0] < MaxOps
    /\ allocs' = allocs - 1 /\ Count
    /\ FreeSection(c, x)
    /\ Log(Rec("free", x.len, c, x.id, x.a[1], x.a[2], <<>>, 0, 0))

SeqPFree(x) ==
    /\ ~AnyDefrag /\ ops[T0] < MaxOps
    /\ allocs' = allocs - 1 /\ Count
    /\ PFreeSection(x)
    /\ Log(Rec("pfree", x.len, 0, x.id, 0, 0, <<>>, 0, 0))

GStep ==
    \/ \E size \in Sizes : SeqMalloc(size)
    \/ \E c \in Classes : \E x \in cls[c].live : SeqFree(c, x)
    \/ \E x \in privs : SeqPFree(x)
    \/ \E c \in Classes : \E sel \in Selections(cls[c], Cap[c]) :
          ~AnyDefrag /\ DefragStart(c, sel) /\ Log(Rec("dsel", 0, c, 0, 0, 0, sel, 0, 0))
    \/ \E c \in Classes :
          /\ DefragRelocate(c)
          /\ Log(Rec("drel", 0, c, dfr'[c].moved[Len(dfr'[c].moved)], RelocOld(c)[1], RelocOld(c)[2], <<>>, RelocNew(c)[1], RelocNew(c)[2]))
    \/ \E c \in Classes : DefragUnlink(c) /\ Log(Rec("dunl", 0, c, 0, dfr[c].sel[dfr[c].i], 0, <<>>, 0, 0))
    \/ \E c \in Classes : DefragEnd(c) /\ Log(Rec("dend", dfr[c].cnt, c, 0, 0, 0, <<>>, 0, 0))

Emit ==
    IF EmitAt = 0
    THEN PrintT(<<"VFT", ToJson([path |-> [i \in 1..Len(h) |-> Strip(h[i])], last |-> h'[Len(h')]])>>)
    ELSE (Len(h') = EmitAt) => PrintT(<<"VFT", ToJson([steps |-> h'])>>)

GNext == GStep /\ Emit

GSpec == GInit /\ [][GNext]_gvars
=============================================================================
