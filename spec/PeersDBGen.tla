---------------------------- MODULE PeersDBGen ----------------------------
(* Generation wrapper (G->R) for PeersDB.                                    *)
(* h holds the calls (arguments only); the line printed for a transition     *)
(* carries the path and, for the last call, what the model predicts the real *)
(* package shows afterwards:                                                 *)
(*   db   - one entry per peer id (in = FALSE: no record), decoded fields    *)
(*   fill - how many bulk records of each group are left                     *)
(*   hnd  - the PeerAddr objects held by the driver, with lastSaved          *)
(*   ret  - Incoming: 1 handle / 0 refused; DeleteFromIP: records deleted    *)
(*   q    - for every (filter, limit, sorted): number of records returned,   *)
(*          ids that must / may be among them                                *)
(* GetRecent is not a step of the export: its whole menu is predicted in     *)
(* every reached state.  Expire is exported only where equal Times cannot    *)
(* change its result (the order of equal keys is the code's free choice).    *)
EXTENDS PeersDB, Json

CONSTANTS EmitAt,    \* 0 = every transition (BFS export); n > 0 = behaviours of exactly n calls (simulation)
          EmitActs,  \* only transitions whose last call is one of these are printed ({} = all)
          EmitEvery, EmitPhase   \* BFS export: of the transitions that qualify, print number EmitPhase, EmitPhase + EmitEvery, ... (1, 0 = all)

VARIABLE h

gvars == <<vars, h>>

RECURSIVE SortedSeq(_)
SortedSeq(S) == IF S = {} THEN <<>> ELSE LET m == CHOOSE x \in S : \A y \in S : x <= y IN <<m>> \o SortedSeq(S \ {m})
PeerSeq == SortedSeq(Peers)
FilterSeq == <<"none", "getaddr", "conn_alive", "conn_new">>
LimitSeq == SortedSeq(Limits)

Step(a, p, x, f, b) == [a |-> a, p |-> p, x |-> x, f |-> f, b |-> b]

Menu == [i \in 1..(Len(FilterSeq) * Len(LimitSeq) * 2) |->
            LET fi == ((i - 1) \div (Len(LimitSeq) * 2)) + 1
                li == (((i - 1) \div 2) % Len(LimitSeq)) + 1
            IN Recent(FilterSeq[fi], LimitSeq[li], (i % 2) = 0)]

Pred == [now |-> now', open |-> open', ret |-> ret',
         db |-> [i \in 1..Len(PeerSeq) |-> db'[PeerSeq[i]]],
         hnd |-> [i \in 1..Len(PeerSeq) |-> hnd'[PeerSeq[i]]],
         fill |-> fill',
         q |-> IF open' THEN Menu' ELSE <<>>]

Log(s) == h' = Append(h, s)

GInit == Init /\ h = <<>> /\ TLCSet(2, 0)      \* register 2 counts the qualifying transitions (-workers 1)

GStep ==
    \/ \E p \in Peers : \/ Connect(p) /\ Log(Step("Connect", p, 0, 0, FALSE))
                        \/ Incoming(p) /\ Log(Step("Incoming", p, 0, 0, FALSE))
                        \/ Dead(p) /\ Log(Step("Dead", p, 0, 0, FALSE))
                        \/ Drop(p) /\ Log(Step("Drop", p, 0, 0, FALSE))
                        \/ Unban(p) /\ Log(Step("Unban", p, 0, 0, FALSE))
    \/ \E p \in Peers, b \in BOOLEAN : \/ Alive(p, b) /\ Log(Step("Alive", p, 0, 0, b))
                                       \/ Save(p, b) /\ Log(Step("Save", p, 0, 0, b))
    \/ \E p \in Peers, r \in Reasons : Ban(p, r) /\ Log(Step("Ban", p, r, 0, FALSE))
    \/ \E p \in Peers, a \in Ages, f \in Froms : NewPeer(p, a, f) /\ Log(Step("NewPeer", p, a, f, FALSE))
    \/ \E p \in Peers, c \in Seeds : Seed(p, c) /\ Log(Step("Seed", p, c, 0, FALSE))
    \/ \E f \in Froms : DeleteFromIP(f) /\ Log(Step("DeleteFromIP", 0, 0, f, FALSE))
    \/ ExpireDet /\ ExpireStep /\ Log(Step("Expire", 0, 0, 0, FALSE))
    \/ Sync /\ Log(Step("Sync", 0, 0, 0, FALSE))
    \/ Close /\ Log(Step("Close", 0, 0, 0, FALSE))
    \/ Crash /\ Log(Step("Crash", 0, 0, 0, FALSE))
    \/ Reopen /\ Log(Step("Reopen", 0, 0, 0, FALSE))
    \/ \E d \in Ticks : Tick(d) /\ Log(Step("Tick", 0, d, 0, FALSE))

\* Q3: what NewIncommingConnection does to the record of a banned peer is not predicted; such a call ends the line
Refused == Len(h) > 0 /\ h[Len(h)].a = "Incoming" /\ ret = 0
GView == <<vars, Refused>>

Emit ==
    IF EmitActs # {} /\ h'[Len(h')].a \notin EmitActs THEN TRUE
    ELSE IF EmitAt = 0
    THEN LET n == TLCGet(2) IN
         /\ TLCSet(2, n + 1)
         /\ (n % EmitEvery = EmitPhase) => PrintT(<<"VFT", ToJson([path |-> SubSeq(h', 1, Len(h') - 1), last |-> h'[Len(h')], pred |-> Pred])>>)
    ELSE (Len(h') = EmitAt) => PrintT(<<"VFT", ToJson([path |-> SubSeq(h', 1, Len(h') - 1), last |-> h'[Len(h')], pred |-> Pred])>>)

GNext == ~Refused /\ GStep /\ Emit

GSpec == GInit /\ [][GNext]_gvars
=============================================================================
