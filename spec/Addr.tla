-------------------------------- MODULE Addr --------------------------------
(***************************************************************************)
(* C15 - address encodings are bijective and error-detecting.              *)
(*                                                                         *)
(* This is a RULE module (DESIGN.md 2.6): it is written from BIP173,       *)
(* BIP350, BIP141 (output scripts) and the Base58Check / WIF formats, not  *)
(* from lib/btc/addr.go or lib/others/bech32.  Strings are sequences of    *)
(* ASCII codes (TLC cannot index a TLA+ string); bytes and 5-bit symbols   *)
(* are small naturals.                                                     *)
(*                                                                         *)
(*   Bech32 / Bech32m and the segwit address rules are fully executable:   *)
(*   Bech32Decode, Bech32Encode, To5/To8 (convert_bits), SegwitOf,         *)
(*   SegwitEncode, AddrDecode.                                             *)
(*   Base58: the digit structure (B58Encode / B58Decode, leading zero <->  *)
(*   '1') is executable; the 4-byte double-SHA256 checksum is not, so      *)
(*   Base58Check / WIF strings are structural classes whose bytes the      *)
(*   harness builds (stdlib sha256, own Base58 encoder).                   *)
(*                                                                         *)
(* The state machine is "somebody types an address": a case is picked      *)
(* (PickSeed, or a table: EncCase, RawCase, LongCase, GenericCase, OddCase,*)
(* ShortString, B58RawCase, B58BadCase, B58Class, WifClass, B58Con, WifCon)*)
(* and a seed address is then edited (Substitute, UpperAll + UpSubstitute, *)
(* Delete, Insert, Transpose, FlipCase, CasePart, Truncate, SubstituteK,   *)
(* EditK, PadBits, ExtraGroup, VariantSwap, HrpSwap).  Every state carries *)
(* the model's verdict r for its string s; the properties are invariants   *)
(* over (c, q, d, s, r).  The cases do not depend on the path to them.     *)
(***************************************************************************)
EXTENDS Integers, Sequences, FiniteSets, Bitwise, TLC
LOCAL INSTANCE SequencesExt     \* FoldLeft (evaluated by TLC in Java)

CONSTANTS
    SeedLo, SeedHi,  \* seed destinations SeedLo..SeedHi are explored
    Salt,            \* varies the pseudo-random program bytes / samples (VERIF_SEED)
    AltMode,         \* "all": every alternative character at every position; "class": a class sample
    NSample,         \* number of pseudo-random samples per seed of 2, 3 and 4 substitutions and of 2, 3 and 4 mixed edits
    ShortLen,        \* arbitrary strings over ShortAlphabet up to this length
    Tables,          \* which seed-independent case tables are enumerated: subset of 1..7
                     \* (1 enc, 2 raw, 3 long/generic/odd, 4 short, 5 base58 digits, 6 Base58Check classes, 7 WIF classes)
    Bug              \* "none", or the name of a deliberately broken rule (refutation runs)

VARIABLES
    c,   \* the case: [k |-> kind, seed |-> seed number or 0, x |-> tuple of integer parameters]
    q,   \* the human readable part the caller expects (argument of SegwitDecode)
    d,   \* the destination the string was built from: [ver, prog] (ver = -1: none)
    s,   \* the string (sequence of character codes) / the Base58 string for "b58raw"
    r    \* the model's prediction for s (shape depends on c.k)

vars == <<c, q, d, s, r>>

-----------------------------------------------------------------------------
(* Characters *)

CS == <<113,112,122,114,121,57,120,56,103,102,50,116,118,100,119,48,
        115,51,106,110,53,52,107,104,99,101,54,109,117,97,55,108>>   \* "qpzry9x8gf2tvdw0s3jn54khce6mua7l"

CSRev == [ch \in 0..255 |-> IF \E i \in 1..32 : CS[i] = ch THEN (CHOOSE i \in 1..32 : CS[i] = ch) - 1 ELSE -1]

IsUpper(ch) == ch \in 65..90
IsLower(ch) == ch \in 97..122
Lower(ch) == IF IsUpper(ch) THEN ch + 32 ELSE ch
Upper(ch) == IF IsLower(ch) THEN ch - 32 ELSE ch
Seq0(f) == SubSeq(f, 1, Len(f))                       \* normalise a function over 1..n to a tuple
LowerS(str) == Seq0([i \in 1..Len(str) |-> Lower(str[i])])
UpperS(str) == Seq0([i \in 1..Len(str) |-> Upper(str[i])])
HasLower(str) == \E i \in 1..Len(str) : IsLower(str[i])
HasUpper(str) == \E i \in 1..Len(str) : IsUpper(str[i])

SEP == 49                      \* '1'
BC == <<98, 99>>               \* "bc"
TB == <<116, 98>>              \* "tb"

-----------------------------------------------------------------------------
(* BIP173 checksum: BCH code over GF(32), 30-bit state *)

G1 == 996825010   \* 0x3b6a57b2
G2 == 642813549   \* 0x26508e6d
G3 == 513874426   \* 0x1ea119fa
G4 == 1027748829  \* 0x3d4233dd
G5 == 705979059   \* 0x2a1462b3
BECH32_CONST  == 1
BECH32M_CONST == 734539939  \* 0x2bc830a3 (BIP350)

GTab == [b \in 0..31 |->
            ((((IF b % 2 = 1 THEN G1 ELSE 0) ^^ (IF (b \div 2) % 2 = 1 THEN G2 ELSE 0)) ^^
              (IF (b \div 4) % 2 = 1 THEN G3 ELSE 0)) ^^ (IF (b \div 8) % 2 = 1 THEN G4 ELSE 0)) ^^
            (IF (b \div 16) % 2 = 1 THEN G5 ELSE 0)]

TWO25 == 33554432

PolyStep(chk, v) == (((chk % TWO25) * 32) ^^ v) ^^ GTab[chk \div TWO25]

\* chk starts at 1 and absorbs the symbols left to right
Polymod(vals) == FoldLeft(PolyStep, 1, vals)

HrpExpand(hrp) == Seq0([i \in 1..Len(hrp) |-> hrp[i] \div 32]) \o <<0>> \o Seq0([i \in 1..Len(hrp) |-> hrp[i] % 32])

Const(m) == IF m THEN BECH32M_CONST ELSE BECH32_CONST

Checksum(hrp, data, m) ==
    LET pm == Polymod(HrpExpand(hrp) \o data \o <<0, 0, 0, 0, 0, 0>>) ^^ Const(m)
    IN  Seq0([i \in 1..6 |-> (pm \div (32 ^ (6 - i))) % 32])

\* the string for (hrp, data) with the checksum of variant m; no validation at all
RawString(hrp, data, m) ==
    LET all == data \o Checksum(hrp, data, m)
    IN  hrp \o <<SEP>> \o Seq0([i \in 1..Len(all) |-> CS[all[i] + 1]])

B32Err == [ok |-> FALSE, hrp |-> <<>>, data |-> <<>>, m |-> FALSE]

SetMax(S) == CHOOSE x \in S : \A y \in S : y <= x

(* BIP173 "Bech32" + BIP350: a string of at most 90 characters: hrp (1..83 characters in 33..126),   *)
(* separator = the LAST '1', data part of at least 6 charset characters; no mixed case; the polymod  *)
(* of hrp-expansion and data equals 1 (Bech32) or 0x2bc830a3 (Bech32m).                             *)
Bech32Decode(str) ==
    LET n == Len(str)
        seps == {i \in 1..n : str[i] = SEP}
    IN  IF \/ (n > 90 /\ Bug # "len90")
           \/ \E i \in 1..n : str[i] < 33 \/ str[i] > 126
           \/ (HasLower(str) /\ HasUpper(str) /\ Bug # "mixedcase")
           \/ seps = {}
        THEN B32Err
        ELSE LET pos == SetMax(seps)
                 low == LowerS(str)
             IN  IF pos < 2 \/ pos + 6 > n THEN B32Err
                 ELSE LET hrp == SubSeq(low, 1, pos - 1)
                          dp == SubSeq(low, pos + 1, n)
                      IN  IF \E i \in 1..Len(dp) : CSRev[dp[i]] < 0 THEN B32Err
                          ELSE LET vals == Seq0([i \in 1..Len(dp) |-> CSRev[dp[i]]])
                                   pm == Polymod(HrpExpand(hrp) \o vals)
                                   eq(a, b) == IF Bug = "lastchar" THEN a \div 32 = b \div 32 ELSE a = b
                               IN  IF eq(pm, BECH32_CONST)
                                   THEN [ok |-> TRUE, hrp |-> hrp, data |-> SubSeq(vals, 1, Len(vals) - 6), m |-> FALSE]
                                   ELSE IF eq(pm, BECH32M_CONST)
                                   THEN [ok |-> TRUE, hrp |-> hrp, data |-> SubSeq(vals, 1, Len(vals) - 6), m |-> TRUE]
                                   ELSE B32Err

\* BIP173 encoder: lower-case hrp of 1..83 characters in 33..126, 5-bit data, at most 90 characters in total
B32Encodable(hrp, data) ==
    /\ Len(hrp) >= 1
    /\ \A i \in 1..Len(hrp) : hrp[i] \in 33..126 /\ ~IsUpper(hrp[i])
    /\ \A i \in 1..Len(data) : data[i] \in 0..31
    /\ Len(hrp) + 1 + Len(data) + 6 <= 90
Bech32Encode(hrp, data, m) == IF B32Encodable(hrp, data) THEN RawString(hrp, data, m) ELSE <<>>

-----------------------------------------------------------------------------
(* Regrouping of bits (BIP173 "convert_bits"), stated on the bit string *)

\* data is a sequence of w-bit groups, most significant bit first; Window is the number formed by the n bits
\* from..from+n-1 of that bit string (n <= 2w + 1), reading 0 beyond the end of the data (that is the zero padding)
Grp(data, i) == IF i < Len(data) THEN data[i + 1] ELSE 0
Window(data, w, from, n) ==
    LET a == from \div w
        off == from % w
        three == (Grp(data, a) * (2 ^ (2 * w))) + (Grp(data, a + 1) * (2 ^ w)) + Grp(data, a + 2)
    IN  (three \div (2 ^ (3 * w - off - n))) % (2 ^ n)

\* encoder direction: bytes -> 5-bit groups, the last group padded with zero bits
To5(bytes) ==
    LET ng == (8 * Len(bytes) + 4) \div 5
    IN  Seq0([j \in 1..ng |-> Window(bytes, 8, 5 * (j - 1), 5)])

PadLen(plen) == (5 - ((8 * plen) % 5)) % 5

\* decoder direction: "Any incomplete group at the end MUST be 4 bits or less, MUST be all zeroes, and is discarded."
To8(vals) ==
    LET total == 5 * Len(vals)
        nb == total \div 8
        rest == total % 8
    IN  IF Bug # "padding" /\ (rest >= 5 \/ Window(vals, 5, 8 * nb, rest) # 0)
        THEN [ok |-> FALSE, v |-> <<>>]
        ELSE [ok |-> TRUE, v |-> Seq0([j \in 1..nb |-> Window(vals, 5, 8 * (j - 1), 8)])]

-----------------------------------------------------------------------------
(* Segwit addresses (BIP173 "Segwit address format", BIP350) and output scripts (BIP141) *)

SegErr == [ok |-> FALSE, ver |-> 0, prog |-> <<>>]
AddrErr == [ok |-> FALSE, script |-> <<>>, tn |-> FALSE]

\* the rules on (version, program length) of a native segwit destination
DestOK(ver, plen) ==
    /\ ver \in 0..16
    /\ plen \in 2..40
    /\ (ver = 0 => (plen \in {20, 32} \/ Bug = "v0len"))

\* version 0 <=> Bech32, versions 1..16 <=> Bech32m
VariantOK(ver, m) == ((ver = 0) = ~m) \/ Bug = "variant"

\* dd: result of Bech32Decode; hrp: the human readable part the caller asks for
SegwitOf(dd, hrp) ==
    IF ~dd.ok \/ dd.hrp # hrp \/ Len(dd.data) = 0 THEN SegErr
    ELSE LET ver == dd.data[1]
             p == To8(Tail(dd.data))
         IN  IF p.ok /\ DestOK(ver, Len(p.v)) /\ VariantOK(ver, dd.m)
             THEN [ok |-> TRUE, ver |-> ver, prog |-> p.v]
             ELSE SegErr

\* scriptPubKey of a witness program (BIP141): OP_n, push of the program
Script(ver, prog) == <<IF ver = 0 THEN 0 ELSE 80 + ver, Len(prog)>> \o prog

\* everything the model says about a string: generic Bech32 level, SegwitDecode(hrp, .), address level (hrp bc / tb)
Predict(str, hrp) ==
    LET dd == Bech32Decode(str)
        own == IF dd.ok /\ dd.hrp \in {BC, TB} THEN SegwitOf(dd, dd.hrp) ELSE SegErr
        seg == IF dd.ok /\ dd.hrp = hrp THEN (IF hrp \in {BC, TB} THEN own ELSE SegwitOf(dd, hrp)) ELSE SegErr
    IN  [b32 |-> dd, seg |-> seg,
         addr |-> IF own.ok THEN [ok |-> TRUE, script |-> Script(own.ver, own.prog), tn |-> dd.hrp = TB] ELSE AddrErr]

AddrDecode(str) == Predict(str, BC).addr

SegwitEncodable(hrp, ver, prog) ==
    /\ DestOK(ver, Len(prog))
    /\ \A i \in 1..Len(prog) : prog[i] \in 0..255
    /\ B32Encodable(hrp, <<ver>> \o To5(prog))
SegwitEncode(hrp, ver, prog) ==
    IF SegwitEncodable(hrp, ver, prog) THEN RawString(hrp, <<ver>> \o To5(prog), ver # 0) ELSE <<>>

\* the string for a destination with a chosen checksum variant, chosen padding bits and extra zero groups; not validated
RawAddr(hrp, ver, prog, m, padval, extra) ==
    LET g == To5(prog)
        gp == IF padval = 0 \/ Len(g) = 0 THEN g ELSE [g EXCEPT ![Len(g)] = g[Len(g)] + padval]
    IN  RawString(hrp, <<ver>> \o gp \o Seq0([i \in 1..extra |-> 0]), m)

-----------------------------------------------------------------------------
(* Base58 digit structure (executable) *)

B58 == <<49,50,51,52,53,54,55,56,57,65,66,67,68,69,70,71,72,74,75,76,77,78,80,81,82,83,84,85,86,87,88,89,90,
         97,98,99,100,101,102,103,104,105,106,107,109,110,111,112,113,114,115,116,117,118,119,120,121,122>>
       \* "123456789ABCDEFGHJKLMNPQRSTUVWXYZabcdefghijkmnopqrstuvwxyz": no 0 O I l
B58Rev == [ch \in 0..255 |-> IF \E i \in 1..58 : B58[i] = ch THEN (CHOOSE i \in 1..58 : B58[i] = ch) - 1 ELSE -1]

RECURSIVE LeadCount(_, _, _)
LeadCount(sq, v, i) == IF i <= Len(sq) /\ sq[i] = v THEN LeadCount(sq, v, i + 1) ELSE i - 1

RECURSIVE DivMod58(_, _, _, _)
\* big-endian base-256 number / 58: <<quotient (same length), remainder>>
DivMod58(num, i, rem, acc) ==
    IF i > Len(num) THEN <<acc, rem>>
    ELSE LET cur == rem * 256 + num[i] IN DivMod58(num, i + 1, cur % 58, Append(acc, cur \div 58))

RECURSIVE B58Digits(_, _)
B58Digits(num, acc) ==
    IF \A i \in 1..Len(num) : num[i] = 0 THEN acc
    ELSE LET dm == DivMod58(num, 1, 0, <<>>) IN B58Digits(dm[1], <<B58[dm[2] + 1]>> \o acc)

\* each leading zero byte is one '1'; the rest is the big-endian number in base 58
B58Encode(bytes) ==
    LET z == LeadCount(bytes, 0, 1)
    IN  Seq0([i \in 1..z |-> 49]) \o B58Digits(SubSeq(bytes, z + 1, Len(bytes)), <<>>)

RECURSIVE MulAdd58(_, _, _, _)
\* num * 58 + carry, num big-endian base 256, processed from the least significant byte; may grow by one byte
MulAdd58(num, i, carry, acc) ==
    IF i = 0 THEN (IF carry = 0 THEN acc ELSE <<carry>> \o acc)
    ELSE LET cur == num[i] * 58 + carry IN MulAdd58(num, i - 1, cur \div 256, <<cur % 256>> \o acc)

RECURSIVE B58Num(_, _, _)
B58Num(str, i, num) == IF i > Len(str) THEN num ELSE B58Num(str, i + 1, MulAdd58(num, Len(num), B58Rev[str[i]], <<>>))

B58Decode(str) ==
    IF \E i \in 1..Len(str) : str[i] \notin 0..255 \/ B58Rev[str[i]] < 0 THEN [ok |-> FALSE, v |-> <<>>]
    ELSE LET z == LeadCount(str, 49, 1)
             num == B58Num(str, z + 1, <<>>)
         IN  [ok |-> TRUE, v |-> Seq0([i \in 1..z |-> 0]) \o num]

(* Base58Check address = Base58(version byte, 20-byte hash, first 4 bytes of SHA256(SHA256(version, hash)))   *)
(* and WIF = Base58(version, 32-byte key, [0x01 if the public key is compressed], 4-byte checksum).           *)
(* SHA-256 is outside TLC: a string is described by its structural class                                      *)
(*   b58: x = <<version byte, payload length, leading zero bytes of the hash, ck, bad, ones>>                 *)
(*   wif: x = <<version byte, form, ck, bad, ones>>                                                           *)
(*        ck: 0 = correct checksum, k in 1..4 = checksum byte k is off by one                                 *)
(*        bad: 0 = none, 1..Len(BadChars) = one character is replaced by BadChars[bad],                       *)
(*             then four damages within the alphabet, which the checksum must catch: +1 another alphabet      *)
(*             character substituted, +2 a character deleted, +3 one inserted, +4 two neighbours transposed   *)
(*        ones: -1 / 0 / +1 = a leading '1' removed / untouched / one more '1' prepended                      *)
(*        form: 36 = 31-byte key, 37 = uncompressed, 38 = compressed (flag 01), 380 / 382 / 383 = 38 bytes    *)
(*              with flag 00 / 02 / ff, 39 = two flag bytes                                                   *)
BadChars == <<48, 79, 73, 108, 32, 43, 200>>     \* '0' 'O' 'I' 'l' ' ' '+' and a byte above 127
B58Versions == {0, 5, 111, 196, 48, 128, 255}
BadKinds == 0..(Len(BadChars) + 4)
B58Accept(x) == x[2] = 25 /\ x[4] = 0 /\ x[5] = 0 /\ x[6] = 0
B58Kind(x) == IF x[1] \in {0, 111} THEN "p2pkh" ELSE IF x[1] \in {5, 196} THEN "p2sh" ELSE "unspecified"
B58Ones(x) == IF x[1] = 0 THEN 1 + x[3] ELSE 0      \* '1' characters the untouched string must start with
WifAccept(x) == x[2] \in {37, 38} /\ x[3] = 0 /\ x[4] = 0 /\ x[5] = 0

(* Constructed classes.  The two layouts of a decoder differ only by length (WIF: 33 + 4 against 34 + 4 bytes), so a    *)
(* parser that looks at a fixed offset without looking at the length reads a CHECKSUM byte as the compression flag      *)
(* (or a key byte as the checksum ...).  Such slips show only for particular byte values, which random keys meet once   *)
(* in 256 tries; therefore well-formed strings are also CONSTRUCTED (the driver searches the free bytes) such that      *)
(*   con = <<1, v>>: the first checksum byte is v        <<2, v>>: the last checksum byte is v                          *)
(*         <<3, v>>: the last key / hash byte is v       <<5, v>>: the first key / hash byte is v                       *)
(*         <<4, i>>: the string starts with the i-th character of the alphabet (skipped when no payload does)           *)
(* with v ranging over the values a length-blind parser could take for a flag or a version byte.  Every one of them is  *)
(* a valid string: accepted, with version, key / hash and compression exactly as the layout says, and re-encoded        *)
(* to itself.                                                                                                           *)
ConVals == {0, 1, 2, 5, 111, 128, 196, 239, 255}
Constraints == ({1, 2, 3, 5} \X ConVals) \cup ({4} \X (0..57))

-----------------------------------------------------------------------------
(* Known answers: the test vectors of BIP173 and BIP350 as character codes.  TLC evaluates the ASSUME at start-up, *)
(* so a model that misreads the BIPs does not get as far as judging the code.                                      *)
KA_ValidAddr == <<
    \* BC1QW508D6QEJXTDG4Y5R3ZARVARY0C5XW7KV8F3T4
    [txt |-> <<66,67,49,81,87,53,48,56,68,54,81,69,74,88,84,68,71,52,89,53,82,51,90,65,82,86,65,82,89,48,67,53,88,87,55,75,86,56,70,51,84,52>>,
     script |-> <<0,20,117,30,118,232,25,145,150,212,84,148,28,69,209,179,163,35,241,67,59,214>>],
    \* tb1qrp33g0q5c5txsp9arysrx4k6zdkfs4nce4xj0gdcccefvpysxf3q0sl5k7
    [txt |-> <<116,98,49,113,114,112,51,51,103,48,113,53,99,53,116,120,115,112,57,97,114,121,115,114,120,52,107,54,122,100,107,102,115,52,110,99,101,52,120,106,48,103,100,99,99,99,101,102,118,112,121,115,120,102,51,113,48,115,108,53,107,55>>,
     script |-> <<0,32,24,99,20,60,20,197,22,104,4,189,25,32,51,86,218,19,108,152,86,120,205,77,39,161,184,198,50,150,4,144,50,98>>],
    \* bc1pw508d6qejxtdg4y5r3zarvary0c5xw7kw508d6qejxtdg4y5r3zarvary0c5xw7kt5nd6y
    [txt |-> <<98,99,49,112,119,53,48,56,100,54,113,101,106,120,116,100,103,52,121,53,114,51,122,97,114,118,97,114,121,48,99,53,120,119,55,107,119,53,48,56,100,54,113,101,106,120,116,100,103,52,121,53,114,51,122,97,114,118,97,114,121,48,99,53,120,119,55,107,116,53,110,100,54,121>>,
     script |-> <<81,40,117,30,118,232,25,145,150,212,84,148,28,69,209,179,163,35,241,67,59,214,117,30,118,232,25,145,150,212,84,148,28,69,209,179,163,35,241,67,59,214>>],
    \* BC1SW50QGDZ25J
    [txt |-> <<66,67,49,83,87,53,48,81,71,68,90,50,53,74>>,
     script |-> <<96,2,117,30>>],
    \* bc1zw508d6qejxtdg4y5r3zarvaryvaxxpcs
    [txt |-> <<98,99,49,122,119,53,48,56,100,54,113,101,106,120,116,100,103,52,121,53,114,51,122,97,114,118,97,114,121,118,97,120,120,112,99,115>>,
     script |-> <<82,16,117,30,118,232,25,145,150,212,84,148,28,69,209,179,163,35>>],
    \* tb1qqqqqp399et2xygdj5xreqhjjvcmzhxw4aywxecjdzew6hylgvsesrxh6hy
    [txt |-> <<116,98,49,113,113,113,113,113,112,51,57,57,101,116,50,120,121,103,100,106,53,120,114,101,113,104,106,106,118,99,109,122,104,120,119,52,97,121,119,120,101,99,106,100,122,101,119,54,104,121,108,103,118,115,101,115,114,120,104,54,104,121>>,
     script |-> <<0,32,0,0,0,196,165,202,212,98,33,178,161,135,144,94,82,102,54,43,153,213,233,28,108,226,77,22,93,171,147,232,100,51>>],
    \* tb1pqqqqp399et2xygdj5xreqhjjvcmzhxw4aywxecjdzew6hylgvsesf3hn0c
    [txt |-> <<116,98,49,112,113,113,113,113,112,51,57,57,101,116,50,120,121,103,100,106,53,120,114,101,113,104,106,106,118,99,109,122,104,120,119,52,97,121,119,120,101,99,106,100,122,101,119,54,104,121,108,103,118,115,101,115,102,51,104,110,48,99>>,
     script |-> <<81,32,0,0,0,196,165,202,212,98,33,178,161,135,144,94,82,102,54,43,153,213,233,28,108,226,77,22,93,171,147,232,100,51>>],
    \* bc1p0xlxvlhemja6c4dqv22uapctqupfhlxm9h8z3k2e72q4k9hcz7vqzk5jj0
    [txt |-> <<98,99,49,112,48,120,108,120,118,108,104,101,109,106,97,54,99,52,100,113,118,50,50,117,97,112,99,116,113,117,112,102,104,108,120,109,57,104,56,122,51,107,50,101,55,50,113,52,107,57,104,99,122,55,118,113,122,107,53,106,106,48>>,
     script |-> <<81,32,121,190,102,126,249,220,187,172,85,160,98,149,206,135,11,7,2,155,252,219,45,206,40,217,89,242,129,91,22,248,23,152>>]
 >>
KA_InvalidAddr == <<
    <<116,99,49,112,48,120,108,120,118,108,104,101,109,106,97,54,99,52,100,113,118,50,50,117,97,112,99,116,113,117,112,102,104,108,120,109,57,104,56,122,51,107,50,101,55,50,113,52,107,57,104,99,122,55,118,113,53,122,117,121,117,116>>,   \* tc1p0xlxvlhemja6c4dqv22uapctqupfhlxm9h8z3k2e72q4k9hcz7vq5zuyut
    <<98,99,49,112,48,120,108,120,118,108,104,101,109,106,97,54,99,52,100,113,118,50,50,117,97,112,99,116,113,117,112,102,104,108,120,109,57,104,56,122,51,107,50,101,55,50,113,52,107,57,104,99,122,55,118,113,104,50,121,55,104,100>>,   \* bc1p0xlxvlhemja6c4dqv22uapctqupfhlxm9h8z3k2e72q4k9hcz7vqh2y7hd
    <<116,98,49,122,48,120,108,120,118,108,104,101,109,106,97,54,99,52,100,113,118,50,50,117,97,112,99,116,113,117,112,102,104,108,120,109,57,104,56,122,51,107,50,101,55,50,113,52,107,57,104,99,122,55,118,113,103,108,116,55,114,102>>,   \* tb1z0xlxvlhemja6c4dqv22uapctqupfhlxm9h8z3k2e72q4k9hcz7vqglt7rf
    <<66,67,49,83,48,88,76,88,86,76,72,69,77,74,65,54,67,52,68,81,86,50,50,85,65,80,67,84,81,85,80,70,72,76,88,77,57,72,56,90,51,75,50,69,55,50,81,52,75,57,72,67,90,55,86,81,53,52,87,69,76,76>>,   \* BC1S0XLXVLHEMJA6C4DQV22UAPCTQUPFHLXM9H8Z3K2E72Q4K9HCZ7VQ54WELL
    <<98,99,49,113,119,53,48,56,100,54,113,101,106,120,116,100,103,52,121,53,114,51,122,97,114,118,97,114,121,48,99,53,120,119,55,107,101,109,101,97,119,104>>,   \* bc1qw508d6qejxtdg4y5r3zarvary0c5xw7kemeawh
    <<116,98,49,113,48,120,108,120,118,108,104,101,109,106,97,54,99,52,100,113,118,50,50,117,97,112,99,116,113,117,112,102,104,108,120,109,57,104,56,122,51,107,50,101,55,50,113,52,107,57,104,99,122,55,118,113,50,52,106,99,52,55>>,   \* tb1q0xlxvlhemja6c4dqv22uapctqupfhlxm9h8z3k2e72q4k9hcz7vq24jc47
    <<98,99,49,112,51,56,106,57,114,53,121,52,57,104,114,117,97,117,101,55,119,120,106,99,101,48,117,112,100,113,106,117,121,121,120,48,107,104,53,54,118,56,115,50,53,104,117,99,54,57,57,53,118,118,112,113,108,51,106,111,119,52>>,   \* bc1p38j9r5y49hruaue7wxjce0updqjuyyx0kh56v8s25huc6995vvpql3jow4
    <<66,67,49,51,48,88,76,88,86,76,72,69,77,74,65,54,67,52,68,81,86,50,50,85,65,80,67,84,81,85,80,70,72,76,88,77,57,72,56,90,51,75,50,69,55,50,81,52,75,57,72,67,90,55,86,81,55,90,87,83,56,82>>,   \* BC130XLXVLHEMJA6C4DQV22UAPCTQUPFHLXM9H8Z3K2E72Q4K9HCZ7VQ7ZWS8R
    <<98,99,49,112,119,53,100,103,114,110,122,118>>,   \* bc1pw5dgrnzv
    <<98,99,49,112,48,120,108,120,118,108,104,101,109,106,97,54,99,52,100,113,118,50,50,117,97,112,99,116,113,117,112,102,104,108,120,109,57,104,56,122,51,107,50,101,55,50,113,52,107,57,104,99,122,55,118,56,110,48,110,120,48,109,117,97,101,119,97,118,50,53,51,122,103,101,97,118>>,   \* bc1p0xlxvlhemja6c4dqv22uapctqupfhlxm9h8z3k2e72q4k9hcz7v8n0nx0muaewav253zgeav
    <<66,67,49,81,82,53,48,56,68,54,81,69,74,88,84,68,71,52,89,53,82,51,90,65,82,86,65,82,89,86,57,56,71,74,57,80>>,   \* BC1QR508D6QEJXTDG4Y5R3ZARVARYV98GJ9P
    <<116,98,49,112,48,120,108,120,118,108,104,101,109,106,97,54,99,52,100,113,118,50,50,117,97,112,99,116,113,117,112,102,104,108,120,109,57,104,56,122,51,107,50,101,55,50,113,52,107,57,104,99,122,55,118,113,52,55,90,97,103,113>>,   \* tb1p0xlxvlhemja6c4dqv22uapctqupfhlxm9h8z3k2e72q4k9hcz7vq47Zagq
    <<98,99,49,112,48,120,108,120,118,108,104,101,109,106,97,54,99,52,100,113,118,50,50,117,97,112,99,116,113,117,112,102,104,108,120,109,57,104,56,122,51,107,50,101,55,50,113,52,107,57,104,99,122,55,118,48,55,113,119,119,122,99,114,102>>,   \* bc1p0xlxvlhemja6c4dqv22uapctqupfhlxm9h8z3k2e72q4k9hcz7v07qwwzcrf
    <<116,98,49,112,48,120,108,120,118,108,104,101,109,106,97,54,99,52,100,113,118,50,50,117,97,112,99,116,113,117,112,102,104,108,120,109,57,104,56,122,51,107,50,101,55,50,113,52,107,57,104,99,122,55,118,112,103,103,107,103,52,106>>,   \* tb1p0xlxvlhemja6c4dqv22uapctqupfhlxm9h8z3k2e72q4k9hcz7vpggkg4j
    <<98,99,49,103,109,107,57,121,117>>   \* bc1gmk9yu
 >>
KA_ValidBech32 == <<
    <<65,49,50,85,69,76,53,76>>,   \* A12UEL5L
    <<97,49,50,117,101,108,53,108>>,   \* a12uel5l
    <<97,110,56,51,99,104,97,114,97,99,116,101,114,108,111,110,103,104,117,109,97,110,114,101,97,100,97,98,108,101,112,97,114,116,116,104,97,116,99,111,110,116,97,105,110,115,116,104,101,110,117,109,98,101,114,49,97,110,100,116,104,101,101,120,99,108,117,100,101,100,99,104,97,114,97,99,116,101,114,115,98,105,111,49,116,116,53,116,103,115>>,   \* an83characterlonghumanreadablepartthatcontainsthenumber1andtheexcludedcharactersbio1tt5tgs
    <<97,98,99,100,101,102,49,113,112,122,114,121,57,120,56,103,102,50,116,118,100,119,48,115,51,106,110,53,52,107,104,99,101,54,109,117,97,55,108,109,113,113,113,120,119>>,   \* abcdef1qpzry9x8gf2tvdw0s3jn54khce6mua7lmqqqxw
    <<49,49,113,113,113,113,113,113,113,113,113,113,113,113,113,113,113,113,113,113,113,113,113,113,113,113,113,113,113,113,113,113,113,113,113,113,113,113,113,113,113,113,113,113,113,113,113,113,113,113,113,113,113,113,113,113,113,113,113,113,113,113,113,113,113,113,113,113,113,113,113,113,113,113,113,113,113,113,113,113,113,113,113,113,99,56,50,52,55,106>>,   \* 11qqqqqqqqqqqqqqqqqqqqqqqqqqqqqqqqqqqqqqqqqqqqqqqqqqqqqqqqqqqqqqqqqqqqqqqqqqqqqqqqqqc8247j
    <<115,112,108,105,116,49,99,104,101,99,107,117,112,115,116,97,103,101,104,97,110,100,115,104,97,107,101,117,112,115,116,114,101,97,109,101,114,114,97,110,116,101,114,114,101,100,99,97,112,101,114,114,101,100,50,121,57,101,51,119>>,   \* split1checkupstagehandshakeupstreamerranterredcaperred2y9e3w
    <<63,49,101,122,121,102,99,108>>   \* ?1ezyfcl
 >>
KA_ValidBech32m == <<
    <<65,49,76,81,70,78,51,65>>,   \* A1LQFN3A
    <<97,49,108,113,102,110,51,97>>,   \* a1lqfn3a
    <<97,110,56,51,99,104,97,114,97,99,116,101,114,108,111,110,103,104,117,109,97,110,114,101,97,100,97,98,108,101,112,97,114,116,116,104,97,116,99,111,110,116,97,105,110,115,116,104,101,116,104,101,101,120,99,108,117,100,101,100,99,104,97,114,97,99,116,101,114,115,98,105,111,97,110,100,110,117,109,98,101,114,49,49,115,103,55,104,103,54>>,   \* an83characterlonghumanreadablepartthatcontainsthetheexcludedcharactersbioandnumber11sg7hg6
    <<97,98,99,100,101,102,49,108,55,97,117,109,54,101,99,104,107,52,53,110,106,51,115,48,119,100,118,116,50,102,103,56,120,57,121,114,122,112,113,122,100,51,114,121,120>>,   \* abcdef1l7aum6echk45nj3s0wdvt2fg8x9yrzpqzd3ryx
    <<49,49,108,108,108,108,108,108,108,108,108,108,108,108,108,108,108,108,108,108,108,108,108,108,108,108,108,108,108,108,108,108,108,108,108,108,108,108,108,108,108,108,108,108,108,108,108,108,108,108,108,108,108,108,108,108,108,108,108,108,108,108,108,108,108,108,108,108,108,108,108,108,108,108,108,108,108,108,108,108,108,108,108,108,108,117,100,115,114,56>>,   \* 11llllllllllllllllllllllllllllllllllllllllllllllllllllllllllllllllllllllllllllllllllludsr8
    <<115,112,108,105,116,49,99,104,101,99,107,117,112,115,116,97,103,101,104,97,110,100,115,104,97,107,101,117,112,115,116,114,101,97,109,101,114,114,97,110,116,101,114,114,101,100,99,97,112,101,114,114,101,100,108,99,52,52,53,118>>,   \* split1checkupstagehandshakeupstreamerranterredcaperredlc445v
    <<63,49,118,55,53,57,97,97>>   \* ?1v759aa
 >>
KA_InvalidBech32 == <<
    <<32,49,110,119,108,100,106,53>>,   \*  1nwldj5
    <<127,49,97,120,107,119,114,120>>,   \* \x7f1axkwrx
    <<128,49,101,121,109,53,53,104>>,   \* \x801eym55h
    <<97,110,56,52,99,104,97,114,97,99,116,101,114,115,108,111,110,103,104,117,109,97,110,114,101,97,100,97,98,108,101,112,97,114,116,116,104,97,116,99,111,110,116,97,105,110,115,116,104,101,110,117,109,98,101,114,49,97,110,100,116,104,101,101,120,99,108,117,100,101,100,99,104,97,114,97,99,116,101,114,115,98,105,111,49,53,54,57,112,118,120>>,   \* an84characterslonghumanreadablepartthatcontainsthenumber1andtheexcludedcharactersbio1569pvx
    <<112,122,114,121,57,120,48,115,48,109,117,107>>,   \* pzry9x0s0muk
    <<49,112,122,114,121,57,120,48,115,48,109,117,107>>,   \* 1pzry9x0s0muk
    <<120,49,98,52,110,48,113,53,118>>,   \* x1b4n0q5v
    <<108,105,49,100,103,109,116,51>>,   \* li1dgmt3
    <<100,101,49,108,103,55,119,116,255>>,   \* de1lg7wtÿ
    <<65,49,71,55,83,71,68,56>>,   \* A1G7SGD8
    <<49,48,97,48,54,116,56>>,   \* 10a06t8
    <<49,113,122,122,102,104,101,101>>,   \* 1qzzfhee
    <<32,49,120,106,48,112,104,107>>,   \*  1xj0phk
    <<127,49,103,54,120,122,120,121>>,   \* \x7f1g6xzxy
    <<128,49,118,99,116,99,51,52>>,   \* \x801vctc34
    <<97,110,56,52,99,104,97,114,97,99,116,101,114,115,108,111,110,103,104,117,109,97,110,114,101,97,100,97,98,108,101,112,97,114,116,116,104,97,116,99,111,110,116,97,105,110,115,116,104,101,116,104,101,101,120,99,108,117,100,101,100,99,104,97,114,97,99,116,101,114,115,98,105,111,97,110,100,110,117,109,98,101,114,49,49,100,54,112,116,115,52>>,   \* an84characterslonghumanreadablepartthatcontainsthetheexcludedcharactersbioandnumber11d6pts4
    <<113,121,114,122,56,119,113,100,50,99,57,109>>,   \* qyrz8wqd2c9m
    <<49,113,121,114,122,56,119,113,100,50,99,57,109>>,   \* 1qyrz8wqd2c9m
    <<121,49,98,48,106,115,107,54,103>>,   \* y1b0jsk6g
    <<108,116,49,105,103,99,120,53,99,48>>,   \* lt1igcx5c0
    <<105,110,49,109,117,121,119,100>>,   \* in1muywd
    <<109,109,49,99,114,120,109,51,105>>,   \* mm1crxm3i
    <<97,117,49,115,53,99,103,111,109>>,   \* au1s5cgom
    <<77,49,86,85,88,87,69,90>>,   \* M1VUXWEZ
    <<49,54,112,108,107,119,57>>,   \* 16plkw9
    <<49,112,50,103,100,119,112,102>>   \* 1p2gdwpf
 >>

ASSUME KnownAnswers ==
    Bug = "none" =>
        /\ \A i \in 1..Len(KA_ValidAddr) :
              LET v == KA_ValidAddr[i]
                  a == AddrDecode(v.txt)
                  g == Predict(v.txt, LowerS(SubSeq(v.txt, 1, 2))).seg
              IN  /\ a.ok /\ a.script = v.script
                  /\ g.ok /\ SegwitEncode(LowerS(SubSeq(v.txt, 1, 2)), g.ver, g.prog) = LowerS(v.txt)
        /\ \A i \in 1..Len(KA_InvalidAddr) :
              ~AddrDecode(KA_InvalidAddr[i]).ok /\ ~Predict(KA_InvalidAddr[i], BC).seg.ok /\ ~Predict(KA_InvalidAddr[i], TB).seg.ok
        /\ \A i \in 1..Len(KA_ValidBech32) :
              LET b == Bech32Decode(KA_ValidBech32[i])
              IN  b.ok /\ ~b.m /\ Bech32Encode(b.hrp, b.data, FALSE) = LowerS(KA_ValidBech32[i])
        /\ \A i \in 1..Len(KA_ValidBech32m) :
              LET b == Bech32Decode(KA_ValidBech32m[i])
              IN  b.ok /\ b.m /\ Bech32Encode(b.hrp, b.data, TRUE) = LowerS(KA_ValidBech32m[i])
        /\ \A i \in 1..Len(KA_InvalidBech32) : ~Bech32Decode(KA_InvalidBech32[i]).ok
        \* Base58 digits: "Hello World!" <-> 2NEpo7TZRRrLZSi2U, leading zero bytes <-> '1'
        /\ B58Encode(<<72,101,108,108,111,32,87,111,114,108,100,33>>) = <<50,78,69,112,111,55,84,90,82,82,114,76,90,83,105,50,85>>
        /\ B58Encode(<<0,0,40,127,180,205>>) = <<49,49,50,51,51,81,67,52>>      \* 0x0000287fb4cd <-> "11233QC4"

-----------------------------------------------------------------------------
(* Deterministic pseudo-random choices (TLC integers are 32-bit: keep products below 2^31) *)

P == 46337
Mix(x) == ((x % P) * (x % P) + 12345) % P
Rnd(a, b, e) == Mix(Mix(Mix(a * 977 + b * 131 + e * 7 + (Salt % P) * 257 + 1) + b * 3 + 1) + a * 5 + e)

\* <<hrp id, version, program length, fill>>   hrp id 0 = bc, 1 = tb;  fill 0 = pseudo-random, 1 = all 00, 2 = all ff
FixedSeeds == << <<0, 0, 20, 0>>, <<0, 1, 32, 0>>, <<1, 0, 32, 0>>, <<1, 1, 32, 0>>, <<0, 0, 32, 0>>,
                 <<1, 0, 20, 0>>, <<0, 1, 2, 0>>,  <<0, 1, 40, 0>>, <<0, 2, 20, 0>>, <<1, 16, 40, 0>>,
                 <<0, 16, 2, 0>>, <<1, 3, 33, 0>>, <<0, 9, 21, 0>>, <<1, 12, 3, 0>>, <<0, 0, 20, 1>>,
                 <<0, 1, 32, 2>>, <<1, 5, 16, 1>>, <<0, 0, 32, 2>> >>
SeedSpec(i) ==
    IF i <= Len(FixedSeeds) THEN FixedSeeds[i]
    ELSE LET v == Rnd(i, 1, 0) % 17
         IN  <<Rnd(i, 2, 0) % 2, v, IF v = 0 THEN (IF Rnd(i, 3, 0) % 2 = 0 THEN 20 ELSE 32) ELSE 2 + (Rnd(i, 4, 0) % 39), 0>>
Hrp(id) == IF id = 0 THEN BC ELSE TB
Prog(i, plen, fill) == Seq0([j \in 1..plen |-> IF fill = 1 THEN 0 ELSE IF fill = 2 THEN 255 ELSE Rnd(i, j, 1) % 256])

NoDest == [ver |-> -1, prog |-> <<>>]
Case(k, seed, x) == [k |-> k, seed |-> seed, x |-> x]

\* state for a Bech32-level case; enc = the canonical string of (hrp, dest) when the case has one to compare, else <<>>
PutE(cc, hrp, dest, str, enc) ==
    /\ c' = cc /\ q' = hrp /\ d' = dest /\ s' = str
    /\ r' = LET pr == Predict(str, hrp) IN [b32 |-> pr.b32, seg |-> pr.seg, addr |-> pr.addr, enc |-> enc]
Put(cc, hrp, dest, str) == PutE(cc, hrp, dest, str, <<>>)

-----------------------------------------------------------------------------
(* Alternatives tried by the editing actions *)

CharsetChars == {CS[i] : i \in 1..32}
Invalids == {98, 105, 111, 49, 32, 127, 200, 45}      \* b i o 1 space DEL a-byte-above-127 '-'
Val0(ch) == IF CSRev[Lower(ch)] < 0 THEN 0 ELSE CSRev[Lower(ch)]

\* characters that may replace str[p] (never the character itself); up = the string is upper-case
Alts(str, p, up, seed) ==
    LET cur == str[p]
        fix(ch) == IF up THEN Upper(ch) ELSE ch
        v == Val0(cur)
        all == {fix(ch) : ch \in CharsetChars} \cup Invalids
                 \cup {IF up THEN Lower(CS[i]) ELSE Upper(CS[i]) : i \in {1, 2, 13, 30}}
                 \cup {IF up THEN Lower(cur) ELSE Upper(cur)}
        cls == {fix(CS[((v + 1) % 32) + 1]), fix(CS[(v ^^ 16) + 1]), fix(CS[((v + 1 + (Rnd(seed, p, 7) % 31)) % 32) + 1]),
                IF up THEN Lower(CS[(Rnd(seed, p, 8) % 32) + 1]) ELSE Upper(CS[(Rnd(seed, p, 8) % 32) + 1]),
                CHOOSE z \in Invalids : Cardinality({y \in Invalids : y < z}) = (p + seed) % Cardinality(Invalids)}
    IN  (IF AltMode = "all" THEN all ELSE cls) \ {cur}

InsChars(p, seed) ==
    IF AltMode = "all" THEN CharsetChars \cup {98, 49, 32, 81}
    ELSE {113, 112, CS[(Rnd(seed, p, 9) % 32) + 1], CHOOSE z \in Invalids : Cardinality({y \in Invalids : y < z}) = p % Cardinality(Invalids)}

RECURSIVE ApplySubs(_, _, _, _, _, _)
\* the j-th pseudo-random sample of k substitutions (positions may coincide: between 1 and k characters really differ)
ApplySubs(str, orig, seed, j, k, mth) ==
    IF mth > k THEN str
    ELSE LET p == (Rnd(seed * 8 + mth, j, 2 + k) % Len(orig)) + 1
             nc == CS[((Val0(orig[p]) + 1 + (Rnd(seed * 8 + mth, j, 20 + k) % 31)) % 32) + 1]
         IN  ApplySubs([str EXCEPT ![p] = nc], orig, seed, j, k, mth + 1)

\* one edit: t = 0 substitute, 1 insert after p, 2 delete, 3 flip the case
EditOnce(str, t, p, ch) ==
    CASE t = 0 -> [str EXCEPT ![p] = ch]
      [] t = 1 -> SubSeq(str, 1, p) \o <<ch>> \o SubSeq(str, p + 1, Len(str))
      [] t = 2 -> SubSeq(str, 1, p - 1) \o SubSeq(str, p + 1, Len(str))
      [] OTHER -> [str EXCEPT ![p] = IF IsLower(@) THEN Upper(@) ELSE Lower(@)]

RECURSIVE ApplyEdits(_, _, _, _, _)
\* the j-th pseudo-random sample of k edits of mixed kinds (they may cancel out: the model simply judges the result)
ApplyEdits(str, seed, j, k, mth) ==
    IF mth > k \/ Len(str) = 0 THEN str
    ELSE LET t == Rnd(seed * 8 + mth, j, 40 + k) % 4
             p == (Rnd(seed * 8 + mth, j, 50 + k) % Len(str)) + 1
             ch == CS[(Rnd(seed * 8 + mth, j, 60 + k) % 32) + 1]
         IN  ApplyEdits(EditOnce(str, t, p, ch), seed, j, k, mth + 1)

NDiff(a, b) == Cardinality({i \in 1..Len(a) : a[i] # b[i]})

-----------------------------------------------------------------------------
(* Actions *)

Start == c.k = "start"

PickSeed(i) ==
    /\ Start
    /\ LET sp == SeedSpec(i)
           pr == Prog(i, sp[3], sp[4])
           str == SegwitEncode(Hrp(sp[1]), sp[2], pr)
       IN  PutE(Case("seed", i, <<>>), Hrp(sp[1]), [ver |-> sp[2], prog |-> pr], str, str)

\* --- single edits of a seed address
OnSeed == c.k = "seed"

Substitute(p, ch) == OnSeed /\ Put(Case("sub", c.seed, <<p, ch>>), q, d, [s EXCEPT ![p] = ch])
UpperAll          == OnSeed /\ PutE(Case("upper", c.seed, <<>>), q, d, UpperS(s), s)
UpSubstitute(p, ch) == c.k = "upper" /\ Put(Case("upsub", c.seed, <<p, ch>>), q, d, [s EXCEPT ![p] = ch])
Delete(p)         == OnSeed /\ Put(Case("del", c.seed, <<p>>), q, d, SubSeq(s, 1, p - 1) \o SubSeq(s, p + 1, Len(s)))
Insert(p, ch)     == OnSeed /\ Put(Case("ins", c.seed, <<p, ch>>), q, d, SubSeq(s, 1, p) \o <<ch>> \o SubSeq(s, p + 1, Len(s)))
Transpose(p)      == OnSeed /\ s[p] # s[p + 1]
                            /\ Put(Case("swap", c.seed, <<p>>), q, d, [s EXCEPT ![p] = s[p + 1], ![p + 1] = s[p]])
FlipCase(p)       == OnSeed /\ IsLower(s[p]) /\ Put(Case("flip", c.seed, <<p>>), q, d, [s EXCEPT ![p] = Upper(s[p])])
\* one part in upper case, the other in lower case (part 1 = hrp, 2 = data part)
CasePart(part)    == OnSeed /\ Put(Case("casepart", c.seed, <<part>>), q, d,
                                   Seq0([i \in 1..Len(s) |-> IF (i <= Len(q)) = (part = 1) THEN Upper(s[i]) ELSE s[i]]))
Truncate(n)       == OnSeed /\ Put(Case("trunc", c.seed, <<n>>), q, d, SubSeq(s, 1, n))
SubstituteK(j, k) == OnSeed /\ Put(Case("subk", c.seed, <<j, k>>), q, d, ApplySubs(s, s, c.seed, j, k, 1))
EditK(j, k)       == OnSeed /\ Put(Case("editk", c.seed, <<j, k>>), q, d, ApplyEdits(s, c.seed, j, k, 1))
\* same destination, the padding bits set to v / one more all-zero group / the other checksum constant: checksum recomputed
PadBits(v)        == OnSeed /\ Put(Case("pad", c.seed, <<v>>), q, d, RawAddr(q, d.ver, d.prog, d.ver # 0, v, 0))
ExtraGroup(n)     == OnSeed /\ Put(Case("extra", c.seed, <<n>>), q, d, RawAddr(q, d.ver, d.prog, d.ver # 0, 0, n))
VariantSwap       == OnSeed /\ Put(Case("vswap", c.seed, <<>>), q, d, RawAddr(q, d.ver, d.prog, d.ver = 0, 0, 0))
\* the other network's hrp with a freshly computed checksum is a different, valid address
HrpSwap           == OnSeed /\ LET h2 == IF q = BC THEN TB ELSE BC
                                  str == SegwitEncode(h2, d.ver, d.prog)
                               IN PutE(Case("hrpswap", c.seed, <<>>), h2, d, str, str)

EditSeed ==
  OnSeed /\
  ( \/ \E p \in 1..Len(s) : \E ch \in Alts(s, p, FALSE, c.seed) : Substitute(p, ch)
    \/ UpperAll
    \/ \E p \in 1..Len(s) : Delete(p)
    \/ \E p \in 0..Len(s) : \E ch \in InsChars(p, c.seed) : Insert(p, ch)
    \/ \E p \in 1..(Len(s) - 1) : Transpose(p)
    \/ \E p \in 1..Len(s) : FlipCase(p)
    \/ \E part \in 1..2 : CasePart(part)
    \/ \E n \in 0..(Len(s) - 1) : Truncate(n)
    \/ \E j \in 1..NSample : \E k \in 2..4 : SubstituteK(j, k)
    \/ \E j \in 1..NSample : \E k \in 2..4 : EditK(j, k)
    \/ \E v \in 1..(2 ^ PadLen(Len(d.prog)) - 1) : PadBits(v)
    \/ \E n \in 1..2 : ExtraGroup(n)
    \/ VariantSwap
    \/ HrpSwap )

EditUpper == c.k = "upper" /\ \E p \in 1..Len(s) : \E ch \in Alts(s, p, TRUE, c.seed) : UpSubstitute(p, ch)

\* --- tables that do not depend on the seeds; they hang off "group" states so that TLC's workers share them
TabLens == {0, 1, 2, 19, 20, 21, 31, 32, 33, 39, 40, 41}
TabVers == 0..18 \cup {31}
Groups == ({1, 2} \X TabVers) \cup {<<3, 0>>, <<5, 0>>} \cup ({4} \X (0..ShortLen)) \cup ({6} \X B58Versions) \cup ({7} \X {128, 239})
PickGroup(g) == Start /\ c' = Case("group", 0, g) /\ UNCHANGED <<q, d, s, r>>
InGroup(t, a) == c.k = "group" /\ c.x = <<t, a>>
\* human readable parts used by the tables: 0 bc, 1 tb, 2 "bcrt", 3 "tc", 4 "BC" (upper case, data part lower), 5 "Bc", 6 "ltc"
LongHrp(n) == Seq0([i \in 1..n |-> 97 + (i % 26)])
HrpTab(id) == CASE id = 0 -> BC [] id = 1 -> TB [] id = 2 -> <<98, 99, 114, 116>> [] id = 3 -> <<116, 99>>
                [] id = 4 -> <<66, 67>> [] id = 5 -> <<66, 99>> [] id = 6 -> <<108, 116, 99>>
                [] OTHER -> LongHrp(id)

\* script -> string: every version x table length x bc / tb x two programs
EncCase(hid, ver, plen, j) ==
    /\ InGroup(1, ver)
    /\ LET pr == Prog(100 + ver + j, plen, IF j = 2 /\ plen = 20 THEN 1 ELSE 0)
           str == SegwitEncode(HrpTab(hid), ver, pr)
       IN  PutE(Case("enc", 0, <<hid, ver, plen, j>>), HrpTab(hid), [ver |-> ver, prog |-> pr], str, str)

\* string built without validation: version x length x checksum variant x padding x hrp
RawCase(hid, ver, plen, mm, pad) ==
    /\ InGroup(2, ver)
    /\ (pad = 1 => PadLen(plen) > 0)
    /\ (hid >= 2 => plen \in {20, 32, 33})          \* the other hrps: a few lengths are enough
    /\ LET pr == Prog(200 + ver, plen, 0)
           padval == IF pad = 1 THEN 1 + (Rnd(ver, plen, 3) % (2 ^ PadLen(plen) - 1)) ELSE 0
       IN  PutE(Case("raw", 0, <<hid, ver, plen, mm, pad>>), LowerS(HrpTab(hid)), [ver |-> ver, prog |-> pr],
                RawAddr(HrpTab(hid), ver, pr, mm = 1, padval, IF pad = 2 THEN 1 ELSE 0),
                SegwitEncode(LowerS(HrpTab(hid)), ver, pr))

\* total length 89 / 90 / 91 through long human readable parts (SegwitDecode(hrp, .) and the generic decoder)
LongCase(hl, ver, plen) ==
    /\ InGroup(3, 0)
    /\ LET pr == Prog(300 + ver, plen, 0)
       IN  PutE(Case("long", 0, <<hl, ver, plen>>), LongHrp(hl), [ver |-> ver, prog |-> pr], RawAddr(LongHrp(hl), ver, pr, ver # 0, 0, 0),
                SegwitEncode(LongHrp(hl), ver, pr))

\* generic Bech32 strings: separator / hrp / data-part edge cases; g selects the shape
GenHrps == << <<>>, <<49>>, <<97>>, <<98, 99, 49>>, <<49, 49>>, <<33>>, <<126>>, <<32>>, <<127>>, <<98, 32, 99>>, <<98, 99>>,
              LongHrp(83), LongHrp(84), LongHrp(82), <<63, 49, 63>> >>
GenericCase(g, dl, mm, cut) ==
    /\ InGroup(3, 0)
    /\ LET hrp == GenHrps[g]
           data == Seq0([i \in 1..dl |-> Rnd(g, i, 4) % 32])
           full == RawString(hrp, data, mm = 1)
       IN  PutE(Case("generic", 0, <<g, dl, mm, cut>>), hrp, [ver |-> -1, prog |-> data], SubSeq(full, 1, Len(full) - cut),
                Bech32Encode(hrp, data, mm = 1))

\* no separator at all / only separators / separator last
OddStrings == << <<>>, <<49>>, <<49, 49, 49, 49, 49, 49, 49, 49>>, <<98, 99>>, <<98, 99, 49>>, <<98, 99, 113, 113, 113, 113, 113, 113, 113, 113>>,
                 <<113, 113, 113, 113, 113, 113, 113, 49>>, <<98, 99, 49, 113>>, <<116, 98, 49>>, <<66, 67, 49>> >>
OddCase(i) == InGroup(3, 0) /\ Put(Case("odd", 0, <<i>>), BC, NoDest, OddStrings[i])

ShortAlphabet == <<98, 99, 49, 113, 112, 81, 48, 32>>        \* b c 1 q p Q 0 space
RECURSIVE ShortStr(_, _)
ShortStr(len, idx) == IF len = 0 THEN <<>> ELSE <<ShortAlphabet[(idx % 8) + 1]>> \o ShortStr(len - 1, idx \div 8)
ShortString(len, idx) == InGroup(4, len) /\ Put(Case("short", 0, <<len, idx>>), BC, NoDest, ShortStr(len, idx))

\* Base58 digit structure: bytes -> string (and back)
B58Lens == {0, 1, 2, 5, 21, 24, 25, 26, 37, 38}
B58RawCase(len, z, j) ==
    /\ InGroup(5, 0) /\ z <= len
    /\ LET bytes == Seq0([i \in 1..len |-> IF i <= z THEN 0 ELSE IF i = z + 1 THEN 1 + (Rnd(len, i, 30 + j) % 255) ELSE Rnd(len, i, 30 + j) % 256])
           str == B58Encode(bytes)
       IN  /\ c' = Case("b58raw", 0, <<len, z, j>>) /\ q' = <<>> /\ d' = [ver |-> -1, prog |-> bytes] /\ s' = str
           /\ r' = [dec |-> B58Decode(str)]

\* Base58 strings with characters outside the alphabet: a valid string with one character replaced
B58BadCase(len, p, bad) ==
    /\ InGroup(5, 0)
    /\ LET bytes == Seq0([i \in 1..len |-> 1 + (Rnd(len, i, 40) % 255)])
           str == B58Encode(bytes)
           pp == (p % Len(str)) + 1
           str2 == [str EXCEPT ![pp] = BadChars[bad]]
       IN  /\ c' = Case("b58bad", 0, <<len, p, bad>>) /\ q' = <<>> /\ d' = NoDest /\ s' = str2
           /\ r' = [dec |-> B58Decode(str2)]

B58Class(x) ==
    /\ InGroup(6, x[1]) /\ (x[6] = -1 => x[1] = 0)
    /\ c' = Case("b58", 0, x) /\ q' = <<>> /\ d' = NoDest /\ s' = <<>>
    /\ r' = [ok |-> B58Accept(x), kind |-> B58Kind(x), tn |-> x[1] \in {111, 196}, ones |-> B58Ones(x)]

WifClass(x) ==
    /\ InGroup(7, x[1])
    /\ c' = Case("wif", 0, x) /\ q' = <<>> /\ d' = NoDest /\ s' = <<>>
    /\ r' = [ok |-> WifAccept(x), compressed |-> x[2] = 38]

B58Con(vb, con) ==
    /\ InGroup(6, vb)
    /\ c' = Case("b58c", 0, <<vb, con[1], con[2]>>) /\ q' = <<>> /\ d' = NoDest /\ s' = <<>>
    /\ r' = [ok |-> TRUE, kind |-> B58Kind(<<vb>>), tn |-> vb \in {111, 196}]

WifCon(vb, form, con) ==
    /\ InGroup(7, vb)
    /\ c' = Case("wifc", 0, <<vb, form, con[1], con[2]>>) /\ q' = <<>> /\ d' = NoDest /\ s' = <<>>
    /\ r' = [ok |-> TRUE, compressed |-> form = 38]

TableCases ==
  c.k = "group" /\
  ( \/ \E hid \in {0, 1} : \E ver \in TabVers : \E plen \in TabLens : \E j \in 1..2 : EncCase(hid, ver, plen, j)
    \/ \E hid \in 0..6 : \E ver \in TabVers : \E plen \in TabLens : \E mm \in 0..1 : \E pad \in 0..2 : RawCase(hid, ver, plen, mm, pad)
    \/ \E hl \in {17, 18, 19, 20} : \E ver \in {0, 1, 16} : \E plen \in {32, 39, 40} : LongCase(hl, ver, plen)
    \/ \E g \in 1..Len(GenHrps) : \E dl \in {0, 1, 5} : \E mm \in 0..1 : \E cut \in {0, 1, 6} : GenericCase(g, dl, mm, cut)
    \/ \E i \in 1..Len(OddStrings) : OddCase(i)
    \/ \E len \in 0..ShortLen : \E idx \in 0..(8 ^ len - 1) : ShortString(len, idx)
    \/ \E len \in B58Lens : \E z \in {0, 1, 2, 3, len} : \E j \in 1..2 : B58RawCase(len, z, j)
    \/ \E len \in {5, 25} : \E p \in 0..3 : \E bad \in 1..Len(BadChars) : B58BadCase(len, p, bad)
    \/ \E vb \in B58Versions : \E pl \in {24, 25, 26} : \E lz \in 0..2 : \E ck \in 0..4 : \E bad \in BadKinds : \E on \in {-1, 0, 1} :
          B58Class(<<vb, pl, lz, ck, bad, on>>)
    \/ \E vb \in {128, 239} : \E form \in {36, 37, 38, 380, 382, 383, 39} : \E ck \in 0..4 : \E bad \in BadKinds : \E on \in {0, 1} :
          WifClass(<<vb, form, ck, bad, on>>)
    \/ \E vb \in B58Versions : \E con \in Constraints : B58Con(vb, con)
    \/ \E vb \in {128, 239} : \E form \in {37, 38} : \E con \in Constraints : WifCon(vb, form, con) )

Init == c = Case("start", 0, <<>>) /\ q = <<>> /\ d = NoDest /\ s = <<>> /\ r = [ok |-> FALSE]

Next ==
    \/ \E i \in SeedLo..SeedHi : PickSeed(i)
    \/ EditSeed
    \/ EditUpper
    \/ \E g \in Groups : g[1] \in Tables /\ PickGroup(g)
    \/ TableCases

Spec == Init /\ [][Next]_vars

-----------------------------------------------------------------------------
(* Properties *)

B32Kinds == {"seed", "sub", "upper", "upsub", "del", "ins", "swap", "flip", "casepart", "trunc", "subk", "editk", "pad", "extra", "vswap", "hrpswap",
             "enc", "raw", "long", "generic", "odd", "short"}
IsB32 == c.k \in B32Kinds

TypeOK ==
    /\ c.k \in B32Kinds \cup {"start", "group", "b58raw", "b58bad", "b58", "wif", "b58c", "wifc"}
    /\ IsB32 => /\ r.b32.ok \in BOOLEAN /\ r.seg.ok \in BOOLEAN /\ r.addr.ok \in BOOLEAN
                /\ \A i \in 1..Len(r.addr.script) : r.addr.script[i] \in 0..255
                /\ \A i \in 1..Len(r.b32.data) : r.b32.data[i] \in 0..31

\* encode, then decode: the same destination, the same output script (all versions x lengths x hrp)
EncodeDecodeIdentity ==
    c.k \in {"seed", "upper", "hrpswap", "enc"} =>
        IF DestOK(d.ver, Len(d.prog))
        THEN /\ s # <<>> /\ r.enc = LowerS(s)
             /\ r.seg.ok /\ r.seg.ver = d.ver /\ r.seg.prog = d.prog
             /\ (q \in {BC, TB} => r.addr.ok /\ r.addr.script = Script(d.ver, d.prog) /\ r.addr.tn = (q = TB))
        ELSE s = <<>>     \* not a supported destination: nothing is encoded

\* the encoder refuses exactly what the decoder would refuse (BIP173 reference: encode = build, then decode must succeed)
EncoderAgreesWithDecoder ==
    c.k = "enc" => LET raw == RawAddr(q, d.ver, d.prog, d.ver # 0, 0, 0) IN (s # <<>>) = Predict(raw, q).seg.ok

\* decode, then re-encode: the same string up to case; so no two strings (other than by case) denote the same destination
AcceptedReencodes ==
    IsB32 =>
        /\ r.seg.ok => SegwitEncode(q, r.seg.ver, r.seg.prog) = LowerS(s)
        /\ r.b32.ok => Bech32Encode(r.b32.hrp, r.b32.data, r.b32.m) = LowerS(s)
        /\ r.addr.ok /\ r.b32.hrp = q => r.seg.ok

\* BCH guarantee: up to 4 substituted characters are always detected
(* At the address level this is unconditional (a changed hrp is not bc / tb; a '1' typed into the data part moves the   *)
(* separator and so changes the hrp).  At the generic Bech32 level the BCH code guarantees it for up to 4 changed        *)
(* symbols as long as the separator stays where it is; one changed hrp character changes at most 2 symbols.             *)
SubstitutionDetected ==
    c.k \in {"sub", "upsub", "subk"} => ~r.seg.ok /\ ~r.addr.ok
SingleSubstitutionDetected ==
    c.k \in {"sub", "upsub"} /\ ~(c.x[2] = SEP /\ c.x[1] > Len(q) + 1) => ~r.b32.ok

SubKIsReal == c.k = "subk" => NDiff(s, SegwitEncode(q, d.ver, d.prog)) \in 1..c.x[2]

MixedCaseRefused ==
    IsB32 /\ HasLower(s) /\ HasUpper(s) => ~r.b32.ok /\ ~r.seg.ok /\ ~r.addr.ok
FlipIsMixed == c.k \in {"flip", "casepart"} => HasLower(s) /\ HasUpper(s)

\* wrong checksum variant for the witness version
VariantSwapRefused ==
    /\ c.k = "vswap" => r.b32.ok /\ ~r.seg.ok /\ ~r.addr.ok
    /\ c.k = "raw" /\ ((d.ver = 0) = (c.x[4] = 1)) => ~r.seg.ok /\ ~r.addr.ok

\* non-zero padding bits, or 5 or more padding bits
PaddingRefused ==
    /\ c.k = "pad" => r.b32.ok /\ ~r.seg.ok /\ ~r.addr.ok
    /\ c.k = "raw" /\ c.x[5] = 1 => ~r.seg.ok /\ ~r.addr.ok
    \* one more all-zero group: 5 or more padding bits, unless together with the old padding it completes a byte -
    \* then it is a different (one byte longer) destination, never the original one
    /\ c.k = "extra" \/ (c.k = "raw" /\ c.x[5] = 2) =>
           IF PadLen(Len(d.prog)) + 5 * (IF c.k = "extra" THEN c.x[1] ELSE 1) < 8 THEN ~r.seg.ok /\ ~r.addr.ok
           ELSE r.seg.ok => Len(r.seg.prog) = Len(d.prog) + 1

\* the table of raw strings: accepted exactly when version, length, variant, padding, hrp and total length are all legal
RawAcceptedIffLegal ==
    c.k \in {"raw", "long"} /\ (c.k = "raw" => c.x[5] # 2) =>
        LET legal == /\ d.ver \in 0..16 /\ Len(d.prog) \in 2..40 /\ (d.ver = 0 => Len(d.prog) \in {20, 32})
                     /\ (c.k = "raw" => (d.ver = 0) = (c.x[4] = 0) /\ c.x[5] = 0 /\ c.x[1] \notin {4, 5})
                     /\ Len(s) <= 90
        IN  /\ r.seg.ok = legal
            /\ r.seg.ok => r.seg.ver = d.ver /\ r.seg.prog = d.prog
            /\ r.addr.ok = (legal /\ q \in {BC, TB})
            /\ r.addr.ok => r.addr.script = Script(d.ver, d.prog)

\* nothing of fewer than 14 characters is an address
ShortRefused == c.k \in {"short", "odd"} => ~r.addr.ok /\ ~r.seg.ok

\* Base58 digit structure is a bijection between byte strings and strings over the alphabet
B58Bijective ==
    /\ c.k = "b58raw" => r.dec.ok /\ r.dec.v = d.prog /\ LeadCount(s, 49, 1) = LeadCount(d.prog, 0, 1)
    /\ c.k = "b58bad" => ~r.dec.ok

=============================================================================
