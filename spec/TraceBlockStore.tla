-------------------------- MODULE TraceBlockStore --------------------------
(* Trace validation (R->V): a recorded history of the real BlockDB must be   *)
(* a behaviour of BlockStore; every logged observation (Get result, index     *)
(* walk after reopen, the index file record by record) must be what the       *)
(* specification's state says.  Many traces are concatenated with "Reset".    *)
EXTENDS BlockStore, Json, TraceOpts

CONSTANT CmpPos      \* TRUE: positions/lengths in the index file are compared (uncompressed store)

Trace == ndJsonDeserialize("trace.ndjson")

VARIABLE l
BLenTrace == [b \in Blocks |-> BLenSeq[b]]    \* (a JsonDeserialize here is re-evaluated at every use of BLen and leaks a file handle each time)
tvars == <<vars, l>>

Ev(e) == l <= Len(Trace) /\ Trace[l].ev = e /\ l' = l + 1

ProjM(r) == IF CmpPos THEN [b |-> r.b, tr |-> r.tr, inv |-> r.inv, file |-> r.file, pos |-> r.pos, len |-> r.len]
            ELSE [b |-> r.b, tr |-> r.tr, inv |-> r.inv, file |-> r.file]
ProjT(r) == ProjM(r)

IdxAgrees ==
    /\ Trace[l].trailing = 0
    /\ Len(Trace[l].idx) = Len(idxF')
    /\ \A i \in 1..Len(idxF') : ProjT(Trace[l].idx[i]) = ProjM(idxF'[i])

TInit == Init /\ l = 1 /\ TLCSet(1, 1)

TReset ==
    /\ Ev("Reset")
    /\ open' = TRUE /\ index' = [b \in Blocks |-> NoEnt] /\ queue' = <<>> /\ cache' = <<>> /\ idxF' = <<>>
    /\ datF' = [f \in Files |-> <<>>] /\ gone' = {} /\ maxIdx' = 0 /\ maxPos' = 0 /\ maxFile' = 0
    /\ reopens' = 0 /\ stored' = {} /\ trustG' = {} /\ walk' = <<>>

TNext ==
    \/ TReset
    \/ Ev("Add") /\ Add(Trace[l].b, Trace[l].tr) /\ IdxAgrees
    \/ Ev("WriteOne") /\ (IF queue = <<>> THEN UNCHANGED vars ELSE WriteOne) /\ IdxAgrees
    \/ Ev("Idle") /\ (IF queue = <<>> THEN UNCHANGED vars ELSE Idle) /\ IdxAgrees
    \/ Ev("Invalid") /\ Invalid(Trace[l].b) /\ IdxAgrees
    \/ Ev("Trusted") /\ (IF index[Trace[l].b].tr THEN UNCHANGED vars ELSE Trusted(Trace[l].b)) /\ IdxAgrees
    \/ /\ Ev("Get") /\ Get(Trace[l].b) /\ IdxAgrees
       /\ LET b == Trace[l].b IN
          IF index[b].in /\ ~Retained(b) THEN Trace[l].res # "corrupt" ELSE Trace[l].res = GetResult(b)
    \/ Ev("Close") /\ Close /\ IdxAgrees
    \/ /\ Ev("Reopen") /\ Reopen /\ IdxAgrees
       /\ Len(Trace[l].walk) = Len(walk')
       /\ \A i \in 1..Len(walk') : Trace[l].walk[i].b = walk'[i].b /\ Trace[l].walk[i].tr = walk'[i].tr

TSpec == TInit /\ [][TNext]_tvars

TReopenExact == [][(l <= Len(Trace) /\ Trace[l].ev = "Reset") \/ ReopenExactStep]_tvars
TAppendNeverOverwrites == [][(l <= Len(Trace) /\ Trace[l].ev = "Reset") \/ AppendOnlyStep]_tvars

HighWater == TLCSet(1, IF l > TLCGet(1) THEN l ELSE TLCGet(1))
Accepted == IF TLCGet(1) = Len(Trace) + 1 THEN TRUE
            ELSE Print(<<"VFREJECT", TLCGet(1)>>, FALSE)
=============================================================================
