------------------------------- MODULE HDPath -------------------------------
(***************************************************************************)
(* C14 - the wallet's key LIST as a function of its configuration.          *)
(*                                                                         *)
(* A configuration is built step by step (ChooseCfg, AddElem*, ChooseSeed)  *)
(* so that TLC can enumerate the small space exhaustively and walk the      *)
(* large one; MakeWallet then transcribes wallet/wallet.go:make_wallet:     *)
(*   type 3   S0 = H2(pass), key_i = H2(S0 || 0 || 1 || .. || i-1)         *)
(*   type 4   master = HMAC("Bitcoin seed", seed), walk over the elements   *)
(*            of hdpath but the last, keycnt children last+0 .. last+n-1,   *)
(*            and the same again (hdsubs times) under the siblings          *)
(*            prev+1, prev+2 .. of the last-but-one element;                *)
(*            which extended public keys are shown (Root / Prnt / Leaf).    *)
(* Keys are symbolic derivation TERMS: a type-4 key is the path of          *)
(* [n, h] elements from the master, a type-3 key is its position.  Hashes,  *)
(* HMAC, PBKDF2, scrypt and the curve are evaluated by the harness          *)
(* (harness/refhd, written from the BIPs) - the model says WHICH term each   *)
(* listed line must equal, which public derivations must commute, what an   *)
(* exported key must contain.  BIP39's bit layout (entropy || checksum ->   *)
(* 11-bit word indices and back) is executable here; only the checksum      *)
(* byte SHA-256 supplies is an input (table EntTable, computed by the        *)
(* harness for the sampled entropies).                                      *)
(***************************************************************************)
EXTENDS Integers, Sequences, FiniteSets, TLC, Json

CONSTANTS
    WTypes,      \* subset of {3, 4}
    MaxDepth,    \* hdpath has 1..MaxDepth elements
    Indexes,     \* index classes of path elements: subset of {0, 1, 2, 44, 2147483646, 2147483647}
    Hards,       \* subset of BOOLEAN: hardened?
    SubsSet,     \* hdsubs values
    KeyCnts,     \* keycnt values
    Bip39s,      \* subset of {0, 12, 15, 18, 21, 24, 1}:  0 = raw seed, 1 = the password is a mnemonic (bip39=-1 in wallet.cfg)
    Scrypts,     \* scrypt exponents (0 = off)
    ATypes,      \* subset of {"p2kh", "segwit", "bech32", "tap", "pks"}
    Nets,        \* subset of BOOLEAN (testnet?)
    PassKinds,   \* classes of seed passwords (the concretiser's business): "ascii", "nonascii", "long", "prefixed" ...
    Mnems,       \* classes of user mnemonics for bip39 = -1: "plain", "messy", "badsum", "badword", and with a BIP39 passphrase
                 \* (-p39; used verbatim by PBKDF2): "pass", "pass_space", "pass_lead", "pass_trail", "pass_tab", "pass_nl",
                 \* "pass_inner", "pass_nonascii" - how each is typed and what reaches BIP39 is the concretiser's table
    PassSrcs,    \* how the seed password reaches the wallet: "file" (.secret prepared by hand), "stdin" (-stdin), "typed" (no .secret,
                 \* typed at the prompt, not saved), "typedsave" (typed, "Save the password on disk?" answered y, every later run
                 \* reads the saved file), "forceask" (-p: typed although a .secret with something else exists)
    SeedSyns,    \* spelling of the seed= line of wallet.cfg (literal key material prepended to the password): "none", "empty",
                 \* "plain", "inner" (blanks inside), "padded" (blanks / tabs around: stripped), "crlf", "qstart" / "qend" / "qboth" /
                 \* "qinner" (double quotes are NOT syntax: kept), "eqhash" ('=' and '#' inside: kept), "nonascii"
    CfgSyns,     \* spelling of the other lines / switches that feed the derivation: "plain", "quoted" (hdpath, atype), "padded"
                 \* (indentation, trailing blanks, blanks around the atype value), "crlf", "upperkey" (keys in capitals), "flags"
                 \* (command line switches instead of wallet.cfg lines)
    EntTable,    \* sequence of [ent : sequence of bytes, cs : first byte of SHA-256(ent)] for the BIP39 bit-level part
    Bug          \* "none" or the name of a deliberately broken rule

\* the cfg files bind EntTable <- EntTableFile: written by `hdpath prep` (SHA-256 is outside TLC)
EntTableFile == JsonDeserialize("hd_enttable.json")

VARIABLES phase, cfg, path, out, ent

vars == <<phase, cfg, path, out, ent>>

MaxIdx == 2147483647
UserMn == 1      \* (the cfg parser has no negative numbers)

NoCfg == [wt |-> 0, depth |-> 0, subs |-> 1, keycnt |-> 1, atype |-> "", testnet |-> FALSE,
          bip39 |-> 0, scrypt |-> 0, pass |-> "", mnem |-> "", src |-> "file", seedsyn |-> "none", syn |-> "plain"]
NoOut == [ok |-> FALSE, why |-> "", seed |-> [k |-> ""], keys |-> <<>>, xpubs |-> <<>>, xprvs |-> <<>>, via |-> <<>>, form |-> [a |-> ""]]

----------------------------------------------------------------------------
(* uint32 arithmetic of a path element [n, h] (value h * 2^31 + n): adding k wraps into the other half *)
Inc(e, k) == IF e.n <= MaxIdx - k THEN [n |-> e.n + k, h |-> e.h]
             ELSE [n |-> e.n - (MaxIdx - k) - 1, h |-> ~e.h]
Wraps(e, k) == e.n > MaxIdx - k

Parent(p) == SubSeq(p, 1, Len(p) - 1)
Last(p) == p[Len(p)]

(* make_wallet, type 4: the loops, transcribed with their own variables                     *)
(*   hdwal  = path of the node whose children are listed, prvwal = its parent (if hasprv),   *)
(*   prvidx = element that led from prvwal to hdwal, cur = currhdsub                         *)
RECURSIVE SubLoop(_, _, _, _, _, _, _)
SubLoop(hdwal, hasprv, prvwal, prvidx, last, cur, acc) ==
    LET from == IF Bug = "from_one" THEN 1 ELSE 0
        keys == [i \in 1..cfg.keycnt |-> [k |-> "hd", path |-> Append(hdwal, Inc(last, i - 1 + from)), sub |-> cur, i |-> i - 1]]
        acc2 == acc \o keys
    IN  IF ~hasprv \/ cur + 1 >= cfg.subs THEN acc2
        ELSE SubLoop(Append(prvwal, Inc(prvidx, cur + 1)), hasprv, prvwal, prvidx, last, cur + 1, acc2)

EffPath == IF Bug = "drop_hardened" /\ Len(path) >= 2
           THEN [path EXCEPT ![1] = [@ EXCEPT !.h = FALSE]] ELSE path

HDKeys ==
    LET p == EffPath
        d == Len(p)
        hdwal == Parent(p)
        hasprv == d >= 2                                          \* the walk sets prvwal only when it makes at least one step
        prvwal == IF hasprv THEN Parent(hdwal) ELSE <<>>
        prvidx == IF hasprv THEN Last(hdwal) ELSE [n |-> 0, h |-> FALSE]
    IN  SubLoop(hdwal, hasprv, prvwal, prvidx, Last(p), 0, <<>>)

(* type 3: position only; the harness evaluates H2(S0 || bytes 0 .. i-1), S0 = H2(pass) *)
T3Keys == [i \in 1..cfg.keycnt |-> [k |-> "t3", i |-> i - 1, suffix |-> [j \in 1..(i - 1) |-> (j - 1) % 256]]]

AnyHard(p) == \E j \in 1..Len(p) : p[j].h

(* the "# Root / Prnt / Leaf" lines of the listing *)
XPubs ==
    LET p == path
        d == Len(p)
    IN  (IF ~AnyHard(p) THEN <<[tag |-> "Root", path |-> <<>>]>> ELSE <<>>)
     \o (IF ~Last(p).h
         THEN (IF d >= 2 THEN <<[tag |-> "Prnt", path |-> Parent(Parent(p))]>> ELSE <<>>) \o <<[tag |-> "Leaf", path |-> Parent(p)]>>
         ELSE <<>>)

(* -xprv: the master and the node whose children are listed *)
XPrvs == <<[tag |-> "Root", path |-> <<>>], [tag |-> "Leaf", path |-> Parent(path)]>>

(* public derivations that must reproduce listed keys: from a LISTED extended public key, along non-hardened steps only *)
IsPrefix(a, b) == Len(a) <= Len(b) /\ SubSeq(b, 1, Len(a)) = a
Suffix(a, b) == SubSeq(b, Len(a) + 1, Len(b))
ViaOf(keys, xpubs) ==
    LET cand == {<<j, x>> \in (1..Len(keys)) \X (1..Len(xpubs)) :
                    /\ IsPrefix(xpubs[x].path, keys[j].path)
                    /\ ~AnyHard(Suffix(xpubs[x].path, keys[j].path))}
    IN  cand

(* seed term *)
SeedTerm ==
    IF cfg.wt = 3 THEN [k |-> "t3", scrypt |-> cfg.scrypt, pass |-> cfg.pass]
    ELSE IF cfg.bip39 = 0 THEN [k |-> "raw", scrypt |-> cfg.scrypt, pass |-> cfg.pass]
    ELSE IF cfg.bip39 = UserMn THEN [k |-> "mnemonic", mnem |-> cfg.mnem]
    ELSE [k |-> "bip39", scrypt |-> cfg.scrypt, pass |-> cfg.pass, words |-> cfg.bip39,
          entbytes |-> (cfg.bip39 \div 3) * 4, csbits |-> cfg.bip39 \div 3, tag |-> (cfg.bip39 \div 3) * 32]

(* address / export forms *)
Form ==
    LET t == cfg.testnet
        a == cfg.atype
    IN  [a |-> a, testnet |-> t,
         p2pkh |-> IF Bug = "swap_version" /\ t THEN 0 ELSE IF t THEN 111 ELSE 0,
         p2sh |-> IF t THEN 196 ELSE 5,
         hrp |-> IF t THEN "tb" ELSE "bc",
         wif |-> IF t THEN 239 ELSE 128,
         xprv |-> IF a \in {"bech32", "tap"} THEN (IF t THEN "vprv" ELSE "zprv")
                  ELSE IF a = "segwit" THEN (IF t THEN "uprv" ELSE "yprv") ELSE (IF t THEN "tprv" ELSE "xprv"),
         xpub |-> IF a \in {"bech32", "tap"} THEN (IF t THEN "vpub" ELSE "zpub")
                  ELSE IF a = "segwit" THEN (IF t THEN "upub" ELSE "ypub") ELSE (IF t THEN "tpub" ELSE "xpub")]

Refuse(w) == [NoOut EXCEPT !.why = w]

MakeWalletRes ==
    IF cfg.bip39 = UserMn /\ cfg.wt = 4 /\ cfg.scrypt # 0 THEN Refuse("scrypt_with_mnemonic")
    ELSE IF cfg.bip39 = UserMn /\ cfg.wt = 4 /\ cfg.mnem \in {"badsum", "badword"} THEN Refuse("invalid_mnemonic")
    ELSE LET keys == IF cfg.wt = 3 THEN T3Keys ELSE HDKeys
             xp == IF cfg.wt = 3 THEN <<>> ELSE XPubs
         IN  [ok |-> TRUE, why |-> "", seed |-> SeedTerm, keys |-> keys, xpubs |-> xp,
              xprvs |-> IF cfg.wt = 3 THEN <<>> ELSE XPrvs,
              via |-> IF cfg.wt = 3 THEN {} ELSE ViaOf(keys, xp), form |-> Form]

----------------------------------------------------------------------------
(* BIP39 bit layout, executable: ENT bits of entropy, CS = ENT / 32 bits of checksum, words of 11 bits *)
Pow2(k) == IF k = 0 THEN 1 ELSE IF k = 1 THEN 2 ELSE IF k = 2 THEN 4 ELSE IF k = 3 THEN 8 ELSE IF k = 4 THEN 16
           ELSE IF k = 5 THEN 32 ELSE IF k = 6 THEN 64 ELSE IF k = 7 THEN 128 ELSE IF k = 8 THEN 256
           ELSE IF k = 9 THEN 512 ELSE 1024
BitOfByte(b, i) == (b \div Pow2(7 - i)) % 2                       \* i = 0 is the most significant bit
EntBits(e) == Len(e.ent) * 8
CsBits(e) == EntBits(e) \div 32
BitAt(e, i) == IF i < EntBits(e) THEN BitOfByte(e.ent[(i \div 8) + 1], i % 8) ELSE BitOfByte(e.cs, i - EntBits(e))
NWords(e) == (EntBits(e) + CsBits(e)) \div 11
RECURSIVE WordVal(_, _, _)
WordVal(e, w, b) == IF b = 11 THEN 0 ELSE BitAt(e, w * 11 + b) * Pow2(10 - b) + WordVal(e, w, b + 1)
Indices(e) == [w \in 1..NWords(e) |-> WordVal(e, w - 1, 0)]

\* the inverse: word indices -> entropy bytes and checksum bits
IdxBit(ix, i) == (ix[(i \div 11) + 1] \div Pow2(10 - (i % 11))) % 2
RECURSIVE ByteVal(_, _, _)
ByteVal(ix, k, b) == IF b = 8 THEN 0 ELSE IdxBit(ix, k * 8 + b) * Pow2(7 - b) + ByteVal(ix, k, b + 1)
EntOfWords(ix) == LET entbits == (Len(ix) * 11 * 32) \div 33 IN [k \in 1..(entbits \div 8) |-> ByteVal(ix, k - 1, 0)]
RECURSIVE CsVal(_, _, _, _)
CsVal(ix, entbits, n, b) == IF b = n THEN 0 ELSE IdxBit(ix, entbits + b) * Pow2(n - 1 - b) + CsVal(ix, entbits, n, b + 1)
CsOfWords(ix) == LET entbits == (Len(ix) * 11 * 32) \div 33 IN CsVal(ix, entbits, Len(ix) \div 3, 0)

----------------------------------------------------------------------------
Init == phase = "cfg" /\ cfg = NoCfg /\ path = <<>> /\ out = NoOut /\ ent = 0

ChooseCfg ==
    /\ phase = "cfg"
    /\ \E w \in WTypes, d \in 1..MaxDepth, s \in SubsSet, kc \in KeyCnts, a \in ATypes, n \in Nets :
          cfg' = [NoCfg EXCEPT !.wt = w, !.depth = IF w = 4 THEN d ELSE 0, !.subs = IF w = 4 THEN s ELSE 1,
                               !.keycnt = kc, !.atype = a, !.testnet = n]
    /\ phase' = IF cfg'.wt = 4 THEN "path" ELSE "seed"
    /\ UNCHANGED <<path, out, ent>>

AddElem ==
    /\ phase = "path"
    /\ \E n \in Indexes, h \in Hards : path' = Append(path, [n |-> n, h |-> h])
    /\ phase' = IF Len(path') = cfg.depth THEN "seed" ELSE "path"
    /\ UNCHANGED <<cfg, out, ent>>

ChooseSeed ==
    /\ phase = "seed"
    /\ \E b \in (IF cfg.wt = 4 THEN Bip39s ELSE {0}), sc \in Scrypts, pk \in PassKinds, mn \in Mnems :
          /\ (b # UserMn => mn = CHOOSE m \in Mnems : TRUE)           \* the mnemonic class matters only for bip39 = -1
          /\ (b = UserMn => pk = CHOOSE k \in PassKinds : TRUE)
          /\ cfg' = [cfg EXCEPT !.bip39 = b, !.scrypt = sc, !.pass = IF b = UserMn THEN "" ELSE pk, !.mnem = IF b = UserMn THEN mn ELSE ""]
    /\ phase' = "syntax"
    /\ UNCHANGED <<path, out, ent>>

(* How the password arrives and how the configuration is spelled.  NONE of these enters a derivation term: the listing  *)
(* must be the same whatever the source and the spelling - that is the property's "deterministic function of the seed   *)
(* and configuration"; which bytes each spelling denotes is the concretiser's table, written from the documented parser *)
(* (value = everything after the first '=', blanks / tabs / CR around it dropped, nothing else).                         *)
IsPassMn(m) == m \in {"pass", "pass_space", "pass_lead", "pass_trail", "pass_tab", "pass_nl", "pass_inner", "pass_nonascii"}
ChooseSyntax ==
    /\ phase = "syntax"
    /\ \E sr \in PassSrcs, ss \in SeedSyns, cs \in CfgSyns :
          /\ (cfg.bip39 = UserMn /\ cfg.wt = 4 => ss \in {"none", "empty"})      \* a prefix would be read as part of the mnemonic
          /\ (sr = "stdin" => ~IsPassMn(cfg.mnem))                               \* -stdin leaves nothing to answer the -p39 prompt with
          /\ cfg' = [cfg EXCEPT !.src = sr, !.seedsyn = ss, !.syn = cs]
    /\ phase' = "ready"
    /\ UNCHANGED <<path, out, ent>>

MakeWallet ==
    /\ phase = "ready"
    /\ out' = MakeWalletRes
    /\ phase' = "listed"
    /\ UNCHANGED <<cfg, path, ent>>

\* independent of the wallet configuration: one entropy of the table
Bip39Case ==
    /\ phase = "cfg"
    /\ \E i \in 1..Len(EntTable) : ent' = i
    /\ phase' = "bip39"
    /\ UNCHANGED <<cfg, path, out>>

Next == ChooseCfg \/ AddElem \/ ChooseSeed \/ ChooseSyntax \/ MakeWallet \/ Bip39Case

Spec == Init /\ [][Next]_vars

----------------------------------------------------------------------------
(* The property *)
Listed == phase = "listed" /\ out.ok

\* the list is exactly: for every sub-account s (one when the path has a single element) the keycnt children
\* last + 0 .. last + keycnt - 1 of  hdpath[1..d-2] / (hdpath[d-1] + s), in this order
NSubs == IF cfg.wt = 4 /\ Len(path) >= 2 THEN cfg.subs ELSE 1
FollowsPath ==
    Listed /\ cfg.wt = 4 =>
        /\ Len(out.keys) = NSubs * cfg.keycnt
        /\ \A s \in 0..(NSubs - 1), i \in 0..(cfg.keycnt - 1) :
              LET kp == out.keys[s * cfg.keycnt + i + 1].path
                  d == Len(path)
              IN  /\ Len(kp) = d
                  /\ kp[d] = Inc(path[d], i)
                  /\ d >= 2 => kp[d - 1] = Inc(path[d - 1], s)
                  /\ \A j \in 1..(d - 2) : kp[j] = path[j]
HashChain ==
    Listed /\ cfg.wt = 3 =>
        /\ Len(out.keys) = cfg.keycnt
        /\ \A i \in 1..cfg.keycnt : out.keys[i].i = i - 1 /\ Len(out.keys[i].suffix) = i - 1
        /\ out.xpubs = <<>>

\* same configuration, same list: the model's list is a function of the configuration by construction (the harness
\* runs the binary twice and compares); what can be stated here is that no key is listed at two positions
KeyId(k) == IF k.k = "hd" THEN k.path ELSE <<k.i>>
Deterministic ==
    Listed => \A i, j \in 1..Len(out.keys) : KeyId(out.keys[i]) = KeyId(out.keys[j]) => i = j

\* Pub(Child_i(x)) = Child_i(Pub(x)) for non-hardened i: every listed key below a listed extended public key along
\* non-hardened elements is reproduced from it, and nothing else is claimed
PubPrivCommute ==
    Listed /\ cfg.wt = 4 =>
        /\ \A v \in out.via :
              LET k == out.keys[v[1]].path
                  x == out.xpubs[v[2]].path
              IN  IsPrefix(x, k) /\ \A j \in (Len(x) + 1)..Len(k) : ~k[j].h
        \* the Leaf line is shown exactly when the configured last element is not hardened, and then it reproduces
        \* every key of the first sub-account whose index did not wrap into the hardened half
        /\ (\E x \in 1..Len(out.xpubs) : out.xpubs[x].tag = "Leaf") <=> ~Last(path).h
        /\ ~Last(path).h =>
              \A i \in 1..cfg.keycnt : ~Wraps(Last(path), i - 1) =>
                 \E v \in out.via : v[1] = i /\ out.xpubs[v[2]].tag = "Leaf"
        /\ (\E x \in 1..Len(out.xpubs) : out.xpubs[x].tag = "Root") <=> ~AnyHard(path)

\* the address line and the exported private key of a position come from the same term (ListedAddressIsSigningKey),
\* and the forms are those of the network
ListedAddressIsSigningKey ==
    Listed => /\ out.form.p2pkh = (IF cfg.testnet THEN 111 ELSE 0)
              /\ out.form.p2sh = (IF cfg.testnet THEN 196 ELSE 5)
              /\ out.form.wif = out.form.p2pkh + 128
              /\ out.form.hrp = (IF cfg.testnet THEN "tb" ELSE "bc")

\* an exported extended key carries depth = number of elements walked, child number = last element walked
ExportReimportIdentity ==
    Listed /\ cfg.wt = 4 =>
        /\ out.xprvs[1].path = <<>> /\ out.xprvs[2].path = Parent(path)
        /\ \A x \in 1..Len(out.xpubs) : IsPrefix(out.xpubs[x].path, Parent(path))

\* the password's way in and the spelling of the configuration name no term: two configurations that differ only there list the same
SourceAndSpellingIrrelevant ==
    Listed => /\ \A f \in DOMAIN out.seed : f \notin {"src", "seedsyn", "syn"}
              /\ \A j \in 1..Len(out.keys) : \A f \in DOMAIN out.keys[j] : f \notin {"src", "seedsyn", "syn"}

Refusals ==
    phase = "listed" /\ ~out.ok => out.keys = <<>> /\ out.why # ""

\* BIP39 bit layout
Bip39Layout ==
    phase = "bip39" =>
        LET e == EntTable[ent]
            ix == Indices(e)
        IN  /\ Len(ix) \in {12, 15, 18, 21, 24}
            /\ Len(ix) * 11 = EntBits(e) + CsBits(e)
            /\ Len(e.ent) = (Len(ix) \div 3) * 4
            /\ \A w \in 1..Len(ix) : ix[w] \in 0..2047
            /\ EntOfWords(ix) = e.ent
            /\ CsOfWords(ix) = e.cs \div Pow2(8 - CsBits(e))

TypeOK ==
    /\ phase \in {"cfg", "path", "seed", "syntax", "ready", "listed", "bip39"}
    /\ Len(path) <= MaxDepth
    /\ \A j \in 1..Len(path) : path[j].n \in 0..MaxIdx /\ path[j].h \in BOOLEAN
=============================================================================
