------------------------------ MODULE LedgerMC ------------------------------
(* Scenario universes for Ledger: block trees with their transactions.      *)
(*  Rules*  - C04: on top of a 120-block base chain, one valid block and,    *)
(*            for each rule, blocks violating only that rule (at the          *)
(*            boundary), at two levels so that outcomes depend on history     *)
(*  Fork*   - C06: competing branches with conflicting / shared / dependent   *)
(*            transactions, a winning branch that is invalid at its n-th      *)
(*            block, equal-work ties                                          *)
EXTENDS Ledger

In(t, v) == [tx |-> t, vout |-> v, ok |-> TRUE, rl |-> 0]
InBad(t, v) == [tx |-> t, vout |-> v, ok |-> FALSE, rl |-> 0]
InRl(t, v, n) == [tx |-> t, vout |-> v, ok |-> TRUE, rl |-> n]
O(u, e, addr, st) == [amt |-> A(u, e), addr |-> addr, st |-> st]
T(ins, outs) == [ins |-> ins, outs |-> outs, ver |-> 2, sops |-> 0]
TS(ins, outs, s) == [ins |-> ins, outs |-> outs, ver |-> 2, sops |-> s]
B(p, txs, u, e) == [parent |-> p, txs |-> txs, cbouts |-> <<O(u, e, 9, 1)>>]
B2(p, txs, outs) == [parent |-> p, txs |-> txs, cbouts |-> outs]

FEE == 100000   \* 0.001 BTC

----------------------------------------------------------------------------
RulesTx ==
    201 :> T(<<In(1, 1)>>, <<O(30, 0, 1, 1), O(19, 99900000, 2, 2)>>) @@
    202 :> T(<<In(201, 1)>>, <<O(29, 99900000, 1, 1)>>) @@
    203 :> T(<<In(1, 1)>>, <<O(49, 99900000, 3, 1)>>) @@
    204 :> T(<<In(22, 1)>>, <<O(49, 99900000, 1, 2)>>) @@
    205 :> T(<<In(21, 1)>>, <<O(49, 99900000, 2, 2)>>) @@
    206 :> T(<<In(299, 1)>>, <<O(1, 0, 1, 1)>>) @@
    207 :> T(<<In(201, 3)>>, <<O(1, 0, 1, 1)>>) @@
    208 :> T(<<In(2, 1)>>, <<O(50, 1, 1, 1)>>) @@
    209 :> T(<<In(3, 1)>>, <<[amt |-> Pow63, addr |-> 1, st |-> 1], [amt |-> AmtAdd(Pow63, A(0, 1000)), addr |-> 2, st |-> 1]>>) @@
    210 :> T(<<InBad(6, 1)>>, <<O(49, 99900000, 1, 1)>>) @@
    211 :> T(<<InRl(201, 2, 5)>>, <<O(19, 99800000, 1, 1)>>) @@
    212 :> TS(<<In(7, 1)>>, <<O(49, 99900000, 1, 1), [amt |-> Zero, addr |-> 20001, st |-> 7]>>, 80004) @@
    213 :> TS(<<In(8, 1)>>, <<O(49, 99900000, 1, 1), [amt |-> Zero, addr |-> 20000, st |-> 7]>>, 80000) @@
    214 :> T(<<In(9, 1), In(9, 1)>>, <<O(99, 99900000, 1, 1)>>) @@
    215 :> T(<<In(10, 1), In(11, 1)>>, <<O(40, 0, 4, 4), O(30, 0, 5, 5), O(20, 0, 6, 6), O(9, 99900000, 1, 3)>>) @@
    216 :> T(<<In(215, 4), In(201, 2)>>, <<O(29, 99700000, 2, 1), [amt |-> Zero, addr |-> 3, st |-> 1]>>) @@
    217 :> TS(<<In(12, 1)>>, <<O(49, 99900000, 1, 1), [amt |-> Zero, addr |-> 20001, st |-> 8]>>, 80004) @@
    218 :> T(<<In(13, 1)>>, <<O(49, 99700000, 5, 5), O(0, 100000, 4, 4), O(0, 99999, 4, 4), O(0, 1, 6, 6)>>) @@
    219 :> T(<<In(218, 1), In(218, 2)>>, <<O(49, 99700000, 4, 4)>>)

RulesBlk ==
     1 :> B(0, <<201>>, 50, FEE) @@
     2 :> B(0, <<201, 202>>, 50, 2 * FEE) @@
     3 :> B(0, <<202, 201>>, 50, 2 * FEE) @@
     4 :> B(0, <<201, 203>>, 50, 2 * FEE) @@
     5 :> B(0, <<204>>, 50, FEE) @@
     6 :> B(0, <<205>>, 50, FEE) @@
     7 :> B(0, <<206>>, 50, 0) @@
     8 :> B(0, <<201, 207>>, 50, FEE) @@
     9 :> B(0, <<208>>, 50, 0) @@
    10 :> B(0, <<209>>, 50, 0) @@
    11 :> B(0, <<210>>, 50, FEE) @@
    12 :> B(0, <<201, 211>>, 50, 2 * FEE) @@
    13 :> B(0, <<212>>, 50, FEE) @@
    14 :> B(0, <<213>>, 50, FEE) @@
    15 :> B(0, <<201>>, 50, FEE + 1) @@
    16 :> B(0, <<201>>, 50, FEE - 1) @@
    17 :> B(0, <<>>, 50, 0) @@
    18 :> B(0, <<>>, 50, 1) @@
    19 :> B(0, <<214>>, 50, FEE) @@
    20 :> B(1, <<202>>, 50, FEE) @@
    21 :> B(1, <<203>>, 50, FEE) @@
    22 :> B(1, <<204>>, 50, FEE) @@
    23 :> B(1, <<211>>, 50, FEE) @@
    24 :> B(17, <<203>>, 50, FEE) @@
    25 :> B(1, <<201>>, 50, FEE) @@
    26 :> B2(0, <<201, 215>>, <<O(25, 0, 4, 4), O(25, 2 * FEE, 7, 2)>>) @@
    27 :> B(26, <<216>>, 50, FEE) @@
    28 :> B2(0, <<>>, <<[amt |-> Pow63, addr |-> 1, st |-> 1], [amt |-> AmtAdd(Pow63, A(50, 0)), addr |-> 2, st |-> 1]>>) @@
    29 :> B(0, <<217>>, 50, FEE) @@
    30 :> B(0, <<218>>, 50, FEE) @@
    31 :> B(30, <<219>>, 50, FEE) @@
    32 :> B2(0, <<>>, <<O(50, 0, 9, 1), [amt |-> Zero, addr |-> 20001, st |-> 7]>>) @@    \* 80004 sigops in the coinbase
    33 :> B2(0, <<>>, <<O(50, 0, 9, 1), [amt |-> Zero, addr |-> 20000, st |-> 7]>>)       \* exactly 80000: valid

RulesBlocks == 1..33

(* C04 family Wrap: 8785 outputs, each within the money range, whose total is 2^64 + 1000 satoshi (wraps to   *)
(* 1000 in uint64).  A family of its own: TLC re-evaluates the 8785-element definition on every access.       *)
WrapOuts == [k \in 1..8785 |-> IF k <= 8784 THEN [amt |-> MaxMoney, addr |-> 1, st |-> 1]
                                             ELSE [amt |-> A(3440737, 9552616), addr |-> 2, st |-> 1]]
WrapTx ==
    220 :> T(<<In(14, 1)>>, WrapOuts) @@
    221 :> T(<<In(15, 1)>>, <<O(49, 99900000, 1, 1)>>)
WrapBlk ==
     1 :> B(0, <<220>>, 50, 0) @@
     2 :> B(0, <<221>>, 50, FEE) @@
     3 :> B(2, <<220>>, 50, 0)
WrapBlocks == 1..3

(* C04 family Sigops: the input side of the signature-operation budget (BIP 141).  Tx 222 creates P2SH     *)
(* outputs whose redeem script holds 190 OP_CHECKSIG (cost 4 x 190 when spent) and P2WSH outputs whose       *)
(* witness script holds 190 / 191 (cost 190 / 191), also wrapped in P2SH (type 11); the spenders fill the rest of the 80000 budget with a    *)
(* type-7 output, landing exactly on the limit (valid) or 4 / 1 above it (invalid).                          *)
SigopsTx ==
    222 :> T(<<In(16, 1)>>, <<O(10, 0, 190, 9), O(10, 0, 190, 9), O(10, 0, 190, 10), O(10, 0, 190, 10), O(4, 99900000, 191, 10),
                              O(3, 0, 190, 11), O(2, 0, 191, 11)>>) @@
    223 :> TS(<<In(222, 1), In(222, 2)>>, <<O(19, 99900000, 1, 1), [amt |-> Zero, addr |-> 19620, st |-> 7]>>, 78480) @@   \* 1520 + 78480
    224 :> TS(<<In(222, 1), In(222, 2)>>, <<O(19, 99900000, 1, 1), [amt |-> Zero, addr |-> 19621, st |-> 7]>>, 78484) @@   \* 80004
    225 :> TS(<<In(222, 3), In(222, 4)>>, <<O(19, 99900000, 1, 1), [amt |-> Zero, addr |-> 19905, st |-> 7]>>, 79620) @@   \* 380 + 79620
    226 :> TS(<<In(222, 3), In(222, 5)>>, <<O(14, 99800000, 1, 1), [amt |-> Zero, addr |-> 19905, st |-> 7]>>, 79620) @@   \* 381 + 79620
    228 :> TS(<<In(222, 3), In(222, 6)>>, <<O(12, 99900000, 1, 1), [amt |-> Zero, addr |-> 19905, st |-> 7]>>, 79620) @@   \* P2SH-wrapped witness script: 380 + 79620
    229 :> TS(<<In(222, 3), In(222, 7)>>, <<O(11, 99900000, 1, 1), [amt |-> Zero, addr |-> 19905, st |-> 7]>>, 79620) @@   \* 381 + 79620
    231 :> T(<<In(18, 1)>>, <<O(49, 99900000, 1, 1)>>) @@        \* valid; the drivers' TrustedTxChecker vouches for it (odd id, all inputs fine)
    230 :> T(<<InBad(19, 1)>>, <<O(49, 99900000, 2, 1)>>)        \* wrong script: must be refused although a vouched-for transaction precedes it
SigopsBlk ==
     1 :> B(0, <<222>>, 50, FEE) @@
     2 :> B(1, <<223>>, 50, FEE) @@
     3 :> B(1, <<224>>, 50, FEE) @@
     4 :> B(1, <<225>>, 50, FEE) @@
     5 :> B(1, <<226>>, 50, FEE) @@
     6 :> B(0, <<222, 224>>, 50, 2 * FEE) @@
     7 :> B(0, <<222, 223>>, 50, 2 * FEE) @@
     8 :> B(1, <<228>>, 50, FEE) @@
     9 :> B(1, <<229>>, 50, FEE) @@
    10 :> B(0, <<231, 230>>, 50, 2 * FEE)
SigopsBlocks == 1..10

----------------------------------------------------------------------------
(* C06 family A: A1-A2-A3 against B1-B2-B3-B4 where B3 is invalid only when connected,   *)
(* C1-C2 competing at equal work; transactions conflict across branches, 201 is in both   *)
ForkATx ==
    201 :> T(<<In(1, 1)>>, <<O(30, 0, 1, 1), O(19, 99900000, 2, 2)>>) @@
    202 :> T(<<In(201, 1)>>, <<O(29, 99900000, 1, 1)>>) @@
    203 :> T(<<In(1, 1)>>, <<O(49, 99900000, 3, 1)>>) @@
    204 :> T(<<In(203, 1), In(2, 1)>>, <<O(60, 0, 4, 4), O(39, 99800000, 3, 2)>>) @@
    205 :> T(<<In(201, 2)>>, <<O(19, 99800000, 5, 5)>>) @@
    206 :> T(<<In(3, 1)>>, <<O(10, 0, 1, 1), O(10, 0, 1, 1), O(10, 0, 2, 3), O(19, 99900000, 6, 5)>>) @@
    207 :> T(<<In(206, 2), In(206, 4)>>, <<O(29, 99800000, 1, 1)>>)

ForkABlk ==
     1 :> B(0, <<201>>, 50, FEE) @@            \* A1
     2 :> B(1, <<202, 206>>, 50, 2 * FEE) @@   \* A2
     3 :> B(2, <<207>>, 50, FEE) @@            \* A3  (partial spend of 206's outputs)
     4 :> B(0, <<203>>, 50, FEE) @@            \* B1  (conflicts with 201)
     5 :> B(4, <<204, 206>>, 50, 2 * FEE) @@   \* B2
     6 :> B(5, <<201>>, 50, FEE) @@            \* B3  invalid on this branch: (1,1) already spent by 203
     7 :> B(6, <<>>, 50, 0) @@                 \* B4  child of the invalid block
     8 :> B(1, <<205>>, 50, FEE) @@            \* C2 on A1: equal work with A2
     9 :> B(5, <<207>>, 50, FEE)               \* B3' valid alternative: spends 206 outputs on branch B
ForkABlocks == 1..9

(* C06 family B: a chain of dependent transactions disconnected and reconnected in another  *)
(* order; a branch invalid at its first block; a grand-child delivered before its parent     *)
ForkBTx ==
    201 :> T(<<In(1, 1), In(2, 1)>>, <<O(25, 0, 1, 1), O(25, 0, 1, 2), O(25, 0, 2, 4), O(24, 99900000, 2, 5)>>) @@
    202 :> T(<<In(201, 1), In(201, 3)>>, <<O(49, 99900000, 3, 1)>>) @@
    203 :> T(<<In(201, 2)>>, <<O(24, 99900000, 3, 4), O(0, 0, 6, 6)>>) @@
    204 :> T(<<In(202, 1), In(203, 1)>>, <<O(74, 99700000, 1, 1)>>) @@
    205 :> T(<<In(201, 4), In(3, 1)>>, <<O(74, 99800000, 4, 1)>>) @@
    206 :> T(<<InBad(4, 1)>>, <<O(49, 99900000, 1, 1)>>)

ForkBBlk ==
     1 :> B(0, <<201>>, 50, FEE) @@
     2 :> B(1, <<202, 203>>, 50, 2 * FEE) @@
     3 :> B(2, <<204>>, 50, FEE) @@
     4 :> B(0, <<201, 202>>, 50, 2 * FEE) @@
     5 :> B(4, <<203, 205>>, 50, 2 * FEE) @@
     6 :> B(5, <<204>>, 50, FEE) @@
     7 :> B(6, <<>>, 50, 0) @@
     8 :> B(0, <<206>>, 50, FEE) @@            \* invalid at its first block (bad script)
     9 :> B(8, <<>>, 50, 0) @@
    10 :> B(9, <<>>, 50, 0)
ForkBBlocks == 1..10

(* C17 family: one address receiving many outputs (list -> map switch-over), several outputs of one       *)
(* transaction to the same address, values below / at the index minimum (100000 sat), the last outputs of   *)
(* an address removed while a new one arrives in the same block, competing branches and reorganisation      *)
BalTx ==
    301 :> T(<<In(1, 1)>>, <<O(10, 0, 1, 4), O(10, 0, 1, 4), O(10, 0, 1, 4), O(10, 0, 1, 4),
                              O(0, 100000, 2, 5), O(0, 99999, 2, 5), O(9, 99700001, 3, 2), [amt |-> Zero, addr |-> 3, st |-> 2]>>) @@   \* #8: zero value: indexed only when the limit is 0
    302 :> T(<<In(301, 1), In(301, 2)>>, <<O(19, 99900000, 4, 1)>>) @@
    303 :> T(<<In(301, 3), In(301, 4)>>, <<O(19, 99900000, 1, 4)>>) @@
    304 :> T(<<In(301, 5), In(301, 7)>>, <<O(9, 99700001, 2, 5)>>) @@
    305 :> T(<<In(2, 1)>>, <<O(25, 0, 5, 6), O(24, 99900000, 5, 6)>>) @@
    306 :> T(<<In(303, 1), In(301, 6)>>, <<O(19, 99800000, 1, 4), O(0, 99999, 1, 4)>>)

BalBlk ==
     1 :> B(0, <<301>>, 50, FEE) @@
     2 :> B(1, <<302, 303>>, 50, 2 * FEE) @@
     3 :> B(2, <<304, 306>>, 50, 2 * FEE) @@
     4 :> B(0, <<305>>, 50, FEE) @@
     5 :> B(4, <<301, 302>>, 50, 2 * FEE) @@
     6 :> B(5, <<303, 304>>, 50, 2 * FEE) @@
     7 :> B(6, <<306>>, 50, FEE) @@
     8 :> B(3, <<305>>, 50, FEE)
BalBlocks == 1..8
(* C07 family: two competing branches (B heavier and valid, or invalid at its third block)            *)
CrashTx ==
    201 :> T(<<In(1, 1)>>, <<O(30, 0, 1, 1), O(19, 99900000, 2, 2)>>) @@
    202 :> T(<<In(201, 1)>>, <<O(29, 99900000, 1, 1)>>) @@
    203 :> T(<<In(1, 1)>>, <<O(49, 99900000, 3, 1)>>) @@
    204 :> T(<<In(203, 1)>>, <<O(49, 99800000, 4, 2)>>)
CrashBlk ==
     1 :> B(0, <<201>>, 50, FEE) @@            \* A1
     2 :> B(1, <<202>>, 50, FEE) @@            \* A2
     3 :> B(0, <<203>>, 50, FEE) @@            \* B1
     4 :> B(3, <<204>>, 50, FEE) @@            \* B2
     5 :> B(4, <<>>, 50, 0) @@                 \* B3
     6 :> B(4, <<201>>, 50, FEE) @@            \* B3x: invalid on this branch
     7 :> B(2, <<>>, 50, 0) @@                 \* A3
     8 :> B(5, <<>>, 50, 0)                    \* B4
CrashBlocks == 1..8
(* C07 family Long: one branch of 40 blocks, so that more blocks than any batch size of the block writer are   *)
(* queued between two idle calls (the snapshot must still name a block that is on disk)                        *)
LongTx == 201 :> T(<<In(1, 1)>>, <<O(30, 0, 1, 1), O(19, 99900000, 2, 2)>>)
LongBlk == [b \in 1..40 |-> IF b = 1 THEN B(0, <<201>>, 50, FEE) ELSE B(b - 1, <<>>, 50, 0)]
LongBlocks == 1..40
(* C06 family C: undo data is keyed by height.  A2 spends X at height 122; the node reorganises to B, which    *)
(* spends X at height 121 and has an EMPTY block at 122; branch C forks above B's spender and disconnects that *)
(* empty block: whatever undo record is used for height 122 then must be B2's (empty), not A2's.               *)
ForkCTx ==
    401 :> T(<<In(2, 1)>>, <<O(49, 99900000, 1, 1)>>) @@
    402 :> T(<<In(1, 1)>>, <<O(30, 0, 1, 1), O(19, 99900000, 2, 2)>>) @@
    403 :> T(<<In(1, 1)>>, <<O(49, 99900000, 3, 1)>>)
ForkCBlk ==
     1 :> B(0, <<401>>, 50, FEE) @@            \* A1
     2 :> B(1, <<402>>, 50, FEE) @@            \* A2 spends X = (1,1) at height 122
     3 :> B(0, <<403>>, 50, FEE) @@            \* B1 spends X at height 121
     4 :> B(3, <<>>, 50, 0) @@                 \* B2 empty, height 122
     5 :> B(4, <<>>, 50, 0) @@                 \* B3
     6 :> B(3, <<>>, 50, 0) @@                 \* C2 on B1
     7 :> B(6, <<>>, 50, 0) @@                 \* C3
     8 :> B(7, <<>>, 50, 0)                    \* C4
ForkCBlocks == 1..8

(* C06/C04 family D: a side branch that is invalid only because of a witness rule (wrong witness script for a *)
(* P2WSH output, wrong key for P2WPKH) and is reached through a reorganisation, interleaved with Idle calls;  *)
(* the invalid block has a child, so the whole branch must go                                                 *)
ForkDTx ==
    411 :> T(<<In(1, 1)>>, <<O(25, 0, 1, 2), O(24, 99900000, 2, 5)>>) @@
    412 :> T(<<InBad(411, 1)>>, <<O(24, 99900000, 3, 1)>>) @@
    413 :> T(<<InBad(411, 2)>>, <<O(24, 99800000, 3, 1)>>) @@
    414 :> T(<<In(2, 1)>>, <<O(49, 99900000, 4, 1)>>) @@
    415 :> T(<<In(411, 1), In(411, 2)>>, <<O(49, 99800000, 3, 1)>>)
ForkDBlk ==
     1 :> B(0, <<414>>, 50, FEE) @@            \* A1
     2 :> B(1, <<>>, 50, 0) @@                 \* A2
     3 :> B(0, <<411>>, 50, FEE) @@            \* D1
     4 :> B(3, <<412>>, 50, FEE) @@            \* D2 : bad witness script
     5 :> B(4, <<>>, 50, 0) @@                 \* D3 : child of the invalid block
     6 :> B(3, <<413>>, 50, FEE) @@            \* D2' : bad P2WPKH signature
     7 :> B(6, <<>>, 50, 0) @@                 \* D3'
     8 :> B(3, <<415>>, 50, FEE) @@            \* D2'' : valid
     9 :> B(8, <<>>, 50, 0)                    \* D3''
ForkDBlocks == 1..9
(* C06 family E: the first five blocks of family D, explored deeper (7 deliveries with Idle calls): the invalid  *)
(* side block D2 is flushed, fails when its child triggers the reorganisation, is flagged invalid on disk - and  *)
(* is then delivered AGAIN, followed by its child again: it must fail again.                                     *)
ForkETx == ForkDTx
ForkEBlk == [b \in 1..5 |-> ForkDBlk[b]]
ForkEBlocks == 1..5
(* C06 family Retarget (BaseH = 2014, base blocks 150 s apart): the first retarget happens at height 2016.      *)
(* On branch A the period was fast, so A2016 carries 4 units of work; branch B stamps B2015 two weeks later,     *)
(* its period was slow and its blocks stay at the minimum difficulty.  A (2 blocks, work 5) must beat            *)
(* B (4 blocks, work 4): more work wins, not more blocks.                                                         *)
BW(p, txs, u, e, dt, wk) == [parent |-> p, txs |-> txs, cbouts |-> <<O(u, e, 9, 1)>>, dt |-> dt, work |-> wk]
RetargetTx ==
    3201 :> T(<<In(1, 1)>>, <<O(30, 0, 1, 1), O(19, 99900000, 2, 2)>>) @@
    3203 :> T(<<In(1, 1)>>, <<O(49, 99900000, 3, 1)>>)
RetargetBlk ==
     1 :> BW(0, <<3201>>, 50, FEE, 150, 1) @@         \* A2015
     2 :> BW(1, <<>>, 50, 0, 150, 4) @@               \* A2016 : first block of the new period, difficulty x4
     3 :> BW(0, <<3203>>, 50, FEE, 1209600, 1) @@     \* B2015 : two weeks after its parent
     4 :> BW(3, <<>>, 50, 0, 150, 1) @@               \* B2016 : slow period, stays at the minimum difficulty
     5 :> BW(4, <<>>, 50, 0, 150, 1) @@               \* B2017
     6 :> BW(5, <<>>, 50, 0, 150, 1) @@               \* B2018
     7 :> BW(2, <<>>, 50, 0, 150, 4) @@               \* A2017 : inside the period, same difficulty as A2016
     8 :> BW(2, <<>>, 50, 0, 1300, 1)                 \* A2017' : more than 20 minutes after its parent: minimum difficulty allowed
RetargetBlocks == 1..8
=============================================================================
