-------------------------------- MODULE P2P --------------------------------
(***************************************************************************)
(* One peer session of gocoin's client/network as the code implements it   *)
(* (property C18: bytes from untrusted peers never crash or wedge the      *)
(* node).                                                                  *)
(*                                                                         *)
(*  - Grammar[cmd]: the wire grammar of every command as a flat list of    *)
(*    fields (F fixed bytes, C CompactSize count of a vector, L CompactSize*)
(*    length + B the bytes it announces, V CompactSize scalar) of ONE valid*)
(*    instance; Classes(cmd) derives the payload classes from it: valid,   *)
(*    empty, minimal, trailing bytes, truncation at every field boundary   *)
(*    and one byte into every variable field, every count -1/+1 and in the *)
(*    0xfd/0xfe/0xff forms (incl. sign bit and multiplication wrap), every *)
(*    length prefix exceeding the rest by one and huge, every scalar huge. *)
(*    FrameKinds are the perturbations of the 24-byte frame header that    *)
(*    FetchMessage (core.go) looks at.                                     *)
(*  - Recv(x): FetchMessage + the dispatch of OneConnection.Run (tick.go): *)
(*    what is ignored before the version message, version twice, the       *)
(*    switch over the command, the misbehaviour score and the ban, and for *)
(*    every handler the mutexes it takes as a little lock program.         *)
(*  - HandlerReturnsClean: after every Recv the held set is empty, the     *)
(*    step terminated and the outcome is ok / ignored / penalised /        *)
(*    disconnected -- never a panic. LockOrder: MutexRcv is never taken    *)
(*    inside c.Mutex (rule stated in tick.go).                             *)
(*                                                                         *)
(* What a handler does with a malformed payload (accept, penalise, ban) is *)
(* the code's free choice: the model allows every exit of that handler.    *)
(* Only for valid payloads and for the dispatch rules the outcome and the  *)
(* state change are determined; these are what the replay driver compares.*)
(* Defects = {} is the design; a non-empty Defects set adds the named      *)
(* defective path of the current code (TLC must then refute the property). *)
(***************************************************************************)
EXTENDS Integers, Sequences, FiniteSets, TLC

CONSTANTS MaxPre,      \* messages a session may send before its version message
          MaxPost,     \* messages a session may send after the version message
          BanScore,    \* 1000 in core.go
          CmdFilter,   \* {} = every command; otherwise only these (model-checking reduction)
          KindFilter,  \* {} = every class kind; otherwise only these
          Defects,     \* named defects of the implementation that are switched on
          PenSet       \* points a handler may add for a malformed payload ({50, 100} in the code)

\* ------------------------------------------------------------------ grammar
F(n) == [k |-> "F", n |-> n, e |-> 0]
C(n, e) == [k |-> "C", n |-> n, e |-> e]
V(n, of) == [k |-> "V", n |-> n, e |-> of]     \* a scalar that indexes a collection of "of" elements
LB(n) == << [k |-> "L", n |-> n, e |-> 0], [k |-> "B", n |-> n, e |-> 0] >>

TxIn(sl) == <<F(36)>> \o LB(sl) \o <<F(4)>>
TxOut(pl) == <<F(8)>> \o LB(pl)
\* the coinbase of block B1 (segwit serialisation, witness commitment) and the transaction tx1 it confirms
CoinbaseTx == <<F(4), F(2), C(1, 0)>> \o TxIn(4) \o <<C(2, 0)>> \o TxOut(22) \o TxOut(38) \o <<C(1, 0)>> \o LB(32) \o <<F(4)>>
SpendTx == <<F(4), F(2), C(1, 0)>> \o TxIn(0) \o <<C(2, 0)>> \o TxOut(22) \o TxOut(25) \o <<C(2, 0)>> \o LB(72) \o LB(33) \o <<F(4)>>

\* A name with a trailing digit is a further valid instance of the same wire command: headers2 / block2 / cmpctblock2
\* carry block B2, whose parent B1 the node does not know unless the session announced it; getblocktxn1 / getblocktxn3
\* index blocks with one / four transactions (getblocktxn: two); cmpctblock3 is B1 with every transaction prefilled;
\* txo1 / txo2 are two orphan transactions (unknown input) crafted so that their BIP152 short ids collide under the
\* header and nonce of cmpctblock4, whose short id list holds exactly that id (the sender fixes the siphash key by
\* choosing the nonce and is free to grind transactions: a birthday search over ~2^24 txids).
AllCmds == <<"version", "verack", "addr", "inv", "getdata", "notfound", "getblocks", "getheaders", "headers", "headers2",
             "tx", "txo1", "txo2", "block", "block2", "cmpctblock", "cmpctblock2", "cmpctblock3", "cmpctblock4", "getblocktxn", "getblocktxn1", "getblocktxn3", "blocktxn", "blocktxn2", "idle", "peersfull", "Bblock", "Bheaders",
             "ping", "pong", "feefilter", "sendcmpct",
             "sendheaders", "getaddr", "getmp", "getmpdone", "xauth", "authack", "filterload", "unknown", "frame",
             \* block locators against a block tree with a dead side branch S1 - S2 that forks off below the active tip:
             \* S side tip, P side block that is not the tip, SA / AS side tip first / last in a mixed list, U unknown hash,
             \* T active tip, E / EA empty locator with the stop hash naming the side tip / an active block,
             \* XS / XU ordinary locator with the stop hash naming the side tip / an unknown block
             "getheadersS", "getheadersP", "getheadersSA", "getheadersAS", "getheadersU", "getheadersT", "getheadersE",
             "getheadersEA", "getheadersXS", "getheadersXU",
             "getblocksS", "getblocksP", "getblocksSA", "getblocksAS", "getblocksU", "getblocksT", "getblocksXS", "getblocksXU">>
CmdSet == {AllCmds[i] : i \in 1..Len(AllCmds)}
LocGH == [S |-> 1, P |-> 1, SA |-> 2, AS |-> 2, U |-> 1, T |-> 1, E |-> 0, EA |-> 0, XS |-> 2, XU |-> 2]   \* locator entries
GHVar == {"getheaders" \o v : v \in DOMAIN LocGH}
GBVar == {"getblocks" \o v : v \in DOMAIN LocGH \ {"E", "EA"}}
LocLen(c) == LET v == CHOOSE w \in DOMAIN LocGH : c \in {"getheaders" \o w, "getblocks" \o w} IN LocGH[v]
Wire(c) == CASE c \in GHVar -> "getheaders" [] c \in GBVar -> "getblocks" [] c = "headers2" -> "headers" [] c = "block2" -> "block" [] c \in {"cmpctblock2", "cmpctblock3", "cmpctblock4"} -> "cmpctblock"
             [] c \in {"txo1", "txo2"} -> "tx" [] c = "blocktxn2" -> "blocktxn"
             [] c \in {"getblocktxn1", "getblocktxn3"} -> "getblocktxn" [] OTHER -> c
Orphans == {"headers2", "block2", "cmpctblock2"}
\* blocktxn2 names a block this connection never heard of; idle is no message at all: the peer stays silent while the
\* node's own tick runs (the timers of tick.go: getheaders, getdata for announced blocks).
\* The environment acts (no bytes from this peer): idle; peersfull = the peers database has filled up to its limit;
\* Bblock / Bheaders = another peer, on its own connection, delivers block B1 / announces the headers of B1 and B2
\* (BlocksToGet and ReceivedBlocks are shared by all connections, GetBlockInProgress belongs to one).
Env == {"idle", "peersfull", "Bblock", "Bheaders"}
ContextOnly == {"txo2", "cmpctblock4", "blocktxn2"} \cup Env \cup GHVar \cup GBVar   \* same grammar as another instance: only the valid instance is of interest

Grammar(c) ==
  CASE c = "version" -> <<F(4), F(8), F(8), F(26), F(26), F(8)>> \o LB(15) \o <<F(4), F(1)>>
    [] c \in {"verack", "sendheaders", "getaddr"} -> << >>
    [] c = "addr" -> <<C(2, 30), F(30), F(30)>>
    [] c \in {"inv", "notfound"} -> <<C(2, 36), F(36), F(36)>>
    [] c = "getdata" -> <<C(3, 36), F(36), F(36), F(36)>>
    [] c \in {"getblocks", "getheaders"} -> <<F(4), C(2, 32), F(32), F(32), F(32)>>
    [] c = "headers" -> <<C(2, 81), F(81), F(81)>>
    [] c = "tx" -> SpendTx
    [] c = "block" -> <<F(80), C(2, 0)>> \o CoinbaseTx \o SpendTx
    [] c = "cmpctblock" -> <<F(80), F(8), C(1, 6), F(6), C(1, 0), V(0, 2)>> \o CoinbaseTx
    [] c = "cmpctblock4" -> <<F(80), F(8), C(1, 6), F(6), C(1, 0), V(0, 2)>> \o CoinbaseTx
    [] c = "cmpctblock3" -> <<F(80), F(8), C(0, 6), C(2, 0), V(0, 2)>> \o CoinbaseTx \o <<V(0, 2)>> \o SpendTx
    [] c \in {"txo1", "txo2"} -> <<F(4), C(1, 0)>> \o TxIn(0) \o <<C(1, 0)>> \o TxOut(22) \o <<F(4)>>
    [] c = "headers2" -> <<C(1, 81), F(81)>>
    [] c = "block2" -> <<F(80), C(1, 0)>> \o CoinbaseTx
    [] c = "cmpctblock2" -> <<F(80), F(8), C(0, 6), C(1, 0), V(0, 1)>> \o CoinbaseTx
    [] c = "getblocktxn" -> <<F(32), C(2, 0), V(0, 2), V(0, 2)>>
    [] c = "getblocktxn1" -> <<F(32), C(1, 0), V(0, 1)>>
    [] c = "getblocktxn3" -> <<F(32), C(3, 0), V(0, 4), V(1, 4), V(0, 4)>>       \* absolute 0, 2, 3
    [] c \in {"blocktxn", "blocktxn2"} -> <<F(32), C(1, 0)>> \o SpendTx
    [] c \in Env -> << >>
    [] c \in GHVar \cup GBVar -> <<F(4), C(LocLen(c), 32)>> \o [i \in 1..LocLen(c) |-> F(32)] \o <<F(32)>>
    [] c \in {"ping", "pong", "feefilter", "unknown", "frame"} -> <<F(8)>>
    [] c = "sendcmpct" -> <<F(1), F(8)>>
    [] c = "getmp" -> <<C(2, 8), F(8), F(8)>>
    [] c \in {"getmpdone", "authack"} -> <<F(1)>>
    [] c = "xauth" -> <<F(33), [k |-> "B", n |-> 71, e |-> 0], F(32), F(4)>>
    [] c = "filterload" -> <<F(11)>>

CntKinds == {"cnt-1", "cnt+1", "cntfd", "cntfe", "cntffmax", "cntffbig", "cntneg", "cntwrap"}
VecKinds == {"vec+1", "vec-1"}        \* the vector itself one element longer (the last one repeated) / shorter, count adjusted
LenKinds == {"lenover1", "lenfd", "lenfe", "lenff"}
ValKinds == {"val+1", "val+2", "val-1", "valfd", "valfe", "valff"}
\* for every CompactSize field, in the 9-byte form: 2^63-1-k (positive as int64; offset + value wraps), 2^63, 2^62
BigKinds == {"x63m0", "x63m1", "x63m8", "x63m80", "x63m89", "x63m100", "x63", "x62"}
FrameKinds == {"badmagic", "badsum", "oversize", "encflag", "encflag0", "lenover1", "cmdfull"}

Cls(c, k, f) == [cmd |-> c, k |-> k, f |-> f]
Idx(g, kinds) == {i \in 1..Len(g) : g[i].k \in kinds}

Classes(c) ==
  IF c = "frame" THEN {Cls(c, k, 0) : k \in FrameKinds}
  ELSE IF c \in ContextOnly THEN {Cls(c, "valid", 0)}
  ELSE LET g == Grammar(c) n == Len(g) IN
       {Cls(c, "valid", 0), Cls(c, "trail", 0)}
       \cup (IF n > 0 THEN {Cls(c, "empty", 0)} ELSE {})
       \cup (IF Idx(g, {"C", "L"}) # {} THEN {Cls(c, "min", 0)} ELSE {})
       \cup {Cls(c, "trunc", i) : i \in 1..(n - 1)}
       \cup {Cls(c, "into", i) : i \in {j \in Idx(g, {"B"}) : g[j].n >= 2}}
       \cup ({Cls(c, d, i) : i \in Idx(g, {"C"}), d \in CntKinds} \ {Cls(c, "cnt-1", i) : i \in {j \in Idx(g, {"C"}) : g[j].n = 0}})
       \cup {Cls(c, d, i) : i \in {j \in Idx(g, {"C"}) : g[j].n >= 1}, d \in VecKinds}
       \cup {Cls(c, d, i) : i \in Idx(g, {"L"}), d \in LenKinds}
       \cup {Cls(c, d, i) : i \in Idx(g, {"C", "L", "V"}), d \in BigKinds}
       \cup ({Cls(c, d, i) : i \in Idx(g, {"V"}), d \in ValKinds} \ {Cls(c, "val-1", i) : i \in {j \in Idx(g, {"V"}) : g[j].n = 0}})

FullAlphabet == UNION {Classes(c) : c \in CmdSet}
Alphabet == {x \in FullAlphabet : (CmdFilter = {} \/ x.cmd \in CmdFilter) /\ (KindFilter = {} \/ x.k \in KindFilter \/ x.k = "valid")}

\* ------------------------------------------------------------------ state
VARIABLES alive,   \* the connection is not (being) closed
          ver,     \* X.VersionReceived
          score,   \* misbehave
          cmpct,   \* Node.SendCmpctVer
          auth,    \* "no" | "got" (X.AuthMsgGot, not authorised) | "ok" (X.Authorized)
          addrd,   \* X.GetAddrDone
          ahr,     \* X.AllHeadersReceived
          bip,     \* a compact block collector of B1 waits for a blocktxn
          gd,      \* B1 is in progress on this connection without a collector: the node asked for it with a plain getdata
          h1,      \* header of B1: "no" | "b2g" (BlocksToGet) | "got" (ReceivedBlocks)
          h2,      \* header of B2 is in BlocksToGet
          mp,      \* tx1 is in the mempool
          pf,      \* environment: the peers database is at its size limit (MaxPeersInDB + MaxPeersDeviation records)
          o1, o2,  \* the orphan transactions txo1 / txo2 wait in the pool of rejected transactions (TransactionsRejected)
          npre, npost,
          held,    \* mutexes held after the last Recv returned
          order,   \* FALSE once MutexRcv was taken while c.Mutex was held
          out      \* outcome of the last Recv

vars == <<alive, ver, score, cmpct, auth, addrd, ahr, bip, gd, h1, h2, mp, pf, o1, o2, npre, npost, held, order, out>>

Locks == {"c", "net", "rcv", "tx", "last", "cnt", "idx", "peers", "cfg", "friends", "extip", "cblk", "cache"}
Outcomes == {"ok", "ignored", "penalised", "disconnected"}

\* ------------------------------------------------------------------ lock programs
\* ops: "+x" Lock, "-x" Unlock, "~x" Lock with a deferred Unlock, "!" panic (deferred unlocks still run), "." return,
\*      "#" the goroutine blocks for ever
OpSet == {t \o l : t \in {"+", "-", "~"}, l \in Locks} \cup {"!", ".", "#"}
Tok == [o \in OpSet |-> IF o \in {"!", ".", "#"} THEN <<o, "">>
                        ELSE CHOOSE p \in {"+", "-", "~"} \X Locks : (p[1] \o p[2]) = o]

RECURSIVE Exec(_, _, _, _, _)
Exec(ops, i, h, d, ord) ==      \* -> [held, order, panic]
  IF i > Len(ops) THEN [held |-> h \ d, order |-> ord, panic |-> FALSE]
  ELSE LET t == Tok[ops[i]][1] x == Tok[ops[i]][2] IN
       CASE t = "+" -> Exec(ops, i + 1, h \cup {x}, d, ord /\ ~(x = "rcv" /\ "c" \in h))
         [] t = "~" -> Exec(ops, i + 1, h \cup {x}, d \cup {x}, ord /\ ~(x = "rcv" /\ "c" \in h))
         [] t = "-" -> Exec(ops, i + 1, h \ {x}, d, ord)
         [] t = "!" -> [held |-> h \ d, order |-> ord, panic |-> TRUE]
         [] t = "." -> [held |-> h \ d, order |-> ord, panic |-> FALSE]
         [] t = "#" -> [held |-> h, order |-> ord, panic |-> FALSE]      \* stuck for ever (self-deadlock): nothing is released

Ban == <<"+cnt", "-cnt", "+c", "-c">>         \* DoS(), Misbehave(), Disconnect(): CountSafe + c.Mutex
Snd == <<"+c", "+cnt", "-cnt", "-c">>         \* SendRawMsg
P(ops, o) == [ops |-> ops, out |-> o]

\* success path of every handler (what a valid payload runs through)
WF(c) ==
  CASE c = "version" -> <<"+extip", "-extip", "+cfg", "-cfg", "+last", "-last">> \o Snd   \* SendVersion (incoming connection)
                        \o <<"+c", "-c", "+friends", "-friends", "+net", "-net", "+extip", "-extip">> \o Snd \o Snd \o Snd
    [] c = "inv" -> <<"+c", "-c", "+c", "-c", "+rcv", "-rcv", "+rcv", "+c", "-c", "-rcv", "+c", "-c", "+tx", "-tx">> \o Snd
    [] c = "tx" -> <<"+cfg", "-cfg", "+tx", "-tx">>
    [] c = "addr" -> <<"+peers", "-peers", "+peers", "-peers", "+cnt", "-cnt", "+c", "-c">>
    [] c = "block" -> <<"+rcv", "+c", "-c", "~idx", "-idx", "+c", "-c", "-rcv", "+c", "-c">>
    [] c = "getblocks" -> <<"+idx", "+last", "-last", "-idx">> \o Snd
    [] c = "getdata" -> <<"+c", "-c", "+c", "-c">> \o Snd \o <<"+c", "-c", "+tx", "-tx", "+c", "-c", "+cblk", "-cblk">> \o Snd
    [] c = "getaddr" -> <<"+peers", "-peers">> \o Snd
    [] c = "ping" -> Snd
    [] c = "pong" -> <<"+cnt", "-cnt">>
    [] c = "getheaders" -> <<"+rcv", "-rcv", "~idx">> \o Snd
    [] c = "notfound" -> <<"+cnt", "-cnt">>
    [] c = "headers" -> <<"+c", "-c", "~rcv", "+c", "-c", "~idx", "-idx", "+c", "-c", "+c", "-c">>
    [] c = "sendheaders" -> <<"+c", "-c">>
    [] c = "feefilter" -> << >>
    [] c = "sendcmpct" -> <<"+c", "-c">>
    [] c = "cmpctblock" -> <<"~rcv", "+c", "-c", "~idx", "-idx", "+c", "-c", "+tx", "-tx", "+c", "-c">> \o Snd
    [] c = "getblocktxn" -> <<"+cblk", "-cblk">> \o Snd
    [] c = "blocktxn" -> <<"~rcv", "+c", "-c", "+c", "-c">>
    [] c = "getmp" -> <<"+tx", "+c", "-c", "-tx">> \o Snd
    [] c = "xauth" -> <<"+friends", "-friends", "+last", "-last", "+cfg", "+idx", "-idx", "-cfg">> \o Snd
    [] c = "authack" -> << >>
    [] c = "getmpdone" -> << >>
    [] OTHER -> << >>

\* the other exits of a handler (malformed payload): every one releases what it took
ErrExits(c) ==
  CASE c = "version" -> {P(Ban, "disconnected"), P(<<"+c", "-c">> \o Ban, "disconnected"),
                         P(<<"+c", "-c", "+friends", "-friends">> \o Ban, "disconnected")}
    [] c \in {"inv", "getdata", "getblocks", "getheaders", "getblocktxn", "xauth", "getmp", "filterload"} ->
                         {P(Ban, "disconnected"), P(<<"+c", "-c">> \o Ban, "disconnected")}
    [] c = "tx" -> {P(Ban, "disconnected"), P(Ban, "penalised")}
    [] c = "addr" -> {P(<<"+peers", "-peers">> \o Ban, "disconnected"), P(<<"+peers", "-peers">> \o Ban, "penalised")}
    [] c = "block" -> {P(Ban, "disconnected"), P(<<"+rcv", "+c", "-c", "~idx">> \o Ban \o <<"-idx", "-rcv">>, "disconnected"),
                       P(<<"+rcv", "+c", "-c", "+idx", "-idx">> \o Ban \o <<"+idx", "-idx", "-rcv">>, "disconnected"),
                       P(<<"+rcv", "+c", "-c", "-rcv">>, "ok")}
    [] c = "headers" -> {P(<<"+c", "-c">>, "ok"), P(<<"+c", "-c">> \o Ban, "disconnected"),
                         P(<<"+c", "-c", "~rcv">> \o Ban, "disconnected"), P(<<"+c", "-c", "~rcv", "~idx">> \o Ban, "penalised")}
    [] c = "cmpctblock" -> {P(Ban, "disconnected"), P(<<"~rcv", "+c", "-c">> \o Ban, "disconnected"),
                            P(<<"~rcv", "+c", "-c", "+c", "-c">> \o Ban, "penalised"), P(<<"~rcv", "+c", "-c">>, "ok"),
                            P(<<"~rcv", "+c", "-c", "+tx", "-tx", "+idx", "-idx">>, "ok")}
    [] c = "blocktxn" -> {P(Ban, "disconnected"), P(<<"~rcv", "+c", "-c">> \o Ban, "penalised"),
                          P(<<"~rcv", "+c", "-c">> \o Ban, "disconnected"), P(<<"~rcv", "+c", "-c", "+idx", "-idx">>, "ok")}
    [] c = "sendcmpct" -> {P(<<"+cnt", "-cnt">>, "ok")}
    [] OTHER -> {}

\* defective paths of the implementation, named. Each is switched on by Defects.
DefectPaths(c) ==
     (IF c = "version" /\ "VersionAgentLen" \in Defects THEN {P(<<"+c", "!">>, "panic")} ELSE {})          \* ver.go: len(pl) < 80+le
  \cup (IF c = "inv" /\ "InvCountWrap" \in Defects THEN {P(<<"+c", "-c", "!">>, "panic")} ELSE {})          \* invs.go: of+36*cnt wraps
  \cup (IF c = "block" /\ "BlockTxCount" \in Defects THEN {P(<<"+rcv", "+c", "-c", "!">>, "panic")} ELSE {}) \* data.go: PostCheckBlock panics under MutexRcv.Lock() without defer
  \cup (IF c = "cmpctblock" /\ "CmpctSameSid" \in Defects THEN {P(<<"~rcv", "+c", "-c", "+tx", ".">>, "ok")} ELSE {}) \* cblk.go: return with TxMutex held
  \cup (IF c = "cmpctblock" /\ "CmpctPrefilledIdx" \in Defects THEN {P(<<"~rcv", "+c", "-c", "!">>, "panic")} ELSE {}) \* cblk.go: idx range-checked before "+= exp"
  \cup (IF c = "cmpctblock" /\ "CmpctTxSize" \in Defects THEN {P(<<"~rcv", "+c", "-c", "!">>, "panic")} ELSE {})
  \cup (IF c = "getheaders" /\ "GetHeadersRecoverReturn" \in Defects THEN {P(<<"+rcv", "-rcv", "+idx", ".">>, "ok")} ELSE {}) \* hdrs.go: the deferred function is what unlocks BlockIndexAccess
  \cup (IF c = "getblocktxn" /\ "GetBlockTxnIdx" \in Defects THEN {P(<<"+cblk", "-cblk", "!">>, "panic")} ELSE {})
  \cup (IF c = "blocktxn" /\ "BlkTxnNoColLock" \in Defects THEN {P(<<"~rcv", "+c", "#">>, "ok")} ELSE {})   \* Misbehave() called with c.Mutex still held
  \cup (IF c = "blocktxn" /\ "BlockTxnMissing" \in Defects THEN {P(<<"~rcv", "+c", "-c", "!">>, "panic")} ELSE {})

\* Run()'s own epilogue after the loop ended (c.Mutex, then MutexRcv inside it in the current code)
Teardown == IF "TeardownLockOrder" \in Defects THEN <<"+c", "+rcv", "-rcv", "-c", "+c", "-c">>
            ELSE <<"+rcv", "+c", "-c", "-rcv", "+c", "-c">>

\* ------------------------------------------------------------------ session
Init ==
  /\ alive = TRUE /\ ver = FALSE /\ score = 0 /\ cmpct = 0 /\ auth = "no" /\ addrd = FALSE /\ ahr = FALSE
  /\ bip = FALSE /\ gd = FALSE /\ h1 = "no" /\ h2 = FALSE /\ mp = FALSE /\ pf = FALSE /\ o1 = FALSE /\ o2 = FALSE /\ npre = 0 /\ npost = 0
  /\ held = {} /\ order = TRUE /\ out = "ok"

Same == UNCHANGED <<ver, cmpct, auth, addrd, ahr, bip, h1, h2, mp, o1, o2, gd, pf>>

\* applies a path: locks, outcome, score. pen = points added when the outcome is "penalised"
Apply(p, pen) ==
  LET r == Exec(p.ops, 1, {}, {}, TRUE)
      o == IF r.panic THEN "panic" ELSE p.out
      ns == IF o = "penalised" THEN score + pen ELSE score
      banned == ns >= BanScore
      dead == o \in {"disconnected", "panic"} \/ banned
      td == IF dead /\ ~r.panic THEN Exec(Teardown, 1, r.held, {}, r.order) ELSE r IN
  /\ held' = td.held
  /\ order' = (order /\ td.order)
  /\ out' = (IF o = "penalised" /\ banned THEN "disconnected" ELSE o)
  /\ score' = ns
  /\ alive' = ~dead

Count(x) == IF ver THEN npost' = npost + 1 /\ npre' = npre ELSE npre' = npre + 1 /\ npost' = npost
Budget == IF ver THEN npost < MaxPost ELSE npre < MaxPre

\* --- FetchMessage: the frame header
RecvFrame(x) ==
  /\ x.cmd = "frame"
  /\ Count(x) /\ Same
  /\ CASE x.k = "badmagic" -> Apply(P(<<"+c", "-c">> \o Ban, "disconnected"), 0)
       [] x.k = "oversize" -> Apply(P(<<"+c", "-c">> \o Ban, "disconnected"), 0)
       [] x.k = "badsum" -> IF ver THEN Apply(P(<<"+c", "-c">> \o Snd, "ok"), 0)     \* only the first message's checksum is verified
                            ELSE Apply(P(<<"+c", "-c">> \o Ban, "disconnected"), 0)
       [] x.k \in {"encflag", "encflag0"} ->                                           \* "encrypted" bit set
            IF "EncFlagNoKey" \in Defects /\ x.k = "encflag" /\ auth = "no"
            THEN Apply(P(<<"+c", "-c", "!">>, "panic"), 0)                              \* core.go: c.aesData.nonceSize with no key
            ELSE Apply(P(<<"+c", "-c">> \o Ban, "disconnected"), 0)
       [] x.k = "cmdfull" -> IF ver THEN Apply(P(<<"+c", "-c">>, "ignored"), 0) ELSE Apply(P(<<"+c", "-c">> \o Ban, "penalised"), 100)
       [] x.k = "lenover1" -> \E o \in {"ok", "disconnected", "penalised"} : Apply(P(<<"+c", "-c">>, o), 100)

\* --- before the version message everything else only costs points
RecvNoVer(x) ==
  /\ x.cmd \notin {"frame", "version"} \cup Env /\ ~ver
  /\ Count(x) /\ Same
  /\ Apply(P(<<"+c", "-c">> \o Ban, "penalised"), 100)

RecvVersionAgain(x) ==
  /\ x.cmd = "version" /\ ver
  /\ Count(x) /\ Same
  /\ Apply(P(<<"+c", "-c">> \o Ban, "penalised"), 100)

\* --- a valid payload: the handler's success path and its effect on the session
\* --- no message: OneConnection.Tick. With all headers received and B1 announced but not in progress it asks for the
\*     block with a plain getdata (GetBlockData); whether the timers allow that right now is not modelled.
RecvIdle(x) ==
  /\ x.cmd = "idle"
  /\ Count(x) /\ UNCHANGED <<ver, cmpct, auth, addrd, ahr, bip, h1, h2, mp, o1, o2, pf>>
  /\ \/ gd' = (gd \/ (ver /\ ahr /\ h1 = "b2g" /\ ~bip))
     \/ gd' = gd
  /\ Apply(P(<<"+c", "-c", "+c", "-c", "+rcv", "+c", "-c", "-rcv">> \o Snd, "ok"), 0)

RecvEnv(x) ==
  /\ x.cmd \in Env \ {"idle"}
  /\ Count(x) /\ UNCHANGED <<ver, cmpct, auth, addrd, ahr, bip, gd, mp, o1, o2>>
  /\ pf' = (pf \/ x.cmd = "peersfull")
  /\ h1' = (IF x.cmd = "Bblock" THEN "got" ELSE IF x.cmd = "Bheaders" /\ h1 = "no" THEN "b2g" ELSE h1)
  /\ h2' = (h2 \/ x.cmd = "Bheaders")
  /\ Apply(P(IF x.cmd = "peersfull" THEN <<"+peers", "-peers">> ELSE WF(IF x.cmd = "Bblock" THEN "block" ELSE "headers"), "ok"), 0)

RecvValid(x) ==
  /\ x.k = "valid" /\ x.cmd \notin {"frame"} \cup Env /\ (ver \/ x.cmd = "version") /\ ~(ver /\ x.cmd = "version")
  /\ Count(x)
  /\ LET c == x.cmd IN
     CASE c \in Orphans /\ h1 = "no" ->        \* the parent of B2 is unknown: the header does not connect (PH_STATUS_ERROR)
            /\ UNCHANGED <<ver, cmpct, auth, addrd, bip, h1, h2, mp, o1, o2, gd, pf>>
            /\ ahr' = (IF c = "headers2" THEN TRUE ELSE IF c = "cmpctblock2" THEN FALSE ELSE ahr)
            /\ IF c = "block2" THEN Apply(P(<<"+rcv", "+c", "-c", "+idx", "-idx", "-rcv">>, "ok"), 0)
               ELSE IF c = "headers2" THEN Apply(P(<<"+c", "-c", "~rcv", "~idx">> \o Ban, "penalised"), 50)
               ELSE Apply(P(<<"~rcv", "+c", "-c", "+c", "-c">> \o Ban, "penalised"), 50)
       [] c \in Orphans /\ h1 # "no" ->        \* B2 connects; what it does to the download bookkeeping is not modelled
            /\ Same
            /\ \E p \in ErrExits(Wire(c)) \cup {P(WF(Wire(c)), "ok")} : \E pen \in PenSet : Apply(p, pen)
       [] c = "version" -> /\ ver' = TRUE /\ UNCHANGED <<cmpct, auth, addrd, ahr, bip, h1, h2, mp, o1, o2, gd, pf>>
                           /\ Apply(P(WF(c), "ok"), 0)
       [] c = "sendcmpct" -> /\ cmpct' = (IF cmpct < 2 THEN 2 ELSE cmpct) /\ UNCHANGED <<ver, auth, addrd, ahr, bip, h1, h2, mp, o1, o2, gd, pf>>
                             /\ Apply(P(WF(c), "ok"), 0)
       [] c = "getaddr" -> /\ addrd' = TRUE /\ UNCHANGED <<ver, cmpct, auth, ahr, bip, h1, h2, mp, o1, o2, gd, pf>>
                           /\ IF addrd THEN Apply(P(<<"+c", "-c">> \o Ban, "penalised"), 50) ELSE Apply(P(WF(c), "ok"), 0)
       [] c = "xauth" -> /\ UNCHANGED <<ver, cmpct, addrd, ahr, bip, h1, h2, mp, o1, o2, gd, pf>>
                         /\ IF auth # "no" THEN auth' = auth /\ Apply(P(Ban, "disconnected"), 0)      \* one auth message per connection
                            ELSE auth' = "ok" /\ Apply(P(WF(c), "ok"), 0)
       [] c = "authack" -> /\ Same /\ Apply(P(<<"+c", "-c">>, "disconnected"), 0)                      \* unsigned authack ends Run()
       [] c = "filterload" -> /\ Same /\ Apply(P(Ban, "disconnected"), 0)
       [] c = "inv" -> /\ ahr' = FALSE /\ UNCHANGED <<ver, cmpct, auth, addrd, bip, h1, h2, mp, o1, o2, gd, pf>>   \* unknown block: ReceiveHeadersNow
                       /\ Apply(P(WF(c), "ok"), 0)
       [] c = "tx" -> /\ mp' = TRUE /\ UNCHANGED <<ver, cmpct, auth, addrd, ahr, bip, h1, h2, o1, o2, gd, pf>>
                      /\ Apply(P(WF(c), "ok"), 0)
       [] c = "headers" -> /\ UNCHANGED <<ver, cmpct, auth, addrd, bip, mp, o1, o2, gd, pf>>
                           /\ h1' = (IF h1 = "no" THEN "b2g" ELSE h1) /\ h2' = TRUE
                           /\ ahr' = (IF h1 # "no" /\ h2 THEN TRUE ELSE ahr)       \* no new header: AllHeadersReceived
                           /\ Apply(P(WF(c), "ok"), 0)
       [] c = "block" -> /\ UNCHANGED <<ver, cmpct, auth, addrd, ahr, h2, mp, o1, o2, pf>>
                         /\ h1' = "got" /\ bip' = FALSE /\ gd' = FALSE     \* netBlockReceived drops the entry of GetBlockInProgress
                         /\ Apply(P(WF(c), "ok"), 0)
       [] c = "cmpctblock" -> /\ UNCHANGED <<ver, cmpct, auth, addrd, ahr, h2, mp, o1, o2, pf>>
                              /\ IF h1 = "got" THEN h1' = h1 /\ bip' = bip /\ gd' = gd
                                 ELSE IF mp /\ cmpct = 2 THEN h1' = "got" /\ bip' = bip /\ gd' = gd   \* every transaction found by its (wtxid) short id: complete
                                 ELSE h1' = "b2g" /\ bip' = TRUE /\ gd' = FALSE    \* getblocktxn sent, the collector replaces a plain entry
                              /\ Apply(P(WF(c), "ok"), 0)
       [] c \in {"txo1", "txo2"} ->             \* input unknown: TX_REJECTED_NO_TXOU, kept while it waits for the input
            /\ UNCHANGED <<ver, cmpct, auth, addrd, ahr, bip, h1, h2, mp, gd, pf>>
            /\ o1' = (o1 \/ c = "txo1") /\ o2' = (o2 \/ c = "txo2")
            /\ Apply(P(WF("tx") \o Snd, "ok"), 0)
       [] c = "cmpctblock3" ->                  \* every transaction prefilled: the block is complete at once
            /\ UNCHANGED <<ver, cmpct, auth, addrd, ahr, bip, h2, mp, o1, o2, gd, pf>>
            /\ h1' = "got"
            /\ Apply(P(WF("cmpctblock"), "ok"), 0)
       [] c = "cmpctblock4" ->
            /\ UNCHANGED <<ver, cmpct, auth, addrd, ahr, h2, mp, o1, o2, pf>>
            /\ h1' = (IF h1 = "no" THEN "b2g" ELSE h1)
            /\ bip' = (IF h1 # "got" /\ ~o1 /\ ~o2 THEN TRUE ELSE bip)      \* nothing matches the short id: getblocktxn
            /\ gd' = (IF h1 # "got" /\ ~o1 /\ ~o2 THEN FALSE ELSE gd)
            /\ IF h1 # "got" /\ o1 /\ o2          \* both orphans match the one short id: "Same short ID - abort"
               THEN IF "CmpctSameSid" \in Defects THEN Apply(P(<<"~rcv", "+c", "-c", "+tx", ".">>, "ok"), 0)
                    ELSE Apply(P(<<"~rcv", "+c", "-c", "+tx", "-tx">>, "ok"), 0)
               ELSE Apply(P(WF("cmpctblock"), "ok"), 0)    \* one orphan matches: assembled, merkle root differs, dropped
       [] c = "blocktxn" -> /\ UNCHANGED <<ver, cmpct, auth, addrd, ahr, h2, mp, o1, o2, gd, pf>>
                            /\ IF bip THEN bip' = FALSE /\ h1' = (IF h1 = "got" THEN h1 ELSE "got") /\ Apply(P(WF(c), "ok"), 0)
                               ELSE /\ bip' = bip /\ h1' = h1       \* no entry (BlkTxnErrBip) or an entry without collector (BlkTxnNoCOL)
                                    /\ IF gd /\ "BlkTxnNoColLock" \in Defects THEN Apply(P(<<"~rcv", "+c", "#">>, "ok"), 0)
                                       ELSE Apply(P(<<"~rcv", "+c", "-c">> \o Ban, "penalised"), 100)
       [] c = "blocktxn2" -> /\ Same /\ Apply(P(<<"~rcv", "+c", "-c">> \o Ban, "penalised"), 100)
       [] c = "getmp" -> /\ Same /\ (IF auth = "ok" THEN Apply(P(WF(c), "ok"), 0) ELSE Apply(P(<< >>, "ignored"), 0))
       [] c \in {"verack", "unknown"} -> /\ Same /\ Apply(P(<< >>, "ignored"), 0)
       [] OTHER -> /\ Same /\ Apply(P(WF(Wire(c)), "ok"), 0)

\* --- a malformed payload after the handshake (or a malformed version message): any exit of the handler.
\*     The handler may also take it for good (trailing bytes, a tolerated truncation): then the session state may
\*     change as for the valid payload; the model keeps the state and the replay driver tolerates either.
RecvMalformed(x) ==
  /\ x.k # "valid" /\ x.cmd # "frame" /\ (ver \/ x.cmd = "version") /\ ~(ver /\ x.cmd = "version")
  /\ Count(x) /\ UNCHANGED <<cmpct, auth, addrd, ahr, bip, h1, h2, mp, o1, o2, gd, pf>>
  /\ \E p \in ErrExits(Wire(x.cmd)) \cup DefectPaths(Wire(x.cmd)) \cup {P(WF(Wire(x.cmd)), "ok")} :
        /\ \E pen \in PenSet : Apply(p, pen)
        /\ ver' = (IF x.cmd = "version" /\ p.out = "ok" THEN TRUE ELSE ver)

Recv(x) ==
  /\ alive /\ held = {} /\ Budget
  /\ \/ RecvFrame(x) \/ RecvNoVer(x) \/ RecvVersionAgain(x) \/ RecvIdle(x) \/ RecvEnv(x) \/ RecvValid(x) \/ RecvMalformed(x)

Next == \E x \in Alphabet : Recv(x)

Spec == Init /\ [][Next]_vars

\* ------------------------------------------------------------------ properties
TypeOK ==
  /\ alive \in BOOLEAN /\ ver \in BOOLEAN /\ score \in 0..(BanScore + 200) /\ cmpct \in 0..2
  /\ auth \in {"no", "got", "ok"} /\ addrd \in BOOLEAN /\ ahr \in BOOLEAN /\ bip \in BOOLEAN
  /\ h1 \in {"no", "b2g", "got"} /\ h2 \in BOOLEAN /\ mp \in BOOLEAN /\ o1 \in BOOLEAN /\ o2 \in BOOLEAN /\ gd \in BOOLEAN /\ pf \in BOOLEAN
  /\ held \subseteq Locks /\ order \in BOOLEAN /\ out \in Outcomes \cup {"panic"}

HandlerReturnsClean == held = {} /\ out \in Outcomes
LockOrder == order
BannedIsDead == score >= BanScore => ~alive
CollectorNeedsHeader == (bip \/ gd) => h1 # "no"
OneEntryPerBlock == ~(bip /\ gd)
=============================================================================
