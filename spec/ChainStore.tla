----------------------------- MODULE ChainStore -----------------------------
(***************************************************************************)
(* The data directory of a node and what a restart makes of it (C07).      *)
(*                                                                         *)
(* Volatile state: everything of Ledger (block tree, tip, UTXO set) plus   *)
(* the queue of blocks not yet written and the state of the snapshot       *)
(* saver / file writers.  Persistent state: the block index file (records  *)
(* with an invalid flag), block data, UTXO.db, UTXO.old, <hash>.db.tmp     *)
(* files, undo/<height> files.  Every file-system effect is its own        *)
(* action, named after the hook point that follows it in the code, so a    *)
(* Crash can strike between any two.  Recover transcribes NewUnspentDb +   *)
(* LoadBlockIndex + loadBlockIndex + NewChainExt.                          *)
(***************************************************************************)
EXTENDS LedgerMC

CONSTANTS MaxSaves, MaxCrashes

None == 0 - 1      \* "no such file"

VARIABLES
    queue,      \* blocks handed to the block store and not yet written (FIFO)
    datW,       \* blocks whose data is in the data file
    idxF,       \* block index file: sequence of [b, inv]
    dbF,        \* UTXO.db : block id of the snapshot, or None
    oldF,       \* UTXO.old
    tmpF,       \* set of block ids with a <hash>.db.tmp file present
    saver,      \* [pc, blk] : pc in "idle", "started", "writing"
    writers,    \* set of [blk, file, fin] : file = tmp file created; fin in "no" (draining), "ok" (complete: rename pending), "abort" (remove pending)
    crashed,    \* the process is dead
    nSaves, nCrashes,
    panicked,   \* the last Recover ended in a panic ("" or the reason)
    wpc         \* block writer: 0 = between blocks, b = data of block b written, index record pending

cvars == <<queue, datW, idxF, dbF, oldF, tmpF, saver, writers, crashed, nSaves, nCrashes, panicked, wpc>>
allvars == <<vars, cvars>>

Idle0 == [pc |-> "idle", blk |-> None]

CInit ==
    /\ Init
    /\ queue = <<>> /\ datW = {} /\ idxF = <<>>
    /\ dbF = 0 /\ oldF = None /\ tmpF = {}
    /\ saver = Idle0 /\ writers = {}
    /\ crashed = FALSE /\ nSaves = 0 /\ nCrashes = 0 /\ panicked = "" /\ wpc = 0

SeqMinus(s, S) == SelectSeq(s, LAMBDA x : x \notin S)
MarkInv(f, S) == [i \in 1..Len(f) |-> IF f[i].b \in S THEN [f[i] EXCEPT !.inv = TRUE] ELSE f[i]]

\* abortWriting(): the saver goroutine runs to its next poll point and exits with abort = true; its writer
\* goroutine (spawned right after the UTXO.db -> UTXO.old rename) will remove the tmp file later
AbortSave ==
    IF saver.pc = "idle" THEN /\ UNCHANGED <<saver, writers>>
    ELSE /\ saver' = Idle0
         /\ writers' = {IF w.blk = saver.blk /\ w.fin = "no" THEN [w EXCEPT !.fin = "abort"] ELSE w : w \in writers}

\* AcceptBlock: the memory effects are Ledger's Deliver; disk effects inside it: undo files (height-keyed),
\* invalid flags of the failing block and its descendants
CSDeliver(b) ==
    /\ ~crashed /\ wpc = 0
    /\ Deliver(b)
    \* CommitBlockTxs / UndoBlockTxs abort a running save; a refused or merely stored block does not touch it
    /\ IF tip' # tip \/ (Parent(b) # tip /\ Parent(b) \in known \cup {0} /\ CtxFreeViol(b) = {} /\ Work(b) > Work(tip))
       THEN saver.pc \in {"idle", "writing"} /\ AbortSave    \* save() always reaches its writer spawn before it can see an abort
       ELSE UNCHANGED <<saver, writers>>
    /\ LET stored == IF b \in known' THEN <<b>> ELSE <<>>
           lost == known \ known'                       \* deleted from the tree by a failed reorganisation
           \* BlockInvalid for the failing block and every descendant: a queued one is forgotten, a written one flagged
           failing == lost \cup ({b} \ known')
       IN /\ queue' = SeqMinus(queue \o stored, failing)
          /\ idxF' = MarkInv(idxF, failing)
    /\ UNCHANGED <<datW, dbF, oldF, tmpF, crashed, nSaves, nCrashes, panicked, wpc>>

\* writeOne(): data first, then the index record
BlkDataWritten ==
    /\ ~crashed /\ wpc = 0 /\ queue # <<>>
    /\ datW' = datW \cup {Head(queue)} /\ wpc' = Head(queue)
    /\ UNCHANGED <<vars, queue, idxF, dbF, oldF, tmpF, saver, writers, crashed, nSaves, nCrashes, panicked>>
BlkIndexWritten ==
    /\ ~crashed /\ wpc # 0
    /\ idxF' = Append(idxF, [b |-> wpc, inv |-> FALSE]) /\ queue' = Tail(queue) /\ wpc' = 0
    /\ UNCHANGED <<vars, datW, dbF, oldF, tmpF, saver, writers, crashed, nSaves, nCrashes, panicked>>

\* Unspent.Idle()/Save(): only after the blocks were flushed (Chain.Idle calls Blocks.Idle first)
SaveStart ==
    /\ ~crashed /\ wpc = 0 /\ queue = <<>> /\ saver.pc = "idle" /\ nSaves < MaxSaves
    /\ dbF # tip /\ ~\E w \in writers : w.blk = tip /\ w.fin = "ok"     \* DirtyDB
    /\ saver' = [pc |-> "started", blk |-> tip] /\ nSaves' = nSaves + 1
    /\ UNCHANGED <<vars, queue, datW, idxF, dbF, oldF, tmpF, writers, crashed, nCrashes, panicked, wpc>>
SaveDbToOld ==      \* os.Rename(UTXO.db, UTXO.old), then the writer goroutine is spawned
    /\ ~crashed /\ saver.pc = "started"
    /\ IF dbF # None THEN oldF' = dbF /\ dbF' = None ELSE UNCHANGED <<oldF, dbF>>
    /\ saver' = [saver EXCEPT !.pc = "writing"]
    /\ writers' = writers \cup {[blk |-> saver.blk, file |-> FALSE, fin |-> "no"]}
    /\ UNCHANGED <<vars, queue, datW, idxF, tmpF, crashed, nSaves, nCrashes, panicked, wpc>>
WriterCreated ==    \* os.Create(<hash>.db.tmp) - concurrent with the saver
    /\ ~crashed /\ \E w \in writers : /\ ~w.file
                                      /\ tmpF' = tmpF \cup {w.blk}
                                      /\ writers' = (writers \ {w}) \cup {[w EXCEPT !.file = TRUE]}
    /\ UNCHANGED <<vars, queue, datW, idxF, dbF, oldF, saver, crashed, nSaves, nCrashes, panicked, wpc>>
SaveDone ==       \* all records handed over, exit_channel <- false, WritingInProgress cleared
    /\ ~crashed /\ saver.pc = "writing"
    /\ writers' = {IF w.blk = saver.blk /\ w.fin = "no" THEN [w EXCEPT !.fin = "ok"] ELSE w : w \in writers}
    /\ saver' = Idle0
    /\ UNCHANGED <<vars, queue, datW, idxF, dbF, oldF, tmpF, crashed, nSaves, nCrashes, panicked, wpc>>
SaverAborted ==   \* the saver saw abortwritingnow at a poll point: exit_channel <- true (first half of a commit / undo)
    /\ ~crashed /\ saver.pc = "writing"
    /\ AbortSave
    /\ UNCHANGED <<vars, queue, datW, idxF, dbF, oldF, tmpF, crashed, nSaves, nCrashes, panicked, wpc>>
WriterRenamed ==  \* os.Rename(tmp, UTXO.db) of a complete file
    /\ ~crashed /\ \E w \in writers : /\ w.file /\ w.fin = "ok"
                                      /\ dbF' = w.blk /\ tmpF' = tmpF \ {w.blk} /\ writers' = writers \ {w}
    /\ UNCHANGED <<vars, queue, datW, idxF, oldF, saver, crashed, nSaves, nCrashes, panicked, wpc>>
WriterRemoved ==  \* os.Remove(tmp) after an abort
    /\ ~crashed /\ \E w \in writers : /\ w.file /\ w.fin = "abort"
                                      /\ tmpF' = tmpF \ {w.blk} /\ writers' = writers \ {w}
    /\ UNCHANGED <<vars, queue, datW, idxF, dbF, oldF, saver, crashed, nSaves, nCrashes, panicked, wpc>>

Crash ==
    /\ ~crashed /\ nCrashes < MaxCrashes
    /\ crashed' = TRUE /\ nCrashes' = nCrashes + 1
    /\ queue' = <<>> /\ saver' = Idle0 /\ writers' = {} /\ wpc' = 0
    /\ UNCHANGED <<vars, datW, idxF, dbF, oldF, tmpF, nSaves, panicked>>

----------------------------------------------------------------------------
(* Recover *)

\* blocks of the index file that end up in the tree: not flagged invalid, data present, parent in the tree
RECURSIVE TreeFrom(_, _)
TreeFrom(cands, acc) ==
    LET nxt == {b \in cands : Parent(b) \in acc \cup {0}} IN
    IF nxt = {} THEN acc ELSE TreeFrom(cands \ nxt, acc \cup nxt)

IndexOrderKids(kn) ==   \* children in index-file order (the code's order comes from a map iteration: see TieNote)
    [p \in Blocks \cup {0} |-> SelectSeq([i \in 1..Len(idxF) |-> idxF[i].b], LAMBDA x : x \in kn /\ Parent(x) = p /\ ~\E j \in 1..Len(idxF) : idxF[j].b = x /\ idxF[j].inv)]

Recover ==
    /\ crashed
    /\ LET snapRaw == IF dbF # None THEN dbF ELSE IF oldF # None THEN oldF ELSE 0
           cands == {idxF[i].b : i \in {j \in 1..Len(idxF) : ~idxF[j].inv}}
           kn == TreeFrom(cands, {})
           kd == IndexOrderKids(kn)
           far == Farthest(0, kd)[1]
       IN IF snapRaw # 0 /\ snapRaw \notin kn
          THEN /\ panicked' = "last block hash not found"
               /\ UNCHANGED <<known, kids, tip, utxo, undo, idxF>>
          ELSE LET u0 == Replay(ChainTo(snapRaw), BaseUtxo, TRUE).u IN
               IF HeightOf(far) > HeightOf(snapRaw) /\ ~IsAncestor(snapRaw, far)
               THEN /\ panicked' = "unknown path to block"
                    /\ UNCHANGED <<known, kids, tip, utxo, undo, idxF>>
               ELSE LET st0 == [known |-> kn, kids |-> kd, tip |-> snapRaw, utxo |-> u0, undo |-> undo, failed |-> <<>>, conn |-> <<>>, fviol |-> {}]
                        full == ChainTo(far)
                        path == IF HeightOf(far) > HeightOf(snapRaw)
                                THEN SubSeq(full, Len(ChainTo(snapRaw)) + 1, Len(full)) ELSE <<>>
                        st1 == ParseTill(st0, path, far)
                    IN /\ known' = st1.known /\ kids' = st1.kids /\ tip' = st1.tip /\ utxo' = st1.utxo /\ undo' = st1.undo
                       /\ idxF' = MarkInv(idxF, Range(st1.failed))
                       /\ panicked' = ""
    /\ crashed' = (panicked' # "") /\ tmpF' = {}      \* a restart that panics leaves no running node
    /\ nDeliv' = nDeliv /\ balOn' = balOn /\ flushed' = known' /\ last' = [accepted |-> FALSE, later |-> FALSE, viol |-> {}]
    /\ UNCHANGED <<queue, datW, dbF, oldF, saver, writers, nSaves, nCrashes, wpc>>

CNext ==
    \/ \E b \in Blocks : CSDeliver(b)
    \/ BlkDataWritten \/ BlkIndexWritten
    \/ SaveStart \/ SaveDbToOld \/ WriterCreated \/ SaveDone \/ SaverAborted \/ WriterRenamed \/ WriterRemoved
    \/ Crash \/ Recover

CSpec == CInit /\ [][CNext]_allvars

----------------------------------------------------------------------------
(* Properties (C07) *)

\* KNOWN FINDING: the snapshot names a block of a branch that has since lost a reorganisation, the winning
\* branch's blocks are on disk, the process dies before the next snapshot: NewChainExt only walks FORWARD
\* from the snapshot's block (ParseTillBlock/FindPathTo) and panics "unknown path to block".
KF_SnapshotOffBranch == panicked = "unknown path to block"

\* reopening never needs manual repair
RecoverNeverPanics == panicked = "" \/ KF_SnapshotOffBranch
RecoverNeverPanicsStrict == panicked = ""

\* after a successful restart: the tip is a valid chain and the UTXO set is its replay
RecoveredStateConsistent == (~crashed /\ panicked = "") => (UtxoIsReplay /\ TreeOK)

\* a visible snapshot always names a block whose data and index record are on disk
SnapshotBlockOnDisk ==
    \A s \in {dbF, oldF} \ {None, 0} : s \in datW /\ \E i \in 1..Len(idxF) : idxF[i].b = s /\ ~idxF[i].inv

\* data before index: every index record has its data
IndexImpliesData == \A i \in 1..Len(idxF) : idxF[i].b \in datW

\* there is always a snapshot to start from
SomeSnapshotExists == dbF # None \/ oldF # None

\* a clean shutdown (everything flushed, snapshot of the tip renamed) followed by a restart is the identity
CleanRestartIsIdentityStep ==
    (crashed /\ ~crashed' /\ dbF = tip /\ panicked' = "") => (tip' = tip /\ utxo' = utxo)
CleanRestartIsIdentity == [][CleanRestartIsIdentityStep]_allvars
=============================================================================
