------------------------------- MODULE Ledger -------------------------------
(***************************************************************************)
(* lib/chain (AcceptBlock, CommitBlock, commitTxs, MoveToBlock,            *)
(* UndoLastBlock, ParseTillBlock, DeleteBranch, FindFarthestNode, MorePOW) *)
(* + lib/utxo (CommitBlockTxs, UndoBlockTxs) + client/wallet balances.     *)
(*                                                                         *)
(* The block tree and block contents are constants of a scenario (BlkDef,  *)
(* TxDef); the order in which blocks are delivered is free.  The           *)
(* algorithmic part models what the code does (side blocks are stored      *)
(* unvalidated, first seen wins ties, undo data keyed by height, a failed  *)
(* reorganisation deletes the failing block with its descendants and       *)
(* moves to the farthest remaining node).  The validity part              *)
(* (RuleViolations) states what Bitcoin requires (C04), rule by rule.      *)
(*                                                                         *)
(* The base chain (heights 1..BaseH, one 50 BTC coinbase each, tx id =     *)
(* height) exists before the behaviour starts; block id 0 is its tip.      *)
(***************************************************************************)
EXTENDS Amt, FiniteSets, TLC

CONSTANTS
    BaseH,      \* height of the base chain's tip (block id 0)
    Blocks,     \* set of deliverable block ids (naturals >= 1)
    BlkDef,     \* [Blocks -> [parent, txs : Seq(tx id), cb : Amt (total of the coinbase outputs), cbouts: Seq([amt, addr, st])]]
    TxDef,      \* [tx id -> [ins : Seq([tx, vout, ok, rl]), outs : Seq([amt, addr, st]), ver, sops]]
    MaxDeliver, \* bound on the number of Deliver steps
    CheckMoney, \* TRUE: the money-range rule is part of validity (FALSE models the code before the fix)
    CheckBIP68, \* TRUE: BIP68 relative lock-times are part of validity
    AllowBal,   \* TRUE: the balance index may be switched off and on between deliveries (C17)
    AllowIdle   \* TRUE: Chain.Idle() calls are interleaved with the deliveries

Maturity == 100
SigopLimit == 80000
CbTx(b) == 100000 + b          \* tx id of block b's coinbase
IsBaseCb(t) == t >= 1 /\ t <= BaseH
IsBlkCb(t) == t > 100000

VARIABLES
    known,      \* blocks in the block tree (besides the base chain)
    kids,       \* [block id (0 or known) -> sequence of children in arrival order]
    tip,        \* active tip: 0 or a known block
    utxo,       \* set of [tx, vout, h] : unspent outputs, h = height of the block that included tx
    undo,       \* [height -> set of utxo entries spent by the block connected at that height] (undo/<height> files)
    nDeliv,     \* number of Deliver steps so far
    balOn,      \* 0: the balance index is off; k > 0: it is on with dust limit BalLimit[k] (AllBalances.MinValue)
    flushed,    \* blocks written to the block files by Chain.Idle.  The block store keeps its record of such a block
                \* until the next restart even when the branch is deleted (it is only flagged invalid on disk: kept here as -b),
                \* so a node that saw a flushed block fail is not in the same state as one that never saw it
    last        \* outcome of the last step (observation): [accepted, refusedLater, viol]

BalLimit == <<100000, 0>>     \* satoshi; 0: every output is indexed, zero-value ones included

vars == <<known, kids, tip, utxo, undo, nDeliv, balOn, flushed, last>>

Range(s) == {s[i] : i \in 1..Len(s)}

----------------------------------------------------------------------------
(* tree helpers *)

Parent(b) == BlkDef[b].parent
RECURSIVE HeightOf(_)
HeightOf(b) == IF b = 0 THEN BaseH ELSE 1 + HeightOf(Parent(b))
\* proof of work of one block in units of the minimum difficulty (1 unless the scenario says otherwise: blocks
\* after a retarget), and the cumulative work of a chain above the base tip (+ BaseH so that it compares like a height)
BlkWork(b) == IF "work" \in DOMAIN BlkDef[b] /\ BlkDef[b].work > 0 THEN BlkDef[b].work ELSE 1
RECURSIVE Work(_)
Work(b) == IF b = 0 THEN BaseH ELSE BlkWork(b) + Work(Parent(b))

RECURSIVE ChainTo(_)                   \* blocks above the base tip, bottom up
ChainTo(b) == IF b = 0 THEN <<>> ELSE Append(ChainTo(Parent(b)), b)

RECURSIVE IsAncestor(_, _)             \* a is b or an ancestor of b
IsAncestor(a, b) == IF a = b THEN TRUE ELSE IF b = 0 THEN FALSE ELSE IsAncestor(a, Parent(b))

RECURSIVE ForkPoint(_, _)
ForkPoint(a, b) == IF IsAncestor(a, b) THEN a ELSE ForkPoint(Parent(a), b)

Descendants(b, kn) == {d \in kn : IsAncestor(b, d)}

\* FindFarthestNode: depth-first over children in arrival order, strictly greater work replaces
RECURSIVE Farthest(_, _)
Farthest(n, kd) ==     \* returns <<node, work below n>>
    IF kd[n] = <<>> THEN <<n, 0>>
    ELSE LET F[i \in 1..Len(kd[n])] ==
                 LET r == Farthest(kd[n][i], kd) IN
                 IF i = 1 THEN r
                 ELSE IF r[2] > F[i - 1][2] THEN r ELSE F[i - 1]
             best == F[Len(kd[n])]
         IN <<best[1], best[2] + (IF n = 0 THEN 1 ELSE BlkWork(n))>>

----------------------------------------------------------------------------
(* outputs and amounts *)

OutsOf(t, b) == IF IsBlkCb(t) THEN BlkDef[t - 100000].cbouts
                ELSE IF IsBaseCb(t) THEN <<[amt |-> A(50, 0), addr |-> 0, st |-> 1]>>
                ELSE TxDef[t].outs
OutOf(e) == OutsOf(e.tx, 0)[e.vout]
IsCb(t) == IsBlkCb(t) \/ IsBaseCb(t)

Entries(t, h) == {[tx |-> t, vout |-> v, h |-> h] : v \in 1..Len(OutsOf(t, 0))}

----------------------------------------------------------------------------
(* C04: what a block must satisfy to be connected on top of view `u` at height `h` *)

\* signature-operation cost an input adds when it spends output o (BIP 141): the redeem script of a P2SH output
\* counts 4 per operation, a witness script 1 per operation, a P2WPKH spend 1
\* (types 9/10/11: P2SH / P2WSH / P2SH-wrapped P2WSH whose script holds addr x OP_CHECKSIG in a branch that is never executed)
InSops(o) == IF o.st = 9 THEN 4 * o.addr ELSE IF o.st \in {10, 11} THEN o.addr ELSE IF o.st = 5 THEN 1 ELSE 0

\* process the inputs of tx t against view u; returns [u, viol, insum, known, sops]
RECURSIVE SpendIns(_, _, _, _, _)
SpendIns(ins, i, u, h, acc) ==
    IF i > Len(ins) THEN [u |-> u, viol |-> acc.viol, insum |-> acc.insum, allknown |-> acc.allknown, sops |-> acc.sops]
    ELSE LET in == ins[i]
             cand == {e \in u : e.tx = in.tx /\ e.vout = in.vout}
         IN IF cand = {}
            THEN SpendIns(ins, i + 1, u, h, [acc EXCEPT !.viol = @ \cup {"missing"}, !.allknown = FALSE])
            ELSE LET e == CHOOSE x \in cand : TRUE
                     v1 == IF IsCb(e.tx) /\ h - e.h < Maturity THEN {"immature"} ELSE {}
                     v2 == IF ~in.ok THEN {"script"} ELSE {}
                     v3 == IF CheckBIP68 /\ in.rl > 0 /\ e.h + in.rl > h THEN {"bip68"} ELSE {}
                 IN SpendIns(ins, i + 1, u \ {e}, h,
                             [acc EXCEPT !.viol = @ \cup v1 \cup v2 \cup v3, !.insum = AmtAdd(@, OutOf(e).amt),
                                         !.sops = @ + InSops(OutOf(e))])

\* fold over the transactions of a block; st = [u, viol, fees, sops, feesKnown]
RECURSIVE ApplyTxs(_, _, _, _)
ApplyTxs(txs, i, h, st) ==
    IF i > Len(txs) THEN st
    ELSE LET t == txs[i]
             d == TxDef[t]
             r == SpendIns(d.ins, 1, st.u, h, [viol |-> {}, insum |-> Zero, allknown |-> TRUE, sops |-> 0])
             outsum == AmtSumSeq([k \in 1..Len(d.outs) |-> d.outs[k].amt])
             vr == IF CheckMoney /\ (~InRange(outsum) \/ \E k \in 1..Len(d.outs) : ~InRange(d.outs[k].amt)) THEN {"range"} ELSE {}
             vo == IF r.allknown /\ AmtLT(r.insum, outsum) THEN {"overspend"} ELSE {}
             feeOK == r.allknown /\ ~AmtLT(r.insum, outsum)
         IN ApplyTxs(txs, i + 1, h,
                     [u |-> r.u \cup Entries(t, h),
                      viol |-> st.viol \cup r.viol \cup vr \cup vo,
                      fees |-> IF feeOK /\ st.feesKnown THEN AmtAdd(st.fees, AmtSub(r.insum, outsum)) ELSE st.fees,
                      feesKnown |-> st.feesKnown /\ feeOK,
                      sops |-> st.sops + d.sops + r.sops])

\* result of trying to connect block b on view u at height h: [viol, u (the view after the block), spent]
Connect(b, u, h) ==
    LET bd == BlkDef[b]
        r == ApplyTxs(bd.txs, 1, h, [u |-> u, viol |-> {}, fees |-> Zero, feesKnown |-> TRUE, sops |-> 0])
        cbsum == AmtSumSeq([k \in 1..Len(bd.cbouts) |-> bd.cbouts[k].amt])
        vc == IF r.feesKnown /\ AmtLT(AmtAdd(Subsidy(h), r.fees), cbsum) THEN {"claim"} ELSE {}
        vcr == IF CheckMoney /\ ~InRange(cbsum) THEN {"range"} ELSE {}
        cbsops == LET F[k \in 0..Len(bd.cbouts)] == IF k = 0 THEN 0
                                                      ELSE F[k - 1] + (IF bd.cbouts[k].st \in {7, 8} THEN 4 * bd.cbouts[k].addr ELSE 0)
                  IN F[Len(bd.cbouts)]      \* the coinbase's output scripts count too (types 7/8: addr x OP_CHECKSIG)
        vs == IF r.sops + cbsops > SigopLimit THEN {"sigops"} ELSE {}
        viol == r.viol \cup vc \cup vcr \cup vs
        after == r.u \cup Entries(CbTx(b), h)
    IN [viol |-> viol, u |-> after, spent |-> u \ r.u]

\* rules that do not depend on the chain state (Core's CheckTransaction): money range of every output and
\* of every transaction's output total
TxRangeBad(outs) == \/ \E k \in 1..Len(outs) : ~InRange(outs[k].amt)
                    \/ ~InRange(AmtSumSeq([k \in 1..Len(outs) |-> outs[k].amt]))
CtxFreeViol(b) ==
    IF CheckMoney /\ (TxRangeBad(BlkDef[b].cbouts) \/ \E i \in 1..Len(BlkDef[b].txs) : TxRangeBad(TxDef[BlkDef[b].txs[i]].outs))
    THEN {"range"} ELSE {}

----------------------------------------------------------------------------
Init ==
    /\ known = {}
    /\ kids = [b \in Blocks \cup {0} |-> <<>>]
    /\ tip = 0
    /\ utxo = UNION {Entries(t, t) : t \in 1..BaseH}
    /\ undo = [h \in {} |-> {}]
    /\ nDeliv = 0
    /\ balOn = 1
    /\ flushed = {}
    /\ last = [accepted |-> FALSE, later |-> FALSE, viol |-> {}]

RemoveKid(kd, p, c) == [kd EXCEPT ![p] = SelectSeq(@, LAMBDA x : x # c)]

\* UndoLastBlock, repeated down to the fork point: st = [tip, utxo]
RECURSIVE UndoTo(_, _)
UndoTo(st, fork) ==
    IF st.tip = fork THEN st
    ELSE LET h == HeightOf(st.tip)
             created == {e \in st.utxo : e.tx \in Range(BlkDef[st.tip].txs) \cup {CbTx(st.tip)}}
         IN UndoTo([tip |-> Parent(st.tip), utxo |-> (st.utxo \ created) \cup st.undo[h], undo |-> st.undo], fork)

\* MoveToBlock(dst): undo to the fork point, then ParseTillBlock(dst).
\* st = [known, kids, tip, utxo, undo]
RECURSIVE MoveTo(_, _), ParseTill(_, _, _)
ParseTill(st, path, dst) ==     \* path = blocks still to connect, bottom up
    IF path = <<>> THEN st
    ELSE LET b == Head(path)
             h == HeightOf(b)
             r == Connect(b, st.utxo, h)
         IN IF r.viol = {}
            THEN ParseTill([st EXCEPT !.tip = b, !.utxo = r.u, !.undo = (h :> r.spent) @@ @, !.conn = Append(@, b)], Tail(path), dst)
            ELSE \* DeleteBranch(b), then move to the farthest remaining node
                 LET dead == Descendants(b, st.known)
                     kn == st.known \ dead
                     kd == [p \in DOMAIN st.kids |-> IF p \in dead THEN <<>> ELSE SelectSeq(st.kids[p], LAMBDA x : x \notin dead)]
                     st2 == [st EXCEPT !.known = kn, !.kids = kd, !.failed = Append(@, b), !.fviol = @ \cup r.viol]
                     far == Farthest(0, kd)[1]
                 IN IF far = st2.tip THEN st2 ELSE MoveTo(st2, far)

MoveTo(st, dst) ==
    LET fork == ForkPoint(st.tip, dst)
        un == UndoTo([tip |-> st.tip, utxo |-> st.utxo, undo |-> st.undo], fork)
        st2 == [st EXCEPT !.tip = un.tip, !.utxo = un.utxo]
        full == ChainTo(dst)
        path == SubSeq(full, Len(ChainTo(fork)) + 1, Len(full))
    IN ParseTill(st2, path, dst)

Cur == [known |-> known, kids |-> kids, tip |-> tip, utxo |-> utxo, undo |-> undo, failed |-> <<>>, conn |-> <<>>, fviol |-> {}]

Deliver(b) ==
    /\ b \notin known
    /\ nDeliv < MaxDeliver
    /\ nDeliv' = nDeliv + 1
    /\ UNCHANGED balOn
    /\ LET p == Parent(b) IN
       IF p # 0 /\ p \notin known
       THEN \* PreCheckBlock: parent not found - "maybe later"; nothing changes
            /\ last' = [accepted |-> FALSE, later |-> TRUE, viol |-> {}]
            /\ UNCHANGED <<known, kids, tip, utxo, undo>>
       ELSE IF CtxFreeViol(b) # {}
       THEN \* PostCheckBlock / CheckTransactions: context-free rules are checked before anything is stored
            /\ last' = [accepted |-> FALSE, later |-> FALSE, viol |-> CtxFreeViol(b)]
            /\ UNCHANGED <<known, kids, tip, utxo, undo>>
       ELSE IF p = tip
       THEN LET h == HeightOf(b)
                r == Connect(b, utxo, h)
            IN IF r.viol = {}
               THEN /\ known' = known \cup {b}
                    /\ kids' = [kids EXCEPT ![p] = Append(@, b)]
                    /\ tip' = b /\ utxo' = r.u
                    /\ undo' = (h :> r.spent) @@ undo
                    /\ last' = [accepted |-> TRUE, later |-> FALSE, viol |-> {}]
               ELSE /\ last' = [accepted |-> FALSE, later |-> FALSE, viol |-> r.viol]
                    /\ UNCHANGED <<known, kids, tip, utxo, undo>>
       ELSE \* side block: stored unvalidated; reorganise if it has strictly more work
            LET st0 == [Cur EXCEPT !.known = known \cup {b}, !.kids = [kids EXCEPT ![p] = Append(@, b)]]
                st1 == IF Work(b) > Work(tip) THEN MoveTo(st0, b) ELSE st0
            IN /\ known' = st1.known /\ kids' = st1.kids /\ tip' = st1.tip
               /\ utxo' = st1.utxo /\ undo' = st1.undo
               /\ last' = [accepted |-> (st1.tip = b) \/ (b \in st1.known /\ Work(b) <= Work(tip)),
                           later |-> FALSE, viol |-> st1.fviol]   \* rules broken by the blocks a failed reorganisation ran into
    /\ flushed' = {x \in flushed : x < 0 \/ x \in known'} \cup {-x : x \in {y \in flushed : y > 0 /\ y \notin known'}}
       \* (-b: block b was flushed and then deleted with its branch: the store still has its record, flagged invalid)

\* client/wallet: LoadBalancesFromUtxo / Disable
\* the index is rebuilt from the populated set under whichever limit the configuration holds at that moment
BalEnable == /\ AllowBal /\ balOn = 0 /\ balOn' \in 1..Len(BalLimit) /\ UNCHANGED <<known, kids, tip, utxo, undo, nDeliv, flushed, last>>
BalDisable == /\ AllowBal /\ balOn # 0 /\ balOn' = 0 /\ UNCHANGED <<known, kids, tip, utxo, undo, nDeliv, flushed, last>>

\* Chain.Idle(): the queued blocks reach the block files (and a snapshot save may start: see ChainStore / UtxoSave).
\* For the ledger this is a no-op - which is the point: deliveries interleaved with Idle must behave the same.
Idle == /\ AllowIdle /\ ~(known \subseteq flushed) /\ flushed' = flushed \cup known /\ UNCHANGED <<known, kids, tip, utxo, undo, nDeliv, balOn, last>>

Next == (\E b \in Blocks : Deliver(b)) \/ BalEnable \/ BalDisable \/ Idle
Spec == Init /\ [][Next]_vars

----------------------------------------------------------------------------
(* Properties *)

\* the UTXO set obtained by replaying a chain from the base, and whether every block on it is valid
RECURSIVE Replay(_, _, _)
Replay(path, u, ok) ==
    IF path = <<>> THEN [u |-> u, ok |-> ok]
    ELSE LET r == Connect(Head(path), u, HeightOf(Head(path))) IN
         Replay(Tail(path), r.u, ok /\ r.viol = {})

BaseUtxo == UNION {Entries(t, t) : t \in 1..BaseH}

\* C06: the unspent-output set is exactly the replay of the active chain, and that chain is valid (C04)
UtxoIsReplay ==
    LET r == Replay(ChainTo(tip), BaseUtxo, TRUE) IN r.ok /\ r.u = utxo

\* C06: no known branch has strictly more work than the active tip
\* (a heavier branch is either connected or found invalid and deleted)
TipIsBest == \A b \in known : Work(b) <= Work(tip)

\* tree bookkeeping
TreeOK ==
    /\ tip \in known \cup {0}
    /\ \A b \in known : Parent(b) \in known \cup {0}
    /\ \A p \in known \cup {0} : Range(kids[p]) = {c \in known : Parent(c) = p}

\* C04: nothing is created out of thin air: total of the UTXO set <= total subsidy
RECURSIVE Total(_)
Total(u) == IF u = {} THEN Zero ELSE LET x == CHOOSE y \in u : TRUE IN AmtAdd(OutOf(x).amt, Total(u \ {x}))
NoInflation == CheckMoney => AmtLE(Total(utxo), A(50 * HeightOf(tip), 0))

\* C04 second sentence: a refused block leaves tip and UTXO set exactly as they were
RefusedLeavesNoTraceStep ==
    (nDeliv' = nDeliv + 1 /\ ~last'.accepted /\ known' = known) => (tip' = tip /\ utxo' = utxo)
\* KNOWN FINDING C06-tie: a reorganisation onto a heavier branch that fails (invalid block found while
\* connecting) ends on the farthest remaining node by child arrival order - when the old branch and the
\* remains of the new one tie, that can be the other branch, so a refused block has moved the tip.
KF_TieAfterFailedReorg == ~last'.accepted /\ tip' # tip /\ Work(tip') = Work(tip)
RefusedLeavesNoTrace == [][RefusedLeavesNoTraceStep \/ KF_TieAfterFailedReorg]_vars
RefusedLeavesNoTraceStrict == [][RefusedLeavesNoTraceStep]_vars

\* C06: first seen wins ties - a block that does not have strictly more work never moves the tip
FirstSeenWinsStep ==
    \A b \in Blocks : (b \notin known /\ b \in known' /\ Work(b) <= Work(tip) /\ Parent(b) # tip) => tip' = tip
FirstSeenWins == [][FirstSeenWinsStep]_vars

\* C17: while the index is on it is the projection of the UTXO set under the limit in force:
\*      for every address (addr, st):  index(addr, st) = Projection(utxo, addr, st, [h |-> 0, u |-> 0, e |-> BalLimit[balOn]])
Projection(u, addr, st, minval) == {e \in u : OutOf(e).addr = addr /\ OutOf(e).st = st /\ AmtLE(minval, OutOf(e).amt)}
=============================================================================
