------------------------------ MODULE MempoolGen ------------------------------
(* G->R export for C12, outcome-agnostic: the OPERATION sequences of the bounded model (every transition   *)
(* once in BFS mode, or simulated behaviours of a fixed length).  Outcomes are not predicted: the driver     *)
(* performs the operations on the real client/txpool, records what it shows, and TraceMempool validates the  *)
(* recording.  The model's own choice of outcomes only steers which sequences are produced.                  *)
EXTENDS Mempool, Json

CONSTANT EmitAt      \* 0 = print every transition (BFS export); n > 0 = print behaviours of exactly n steps (simulation)

VARIABLE h           \* history: sequence of operations [a, t, mode, k, txs]
gvars == <<vars, h>>
GView == View        \* h is output only

OpRec(a, t, mode, k, txs) == [a |-> a, t |-> t, mode |-> mode, k |-> k, txs |-> txs]
Log(r) == h' = Append(h, r)

\* the universe in the concretiser's format (harness/conc.Scenario)
Scenario == [baseh |-> BaseH, blk |-> <<>>,
             tx |-> [t \in TxIds |-> [ins |-> [i \in 1..NIns(t) |-> [tx |-> Ins(t)[i].tx, vout |-> Ins(t)[i].vout, ok |-> Ins(t)[i].ok, rl |-> 0]],
                                      outs |-> [k \in 1..Len(TxDef[t].outs) |-> [amt |-> TxDef[t].outs[k].amt, addr |-> 10 * t + k,
                                                                                st |-> <<1, 2, 4, 5>>[1 + ((t + k) % 4)]]],
                                      ver |-> 2, sops |-> 0]]]

GInit == Init /\ h = <<>> /\ PrintT(<<"VFS", ToJson(Scenario)>>)

GStep ==
    \/ \E t \in TxIds : \E m \in ModesFor(t) : \E pf \in PolFs({t} \cup Waiters({t}, {})) :
          Submit(t, m, pf) /\ Log(OpRec("Submit", t, m, 0, <<>>))
    \/ \E pf \in PolFs(DOMAIN orph) :
          \/ Idle /\ obs.fresh /\ \E k \in 0..Len(Assemble(pool, obs.lst)) :
                BlockMined(SubSeq(obs.lst, 1, k), pf) /\ Log(OpRec("MineListing", 0, "", k, <<>>))
          \/ \E s \in ValidSeqs(utxo, Height + 1, MaxFgn) :
                BlockMined(s, pf) /\ Log(OpRec("MineForeign", 0, "", 0, s))
    \/ BlockUndone /\ Log(OpRec("Undo", 0, "", 0, <<>>))
    \/ \E t \in DOMAIN pool : Expire({t}) /\ Log(OpRec("Expire", 0, "", 0, <<t>>))
    \/ SaveLoad /\ Log(OpRec("SaveLoad", 0, "", 0, <<>>))
    \/ SaveLoadFailed /\ Log(OpRec("SaveCutLoad", 0, "cut", 0, <<>>))
    \/ Observe /\ Log(OpRec("Observe", 0, "", 0, <<>>))

Emit ==
    IF EmitAt = 0
    THEN PrintT(<<"VFT", ToJson([ops |-> h'])>>)
    ELSE (Len(h') = EmitAt) => PrintT(<<"VFT", ToJson([ops |-> h'])>>)

GNext == GStep /\ Emit
GSpec == GInit /\ [][GNext]_gvars
=============================================================================
