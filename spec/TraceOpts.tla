----------------------------- MODULE TraceOpts -----------------------------
(* Per-run constants of a trace validation that do not fit a cfg file (functions).  The check *)
(* overwrites this module in its scratch copy of spec/; this stub only keeps the tree parsable. *)
BLenSeq == <<>>
=============================================================================
