------------------------------ MODULE AddrGen ------------------------------
(* G->R export: every case of Addr (one per transition: the cases do not     *)
(* depend on a path, so there is no history variable and no VIEW) is printed *)
(* with the model's prediction r.  Run with -workers 1.                      *)
EXTENDS Addr, Json

Emit == PrintT(<<"VFT", ToJson([c |-> c', q |-> q', d |-> d', s |-> s', r |-> r'])>>)

GNext == Next /\ Emit

GSpec == Init /\ [][GNext]_vars
=============================================================================
