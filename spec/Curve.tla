-------------------------------- MODULE Curve --------------------------------
(***************************************************************************)
(* C08 - secp256k1 field and group arithmetic (lib/secp256k1).              *)
(*                                                                         *)
(* TLC has 32-bit integers, so nothing here computes modulo p or n.  The    *)
(* module is a SEQUENCER and CASE ORACLE with four parts (constant Mode):    *)
(*                                                                         *)
(*  "field"    registers hold a symbolic expression over named operands     *)
(*             plus the representation attributes of field_5x52.go:         *)
(*             magnitude, normalised flag, known-zero flag.  One action per *)
(*             Field method, enabled only inside the magnitude contract     *)
(*             (the contract of libsecp256k1's field.h, which gocoin's      *)
(*             5x52 code is a port of): Mul/Sqr/Inv/Sqrt operands <= 8,     *)
(*             every magnitude <= 32, Negate(m) needs magnitude <= m and    *)
(*             yields m+1, MulInt/SetAdd multiply/add magnitudes,           *)
(*             IsOdd/IsZero/Equals/GetB32 need a normalised operand.        *)
(*  "limbs"    raw 5x52 limb PATTERNS as operands: every limb independently    *)
(*             from {0, 1, all-ones, all-ones +-1, the limb of p there, that  *)
(*             +-1}, the full product, each also scaled to higher magnitudes; *)
(*             the model says which Field methods the contract allows on it.  *)
(*  "group"    registers hold P(f): the multiple f*G of the generator,      *)
(*             f a LINEAR FORM with small integer coefficients over named   *)
(*             constants 1, k (generic), lambda, 2^128, 2^256-1, 2^200-1    *)
(*             (the group is cyclic of prime order n, so n = 0).  The model *)
(*             decides the case analysis exactly: the result is infinity    *)
(*             iff the form is 0, P+P doubles, P+(-P) vanishes, scalars     *)
(*             0, n, n+1 are the forms 0, 0, 1.                             *)
(*  "tables"   TableScalar(table, i, j): the multiple of G every entry of    *)
(*             pre_g, pre_g_128, prec, fin stands for, transcribed from     *)
(*             z_init.go (the generator the repository ships, build-ignored)*)
(*             together with the two identities that make the tables        *)
(*             usable, checked by TLC on scaled-down windows: the comb of   *)
(*             ECmultGen and the wNAF recoding of ECmult.                   *)
(*  "formulas" the field-operation sequences of XYZ.Double / Add / AddXY    *)
(*             (transcribed from xyz.go) run on magnitudes only: TLC checks *)
(*             that every step stays inside the contract for all input      *)
(*             magnitudes <= 8 and that outputs are again <= 8 (so any      *)
(*             composition of group operations stays inside it).            *)
(*                                                                         *)
(* Numeric values come from the harness reference (harness/ref, math/big),  *)
(* which evaluates the model's expression / form after every step.          *)
(***************************************************************************)
EXTENDS Integers, Sequences, FiniteSets, TLC

CONSTANTS
    Mode,       \* "field" | "limbs" | "group" | "tables" | "formulas"
    MaxLen,     \* field / group: number of operations after the initial load
    FA, FB,     \* field: operand names register 1 / 2 may be loaded with ({"*"} = all)
    GA, GB,     \* group: load names for register 1 / 2 ({"*"} = all)
    CMax,       \* group: bound on the absolute value of form coefficients
    EcLen,      \* group: ECmult / ECmultGen are offered only in the first EcLen steps (they dominate the branching)
    Bug         \* "none" or a deliberately broken rule

-----------------------------------------------------------------------------
(* ----------------------------- field layer ----------------------------- *)
MagMax == 32        \* largest magnitude any representation may have
MulMax == 8         \* largest operand magnitude of Mul / Sqr (and of Inv / Sqrt, which start with them)

\* 32-byte operands of SetB32.  p = 2^256 - 2^32 - 977.
\*   zero 0 | one 1 | pm1 p-1 | mid, mid2 generic values below p | p | pp1 p+1 | max 2^256-1 = p + 2^32 + 976
Canon    == {"zero", "one", "pm1", "mid", "mid2"}
NonCanon == {"p", "pp1", "max"}
\* raw limb patterns (through the verif-only setter): "lim" every limb at the maximum of magnitude m
\* (2m(2^52-1), top limb 2m(2^48-1)); "kp" the limbs of p, times 2m: the value 0 at magnitude m
RawMags == {1, 8, 16, 32}

BOp(b)     == [e |-> "B:" \o b, m |-> 1, nz |-> b \in Canon, z |-> b \in {"zero", "p"}]
WOp(kd, m) == [e |-> "W:" \o kd \o ":" \o ToString(m), m |-> m, nz |-> FALSE, z |-> kd = "kp"]
IOp(k)     == [e |-> "I:" \o ToString(k), m |-> IF k = 0 THEN 0 ELSE 1, nz |-> TRUE, z |-> k = 0]
FOperands  == {BOp(b) : b \in Canon \cup NonCanon}
              \cup {WOp(kd, m) : kd \in {"lim", "kp"}, m \in RawMags}
              \cup {IOp(k) : k \in {0, 1, 7}}
FSel(S) == IF S = {"*"} THEN FOperands ELSE {o \in FOperands : o.e \in S}

FRegs == 1..3
Dst(a) == IF a = 3 THEN {3} ELSE {a, 3}     \* results go back to the operand register or to the scratch register

VARIABLES fr, gr, tb, fm, lb, len
vars == <<fr, gr, tb, fm, lb, len>>

FSet(d, v) == fr' = [fr EXCEPT ![d] = v]
Call1(f, x) == f \o "(" \o x \o ")"
Call2(f, x, y) == f \o "(" \o x \o "," \o y \o ")"

FNormalize(r) == FSet(r, [fr[r] EXCEPT !.m = 1, !.nz = TRUE])
FMul(d, a, b) == /\ fr[a].m <= MulMax /\ fr[b].m <= MulMax
                 /\ FSet(d, [e |-> Call2("mul", fr[a].e, fr[b].e), m |-> 1, nz |-> FALSE, z |-> fr[a].z \/ fr[b].z])
FSqr(d, a)    == /\ fr[a].m <= MulMax
                 /\ FSet(d, [e |-> Call1("sqr", fr[a].e), m |-> 1, nz |-> FALSE, z |-> fr[a].z])
\* Negate(r, m): 2(m+1)p - a, for an operand of magnitude <= m
FNegate(d, a, mm) == /\ fr[a].m <= mm /\ mm + 1 <= MagMax
                     /\ FSet(d, [e |-> Call1("neg" \o ToString(mm), fr[a].e),
                                 m |-> IF Bug = "negmag" THEN mm ELSE mm + 1, nz |-> FALSE, z |-> fr[a].z])
FMulInt(r, k) == /\ fr[r].m * k <= MagMax
                 /\ FSet(r, [e |-> Call1("mulint" \o ToString(k), fr[r].e), m |-> fr[r].m * k, nz |-> FALSE, z |-> fr[r].z])
FSetAdd(r, a) == /\ fr[r].m + fr[a].m <= MagMax
                 /\ FSet(r, [e |-> Call2("add", fr[r].e, fr[a].e), m |-> fr[r].m + fr[a].m, nz |-> FALSE,
                             \* syntactic zero test: 0 + 0, x + (-x)
                             z |-> \/ fr[r].z /\ fr[a].z
                                   \/ \E mm \in 0..MagMax : \/ fr[r].e = Call1("neg" \o ToString(mm), fr[a].e)
                                                            \/ fr[a].e = Call1("neg" \o ToString(mm), fr[r].e)])
FInv(d, a)    == /\ fr[a].m <= MulMax
                 /\ FSet(d, [e |-> Call1("inv", fr[a].e), m |-> 1, nz |-> FALSE, z |-> fr[a].z])
\* InvVar normalises a copy of its operand and sets the result from 32 bytes
FInvVar(d, a) == FSet(d, [e |-> Call1("inv", fr[a].e), m |-> 1, nz |-> TRUE, z |-> fr[a].z])
FSqrt(d, a)   == /\ fr[a].m <= MulMax
                 /\ FSet(d, [e |-> Call1("sqrt", fr[a].e), m |-> 1, nz |-> FALSE, z |-> fr[a].z])
\* observers (no state change): enabled only on normalised operands
FIsOdd(a)     == fr[a].nz /\ UNCHANGED fr
FIsZero(a)    == fr[a].nz /\ UNCHANGED fr
FEquals(a, b) == fr[a].nz /\ fr[b].nz /\ UNCHANGED fr
FGetB32(a)    == fr[a].nz /\ UNCHANGED fr

FScratch == IOp(0)
FInit == fr \in {[i \in FRegs |-> IF i = 1 THEN x ELSE IF i = 2 THEN y ELSE FScratch] : x \in FSel(FA), y \in FSel(FB)}

FStep ==
    \/ \E r \in FRegs : FNormalize(r)
    \/ \E a, b \in FRegs : \E d \in Dst(a) : FMul(d, a, b)
    \/ \E a \in FRegs : \E d \in Dst(a) : FSqr(d, a) \/ FInv(d, a) \/ FInvVar(d, a) \/ FSqrt(d, a)
    \/ \E a \in FRegs : \E d \in Dst(a) : \E mm \in {fr[a].m, MagMax - 1} : FNegate(d, a, mm)
    \/ \E r \in FRegs : \E k \in {2, 3, 8} : FMulInt(r, k)
    \/ \E r, a \in FRegs : FSetAdd(r, a)
    \/ \E a \in FRegs : FIsOdd(a) \/ FIsZero(a) \/ FGetB32(a)
    \/ \E a, b \in FRegs : a < b /\ FEquals(a, b)

\* representation attributes only: two states that agree on them offer the same operations
FAbs(r) == [m |-> fr[r].m, nz |-> fr[r].nz, z |-> fr[r].z,
            src |-> IF fr[r] \in FOperands THEN fr[r].e ELSE "computed"]

FMagOK == \A r \in FRegs : fr[r].m \in 0..MagMax /\ (fr[r].nz => fr[r].m <= 1)

-----------------------------------------------------------------------------
(* ------------------------- raw limb patterns --------------------------- *)
(* A field element is five limbs n[0..4], value = sum n[i] * 2^(52 i); canonical limbs are below 2^52 (n[4] below  *)
(* 2^48).  p = (P0, M, M, M, T) with M = 2^52-1, T = 2^48-1, P0 = 0xFFFFEFFFFFC2F.  The decisions of Normalize      *)
(* (carry out of each limb, "is the value >= p") depend on each limb being 0, all ones, or next to p's limb, so      *)
(* the class of operands is the PRODUCT of a few symbolic values per limb:                                           *)
(*   0 | 1 | M, Mm1, Mp1 (2^52-1, -2, 2^52) | T, Tm1, Tp1 (top limb) | P, Pm1, Pp1 (limb 0 of p and its neighbours)  *)
(* Variants raise the magnitude: "mul" c multiplies every limb by c, "addp" m adds the limbs of 2m*p.               *)
Limb0Vals   == {"0", "1", "M", "Mm1", "Mp1", "P", "Pm1", "Pp1"}
LimbMidVals == {"0", "1", "M", "Mm1", "Mp1"}          \* p's limbs 1..3 are M
LimbTopVals == {"0", "1", "T", "Tm1", "Tp1"}          \* p's limb 4 is T
LimbPatterns == [l0 : Limb0Vals, l1 : LimbMidVals, l2 : LimbMidVals, l3 : LimbMidVals, l4 : LimbTopVals]
LimbVariants == {[kind |-> "mul", c |-> c] : c \in {1, 2, 3, 16, 63}} \cup {[kind |-> "addp", c |-> m] : m \in {1, 7, 31}}
\* every limb of a pattern is <= M+1 <= 2M: magnitude 1; c*(M+1) <= 2*(c \div 2 + 1)*M; pattern + 2m*p has magnitude m+1
LimbMag(v) == IF v.kind = "mul" THEN v.c \div 2 + 1 ELSE v.c + 1
\* what the contract allows on an operand of magnitude m (the driver runs each on a fresh copy and on a generic
\* second operand of magnitude 1 where one is needed); the observers are asked after Normalize
LimbOps(m) == <<"Normalize", "IsOdd", "IsZero", "GetB32", "Equals">>
              \o (IF m <= MulMax THEN <<"Mul", "Sqr", "Inv">> ELSE <<>>)
              \o (IF m + 1 <= MagMax THEN <<"Negate", "SetAdd">> ELSE <<>>)
              \o (IF 2 * m <= MagMax THEN <<"MulInt2">> ELSE <<>>)
LimbCases == {[l |-> <<p.l0, p.l1, p.l2, p.l3, p.l4>>, v |-> v, m |-> LimbMag(v), ops |-> LimbOps(LimbMag(v))] :
              p \in LimbPatterns, v \in LimbVariants}
NoLimbs == [l |-> <<"0", "0", "0", "0", "0">>, v |-> [kind |-> "none", c |-> 0], m |-> 0, ops |-> <<>>]
LStep == lb = NoLimbs /\ lb' \in LimbCases
LimbsOK == lb.m \in 0..MagMax /\ (\A i \in 1..Len(lb.ops) : lb.ops[i] \in {"Mul", "Sqr", "Inv"} => lb.m <= MulMax)

-----------------------------------------------------------------------------
(* ----------------------------- group layer ----------------------------- *)
\* linear forms  o*1 + k*K + l*lambda + t*2^128 + m*(2^256-1) + w*(2^200-1)   (mod n)
Form(o, k, l, t, m, w) == [o |-> o, k |-> k, l |-> l, t |-> t, m |-> m, w |-> w]
FZeroForm == Form(0, 0, 0, 0, 0, 0)
FmAdd(f, g) == Form(f.o + g.o, f.k + g.k, f.l + g.l, f.t + g.t, f.m + g.m, f.w + g.w)
FmScale(c, f) == Form(c * f.o, c * f.k, c * f.l, c * f.t, c * f.m, c * f.w)
FmNeg(f) == FmScale(-1, f)
FmIsInt(f) == f.k = 0 /\ f.l = 0 /\ f.t = 0 /\ f.m = 0 /\ f.w = 0
Abs(x) == IF x < 0 THEN -x ELSE x
FmBounded(f) == Abs(f.o) <= CMax /\ Abs(f.k) <= CMax /\ Abs(f.l) <= CMax /\ Abs(f.t) <= CMax /\ Abs(f.m) <= CMax /\ Abs(f.w) <= CMax
\* the named constants are independent over small integers (checked numerically by the harness for every form it
\* evaluates): a form denotes the point at infinity iff it is identically zero
FmIsZero(f) == f = FZeroForm

\* scalars offered to ECmult / ECmultGen: name -> the form of (scalar mod n)
Scalars == [s0    |-> FZeroForm,              s1   |-> Form(1, 0, 0, 0, 0, 0),  s2    |-> Form(2, 0, 0, 0, 0, 0),
            s3    |-> Form(3, 0, 0, 0, 0, 0), nm1  |-> Form(-1, 0, 0, 0, 0, 0), n     |-> FZeroForm,
            np1   |-> Form(1, 0, 0, 0, 0, 0), k    |-> Form(0, 1, 0, 0, 0, 0),  lam   |-> Form(0, 0, 1, 0, 0, 0),
            lamp1 |-> Form(1, 0, 1, 0, 0, 0), t128 |-> Form(0, 0, 0, 1, 0, 0),  t128m |-> Form(-1, 0, 0, 1, 0, 0),
            t128p |-> Form(1, 0, 0, 1, 0, 0), m256 |-> Form(0, 0, 0, 0, 1, 0),  w200  |-> Form(0, 0, 0, 0, 0, 1)]
ScalarNames == DOMAIN Scalars
\* (na, ng) pairs offered to ECmult: every scalar as na with ng in {0, 1, k}, and as ng with na in {0, 1, 2}
EcmultPairs == (ScalarNames \X {"s0", "s1", "k"}) \cup ({"s0", "s1", "s2"} \X ScalarNames)

\* na*f for a form f: linear only when one of the two is an integer
FmMulDefined(a, f) == FmIsInt(a) \/ FmIsInt(f)
FmMul(a, f) == IF FmIsInt(a) THEN FmScale(a.o, f) ELSE FmScale(f.o, a)

\* what a register can be loaded with: the point, and how it is represented
\*   aff  affine point lifted to Z = 1, coordinates normalised
\*   scl  the same point with (X c^2, Y c^3, Z = c) for a generic c
\*   inf  infinity flag with arbitrary coordinates
GLoads == [kA  |-> [f |-> Form(0, 1, 0, 0, 0, 0), rep |-> "aff"],  kS   |-> [f |-> Form(0, 1, 0, 0, 0, 0), rep |-> "scl"],
           nkA |-> [f |-> Form(0, -1, 0, 0, 0, 0), rep |-> "aff"], nkS  |-> [f |-> Form(0, -1, 0, 0, 0, 0), rep |-> "scl"],
           k2S |-> [f |-> Form(0, 2, 0, 0, 0, 0), rep |-> "scl"],  gA   |-> [f |-> Form(1, 0, 0, 0, 0, 0), rep |-> "aff"],
           ngS |-> [f |-> Form(-1, 0, 0, 0, 0, 0), rep |-> "scl"], kp1A |-> [f |-> Form(1, 1, 0, 0, 0, 0), rep |-> "aff"],
           lkS |-> [f |-> Form(0, 0, 1, 0, 0, 0), rep |-> "scl"],  inf  |-> [f |-> FZeroForm, rep |-> "inf"]]
GSel(S) == IF S = {"*"} THEN {GLoads[x] : x \in DOMAIN GLoads} ELSE {GLoads[x] : x \in S}
\* affine operands of AddXY
AffOps == [k |-> Form(0, 1, 0, 0, 0, 0), nk |-> Form(0, -1, 0, 0, 0, 0), g |-> Form(1, 0, 0, 0, 0, 0),
           ng |-> Form(-1, 0, 0, 0, 0, 0), k2 |-> Form(0, 2, 0, 0, 0, 0), inf |-> FZeroForm]

GRegs == 1..3
GPoint(f) == [f |-> f, rep |-> IF FmIsZero(f) THEN "inf" ELSE "jac"]
GSet(d, f) == FmBounded(f) /\ gr' = [gr EXCEPT ![d] = GPoint(f)]

GAdd(d, a, b)   == GSet(d, FmAdd(gr[a].f, gr[b].f))
GAddXY(d, a, x) == GSet(d, FmAdd(gr[a].f, AffOps[x]))
GDouble(d, a)   == GSet(d, IF Bug = "dbl" THEN gr[a].f ELSE FmScale(2, gr[a].f))
GNeg(d, a)      == GSet(d, FmNeg(gr[a].f))
GEcmult(d, a, na, ng) == /\ len < EcLen
                         /\ FmMulDefined(Scalars[na], gr[a].f)
                         /\ GSet(d, FmAdd(FmMul(Scalars[na], gr[a].f), Scalars[ng]))
GEcmultGen(d, s) == len < EcLen /\ GSet(d, Scalars[s])
\* XY.SetXO(x(P), odd): the point with P's abscissa and the requested parity is P or -P; sg is the assumption the
\* behaviour continues under (the harness drops the behaviour when its concrete k makes it false)
GLift(d, a, odd, sg) == /\ ~FmIsZero(gr[a].f)
                        /\ gr' = [gr EXCEPT ![d] = [f |-> FmScale(sg, gr[a].f), rep |-> "aff"]]
\* Operands are VALUES: a call may write only its destination.  After every step every register other than the
\* destination, and every scalar / affine operand object handed to the call, must still denote what it denoted
\* before; for the operations below the driver then REUSES the very same operand objects (the scalar objects of
\* ECmult / ECmultGen, the affine operand of AddXY, the second register of Add) for a second call on a copy of the
\* input register, whose result must again be the predicted point.
ReuseOps == {"Add", "AddXY", "Double", "Neg", "ECmult", "ECmultGen"}
\* XY.SetXYZ + GetPublicKey, XY.Neg, IsValid, DecompressPoint on the register: observers
GObserve(a) == UNCHANGED gr

GInit == gr \in {[i \in GRegs |-> IF i = 1 THEN x ELSE IF i = 2 THEN y ELSE GLoads.inf] : x \in GSel(GA), y \in GSel(GB)}

GStep ==
    \/ \E a, b \in GRegs : \E d \in Dst(a) : GAdd(d, a, b)
    \/ \E a \in GRegs : \E d \in Dst(a) : \E x \in DOMAIN AffOps : GAddXY(d, a, x)
    \/ \E a \in GRegs : \E d \in Dst(a) : GDouble(d, a) \/ GNeg(d, a)
    \/ \E a \in GRegs : \E d \in Dst(a) : \E pr \in EcmultPairs : GEcmult(d, a, pr[1], pr[2])
    \/ \E d \in GRegs : \E s \in ScalarNames : GEcmultGen(d, s)
    \/ \E a \in GRegs : \E d \in Dst(a) : \E odd \in BOOLEAN : \E sg \in {1, -1} : GLift(d, a, odd, sg)
    \/ \E a \in GRegs : GObserve(a)

GInfExact == \A r \in GRegs : (gr[r].rep = "inf") <=> FmIsZero(gr[r].f)

-----------------------------------------------------------------------------
(* ------------------------- precomputed tables -------------------------- *)
(* z_init.go:                                                               *)
(*   pre_g      = g.precomp(WINDOW_G):      pre_g[i]     = (2i+1) * G            i < 2^(WINDOW_G-2)          *)
(*   pre_g_128  = g_128.precomp(WINDOW_G):  pre_g_128[i] = (2i+1) * 2^128 * G                                *)
(*   prec[j][i]: gg starts at G; row j holds gg, gg+ad, ... (16 entries) and ad = prec[j][15] afterwards,     *)
(*              so prec[j][i] = (i+1) * 16^j * G;  fn sums the first entry of every row                       *)
(*   fin        = -(sum_{j<64} 16^j) * G                                                                      *)
(* A scalar is returned symbolically as [c, sh, neg, sum]: (neg ? -1 : 1) * c * 2^sh, or for sum > 0          *)
(* (neg ? -1 : 1) * sum_{j<sum} 2^(sh*j).                                                                     *)
WindowG == 14
TableSize == [pre_g |-> 4096, pre_g_128 |-> 4096, prec |-> 1024, fin |-> 1]   \* 2^(WindowG-2), 64*16
TableScalar(table, i, j) ==
    CASE table = "pre_g"     -> [c |-> 2 * i + 1, sh |-> 0,     neg |-> FALSE, sum |-> 0]
      [] table = "pre_g_128" -> [c |-> 2 * i + 1, sh |-> 128,   neg |-> FALSE, sum |-> 0]
      [] table = "prec"      -> [c |-> i + 1,     sh |-> 4 * j, neg |-> FALSE, sum |-> 0]      \* prec[j][i]
      [] table = "fin"       -> [c |-> 1,         sh |-> 4,     neg |-> TRUE,  sum |-> 64]
TableEntries ==
    {[table |-> "pre_g", i |-> i, j |-> 0] : i \in 0..4095} \cup {[table |-> "pre_g_128", i |-> i, j |-> 0] : i \in 0..4095}
    \cup {[table |-> "prec", i |-> i, j |-> j] : i \in 0..15, j \in 0..63} \cup {[table |-> "fin", i |-> 0, j |-> 0]}

\* --- the comb of ECmultGen on a scaled-down table (J rows of B entries, B = 2^bits): the rule is uniform in j
RECURSIVE Pow(_, _)
Pow(b, e) == IF e = 0 THEN 1 ELSE b * Pow(b, e - 1)
CombRows == 3
CombBase == 16
CombEntry(j, i) == (IF Bug = "comb" THEN i ELSE i + 1) * Pow(CombBase, j)      \* TableScalar("prec", i, j), numerically
CombFin == - (Pow(CombBase, 0) + Pow(CombBase, 1) + Pow(CombBase, 2))         \* TableScalar("fin"), for 3 rows
Digit(a, j) == (a \div Pow(CombBase, j)) % CombBase
\* ECmultGen: r = prec[0][d0] + prec[1][d1] + ... + fin
CombValue(a) == CombEntry(0, Digit(a, 0)) + CombEntry(1, Digit(a, 1)) + CombEntry(2, Digit(a, 2)) + CombFin
CombIdentity == \A a \in 0..(Pow(CombBase, CombRows) - 1) : CombValue(a) = a

\* --- the wNAF recoding of ecmult_wnaf (window w) and the odd-multiples table it indexes
\* digits: sequence of [pos, d] with d odd, |d| < 2^(w-1); value = sum d * 2^pos; table index (|d|-1)/2 < 2^(w-2)
RECURSIVE Wnaf(_, _, _)
Wnaf(x, pos, w) ==
    IF x = 0 THEN <<>>
    ELSE IF x % 2 = 0 THEN Wnaf(x \div 2, pos + 1, w)
    ELSE LET word == x % Pow(2, w)
             d == IF word >= Pow(2, w - 1) THEN word - Pow(2, w) ELSE word
         IN <<[pos |-> pos, d |-> d]>> \o Wnaf((x - d) \div Pow(2, w), pos + w, w)
RECURSIVE WnafValue(_)
WnafValue(ds) == IF ds = <<>> THEN 0
                 ELSE LET h == Head(ds)
                          idx == (Abs(h.d) - 1) \div 2
                          entry == (IF Bug = "oddtab" THEN 2 * idx ELSE 2 * idx + 1)     \* TableScalar("pre_g", idx, 0).c
                      IN (IF h.d > 0 THEN entry ELSE - entry) * Pow(2, h.pos) + WnafValue(Tail(ds))
WnafOK(a, w) == LET ds == Wnaf(a, 0, w) IN
    /\ WnafValue(ds) = a
    /\ \A i \in 1..Len(ds) : ds[i].d % 2 = 1 /\ Abs(ds[i].d) < Pow(2, w - 1) /\ (Abs(ds[i].d) - 1) \div 2 < Pow(2, w - 2)
    /\ \A i \in 1..(Len(ds) - 1) : ds[i + 1].pos >= ds[i].pos + w
WnafIdentity == \A w \in 2..6 : \A a \in 0..4095 : WnafOK(a, w)

\* tb: the entry being exported ("tables" mode picks each entry once)
NoEntry == [table |-> "none", i |-> 0, j |-> 0]
TStep == tb = NoEntry /\ tb' \in TableEntries

-----------------------------------------------------------------------------
(* --------------------- group formulas on magnitudes --------------------- *)
(* xyz.go, instruction by instruction.  Registers are names; an instruction is <<op, dst, a, b>>:               *)
(*   mul d a b | sqr d a | norm d | cp d a | mulint d k | neg d a m | add d a   (Field method names)            *)
DoubleProg == <<
    <<"cp", "t5", "aY", 0>>, <<"norm", "t5", 0, 0>>,
    <<"mul", "rZ", "t5", "aZ">>, <<"mulint", "rZ", 2, 0>>,
    <<"sqr", "t1", "aX", 0>>, <<"mulint", "t1", 3, 0>>, <<"sqr", "t2", "t1", 0>>,
    <<"sqr", "t3", "t5", 0>>, <<"mulint", "t3", 2, 0>>, <<"sqr", "t4", "t3", 0>>, <<"mulint", "t4", 2, 0>>,
    <<"mul", "t3", "aX", "t3">>, <<"cp", "rX", "t3", 0>>, <<"mulint", "rX", 4, 0>>, <<"neg", "rX", "rX", 4>>,
    <<"add", "rX", "t2", 0>>, <<"neg", "t2", "t2", 1>>,
    <<"mulint", "t3", IF Bug = "dblmag" THEN 7 ELSE 6, 0>>, <<"add", "t3", "t2", 0>>,
    <<"mul", "rY", "t1", "t3">>, <<"neg", "t2", "t4", 2>>, <<"add", "rY", "t2", 0>> >>
AddTail == <<    \* common to Add and AddXY once u1, u2, s1, s2 are there (u1, u2 normalised)
    <<"neg", "h", "u1", 1>>, <<"add", "h", "u2", 0>>, <<"neg", "i", "s1", 1>>, <<"add", "i", "s2", 0>>,
    <<"sqr", "i2", "i", 0>>, <<"sqr", "h2", "h", 0>>, <<"mul", "h3", "h", "h2">> >>
AddEnd == <<
    <<"mul", "t", "u1", "h2">>, <<"cp", "rX", "t", 0>>, <<"mulint", "rX", 2, 0>>, <<"add", "rX", "h3", 0>>,
    <<"neg", "rX", "rX", 3>>, <<"add", "rX", "i2", 0>>, <<"neg", "rY", "rX", 5>>, <<"add", "rY", "t", 0>>,
    <<"mul", "rY", "rY", "i">>, <<"mul", "h3", "h3", "s1">>, <<"neg", "h3", "h3", 1>>, <<"add", "rY", "h3", 0>> >>
AddProg == <<
    <<"sqr", "z22", "bZ", 0>>, <<"sqr", "z12", "aZ", 0>>, <<"mul", "u1", "aX", "z22">>, <<"mul", "u2", "bX", "z12">>,
    <<"mul", "s1", "aY", "z22">>, <<"mul", "s1", "s1", "bZ">>, <<"mul", "s2", "bY", "z12">>, <<"mul", "s2", "s2", "aZ">>,
    <<"norm", "u1", 0, 0>>, <<"norm", "u2", 0, 0>> >> \o AddTail
    \o << <<"mul", "rZ", "aZ", "bZ">>, <<"mul", "rZ", "rZ", "h">> >> \o AddEnd
AddXYProg == <<
    <<"sqr", "z12", "aZ", 0>>, <<"cp", "u1", "aX", 0>>, <<"norm", "u1", 0, 0>>, <<"mul", "u2", "bX", "z12">>,
    <<"cp", "s1", "aY", 0>>, <<"norm", "s1", 0, 0>>, <<"mul", "s2", "bY", "z12">>, <<"mul", "s2", "s2", "aZ">>,
    <<"norm", "u1", 0, 0>>, <<"norm", "u2", 0, 0>> >> \o AddTail
    \o << <<"cp", "rZ", "aZ", 0>>, <<"mul", "rZ", "rZ", "h">> >> \o AddEnd
Progs == [Double |-> DoubleProg, Add |-> AddProg, AddXY |-> AddXYProg]
\* what the group layer promises about the magnitudes of a result (X, Y, Z)
OutBound == [Double |-> <<6, 4, 2>>, Add |-> <<5, 3, 1>>, AddXY |-> <<5, 3, 1>>]
GroupMagMax == 8    \* the invariant of the group layer: every coordinate of every XYZ / XY has magnitude <= 8
Temps == {"aX", "aY", "aZ", "bX", "bY", "bZ", "rX", "rY", "rZ", "t", "t1", "t2", "t3", "t4", "t5", "u1", "u2", "s1", "s2",
          "h", "i", "i2", "h2", "h3", "z12", "z22"}

\* fm = [prog, pc, mag : Temps -> 0..64, ok]
FmInit == fm \in {[prog |-> pg, pc |-> 1, ok |-> TRUE,
                   mag |-> [t \in Temps |-> CASE t = "aX" -> ax [] t = "aY" -> ay [] t = "aZ" -> az
                                              [] t = "bX" -> bx [] t = "bY" -> by [] t = "bZ" -> bz [] OTHER -> 0]] :
                  pg \in DOMAIN Progs, ax \in {1, GroupMagMax}, ay \in {1, GroupMagMax}, az \in {1, GroupMagMax},
                  bx \in {1, GroupMagMax}, by \in {1, GroupMagMax}, bz \in {1, GroupMagMax}}
FmExec(ins, mag) ==   \* [mag', ok]
    LET op == ins[1] d == ins[2] IN
    CASE op = "mul"    -> [mag |-> [mag EXCEPT ![d] = 1], ok |-> mag[ins[3]] <= MulMax /\ mag[ins[4]] <= MulMax]
      [] op = "sqr"    -> [mag |-> [mag EXCEPT ![d] = 1], ok |-> mag[ins[3]] <= MulMax]
      [] op = "norm"   -> [mag |-> [mag EXCEPT ![d] = 1], ok |-> mag[d] <= MagMax]
      [] op = "cp"     -> [mag |-> [mag EXCEPT ![d] = mag[ins[3]]], ok |-> TRUE]
      [] op = "mulint" -> [mag |-> [mag EXCEPT ![d] = mag[d] * ins[3]], ok |-> mag[d] * ins[3] <= MagMax]
      [] op = "neg"    -> [mag |-> [mag EXCEPT ![d] = ins[4] + 1], ok |-> mag[ins[3]] <= ins[4] /\ ins[4] + 1 <= MagMax]
      [] op = "add"    -> [mag |-> [mag EXCEPT ![d] = mag[d] + mag[ins[3]]], ok |-> mag[d] + mag[ins[3]] <= MagMax]
FmStep == /\ fm.pc <= Len(Progs[fm.prog])
          /\ LET r == FmExec(Progs[fm.prog][fm.pc], fm.mag) IN
             fm' = [fm EXCEPT !.pc = @ + 1, !.mag = r.mag, !.ok = fm.ok /\ r.ok]
FmDone == fm.pc > Len(Progs[fm.prog])
\* every step inside the contract; outputs within the promised bounds, hence again valid inputs
ContractRespected == Mode = "formulas" => fm.ok
OutputsBounded == (Mode = "formulas" /\ FmDone) =>
    /\ fm.mag["rX"] <= OutBound[fm.prog][1] /\ fm.mag["rY"] <= OutBound[fm.prog][2] /\ fm.mag["rZ"] <= OutBound[fm.prog][3]
    /\ OutBound[fm.prog][1] <= GroupMagMax /\ OutBound[fm.prog][2] <= GroupMagMax /\ OutBound[fm.prog][3] <= GroupMagMax

-----------------------------------------------------------------------------
NoF == [i \in FRegs |-> FScratch]
NoG == [i \in GRegs |-> GLoads.inf]
NoFm == [prog |-> "Double", pc |-> 1000, ok |-> TRUE, mag |-> [t \in Temps |-> 0]]

Init == /\ len = 0
        /\ IF Mode = "field" THEN FInit ELSE fr = NoF
        /\ IF Mode = "group" THEN GInit ELSE gr = NoG
        /\ tb = NoEntry /\ lb = NoLimbs
        /\ IF Mode = "formulas" THEN FmInit ELSE fm = NoFm

Next == \/ Mode = "field" /\ len < MaxLen /\ FStep /\ len' = len + 1 /\ UNCHANGED <<gr, tb, fm, lb>>
        \/ Mode = "group" /\ len < MaxLen /\ GStep /\ len' = len + 1 /\ UNCHANGED <<fr, tb, fm, lb>>
        \/ Mode = "tables" /\ TStep /\ UNCHANGED <<fr, gr, fm, lb, len>>
        \/ Mode = "formulas" /\ FmStep /\ UNCHANGED <<fr, gr, tb, lb, len>>
        \/ Mode = "limbs" /\ LStep /\ UNCHANGED <<fr, gr, tb, fm, len>>

Spec == Init /\ [][Next]_vars

\* exploration identifies states that offer the same operations
AbsView == <<[r \in FRegs |-> FAbs(r)], gr, tb, fm, lb, len>>

\* evaluated once, in the initial state of the "tables" mode
TablesOK == (Mode = "tables" /\ tb = NoEntry) => CombIdentity /\ WnafIdentity
TypeOK == len \in 0..MaxLen /\ (Mode = "field" => FMagOK) /\ (Mode = "group" => GInfExact) /\ LimbsOK
=============================================================================
