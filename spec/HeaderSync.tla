----------------------------- MODULE HeaderSync -----------------------------
(***************************************************************************)
(* Header-first synchronisation, the way the real client drives lib/chain. *)
(*                                                                         *)
(*   header   client/network/hdrs.go ProcessNewHeader:                      *)
(*              DiscardedBlocks / ReceivedBlocks / BlocksToGet look-ups,     *)
(*              Chain.PreCheckBlock (under BlockIndexAccess),                *)
(*              Chain.AcceptHeader -> BlockTreeNode with BlockSize=TxCount=0 *)
(*   data     client/network/data.go netBlockReceived:                      *)
(*              Chain.PostCheckBlock; on failure (merkle root matches)       *)
(*              Chain.DeleteBranch(node, delB2G_callback)                    *)
(*            client/main.go HandleNetBlock: CheckParentDiscarded,           *)
(*              Chain.HasAllParents -> CachedBlocksAdd, else                 *)
(*              LocalAcceptBlock = Blocks.BlockAdd + Chain.CommitBlock(bl,   *)
(*              node); on error network.DiscardBlock(node);                  *)
(*              then retry_cached_blocks (again from the main loop while it  *)
(*              returns true)                                                *)
(*   lib/chain  CommitBlock, MoveToBlock ("cannot continue A1/A2/B"),        *)
(*              ParseTillBlock ("not yet commited"), FindPathTo,             *)
(*              FindFarthestNode, DeleteBranch / delAllChildren, MorePOW     *)
(*                                                                         *)
(* The Ledger variables keep their meaning: known = blocks in BlockIndex    *)
(* (header accepted), kids = Childs lists (they survive on nodes that were  *)
(* taken out of the index: the client keeps pointers to such nodes in        *)
(* BlocksToGet / CachedBlocks), tip/utxo/undo as before.                     *)
(*                                                                         *)
(* The algorithmic part models what the code does.  Where the code breaks   *)
(* the property the behaviour is named (KF ..)  , the step is flagged in kf  *)
(* and the behaviour ends there (states have diverged); the export hands     *)
(* every such step to the replay driver, which confirms it on the real code. *)
(* The Fix* constants switch the model to the suggested repairs.             *)
(*                                                                         *)
(* Named deviations of the model from the code:                              *)
(*  DEV_RetryGap   retry_cached_blocks indexes CachedBlocksIdx[h][-1] when   *)
(*                 the scan reaches a height without cached blocks (a panic  *)
(*                 in package main, which a driver cannot import): the model *)
(*                 skips such heights and flags the step (note "retry-gap")  *)
(*  DEV_NoIdle     Chain.Idle is not interleaved (whether an invalidated     *)
(*                 block is still readable from the block files would matter *)
(*                 only on the crashing paths)                               *)
(*  DEV_BaseUtxo  base coinbases that no scenario transaction spends are left out  *)
(*                 of the model's unspent-output set                             *)
(*  DEV_MoveChecks the three TxCount loops of MoveToBlock are stated as one  *)
(*                 predicate (every strict ancestor of the destination above *)
(*                 the fork point has data)                                  *)
(***************************************************************************)
EXTENDS LedgerMC

CONSTANTS
    MaxArrive,      \* bound on the number of arrivals (headers + block data)
    FixFarthest,    \* TRUE: after a failed reorganisation ParseTillBlock moves to the farthest node reachable
                    \*       through blocks whose data is held (suggested repair); FALSE: FindFarthestNode as it is
    FixCacheDel,    \* TRUE: retry_cached_blocks removes the block from the cache only when LocalAcceptBlock succeeded
    FixDetached,    \* TRUE: CommitBlock refuses a node that is no longer in BlockIndex
    HdrOnly,        \* blocks whose data is withheld for ever: only their header arrives
    WholeOnly       \* blocks that arrive only as unrequested whole blocks (header and data together)

VARIABLES
    has,        \* blocks whose node has BlockSize/TxCount # 0 (CommitBlock was called with the data)
    b2g,        \* network.BlocksToGet: header accepted, data not yet received
    rcvd,       \* network.ReceivedBlocks
    disc,       \* network.DiscardedBlocks
    cache,      \* network.CachedBlocks in insertion order (CachedBlocksIdx[h] = the entries of height h, in this order)
    cmax,       \* network.CachedMaxHeight (never lowered)
    hiAcc,      \* main.highestAcceptedBlock
    retry,      \* main.retryCachedBlocks
    kf,         \* "" or the name of the finding this step ran into (the behaviour ends there)
    note        \* what happened in the last step (observation only)

hvars == <<vars, has, b2g, rcvd, disc, cache, cmax, hiAcc, retry, kf, note>>

----------------------------------------------------------------------------
(* Family H: the header-first cases.  A1-A2-A3 valid; B1 valid, B2 invalid only when connected (spends what B1    *)
(* spent), with two children; R1's header is fine but its data fails PostCheckBlock (money range), R2 is a header   *)
(* on top of it; C1-C2-C3 valid.                                                                                    *)
ForkHTx ==
    501 :> T(<<In(1, 1)>>, <<O(49, 99900000, 1, 1)>>) @@
    502 :> T(<<In(2, 1)>>, <<O(49, 99900000, 2, 1)>>) @@
    503 :> T(<<In(2, 1)>>, <<O(49, 99900000, 3, 1)>>) @@
    504 :> T(<<In(3, 1)>>, <<[amt |-> Pow63, addr |-> 1, st |-> 1], [amt |-> AmtAdd(Pow63, A(0, 1000)), addr |-> 2, st |-> 1]>>)
ForkHBlk ==
     1 :> B(0, <<501>>, 50, FEE) @@            \* A1
     2 :> B(1, <<>>, 50, 0) @@                 \* A2
     3 :> B(2, <<>>, 50, 0) @@                 \* A3
     4 :> B(0, <<502>>, 50, FEE) @@            \* B1
     5 :> B(4, <<503>>, 50, FEE) @@            \* B2 : (2,1) was spent by B1
     6 :> B(5, <<>>, 50, 0) @@                 \* B3 : child of the invalid block
     7 :> B(5, <<>>, 49, 0) @@                 \* B3': its sibling
     8 :> B(0, <<504>>, 50, 0) @@              \* R1 : refused by PostCheckBlock
     9 :> B(8, <<>>, 50, 0) @@                 \* R2
    10 :> B(0, <<>>, 50, 0) @@                 \* C1
    11 :> B(10, <<>>, 50, 0) @@                \* C2
    12 :> B(11, <<>>, 50, 0)                   \* C3
ForkHBlocks == 1..12
\* sub-trees (parent closed) used as Blocks so that every block can get header and data within the bound
H0Blocks == {1, 2, 4, 5}               \* livelock: A2 header-only while B2 fails
H1Blocks == {1, 2, 4, 5, 6}
H2Blocks == {1, 2, 4, 5, 6, 7}         \* a second child of the invalid block delivered after the branch was deleted
H3Blocks == {1, 4, 8, 9}               \* PostCheckBlock failure with a header on top
H4Blocks == {1, 2, 4, 5, 10, 11}       \* stranded: the farthest header chain has no data
H5Blocks == {1, 2, 4, 5, 6, 10, 11}    \* with C1 C2 header-only and announced first: stranded
H6Blocks == {1, 2, 3, 4, 5, 6, 7, 10, 11, 12}
None == {}
H2Whole == {1, 2, 4, 5}
H5Hdr == {10, 11}
H5Whole == {1, 2, 4, 5, 6}
H6Hdr == {3, 12}
H6Whole == {1, 2, 4, 5, 10, 11}
A5Blocks == 1..5                       \* ForkA: A1 A2 A3 B1 B2
A7Blocks == 1..7
B7Blocks == 1..7
C5Blocks == 1..5
D5Blocks == 1..5

----------------------------------------------------------------------------
(* DEV_BaseUtxo: of the base chain's coinbases only those a scenario transaction refers to are kept in the model's  *)
(* unspent-output set (the others can never change; the driver checks that the node still holds every one of them). *)
(* (a fixed interval, because TLC re-evaluates such definitions at every use; the ASSUME says it is large enough)   *)
RelevantBase == 1..4
ASSUME \A x \in DOMAIN TxDef : \A i \in 1..Len(TxDef[x].ins) : IsBaseCb(TxDef[x].ins[i].tx) => TxDef[x].ins[i].tx \in RelevantBase
HBaseUtxo == UNION {Entries(t, t) : t \in RelevantBase}

(* what the scenario says about a block, independent of the node's state *)
ReplayOf == [b \in Blocks \cup {0} |-> Replay(ChainTo(b), HBaseUtxo, TRUE)]
ValidChain(b) == ReplayOf[b].ok
SpentOf == [b \in Blocks |-> Connect(b, ReplayOf[Parent(b)].u, HeightOf(b)).spent]

MaxI(a, b) == IF a > b THEN a ELSE b
RECURSIVE DescK(_, _)               \* b and everything reachable through Childs
DescK(b, kd) == {b} \cup UNION {DescK(kd[b][i], kd) : i \in 1..Len(kd[b])}
RemSeq(s, S) == SelectSeq(s, LAMBDA x : x \notin S)

\* Chain.HasAllParents: walk down until the active branch; a node without data in between => false
RECURSIVE HAP(_, _, _)
HAP(d, tp, hs) == IF IsAncestor(d, tp) THEN TRUE ELSE IF d \notin hs THEN FALSE ELSE HAP(Parent(d), tp, hs)
HasAllParents(b, tp, hs) == HAP(Parent(b), tp, hs)

\* MoveToBlock's three loops (A1, A2, B): every strict ancestor of dst above the fork point must have data (DEV_MoveChecks)
MoveOK(dst, tp, hs) ==
    LET fk == ForkPoint(tp, dst)
        path == ChainTo(dst)
    IN \A i \in 1..Len(path) : (path[i] # dst /\ HeightOf(path[i]) > HeightOf(fk)) => path[i] \in hs

\* BlockTreeNode.FindPathTo
PANIC == -1
FindPathTo(n, end, kd) ==
    IF HeightOf(end) <= HeightOf(n) THEN PANIC              \* "end block is not higher then current"
    ELSE IF kd[n] = <<>> THEN PANIC                          \* "unknown path to block"
    ELSE IF Len(kd[n]) = 1 THEN kd[n][1]                     \* only one child: taken without looking
    ELSE LET RECURSIVE W(_)
             W(e) == IF e # 0 /\ Parent(e) = n THEN e
                     ELSE IF HeightOf(e) <= HeightOf(n) THEN PANIC    \* "reached the starting node height, but no hit"
                     ELSE W(Parent(e))
         IN W(end)

\* FindFarthestNode restricted to children whose data is held (the suggested repair)
RECURSIVE FarthestC(_, _, _)
FarthestC(n, kd, hs) ==
    LET ks == SelectSeq(kd[n], LAMBDA x : x \in hs) IN
    IF ks = <<>> THEN <<n, 0>>
    ELSE LET F[i \in 1..Len(ks)] ==
                 LET r == FarthestC(ks[i], kd, hs) IN
                 IF i = 1 THEN r ELSE IF r[2] > F[i - 1][2] THEN r ELSE F[i - 1]
             best == F[Len(ks)]
         IN <<best[1], best[2] + (IF n = 0 THEN 1 ELSE BlkWork(n))>>

----------------------------------------------------------------------------
(* lib/chain on a state record S = [hdr, kids, has, tip, utxo, undo, b2g, rcvd, disc, cache, cmax, hiAcc,         *)
(*                                  crash, notes, fviol, e]                                                        *)

\* DeleteBranch(b, callback): b leaves its parent's list, b and its descendants leave the index, their lists are emptied
DeleteBranch(S, b, cb) ==
    IF \A i \in 1..Len(S.kids[Parent(b)]) : S.kids[Parent(b)][i] # b
    THEN [S EXCEPT !.crash = "panic"]                        \* delChild: "Child not found"
    ELSE LET dead == DescK(b, S.kids) IN
         [S EXCEPT !.hdr = @ \ dead,
                   !.kids = [p \in DOMAIN @ |-> IF p \in dead THEN <<>> ELSE RemSeq(@[p], {b})],
                   !.b2g = IF cb THEN @ \ dead ELSE @]

RECURSIVE HMoveTo(_, _, _), HParseTill(_, _, _), HFallback(_, _, _, _)

\* ParseTillBlock(end); d = nesting depth of the MoveToBlock <-> ParseTillBlock recursion
HParseTill(S, end, d) ==
    IF S.tip = end THEN S
    ELSE LET nxt == FindPathTo(S.tip, end, S.kids) IN
         IF nxt = PANIC THEN [S EXCEPT !.crash = "panic"]
         ELSE IF nxt \notin S.has THEN HFallback([S EXCEPT !.notes = @ \cup {"not-yet-committed"}], end, TRUE, d)
         ELSE IF nxt \notin S.hdr THEN [S EXCEPT !.crash = "panic"]   \* a node that was deleted: its block was invalidated (BlockGet fails / Child not found)
         ELSE LET h == HeightOf(nxt)
                  r == Connect(nxt, S.utxo, h)
              IN IF r.viol = {}
                 THEN HParseTill([S EXCEPT !.tip = nxt, !.utxo = r.u, !.undo = (h :> r.spent) @@ @], end, d)
                 ELSE LET S2 == DeleteBranch([S EXCEPT !.fviol = @ \cup r.viol, !.notes = @ \cup {"branch-deleted"}], nxt, FALSE)
                      IN IF S2.crash # "" THEN S2 ELSE HFallback(S2, end, FALSE, d)

\* the tail of ParseTillBlock when it did not arrive: FindFarthestNode, MoveToBlock
HFallback(S, end, notCommitted, d) ==
    LET far == IF FixFarthest THEN FarthestC(0, S.kids, S.has)[1] ELSE Farthest(0, S.kids)[1] IN
    IF far = S.tip THEN S
    ELSE IF ~MoveOK(far, S.tip, S.has) THEN [S EXCEPT !.notes = @ \cup {"far-missing-data"}]     \* "MoveToBlock cannot continue"
    ELSE IF notCommitted /\ far = end THEN [S EXCEPT !.crash = "livelock"]    \* same destination, same stop, for ever
    ELSE IF d > 8 THEN [S EXCEPT !.crash = "model-depth"]
    ELSE HMoveTo(S, far, d + 1)

HMoveTo(S, dst, d) ==
    IF ~MoveOK(dst, S.tip, S.has) THEN [S EXCEPT !.notes = @ \cup {"moveto-missing-data"}]
    ELSE LET fork == ForkPoint(S.tip, dst)
             un == UndoTo([tip |-> S.tip, utxo |-> S.utxo, undo |-> S.undo], fork)
         IN HParseTill([S EXCEPT !.tip = un.tip, !.utxo = un.utxo,
                                 !.notes = IF un.tip # S.tip THEN @ \cup {"undo"} ELSE @], dst, d)

\* Chain.CommitBlock(bl, node); S.e = it returned an error
CommitBlock(S, b) ==
    IF FixDetached /\ b \notin S.hdr THEN [S EXCEPT !.e = TRUE, !.notes = @ \cup {"detached-refused"}]
    ELSE
    LET S1 == [S EXCEPT !.has = @ \cup {b}]
        p == Parent(b)
    IN IF p = S.tip
       THEN LET h == HeightOf(b)
                r == Connect(b, S.utxo, h)
            IN IF r.viol = {}
               THEN [S1 EXCEPT !.tip = b, !.utxo = r.u, !.undo = (h :> r.spent) @@ @, !.notes = @ \cup {"connected"}]
               ELSE \* only this node is removed: its children stay in the index (the client discards them)
                    IF \A i \in 1..Len(S.kids[p]) : S.kids[p][i] # b THEN [S1 EXCEPT !.crash = "panic"]
                    ELSE [S1 EXCEPT !.kids = [@ EXCEPT ![p] = RemSeq(@, {b})], !.hdr = @ \ {b}, !.e = TRUE,
                                    !.fviol = @ \cup r.viol, !.notes = @ \cup {"tip-refused"}]
       ELSE IF Work(b) > Work(S.tip)                          \* MorePOW
       THEN LET S2 == HMoveTo([S1 EXCEPT !.notes = @ \cup {"reorg"}], b, 0) IN [S2 EXCEPT !.e = (S2.tip # b)]
       ELSE [S1 EXCEPT !.notes = @ \cup {"side"}]

\* network.DiscardBlock(node): the node and everything below it (Childs as they are now)
DiscardBlock(S, b) ==
    LET D == DescK(b, S.kids) IN
    [S EXCEPT !.disc = @ \cup D, !.rcvd = @ \ D, !.cache = RemSeq(@, D)]

\* main.LocalAcceptBlock
LocalAcceptBlock(S, b) ==
    LET S1 == CommitBlock([S EXCEPT !.e = FALSE], b) IN
    IF S1.crash # "" THEN S1
    ELSE IF S1.e THEN DiscardBlock(S1, b)
    ELSE [S1 EXCEPT !.hiAcc = MaxI(@, HeightOf(b))]

\* main.retry_cached_blocks: one call; S.e is reused for its result
CacheAt(c, h) == SelectSeq(c, LAMBDA x : HeightOf(x) = h)
Rev(s) == [i \in 1..Len(s) |-> s[Len(s) + 1 - i]]
RECURSIVE RetryOrder(_, _, _)
RetryOrder(c, h, hmax) == IF h > hmax THEN <<>> ELSE Rev(CacheAt(c, h)) \o RetryOrder(c, h + 1, hmax)
MinHeight(c) == CHOOSE h \in {HeightOf(c[i]) : i \in 1..Len(c)} : \A j \in 1..Len(c) : h <= HeightOf(c[j])

RECURSIVE Scan(_, _)
Scan(S, cs) ==
    IF cs = <<>> THEN [S EXCEPT !.e = FALSE]
    ELSE LET c == Head(cs) IN
         IF HeightOf(c) - S.hiAcc > 1 THEN [S EXCEPT !.e = FALSE]
         ELSE IF Parent(c) \in S.disc                         \* CheckParentDiscarded
         THEN LET nc == RemSeq(S.cache, {c}) IN
              [S EXCEPT !.disc = @ \cup {c}, !.cache = nc, !.e = (nc # <<>>), !.notes = @ \cup {"cached-discarded"}]
         ELSE IF ~HasAllParents(c, S.tip, S.has)
         THEN \* try the next one; DEV_RetryGap: the code would index an empty slice when the next height <= CachedMaxHeight has no entry
              LET lastOfHeight == Len(cs) = 1 \/ HeightOf(cs[2]) # HeightOf(c)
                  gap == lastOfHeight /\ HeightOf(c) + 1 <= S.cmax /\ CacheAt(S.cache, HeightOf(c) + 1) = <<>>
              IN Scan([S EXCEPT !.notes = IF gap THEN @ \cup {"retry-gap"} ELSE @], Tail(cs))
         ELSE LET S2 == LocalAcceptBlock([S EXCEPT !.notes = @ \cup {"retried"}], c) IN
              IF S2.crash # "" THEN S2
              ELSE IF c \notin Range(S2.cache) /\ ~FixCacheDel
              THEN \* LocalAcceptBlock failed and DiscardBlock already took c out; CachedBlocksDel(c) once more:
                   \* no entry for the height, or several: panic; exactly one (another block): that one is deleted
                   LET rest == CacheAt(S2.cache, HeightOf(c)) IN
                   IF Len(rest) # 1 THEN [S2 EXCEPT !.crash = "cachedel"]
                   ELSE LET nc == RemSeq(S2.cache, {rest[1]}) IN
                        [S2 EXCEPT !.cache = nc, !.e = (nc # <<>>), !.notes = @ \cup {"cache-wrong-delete"}]
              ELSE LET nc == RemSeq(S2.cache, {c}) IN [S2 EXCEPT !.cache = nc, !.e = (nc # <<>>)]

RetryCachedBlocks(S) ==
    IF S.cache = <<>> THEN [S EXCEPT !.e = FALSE]
    ELSE Scan(S, RetryOrder(S.cache, MinHeight(S.cache), S.cmax))

\* network.ProcessNewHeader; S.e = no usable BlockToGet came out of it; S.later = parent unknown
ProcessNewHeader(S, b) ==
    IF b \in S.disc THEN [S EXCEPT !.e = TRUE, !.notes = @ \cup {"hdr-rejected"}]
    ELSE IF b \in S.rcvd THEN [S EXCEPT !.e = TRUE, !.notes = @ \cup {"hdr-old"}]
    ELSE IF b \in S.b2g THEN [S EXCEPT !.e = FALSE, !.notes = @ \cup {"hdr-fresh"}]
    ELSE IF b \in S.hdr THEN [S EXCEPT !.e = TRUE, !.notes = @ \cup {"hdr-duplicate"}]          \* PreCheckBlock: already in
    ELSE IF Parent(b) # 0 /\ Parent(b) \notin S.hdr THEN [S EXCEPT !.e = TRUE, !.later = TRUE, !.notes = @ \cup {"hdr-orphan"}]
    ELSE [S EXCEPT !.e = FALSE, !.hdr = @ \cup {b}, !.kids = [@ EXCEPT ![Parent(b)] = Append(@, b)],
                   !.b2g = @ \cup {b}, !.notes = @ \cup {"hdr-new"}]

\* main.HandleNetBlock
HandleNetBlock(S, b) ==
    IF Parent(b) \in S.disc
    THEN [S EXCEPT !.disc = @ \cup {b}, !.retry = (S.cache # <<>>), !.e = TRUE, !.notes = @ \cup {"parent-discarded"}]
    ELSE IF ~HasAllParents(b, S.tip, S.has)
    THEN [S EXCEPT !.cache = Append(@, b), !.cmax = MaxI(@, HeightOf(b)), !.notes = @ \cup {"cached"}]
    ELSE LET S1 == LocalAcceptBlock(S, b) IN
         IF S1.crash # "" THEN S1
         ELSE LET acc == ~S1.e
                  S2 == RetryCachedBlocks(S1)
              IN IF S2.crash # "" THEN S2 ELSE [S2 EXCEPT !.retry = S2.e, !.e = ~acc]

\* network.netBlockReceived (the part that touches the chain)
NetBlockReceived(S, b) ==
    LET S1 == IF b \in S.b2g THEN S ELSE ProcessNewHeader(S, b) IN
    IF S1.e THEN S1
    ELSE IF CtxFreeViol(b) # {}
    THEN \* PostCheckBlock fails, the merkle root matches: "wrongly mined one - give it up"
         LET S2 == DeleteBranch([S1 EXCEPT !.b2g = @ \ {b}, !.fviol = CtxFreeViol(b), !.notes = @ \cup {"postcheck-refused"}], b, TRUE)
         IN [S2 EXCEPT !.e = TRUE]
    ELSE HandleNetBlock([S1 EXCEPT !.rcvd = @ \cup {b}, !.b2g = @ \ {b}], b)

----------------------------------------------------------------------------
HCur == [hdr |-> known, kids |-> kids, has |-> has, tip |-> tip, utxo |-> utxo, undo |-> undo,
         b2g |-> b2g, rcvd |-> rcvd, disc |-> disc, cache |-> cache, cmax |-> cmax, hiAcc |-> hiAcc, retry |-> retry,
         crash |-> "", notes |-> {}, fviol |-> {}, e |-> FALSE, later |-> FALSE]

\* data the node holds: committed to a node, or waiting in the cache
Held(S) == S.has \cup Range(S.cache)
CompleteValid(b, held) == ValidChain(b) /\ \A i \in 1..Len(ChainTo(b)) : ChainTo(b)[i] \in held
TipBestS(S) == S.retry \/ \A b \in Blocks : CompleteValid(b, Held(S)) => Work(b) <= Work(S.tip)

(* KNOWN FINDINGS (the model of the code and the code agree, the property does not hold)                          *)
(* KF livelock   ParseTillBlock fails at an invalid block, FindFarthestNode returns a node whose data is not held  *)
(*               while every block before it is: MoveToBlock -> ParseTillBlock "not yet commited" ->               *)
(*               FindFarthestNode (same node) -> MoveToBlock ... : unbounded recursion, the process dies           *)
(* KF stranded   same, but the farthest node has an ancestor without data: MoveToBlock returns at once and the tip *)
(*               stays where the failed reorganisation stopped although a complete valid branch has more work      *)
(* KF panic      a block whose header was deleted with its invalid ancestor (ParseTillBlock's DeleteBranch has no  *)
(*               callback, so BlocksToGet keeps the node) gets its data: CommitBlock reorganises towards a node    *)
(*               that is not in the tree: FindPathTo / BlockGet / delChild panic in the middle of the move         *)
(* KF cachedel   a cached block that fails LocalAcceptBlock is removed from the cache by DiscardBlock and again by *)
(*               retry_cached_blocks: CachedBlocksDel panics ...                                                  *)
(* KF cachedrop  ... unless exactly one other block of that height is cached: then that block is dropped from the  *)
(*               cache instead (it stays in ReceivedBlocks, so it is never asked for again)                        *)
Finding(S) ==
    IF S.crash # "" THEN S.crash
    ELSE IF "cache-wrong-delete" \in S.notes THEN "cachedrop"
    ELSE IF "far-missing-data" \in S.notes /\ ~TipBestS(S) THEN "stranded"
    ELSE ""

Commit(S, acc) ==
    /\ known' = S.hdr /\ kids' = S.kids /\ has' = S.has /\ tip' = S.tip /\ utxo' = S.utxo /\ undo' = S.undo
    /\ b2g' = S.b2g /\ rcvd' = S.rcvd /\ disc' = S.disc /\ cache' = S.cache /\ cmax' = S.cmax /\ hiAcc' = S.hiAcc
    /\ retry' = S.retry
    /\ kf' = Finding(S) /\ note' = S.notes
    /\ last' = [accepted |-> acc, later |-> S.later, viol |-> S.fviol]
    /\ UNCHANGED <<balOn, flushed>>

HInit ==
    /\ known = {} /\ kids = [b \in Blocks \cup {0} |-> <<>>] /\ tip = 0
    /\ utxo = HBaseUtxo
    /\ undo = [h \in {} |-> {}] /\ nDeliv = 0 /\ balOn = 1 /\ flushed = {}
    /\ last = [accepted |-> FALSE, later |-> FALSE, viol |-> {}]
    /\ has = {} /\ b2g = {} /\ rcvd = {} /\ disc = {} /\ cache = <<>> /\ cmax = 0 /\ hiAcc = 0 /\ retry = FALSE
    /\ kf = "" /\ note = {}

Arrive == kf = "" /\ nDeliv < MaxArrive /\ nDeliv' = nDeliv + 1

\* a headers message announcing b
AcceptHeader(b) ==
    /\ Arrive
    /\ b \notin WholeOnly
    /\ LET S == ProcessNewHeader(HCur, b) IN Commit(S, ~S.e)

\* the block message for a block whose header is in the index
DeliverData(b) ==
    /\ Arrive
    /\ b \in known
    /\ b \notin HdrOnly
    /\ b \notin rcvd                      \* (a second copy is dropped on the ReceivedBlocks look-up)
    /\ LET S == NetBlockReceived(HCur, b) IN Commit(S, ~S.e)

\* an unrequested whole block: header and data in one message = AcceptHeader ; DeliverData
DeliverBlock(b) ==
    /\ Arrive
    /\ b \notin known
    /\ b \notin HdrOnly
    /\ b \notin rcvd
    /\ LET S == NetBlockReceived(HCur, b) IN Commit(S, ~S.e)

\* the main loop calling retry_cached_blocks again
RetryStep ==
    /\ kf = "" /\ retry
    /\ UNCHANGED nDeliv
    /\ LET S == RetryCachedBlocks(HCur) IN Commit([S EXCEPT !.retry = S.e], TRUE)

HNext == (\E b \in Blocks : AcceptHeader(b) \/ DeliverData(b) \/ DeliverBlock(b)) \/ RetryStep
HSpec == HInit /\ [][HNext]_hvars

----------------------------------------------------------------------------
(* Properties (C06 in header-first mode).  A behaviour that ran into a named finding is exempt from there on.      *)

\* the unspent-output set is the replay of the active chain, that chain is valid, its undo records are its own
UtxoIsReplayH ==
    kf # "" \/ (ReplayOf[tip].ok /\ ReplayOf[tip].u = utxo)

\* the tree: the index, the child lists, "has data", and the client's bookkeeping
Attached(b) == \A i \in 1..Len(ChainTo(b)) : ChainTo(b)[i] \in known
TreeOKH ==
    kf # "" \/
    (/\ tip \in known \cup {0}
     /\ Attached(tip)
     \* a block whose parent left the index stays in it only as a discarded one (CommitBlock drops a refused tip block
     \* without its children; the client never commits below a discarded block)
     /\ \A b \in known : Parent(b) \in known \cup {0} \/ b \in disc \/ Parent(b) \in disc
     /\ \A p \in known \cup {0} : Range(kids[p]) = {c \in known : Parent(c) = p}
     \* data is committed only on top of committed data
     /\ \A b \in has : Parent(b) = 0 \/ Parent(b) \in has
     /\ has \subseteq rcvd \cup disc
     /\ b2g \cap rcvd = {} /\ Range(cache) \subseteq rcvd /\ Range(cache) \cap has = {}
     /\ \A i, j \in 1..Len(cache) : i # j => cache[i] # cache[j])

\* no branch whose blocks all have data (committed or cached) and are valid has more work than the tip
TipIsBestAmongComplete == kf # "" \/ TipBestS(HCur)

\* whatever a reorganisation did or could not do: the active chain is complete, indexed, and the undo records are
\* those of its own blocks (a move that stops for missing data must not leave a half-connected branch)
NoResidueH ==
    kf # "" \/
    (/\ \A i \in 1..Len(ChainTo(tip)) : ChainTo(tip)[i] \in has
     /\ \A i \in 1..Len(ChainTo(tip)) : LET b == ChainTo(tip)[i] IN
            HeightOf(b) \in DOMAIN undo /\ undo[HeightOf(b)] = SpentOf[b])
\* ... and a step that does not move the tip does not touch the unspent outputs
NoResidueStep == (tip' = tip /\ kf' = "") => utxo' = utxo
NoResidueAct == [][NoResidueStep]_hvars

\* EventuallyCaughtUp, as safety: in every state where nothing is missing any more (every accepted header got its
\* data, in whatever order, and no retry is pending) the node is on the best valid chain of everything it was given
CaughtUp ==
    (kf = "" /\ b2g = {} /\ ~retry) =>
        \A b \in Blocks : (ValidChain(b) /\ \A i \in 1..Len(ChainTo(b)) : ChainTo(b)[i] \in rcvd) => Work(b) <= Work(tip)

EventuallyCaughtUp == CaughtUp

\* with all repairs switched on nothing is left to exempt
NoFinding == kf = ""
\* the model of the code as it is: only the named findings
OnlyNamedFindings == kf \in {"", "livelock", "stranded", "panic", "cachedel", "cachedrop"}
=============================================================================
