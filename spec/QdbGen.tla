------------------------------ MODULE QdbGen ------------------------------
(* Generation wrapper (G->R).  The history h holds the API calls only; the   *)
(* file-operation steps between them are driven by the real code itself.     *)
(* Each record carries what the model predicts the real qdb.DB will show:    *)
(*   get  - result of Get (0 = nil)           br   - pairs handed to the walk *)
(*   doing- result of Defrag                  cnt  - Count() once the call    *)
(*   cont - contents after NewDBExt (per key)        has returned             *)
(* A line is printed when a call has completed (pc' = "idle").               *)
EXTENDS Qdb, Json

CONSTANT EmitAt      \* 0 = every completed transition (BFS export); n > 0 = behaviours of exactly n calls (simulation)

VARIABLE h

gvars == <<vars, h>>
GView == vars

NA == -9
KeySeq == Sorted(Keys)
ContSeq == [i \in 1..Len(KeySeq) |-> ContentOf(mem[KeySeq[i]])]

Rec(a, k, v, fl, f, b1, b2, get, br, doing) ==
    [a |-> a, k |-> k, v |-> v, fl |-> fl, f |-> f, b1 |-> b1, b2 |-> b2,
     get |-> get, br |-> br, doing |-> doing,
     cnt |-> IF pc' = "idle" /\ open' THEN CountObs' ELSE NA, cont |-> <<>>]
Strip(r) == [a |-> r.a, k |-> r.k, v |-> r.v, fl |-> r.fl, f |-> r.f, b1 |-> r.b1, b2 |-> r.b2]

Log(r) == h' = Append(h, r)

GInit == Init /\ h = <<>>

GApi ==
    \/ \E k \in Keys, v \in Vals, fl \in PutFlags : Put(k, v, fl) /\ Log(Rec("Put", k, v, fl, "", FALSE, FALSE, NA, {}, FALSE))
    \/ \E k \in Keys : Del(k) /\ Log(Rec("Del", k, 0, 0, "", FALSE, FALSE, NA, {}, FALSE))
    \/ \E k \in Keys : Get(k) /\ Log(Rec("Get", k, 0, 0, "", FALSE, FALSE, GetResult(k), {}, FALSE))
    \/ \E k \in Keys, f \in BrowseRes : Browse(k, f) /\ Log(Rec("Browse", k, 0, 0, f, FALSE, FALSE, NA, BrowseObs(FALSE), FALSE))
    \/ \E k \in Keys, f \in AllRes : BrowseAll(k, f) /\ Log(Rec("BrowseAll", k, 0, 0, f, FALSE, FALSE, NA, BrowseObs(TRUE), FALSE))
    \/ \E k \in Keys, f \in ApplyRes : ApplyFlags(k, f) /\ Log(Rec("ApplyFlags", k, 0, 0, f, FALSE, FALSE, NA, {}, FALSE))
    \/ \E force \in BOOLEAN : Defrag(force) /\ Log(Rec("Defrag", 0, 0, 0, "", force, FALSE, NA, {}, DefragDoing(force)))
    \/ Sync /\ Log(Rec("Sync", 0, 0, 0, "", FALSE, FALSE, NA, {}, FALSE))
    \/ NoSync /\ Log(Rec("NoSync", 0, 0, 0, "", FALSE, FALSE, NA, {}, FALSE))
    \/ Close /\ Log(Rec("Close", 0, 0, 0, "", FALSE, FALSE, NA, {}, FALSE))
    \/ \E v \in VolModes, ld \in LoadModes : Open(v, ld) /\ Log(Rec("Open", 0, 0, 0, "", v, ld, NA, {}, FALSE))

\* an internal step that completes the call fills in the observations of the call's record
GInternal ==
    /\ Internal
    /\ IF pc' = "idle" /\ ~failed'
       THEN h' = [h EXCEPT ![Len(h)] = [@ EXCEPT !.cnt = IF open' THEN CountObs' ELSE NA,
                                                !.cont = IF open' /\ pc = "open_end" THEN ContSeq' ELSE <<>>]]
       ELSE h' = h

GStep == GApi \/ GInternal

Emit ==
    (pc' = "idle" /\ ~failed' /\ Len(h') > 0) =>
        IF EmitAt = 0
        THEN PrintT(<<"VFT", ToJson([path |-> [i \in 1..(Len(h') - 1) |-> Strip(h'[i])], last |-> h'[Len(h')]])>>)
        ELSE (Len(h') = EmitAt) => PrintT(<<"VFT", ToJson([steps |-> h'])>>)

GNext == GStep /\ Emit

GSpec == GInit /\ [][GNext]_gvars
=============================================================================
