------------------------------ MODULE PeersDB ------------------------------
(***************************************************************************)
(* client/peersdb : the peers database built on top of lib/others/qdb      *)
(* (C19: the store is a durable map; this module grows the specification   *)
(* to the records kept in that map).                                       *)
(*                                                                         *)
(* State: db   = PeerDB as a map  peer id -> record  (qdb key = crc64 of   *)
(*               ip6|ip4|port, value = PeerAddr.Bytes()); only the DECODED *)
(*               persistent fields are kept: Time, SeenAlive, Banned,      *)
(*               BanReason, CameFromIP, NodeAgent, Services                *)
(*        disk = the map as of the last completed Sync / Close: the Qdb    *)
(*               durable-map abstraction (result of C19, spec/Qdb.tla:     *)
(*               MapEquivalence + DurableAfterReopen); the files are NOT   *)
(*               modelled again                                            *)
(*        hnd  = the *PeerAddr objects held by connections (one per peer), *)
(*               with the volatile lastSaved field                         *)
(*        fill = bulk records (three homogeneous groups) that bring the    *)
(*               database to the sizes where MinPeersInDB / MaxPeersInDB   *)
(*               matter; they are never touched except by ExpirePeers      *)
(*        now  = logical clock in MINUTES (time.Now() of the code)         *)
(*                                                                         *)
(* One action per public call of the package, named after it:              *)
(*   Connect = NewAddrFromString        Incoming = NewIncommingConnection  *)
(*   Alive / Dead / Ban / Save          (methods of PeerAddr)              *)
(*   NewPeer = NewPeer(wire bytes) + the merge of network.ParseAddr + Put  *)
(*   Unban   = usif.UnbanPeer (NewPeer(v); Banned = 0; Put(Bytes()))       *)
(*   DeleteFromIP, Expire = ExpirePeers, GetRecent = GetRecentPeers        *)
(*   Sync = PeerDB.Sync ("peers save"), Close = ClosePeerDB,               *)
(*   Reopen = InitPeers, Crash = the process dies without ClosePeerDB      *)
(*   Tick = time passes                                                    *)
(*   Seed = a PeerAddr built field by field and saved (initSeeds, "peers   *)
(*          add", a test driver): the way records of a chosen age appear   *)
(*                                                                         *)
(* The code is transcribed as it stands; quirks that are transcribed and   *)
(* named (none of them is judged by a property on the default constants):  *)
(*   Q1 Bytes() writes the Banned word only if SeenAlive or an extra field *)
(*      is present: Ban("") of a never-alive peer is not serialised        *)
(*      (the client never bans with an empty reason: Reasons = {1})        *)
(*   Q2 Ban() tests p.Banned == 0 AFTER assigning it, so the only things   *)
(*      that force a save are a first non-empty reason and the once-per-   *)
(*      minute rule                                                        *)
(*   Q3 NewIncommingConnection of a banned peer means to refresh its Time  *)
(*      once a minute but compares now with the value it has just stored:  *)
(*      nothing is ever saved                                              *)
(*   Q4 GetRecentPeers(0, unsorted) returns one record (the limit is       *)
(*      tested after the append)                                           *)
(*   Q5 ExpirePeers never examines the MinPeersInDB+1 newest records, so   *)
(*      its "Count() <= MinPeersInDB" break cannot fire                    *)
(*   Q6 never-alive records expire after one day whether banned or not     *)
(* Deviations of the model: Banned is kept in minutes (the stored value    *)
(* loses its lowest bit = 1 s); strings are one of two classes (empty /    *)
(* short), the 255-byte truncation is left to the codec sweep of the       *)
(* harness; a handle is banned at most once (client/network bans at        *)
(* connection teardown); there is one writer per peer: Seed needs no live  *)
(* PeerAddr of that peer (client/network keeps one connection per UniqID;  *)
(* a second PeerAddr saved later overwrites the record, ban included -     *)
(* in the client only the "HammerIn" ban of an address that also has an    *)
(* open outgoing connection can meet this).                                *)
(***************************************************************************)
EXTENDS Integers, Sequences, FiniteSets, TLC

CONSTANTS
    Peers,          \* peer ids (small naturals >= 1); id % 4 = 0: private address (never offered), even id: lacks the required services
    Ages,           \* minutes: Time of a record learned by NewPeer = now - age
    Froms,          \* CameFromIP classes for NewPeer / DeleteFromIP: 0 = nil, 1.. = an address
    Reasons,        \* ban reason classes: 0 = "", 1 = a short string
    Seeds,          \* record classes stored directly by Seed: code 100*b + 10*a + g  (see SeedRec)
    Ticks,          \* minutes the clock may jump
    Limits,         \* limits tried by GetRecent
    Acts,           \* names of the enabled actions (restricts a configuration to an area)
    MaxOps, MaxTicks, MaxReopen,
    MinPeers,       \* MinPeersInDB
    TrigPeers,      \* 11*MinPeersInDB/10
    FullPeers,      \* MaxPeersInDB - MaxPeersDeviation
    FillNew,        \* bulk records: seen alive, Time in the far future          (never expire, newest)
    FillKeep,       \* bulk records: seen alive, ancient Time, banned in the future (never expire, old)
    FillDead,       \* bulk records: never alive, ancient Time                    (expire, oldest)
    BugExpSign,     \* TRUE: the one-day rule of ExpirePeers with the comparison reversed (must be refuted)
    BugNoFilter     \* TRUE: GetRecentPeers ignores the caller's filter            (must be refuted)

VARIABLES open, now, db, disk, hnd, fill, dfill,
          gban,       \* ghost: peers whose ban is in force (set by Ban, lifted by Unban / removal of the record / loss in a crash)
          clean,      \* ghost: database contents at the last ClosePeerDB, <<>> after a crash
          ret,        \* result of the last call (Incoming: 1 = handle, 0 = refused; DeleteFromIP: count)
          ops, ticks, reopens

vars == <<open, now, db, disk, hnd, fill, dfill, gban, clean, ret, ops, ticks, reopens>>

\* ---- constants of client/peersdb/peerdb.go, in minutes
SaveEvery == 1          \* "update the record only once per minute"
DeadBack  == 5          \* Dead(): "make it last alive 5 minutes ago"
ExpDead   == 1440       \* ExpireDeadPeerAfter
ExpAlive  == 4320       \* ExpireAlivePeerAfter
ExpBan    == 10080      \* ExpireBannedPeerAfter
Base      == 30000      \* the clock starts here (> ExpBan + the largest age)
OwnSvc    == 1          \* peersdb.Services (default)

IpOK(p)  == p % 4 # 0                       \* sys.ValidIp4
SvcOf(p) == IF p % 2 = 1 THEN 2 ELSE 1      \* services a peer announces: 2 = has SEGWIT|NETWORK, 1 = lacks them

Filters == {"none", "getaddr", "conn_alive", "conn_new"}
ProdFilters == Filters \ {"none"}

NoRec == [in |-> FALSE, t |-> 0, al |-> FALSE, ban |-> 0, rs |-> 0, fr |-> 0, ag |-> 0, sv |-> 0]
NoHnd == [in |-> FALSE, t |-> 0, al |-> FALSE, ban |-> 0, rs |-> 0, fr |-> 0, ag |-> 0, sv |-> 0, ls |-> 0, bh |-> FALSE]
EmptyDb == [p \in Peers |-> NoRec]
NoHandles == [p \in Peers |-> NoHnd]

Max(a, b) == IF a > b THEN a ELSE b
Min(a, b) == IF a < b THEN a ELSE b

-----------------------------------------------------------------------------
(* record <-> bytes: PeerAddr.Bytes() followed by NewPeer(bytes) *)

\* the persistent fields of a handle
Proj(h) == [in |-> TRUE, t |-> h.t, al |-> h.al, ban |-> h.ban, rs |-> h.rs, fr |-> h.fr, ag |-> h.ag, sv |-> h.sv]

\* Bytes(): x_flags = (Banned != 0 && BanReason != "") | CameFromIP != nil | NodeAgent != "";
\* the word holding SeenAlive and Banned is written only if SeenAlive || x_flags != 0  (Q1)
Enc(h) ==
    LET xf  == (h.ban # 0 /\ h.rs # 0) \/ h.fr # 0 \/ h.ag # 0
        ext == h.al \/ xf
    IN [in |-> TRUE, t |-> h.t, al |-> h.al /\ ext, ban |-> IF ext THEN h.ban ELSE 0,
        rs |-> IF h.ban # 0 THEN h.rs ELSE 0, fr |-> h.fr, ag |-> h.ag, sv |-> h.sv]

AsHandle(r) == [in |-> TRUE, t |-> r.t, al |-> r.al, ban |-> r.ban, rs |-> r.rs, fr |-> r.fr, ag |-> r.ag, sv |-> r.sv,
                ls |-> 0, bh |-> FALSE]
Fresh == [in |-> TRUE, t |-> now, al |-> FALSE, ban |-> 0, rs |-> 0, fr |-> 0, ag |-> 0, sv |-> OwnSvc, ls |-> 0, bh |-> FALSE]

Present(d) == {p \in Peers : d[p].in}
FillCount(f) == f.new + f.keep + f.dead
CountOf(d, f) == Cardinality(Present(d)) + FillCount(f)
Count == CountOf(db, fill)

-----------------------------------------------------------------------------
Init ==
    /\ open = TRUE /\ now = Base /\ db = EmptyDb /\ disk = EmptyDb /\ hnd = NoHandles
    /\ fill = [new |-> FillNew, keep |-> FillKeep, dead |-> FillDead]
    /\ dfill = [new |-> FillNew, keep |-> FillKeep, dead |-> FillDead]
    /\ gban = {} /\ clean = <<>> /\ ret = 0 /\ ops = 0 /\ ticks = 0 /\ reopens = 0

Api(a) == a \in Acts /\ open /\ ops < MaxOps /\ ops' = ops + 1 /\ UNCHANGED <<open, now, ticks, reopens, clean>>

\* PeerAddr.Save(): lastSaved = max(Banned, Time); PeerDB.Put(UniqID, Bytes())
SaveAs(p, h) ==
    /\ hnd' = [hnd EXCEPT ![p] = [h EXCEPT !.ls = Max(h.ban, h.t)]]
    /\ db' = [db EXCEPT ![p] = Enc(h)]

\* NewAddrFromString(ip:port): a fresh PeerAddr (Time = now, Services = peersdb.Services), replaced by the stored record if any
Connect(p) ==
    /\ Api("Connect") /\ ~hnd[p].in
    /\ hnd' = [hnd EXCEPT ![p] = IF db[p].in THEN AsHandle(db[p]) ELSE Fresh]
    /\ ret' = 0
    /\ UNCHANGED <<db, disk, fill, dfill, gban>>

\* NewIncommingConnection: as above, but a banned peer is refused (Q3: nothing is written)
Incoming(p) ==
    /\ Api("Incoming") /\ ~hnd[p].in
    /\ LET banned == db[p].in /\ db[p].ban # 0 IN
       /\ hnd' = IF banned THEN hnd ELSE [hnd EXCEPT ![p] = IF db[p].in THEN AsHandle(db[p]) ELSE Fresh]
       /\ ret' = IF banned THEN 0 ELSE 1
    /\ UNCHANGED <<db, disk, fill, dfill, gban>>

\* ver: the version message was just handled (Services and NodeAgent taken from it, client/network/tick.go)
Alive(p, ver) ==
    /\ Api("Alive") /\ hnd[p].in
    /\ LET h0 == hnd[p]
           h1 == IF ver THEN [h0 EXCEPT !.sv = SvcOf(p), !.ag = 1] ELSE h0
           h2 == [h1 EXCEPT !.t = now]
       IN IF ~h2.al \/ now - h2.ls >= SaveEvery
          THEN SaveAs(p, [h2 EXCEPT !.al = TRUE])
          ELSE hnd' = [hnd EXCEPT ![p] = h2] /\ db' = db
    /\ ret' = 0
    /\ UNCHANGED <<disk, fill, dfill, gban>>

Dead(p) ==
    /\ Api("Dead") /\ hnd[p].in
    /\ LET h == hnd[p] IN
       IF ~h.al /\ h.ban = 0 /\ Count > MinPeers
       THEN db' = [db EXCEPT ![p] = NoRec] /\ hnd' = hnd
       ELSE SaveAs(p, [h EXCEPT !.t = now - DeadBack])
    /\ ret' = 0
    /\ UNCHANGED <<disk, fill, dfill, gban>>

\* Q2: "p.Banned == 0" is evaluated after p.Banned = now and is never true
Ban(p, r) ==
    /\ Api("Ban") /\ hnd[p].in /\ ~hnd[p].bh
    /\ LET h == [hnd[p] EXCEPT !.ban = now, !.bh = TRUE] IN
       IF (h.rs = 0 /\ r # 0) \/ now - h.ls >= SaveEvery
       THEN SaveAs(p, [h EXCEPT !.rs = r])
       ELSE hnd' = [hnd EXCEPT ![p] = h] /\ db' = db
    /\ gban' = gban \cup {p}
    /\ ret' = 0
    /\ UNCHANGED <<disk, fill, dfill>>

\* ad.Save() (DoNetwork when the connection ends; "peers add" sets Time = now first: tm)
Save(p, tm) ==
    /\ Api("Save") /\ hnd[p].in
    /\ SaveAs(p, IF tm THEN [hnd[p] EXCEPT !.t = now] ELSE hnd[p])
    /\ ret' = 0
    /\ UNCHANGED <<disk, fill, dfill, gban>>

\* the connection object is gone
Drop(p) ==
    /\ Api("Drop") /\ hnd[p].in
    /\ hnd' = [hnd EXCEPT ![p] = NoHnd]
    /\ ret' = 0
    /\ UNCHANGED <<db, disk, fill, dfill, gban>>

\* one entry of an addr message: NewPeer(30 bytes) ; known: only a never-alive record takes a newer Time ; new: CameFromIP
NewPeer(p, age, f) ==
    /\ Api("NewPeer")
    /\ LET a  == [in |-> TRUE, t |-> now - age, al |-> FALSE, ban |-> 0, rs |-> 0, fr |-> f, ag |-> 0, sv |-> SvcOf(p)]
           op == db[p]
       IN db' = [db EXCEPT ![p] = IF op.in THEN Enc(IF ~op.al /\ a.t > op.t THEN [op EXCEPT !.t = a.t] ELSE op)
                                           ELSE Enc(a)]
    /\ ret' = 0
    /\ UNCHANGED <<hnd, disk, fill, dfill, gban>>

\* a record of a chosen class: g = index of its age, a = seen alive, b = 0 not banned / index of the age of its ban
SeedAges == <<0, 2000, 5000, 11000>>       \* minutes: fresh, 33 h (> 1 day), 83 h (> 3 days), 7.6 days (> 7 days)
SeedRec(p, c) ==
    LET g == c % 10
        a == (c \div 10) % 10
        b == c \div 100
    IN [in |-> TRUE, t |-> now - SeedAges[g], al |-> a = 1, ban |-> IF b = 0 THEN 0 ELSE now - SeedAges[b],
        rs |-> IF b = 0 THEN 0 ELSE 1, fr |-> 0, ag |-> 0, sv |-> SvcOf(p)]
Seed(p, c) ==
    /\ Api("Seed") /\ ~hnd[p].in           \* one writer per peer: client/network keeps one connection (one PeerAddr) per UniqID
    /\ db' = [db EXCEPT ![p] = Enc(SeedRec(p, c))]
    /\ gban' = IF c \div 100 # 0 THEN gban \cup {p} ELSE gban \ {p}
    /\ ret' = 0
    /\ UNCHANGED <<hnd, disk, fill, dfill>>

Unban(p) ==
    /\ Api("Unban") /\ db[p].in /\ db[p].ban # 0
    /\ db' = [db EXCEPT ![p] = Enc([db[p] EXCEPT !.ban = 0])]
    /\ gban' = gban \ {p}
    /\ ret' = 0
    /\ UNCHANGED <<hnd, disk, fill, dfill>>

DeleteFromIP(f) ==
    /\ Api("DeleteFromIP") /\ f # 0
    /\ LET del == {p \in Peers : db[p].in /\ db[p].fr = f} IN
       /\ db' = [p \in Peers |-> IF p \in del THEN NoRec ELSE db[p]]
       /\ gban' = gban \ del
       /\ ret' = Cardinality(del)
    /\ UNCHANGED <<hnd, disk, fill, dfill>>

-----------------------------------------------------------------------------
(* ExpirePeers *)

RECURSIVE SeqsOf(_)
SeqsOf(S) == IF S = {} THEN {<<>>} ELSE UNION {{<<x>> \o s : s \in SeqsOf(S \ {x})} : x \in S}

\* sort.Sort(recs) with Less = Time greater: newest first, equal Times in any order
Orders(d) == {s \in SeqsOf(Present(d)) : \A i \in 1..(Len(s) - 1) : d[s[i]].t >= d[s[i + 1]].t}

DeadRule(r) == IF BugExpSign THEN r.t > now - ExpDead ELSE r.t < now - ExpDead

\* the loop body for one explicit record, from the oldest (index i of ord) up; st = [d, cnt]
RECURSIVE Walk(_, _, _, _)
Walk(ord, i, stop, st) ==
    IF i < stop THEN st
    ELSE LET p == ord[i]
             r == st.d[p]
             del == [d |-> [st.d EXCEPT ![p] = NoRec], cnt |-> st.cnt - 1]
         IN IF ~r.al
            THEN IF st.cnt > FullPeers \/ DeadRule(r)
                 THEN (IF del.cnt <= MinPeers THEN del ELSE Walk(ord, i - 1, stop, del))
                 ELSE st                                          \* break: everything above is newer
            ELSE IF r.t < now - ExpAlive /\ (r.ban = 0 \/ r.ban < now - ExpBan)
                 THEN (IF del.cnt <= MinPeers THEN del ELSE Walk(ord, i - 1, stop, del))
                 ELSE Walk(ord, i - 1, stop, st)

\* sorted list = FillNew | ord | FillKeep | FillDead ; indices MinPeers+1 .. len-1 are examined, from the last one down
ExpireRun(ord) ==
    LET total == Count IN
    IF total <= TrigPeers THEN [d |-> db, f |-> fill]
    ELSE LET e0 == total - MinPeers - 1            \* number of records examined (Q5: never reaches the floor)
             k1 == Min(fill.dead, e0)              \* ancient never-alive records: always deleted
             e1 == e0 - k1
             k2 == Min(fill.keep, e1)              \* alive, banned in the future: skipped
             e2 == e1 - k2
             k3 == Min(Len(ord), e2)
             st == Walk(ord, Len(ord), Len(ord) - k3 + 1, [d |-> db, cnt |-> total - k1])
         IN [d |-> st.d, f |-> [fill EXCEPT !.dead = @ - k1]]

Expire(ord) ==
    /\ Api("Expire") /\ ord \in Orders(db)
    /\ LET x == ExpireRun(ord) IN db' = x.d /\ fill' = x.f /\ gban' = gban \ {p \in Peers : db[p].in /\ ~x.d[p].in}
    /\ ret' = 0
    /\ UNCHANGED <<hnd, disk, dfill>>

\* the result does not depend on how equal Times were ordered
ExpireDet == \A o1, o2 \in Orders(db) : ExpireRun(o1) = ExpireRun(o2)

-----------------------------------------------------------------------------
(* GetRecentPeers(limit, sort_result, ignorePeer) *)

\* the filters of the callers: HandleGetaddr, the two calls of NetworkTick (alive / never tried), none
Ignore(f, r) ==
    CASE f = "getaddr"    -> r.ban # 0 \/ ~r.al
      [] f = "conn_alive" -> r.ban # 0 \/ ~r.al \/ r.sv # 2
      [] f = "conn_new"   -> r.ban # 0 \/ r.al \/ r.sv # 2
      [] OTHER            -> FALSE

Elig(f) == {p \in Peers : db[p].in /\ IpOK(p) /\ (BugNoFilter \/ ~Ignore(f, db[p]))}

\* how many records come back (Q4), which must be among them, which may
RecentN(f, lim, srt) ==
    LET e == Cardinality(Elig(f)) IN IF srt THEN Min(lim, e) ELSE Min(Max(lim, 1), e)
Recent(f, lim, srt) ==
    LET E == Elig(f)
        n == RecentN(f, lim, srt)
    IN IF n = 0 THEN [f |-> f, lim |-> lim, srt |-> srt, n |-> 0, must |-> {}, may |-> {}]
       ELSE IF ~srt THEN [f |-> f, lim |-> lim, srt |-> srt, n |-> n, must |-> IF n = Cardinality(E) THEN E ELSE {}, may |-> E]
       ELSE LET c == CHOOSE c \in {db[p].t : p \in E} :
                        /\ Cardinality({p \in E : db[p].t > c}) < n
                        /\ Cardinality({p \in E : db[p].t >= c}) >= n
            IN [f |-> f, lim |-> lim, srt |-> srt, n |-> n, must |-> {p \in E : db[p].t > c}, may |-> {p \in E : db[p].t >= c}]

\* res (a sequence of peer ids) is an acceptable answer
RecentOK(res, f, lim, srt) ==
    LET q == Recent(f, lim, srt)
        S == {res[i] : i \in 1..Len(res)}
    IN /\ Len(res) = q.n /\ Cardinality(S) = q.n
       /\ q.must \subseteq S /\ S \subseteq q.may
       /\ srt => \A i \in 1..(Len(res) - 1) : db[res[i]].t >= db[res[i + 1]].t

\* the call itself changes nothing
GetRecent(f, lim, srt) == "GetRecent" \in Acts /\ open /\ UNCHANGED vars

-----------------------------------------------------------------------------
(* durability: the Qdb abstraction *)

\* PeerDB.Sync(): everything in memory is on disk when the store is next touched
Sync ==
    /\ Api("Sync")
    /\ disk' = db /\ dfill' = fill /\ ret' = 0
    /\ UNCHANGED <<db, hnd, fill, gban>>

\* ClosePeerDB(): Sync, Defrag(true), Close; the process ends
Close ==
    /\ "Close" \in Acts /\ open /\ ops < MaxOps /\ ops' = ops + 1
    /\ open' = FALSE /\ disk' = db /\ dfill' = fill /\ clean' = <<db, fill>>
    /\ db' = EmptyDb /\ hnd' = NoHandles /\ ret' = 0
    /\ UNCHANGED <<now, fill, gban, ticks, reopens>>

\* the process dies: what was not synced is lost, with it the bans that were only in memory
Crash ==
    /\ "Crash" \in Acts /\ open /\ ops < MaxOps /\ ops' = ops + 1
    /\ open' = FALSE /\ clean' = <<>>
    /\ db' = EmptyDb /\ hnd' = NoHandles /\ ret' = 0
    /\ gban' = {p \in gban : disk[p].in /\ disk[p].ban # 0}
    /\ UNCHANGED <<now, disk, fill, dfill, ticks, reopens>>

\* InitPeers() in a new process
Reopen ==
    /\ "Reopen" \in Acts /\ ~open /\ reopens < MaxReopen
    /\ reopens' = reopens + 1
    /\ open' = TRUE /\ db' = disk /\ fill' = dfill /\ ret' = 0
    /\ UNCHANGED <<now, disk, hnd, dfill, gban, clean, ops, ticks>>

\* time passes; only what is durable can be aged by the harness, hence db = disk
Tick(d) ==
    /\ "Tick" \in Acts /\ open /\ ticks < MaxTicks /\ db = disk /\ fill = dfill
    /\ ticks' = ticks + 1 /\ now' = now + d /\ ret' = 0
    /\ UNCHANGED <<open, db, disk, hnd, fill, dfill, gban, clean, ops, reopens>>

-----------------------------------------------------------------------------
ExpireStep == \E ord \in Orders(db) : Expire(ord)
\* the same, for the action properties: cheap tests first (TLC evaluates every property on every transition)
IsExpire == open /\ open' /\ ops' = ops + 1 /\ now' = now /\ hnd' = hnd /\ disk' = disk /\ dfill' = dfill /\ ExpireStep

Next ==
    \/ \E p \in Peers : Connect(p) \/ Incoming(p) \/ Dead(p) \/ Drop(p) \/ Unban(p)
    \/ \E p \in Peers, b \in BOOLEAN : Alive(p, b) \/ Save(p, b)
    \/ \E p \in Peers, r \in Reasons : Ban(p, r)
    \/ \E p \in Peers, a \in Ages, f \in Froms : NewPeer(p, a, f)
    \/ \E p \in Peers, c \in Seeds : Seed(p, c)
    \/ \E f \in Froms : DeleteFromIP(f)
    \/ ExpireStep
    \/ \E f \in Filters, l \in Limits, s \in BOOLEAN : GetRecent(f, l, s)
    \/ Sync \/ Close \/ Crash \/ Reopen
    \/ \E d \in Ticks : Tick(d)

Spec == Init /\ [][Next]_vars

-----------------------------------------------------------------------------
(* Properties *)

TypeOK ==
    /\ open \in BOOLEAN /\ now \in Nat /\ gban \subseteq Peers
    /\ \A p \in Peers : /\ db[p].t \in Nat /\ db[p].ban \in Nat /\ db[p].rs \in Reasons \cup {0} /\ db[p].fr \in Froms \cup {0}
                        /\ hnd[p].ls \in Nat /\ (db[p].in => db[p].t > 0)
    /\ fill.dead \in 0..FillDead /\ fill.new = FillNew /\ fill.keep = FillKeep

\* P1  a banned peer is not offered by any production caller of GetRecentPeers until the ban is lifted
\*     (Unban, the record expired / was deleted, or the ban was lost with unsynced data in a crash)
NoBannedReturned ==
    open => \A p \in gban, f \in ProdFilters : p \notin Elig(f)

\* P1' Ban() with a reason leaves a banned record behind
BanSticks == [][\A p \in Peers : (p \in gban' /\ hnd'[p] # hnd[p] /\ \E r \in Reasons \ {0} : Ban(p, r)) => (db'[p].in /\ db'[p].ban # 0)]_vars

\* P2  Bytes() ; NewPeer() is the identity on every PeerAddr the package holds
CodecIdentity == \A p \in Peers : hnd[p].in => Enc(hnd[p]) = Proj(hnd[p])
\*     and on every stored record (re-encoding what was decoded changes nothing)
StoredCanonical == \A p \in Peers : db[p].in => Enc(AsHandle(db[p])) = db[p]

\* P3  ExpirePeers removes only what its rule allows
Newer(d, f, p) == f.new + Cardinality({q \in Present(d) : d[q].t > d[p].t})      \* records certainly sorted before p
Ties(d, p) == Cardinality({q \in Present(d) \ {p} : d[q].t = d[p].t})
TimeExpirable(r) ==
    IF ~r.al THEN r.t < now - ExpDead
    ELSE r.t < now - ExpAlive /\ (r.ban = 0 \/ r.ban < now - ExpBan)
ExpireSafe ==
    [][IsExpire =>
        /\ \A p \in Peers : (db[p].in /\ ~db'[p].in) =>
              /\ Newer(db, fill, p) + Ties(db, p) > MinPeers                 \* not among the MinPeers+1 newest
              /\ TimeExpirable(db[p]) \/ (~db[p].al /\ Count > FullPeers)     \* old enough, or never alive and the DB is full
        /\ \A p \in Peers : db'[p].in => db'[p] = db[p]                      \* survivors untouched
        /\ fill'.new = fill.new /\ fill'.keep = fill.keep /\ fill'.dead <= fill.dead
        /\ Count <= TrigPeers => (db' = db /\ fill' = fill)
    ]_vars
\*     never below the floor
ExpireFloor == [][IsExpire => CountOf(db', fill') >= Min(Count, MinPeers + 1)]_vars
\*     and removes everything the rule says: afterwards nothing outside the MinPeers+1 newest is expirable by age,
\*     and either the database is no larger than the configured maximum or no never-alive record is left out there
Outside(d, f, p) == Newer(d, f, p) > MinPeers
DeadOutside(d, f) == (f.dead > 0 /\ CountOf(d, f) > MinPeers + 1) \/ \E p \in Present(d) : ~d[p].al /\ Outside(d, f, p)
ExpireComplete ==
    [][(Count > TrigPeers /\ IsExpire) =>
        /\ \A p \in Peers : (db'[p].in /\ Outside(db', fill', p)) => ~TimeExpirable(db'[p])
        /\ fill'.dead > 0 => CountOf(db', fill') <= MinPeers + 1
        /\ CountOf(db', fill') <= FullPeers \/ ~DeadOutside(db', fill')
    ]_vars

\* P4  Save ; Close ; Reopen preserves every record and its ban state; after a crash the last synced contents come back
ReopenStep == ~open /\ open'
ReopenExact == [][ReopenStep => (db' = disk /\ fill' = dfill /\ (clean # <<>> => <<db', fill'>> = clean))]_vars

\* P5  GetRecentPeers: no duplicates, the limit (Q4 excepted), newest first, only eligible records
RecentWellFormed ==
    open => \A f \in Filters, l \in Limits, s \in BOOLEAN :
        LET q == Recent(f, l, s) IN
        /\ q.must \subseteq q.may /\ q.may \subseteq Elig(f)
        /\ Cardinality(q.must) <= q.n /\ q.n <= Cardinality(q.may)
        /\ (s \/ l >= 1) => q.n <= l
        /\ q.n = Min(Cardinality(Elig(f)), IF s THEN l ELSE Max(l, 1))
        /\ s => \A p \in q.must, x \in Elig(f) \ q.may : db[p].t > db[x].t
        /\ \A p \in Elig(f) : IpOK(p) /\ (f \in ProdFilters => db[p].ban = 0)

\* no comparison of the code sits on its boundary, so a verdict cannot depend on the wall-clock second (harness assumption)
Edges == {SaveEvery, ExpDead, ExpAlive, ExpBan}
NoKnifeEdge ==
    \A p \in Peers :
        /\ db[p].in => (now - db[p].t \notin Edges /\ (db[p].ban # 0 => now - db[p].ban \notin Edges))
        /\ hnd[p].in => (now - hnd[p].ls \notin Edges)
=============================================================================
