---------------------------- MODULE TraceScript ----------------------------
(* Trace validation (R->V) for Script: seeded random programs, far longer than   *)
(* TLC enumerates, were executed by the real interpreter (bare script, P2WSH      *)
(* witness script or tapscript leaf); the per-opcode hook of lib/script (build    *)
(* tag verif) logged, after every processed opcode: position, opcode, whether it  *)
(* was executed, stack / altstack / condition-stack depth and the top element.    *)
(* Every event must be a step of the specification's interpreter (MNext, the      *)
(* one-action-per-opcode-family machine of Script.tla) with exactly that          *)
(* observation, and the verdict must be the one the rules give; the interpreter   *)
(* invariants are evaluated in every state.  Traces are concatenated ("begin").   *)
EXTENDS Script, Json

Trace == ndJsonDeserialize("trace.ndjson")

VARIABLE l
tvars == <<mvars, l>>

Ev(e) == l <= Len(Trace) /\ Trace[l].ev = e /\ l' = l + 1
SeqToSet(q) == {q[i] : i \in 1..Len(q)}

DummyCase == [sig |-> <<>>, pk |-> <<>>, wit |-> <<>>, scr |-> <<>>, tgt |-> 0, tsv |-> "base",
              tx |-> [ver |-> <<0, 2>>, lock |-> <<0, 0>>, seq |-> <<65535, 65534>>, nomatch |-> FALSE],
              kf |-> {}, oracle |-> FALSE, sigok |-> <<>>]
NoEnv == [F |-> {}, sv |-> "base", p |-> <<>>, sid |-> 0, C |-> DummyCase, len |-> 0]

TInit == env = NoEnv /\ pc = 1 /\ ist = InitState(<<>>, 0) /\ l = 1 /\ TLCSet(1, 1)

TBegin ==
    /\ Ev("begin")
    /\ env' = [F |-> SeqToSet(Trace[l].flags), sv |-> Trace[l].sv, p |-> Trace[l].prog, sid |-> 0, C |-> DummyCase, len |-> Trace[l].len]
    /\ pc' = 1
    /\ ist' = InitState(<<>>, 100000)

\* a script of the old kinds that is longer than 10000 bytes is refused before its first opcode
TooLong == env.sv \in {"base", "v0"} /\ env.len > 10000

\* tapscript: an OP_SUCCESSx anywhere decides before anything is executed; an undecodable opcode before it fails
Pre == IF env.sv = "tap" THEN SuccessScan(env.p, 1) ELSE 0

TOp ==
    /\ Ev("op")
    /\ ~TooLong /\ Pre = 0
    /\ Trace[l].pos = pc - 1
    /\ pc <= Len(env.p) /\ Trace[l].op = env.p[pc].o
    /\ Trace[l].exec = (\A i \in 1..Len(ist.ex) : ist.ex[i])
    /\ MNext                                                   \* one step of the specification's interpreter
    /\ ist'.ok
    /\ Len(ist'.st) = Trace[l].depth
    /\ Len(ist'.alt) = Trace[l].alt
    /\ Len(ist'.ex) = Trace[l].cond
    /\ (Trace[l].depth > 0 => ist'.st[Len(ist'.st)] = Trace[l].top)

\* the verdict: the script stopped exactly where the rules stop it, and the result is the rules'
Verdict ==
    IF TooLong \/ Pre < 0 THEN FALSE
    ELSE IF Pre > 0 THEN "DISCOURAGE_OP_SUCCESS" \notin env.F
    ELSE IF pc <= Len(env.p) THEN FALSE
    ELSE /\ Len(ist.ex) = 0
         /\ Len(ist.st) > 0 /\ Bool(ist.st[Len(ist.st)])
         /\ (env.sv \in {"v0", "tap"} => Len(ist.st) = 1)

TEnd ==
    /\ Ev("end")
    /\ ist.ok
    /\ (pc <= Len(env.p) /\ ~TooLong /\ Pre = 0) => ~Step(ist, env.p[pc], pc, env).ok     \* it did not stop early
    /\ Trace[l].res = Verdict
    /\ UNCHANGED mvars

TNext == TBegin \/ TOp \/ TEnd
TSpec == TInit /\ [][TNext]_tvars

TInterp == StackBound /\ OpCountBound /\ ElementBound /\ (ist.ok => Len(ist.ex) <= pc - 1)

HighWater == TLCSet(1, IF l > TLCGet(1) THEN l ELSE TLCGet(1))
Accepted == IF TLCGet(1) = Len(Trace) + 1 THEN TRUE
            ELSE Print(<<"VFREJECT", TLCGet(1)>>, FALSE)
=============================================================================
