---------------------------- MODULE HeaderSyncGen ----------------------------
(* G->R export for HeaderSync: every transition of the bounded model (EmitAt = 0) or every simulated   *)
(* behaviour of length EmitAt, with the model's prediction after the last step: tip, UTXO set          *)
(* (unew/gone), which indexed nodes have data, the index itself, the client's bookkeeping, and the     *)
(* finding the step runs into (then the driver expects exactly that failure of the real code).         *)
EXTENDS HeaderSync, Json

CONSTANT EmitAt

VARIABLE h
gvars == <<hvars, h>>
GView == hvars

SetToSeq(S) == LET RECURSIVE F(_) F(s) == IF s = {} THEN <<>> ELSE LET x == CHOOSE y \in s : TRUE IN <<x>> \o F(s \ {x}) IN F(S)

Pred == [tip |-> tip',
         unew |-> SetToSeq({e \in utxo' : e.tx > BaseH}),
         gone |-> SetToSeq({t \in RelevantBase : [tx |-> t, vout |-> 1, h |-> t] \notin utxo'}),
         hdrs |-> SetToSeq(known'),
         hasdata |-> SetToSeq(known' \cap has'),
         b2g |-> SetToSeq(b2g'), rcvd |-> SetToSeq(rcvd'), disc |-> SetToSeq(disc'), cache |-> cache',
         retry |-> retry', hiacc |-> hiAcc',
         acc |-> last'.accepted, later |-> last'.later, viol |-> SetToSeq(last'.viol),
         kf |-> kf', notes |-> SetToSeq(note')]

Strip(r) == [a |-> r.a, b |-> r.b]
Log(a, b) == h' = Append(h, [a |-> a, b |-> b, p |-> Pred])

Scenario == [blk |-> [b \in Blocks |-> BlkDef[b]], tx |-> TxDef, baseh |-> BaseH]

GInit == HInit /\ h = <<>> /\ PrintT(<<"VFS", ToJson(Scenario)>>)

GStep ==
    \/ \E b \in Blocks : AcceptHeader(b) /\ Log("AcceptHeader", b)
    \/ \E b \in Blocks : DeliverData(b) /\ Log("DeliverData", b)
    \/ \E b \in Blocks : DeliverBlock(b) /\ Log("DeliverBlock", b)
    \/ RetryStep /\ Log("RetryStep", 0)

Emit ==
    IF EmitAt = 0
    THEN PrintT(<<"VFT", ToJson([path |-> [i \in 1..Len(h) |-> Strip(h[i])], last |-> h'[Len(h')]])>>)
    ELSE (Len(h') = EmitAt \/ kf' # "") => PrintT(<<"VFT", ToJson([steps |-> h'])>>)

GNext == GStep /\ Emit
GSpec == GInit /\ [][GNext]_gvars
=============================================================================
