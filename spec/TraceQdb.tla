----------------------------- MODULE TraceQdb -----------------------------
(* Trace validation (R->V and fault enumeration): a recorded history of the   *)
(* real qdb.DB - API calls, every hook between two file operations            *)
(* (verif.Point "qdb_<pc>"), process deaths ("Crash": SIGKILL at a hook or an  *)
(* abandoned process) - must be a behaviour of Qdb.  Every observation (Get,   *)
(* pairs handed to a Browse walk, Count, contents after NewDBExt) must be what *)
(* the specification's state says, and at every hook the directory (which      *)
(* files exist, their sizes, FINI complete or not) must be the specification's *)
(* files - so a file operation that has no hook shows at the next hook.        *)
(* After a Crash the Open events that follow are the recovery: the recovered   *)
(* contents are accepted only if they are what Qdb's Reopen steps compute from *)
(* the files the crash left; DurableAfterReopen / MapEquivalence are evaluated *)
(* on those states.  Many runs are concatenated with "Reset".                  *)
EXTENDS Qdb, Json

Trace == ndJsonDeserialize("trace.ndjson")
CONSTANT VLenCodes       \* value lengths of this run: {v * 100000 + length}
VLenTrace == [v \in Vals |-> (CHOOSE c \in VLenCodes : c \div 100000 = v) % 100000]

VARIABLE l
tvars == <<vars, l>>

T == Trace[l]
Ev(e) == l <= Len(Trace) /\ T.ev = e /\ l' = l + 1

Pairs(s) == {<<s[i][1], s[i][2]>> : i \in 1..Len(s)}
Firsts(s) == {s[i][1] : i \in 1..Len(s)}
MinN(a, b) == IF a < b THEN a ELSE b

TInit == Init /\ l = 1 /\ TLCSet(1, 1)

TReset ==
    /\ Ev("Reset")
    /\ ResetVolatile
    /\ datF' = <<>> /\ idxF' = [i \in 0..1 |-> NoIdx] /\ logF' = NoLog
    /\ ref' = [k \in Keys |-> 0] /\ refNB' = {} /\ synced' = [k \in Keys |-> 0]
    /\ since' = [k \in Keys |-> {}] /\ written' = [k \in Keys |-> {}]
    /\ failed' = FALSE /\ ops' = 0 /\ crashes' = 0 /\ reopens' = 0

TBrowse(all) ==
    LET vis == Firsts(T.br) IN
    /\ vis \subseteq Visitable(all)
    /\ IF T.abort = 0 THEN vis = Visitable(all)
       ELSE Cardinality(vis) = MinN(T.abort, Cardinality(Visitable(all)))
    /\ Pairs(T.br) = {<<k, ContentOf(mem[k])>> : k \in vis}
    /\ Len(T.br) = Cardinality(vis)
    /\ BrowseOp(all, vis, T.k, T.f)

ContAgrees ==
    ldData => /\ Len(T.cont) = Len(Sorted(Keys))
              /\ \A i \in 1..Len(T.cont) : T.cont[i] = ContentOf(mem'[Sorted(Keys)[i]])

\* the directory as the harness saw it at the hook = the files of the specification after the step
RECURSIVE SumLen(_, _)
SumLen(s, i) == IF i > Len(s) THEN 0 ELSE (IF s[i] \in Vals THEN VLen[s[i]] ELSE 0) + SumLen(s, i + 1)
RECURSIVE SumEnt(_, _)
SumEnt(s, i) == IF i > Len(s) THEN 0 ELSE (IF s[i].del THEN 12 ELSE 24) + SumEnt(s, i + 1)
FsAgrees ==
    /\ {T.dat[i][1] : i \in 1..Len(T.dat)} = DOMAIN datF'
    /\ Len(T.dat) = Cardinality(DOMAIN datF')
    /\ \A i \in 1..Len(T.dat) :
          LET f == datF'[T.dat[i][1]] IN T.dat[i][2] = (IF f.hdr THEN 4 ELSE 0) + SumLen(f.cells, 1)
    /\ \A i \in 0..1 :
          T.idx[i + 1] = IF ~idxF'[i].ex THEN <<0, 0>>
                         ELSE IF idxF'[i].fini THEN <<2, 16 + 24 * Cardinality(idxF'[i].ents)>> ELSE <<1, 0>>
    /\ T.log = IF ~logF'.ex THEN <<0, 0>> ELSE <<1, (IF logF'.hdr THEN 4 ELSE 0) + SumEnt(logF'.ents, 1)>>

Hook(e, A) == Ev(e) /\ A /\ FsAgrees

TNext ==
    \/ TReset
    \/ Ev("Put") /\ Put(T.k, T.v, T.fl)
    \/ Ev("Del") /\ Del(T.k)
    \/ Ev("Get") /\ Get(T.k) /\ ~failed' /\ T.get = GetResult(T.k)
    \/ Ev("Browse") /\ TBrowse(FALSE) /\ ~failed'
    \/ Ev("BrowseAll") /\ TBrowse(TRUE) /\ ~failed'
    \/ Ev("ApplyFlags") /\ ApplyFlags(T.k, T.f)
    \/ Ev("Count") /\ Quiet /\ T.cnt = CountObs /\ UNCHANGED vars
    \/ Ev("Defrag") /\ Defrag(T.b1)
    \/ Ev("Sync") /\ Sync
    \/ Ev("NoSync") /\ NoSync
    \/ Ev("Close") /\ Close
    \/ Ev("Open") /\ Open(T.b1, T.b2)
    \/ Ev("Crash") /\ (IF open \/ pc # "idle" THEN Crash ELSE UNCHANGED vars)
    \* the hooks: the code has just completed the file operation of that step
    \/ Hook("sync_begin", SyncBegin)
    \/ Hook("dat_create", DatCreate)
    \/ Hook("dat_hdr", DatHdr)
    \/ Hook("sync_data", SyncData) /\ ~failed'
    \/ Hook("log_create", LogCreate)
    \/ Hook("log_hdr", LogHdr)
    \/ Hook("log_append", LogAppend)
    \/ Hook("sync_end", SyncEnd)
    \/ Hook("defrag_begin", DefragBegin)
    \/ Hook("defrag_flush", DefragFlush) /\ ~failed'
    \/ Hook("idx_create", IdxCreate)
    \/ Hook("idx_write", IdxWrite)
    \/ Hook("log_remove", LogRemove)
    \/ Hook("idx_remove", IdxRemove)
    \/ Hook("dat_remove", DatRemove)
    \/ Hook("cleanup_end", CleanupEnd)
    \/ Hook("defrag_end", DefragEnd)
    \/ Hook("close_end", CloseEnd)
    \/ Hook("load_idx", LoadIdx)
    \/ Hook("load_log", LoadLog)
    \/ Hook("open_end", OpenEnd) /\ ~failed' /\ ContAgrees

TSpec == TInit /\ [][TNext]_tvars

IsReset == l <= Len(Trace) /\ Trace[l].ev = "Reset"
TDurableAfterReopen == [][IsReset \/ DurableStep]_tvars

HighWater == TLCSet(1, IF l > TLCGet(1) THEN l ELSE TLCGet(1))
Accepted == IF TLCGet(1) = Len(Trace) + 1 THEN TRUE
            ELSE Print(<<"VFREJECT", TLCGet(1)>>, FALSE)
=============================================================================
