------------------------------ MODULE LedgerGen ------------------------------
(* G->R export for Ledger: every transition of the bounded model, with the    *)
(* model's prediction (verdict, tip, UTXO set) after the last step.           *)
EXTENDS LedgerMC, Json

CONSTANT EmitAt

VARIABLE h
gvars == <<vars, h>>
GView == vars

SetToSeq(S) == LET RECURSIVE F(_) F(s) == IF s = {} THEN <<>> ELSE LET x == CHOOSE y \in s : TRUE IN <<x>> \o F(s \ {x}) IN F(S)

\* the UTXO set in compact form: entries above the base chain + base coinbases that are gone
Pred == [tip |-> tip',
         unew |-> SetToSeq({e \in utxo' : e.tx > BaseH}),
         gone |-> SetToSeq({t \in 1..BaseH : [tx |-> t, vout |-> 1, h |-> t] \notin utxo'}),
         acc |-> last'.accepted, later |-> last'.later, viol |-> SetToSeq(last'.viol), bal |-> balOn',
         kf |-> IF KF_TieAfterFailedReorg THEN "tie-after-failed-reorg" ELSE ""]

Strip(r) == [a |-> r.a, b |-> r.b, p |-> [acc |-> r.p.acc, later |-> r.p.later, viol |-> r.p.viol, pathonly |-> TRUE]]
Log(a, b) == h' = Append(h, [a |-> a, b |-> b, p |-> Pred])

Scenario == [blk |-> [b \in Blocks |-> BlkDef[b]], tx |-> TxDef, baseh |-> BaseH]

GInit == Init /\ h = <<>> /\ PrintT(<<"VFS", ToJson(Scenario)>>)

GStep ==
    \/ \E b \in Blocks : Deliver(b) /\ Log("Deliver", b)
    \/ BalEnable /\ Log("BalEnable", balOn')      \* b = index of the limit the index comes back with
    \/ BalDisable /\ Log("BalDisable", 0)
    \/ Idle /\ Log("Idle", 0)

Emit ==
    IF EmitAt = 0
    THEN PrintT(<<"VFT", ToJson([path |-> [i \in 1..Len(h) |-> Strip(h[i])], last |-> h'[Len(h')]])>>)
    ELSE (Len(h') = EmitAt) => PrintT(<<"VFT", ToJson([steps |-> h'])>>)

GNext == GStep /\ Emit
GSpec == GInit /\ [][GNext]_gvars
=============================================================================
