---------------------------- MODULE BlockStore ----------------------------
(***************************************************************************)
(* lib/chain/blockdb.go : the block store (BlockDB).                       *)
(*                                                                         *)
(* One action per public call / critical section of the code:              *)
(*   Add        BlockAdd            (mutex section)                        *)
(*   WriteOne   writeOne            (pop queue, roll-over, data write,     *)
(*                                   index write, publish)                 *)
(*   Invalid    BlockInvalid        (queued => forgotten,                  *)
(*                                   written => flag rewrite at ipos)      *)
(*   Trusted    BlockTrusted / BlockAdd of an already known block          *)
(*   Get        BlockGetInternal    (cache hit | disk read | error)        *)
(*   Close      Close               (writeAll, files closed)               *)
(*   Reopen     NewBlockDBExt + LoadBlockIndex (positions are recomputed   *)
(*              from the index file - this is where C16 was broken)        *)
(*                                                                         *)
(* A data file is a sequence of cells; each cell remembers which block's   *)
(* bytes were written there last, so an overwrite is visible as a cell     *)
(* that no longer belongs to the block whose record points at it.          *)
(* The index file is a sequence of records; a write at record position i   *)
(* replaces record i (os.File.Write at the current offset).                *)
(***************************************************************************)
EXTENDS Integers, Sequences, FiniteSets, TLC

CONSTANTS
    Blocks,     \* set of block ids, naturals >= 1
    BLen,       \* [Blocks -> 1..k] : cells a block occupies in a data file
    MaxCache,   \* capacity of the block cache (>= 1)
    MaxDat,     \* maximum data-file size in cells, 0 = unlimited
    Keep,       \* number of data files to keep (0 = all)
    MaxRecs,    \* bound: index records + queued blocks
    MaxReopen,  \* bound: number of Close/Reopen cycles
    FixedLoad   \* TRUE = LoadBlockIndex advances its position over invalid-flagged records

VARIABLES
    open,       \* a BlockDB object exists and LoadBlockIndex has run
    index,      \* in-memory blockIndex : [Blocks -> IdxEnt]
    queue,      \* blocksToWrite channel (FIFO of block ids)
    cache,      \* block cache in LRU order (least recently used first)
    idxF,       \* blockchain.new : sequence of records
    datF,       \* data files : [file number -> sequence of cells]
    gone,       \* data files removed by the retention rule
    maxIdx,     \* maxidxfilepos / 136 : number of records the store believes the index file holds
    maxPos,     \* maxdatfilepos (cells)
    maxFile,    \* maxdatfileidx
    reopens,    \* number of Reopen steps so far
    stored,     \* ghost: blocks handed to the store and not marked invalid since
    trustG,     \* ghost: blocks the user has marked trusted (while stored)
    walk        \* last result of LoadBlockIndex's callback: sequence of [b, tr]

vars == <<open, index, queue, cache, idxF, datF, gone, maxIdx, maxPos, maxFile, reopens, stored, trustG, walk>>

NoEnt == [in |-> FALSE, ipos |-> 0, tr |-> FALSE, file |-> 0, pos |-> 0, len |-> 0]
Files == 0..(MaxRecs + 1)

Max(a, b) == IF a > b THEN a ELSE b
BLenDef == [b \in Blocks |-> 1 + (b % 2)]   \* default lengths for model checking: 2,1,2,...
Range(s) == {s[i] : i \in 1..Len(s)}
Without(s, x) == SelectSeq(s, LAMBDA e : e # x)

\* cells pos+1 .. pos+len of a file get owner b; the file grows if needed
WriteCells(cells, pos, len, b) ==
    [i \in 1..Max(Len(cells), pos + len) |->
        IF i > pos /\ i <= pos + len THEN b
        ELSE IF i <= Len(cells) THEN cells[i] ELSE 0]

ReplaceAt(s, i, r) ==
    IF i = Len(s) + 1 THEN Append(s, r)
    ELSE [j \in 1..Len(s) |-> IF j = i THEN r ELSE s[j]]

\* what reading index[b] from disk yields: b when every cell still belongs to b
DiskRead(b) ==
    LET e == index[b] IN
    IF e.file \in gone THEN "gone"
    ELSE IF /\ e.pos + e.len <= Len(datF[e.file])
            /\ \A i \in (e.pos + 1)..(e.pos + e.len) : datF[e.file][i] = b
         THEN "ok" ELSE "corrupt"

\* addToCache: refresh if present, else evict least-recently-used WRITTEN entries while full
RECURSIVE Evict(_, _)
Evict(c, idx) ==
    IF Len(c) < MaxCache THEN c
    ELSE LET cand == {i \in 1..Len(c) : idx[c[i]].ipos # 0} IN
         IF cand = {} THEN c
         ELSE LET i == CHOOSE x \in cand : \A y \in cand : x <= y IN
              Evict(SubSeq(c, 1, i - 1) \o SubSeq(c, i + 1, Len(c)), idx)

AddToCache(c, idx, b) ==
    IF b \in Range(c) THEN Append(Without(c, b), b)
    ELSE Append(Evict(c, idx), b)

TypeOK ==
    /\ open \in BOOLEAN
    /\ queue \in Seq(Blocks)
    /\ cache \in Seq(Blocks)
    /\ maxIdx \in Nat /\ maxPos \in Nat /\ maxFile \in Nat
    /\ stored \subseteq Blocks /\ trustG \subseteq Blocks

Init ==
    /\ open = TRUE          \* fresh directory, NewBlockDBExt + LoadBlockIndex of an empty index
    /\ index = [b \in Blocks |-> NoEnt]
    /\ queue = <<>>
    /\ cache = <<>>
    /\ idxF = <<>>
    /\ datF = [f \in Files |-> <<>>]
    /\ gone = {}
    /\ maxIdx = 0 /\ maxPos = 0 /\ maxFile = 0
    /\ reopens = 0
    /\ stored = {} /\ trustG = {}
    /\ walk = <<>>

-----------------------------------------------------------------------------
\* flag rewrite at index[b].ipos (setBlockFlag): read-modify-write of the flag byte of THAT record
SetFlag(f, b, which) ==
    LET i == index[b].ipos IN
    IF i = 0 \/ i > Len(f) THEN f     \* ReadAt/WriteAt at -1 or beyond EOF: (WriteAt beyond EOF is not reachable)
    ELSE [f EXCEPT ![i] = IF which = "tr" THEN [@ EXCEPT !.tr = TRUE] ELSE [@ EXCEPT !.inv = TRUE]]

Add(b, tr) ==
    /\ open
    /\ Len(idxF) + Len(queue) < MaxRecs
    /\ IF ~index[b].in
       THEN /\ index' = [index EXCEPT ![b] = [NoEnt EXCEPT !.in = TRUE, !.tr = tr]]
            /\ cache' = AddToCache(cache, index', b)
            /\ queue' = Append(queue, b)
            /\ stored' = stored \cup {b}
            /\ trustG' = IF tr THEN trustG \cup {b} ELSE trustG \ {b}
            /\ UNCHANGED idxF
       ELSE /\ IF ~index[b].tr /\ tr
               THEN /\ index' = [index EXCEPT ![b].tr = TRUE]
                    /\ idxF' = SetFlag(idxF, b, "tr")
                    /\ trustG' = IF b \in stored THEN trustG \cup {b} ELSE trustG
               ELSE UNCHANGED <<index, idxF, trustG>>
            /\ UNCHANGED <<cache, queue, stored>>
    /\ UNCHANGED <<open, datF, gone, maxIdx, maxPos, maxFile, reopens, walk>>

\* one iteration of writeOne()
WriteStep ==
    LET b == Head(queue) IN
    /\ queue' = Tail(queue)
    /\ IF ~index[b].in \/ index[b].ipos # 0
       THEN UNCHANGED <<index, idxF, datF, gone, maxIdx, maxPos, maxFile>>   \* "not in the index anymore - discard"
       ELSE LET roll  == MaxDat # 0 /\ maxPos + BLen[b] > MaxDat
                file  == IF roll THEN maxFile + 1 ELSE maxFile
                pos   == IF roll THEN 0 ELSE maxPos
                rec   == [b |-> b, tr |-> index[b].tr, inv |-> FALSE, file |-> file, pos |-> pos, len |-> BLen[b]]
            IN /\ gone' = IF roll /\ Keep # 0 /\ maxFile >= Keep THEN gone \cup {maxFile - Keep} ELSE gone
               /\ datF' = [datF EXCEPT ![file] = WriteCells(@, pos, BLen[b], b)]
               /\ idxF' = ReplaceAt(idxF, maxIdx + 1, rec)
               /\ maxIdx' = maxIdx + 1
               /\ maxPos' = pos + BLen[b]
               /\ maxFile' = file
               /\ index' = [index EXCEPT ![b] = [@ EXCEPT !.ipos = maxIdx + 1, !.file = file, !.pos = pos, !.len = BLen[b]]]

WriteOne ==
    /\ open /\ queue # <<>>
    /\ maxIdx + 1 <= Len(idxF) + 1
    /\ WriteStep
    /\ UNCHANGED <<open, cache, reopens, stored, trustG, walk>>

Invalid(b) ==
    /\ open /\ index[b].in /\ ~index[b].tr       \* the code panics on a trusted block: never called
    /\ IF index[b].ipos = 0
       THEN /\ index' = [index EXCEPT ![b] = NoEnt]
            /\ cache' = Without(cache, b)
            /\ UNCHANGED idxF
       ELSE /\ idxF' = SetFlag(idxF, b, "inv")
            /\ index' = index      \* only the flag on disk changes (until fix f9d6817b setBlockFlag also set cur.trusted here,
                                   \* which made the node skip the script checks of an invalid block delivered again: see C06 family ForkE)
            /\ UNCHANGED cache
    /\ stored' = stored \ {b}
    /\ trustG' = trustG \ {b}
    /\ UNCHANGED <<open, queue, datF, gone, maxIdx, maxPos, maxFile, reopens, walk>>

Trusted(b) ==
    /\ open /\ index[b].in /\ ~index[b].tr
    /\ index' = [index EXCEPT ![b].tr = TRUE]
    /\ idxF' = SetFlag(idxF, b, "tr")
    /\ trustG' = IF b \in stored THEN trustG \cup {b} ELSE trustG
    /\ UNCHANGED <<open, queue, cache, datF, gone, maxIdx, maxPos, maxFile, reopens, stored, walk>>

\* result of BlockGet(b): "ok" (bytes of b), "err", "corrupt" (bytes, but not b's), "gone"
GetResult(b) ==
    IF ~index[b].in THEN "err"
    ELSE IF b \in Range(cache) THEN "ok"
    ELSE IF index[b].ipos = 0 THEN "err"
    ELSE DiskRead(b)

Get(b) ==
    /\ open
    /\ cache' = IF index[b].in /\ (b \in Range(cache) \/ (index[b].ipos # 0 /\ DiskRead(b) \in {"ok", "corrupt"}))
                THEN AddToCache(cache, index, b) ELSE cache
    /\ UNCHANGED <<open, index, queue, idxF, datF, gone, maxIdx, maxPos, maxFile, reopens, stored, trustG, walk>>

\* Close = writeAll + close files; the volatile state is dropped
RECURSIVE Flush(_)
Flush(st) ==  \* st = [queue, index, idxF, datF, gone, maxIdx, maxPos, maxFile]
    IF st.queue = <<>> THEN st
    ELSE LET b == Head(st.queue) IN
         IF ~st.index[b].in \/ st.index[b].ipos # 0
         THEN Flush([st EXCEPT !.queue = Tail(@)])
         ELSE LET roll == MaxDat # 0 /\ st.maxPos + BLen[b] > MaxDat
                  file == IF roll THEN st.maxFile + 1 ELSE st.maxFile
                  pos  == IF roll THEN 0 ELSE st.maxPos
                  rec  == [b |-> b, tr |-> st.index[b].tr, inv |-> FALSE, file |-> file, pos |-> pos, len |-> BLen[b]]
              IN Flush([queue |-> Tail(st.queue),
                        index |-> [st.index EXCEPT ![b] = [@ EXCEPT !.ipos = st.maxIdx + 1, !.file = file, !.pos = pos, !.len = BLen[b]]],
                        idxF  |-> ReplaceAt(st.idxF, st.maxIdx + 1, rec),
                        datF  |-> [st.datF EXCEPT ![file] = WriteCells(@, pos, BLen[b], b)],
                        gone  |-> IF roll /\ Keep # 0 /\ st.maxFile >= Keep THEN st.gone \cup {st.maxFile - Keep} ELSE st.gone,
                        maxIdx |-> st.maxIdx + 1, maxPos |-> pos + BLen[b], maxFile |-> file])

Cur == [queue |-> queue, index |-> index, idxF |-> idxF, datF |-> datF, gone |-> gone,
        maxIdx |-> maxIdx, maxPos |-> maxPos, maxFile |-> maxFile]

Idle ==
    /\ open /\ queue # <<>>
    /\ LET st == Flush(Cur) IN
       /\ queue' = st.queue /\ index' = st.index /\ idxF' = st.idxF /\ datF' = st.datF /\ gone' = st.gone
       /\ maxIdx' = st.maxIdx /\ maxPos' = st.maxPos /\ maxFile' = st.maxFile
    /\ UNCHANGED <<open, cache, reopens, stored, trustG, walk>>

Close ==
    /\ open /\ reopens < MaxReopen
    /\ LET st == Flush(Cur) IN
       /\ idxF' = st.idxF /\ datF' = st.datF /\ gone' = st.gone
    /\ open' = FALSE
    /\ index' = [b \in Blocks |-> NoEnt] /\ queue' = <<>> /\ cache' = <<>>
    /\ maxIdx' = 0 /\ maxPos' = 0 /\ maxFile' = 0
    /\ UNCHANGED <<reopens, stored, trustG, walk>>

\* LoadBlockIndex: fold over the records of the index file
RECURSIVE Load(_, _)
Load(i, st) ==   \* st = [index, maxIdx, maxPos, maxFile, walk]
    IF i > Len(idxF) THEN st
    ELSE LET r == idxF[i] IN
         IF r.inv
         THEN Load(i + 1, IF FixedLoad THEN [st EXCEPT !.maxIdx = @ + 1] ELSE st)
         ELSE LET newer == r.len > 0 /\ r.file > st.maxFile
                  mf == IF newer THEN r.file ELSE st.maxFile
                  mp0 == IF newer THEN 0 ELSE st.maxPos
              IN Load(i + 1,
                      [index |-> [st.index EXCEPT ![r.b] = [in |-> TRUE, ipos |-> st.maxIdx + 1, tr |-> r.tr,
                                                            file |-> r.file, pos |-> r.pos, len |-> r.len]],
                       maxIdx |-> st.maxIdx + 1,
                       maxPos |-> Max(mp0, r.pos + r.len),
                       maxFile |-> mf,
                       walk |-> Append(st.walk, [b |-> r.b, tr |-> r.tr])])

Reopen ==
    /\ ~open
    /\ LET st == Load(1, [index |-> [b \in Blocks |-> NoEnt], maxIdx |-> 0, maxPos |-> 0, maxFile |-> 0, walk |-> <<>>]) IN
       /\ index' = st.index /\ maxIdx' = st.maxIdx /\ maxPos' = st.maxPos /\ maxFile' = st.maxFile /\ walk' = st.walk
       \* retention clean-up at load time: up to three files below maxFile - Keep
       /\ gone' = IF Keep # 0 /\ st.maxFile > Keep
                  THEN gone \cup {f \in Files : f < st.maxFile - Keep /\ f >= st.maxFile - Keep - 3}
                  ELSE gone
    /\ open' = TRUE
    /\ reopens' = reopens + 1
    /\ UNCHANGED <<queue, cache, idxF, datF, stored, trustG>>

Next ==
    \/ \E b \in Blocks, tr \in BOOLEAN : Add(b, tr)
    \/ WriteOne
    \/ Idle
    \/ \E b \in Blocks : Invalid(b) \/ Trusted(b) \/ Get(b)
    \/ Close
    \/ Reopen

Spec == Init /\ [][Next]_vars

-----------------------------------------------------------------------------
(* Properties (C16) *)

Retained(b) == index[b].ipos = 0 \/ index[b].file \notin gone

\* every stored block can be read back, from cache or disk, while writes are still queued
GetReturnsStored ==
    open => \A b \in stored : /\ index[b].in
                              /\ Retained(b) => GetResult(b) = "ok"

\* the cache never drops a block that has not been written yet
UnwrittenIsCached ==
    open => \A b \in Blocks : (index[b].in /\ index[b].ipos = 0) => b \in Range(cache)

\* after a restart the index lists exactly the stored, non-invalid blocks, once each, with their trusted flags
ReopenExactStep ==
        (~open /\ open') =>
            /\ {walk'[i].b : i \in 1..Len(walk')} = stored
            /\ \A i, j \in 1..Len(walk') : walk'[i].b = walk'[j].b => i = j
            /\ \A i \in 1..Len(walk') : walk'[i].tr = (walk'[i].b \in trustG)
ReopenExact == [][ReopenExactStep]_vars

\* appending never overwrites: an index record only ever gains flag bits
AppendOnlyStep ==
        /\ Len(idxF') >= Len(idxF)
        /\ \A i \in 1..Len(idxF) :
              /\ idxF'[i].b = idxF[i].b /\ idxF'[i].file = idxF[i].file
              /\ idxF'[i].pos = idxF[i].pos /\ idxF'[i].len = idxF[i].len
              /\ (idxF[i].tr => idxF'[i].tr) /\ (idxF[i].inv => idxF'[i].inv)
AppendNeverOverwrites == [][AppendOnlyStep]_vars

\* the store's idea of the end of the index file is the end of the index file
IndexPositionExact == open => maxIdx = Len(idxF)
=============================================================================
