----------------------------- MODULE ScriptGen -----------------------------
(***************************************************************************)
(* Case generation for Script (G->R) and the design-level checks.          *)
(*                                                                         *)
(* "prog" families: a state is a PROGRAM under construction (prog), drawn  *)
(* position by position from the alphabets of the family.  BFS enumerates  *)
(* every program up to MaxLen; simulation draws random long ones.  Every   *)
(* program is wrapped in every spend type of the family (bare, P2SH,       *)
(* P2WSH, P2SH-P2WSH, tapscript) and evaluated by Script!Verify under      *)
(* every consistent flag subset of the family.  When the program runs to   *)
(* completion in the model a second "chk" case is emitted whose script is  *)
(* followed by a suffix comparing the whole final stack / altstack with    *)
(* the model's: stack effects become observable through the verdict.       *)
(*                                                                         *)
(* "set" families: explicit sets of cases (orchestration of VerifyScript,  *)
(* taproot, CHECKMULTISIG shapes, lock-time operands, limit templates),    *)
(* each tagged with the rule it probes.                                    *)
(*                                                                         *)
(* Every case is printed with the model's verdict per flag set; the        *)
(* harness concretises it and runs the real VerifyTxScript.                *)
(***************************************************************************)
EXTENDS Script, Json

CONSTANTS FamName,     \* which family, or "all": every family with the lengths of the tier
          Tier,        \* "quick" / "thorough": lengths used by "all"
          MaxLen,      \* longest program ("prog" families) / size parameter, when one family is chosen
          EmitAt,      \* 0: print every program; n > 0: only programs of exactly n ops (simulation)
          VecFile      \* "" or an ndjson file of decoded foreign test vectors to be judged by the model (family "vectors")

VARIABLES fam,      \* the family chosen by the first step ("" before)
          prog      \* the program under construction / the chosen case
gvars == <<fam, prog, env, pc, ist>>

-----------------------------------------------------------------------------
(* ---- shorthands ---- *)
B(v) == PushMin(v)                      \* minimal push of a value
D(v) == PushOp(CanonPushOp(v), v)       \* CScript << v : direct push even where OP_n exists
OP0 == Op(0)
N(k) == Op(80 + k)                      \* OP_1 .. OP_16
NEG1 == Op(79)
NOP == Op(97)
IF_ == Op(99)
NOTIF == Op(100)
VERIF == Op(101)
ELSE_ == Op(103)
ENDIF == Op(104)
VERIFY == Op(105)
RETURN == Op(106)
TOALT == Op(107)
FROMALT == Op(108)
DROP2 == Op(109)
DUP2 == Op(110)
DUP3 == Op(111)
OVER2 == Op(112)
ROT2 == Op(113)
SWAP2 == Op(114)
IFDUP == Op(115)
DEPTH == Op(116)
DROP == Op(117)
DUP == Op(118)
NIP == Op(119)
OVER == Op(120)
OPPICK == Op(121)
OPROLL == Op(122)
ROT == Op(123)
SWAP == Op(124)
TUCK == Op(125)
SIZE == Op(130)
EQUAL == Op(135)
EQUALVERIFY == Op(136)
NOT == Op(145)
HASH160 == Op(169)
CODESEP == Op(171)
CHECKSIG == Op(172)
CHECKSIGVERIFY == Op(173)
CHECKMULTISIG == Op(174)
CHECKMULTISIGVERIFY == Op(175)
CLTV == Op(177)
CSV == Op(178)
CHECKSIGADD == Op(186)

PK(k, form) == <<400 + form, k>>
Sig(k, ht, m, enc) == <<500 + enc, k, ht, m>>
SSig(k, ht, m, enc) == <<510 + enc, k, ht, m>>
Blob(n, id) == <<600, n, id>>
TRQ(k, form, sid, lv, m) == <<820, k, form, sid, lv, m>>
CB(lv, par, k, form, m, pad) == <<810, lv, par, k, form, m, pad>>

RepSeq(s, n) == IF n <= 0 \/ Len(s) = 0 THEN <<>> ELSE [i \in 1..(n * Len(s)) |-> s[((i - 1) % Len(s)) + 1]]
Rep(S, n) == [i \in 1..n |-> S]
Zeros(n) == [i \in 1..n |-> 0]

TxDefault == [ver |-> <<0, 2>>, lock |-> <<0, 0>>, seq |-> <<65535, 65534>>, nomatch |-> FALSE]

ValOf(op) == IF op.o \in 81..96 THEN <<op.o - 80>> ELSE IF op.o = 79 THEN <<129>> ELSE op.d
Vals(ins) == [i \in 1..Len(ins) |-> ValOf(ins[i])]

MkCase(sig, pk, wit, scr, tgt, tsv, tx) == [sig |-> sig, pk |-> pk, wit |-> wit, scr |-> scr, tgt |-> tgt, tsv |-> tsv, tx |-> tx, kf |-> {}, oracle |-> FALSE, sigok |-> <<>>]
FSOf(base, opt) == {F \in {base \cup X : X \in SUBSET opt} : ConsistentFlags(F)}
Item(tag, w, C, FS) == [tag |-> tag, w |-> w, C |-> C, FS |-> FS]

-----------------------------------------------------------------------------
(* ---- spend-type wrappers ---- *)
TapKey == 9
P2SHOut(t) == <<HASH160, PushOp(20, <<301, 303>> \o t), EQUAL>>
WFlags(w) ==
    CASE w = "bare" -> {}
      [] w = "p2sh" -> {"P2SH"}
      [] w \in {"p2wsh", "p2sh_p2wsh"} -> {"P2SH", "WITNESS"}
      [] w = "tap" -> {"P2SH", "WITNESS", "TAPROOT"}
WSigVersion(w) == CASE w \in {"bare", "p2sh"} -> "base" [] w \in {"p2wsh", "p2sh_p2wsh"} -> "v0" [] w = "tap" -> "tap"

\* ins: push ops that supply the inputs; sc: the locked script
Wrap(w, ins, sc, tx) ==
    LET t1 == ScrTok(1, sc)
        wprog == <<OP0, PushOp(32, <<303>> \o t1)>>
        t2 == ScrTok(2, wprog)
        sv == WSigVersion(w)
    IN CASE w = "bare" -> MkCase(ins, sc, <<>>, <<>>, 0, sv, tx)
         [] w = "p2sh" -> MkCase(Append(ins, D(t1)), P2SHOut(t1), <<>>, <<sc>>, 1, sv, tx)
         [] w = "p2wsh" -> MkCase(<<>>, wprog, Append(Vals(ins), t1), <<sc>>, 1, sv, tx)
         [] w = "p2sh_p2wsh" -> MkCase(<<D(t2)>>, P2SHOut(t2), Append(Vals(ins), t1), <<sc, wprog>>, 1, sv, tx)
         [] w = "tap" -> MkCase(<<>>, <<N(1), PushOp(32, TRQ(TapKey, PKXonly, 1, 192, 0))>>,
                                Vals(ins) \o <<t1, CB(192, 0, TapKey, PKXonly, 0, 0)>>, <<sc>>, 1, sv, tx)

\* suffix that accepts iff the stack and the altstack are exactly (st, alt)
RECURSIVE AltChk(_, _)
AltChk(alt, i) == IF i = 0 THEN <<>> ELSE <<FROMALT, B(alt[i]), EQUALVERIFY>> \o AltChk(alt, i - 1)
RECURSIVE StChk(_, _)
StChk(st, i) == IF i = 0 THEN <<>> ELSE <<B(st[i]), EQUALVERIFY>> \o StChk(st, i - 1)
ChkSuffix(st, alt) == AltChk(alt, Len(alt)) \o StChk(st, Len(st)) \o <<DEPTH, OP0, EQUAL>>

\* final interpreter state of the locked script alone, under flags F0, with the inputs on the stack
InnerRun(w, ins, sc, tx, F0) ==
    LET C0 == Wrap(w, ins, sc, tx)
        E == [F |-> F0, sv |-> WSigVersion(w), p |-> sc, sid |-> C0.tgt, C |-> C0]
    IN Run(InitState(Vals(ins), 100000), 1, E)

-----------------------------------------------------------------------------
(* ---- "prog" families: alphabets ---- *)
CtrlAlpha == {OP0, N(1), N(2), PushOp(1, <<0>>), IF_, NOTIF, ELSE_, ENDIF, VERIFY, RETURN, VERIF}
StackOps == {TOALT, FROMALT, DROP2, DUP2, DUP3, OVER2, ROT2, SWAP2, IFDUP, DEPTH, DROP, DUP, NIP, OVER, OPPICK, OPROLL,
             ROT, SWAP, TUCK, SIZE}
ArithOperands == {OP0, N(1), N(2), NEG1, N(16), B(<<127>>), B(<<128, 0>>), B(<<255, 255, 255, 127>>), B(<<255, 255, 255, 255>>),
                  D(<<128>>), D(<<0>>), D(<<1, 0>>), D(<<0, 0, 0, 128, 0>>), D(<<0, 0, 0, 0, 128>>), D(<<1, 0, 0, 128>>)}
ArithFew == {OP0, N(1), NEG1, N(5), B(<<255, 255, 255, 127>>), B(<<255, 255, 255, 255>>), D(<<0>>), D(<<0, 0, 0, 128, 0>>)}
ArithUnary == {Op(139), Op(140), Op(143), Op(144), Op(145), Op(146)}
ArithBinary == {Op(147), Op(148), Op(154), Op(155), Op(156), Op(157), Op(158), Op(159), Op(160), Op(161), Op(162), Op(163), Op(164)}
HashOps == {Op(166), Op(167), Op(168), Op(169), Op(170)}

\* ECDSA signatures of key 1 offered to CHECKSIG (designator 1: made for the script, no CODESEPARATOR executed)
SigChoices == {D(Sig(1, 1, 1, 0)),          \* good
               D(Sig(2, 1, 1, 0)),          \* by another key
               D(Sig(1, 1, 0, 0)),          \* over another message
               D(Sig(1, 1, 1, 1)),          \* not strict DER
               D(Sig(1, 1, 1, 2)),          \* high S
               D(Sig(1, 4, 1, 0)),          \* undefined hash type, valid over the digest with that type
               D(Sig(1, 0, 1, 0)),          \* hash type 0
               D(Sig(1, 2, 1, 0)), D(Sig(1, 3, 1, 0)), D(Sig(1, 129, 1, 0)), D(Sig(1, 131, 1, 0)),
               D(Sig(1, 1, 0, 2)),          \* high S and wrong
               D(Sig(1, 1, 2, 0)),          \* made for the code after a CODESEPARATOR that is not there
               OP0,                         \* empty
               D(<<1>>), D(<<48, 6, 2, 1, 1, 2, 1, 1, 1>>)}   \* not signatures
PkChoices == {D(PK(1, PKComp)), D(PK(1, PKUncomp)), D(PK(1, PKHybrid)), D(PK(1, PKBadPfx)), D(PK(1, PKCompOff)), OP0, D(PK(1, PKXonly))}

\* BIP340 signatures offered to tapscript CHECKSIG / CHECKSIGADD
TSigChoices == {SSig(1, 0, 1, 0), SSig(1, 1, 1, 0), SSig(1, 2, 1, 0), SSig(1, 3, 1, 0), SSig(1, 129, 1, 0), SSig(1, 130, 1, 0), SSig(1, 131, 1, 0),
                SSig(1, 0, 1, 1),          \* explicit hash type byte 0
                SSig(1, 4, 99, 0), SSig(1, 128, 99, 0), SSig(1, 132, 99, 0),   \* undefined hash types
                SSig(1, 0, 1, 2), SSig(1, 0, 1, 3),                            \* 63 / 66 bytes
                SSig(2, 0, 1, 0), SSig(1, 0, 0, 0), SSig(1, 0, 2, 0),
                <<>>, Blob(64, 1), Blob(65, 2), <<1>>}
TPkChoices == {D(PK(1, PKXonly)), D(PK(1, PKXoff)), D(PK(1, PKXbig)), OP0, D(PK(1, PKComp)), D(<<1>>), D(Blob(32, 3))}

ProgFamOf(FN, ML) ==
    CASE FN = "ctrl" ->
            [nin |-> 0, alpha |-> Rep(CtrlAlpha, ML), wraps |-> {"bare", "p2wsh", "tap"}, base |-> {}, opt |-> {"MINIMALIF"},
             txs |-> {TxDefault}, chk |-> FALSE]
      [] FN = "ctrl2" ->       \* with an input deciding the branch, incl. non-minimal truth values
            [nin |-> 1, alpha |-> <<{OP0, N(1), N(2), D(<<0>>), D(<<1, 0>>), D(<<128>>), D(<<0, 1>>)}>> \o Rep(CtrlAlpha \ {VERIF, RETURN}, ML),
             wraps |-> {"bare", "p2sh", "p2wsh", "p2sh_p2wsh", "tap"}, base |-> {}, opt |-> {"MINIMALIF", "CLEANSTACK"},
             txs |-> {TxDefault}, chk |-> FALSE]
      [] FN = "stack" ->
            [nin |-> 4, alpha |-> <<{N(5)}, {N(6)}, {N(7)}, {N(8)}>> \o Rep(StackOps \cup {OP0, N(1), N(2), N(3), NEG1, N(4)}, ML),
             wraps |-> {"bare", "p2wsh", "tap"}, base |-> {}, opt |-> {"MINIMALDATA"}, txs |-> {TxDefault}, chk |-> TRUE]
      [] FN = "arith1" ->
            [nin |-> 0, alpha |-> <<ArithOperands>> \o Rep(ArithUnary \cup {SIZE}, ML),
             wraps |-> {"bare", "tap"}, base |-> {}, opt |-> {"MINIMALDATA"}, txs |-> {TxDefault}, chk |-> TRUE]
      [] FN = "arith2" ->
            [nin |-> 0, alpha |-> <<ArithOperands, ArithOperands, ArithBinary>> \o Rep(ArithUnary \cup ArithFew \cup ArithBinary, ML),
             wraps |-> {"bare", "p2wsh"}, base |-> {}, opt |-> {"MINIMALDATA"}, txs |-> {TxDefault}, chk |-> TRUE]
      [] FN = "arith3" ->
            [nin |-> 0, alpha |-> <<ArithFew, ArithFew, ArithFew, {Op(165)}>>,
             wraps |-> {"bare", "tap"}, base |-> {}, opt |-> {"MINIMALDATA"}, txs |-> {TxDefault}, chk |-> TRUE]
      [] FN = "hash" ->
            [nin |-> 1, alpha |-> <<{OP0, N(1), D(<<1>>), D(<<97, 98, 99>>), D(PK(1, PKComp)), D(Blob(100, 1))}>>
                                  \o Rep(HashOps \cup {DUP, SIZE, EQUAL, EQUALVERIFY, D(<<303, 1>>), D(<<301, 303, 400, 1>>), D(<<303, 303>>)}, ML),
             wraps |-> {"bare", "p2wsh"}, base |-> {}, opt |-> {}, txs |-> {TxDefault}, chk |-> TRUE]
      [] FN = "opcodes" ->     \* every opcode executed once on a stack of three small numbers
            [nin |-> 3, alpha |-> <<{N(2)}, {N(1)}, {N(1)}, {Op(x) : x \in 79..255}>>,
             wraps |-> {"bare", "p2wsh", "tap"}, base |-> {}, opt |-> {"CLTV", "CSV", "DISCOURAGE_UPGRADABLE_NOPS", "DISCOURAGE_OP_SUCCESS"},
             txs |-> {TxDefault}, chk |-> TRUE]
      [] FN = "opcodes_unexec" ->      \* every opcode in a branch that is not executed
            [nin |-> 0, alpha |-> <<{OP0}, {IF_}, {Op(x) : x \in 79..255} \cup {D(<<7>>), D(Blob(520, 1)), PushOp(77, Blob(521, 1))}, {ENDIF}, {N(1)}>>,
             wraps |-> {"bare", "p2wsh", "tap"}, base |-> {}, opt |-> {"DISCOURAGE_OP_SUCCESS", "CONST_SCRIPTCODE", "MINIMALDATA"},
             txs |-> {TxDefault}, chk |-> FALSE]
      [] FN = "push" ->        \* push encodings; position 1 is delivered by scriptSig / witness, position 2 is in the script
            [nin |-> 1,
             alpha |-> LET P == {OP0, PushOp(76, <<>>), PushOp(77, <<>>), PushOp(78, <<>>), N(1), PushOp(1, <<1>>), NEG1, PushOp(1, <<129>>),
                                 PushOp(1, <<16>>), PushOp(1, <<17>>), PushOp(76, <<17>>), PushOp(77, <<17>>), PushOp(78, <<17>>), PushOp(2, <<1, 0>>),
                                 PushOp(75, Blob(75, 1)), PushOp(76, Blob(75, 1)), PushOp(76, Blob(76, 1)), PushOp(77, Blob(76, 1)),
                                 PushOp(76, Blob(255, 1)), PushOp(77, Blob(255, 1)), PushOp(77, Blob(256, 1)), PushOp(78, Blob(256, 1)),
                                 PushOp(77, Blob(520, 1)), PushOp(77, Blob(521, 1)), PushOp(78, Blob(520, 1))}
                       IN <<P, P \cup {DROP}, {DROP, N(1)}, {N(1)}>>,
             wraps |-> {"bare", "p2sh", "p2wsh", "tap"}, base |-> {}, opt |-> {"MINIMALDATA", "SIGPUSHONLY"}, txs |-> {TxDefault}, chk |-> TRUE]
      [] FN = "sig" ->         \* <sig> | <pubkey> CHECKSIG[VERIFY] [NOT | 1]
            [nin |-> 1, alpha |-> <<SigChoices, PkChoices, {CHECKSIG, CHECKSIGVERIFY}, {NOT, N(1)}>>,
             wraps |-> {"bare", "p2sh", "p2wsh", "p2sh_p2wsh"}, base |-> {},
             opt |-> {"DERSIG", "STRICTENC", "LOW_S", "NULLFAIL", "WITNESS_PUBKEYTYPE"}, txs |-> {TxDefault}, chk |-> FALSE]
      [] FN = "tsig" ->        \* tapscript: <sig> | <pubkey> CHECKSIG[VERIFY] [NOT | 1]
            [nin |-> 1, alpha |-> <<{D(s) : s \in TSigChoices}, TPkChoices, {CHECKSIG, CHECKSIGVERIFY}, {NOT, N(1)}>>,
             wraps |-> {"tap"}, base |-> {}, opt |-> {"DISCOURAGE_UPGRADABLE_PUBKEYTYPE", "NULLFAIL", "STRICTENC"},
             txs |-> {TxDefault, [TxDefault EXCEPT !.nomatch = TRUE]}, chk |-> FALSE]
      [] FN = "tsigadd" ->     \* tapscript: <sig> | <n> <pubkey> CHECKSIGADD [<k> EQUAL]
            [nin |-> 1, alpha |-> <<{D(s) : s \in {SSig(1, 0, 1, 0), SSig(1, 1, 1, 0), SSig(2, 0, 1, 0), SSig(1, 4, 99, 0), <<>>, Blob(64, 1)}},
                                    {OP0, N(1), NEG1, D(<<1, 0>>), D(<<255, 255, 255, 127>>), D(<<0, 0, 0, 128, 0>>), D(Blob(32, 1))},
                                    {D(PK(1, PKXonly)), D(PK(1, PKComp)), OP0},
                                    {CHECKSIGADD}, {N(1), N(2), OP0, B(<<0, 0, 0, 128, 0>>)}, {EQUAL}>>,
             wraps |-> {"tap"}, base |-> {}, opt |-> {"MINIMALDATA", "DISCOURAGE_UPGRADABLE_PUBKEYTYPE"}, txs |-> {TxDefault}, chk |-> TRUE]

-----------------------------------------------------------------------------
(* ---- "set" families ---- *)
\* lock-time operands
LockOperands == {<<>>, <<0>>, <<1>>, <<2>>, <<127>>, <<128>>, <<129>>, <<255, 127>>, <<255, 255, 0>>, <<0, 0, 0, 128>>, <<1, 0, 0, 128>>,
                 <<255, 255, 255, 127>>, <<0, 0, 0, 128, 0>>, <<1, 0, 0, 128, 0>>, <<255, 255, 255, 255, 127>>, <<255, 255, 255, 255, 255>>,
                 <<0, 0, 0, 0, 128>>, <<1, 0, 0, 0, 0, 0>>, <<0, 101, 205, 29>>, <<255, 100, 205, 29>>, <<0, 0, 64, 0>>, <<1, 0, 64, 0>>,
                 <<2, 0, 64, 0>>, <<2, 0>>}
LockFS == FSOf({}, {"CLTV", "CSV", "MINIMALDATA"}) \cup {{"CLTV", "CSV", "DISCOURAGE_UPGRADABLE_NOPS"}}
LockCases(op) ==
    LET locks == {<<0, 0>>, <<0, 1>>, <<0, 2>>, <<7629, 25855>>, <<7629, 25856>>, <<7629, 25857>>, <<65535, 65535>>}
        seqs == {<<65535, 65535>>, <<65535, 65534>>, <<0, 0>>, <<0, 1>>, <<0, 2>>, <<64, 0>>, <<64, 1>>, <<32768, 1>>, <<32832, 2>>, <<65471, 2>>}
        vers == {<<0, 1>>, <<0, 2>>, <<65535, 65535>>, <<0, 0>>}
        txs == IF op = 177 THEN {[TxDefault EXCEPT !.lock = l, !.seq = s] : l \in locks, s \in {<<65535, 65535>>, <<0, 5>>}}
               ELSE {[TxDefault EXCEPT !.seq = s, !.ver = v] : s \in seqs, v \in vers}
    IN {Item(ToString(<<op, v>>), w, Wrap(w, <<>>, <<B(v), Op(op), DROP, N(1)>>, tx), {WFlags(w) \cup X : X \in LockFS})
          : v \in LockOperands, tx \in txs, w \in {"bare"}}
       \cup
       {Item(ToString(<<op, v>>), w, Wrap(w, <<>>, <<B(v), Op(op), DROP, N(1)>>, tx), {WFlags(w) \cup X : X \in LockFS})
          : v \in LockOperands, tx \in {[TxDefault EXCEPT !.seq = <<0, 2>>, !.lock = <<0, 2>>]}, w \in {"p2sh", "p2wsh", "tap"}}
       \cup  \* the operand stays on the stack (a redefined NOP must not pop: else the flag would not be a soft fork)
       {Item(ToString(<<op, v, "stays">>), "bare", Wrap("bare", <<>>, <<N(1), B(v), Op(op)>>, [TxDefault EXCEPT !.seq = <<0, 2>>, !.lock = <<0, 2>>]), LockFS)
          : v \in {<<>>, <<1>>, <<2>>, <<3>>}}

\* MINIMALIF: consensus in tapscript, policy flag in witness v0, nothing in BASE
MinimalIfCases(dummy) ==
    LET args == {<<>>, <<1>>, <<2>>, <<0>>, <<1, 0>>, <<128>>, <<0, 1>>, <<1, 1>>, <<0, 0>>, <<129>>, Blob(6, 1)}
        bodies == {<<"both", <<N(1), ELSE_, N(1), ENDIF>>>>, <<"then", <<N(1), ELSE_, OP0, ENDIF>>>>, <<"else", <<OP0, ELSE_, N(1), ENDIF>>>>,
                   <<"nested", <<N(1), IF_, N(1), ENDIF, ELSE_, N(1), ENDIF>>>>, <<"unexecuted-inner", <<N(1), ELSE_, N(2), IF_, ENDIF, N(1), ENDIF>>>>}
    IN {Item(ToString(<<a, o.o, b[1], inscript>>), w,
             IF inscript THEN Wrap(w, <<>>, <<D(a), o>> \o b[2], TxDefault) ELSE Wrap(w, <<D(a)>>, <<o>> \o b[2], TxDefault),
             {WFlags(w) \cup X : X \in SUBSET {"MINIMALIF", "MINIMALDATA"}})
          : a \in args, o \in {IF_, NOTIF}, b \in bodies, inscript \in BOOLEAN, w \in {"bare", "p2sh", "p2wsh", "p2sh_p2wsh", "tap"}}

\* CODESEPARATOR / FindAndDelete / CONST_SCRIPTCODE
CsCases(dummy) ==
    LET pk1 == D(PK(1, PKComp))
        pk2 == D(PK(2, PKComp))
        S(m) == D(Sig(1, 1, m, 0))
        S2(m) == D(Sig(2, 1, m, 0))
        FS(w) == {WFlags(w) \cup X : X \in SUBSET {"CONST_SCRIPTCODE", "NULLFAIL"}}
        selfref == {"fad-embedded", "fad-embedded-twice", "fad-embedded-after", "fad-multisig-embedded"}
        shapes == {
            <<"cs-first", <<S(2)>>, <<CODESEP, pk1, CHECKSIG>>>>,
            <<"cs-first-sigwhole", <<S(1)>>, <<CODESEP, pk1, CHECKSIG>>>>,
            <<"cs-mid", <<S(3)>>, <<pk1, CODESEP, CHECKSIG>>>>,
            <<"cs-mid-sigwhole", <<S(1)>>, <<pk1, CODESEP, CHECKSIG>>>>,
            <<"cs-after", <<S(1)>>, <<pk1, CHECKSIG, CODESEP>>>>,
            <<"cs-unexec", <<S(1)>>, <<OP0, IF_, CODESEP, ENDIF, pk1, CHECKSIG>>>>,
            <<"cs-unexec-sigafter", <<S(4)>>, <<OP0, IF_, CODESEP, ENDIF, pk1, CHECKSIG>>>>,
            <<"cs-exec-in-if", <<S(4)>>, <<N(1), IF_, CODESEP, ENDIF, pk1, CHECKSIG>>>>,
            <<"cs-twice", <<S(3)>>, <<CODESEP, CODESEP, pk1, CHECKSIG>>>>,
            <<"cs-twice-first", <<S(2)>>, <<CODESEP, CODESEP, pk1, CHECKSIG>>>>,
            <<"cs-two-sigs", <<S2(4), S(1)>>, <<pk1, CHECKSIGVERIFY, CODESEP, pk2, CHECKSIG>>>>,
            <<"cs-two-sigs-same", <<S2(1), S(1)>>, <<pk1, CHECKSIGVERIFY, CODESEP, pk2, CHECKSIG>>>>,
            <<"fad-embedded", <<>>, <<S(1), pk1, CHECKSIG>>>>,
            <<"fad-embedded-twice", <<>>, <<S(1), DROP, S(1), pk1, CHECKSIG>>>>,
            <<"fad-other-sig-stays", <<S(1)>>, <<D(Sig(2, 1, 0, 0)), DROP, pk1, CHECKSIG>>>>,
            <<"fad-empty-sig-op0", <<OP0>>, <<OP0, DROP, pk1, CHECKSIG, NOT>>>>,
            <<"fad-embedded-after", <<S(1)>>, <<pk1, CHECKSIG, S(1), DROP>>>>,
            <<"fad-multisig-embedded", <<OP0>>, <<S(1), N(1), pk1, N(1), CHECKMULTISIG>>>>,
            <<"fad-multisig-other-embedded", <<OP0, S(1)>>, <<D(Sig(2, 1, 0, 0)), DROP, N(1), pk1, N(1), CHECKMULTISIG>>>>,
            <<"cs-multisig", <<OP0, S(2)>>, <<CODESEP, N(1), pk1, N(1), CHECKMULTISIG>>>>,
            <<"fad-garbage-75", <<D(Blob(75, 1))>>, <<D(Blob(75, 1)), DROP, pk1, CHECKSIG, NOT>>>>,
            <<"fad-garbage-76", <<D(Blob(76, 1))>>, <<D(Blob(76, 1)), DROP, pk1, CHECKSIG, NOT>>>>,
            <<"fad-garbage-76-noncanonical", <<D(Blob(76, 1))>>, <<PushOp(77, Blob(76, 1)), DROP, pk1, CHECKSIG, NOT>>>>,
            <<"fad-garbage-255", <<D(Blob(255, 1))>>, <<D(Blob(255, 1)), DROP, pk1, CHECKSIG, NOT>>>>,
            <<"fad-garbage-256", <<D(Blob(256, 1))>>, <<D(Blob(256, 1)), DROP, pk1, CHECKSIG, NOT>>>>,
            <<"fad-garbage-76-multisig", <<OP0, D(Blob(76, 1))>>, <<D(Blob(76, 1)), DROP, N(1), pk1, N(1), CHECKMULTISIG, NOT>>>> }
    IN {Item(sh[1], w, Wrap(w, sh[2], sh[3], TxDefault), FS(w)) : sh \in shapes, w \in {"bare", "p2sh"}}
       \cup  \* in witness v0 an embedded signature would have to sign itself: those shapes are base only
       {Item(sh[1], "p2wsh", Wrap("p2wsh", sh[2], sh[3], TxDefault), FS("p2wsh")) : sh \in {x \in shapes : x[1] \notin selfref}}

\* CHECKMULTISIG: dummy, m signatures, m, n keys, n
MsigCases(maxn) ==
    LET keyOp(j) == D(PK(j, PKComp))
        sigOf(c) == IF c = 0 THEN OP0 ELSE IF c = -1 THEN D(Sig(1, 1, 0, 0)) ELSE D(Sig(c, 1, 1, 0))
        numOp(k) == IF k = 0 THEN OP0 ELSE N(k)
        tails == {<<CHECKMULTISIG>>, <<CHECKMULTISIG, NOT>>, <<CHECKMULTISIGVERIFY, N(1)>>}
        dummies == {OP0, N(1), D(<<0>>)}
        FS(w) == {WFlags(w) \cup X : X \in SUBSET {"NULLDUMMY", "NULLFAIL"}}
    IN UNION { UNION { { Item(ToString(<<n, m, ch>>), w,
                              Wrap(w, <<dm>> \o [i \in 1..m |-> sigOf(ch[i])],
                                   <<numOp(m)>> \o [j \in 1..n |-> keyOp(j)] \o <<numOp(n)>> \o tl, TxDefault), FS(w))
                          : ch \in [1..m -> (1..n) \cup {0, -1}], dm \in dummies, tl \in tails, w \in {"bare", "p2sh", "p2wsh"} }
                      : m \in 0..n }
             : n \in 0..maxn }

\* CHECKMULTISIG: encodings, counts, limits
Msig2Cases(dummy) ==
    LET k1 == D(PK(1, PKComp))
        k2 == D(PK(2, PKComp))
        S(k) == D(Sig(k, 1, 1, 0))
        FS(w) == {WFlags(w) \cup X : X \in SUBSET {"NULLFAIL", "STRICTENC", "DERSIG", "MINIMALDATA", "WITNESS_PUBKEYTYPE"}}
        keys20 == [j \in 1..20 |-> D(PK(j, PKComp))]
        shapes == {
            <<"sigs>keys", <<OP0, S(1), S(2)>>, <<N(2), k1, N(1), CHECKMULTISIG>>>>,
            <<"neg-keys", <<OP0>>, <<OP0, NEG1, CHECKMULTISIG>>>>,
            <<"neg-sigs", <<OP0>>, <<NEG1, k1, N(1), CHECKMULTISIG>>>>,
            <<"no-dummy", <<>>, <<OP0, OP0, CHECKMULTISIG>>>>,
            <<"zero-zero", <<OP0>>, <<OP0, OP0, CHECKMULTISIG>>>>,
            <<"zero-zero-not", <<OP0>>, <<OP0, OP0, CHECKMULTISIG, NOT>>>>,
            <<"short-keys", <<OP0, S(1)>>, <<N(1), k1, N(2), CHECKMULTISIG>>>>,
            <<"short-sigs", <<OP0>>, <<N(1), k1, N(1), CHECKMULTISIG>>>>,
            <<"nonminimal-n", <<OP0, S(1)>>, <<N(1), k1, D(<<1, 0>>), CHECKMULTISIG>>>>,
            <<"nonminimal-m", <<OP0, S(1)>>, <<D(<<1, 0>>), k1, N(1), CHECKMULTISIG>>>>,
            <<"n-too-long", <<OP0>>, <<OP0, D(<<0, 0, 0, 0, 0>>), CHECKMULTISIG>>>>,
            <<"wrong-order", <<OP0, S(2), S(1)>>, <<N(2), k1, k2, N(2), CHECKMULTISIG>>>>,
            <<"right-order", <<OP0, S(1), S(2)>>, <<N(2), k1, k2, N(2), CHECKMULTISIG>>>>,
            <<"wrong-order-not", <<OP0, S(2), S(1)>>, <<N(2), k1, k2, N(2), CHECKMULTISIG, NOT>>>>,
            <<"highS", <<OP0, D(Sig(1, 1, 1, 2))>>, <<N(1), k1, N(1), CHECKMULTISIG>>>>,
            <<"nonDER", <<OP0, D(Sig(1, 1, 1, 1))>>, <<N(1), k1, N(1), CHECKMULTISIG>>>>,
            <<"nonDER-fail-not", <<OP0, D(Sig(1, 1, 0, 1))>>, <<N(1), k1, N(1), CHECKMULTISIG, NOT>>>>,
            <<"undef-ht", <<OP0, D(Sig(1, 5, 1, 0))>>, <<N(1), k1, N(1), CHECKMULTISIG>>>>,
            <<"bad-key-unchecked", <<OP0, S(2)>>, <<N(1), D(PK(1, PKBadPfx)), k2, N(2), CHECKMULTISIG>>>>,
            <<"bad-key-checked", <<OP0, S(1)>>, <<N(1), k1, D(PK(2, PKBadPfx)), N(2), CHECKMULTISIG, NOT>>>>,
            <<"uncompressed", <<OP0, S(1)>>, <<N(1), D(PK(1, PKUncomp)), N(1), CHECKMULTISIG>>>>,
            <<"hybrid", <<OP0, S(1)>>, <<N(1), D(PK(1, PKHybrid)), N(1), CHECKMULTISIG>>>>,
            <<"garbage-sig-not", <<OP0, D(<<1>>)>>, <<N(1), k1, N(1), CHECKMULTISIG, NOT>>>>,
            <<"20-keys", <<OP0, S(20)>>, <<N(1)>> \o keys20 \o <<B(<<20>>), CHECKMULTISIG>>>>,
            <<"20-keys-first", <<OP0, S(1)>>, <<N(1)>> \o keys20 \o <<B(<<20>>), CHECKMULTISIG>>>>,
            <<"21-keys", <<OP0, S(1)>>, <<N(1)>> \o keys20 \o <<D(PK(21, PKComp)), B(<<21>>), CHECKMULTISIG>>>>,
            <<"20-keys-180-ops", <<OP0, S(1)>>, RepSeq(<<NOP>>, 180) \o <<N(1)>> \o keys20 \o <<B(<<20>>), CHECKMULTISIG>>>>,
            <<"20-keys-181-ops", <<OP0, S(1)>>, RepSeq(<<NOP>>, 181) \o <<N(1)>> \o keys20 \o <<B(<<20>>), CHECKMULTISIG>>>> }
    IN {Item(sh[1], w, Wrap(w, sh[2], sh[3], TxDefault), FS(w)) : sh \in shapes, w \in {"bare", "p2sh", "p2wsh"}}

\* orchestration: witness program matrix
WProgCases(dummy) ==
    LET FS == FSOf({}, {"P2SH", "WITNESS", "TAPROOT", "DISCOURAGE_UPGRADABLE_WITNESS_PROGRAM", "CLEANSTACK"})
        vops == {OP0, N(1), N(2), N(16), NEG1, D(<<1>>)}
        lens == {1, 2, 20, 21, 32, 33, 40, 41}
        wits == {<<>>, <<<<1>>>>, <<<<1>>, <<1>>>>}
        sigs == {<<>>, <<N(1)>>}
        pkOf(v, n) == <<v, PushOp(n, Blob(n, 5))>>
    IN {Item(ToString(<<"bare", v.o, n, Len(wt), Len(sg)>>), "wprog", MkCase(sg, pkOf(v, n), wt, <<>>, 0, "base", TxDefault), FS)
          : v \in vops, n \in lens, wt \in wits, sg \in sigs}
       \cup
       {Item(ToString(<<"p2sh", v.o, n, Len(wt), x>>), "wprog",
             LET t == ScrTok(1, pkOf(v, n)) IN
             MkCase(CASE x = 0 -> <<D(t)>> [] x = 1 -> <<N(1), D(t)>> [] x = 2 -> <<PushOp(76, t)>>, P2SHOut(t), wt, <<pkOf(v, n)>>, 0, "base", TxDefault), FS)
          : v \in vops, n \in lens, wt \in wits, x \in {0, 1, 2}}

\* orchestration: P2SH / P2WSH / P2WPKH / CLEANSTACK / SIGPUSHONLY / WITNESS_UNEXPECTED
OrchCases(dummy) ==
    LET FS == FSOf({}, {"P2SH", "WITNESS", "CLEANSTACK", "SIGPUSHONLY", "WITNESS_PUBKEYTYPE", "NULLFAIL"})
        ok1 == <<N(1)>>
        t(i, p) == ScrTok(i, p)
        wsh(p) == <<OP0, PushOp(32, <<303>> \o t(1, p))>>
        k1c == PK(1, PKComp)
        k1u == PK(1, PKUncomp)
        wpkh(k) == <<OP0, PushOp(20, <<301, 303>> \o k)>>
        sg == Sig(1, 1, 1, 0)
        sgbad == Sig(1, 1, 0, 0)
        trunc2 == [o |-> 2, d |-> <<1>>, t |-> TRUE]
        trunc76 == [o |-> 76, d |-> <<>>, t |-> TRUE]
        r516 == <<PushOp(77, Blob(516, 1)), DROP, N(1)>>
        r517 == <<PushOp(77, Blob(517, 1)), DROP, N(1)>>
        s600 == <<PushOp(77, Blob(300, 1)), DROP, PushOp(77, Blob(290, 2)), DROP, N(1)>>
        pkh == <<DUP, HASH160, PushOp(20, <<301, 303>> \o k1c), EQUALVERIFY, CHECKSIG>>
        C(sig, pk, wit, scr, tgt, tsv) == MkCase(sig, pk, wit, scr, tgt, tsv, TxDefault)
        cases == {
            \* bare scripts
            <<"bare-true", C(<<>>, ok1, <<>>, <<>>, 0, "base")>>,
            <<"bare-false", C(<<>>, <<OP0>>, <<>>, <<>>, 0, "base")>>,
            <<"bare-empty", C(<<>>, <<>>, <<>>, <<>>, 0, "base")>>,
            <<"bare-sig-supplies", C(<<N(1)>>, <<>>, <<>>, <<>>, 0, "base")>>,
            <<"bare-two-left", C(<<N(1)>>, ok1, <<>>, <<>>, 0, "base")>>,
            <<"bare-two-left-false-below", C(<<OP0>>, ok1, <<>>, <<>>, 0, "base")>>,
            <<"bare-sig-nonpush", C(<<N(1), NOP>>, <<>>, <<>>, <<>>, 0, "base")>>,
            <<"bare-sig-nonpush-dup", C(<<N(1), DUP>>, <<DROP>>, <<>>, <<>>, 0, "base")>>,
            <<"bare-sig-reserved-unexec", C(<<OP0, Op(80)>>, <<DROP, N(1)>>, <<>>, <<>>, 0, "base")>>,
            <<"bare-sig-fails", C(<<RETURN>>, ok1, <<>>, <<>>, 0, "base")>>,
            <<"bare-sig-unbalanced", C(<<N(1), IF_>>, <<ENDIF, N(1)>>, <<>>, <<>>, 0, "base")>>,
            <<"bare-sig-altstack-not-shared", C(<<N(1), TOALT>>, <<FROMALT>>, <<>>, <<>>, 0, "base")>>,
            <<"bare-witness-unexpected", C(<<>>, ok1, <<<<1>>>>, <<>>, 0, "base")>>,
            <<"bare-truncated-direct", C(<<>>, <<N(1), trunc2>>, <<>>, <<>>, 0, "base")>>,
            <<"bare-truncated-pushdata1-nolen", C(<<>>, <<N(1), trunc76>>, <<>>, <<>>, 0, "base")>>,
            <<"bare-truncated-pushdata1", C(<<>>, <<N(1), [o |-> 76, d |-> <<5, 1>>, t |-> TRUE]>>, <<>>, <<>>, 0, "base")>>,
            <<"bare-truncated-pushdata2", C(<<>>, <<N(1), [o |-> 77, d |-> <<1>>, t |-> TRUE]>>, <<>>, <<>>, 0, "base")>>,
            <<"bare-truncated-pushdata2-data", C(<<>>, <<N(1), [o |-> 77, d |-> <<2, 0, 7>>, t |-> TRUE]>>, <<>>, <<>>, 0, "base")>>,
            <<"bare-truncated-pushdata4", C(<<>>, <<N(1), [o |-> 78, d |-> <<1, 0, 0>>, t |-> TRUE]>>, <<>>, <<>>, 0, "base")>>,
            <<"bare-truncated-pushdata4-huge", C(<<>>, <<N(1), [o |-> 78, d |-> <<255, 255, 255, 255>>, t |-> TRUE]>>, <<>>, <<>>, 0, "base")>>,
            <<"bare-truncated-pushdata4-2g", C(<<>>, <<N(1), [o |-> 78, d |-> <<255, 255, 255, 127, 1>>, t |-> TRUE]>>, <<>>, <<>>, 0, "base")>>,
            <<"bare-truncated-unexecuted", C(<<>>, <<N(1), OP0, IF_, trunc2>>, <<>>, <<>>, 0, "base")>>,
            <<"bare-truncated-after-return", C(<<>>, <<RETURN, trunc2>>, <<>>, <<>>, 0, "base")>>,
            <<"bare-truncated-scriptsig", C(<<N(1), trunc2>>, ok1, <<>>, <<>>, 0, "base")>>,
            <<"bare-truncated-scriptsig-only", C(<<trunc76>>, ok1, <<>>, <<>>, 0, "base")>>,
            <<"bare-witness-empty-item", C(<<>>, ok1, <<<<>>>>, <<>>, 0, "base")>>,
            \* P2SH
            <<"p2sh-true", C(<<D(t(1, ok1))>>, P2SHOut(t(1, ok1)), <<>>, <<ok1>>, 1, "base")>>,
            <<"p2sh-false", C(<<D(t(1, <<OP0>>))>>, P2SHOut(t(1, <<OP0>>)), <<>>, <<<<OP0>>>>, 1, "base")>>,
            <<"p2sh-empty-redeem", C(<<D(t(1, <<>>))>>, P2SHOut(t(1, <<>>)), <<>>, <<<<>>>>, 1, "base")>>,
            <<"p2sh-empty-redeem-input", C(<<N(1), D(t(1, <<>>))>>, P2SHOut(t(1, <<>>)), <<>>, <<<<>>>>, 1, "base")>>,
            <<"p2sh-wrong-hash", C(<<D(t(2, <<N(2)>>))>>, P2SHOut(t(1, ok1)), <<>>, <<ok1, <<N(2)>>>>, 1, "base")>>,
            <<"p2sh-extra-input", C(<<N(1), D(t(1, ok1))>>, P2SHOut(t(1, ok1)), <<>>, <<ok1>>, 1, "base")>>,
            <<"p2sh-input-used", C(<<N(1), D(t(1, <<VERIFY, N(1)>>))>>, P2SHOut(t(1, <<VERIFY, N(1)>>)), <<>>, <<<<VERIFY, N(1)>>>>, 1, "base")>>,
            <<"p2sh-sig-nonpush", C(<<NOP, D(t(1, ok1))>>, P2SHOut(t(1, ok1)), <<>>, <<ok1>>, 1, "base")>>,
            <<"p2sh-sig-nonpush-16", C(<<N(16), N(1), NIP, D(t(1, ok1))>>, P2SHOut(t(1, ok1)), <<>>, <<ok1>>, 1, "base")>>,
            <<"p2sh-redeem-pushdata1", C(<<PushOp(76, t(1, ok1))>>, P2SHOut(t(1, ok1)), <<>>, <<ok1>>, 1, "base")>>,
            <<"p2sh-redeem-return", C(<<D(t(1, <<RETURN>>))>>, P2SHOut(t(1, <<RETURN>>)), <<>>, <<<<RETURN>>>>, 1, "base")>>,
            <<"p2sh-redeem-truncated", C(<<D(t(1, <<N(1), trunc2>>))>>, P2SHOut(t(1, <<N(1), trunc2>>)), <<>>, <<<<N(1), trunc2>>>>, 1, "base")>>,
            <<"p2sh-redeem-520", C(<<D(t(1, r516))>>, P2SHOut(t(1, r516)), <<>>, <<r516>>, 1, "base")>>,
            <<"p2sh-redeem-521", C(<<D(t(1, r517))>>, P2SHOut(t(1, r517)), <<>>, <<r517>>, 1, "base")>>,
            <<"p2sh-raw-bytes-redeem", C(<<D(<<81>>)>>, P2SHOut(<<81>>), <<>>, <<>>, 0, "base")>>,
            <<"p2sh-raw-bytes-redeem-false", C(<<D(<<0>>)>>, P2SHOut(<<0>>), <<>>, <<>>, 0, "base")>>,
            <<"p2sh-witness-unexpected", C(<<D(t(1, ok1))>>, P2SHOut(t(1, ok1)), <<<<1>>>>, <<ok1>>, 1, "base")>>,
            <<"p2sh-shape-pushdata-hash", C(<<D(t(1, ok1))>>, <<HASH160, PushOp(76, <<301, 303>> \o t(1, ok1)), EQUAL>>, <<>>, <<ok1>>, 1, "base")>>,
            <<"p2sh-shape-pushdata-hash-false-redeem", C(<<D(t(1, <<OP0>>))>>, <<HASH160, PushOp(76, <<301, 303>> \o t(1, <<OP0>>)), EQUAL>>, <<>>, <<<<OP0>>>>, 1, "base")>>,
            <<"p2sh-shape-extra-op", C(<<D(t(1, <<OP0>>))>>, P2SHOut(t(1, <<OP0>>)) \o <<NOP>>, <<>>, <<<<OP0>>>>, 1, "base")>>,
            <<"p2sh-shape-last-opcode-nop", C(<<D(t(1, <<OP0>>))>>, <<HASH160, PushOp(20, <<301, 303>> \o t(1, <<OP0>>)), NOP>>, <<>>, <<<<OP0>>>>, 1, "base")>>,
            <<"p2sh-shape-ripemd160", C(<<D(t(1, <<OP0>>))>>, <<Op(166), PushOp(20, <<301>> \o t(1, <<OP0>>)), EQUAL>>, <<>>, <<<<OP0>>>>, 1, "base")>>,
            <<"p2sh-shape-hash256", C(<<D(t(1, <<OP0>>))>>, <<Op(170), PushOp(32, <<303, 303>> \o t(1, <<OP0>>)), EQUAL>>, <<>>, <<<<OP0>>>>, 1, "base")>>,
            <<"p2sh-shape-21-byte-hash", C(<<D(t(1, <<OP0>>))>>, <<HASH160, PushOp(21, Blob(21, 3)), EQUAL, NOT>>, <<>>, <<<<OP0>>>>, 1, "base")>>,
            \* P2WSH
            <<"p2wsh-true", C(<<>>, wsh(ok1), <<t(1, ok1)>>, <<ok1>>, 1, "v0")>>,
            <<"p2wsh-false", C(<<>>, wsh(<<OP0>>), <<t(1, <<OP0>>)>>, <<<<OP0>>>>, 1, "v0")>>,
            <<"p2wsh-empty-script-input", C(<<>>, wsh(<<>>), <<<<1>>, t(1, <<>>)>>, <<<<>>>>, 1, "v0")>>,
            <<"p2wsh-empty-script", C(<<>>, wsh(<<>>), <<t(1, <<>>)>>, <<<<>>>>, 1, "v0")>>,
            <<"p2wsh-no-witness", C(<<>>, wsh(ok1), <<>>, <<ok1>>, 1, "v0")>>,
            <<"p2wsh-wrong-script", C(<<>>, wsh(ok1), <<t(2, <<N(2)>>)>>, <<ok1, <<N(2)>>>>, 1, "v0")>>,
            <<"p2wsh-extra-item", C(<<>>, wsh(ok1), <<<<1>>, t(1, ok1)>>, <<ok1>>, 1, "v0")>>,
            <<"p2wsh-two-left", C(<<>>, wsh(<<N(1), N(1)>>), <<t(1, <<N(1), N(1)>>)>>, <<<<N(1), N(1)>>>>, 1, "v0")>>,
            <<"p2wsh-sig-nonempty", C(<<N(1)>>, wsh(ok1), <<t(1, ok1)>>, <<ok1>>, 1, "v0")>>,
            <<"p2wsh-sig-op0", C(<<OP0>>, wsh(<<DROP, N(1)>>), <<t(1, <<DROP, N(1)>>)>>, <<<<DROP, N(1)>>>>, 1, "v0")>>,
            <<"p2wsh-item-520", C(<<>>, wsh(<<DROP, N(1)>>), <<Blob(520, 1), t(1, <<DROP, N(1)>>)>>, <<<<DROP, N(1)>>>>, 1, "v0")>>,
            <<"p2wsh-item-521", C(<<>>, wsh(<<DROP, N(1)>>), <<Blob(521, 1), t(1, <<DROP, N(1)>>)>>, <<<<DROP, N(1)>>>>, 1, "v0")>>,
            <<"p2wsh-script-600", C(<<>>, wsh(s600), <<t(1, s600)>>, <<s600>>, 1, "v0")>>,
            <<"p2wsh-truncated", C(<<>>, wsh(<<N(1), trunc76>>), <<t(1, <<N(1), trunc76>>)>>, <<<<N(1), trunc76>>>>, 1, "v0")>>,
            <<"p2sh-p2wsh-true", C(<<D(t(2, wsh(ok1)))>>, P2SHOut(t(2, wsh(ok1))), <<t(1, ok1)>>, <<ok1, wsh(ok1)>>, 1, "v0")>>,
            <<"p2sh-p2wsh-extra-push", C(<<N(1), D(t(2, wsh(ok1)))>>, P2SHOut(t(2, wsh(ok1))), <<t(1, ok1)>>, <<ok1, wsh(ok1)>>, 1, "v0")>>,
            <<"p2sh-p2wsh-pushdata1", C(<<PushOp(76, t(2, wsh(ok1)))>>, P2SHOut(t(2, wsh(ok1))), <<t(1, ok1)>>, <<ok1, wsh(ok1)>>, 1, "v0")>>,
            <<"p2sh-p2wsh-no-witness", C(<<D(t(2, wsh(ok1)))>>, P2SHOut(t(2, wsh(ok1))), <<>>, <<ok1, wsh(ok1)>>, 1, "v0")>>,
            <<"p2sh-p2wsh-false", C(<<D(t(2, wsh(<<OP0>>)))>>, P2SHOut(t(2, wsh(<<OP0>>))), <<t(1, <<OP0>>)>>, <<<<OP0>>, wsh(<<OP0>>)>>, 1, "v0")>>,
            \* P2PKH / P2WPKH
            <<"p2pkh", C(<<D(sg), D(k1c)>>, pkh, <<>>, <<>>, 0, "base")>>,
            <<"p2pkh-badsig", C(<<D(sgbad), D(k1c)>>, pkh, <<>>, <<>>, 0, "base")>>,
            <<"p2pkh-otherkey", C(<<D(Sig(2, 1, 1, 0)), D(PK(2, PKComp))>>, pkh, <<>>, <<>>, 0, "base")>>,
            <<"p2wpkh", C(<<>>, wpkh(k1c), <<sg, k1c>>, <<>>, -1, "v0")>>,
            <<"p2wpkh-uncompressed", C(<<>>, wpkh(k1u), <<sg, k1u>>, <<>>, -1, "v0")>>,
            <<"p2wpkh-badsig", C(<<>>, wpkh(k1c), <<sgbad, k1c>>, <<>>, -1, "v0")>>,
            <<"p2wpkh-emptysig", C(<<>>, wpkh(k1c), <<<<>>, k1c>>, <<>>, -1, "v0")>>,
            <<"p2wpkh-otherkey", C(<<>>, wpkh(k1c), <<Sig(2, 1, 1, 0), PK(2, PKComp)>>, <<>>, -1, "v0")>>,
            <<"p2wpkh-one-item", C(<<>>, wpkh(k1c), <<k1c>>, <<>>, -1, "v0")>>,
            <<"p2wpkh-three-items", C(<<>>, wpkh(k1c), <<<<>>, sg, k1c>>, <<>>, -1, "v0")>>,
            <<"p2wpkh-no-witness", C(<<>>, wpkh(k1c), <<>>, <<>>, -1, "v0")>>,
            <<"p2wpkh-sig-nonempty", C(<<OP0>>, wpkh(k1c), <<sg, k1c>>, <<>>, -1, "v0")>>,
            <<"p2sh-p2wpkh", C(<<D(t(1, wpkh(k1c)))>>, P2SHOut(t(1, wpkh(k1c))), <<sg, k1c>>, <<wpkh(k1c)>>, -1, "v0")>>,
            <<"p2sh-p2wpkh-badsig", C(<<D(t(1, wpkh(k1c)))>>, P2SHOut(t(1, wpkh(k1c))), <<sgbad, k1c>>, <<wpkh(k1c)>>, -1, "v0")>> }
    IN {Item(c[1], "orch", c[2], FS) : c \in cases}

\* taproot key path
KeyPathCases(dummy) ==
    LET FS == FSOf({"P2SH", "WITNESS"}, {"TAPROOT", "DISCOURAGE_UPGRADABLE_WITNESS_PROGRAM"})
        q == TRQ(1, PKXonly, 0, 192, 0)
        pk == <<N(1), PushOp(32, q)>>
        sigs == {SSig(1, ht, 1, 0) : ht \in {0, 1, 2, 3, 129, 130, 131}}
                \cup {SSig(1, ht, 99, 0) : ht \in {4, 5, 16, 80, 127, 128, 132, 133, 255}}
                \cup {SSig(1, 0, 1, 1), SSig(1, 0, 1, 2), SSig(1, 0, 1, 3), SSig(1, 1, 1, 2), SSig(2, 0, 1, 0), SSig(1, 0, 0, 0), SSig(1, 0, 2, 0),
                      SSig(1, 0, 99, 0), <<>>, <<1>>, Blob(64, 1), Blob(65, 1), Sig(1, 1, 0, 0)}
        annexes == {<<>>, <<<<80>>>>, <<<<80, 1, 2>>>>, <<<<81>>>>, <<<<>>>>}
        txs == {TxDefault, [TxDefault EXCEPT !.nomatch = TRUE]}
    IN {Item(ToString(<<"keypath", s, a, tx.nomatch>>), "keypath", MkCase(<<>>, pk, <<s>> \o a, <<>>, -2, "key", tx), FS)
          : s \in sigs, a \in annexes, tx \in txs}
       \cup {Item("keypath-sig-nonempty", "keypath", MkCase(<<OP0>>, pk, <<SSig(1, 0, 1, 0)>>, <<>>, -2, "key", TxDefault), FS),
             Item("keypath-no-witness", "keypath", MkCase(<<>>, pk, <<>>, <<>>, -2, "key", TxDefault), FS),
             Item("keypath-in-p2sh", "keypath", MkCase(<<D(ScrTok(1, pk))>>, P2SHOut(ScrTok(1, pk)), <<SSig(1, 0, 1, 0)>>, <<pk>>, -2, "key", TxDefault), FS),
             Item("keypath-in-p2sh-garbage", "keypath", MkCase(<<D(ScrTok(1, pk))>>, P2SHOut(ScrTok(1, pk)), <<<<1>>>>, <<pk>>, -2, "key", TxDefault), FS)}

\* taproot script path: control block, leaf version, commitment, annex, OP_SUCCESS pre-scan, resource limits
TapCase(wvals, sc, q, cb, tail, tx) == MkCase(<<>>, <<N(1), PushOp(32, q)>>, wvals \o <<ScrTok(1, sc), cb>> \o tail, <<sc>>, 1, "tap", tx)
ScriptPathCases(dummy) ==
    LET FS == FSOf({"P2SH", "WITNESS"}, {"TAPROOT", "DISCOURAGE_UPGRADABLE_TAPROOT_VERSION", "DISCOURAGE_OP_SUCCESS"})
        ok1 == <<N(1)>>
        q0 == TRQ(1, PKXonly, 1, 192, 0)
        cb0 == CB(192, 0, 1, PKXonly, 0, 0)
        trunc == [o |-> 76, d |-> <<>>, t |-> TRUE]
        ctl == { <<m, pad, 192, 0, PKXonly>> : m \in {0, 1, 2}, pad \in {-33, -1, 0, 1, 31, 32} }
               \cup { <<m, 0, 192, 0, PKXonly>> : m \in {127, 128, 129} }
               \cup { <<m, 0, lv, 0, PKXonly>> : m \in {0, 1}, lv \in {0, 2, 190, 194, 254, 102, 126} }
               \cup { <<m, 0, lv, 1, PKXonly>> : m \in {0, 1}, lv \in {192, 194} }
               \cup { <<m, 0, lv, par, form>> : m \in {0, 1}, lv \in {192, 194}, par \in {0, 1}, form \in {PKXoff, PKXbig} }
        A == { Item(ToString(<<"ctl", c, Len(an), sc = ok1>>), "scriptpath",
                    TapCase(<<>>, sc, TRQ(1, c[5], 1, c[3], c[1]), CB(c[3], c[4], 1, c[5], c[1], c[2]), an, TxDefault), FS)
                 : c \in ctl, an \in {<<>>, <<<<80, 7>>>>}, sc \in {ok1, <<OP0>>} }
        Bm == { Item("commit-other-script", "scriptpath", MkCase(<<>>, <<N(1), PushOp(32, q0)>>, <<ScrTok(2, <<N(2)>>), cb0>>, <<ok1, <<N(2)>>>>, 2, "tap", TxDefault), FS),
                Item("commit-other-key", "scriptpath", TapCase(<<>>, ok1, q0, CB(192, 0, 2, PKXonly, 0, 0), <<>>, TxDefault), FS),
                Item("commit-other-depth", "scriptpath", TapCase(<<>>, ok1, TRQ(1, PKXonly, 1, 192, 1), CB(192, 0, 1, PKXonly, 2, 0), <<>>, TxDefault), FS),
                Item("commit-other-leafver", "scriptpath", TapCase(<<>>, ok1, TRQ(1, PKXonly, 1, 194, 0), cb0, <<>>, TxDefault), FS),
                Item("commit-blob-control", "scriptpath", MkCase(<<>>, <<N(1), PushOp(32, q0)>>, <<ScrTok(1, ok1), Blob(33, 9)>>, <<ok1>>, 1, "tap", TxDefault), FS),
                Item("commit-blob-control-65", "scriptpath", MkCase(<<>>, <<N(1), PushOp(32, q0)>>, <<ScrTok(1, ok1), Blob(65, 9)>>, <<ok1>>, 1, "tap", TxDefault), FS),
                Item("commit-blob-program", "scriptpath", MkCase(<<>>, <<N(1), PushOp(32, Blob(32, 4))>>, <<ScrTok(1, ok1), cb0>>, <<ok1>>, 1, "tap", TxDefault), FS),
                Item("scriptpath-sig-nonempty", "scriptpath", [TapCase(<<>>, ok1, q0, cb0, <<>>, TxDefault) EXCEPT !.sig = <<OP0>>], FS),
                Item("scriptpath-extra-input", "scriptpath", TapCase(<<<<1>>>>, ok1, q0, cb0, <<>>, TxDefault), FS),
                Item("scriptpath-input-used", "scriptpath", TapCase(<<<<1>>>>, <<>>, q0, cb0, <<>>, TxDefault), FS),
                Item("scriptpath-empty-script", "scriptpath", TapCase(<<>>, <<>>, q0, cb0, <<>>, TxDefault), FS),
                Item("scriptpath-unknown-leaf-garbage-script", "scriptpath", TapCase(<<>>, <<RETURN, trunc>>, TRQ(1, PKXonly, 1, 194, 0), CB(194, 0, 1, PKXonly, 0, 0), <<>>, TxDefault), FS),
                Item("scriptpath-item-520", "scriptpath", TapCase(<<Blob(520, 1)>>, <<DROP, N(1)>>, q0, cb0, <<>>, TxDefault), FS),
                Item("scriptpath-item-521", "scriptpath", TapCase(<<Blob(521, 1)>>, <<DROP, N(1)>>, q0, cb0, <<>>, TxDefault), FS),
                Item("scriptpath-item-521-unknown-leaf", "scriptpath", TapCase(<<Blob(521, 1)>>, <<DROP, N(1)>>, TRQ(1, PKXonly, 1, 194, 0), CB(194, 0, 1, PKXonly, 0, 0), <<>>, TxDefault), FS) }
        succ == {80, 98, 126, 129, 131, 137, 141, 149, 153, 187, 200, 254}
        notsucc == {97, 101, 130, 135, 139, 186, 255}
        scripts(x) == { <<"alone", <<Op(x)>>>>, <<"after-true", <<N(1), Op(x)>>>>, <<"before-true", <<Op(x), N(1)>>>>, <<"after-return", <<RETURN, Op(x)>>>>,
                        <<"unexecuted", <<OP0, IF_, Op(x), ENDIF, N(1)>>>>, <<"before-truncated", <<Op(x), trunc>>>>,
                        <<"after-push-holding-it", <<PushOp(1, <<x>>), DROP, N(1)>>>>, <<"after-unbalanced-else", <<ELSE_, Op(x)>>>>,
                        <<"after-521-push", <<PushOp(77, Blob(521, 1)), Op(x)>>>> }
        Sx == UNION { { Item(ToString(<<"opsuccess", x, s[1], Len(st)>>), "scriptpath", TapCase(st, s[2], q0, cb0, <<>>, TxDefault), FS)
                          : s \in scripts(x), st \in {<<>>, <<Blob(521, 2)>>} } : x \in succ \cup notsucc }
              \cup { Item("opsuccess-after-truncated", "scriptpath", TapCase(<<>>, <<N(1), trunc>>, q0, cb0, <<>>, TxDefault), FS),
                     Item("opsuccess-in-base", "scriptpath", Wrap("bare", <<>>, <<N(1), Op(187)>>, TxDefault), FSOf({}, {"P2SH", "WITNESS", "TAPROOT", "DISCOURAGE_OP_SUCCESS"})),
                     Item("opsuccess-in-v0", "scriptpath", Wrap("p2wsh", <<>>, <<N(1), Op(187)>>, TxDefault), FSOf({"P2SH", "WITNESS"}, {"TAPROOT", "DISCOURAGE_OP_SUCCESS"})) }
    IN A \cup Bm \cup Sx

\* tapscript signature checks under a Merkle path: path length x leaf position (both orders of the lexicographic
\* TapBranch hash) x signature-bearing scripts x annex.  The BIP342 digest commits to the TRUE tapleaf hash, whatever
\* the commitment check computed on the way to the root; a signature over a digest with another leaf hash must fail.
TapPathCases(dummy) ==
    LET FS == {{"P2SH", "WITNESS", "TAPROOT"}}
        trees == {<<0, -1>>, <<1, 0>>, <<1, 1>>, <<2, 0>>, <<2, 1>>, <<2, 2>>, <<2, 3>>, <<7, 0>>, <<7, 127>>, <<7, 85>>, <<128, 715827882>>}
        k2 == D(PK(2, PKXonly))
        k3 == D(PK(3, PKXonly))
        S(k, m) == SSig(k, 0, m, 0)
        NUMEQUAL == Op(156)
        \* <<tag, witness inputs (first pushed first) as a function of the designator offset, script>>
        shapes(off) == {
            <<"checksig", <<S(2, off + 1)>>, <<k2, CHECKSIG>>>>,
            <<"checksig-sighash-all", <<SSig(2, 1, off + 1, 0)>>, <<k2, CHECKSIG>>>>,
            <<"checksigverify", <<S(2, off + 1)>>, <<k2, CHECKSIGVERIFY, N(1)>>>>,
            <<"checksigadd", <<S(2, off + 1)>>, <<OP0, k2, CHECKSIGADD, N(1), EQUAL>>>>,
            <<"checksigadd-chain", <<S(3, off + 1), S(2, off + 1)>>, <<k2, CHECKSIG, k3, CHECKSIGADD, N(2), NUMEQUAL>>>>,
            <<"checksigadd-chain-one-empty", <<<<>>, S(2, off + 1)>>, <<k2, CHECKSIG, k3, CHECKSIGADD, N(1), NUMEQUAL>>>>,
            <<"codesep-checksig", <<S(2, off + 2)>>, <<CODESEP, k2, CHECKSIG>>>>,
            <<"codesep-mid-checksigverify", <<S(2, off + 3)>>, <<k2, CODESEP, CHECKSIGVERIFY, N(1)>>>>,
            <<"codesep-checksigadd", <<S(2, off + 2)>>, <<CODESEP, OP0, k2, CHECKSIGADD, N(1), EQUAL>>>>,
            <<"codesep-between", <<S(3, off + 4), S(2, off + 1)>>, <<k2, CHECKSIGVERIFY, CODESEP, k3, CHECKSIG>>>> }
    IN UNION { { Item(ToString(<<"tappath", t, sh[1], Len(an), off>>), "tappath",
                      MkCase(<<>>, <<N(1), PushOp(32, TRQ(1, PKXonly, 1, 192, t[1]) \o <<t[2]>>)>>,
                             sh[2] \o <<ScrTok(1, sh[3]), CB(192, 0, 1, PKXonly, t[1], 0) \o <<t[2]>>>> \o an, <<sh[3]>>, 1, "tap", TxDefault), FS)
                   : t \in trees, sh \in shapes(off), an \in {<<>>, <<<<80, 9, 9>>>>} }
               : off \in {0, 100} }

\* limit templates
LimitCases(part) ==
    LET ones(n) == RepSeq(<<N(1)>>, n)
        nops(n) == RepSeq(<<NOP>>, n)
        FSw(w) == {WFlags(w)} \cup {WFlags(w) \cup {"P2SH", "WITNESS", "CLEANSTACK"}}
        It(tag, w, ins, sc) == Item(tag, w, Wrap(w, ins, sc, TxDefault), FSw(w))
        big(k) == <<PushOp(77, Blob(520, k)), DROP>>
        fill(s) == RepSeq(big(1), 19) \o <<PushOp(s, Blob(s, 2)), DROP, N(1)>>            \* 19 * 524 + s + 3 bytes
        drops(n) == RepSeq(<<DROP2>>, (n - 1) \div 2) \o (IF n % 2 = 0 THEN <<DROP>> ELSE <<>>)
        stackT == UNION { { It(ToString(<<"stack", n>>), "bare", <<>>, ones(n)),
                            It(ToString(<<"stack-alt", n>>), "bare", <<>>, ones(n - 100) \o RepSeq(<<N(1), TOALT>>, 100)),
                            It(ToString(<<"stack-tap", n>>), "tap", <<>>, ones(n) \o drops(n)),
                            It(ToString(<<"stack-dup3", n>>), "bare", <<>>, ones(n - 2) \o <<DUP3>>),
                            It(ToString(<<"stack-unexecuted-pushes", n>>), "bare", <<>>, <<OP0, IF_>> \o ones(n) \o <<ENDIF, N(1)>>),
                            It(ToString(<<"stack-initial-tap", n>>), "tap", ones(n), drops(n)),
                            It(ToString(<<"stack-initial-tap-success", n>>), "tap", ones(n), <<Op(80)>>),
                            It(ToString(<<"stack-initial-p2wsh", n>>), "p2wsh", ones(n), <<DEPTH>>),
                            It(ToString(<<"stack-initial-p2wsh-drop", n>>), "p2wsh", ones(n), <<DROP, DEPTH>>) }
                          : n \in {1000, 1001} }
        opsT == UNION { { It(ToString(<<"ops", n, w>>), w, <<>>, <<N(1)>> \o nops(n)),
                          It(ToString(<<"ops-unexecuted", n, w>>), w, <<>>, <<OP0, IF_>> \o nops(n - 2) \o <<ENDIF, N(1)>>),
                          It(ToString(<<"ops-nested-if", n, w>>), w, <<>>, RepSeq(<<N(1), IF_>>, n \div 2) \o <<N(1)>> \o RepSeq(<<ENDIF>>, n \div 2) \o nops(n % 2)),
                          It(ToString(<<"ops-verify", n, w>>), w, <<>>, RepSeq(<<N(1), VERIFY>>, n) \o <<N(1)>>),
                          It(ToString(<<"ops-reserved-unexecuted", n, w>>), w, <<>>, <<OP0, IF_>> \o RepSeq(<<Op(80)>>, 300) \o nops(n - 2) \o <<ENDIF, N(1)>>) }
                        : n \in {200, 201, 202}, w \in {"bare", "p2sh", "p2wsh", "tap"} }
        elemT == UNION { { It(ToString(<<"elem-push", n, w>>), w, <<>>, <<PushOp(77, Blob(n, 1)), DROP, N(1)>>),
                           It(ToString(<<"elem-push-unexecuted", n, w>>), w, <<>>, <<OP0, IF_, PushOp(77, Blob(n, 1)), ENDIF, N(1)>>),
                           It(ToString(<<"elem-input", n, w>>), w, <<PushOp(77, Blob(n, 1))>>, <<DROP, N(1)>>),
                           It(ToString(<<"elem-input-size", n, w>>), w, <<PushOp(77, Blob(n, 1))>>, <<SIZE, B(EncInt(n)), EQUALVERIFY, DROP, N(1)>>) }
                         : n \in {519, 520, 521}, w \in {"bare", "p2sh", "p2wsh", "tap"} }
        sizeT == UNION { { It(ToString(<<"script-size", 9959 + s, w>>), w, <<>>, fill(s)) } : s \in {40, 41, 42}, w \in {"bare", "p2wsh", "tap"} }
                 \cup { It(ToString(<<"scriptsig-size", 9959 + s>>), "bare", fill(s), <<>>) : s \in {40, 41, 42} }
                 \cup { It(ToString(<<"p2sh-redeem-size", n>>), "p2sh", <<>>, <<PushOp(77, Blob(n - 5, 1)), DROP, N(1)>>) : n \in {519, 520, 521} }
    IN CASE part = "stack" -> stackT [] part = "ops" -> opsT [] part = "elem" -> elemT [] part = "size" -> sizeT

\* the tapscript signature-operation budget: n signature checks against a witness whose size is tuned by the annex
BudgetCases(dummy) ==
    LET FS == {{"P2SH", "WITNESS", "TAPROOT"}}
        FS2 == FS \cup {{"P2SH", "WITNESS", "TAPROOT", "DISCOURAGE_UPGRADABLE_PUBKEYTYPE"}}
        q == TRQ(TapKey, PKXonly, 1, 192, 0)
        cb == CB(192, 0, TapKey, PKXonly, 0, 0)
        sc(n, pkv) == <<D(pkv)>> \o RepSeq(<<DUP2, CHECKSIGVERIFY>>, n - 1) \o <<CHECKSIG>>
        annex(a) == IF a = 0 THEN <<>> ELSE <<(<<80>> \o Zeros(a - 1))>>
        sizes == {0, 1, 2, 10, 20, 30} \cup (36..56) \cup (86..106)
    IN { Item(ToString(<<"budget", n, a>>), "budget", TapCase(<<SSig(1, 0, 1, 0)>>, sc(n, PK(1, PKXonly)), q, cb, annex(a), TxDefault), FS)
           : n \in 1..7, a \in sizes }
       \cup
       \* an unknown public key type counts against the budget as well
       { Item(ToString(<<"budget-unknown-keytype", n, a>>), "budget", TapCase(<<SSig(1, 0, 1, 0)>>, sc(n, PK(1, PKComp)), q, cb, annex(a), TxDefault), FS2)
           : n \in 3..5, a \in sizes }
       \cup
       \* an empty signature does not
       { Item(ToString(<<"budget-empty-sig", n>>), "budget",
              TapCase(<<<<>>>>, <<D(PK(1, PKXonly))>> \o RepSeq(<<DUP2, CHECKSIG, DROP>>, n) \o <<CHECKSIG, NOT>>, q, cb, <<>>, TxDefault), FS)
           : n \in {1, 10, 50} }

SetFams == {"lock", "codesep", "minimalif", "msig", "msig2", "wprog", "orch", "keypath", "scriptpath", "limits_stack", "limits_ops", "limits_elem", "limits_size", "budget", "tappath"}
ProgFams == {"ctrl", "ctrl2", "stack", "arith1", "arith2", "arith3", "hash", "opcodes", "opcodes_unexec", "push", "sig", "tsig", "tsigadd"}
SetFamOf(FN, ML) ==
    CASE FN = "lock" -> LockCases(177) \cup LockCases(178)
      [] FN = "codesep" -> CsCases(0)
      [] FN = "minimalif" -> MinimalIfCases(0)
      [] FN = "msig" -> MsigCases(ML)
      [] FN = "msig2" -> Msig2Cases(0)
      [] FN = "wprog" -> WProgCases(0)
      [] FN = "orch" -> OrchCases(0)
      [] FN = "keypath" -> KeyPathCases(0)
      [] FN = "scriptpath" -> ScriptPathCases(0)
      [] FN = "limits_stack" -> LimitCases("stack")
      [] FN = "limits_ops" -> LimitCases("ops")
      [] FN = "limits_elem" -> LimitCases("elem")
      [] FN = "limits_size" -> LimitCases("size")
      [] FN = "budget" -> BudgetCases(0)
      [] FN = "tappath" -> TapPathCases(0)
      [] OTHER -> {}

\* lengths per tier when FamName = "all"
TierLen == [quick |-> [ctrl |-> 3, ctrl2 |-> 3, stack |-> 6, arith1 |-> 3, arith2 |-> 3, arith3 |-> 4, hash |-> 3, opcodes |-> 4,
                      opcodes_unexec |-> 5, push |-> 2, sig |-> 3, tsig |-> 4, tsigadd |-> 6, msig |-> 2],
            thorough |-> [ctrl |-> 4, ctrl2 |-> 5, stack |-> 7, arith1 |-> 4, arith2 |-> 3, arith3 |-> 4, hash |-> 4, opcodes |-> 4,
                         opcodes_unexec |-> 5, push |-> 4, sig |-> 4, tsig |-> 4, tsigadd |-> 6, msig |-> 3]]
LenOf(f) == IF FamName = "all" THEN (IF f \in DOMAIN TierLen[Tier] THEN TierLen[Tier][f] ELSE 0) ELSE MaxLen
Chosen == IF FamName = "all" THEN ProgFams \cup SetFams ELSE {FamName}

IsSet == fam \in SetFams
ProgFam == ProgFamOf(fam, LenOf(fam))
SetFam == SetFamOf(fam, LenOf(fam))

FamLen == IF Len(ProgFam.alpha) < LenOf(fam) THEN Len(ProgFam.alpha) ELSE LenOf(fam)
FlagSets(w) == {F \in {ProgFam.base \cup WFlags(w) \cup X : X \in SUBSET ProgFam.opt} : ConsistentFlags(F)}

-----------------------------------------------------------------------------
(* ---- emission ---- *)

\* verdict of the rules, and (taproot spends only) of every named deviation that would answer differently
DeviationsFor(C) == IF C.tsv \in {"tap", "key"} THEN {"undefined-hashtype-accepted", "single-without-output-accepted", "internal-key-unchecked"}
                    ELSE IF C.tsv = "base" /\ (\E i \in 1..Len(C.sig) : Size(C.sig[i].d) >= 76) THEN {"findanddelete-long-signature-missed"}
                    ELSE {}
Alt(C, F, v) == SetToSeq({x \in {[d |-> d, v |-> Verify([C EXCEPT !.kf = {d}], F)] : d \in DeviationsFor(C)} : x.v # v})
Verdicts(C, FSet) == LET FS == SetToSeq(FSet) IN
                     [i \in 1..Len(FS) |-> LET v == Verify(C, FS[i]) IN [f |-> FS[i], v |-> v, alt |-> Alt(C, FS[i], v)]]

EmitCase(kind, tag, w, C, FSet, steps) ==
    PrintT(<<"VFT", ToJson([fam |-> fam, w |-> w, kind |-> kind, tag |-> tag, steps |-> steps, C |-> C, fv |-> Verdicts(C, FSet)])>>)

Split(p) == LET nin == IF ProgFam.nin < Len(p) THEN ProgFam.nin ELSE Len(p)
            IN [ins |-> SubSeq(p, 1, nin), sc |-> SubSeq(p, nin + 1, Len(p))]

\* a signature left on the stack cannot be pushed by the script it signs
NoSigTok(st) == \A i \in 1..Len(st) : ~(IsEcdsaTok(st[i]) \/ IsSchnorrTok(st[i]))

EmitProg(p) ==
    LET s == Split(p)
    IN \A w \in ProgFam.wraps : \A tx \in ProgFam.txs :
          LET r == InnerRun(w, s.ins, s.sc, tx, ProgFam.base \cup WFlags(w)) IN
          /\ EmitCase("plain", "", w, Wrap(w, s.ins, s.sc, tx), FlagSets(w), r.k)
          /\ ((ProgFam.chk /\ r.ok /\ Len(r.ex) = 0 /\ NoSigTok(r.st \o r.alt)) =>
                EmitCase("chk", "", w, Wrap(w, s.ins, s.sc \o ChkSuffix(r.st, r.alt), tx), FlagSets(w), r.k))

NoEnv == [on |-> FALSE]
GInit == fam = "" /\ prog = <<>> /\ env = NoEnv /\ pc = 0 /\ ist = InitState(<<>>, 0)

\* foreign vectors (Bitcoin Core's script_tests.json, tx_valid.json, tx_invalid.json decoded by the harness):
\* the model is the judge, nothing of gocoin runs
Vec == IF VecFile = "" THEN <<>> ELSE ndJsonDeserialize(VecFile)
SeqToSet(q) == {q[i] : i \in 1..Len(q)}
IsVec == FamName = "vectors"
EmitVec(i) == PrintT(<<"VFT", ToJson([i |-> i, v |-> Verify([Vec[i].C EXCEPT !.kf = {}], SeqToSet(Vec[i].f))])>>)

GStep == /\ IF fam = "" THEN fam' \in (IF IsVec THEN {"vectors"} ELSE Chosen) /\ UNCHANGED prog
            ELSE /\ UNCHANGED fam
                 /\ IF IsVec THEN prog = <<>> /\ \E i \in 1..Len(Vec) : prog' = <<i>>
                    ELSE IF IsSet THEN prog = <<>> /\ \E c \in SetFam : prog' = <<c>>
                    ELSE Len(prog) < FamLen /\ \E op \in ProgFam.alpha[Len(prog) + 1] : prog' = Append(prog, op)
         /\ UNCHANGED <<env, pc, ist>>

Emit == IF fam = "" THEN TRUE
        ELSE IF IsVec THEN EmitVec(prog'[1])
        ELSE IF IsSet THEN EmitCase("set", prog'[1].tag, prog'[1].w, prog'[1].C, prog'[1].FS, -1)
        ELSE (EmitAt = 0 \/ Len(prog') = EmitAt \/ (EmitAt > FamLen /\ Len(prog') = FamLen)) => EmitProg(prog')

GNext == GStep /\ Emit
GSpec == GInit /\ [][GNext]_gvars

-----------------------------------------------------------------------------
(* ---- design-level checks (Script_mc.cfg) ---- *)
\* all (case, flag sets) of the current state
CasesOf(p) ==
    IF IsVec \/ fam = "" THEN {}
    ELSE IF IsSet THEN (IF Len(p) = 0 THEN {} ELSE {[C |-> p[1].C, FS |-> p[1].FS]})
    ELSE LET s == Split(p) IN {[C |-> Wrap(w, s.ins, s.sc, tx), FS |-> FlagSets(w)] : w \in ProgFam.wraps, tx \in ProgFam.txs}

\* every script rule switched on by a flag is a soft fork: among the enumerated flag sets, a superset never accepts
\* what a subset rejects
SoftForkInv == ~env.on => \A c \in CasesOf(prog) : \A F \in c.FS : \A G \in c.FS :
                              (F \subseteq G /\ F # G /\ Verify(c.C, G) = "T") => Verify(c.C, F) = "T"

\* the model is total: a verdict for every case, and never "undecidable" on generated cases
TotalInv == ~env.on => \A c \in CasesOf(prog) : \A F \in c.FS : Verify(c.C, F) \in {"T", "F"}

\* the builder together with the stepwise interpreter: a complete program is executed op by op as the locked
\* script of one of its wrappers (env # 0), so that the interpreter invariants are checked in every intermediate state
MCInit == GInit
MCBuild == ~env.on /\ GStep
MCStart == /\ ~env.on /\ fam # "" /\ ~IsSet /\ Len(prog) > 0
           /\ \E w \in ProgFam.wraps : \E tx \in ProgFam.txs : \E F \in FlagSets(w) :
                LET s == Split(prog)
                    C == Wrap(w, s.ins, s.sc, tx)
                IN /\ env' = [on |-> TRUE, F |-> F, sv |-> WSigVersion(w), p |-> s.sc, sid |-> C.tgt, C |-> C, st0 |-> Vals(s.ins)]
                   /\ ist' = InitState(Vals(s.ins), 100000)
                   /\ pc' = 1
           /\ UNCHANGED <<fam, prog>>
MCRun == env.on /\ MNext /\ UNCHANGED <<fam, prog>>
MCNext == MCBuild \/ MCStart \/ MCRun
MCSpec == MCInit /\ [][MCNext]_gvars

InterpInv == env.on => (StackBound /\ OpCountBound /\ ElementBound /\ CondDepth)
\* the stepwise machine and the fold used by Verify agree
FoldInv == (env.on /\ (~ist.ok \/ pc > Len(env.p))) => Run(InitState(env.st0, 100000), 1, env) = ist
=============================================================================
