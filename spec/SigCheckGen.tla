---------------------------- MODULE SigCheckGen ----------------------------
(* G->R export for SigCheck (run with -workers 1): one VFT line per table row, one VFS line per transition    *)
(* of the signer machine (shortest path to its source state + the step + what the property promises after it). *)
EXTENDS SigCheck, Json

VARIABLE h      \* signer history: sequence of [a, x, promise]

gvars == <<vars, h>>
GView == vars

Step(a, x) == [a |-> a, x |-> x, p |-> Promise']
Cls == [kc |-> kc', mc |-> mc', ac |-> ac']

GInit == Init /\ h = <<>>

GNext ==
    \/ Pick /\ h' = h /\ PrintT(<<"VFT", ToJson(c')>>)
    \/ Begin /\ h' = h
    \/ \E k \in Kinds : Sign(k) /\ h' = Append(h, Step("Sign", k))
                        /\ PrintT(<<"VFS", ToJson([cls |-> Cls, steps |-> h'])>>)
    \/ Observe /\ h' = Append(h, Step("Observe", ""))
               /\ PrintT(<<"VFS", ToJson([cls |-> Cls, steps |-> h'])>>)
    \/ \E w \in Tampers : Tamper(w) /\ h' = Append(h, Step("Tamper", w))
                          /\ PrintT(<<"VFS", ToJson([cls |-> Cls, steps |-> h'])>>)

GSpec == GInit /\ [][GNext]_gvars
=============================================================================
