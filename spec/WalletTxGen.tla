---------------------------- MODULE WalletTxGen ----------------------------
(* G->R export for WalletTx (run with -workers 1): every transition that    *)
(* completes a case (Build, Build2, SignRaw) prints the case together with  *)
(* the model's prediction of what the wallet binary will write.             *)
(* Thin > 1 keeps every Thin-th case of the (deterministic, single worker)  *)
(* breadth-first enumeration, starting at Salt % Thin: the invariants are    *)
(* still evaluated on all of them, only the replayed subset is thinned.      *)
(* In simulation mode (Thin = 1) every successor of a walk's last state is   *)
(* printed: each is a legitimate case.                                       *)
EXTENDS WalletTx, Json

CONSTANTS Thin, Salt

AmtRec(a) == [h |-> a.h, u |-> a.u, e |-> a.e]

Payload ==
    [phase |-> phase', cfg |-> cfg', unsp |-> unsp',
     dests |-> [i \in 1..Len(dests) |-> [dt |-> dests[i].dt, req |-> Req(i), pay |-> Wanted(i)]],
     opts |-> [opts EXCEPT !.tune = <<>>], tune |-> [t |-> opts.tune[1], d |-> opts.tune[2]],
     fee |-> [cls |-> opts.fee, amt |-> Fee],
     msg |-> MsgOf(opts.msg), seqc |-> SeqOf(opts.seqc), lt |-> LockOf(opts.lt), ver |-> VerOf(opts.ver),
     subapplies |-> SubApplies,
     need |-> IF SubUnderflow THEN Zero ELSE Need, funds |-> TotalOwned(unsp),
     owned |-> [j \in 1..Len(unsp) |-> Owned(unsp[j])],
     res |-> res', raw |-> raw', rres |-> rres', unsp2 |-> unsp2', res2 |-> res2',
     changetype |-> IF OwnedSeq(unsp) = <<>> /\ opts.change = "none" THEN "" ELSE ChangeType]

Completes == /\ phase' \in {"built", "built2", "rawsigned"}
             /\ ~(phase' = "built" /\ res'.written /\ "sweep" \in Second)     \* that case is printed by its Build2 step

Emit == Completes =>
            LET n == TLCGet(2) IN
            /\ TLCSet(2, n + 1)
            /\ (n % Thin = 0 => PrintT(<<"VFT", ToJson(Payload)>>))

GInit == Init /\ TLCSet(2, Salt % Thin)
GNext == Next /\ Emit
GSpec == GInit /\ [][GNext]_vars
=============================================================================
