---------------------------- MODULE UtxoSaveGen ----------------------------
(* G->R export for UtxoSave: complete interleavings (from Init until Close   *)
(* has returned and every goroutine has ended) as schedules for the gated    *)
(* replay on the real UnspentDB.  One history entry per model step:          *)
(*   p/i   the goroutine that moves (M, S i, W i)                            *)
(*   op    the operation Main begins (M_Begin only)                          *)
(*   hook  the hook the goroutine arrives at ("" = none: internal step,      *)
(*         "ret" = the operation returns to the caller)                      *)
(*   pr    the model's prediction of what the driver can observe afterwards  *)
(* Restrictions that make the real run follow the schedule deterministically *)
(* (all of them only remove behaviours): no time.After branch fires          *)
(* (Timeouts = FALSE in the cfg; the driver uses a time target of one hour), *)
(* a select is only entered when exactly one of the two tokens is present,   *)
(* and the last operation is Close.                                          *)
(* Mode "collide" / "visible": the behaviour is printed as soon as a state   *)
(* is reached in which two writers own the same tmp file / a UTXO.db that is *)
(* not the complete snapshot of its header block is visible (the driver lets *)
(* everything run to its end after the prefix).                              *)
EXTENDS UtxoSave, Json

CONSTANT Mode        \* "full" | "collide" | "visible"

VARIABLES h, printed, lazyAt, d0
gvars == <<vars, h, printed, lazyAt, d0>>
GView == <<vars, printed, lazyAt>>

SetToSeq(S) == LET RECURSIVE F(_) F(s) == IF s = {} THEN <<>> ELSE LET x == CHOOSE y \in s : TRUE IN <<x>> \o F(s \ {x}) IN F(S)

\* block named in the header of inode n (-1: no such file, -2: an empty / headerless file)
BlkOf(n) == IF n = 0 THEN -1 ELSE IF n = InitIno THEN InitH
            ELSE IF inode'[n] = <<>> THEN -2 ELSE hdr'[inode'[n][1].s]
GoodP(n) == n = InitIno \/ (~(\E w \in Savers : wino'[w] = n /\ wpc'[w] \in {"writer_created", "writer_chunk"})
                            /\ \E s \in Savers : hdr'[s] >= 0 /\ inode'[n] = [i \in 1..N |-> [s |-> s, i |-> i, v |-> hdr'[s]]])

Pred == [db |-> BlkOf(fdb'), dbgood |-> (fdb' # 0 /\ GoodP(fdb')),
         old |-> BlkOf(fold'), oldgood |-> (fold' # 0 /\ GoodP(fold')),
         tmps |-> SetToSeq({b \in 0..MaxH : tmp'[b] # 0}),
         wip |-> wip', abort |-> abortCh', dirty |-> dirty', last |-> last', ondisk |-> onDisk',
         locks |-> [k \in Buckets |-> rlock'[k] # {}],
         \* the driver may read the fields / probe the locks only when nobody is inside an unhooked segment
         quiet |-> (mpc' \notin {"commit_w", "undo_w1", "undo_w2"} /\ \A s \in Savers : spc'[s] # "unlocking"),
         collide |-> ~TmpNamesDoNotCollide']

HookOf(pc) == IF pc \in Hooks THEN pc ELSE IF pc = "idle" THEN "ret" ELSE ""

Log(p, i, op, pc, ab) == h' = Append(h, [p |-> p, i |-> i, op |-> op, hook |-> HookOf(pc), ab |-> ab, pr |-> Pred])

\* per behaviour, each writer may be "lazy": it stops at the given place until Main waits for it in Close or in Save
\* (uniform random scheduling practically never lets a writer outlive the next save otherwise)
LazyPlaces == {"none", "writer_start", "writer_created", "writer_chunk", "before"}
GInit == Init /\ h = <<>> /\ printed = FALSE /\ d0 = dirty /\ lazyAt \in (IF Mode # "full" THEN {[s \in Savers |-> "none"]} ELSE [Savers -> LazyPlaces])
Held(w) == /\ mpc \notin {"close_wait_files", "save_wait"}
           /\ \/ lazyAt[w] = wpc[w]
              \/ lazyAt[w] = "before" /\ wpc[w] \in {"writer_before_rename", "writer_before_remove"}

OneToken == abortCh + hurryCh = 1

\* Main is inside a segment that has no hook in front of its next operation (the reads of Idle / Close before
\* Save(), the return of lastFileClosed.Wait()): on the real code it goes on by itself as soon as it can, the
\* driver cannot hold it back - so in the exported schedules nothing else moves while such a step is enabled
Urgent == mpc \in {"idle_save", "close_save"} \/ (mpc = "save_wait" /\ lastFileClosed = 0)

GStep ==
    \/ \E op \in Ops : /\ (nops = MaxOps - 1) <=> (op = "Close")
                       /\ M_Begin(op) /\ Log("M", 0, op, mpc', FALSE)
    \/ MainInternal /\ Log("M", 0, "", mpc', FALSE)
    \/ \E s \in Savers : /\ ~Urgent
                         /\ spc[s] \in {"save_poll", "save_full"} => OneToken
                         /\ SaverNext(s) /\ Log("S", s, "", spc'[s], sabort'[s])
    \/ \E w \in Savers : ~Urgent /\ ~Held(w) /\ WriterNext(w) /\ Log("W", w, "", wpc'[w], FALSE)

Bad == CASE Mode = "collide" -> ~TmpNamesDoNotCollide'
         [] Mode = "visible" -> ~VisibleSnapshotMatchesHeader'
         [] OTHER -> FALSE

GNext ==
    /\ ~printed
    /\ \/ /\ GStep /\ UNCHANGED <<lazyAt, d0>>
          /\ IF Bad
             THEN printed' = TRUE /\ PrintT(<<"VFT", ToJson([steps |-> h', complete |-> FALSE, dirty0 |-> d0])>>)
             ELSE printed' = FALSE
       \/ /\ Mode = "full" /\ AllQuiet /\ closed
          /\ printed' = TRUE /\ UNCHANGED <<vars, h, lazyAt, d0>>
          /\ PrintT(<<"VFT", ToJson([steps |-> h, complete |-> TRUE, dirty0 |-> d0])>>)

GSpec == GInit /\ [][GNext]_gvars
=============================================================================
