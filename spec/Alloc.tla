------------------------------- MODULE Alloc -------------------------------
(***************************************************************************)
(* lib/others/memory : the slab allocator that holds every UTXO record.    *)
(*                                                                         *)
(* A class owns 1 MiB pages cut into Cap[c] slots.  A free slot carries a  *)
(* `node` (prev/next = class free list, prevInPage/nextInPage = free list  *)
(* of its page); the pointers are modelled one by one, as the code writes  *)
(* them.  A slot address is <<page, slot index>>, Nil is <<0, 0>>.         *)
(*                                                                         *)
(* Code                          Specification                              *)
(*   linkSharedPage /            Link                                       *)
(*   newSharedPageLocal                                                     *)
(*   uintptrMallocShared /       Take   (bump the current page, else pop    *)
(*   classMalloc                         the head of the class free list)   *)
(*   uintptrFreeShared /         Push   (push on both lists unless the      *)
(*   classFree                           page is being evacuated)           *)
(*   Malloc                      MallocBegin (Allocs.Add) ; MallocLocked    *)
(*                               (the classMu section) | PMallocBegin ;     *)
(*                               PMallocMap (private mapping)               *)
(*   Free                        FreeBegin ; FreeLocked | PFreeBegin ;      *)
(*                               PFreeUnmap                                 *)
(*   defragClass                 DefragStart (selection, evacuating flags,  *)
(*                               free slots leave the class list),          *)
(*                               DefragRelocate (one live slot: classMalloc,*)
(*                               copy, callback, classFree), DefragUnlink   *)
(*                               (page leaves the class and is unmapped),   *)
(*                               DefragEnd (counter deltas applied)         *)
(*   DefragAllImproved           "for every class over the threshold: one   *)
(*                               goroutine runs defragClass(that class)" =  *)
(*                               DefragStart(c, _) for the classes with     *)
(*                               PotFree >= TrigMin, each with its own dfr  *)
(*                               (TraceAlloc checks class by class that a   *)
(*                               defragClass run was started by the pass    *)
(*                               for that class, once)                      *)
(*   pageCacheRefill             Refill                                     *)
(*                                                                         *)
(* Named deviations from the code:                                         *)
(*  - PageListAsSequence: the doubly linked page list (prev/next/first/    *)
(*    last) is a sequence; the harness checks the two directions agree.    *)
(*  - FreeReleaseDead: the "page is completely free" branch of             *)
(*    uintptrFreeShared needs header.used = 0 on entry, i.e. a free of a   *)
(*    slot of a page without live slots; invariant FreeBranchLive shows it *)
(*    is unreachable, so it is not modelled (pages leave a class only      *)
(*    through defragmentation).                                            *)
(*  - PopMiddleDead: both lists are LIFO and pages leave the class list    *)
(*    wholesale, so the head of the class list is always the head of its   *)
(*    page's list (invariant HeadIsPageHead); the "middle or end of the    *)
(*    per-page list" branch of the pop is modelled but never taken.        *)
(*  - ExclusiveDefrag: defragClass takes no lock; the code documents that  *)
(*    it runs with no concurrent Malloc/Free.  Exclusive = FALSE drops the *)
(*    assumption (TLC then refutes the invariants).                        *)
(*  - cached pages are anonymous (all zero); a page gets its identity when *)
(*    it is linked.  Bytes counts shared pages only, in page units.        *)
(*  - stale node contents of slots that left the lists are forgotten.      *)
(***************************************************************************)
EXTENDS Integers, Sequences, FiniteSets, TLC

CONSTANTS
    Classes,     \* set of class numbers 1..n
    Cap,         \* [Classes -> slots per page]
    SlotData,    \* [Classes -> usable bytes of a slot], increasing
    Sizes,       \* request sizes used by the threads
    Threads,
    MaxOps,      \* operations per thread
    MaxPages,    \* page ids per class
    MaxPriv,     \* simultaneously live private mappings
    MaxDefrag,   \* defragClass runs
    CacheLow,    \* pageCacheLow
    CacheHigh,   \* pageCacheHigh
    TrigMin,     \* minFreePagesFrom + 1 (0: defragClass is called whatever the fragmentation)
    ToPages,     \* minFreePagesTo
    StableSort,  \* TRUE: equally used pages keep their page-list order in the selection (sort.Slice on < 13
                 \* elements is an insertion sort); FALSE: any order (what sort.Slice promises)
    Exclusive,   \* TRUE: defragmentation excludes Malloc/Free (the documented contract)
    Bug          \* "none" | deliberately broken variants, see BugKinds

VARIABLES
    cls,         \* [Classes -> class record]
    privs,       \* live private mappings: set of [id, len]
    allocs,      \* Allocator.Allocs
    privMmaps,   \* Allocator.PrivateMmaps
    sharedMmaps, \* Allocator.SharedMmaps
    bytes,       \* Allocator.Bytes / pageSize, shared pages only
    cache,       \* len(pageCache)
    pc,          \* [Threads -> what the thread is in the middle of]
    ops,         \* [Threads -> operations started]
    dfr,         \* [Classes -> state of a running defragClass]
    defrags      \* defragClass runs started

vars == <<cls, privs, allocs, privMmaps, sharedMmaps, bytes, cache, pc, ops, dfr, defrags>>

BugKinds == {"none", "keep_cur", "defrag_keep_global", "free_no_dec", "class_off", "pop_keeps_pagelist"}

Nil == <<0, 0>>
EmptyFn == [x \in {} |-> 0]
Range(f) == {f[x] : x \in DOMAIN f}
Restrict(f, S) == [x \in S |-> f[x]]
SeqWithout(s, x) == SelectSeq(s, LAMBDA e : e # x)
Min(S) == CHOOSE x \in S : \A y \in S : x <= y
\* TLC keeps S \cup T and S \ T as lazy trees; Enum flattens them (a trace grows them by one level per event)
Enum(S) == {y : y \in S}

\* default constants of the small models: class 1 = 2 slots of <= 2 bytes, class 2 = 3 slots of <= 4 bytes
CapSmall == [c \in Classes |-> c + 1]
SlotDataSmall == [c \in Classes |-> 2 * c]

ClassInit == [pages |-> <<>>, hdr |-> EmptyFn, node |-> EmptyFn, head |-> Nil, cur |-> 0,
              pageCount |-> 0, freeSlots |-> 0, nextPg |-> 0, live |-> {}]

DfrOff == [on |-> FALSE, sel |-> <<>>, snap |-> EmptyFn, i |-> 0, s |-> 0, cnt |-> 0, dB |-> 0, dM |-> 0,
           toMove |-> {}, moved |-> <<>>]

Idle == [k |-> "idle"]
Symm == Permutations(Threads)

\* getSizeClass: the first class whose slot holds the request; 0 = private mapping
Fits(c, size) == IF Bug = "class_off" THEN size <= SlotData[c] + 1 ELSE size <= SlotData[c]
ClassOf(size) == LET ok == {c \in Classes : Fits(c, size)} IN IF ok = {} THEN 0 ELSE Min(ok)

-----------------------------------------------------------------------------
(* the class-level code, as pure operators on a class record C (k = a.cap[class]) *)

\* linkSharedPage / newSharedPageLocal
Link(C, k) ==
    LET p == C.nextPg + 1 IN
    [C EXCEPT !.pages = Append(@, p),
              !.hdr = (p :> [brk |-> 0, used |-> 0, free |-> k, evac |-> FALSE, fl |-> Nil]) @@ @,
              !.pageCount = @ + 1, !.freeSlots = @ + k, !.cur = p, !.nextPg = p]

NeedPage(C) == C.head = Nil /\ C.cur = 0

\* uintptrMallocShared / classMalloc after the page test: [C |-> class after, r |-> slot handed out]
Take(C, k) ==
    IF C.cur # 0
    THEN LET p == C.cur
             h == C.hdr[p]
             h2 == [h EXCEPT !.used = @ + 1, !.brk = @ + 1, !.free = @ - 1]
         IN [C |-> [C EXCEPT !.hdr[p] = h2, !.freeSlots = @ - 1,
                             !.cur = IF h2.brk = k /\ Bug # "keep_cur" THEN 0 ELSE p],
             r |-> <<p, h.brk>>]
    ELSE LET n == C.head
             pg == n[1]
             nd == C.node[n]
             \* remove from global free list
             n1 == IF nd.next # Nil THEN [C.node EXCEPT ![nd.next].prev = Nil] ELSE C.node
             \* remove from per-page free list
             fl == IF nd.pip = Nil THEN nd.nip ELSE C.hdr[pg].fl
             n2 == IF nd.pip = Nil
                   THEN IF nd.nip # Nil THEN [n1 EXCEPT ![nd.nip].pip = Nil] ELSE n1
                   ELSE LET x == [n1 EXCEPT ![nd.pip].nip = nd.nip] IN
                        IF nd.nip # Nil THEN [x EXCEPT ![nd.nip].pip = nd.pip] ELSE x
             keepPg == Bug = "pop_keeps_pagelist"
         IN [C |-> [C EXCEPT !.head = nd.next,
                             !.node = IF keepPg THEN n1 ELSE Restrict(n2, DOMAIN n2 \ {n}),
                             !.hdr[pg] = [@ EXCEPT !.used = @ + 1, !.free = @ - 1, !.fl = IF keepPg THEN @ ELSE fl],
                             !.freeSlots = @ - 1],
             r |-> n]

\* uintptrFreeShared (used >= 1) / classFree
Push(C, a) ==
    LET pg == a[1]
        h == C.hdr[pg]
        h1 == IF Bug = "free_no_dec" THEN [h EXCEPT !.free = @ + 1] ELSE [h EXCEPT !.used = @ - 1, !.free = @ + 1]
    IN IF h.evac
       THEN [C EXCEPT !.hdr[pg] = h1, !.freeSlots = @ + 1]
       ELSE LET nd == [prev |-> Nil, next |-> C.head, pip |-> Nil, nip |-> h.fl]
                n1 == IF C.head # Nil THEN [C.node EXCEPT ![C.head].prev = a] ELSE C.node
                n2 == IF h.fl # Nil THEN [n1 EXCEPT ![h.fl].pip = a] ELSE n1
            IN [C EXCEPT !.hdr[pg] = [h1 EXCEPT !.fl = a], !.freeSlots = @ + 1,
                         !.head = a, !.node = (a :> nd) @@ n2]

\* follow one pointer field from n; <<Nil>> is appended when the walk leaves the nodes or does not end.
\* (A recursive function, not a recursive operator: TLC extends the caller's context at every operator
\* application, which makes a walk of n nodes cost n^2 look-ups; a function is applied in its own context.)
Walk(node, n, fld, fuel) ==
    LET dom == DOMAIN node
        W[k \in 0..fuel, a \in dom \cup {Nil}] ==
            IF a = Nil THEN <<>>
            ELSE IF k = 0 THEN <<Nil>>
            ELSE LET nx == node[a][fld] IN
                 IF nx # Nil /\ nx \notin dom THEN <<a, Nil>> ELSE <<a>> \o W[k - 1, nx]
    IN IF n # Nil /\ n \notin dom THEN <<Nil>> ELSE W[fuel, n]

Fuel(C) == Cardinality(DOMAIN C.node) + 1
GlobalWalk(C) == Walk(C.node, C.head, "next", Fuel(C))
PageWalk(C, p) == Walk(C.node, C.hdr[p].fl, "nip", Fuel(C))

\* defragClass: unlink the free slots of one page from the class list, walking its per-page list
RECURSIVE GUnlink(_, _, _)
GUnlink(st, n, fuel) ==
    IF n = Nil \/ fuel = 0 \/ n \notin DOMAIN st.node THEN st
    ELSE LET nd == st.node[n]
             st1 == IF nd.prev = Nil
                    THEN [head |-> nd.next,
                          node |-> IF nd.next # Nil THEN [st.node EXCEPT ![nd.next].prev = Nil] ELSE st.node]
                    ELSE [head |-> st.head,
                          node |-> LET x == [st.node EXCEPT ![nd.prev].next = nd.next] IN
                                   IF nd.next # Nil THEN [x EXCEPT ![nd.next].prev = nd.prev] ELSE x]
         IN GUnlink(st1, nd.nip, fuel - 1)

\* the marking loop of defragClass over the selected pages
RECURSIVE EvacMark(_, _, _)
EvacMark(C, sel, i) ==
    IF i > Len(sel) THEN C
    ELSE LET pg == sel[i]
             h == C.hdr[pg]
             st == IF Bug = "defrag_keep_global" THEN [head |-> C.head, node |-> C.node]
                   ELSE GUnlink([head |-> C.head, node |-> C.node], h.fl, Fuel(C))
             nodes == IF Bug = "defrag_keep_global" THEN st.node
                      ELSE Restrict(st.node, {a \in DOMAIN st.node : a[1] # pg})
         IN EvacMark([C EXCEPT !.hdr[pg] = [h EXCEPT !.evac = TRUE, !.fl = Nil],
                               !.cur = IF C.cur = pg THEN 0 ELSE C.cur,
                               !.head = st.head, !.node = nodes], sel, i + 1)

\* page selection of defragClass
NonFull(C, k) == {p \in Range(C.pages) : C.hdr[p].used < k}
PotFree(C, k) == C.freeSlots \div k
Target(C, k) == k * (PotFree(C, k) - ToPages)
RECURSIVE CumFree(_, _, _, _)
CumFree(C, k, sel, i) == IF i = 0 THEN 0 ELSE CumFree(C, k, sel, i - 1) + (k - C.hdr[sel[i]].used)
RECURSIVE CumUsed(_, _, _)
CumUsed(C, sel, i) == IF i = 0 THEN 0 ELSE CumUsed(C, sel, i - 1) + C.hdr[sel[i]].used

PosOf(C, p) == CHOOSE i \in 1..Len(C.pages) : C.pages[i] = p

\* sort.Slice by `used` is not stable: every order of equally used pages is a legal outcome;
\* the prefix ends at the first page where enough slots are freed
LegalSelection(C, k, sel) ==
    LET nf == NonFull(C, k)
        n == Len(sel)
    IN /\ n >= 1
       /\ \A i \in 1..n : sel[i] \in nf
       /\ \A i, j \in 1..n : i # j => sel[i] # sel[j]
       /\ \A i \in 1..(n - 1) : C.hdr[sel[i]].used <= C.hdr[sel[i + 1]].used
       /\ \A p \in nf \ Range(sel) : C.hdr[p].used >= C.hdr[sel[n]].used
       /\ StableSort =>
             /\ \A i \in 1..(n - 1) : C.hdr[sel[i]].used = C.hdr[sel[i + 1]].used => PosOf(C, sel[i]) < PosOf(C, sel[i + 1])
             /\ \A p \in nf \ Range(sel) : C.hdr[p].used = C.hdr[sel[n]].used => PosOf(C, sel[n]) < PosOf(C, p)
       /\ \A i \in 1..(n - 1) : CumFree(C, k, sel, i) < Target(C, k)
       /\ ~(CumFree(C, k, sel, n) < Target(C, k) /\ Range(sel) # nf)    \* (no \/ here: TLC would split the action)

Selections(C, k) ==
    LET nf == NonFull(C, k) IN
    {sel \in UNION {[1..n -> nf] : n \in 1..Cardinality(nf)} : LegalSelection(C, k, sel)}

-----------------------------------------------------------------------------
AllLive == UNION {cls[c].live : c \in Classes}
UsedIds == {x.id : x \in AllLive} \cup {x.id : x \in privs}
FreshId == Min({i \in 1..(Cardinality(UsedIds) + 1) : i \notin UsedIds})

AnyDefrag == \E c \in Classes : dfr[c].on
Quiet == \A t \in Threads : pc[t].k = "idle"
ThreadsMayRun == Exclusive => ~AnyDefrag

TypeOK ==
    /\ allocs \in Int /\ privMmaps \in Int /\ sharedMmaps \in Int /\ bytes \in Int
    /\ cache \in 0..CacheHigh
    /\ \A t \in Threads : pc[t].k \in {"idle", "malloc", "free", "pmalloc", "pfree"}
    /\ \A c \in Classes : cls[c].cur \in 0..MaxPages /\ cls[c].nextPg \in 0..MaxPages

Init ==
    /\ cls = [c \in Classes |-> ClassInit]
    /\ privs = {}
    /\ allocs = 0 /\ privMmaps = 0 /\ sharedMmaps = 0 /\ bytes = 0
    /\ cache = 0
    /\ pc = [t \in Threads |-> Idle]
    /\ ops = [t \in Threads |-> 0]
    /\ dfr = [c \in Classes |-> DfrOff]
    /\ defrags = 0

-----------------------------------------------------------------------------
(* the critical sections, without the thread bookkeeping (reused by AllocGen and TraceAlloc) *)

\* Malloc between classMu.Lock and Unlock
MallocSection(c, len, id) ==
    LET C0 == cls[c]
        need == NeedPage(C0)
        C1 == IF need THEN Link(C0, Cap[c]) ELSE C0
        tk == Take(C1, Cap[c])
    IN /\ need => C0.nextPg < MaxPages
       /\ cls' = [cls EXCEPT ![c] = [tk.C EXCEPT !.live = Enum(@ \cup {[a |-> tk.r, id |-> id, len |-> len]})]]
       /\ IF need
          THEN /\ sharedMmaps' = sharedMmaps + 1           \* mmapSharedPage: cache first, else mmap
               /\ IF cache > 0 THEN cache' = cache - 1 /\ bytes' = bytes
                               ELSE cache' = cache /\ bytes' = bytes + 1
          ELSE UNCHANGED <<sharedMmaps, cache, bytes>>
       /\ UNCHANGED <<privs, privMmaps, dfr, defrags>>

\* Free between classMu.Lock and Unlock
FreeSection(c, x) ==
    /\ x \in cls[c].live
    /\ cls[c].hdr[x.a[1]].used >= 1          \* FreeReleaseDead
    /\ cls' = [cls EXCEPT ![c] = [Push(@, x.a) EXCEPT !.live = Enum(@ \ {x})]]
    /\ UNCHANGED <<privs, privMmaps, sharedMmaps, bytes, cache, dfr, defrags>>

PMallocSection(len, id) ==
    /\ Cardinality(privs) < MaxPriv
    /\ privs' = Enum(privs \cup {[id |-> id, len |-> len]})
    /\ privMmaps' = privMmaps + 1
    /\ UNCHANGED <<cls, sharedMmaps, bytes, cache, dfr, defrags>>

PFreeSection(x) ==
    /\ x \in privs
    /\ privs' = Enum(privs \ {x})
    /\ privMmaps' = privMmaps - 1
    /\ UNCHANGED <<cls, sharedMmaps, bytes, cache, dfr, defrags>>

-----------------------------------------------------------------------------
(* threads *)

Begin(t, st, d) ==
    /\ ThreadsMayRun
    /\ pc[t].k = "idle" /\ ops[t] < MaxOps
    /\ pc' = [pc EXCEPT ![t] = st]
    /\ ops' = [ops EXCEPT ![t] = @ + 1]
    /\ allocs' = allocs + d
    /\ UNCHANGED <<cls, privs, privMmaps, sharedMmaps, bytes, cache, dfr, defrags>>

MallocBegin(t, size) ==
    IF ClassOf(size) # 0 THEN Begin(t, [k |-> "malloc", c |-> ClassOf(size), len |-> size], 1)
                         ELSE Begin(t, [k |-> "pmalloc", len |-> size], 1)

BeingFreed == {pc[u].x : u \in {v \in Threads : pc[v].k \in {"free", "pfree"}}}

FreeBegin(t, c, x) ==
    /\ x \in cls[c].live /\ x \notin BeingFreed
    /\ Begin(t, [k |-> "free", c |-> c, x |-> x], -1)

PFreeBegin(t, x) ==
    /\ x \in privs /\ x \notin BeingFreed
    /\ Begin(t, [k |-> "pfree", x |-> x], -1)

Finish(t) == pc' = [pc EXCEPT ![t] = Idle] /\ UNCHANGED <<ops, allocs>>

MallocLocked(t) == ThreadsMayRun /\ pc[t].k = "malloc" /\ MallocSection(pc[t].c, pc[t].len, FreshId) /\ Finish(t)
FreeLocked(t) == ThreadsMayRun /\ pc[t].k = "free" /\ FreeSection(pc[t].c, pc[t].x) /\ Finish(t)
PMallocMap(t) == ThreadsMayRun /\ pc[t].k = "pmalloc" /\ PMallocSection(pc[t].len, FreshId) /\ Finish(t)
PFreeUnmap(t) == ThreadsMayRun /\ pc[t].k = "pfree" /\ PFreeSection(pc[t].x) /\ Finish(t)

\* pageCacheRefill (background goroutine)
Refill ==
    /\ cache < CacheLow
    /\ cache' = cache + 1 /\ bytes' = bytes + 1
    /\ UNCHANGED <<cls, privs, allocs, privMmaps, sharedMmaps, pc, ops, dfr, defrags>>

-----------------------------------------------------------------------------
(* defragClass *)

DefragSelect(c, sel) ==
    LET C == cls[c]
        k == Cap[c]
    IN /\ ~dfr[c].on
       /\ PotFree(C, k) >= TrigMin
       /\ LegalSelection(C, k, sel)
       /\ CumUsed(C, sel, Len(sel)) > 0                  \* "No records to move": nothing happens
       /\ cls' = [cls EXCEPT ![c] = EvacMark(C, sel, 1)]
       /\ dfr' = [dfr EXCEPT ![c] =
                    [on |-> TRUE, sel |-> sel,
                     snap |-> [p \in Range(sel) |-> {a[2] : a \in Range(PageWalk(C, p))}],
                     i |-> 1, s |-> 0, cnt |-> 0, dB |-> 0, dM |-> 0,
                     toMove |-> {x.id : x \in {y \in C.live : y.a[1] \in Range(sel)}},
                     moved |-> <<>>]]

DefragStart(c, sel) ==
    /\ defrags < MaxDefrag
    /\ Exclusive => Quiet
    /\ DefragSelect(c, sel)
    /\ defrags' = defrags + 1
    /\ UNCHANGED <<privs, allocs, privMmaps, sharedMmaps, bytes, cache, pc, ops>>

\* slots of the page under evacuation that the code treats as used: below brk and not in the snapshot
UsedLeft(c) ==
    LET d == dfr[c]
        pg == d.sel[d.i]
    IN {s \in d.s..(cls[c].hdr[pg].brk - 1) : s \notin d.snap[pg]}

Garbage(a) == [a |-> a, id |-> 0, len |-> 0]

\* one iteration of the evacuation loop that finds a used slot
RelocateStep(c) ==
    LET d == dfr[c]
        pg == d.sel[d.i]
        s == Min(UsedLeft(c))
        old == <<pg, s>>
        C0 == cls[c]
        need == NeedPage(C0)
        C1 == IF need THEN Link(C0, Cap[c]) ELSE C0
        tk == Take(C1, Cap[c])
        olds == {x \in C0.live : x.a = old}
        rec == IF olds = {} THEN Garbage(old) ELSE CHOOSE x \in olds : TRUE
        C2 == [tk.C EXCEPT !.live = Enum((@ \ olds) \cup {[rec EXCEPT !.a = tk.r]})]    \* copy + relocate(os, ns)
        C3 == Push(C2, old)                                                        \* classFree
    IN /\ d.on /\ d.i <= Len(d.sel) /\ UsedLeft(c) # {}
       /\ need => C0.nextPg < MaxPages
       /\ cls' = [cls EXCEPT ![c] = C3]
       /\ dfr' = [dfr EXCEPT ![c] = [d EXCEPT !.s = s + 1, !.cnt = @ + 1, !.moved = Append(@, rec.id),
                                              !.dB = IF need THEN @ + 1 ELSE @, !.dM = IF need THEN @ + 1 ELSE @]]

\* the slot that RelocateStep(c) moves and the slot it moves it to (for trace validation)
RelocOld(c) == <<dfr[c].sel[dfr[c].i], Min(UsedLeft(c))>>
RelocNew(c) == LET C0 == cls[c] IN Take(IF NeedPage(C0) THEN Link(C0, Cap[c]) ELSE C0, Cap[c]).r

DefragRelocate(c) ==
    /\ RelocateStep(c)
    /\ UNCHANGED <<privs, allocs, privMmaps, sharedMmaps, bytes, cache, pc, ops, defrags>>

\* end of one page: leaves the page list, counters, unmap
UnlinkStep(c) ==
    LET d == dfr[c]
        pg == d.sel[d.i]
        C == cls[c]
    IN /\ d.on /\ d.i <= Len(d.sel) /\ UsedLeft(c) = {}
       /\ cls' = [cls EXCEPT ![c] = [C EXCEPT !.pages = SeqWithout(@, pg),
                                               !.hdr = Restrict(@, DOMAIN @ \ {pg}),
                                               !.pageCount = @ - 1,
                                               !.freeSlots = @ - C.hdr[pg].free,
                                               !.cur = IF @ = pg THEN 0 ELSE @]]
       /\ dfr' = [dfr EXCEPT ![c] = [d EXCEPT !.i = @ + 1, !.s = 0, !.dB = @ - 1, !.dM = @ - 1]]

DefragUnlink(c) ==
    /\ UnlinkStep(c)
    /\ UNCHANGED <<privs, allocs, privMmaps, sharedMmaps, bytes, cache, pc, ops, defrags>>

DefragEnd(c) ==
    /\ dfr[c].on /\ dfr[c].i > Len(dfr[c].sel)
    /\ bytes' = bytes + dfr[c].dB
    /\ sharedMmaps' = sharedMmaps + dfr[c].dM
    /\ dfr' = [dfr EXCEPT ![c] = DfrOff]
    /\ UNCHANGED <<cls, privs, allocs, privMmaps, cache, pc, ops, defrags>>

Next ==
    \/ \E t \in Threads, size \in Sizes : MallocBegin(t, size)
    \/ \E t \in Threads, c \in Classes : \E x \in cls[c].live : FreeBegin(t, c, x)
    \/ \E t \in Threads : \E x \in privs : PFreeBegin(t, x)
    \/ \E t \in Threads : MallocLocked(t) \/ FreeLocked(t) \/ PMallocMap(t) \/ PFreeUnmap(t)
    \/ Refill
    \/ \E c \in Classes : \E sel \in Selections(cls[c], Cap[c]) : DefragStart(c, sel)
    \/ \E c \in Classes : DefragRelocate(c) \/ DefragUnlink(c) \/ DefragEnd(c)

Spec == Init /\ [][Next]_vars

-----------------------------------------------------------------------------
(* Properties (C20) *)

Listed(C) == DOMAIN C.node
NoDup(s) == Cardinality({s[i] : i \in 1..Len(s)}) = Len(s)

\* number of nodes met when following one pointer field from n; more than the nodes there are when the
\* walk leaves the nodes (dom) or does not end (linear: the invariants are evaluated on long recorded runs,
\* so DOMAIN is taken once by the caller)
\* (A recursive function, not a recursive operator: TLC extends the caller's context at every operator
\* application, which makes a walk of n nodes cost n^2 look-ups; a function is applied in its own context.)
WalkLen(node, dom, n, fld, fuel) ==
    LET W[k \in 0..fuel, a \in dom \cup {Nil}] ==
            IF a = Nil THEN 0
            ELSE IF k = 0 THEN Cardinality(dom) + 1
            ELSE LET nx == node[a][fld] IN
                 IF nx # Nil /\ nx \notin dom THEN Cardinality(dom) + 1 ELSE 1 + W[k - 1, nx]
    IN IF n # Nil /\ n \notin dom THEN Cardinality(dom) + 1 ELSE W[fuel, n]

\* a slot is never both live and free, never twice on a list, two live allocations never share a slot,
\* live allocations carry distinct fill ids.  (A walk that ends after exactly as many steps as there are nodes,
\* all of them nodes, met every node once.)
NoOverlapC(C) ==
    LET L == DOMAIN C.node
        n == Cardinality(L)
    IN /\ \A x \in C.live : x.a \notin L
       /\ Cardinality({x.a : x \in C.live}) = Cardinality(C.live)      \* no two live allocations in one slot
       /\ Cardinality({x.id : x \in C.live}) = Cardinality(C.live)     \* distinct fill ids
       /\ \A x \in C.live : x.id # 0
       /\ WalkLen(C.node, L, C.head, "next", n + 1) = n
       /\ \A p \in Range(C.pages) : WalkLen(C.node, L, C.hdr[p].fl, "nip", n + 1) = Cardinality({a \in L : a[1] = p})
NoOverlap == \A c \in Classes : NoOverlapC(cls[c])

\* class list and per-page lists are consistent doubly linked views of the same free set: every node is
\* mirrored by its neighbours, the heads have no predecessor, both walks meet exactly the nodes (of the page)
ListsWellFormedC(C) ==
    LET L == DOMAIN C.node
        n == Cardinality(L)
        P == Range(C.pages)
    IN /\ C.head # Nil => C.head \in L /\ C.node[C.head].prev = Nil
       /\ \A a \in L :
             LET nd == C.node[a] IN
             /\ nd.next # Nil => nd.next \in L /\ C.node[nd.next].prev = a
             /\ nd.prev # Nil => nd.prev \in L /\ C.node[nd.prev].next = a
             /\ nd.prev = Nil => C.head = a
             /\ nd.nip # Nil => nd.nip \in L /\ C.node[nd.nip].pip = a /\ nd.nip[1] = a[1]
             /\ nd.pip # Nil => nd.pip \in L /\ C.node[nd.pip].nip = a /\ nd.pip[1] = a[1]
             /\ a[1] \in P
             /\ nd.pip = Nil => C.hdr[a[1]].fl = a
             /\ a[2] < C.hdr[a[1]].brk
       /\ WalkLen(C.node, L, C.head, "next", n + 1) = n
       /\ \A p \in P :
             /\ C.hdr[p].fl # Nil => C.hdr[p].fl \in L /\ C.hdr[p].fl[1] = p /\ C.node[C.hdr[p].fl].pip = Nil
             /\ WalkLen(C.node, L, C.hdr[p].fl, "nip", n + 1) = Cardinality({a \in L : a[1] = p})
             /\ C.hdr[p].evac => C.hdr[p].fl = Nil
       /\ NoDup(C.pages) /\ DOMAIN C.hdr = P
ListsWellFormed == \A c \in Classes : ListsWellFormedC(cls[c])

RECURSIVE SumFree(_, _)
SumFree(C, S) == IF S = {} THEN 0 ELSE LET p == CHOOSE q \in S : TRUE IN C.hdr[p].free + SumFree(C, S \ {p})

\* per page used/free and per class pageCount/freeSlots say what is really there
CountersExactC(C, k) ==
    /\ C.pageCount = Len(C.pages)
    /\ C.freeSlots = SumFree(C, Range(C.pages))
    /\ \A p \in Range(C.pages) :
          /\ C.hdr[p].used = Cardinality({x \in C.live : x.a[1] = p})
          /\ C.hdr[p].free = k - C.hdr[p].used
          /\ ~C.hdr[p].evac => Cardinality({a \in DOMAIN C.node : a[1] = p}) = C.hdr[p].brk - C.hdr[p].used
CountersExactClasses == \A c \in Classes : CountersExactC(cls[c], Cap[c])

InFlight(kinds) == Cardinality({t \in Threads : pc[t].k \in kinds})
\* Allocs is the number of live allocations (threads between the counter and their section are accounted for)
AllocsExact ==
    /\ allocs = Cardinality(AllLive) + Cardinality(privs) + InFlight({"malloc", "pmalloc"}) - InFlight({"free", "pfree"})
    /\ privMmaps = Cardinality(privs)
RECURSIVE SumPages(_)
SumPages(S) == IF S = {} THEN 0 ELSE LET c == CHOOSE q \in S : TRUE IN
               Len(cls[c].pages) - dfr[c].dM + SumPages(S \ {c})
MmapsExact ==
    /\ sharedMmaps = SumPages(Classes)
    /\ bytes = sharedMmaps + cache
CountersExact == CountersExactClasses /\ AllocsExact /\ MmapsExact

\* every live slice lies in a linked page, below the capacity, and is long enough; the bump page is unique
CapacityOKC(C, c) ==
    LET P == Range(C.pages) IN
    /\ {x.a[1] : x \in C.live} \subseteq P
    /\ \A x \in C.live : x.a[2] >= 0 /\ x.a[2] < Cap[c] /\ x.len <= SlotData[c]
    /\ \A p \in P : C.hdr[p].brk <= Cap[c] /\ C.hdr[p].used <= C.hdr[p].brk
    /\ C.cur # 0 => C.cur \in P /\ C.hdr[C.cur].brk < Cap[c] /\ ~C.hdr[C.cur].evac
    /\ \A p \in P : (p # C.cur /\ ~C.hdr[p].evac) => C.hdr[p].brk = Cap[c]
CapacityOK == (\A c \in Classes : CapacityOKC(cls[c], c)) /\ (\A x \in privs : \A c \in Classes : x.len > SlotData[c])

\* FreeReleaseDead: a free never finds used = 0
FreeBranchLiveC(C) == \A p \in {x.a[1] : x \in C.live} \cap DOMAIN C.hdr : C.hdr[p].used >= 1
FreeBranchLive == \A c \in Classes : FreeBranchLiveC(cls[c])

\* PopMiddleDead: the slot popped by Malloc is the first of its page's list
HeadIsPageHead == \A c \in Classes : cls[c].head # Nil /\ cls[c].head \in DOMAIN cls[c].node => cls[c].node[cls[c].head].pip = Nil

\* the callback runs at most once per allocation, only for allocations of the evacuated pages, never for garbage ...
RelocateOnceC(d) ==
    /\ NoDup(d.moved)
    /\ Range(d.moved) \subseteq d.toMove
    /\ 0 \notin Range(d.moved)
RelocateAtMostOnce == \A c \in Classes : RelocateOnceC(dfr[c])
\* ... and when defragClass returns every allocation of the evacuated pages has been moved
RelocateAllStep == \A c \in Classes : (dfr[c].on /\ ~dfr'[c].on) => Range(dfr[c].moved) = dfr[c].toMove
RelocateExactlyOnce == [][RelocateAllStep]_vars

\* contents: an allocation (id, len) appears by Malloc, disappears by Free, and is otherwise only moved
Ids(C) == {[id |-> x.id, len |-> x.len] : x \in C.live}
ContentsStep ==
    \A c \in Classes :
        LET old == cls[c].live
            new == cls'[c].live
        IN \/ new = old
           \/ Ids(cls'[c]) = Ids(cls[c])                                          \* moved
           \/ old \subseteq new /\ Cardinality(new \ old) = 1                      \* Malloc
                 /\ (CHOOSE x \in new \ old : TRUE).a \notin {y.a : y \in old}
           \/ new \subseteq old /\ Cardinality(old \ new) = 1                      \* Free
ContentsKept == [][ContentsStep]_vars
=============================================================================
