------------------------------ MODULE UtxoRec ------------------------------
(***************************************************************************)
(* C10 - UTXO records and snapshot files are lossless.                     *)
(*                                                                         *)
(* Part 1 (records): the grammar of one unspent-output record in the plain *)
(* format (lib/utxo/unspent_recu.go) and in the compressed format          *)
(* (unspent_recc.go, script.CompressScript / DecompressScript,             *)
(* btc.CompressAmount / DecompressAmount) as a stream of CELLS:            *)
(*   key(32) cs(height) cs(2n+coinbase) { cs(index) cs(value) script }*    *)
(*   plain script      : cs(len) raw(len)                                  *)
(*   compressed script : sp(code 0..5, 21|33 bytes)  or  cs(len+6) raw(len)*)
(* A cs cell is a CompactSize (width 1/3/5/9 by the 253 / 2^16 / 2^32      *)
(* boundaries); numbers are decimal digit sequences, so the amount         *)
(* compressor is stated exactly and without the 32-bit limit of TLC (the   *)
(* model never wraps; the code does, and that difference is a finding).    *)
(* The encoders, the full decoders (NewUtxoRecOwnU/C) and the single-      *)
(* output walkers (OneUtxoRecU/C) are separate operators that follow the   *)
(* code's control flow; the property is stated over them:                  *)
(*   StoreLoadIdentity, OneOutAgrees, OneOutIdentity, AllSpentNotStored,   *)
(*   AmtRoundTrip, MoneyFits.                                              *)
(* Scripts are CLASSES (ScrTab): the templates, valid and non-canonical    *)
(* P2PK keys, look-alikes one byte off each template, length classes.  The *)
(* harness owns the table class -> bytes.  This is the rule module style   *)
(* of DESIGN 2.6: it says what losslessness REQUIRES (a key that is not    *)
(* canonical must not be compressed, because decompression recomputes it); *)
(* where the code deviates the replay on the real code fails.              *)
(*                                                                         *)
(* Part 2 (snapshot): a small machine over UnspentDB: Open (= a new        *)
(* process: the codec is a process-global set of function variables),      *)
(* Commit, Spend, Close (save: header [height | compressed bit, hash,       *)
(* count] + records as they are in memory).  SnapReadIdentity and          *)
(* HeaderNamesCodec are the property.                                      *)
(*                                                                         *)
(* Bug # "none" breaks one rule on purpose; TLC must refute an invariant   *)
(* (the invariants are not vacuous).  Two of the variants ("noncanon",     *)
(* "fresh_bit_only") are what the code at the pinned commit really does.   *)
(***************************************************************************)
EXTENDS Integers, Sequences, FiniteSets, TLC

CONSTANTS
    Parts,      \* case families enumerated: subset of {"single","shape","index","height","dense","bulk","bulkq","snap","pool"}
    MaxOuts,    \* "shape": records of 1..MaxOuts outputs, every survivor subset (incl. the empty one)
    ScrSel,     \* "shape": the first ScrSel classes of ShapeNames are combined
    AmtStride,  \* "single": every AmtStride-th amount class per script class (1 = the full product)
    Big,        \* TRUE: also the 64 KiB script classes and the 13107.. / 30001-output dense records (thorough tier)
    Salt,       \* varies the pseudo-random picks (VERIF_SEED)
    Lane, NLanes, \* this run enumerates the slice Lane (0..NLanes-1) of every record family (parallel TLC runs)
    MaxOpens,   \* snapshot machine: number of processes
    MaxSpends,  \* snapshot machine: number of Spend steps
    Bug         \* "none" | "escape5" | "swap23" | "cb_lost" | "one_next" | "idx_w" | "amt_e9" | "noncanon" | "fresh_bit_only" | "pack_short" | "pool_unlocked"

VARIABLES
    phase,      \* "start" | "rec" (a record case, terminal) | "snap"
    c,          \* the case descriptor (what was enumerated), for the export and for signatures
    rec,        \* the abstract record of a record case
    \* snapshot machine
    codec,      \* "U" | "C": utxo.Serialize / NewUtxoRecOwn / OneUtxoRec of the running process
    db,         \* NoDb or [bit, mem]: the open UnspentDB (ComprssedUTXO, HashMap)
    file,       \* NoFile or [bit, height, recs]: UTXO.db
    truth,      \* what was committed and not spent: id -> abstract record or NoRec
    used,       \* ids committed so far
    blk,        \* number of blocks committed (LastBlockHeight)
    dirty, opens, spends,
    pl          \* two concurrent SerializeC calls over the shared scratch pool (comp_val / comp_scr)

vars == <<phase, c, rec, codec, db, file, truth, used, blk, dirty, opens, spends, pl>>

-----------------------------------------------------------------------------
(* Numbers: decimal digits, least significant first, no leading zeros, <<>> = 0 *)

Max(S) == CHOOSE x \in S : \A y \in S : y <= x
Min(S) == CHOOSE x \in S : \A y \in S : x <= y
Rev(s) == [i \in 1..Len(s) |-> s[Len(s) + 1 - i]]
Zeros(k) == [i \in 1..k |-> 0]
Drop(a, k) == SubSeq(a, k + 1, Len(a))

RECURSIVE Strip(_)
Strip(a) == IF a # <<>> /\ a[Len(a)] = 0 THEN Strip(SubSeq(a, 1, Len(a) - 1)) ELSE a

RECURSIVE FromInt(_)
FromInt(k) == IF k = 0 THEN <<>> ELSE <<k % 10>> \o FromInt(k \div 10)

RECURSIVE ToInt(_)      \* only used on values known to be below 2^31 (indices, counts, lengths)
ToInt(a) == IF a = <<>> THEN 0 ELSE a[1] + 10 * ToInt(Tail(a))

RECURSIVE MulAdd(_, _, _)   \* a*k + cy   (k in 1..10, cy small)
MulAdd(a, k, cy) == IF a = <<>> THEN FromInt(cy)
                    ELSE LET t == a[1] * k + cy IN <<t % 10>> \o MulAdd(Tail(a), k, t \div 10)

RECURSIVE DivMod(_, _)      \* [q, r] of a by a small k
DivMod(a, k) == IF a = <<>> THEN [q |-> <<>>, r |-> 0]
                ELSE LET hi == DivMod(Tail(a), k)
                         t  == hi.r * 10 + a[1]
                     IN [q |-> Strip(<<t \div k>> \o hi.q), r |-> t % k]

Less(a, b) == IF Len(a) # Len(b) THEN Len(a) < Len(b)
              ELSE LET d == {i \in 1..Len(a) : a[i] # b[i]} IN d # {} /\ a[Max(d)] < b[Max(d)]

N253   == FromInt(253)
N65536 == FromInt(65536)
N2p32  == Rev(<<4,2,9,4,9,6,7,2,9,6>>)
N2p64  == Rev(<<1,8,4,4,6,7,4,4,0,7,3,7,0,9,5,5,1,6,1,6>>)
MaxMoney == Rev(<<2,1,0,0,0,0,0,0,0,0,0,0,0,0,0,0>>)       \* 21e14

Fits64(a) == Less(a, N2p64)

(* btc.PutULe / VLenSize / VULe / VLen *)
CSW(a) == IF Less(a, N253) THEN 1 ELSE IF Less(a, N65536) THEN 3 ELSE IF Less(a, N2p32) THEN 5 ELSE 9

-----------------------------------------------------------------------------
(* btc.CompressAmount / DecompressAmount (lib/btc/funcs.go), exact *)

RECURSIVE TZ(_)
TZ(a) == IF a # <<>> /\ a[1] = 0 THEN 1 + TZ(Tail(a)) ELSE 0

CompressAmt(a) ==
    IF a = <<>> THEN <<>>
    ELSE LET e == IF TZ(a) < 9 THEN TZ(a) ELSE 9
             n == Drop(a, e)
         IN IF e < 9 THEN <<e + 1>> \o MulAdd(Tail(n), 9, n[1] - 1)   \* 1 + (9*(n div 10) + (n mod 10) - 1)*10 + e
            ELSE <<0>> \o n                                            \* 1 + (n - 1)*10 + 9  =  10 n

DecompressAmt(x) ==
    IF x = <<>> THEN <<>>
    ELSE IF x[1] = 0 THEN Zeros(IF Bug = "amt_e9" THEN 8 ELSE 9) \o Tail(x)                        \* e = 9: n = (x-1) div 10 + 1 = x div 10
    ELSE LET dm == DivMod(Tail(x), 9)                                  \* (x-1) div 10 = x div 10 here
         IN Zeros(x[1] - 1) \o <<dm.r + 1>> \o dm.q

-----------------------------------------------------------------------------
(* Amount classes: [k, x, y] *)

A(k, x, y) == [k |-> k, x |-> x, y |-> y]

Lits == <<
    <<5,4,6>>,                                          \* dust
    <<5,0,0,0,0,0,0,0,0,0>>,                            \* 50 BTC
    <<6,2,5,0,0,0,0,0,0>>,                              \* 6.25 BTC
    <<2,1,4,7,4,8,3,6,4,7>>, <<2,1,4,7,4,8,3,6,4,8>>, <<2,1,4,7,4,8,3,6,4,9>>,      \* 2^31 -1, +0, +1
    <<4,2,9,4,9,6,7,2,9,5>>, <<4,2,9,4,9,6,7,2,9,6>>, <<4,2,9,4,9,6,7,2,9,7>>,      \* 2^32 -1, +0, +1
    <<2,0,9,9,9,9,9,9,9,9,9,9,9,9,9,9>>,                \* 21e14 - 1
    <<2,1,0,0,0,0,0,0,0,0,0,0,0,0,0,0>>,                \* 21e14
    <<2,1,0,0,0,0,0,0,0,0,0,0,0,0,0,1>>,                \* 21e14 + 1
    <<2,0,9,9,9,9,9,9,9,7,6,9,0,0,0,0>>,                \* the real total supply limit 20999999.9769 BTC
    <<1,2,3,4,5,6,7,8,9,0,1,2,3,4,5>>,
    <<2,0,4,9,6,3,8,2,3,0,4,1,2,1,7,2,4,0,1>>,          \* below 2^64/9: the largest amounts ending in 1 / 2 the compressor can hold
    <<2,0,4,9,6,3,8,2,3,0,4,1,2,1,7,2,4,0,2>>,
    <<9,2,2,3,3,7,2,0,3,6,8,5,4,7,7,5,8,0,7>>,          \* 2^63 - 1
    <<9,2,2,3,3,7,2,0,3,6,8,5,4,7,7,5,8,0,8>>,          \* 2^63
    <<9,2,2,3,3,7,2,0,3,6,8,5,4,7,7,5,8,0,9>>,          \* 2^63 + 1
    <<1,8,4,4,6,7,4,4,0,7,3,7,0,9,5,5,1,6,1,5>> >>      \* 2^64 - 1

AmtTab ==
       <<A("zero", 0, 0)>>
    \o [x \in 1..20 |-> A("pow10", x - 1, 1)]                                   \* 10^0 .. 10^19
    \o [x \in 1..19 |-> A("dpow10", x - 1, 2)]                                  \* 2*10^x
    \o [x \in 1..19 |-> A("dpow10", x - 1, 5)]
    \o [x \in 1..19 |-> A("dpow10", x - 1, 9)]
    \o [x \in 1..19 |-> A("nines", x, 0)]                                       \* 10^x - 1
    \o [x \in 1..15 |-> A("tz", x - 1, 0)]                                      \* 123 * 10^x : 0..14 trailing zeros
    \o [x \in 1..9  |-> A("last", x, 0)]                                        \* 4x
    \o [x \in 1..9  |-> A("last", x, 3)]                                        \* 7x000
    \o [x \in 1..9  |-> A("last", x, 9)]                                        \* 7x * 10^9: the e = 9 branch with every last digit
    \o [x \in 1..Len(Lits) |-> A("lit", x, 0)]

AmtVal(a) ==
    CASE a.k = "zero"   -> <<>>
      [] a.k = "pow10"  -> Zeros(a.x) \o <<1>>
      [] a.k = "dpow10" -> Zeros(a.x) \o <<a.y>>
      [] a.k = "nines"  -> [i \in 1..a.x |-> 9]
      [] a.k = "tz"     -> Zeros(a.x) \o <<3, 2, 1>>
      [] a.k = "last"   -> Zeros(a.y) \o <<a.x, IF a.y = 0 THEN 4 ELSE 7>>
      [] a.k = "lit"    -> Rev(Lits[a.x])

AmtAll == 1..Len(AmtTab)

ASSUME \A i \in AmtAll : Fits64(AmtVal(AmtTab[i])) /\ Strip(AmtVal(AmtTab[i])) = AmtVal(AmtTab[i])

-----------------------------------------------------------------------------
(* Script classes.  code: the special-script code of the compressed format *)
(* (0 P2PKH, 1 P2SH, 2/3 compressed P2PK, 4/5 uncompressed P2PK with even / *)
(* odd y), -1 = stored with the len+6 escape.  pay: identity of the 20 / 32 *)
(* payload bytes (classes with the same pay share them, only the code tells *)
(* them apart).  twin: the class a non-canonical key is REWRITTEN to when   *)
(* it is compressed all the same (Bug = "noncanon").                        *)

S(name, len, code, pay) == [name |-> name, len |-> len, code |-> code, pay |-> pay, twin |-> ""]
T(name, len, twin)      == [name |-> name, len |-> len, code |-> -1, pay |-> "", twin |-> twin]

ScrTab == <<
    S("p2pkh", 25, 0, "h1"), S("p2sh", 23, 1, "h1"),
    S("p2pkh_zero", 25, 0, "h0"), S("p2sh_ff", 23, 1, "hf"),
    S("p2pk02", 35, 2, "x1"), S("p2pk03", 35, 3, "x1"),
    S("p2pk04e", 67, 4, "x1"), S("p2pk04o", 67, 5, "x1"),
    S("p2pk02_nocurve", 35, 2, "x2"), S("p2pk03_nocurve", 35, 3, "x2"),    \* x has no point: still the 33-byte template, kept verbatim
    S("p2pk02_xgep", 35, 2, "x3"), S("p2pk03_zero", 35, 3, "x0"),
    S("p2pk04_x4", 67, 4, "x4"),                                             \* canonical (x4, y4), y4 even : twin of _xgep
    S("p2pk04_x5n", 67, 4, "x5"),                                            \* canonical (x5, p - y5), even : twin of _ygep
    T("p2pk04_xgep", 67, "p2pk04_x4"),                                       \* (x4 + p, y4)
    T("p2pk04_ygep", 67, "p2pk04_x5n"),                                      \* (x5, y5 + p), y5 odd
    S("p2pk04_offcurve", 67, -1, ""), S("p2pk04_xgep_off", 67, -1, ""), S("p2pk04_zero", 67, -1, ""),
    S("p2pk04_ff", 67, -1, ""),
    S("p2pk06e", 67, -1, ""), S("p2pk07o", 67, -1, ""), S("p2pk06_badpar", 67, -1, ""), S("p2pk07_offcurve", 67, -1, ""),
    \* look-alikes: one byte off each template
    S("p2pkh_len24", 24, -1, ""), S("p2pkh_len26", 26, -1, ""), S("p2pkh_op0", 25, -1, ""), S("p2pkh_op1", 25, -1, ""),
    S("p2pkh_push", 25, -1, ""), S("p2pkh_op23", 25, -1, ""), S("p2pkh_op24", 25, -1, ""),
    S("p2sh_len22", 22, -1, ""), S("p2sh_len24", 24, -1, ""), S("p2sh_op0", 23, -1, ""), S("p2sh_push", 23, -1, ""), S("p2sh_op22", 23, -1, ""),
    S("p2pk33_len34", 34, -1, ""), S("p2pk33_len36", 36, -1, ""), S("p2pk33_push", 35, -1, ""), S("p2pk33_pre04", 35, -1, ""),
    S("p2pk33_pre01", 35, -1, ""), S("p2pk33_op", 35, -1, ""),
    S("p2pk65_len66", 66, -1, ""), S("p2pk65_len68", 68, -1, ""), S("p2pk65_push", 67, -1, ""), S("p2pk65_pre05", 67, -1, ""),
    S("p2pk65_pre02", 67, -1, ""), S("p2pk65_op", 67, -1, ""),
    \* empty, one byte (incl. bytes that look like a special code or the escape base), other
    S("raw0", 0, -1, ""), S("b00", 1, -1, ""), S("b01", 1, -1, ""), S("b05", 1, -1, ""), S("b06", 1, -1, ""), S("b51", 1, -1, ""),
    S("bac", 1, -1, ""), S("bfd", 1, -1, ""), S("bff", 1, -1, ""),
    S("raw2", 2, -1, ""), S("raw5", 5, -1, ""), S("raw6", 6, -1, ""), S("raw20", 20, -1, ""), S("raw21_00", 21, -1, ""), S("raw33_02", 33, -1, ""),
    S("p2wpkh", 22, -1, ""), S("p2wsh", 34, -1, ""), S("p2tr", 34, -1, ""), S("opret40", 40, -1, ""), S("multisig1of2", 71, -1, ""),
    S("raw246", 246, -1, ""), S("raw247", 247, -1, ""), S("raw252", 252, -1, ""), S("raw253", 253, -1, ""),
    S("raw10000", 10000, -1, ""), S("raw10001", 10001, -1, ""),
    S("raw65529", 65529, -1, ""), S("raw65530", 65530, -1, ""), S("raw65535", 65535, -1, ""), S("raw65536", 65536, -1, ""),
    S("raw70001", 70001, -1, "") >>

ScrIdx(name) == CHOOSE i \in 1..Len(ScrTab) : ScrTab[i].name = name
ScrAll == {i \in 1..Len(ScrTab) : Big \/ ScrTab[i].len < 65000}

\* classes combined with each other in multi-output shapes, most telling first
ShapeNames == <<"p2pkh", "b05", "p2pk04e", "raw0", "p2sh", "p2pk03", "p2pk04_offcurve", "raw247", "p2pk04o", "p2pkh_len24",
                "p2pk02", "p2pk06e", "raw253", "p2pk65_op", "p2sh_op22", "p2wpkh", "p2pk04_xgep", "p2pk04_ygep", "raw6", "p2pk33_pre04",
                "p2tr", "raw246", "raw252", "b00", "p2pkh_push", "p2pk02_nocurve", "raw10001", "p2pk07o", "opret40", "multisig1of2">>
ShapeScr == {ScrIdx(ShapeNames[i]) : i \in 1..(IF ScrSel < Len(ShapeNames) THEN ScrSel ELSE Len(ShapeNames))}

SpecialNames == <<"p2pkh", "p2sh", "p2pk02", "p2pk03", "p2pk04e", "p2pk04o">>
RawNames == <<"raw0", "b05", "raw5", "raw247", "p2pkh_len24", "p2pk04_offcurve">>

(* what the compressor does with a class *)
Code(s) == IF Bug = "noncanon" /\ ScrTab[s].twin # "" THEN ScrTab[ScrIdx(ScrTab[s].twin)].code ELSE ScrTab[s].code
Pay(s)  == IF Bug = "noncanon" /\ ScrTab[s].twin # "" THEN ScrTab[ScrIdx(ScrTab[s].twin)].pay ELSE ScrTab[s].pay
SLen(s) == ScrTab[s].len
ComprScrLen == <<21, 21, 33, 33, 33, 33>>

\* script.DecompressScript: the class with that code and payload (0 = no such script)
Decompress(code, pay) ==
    LET dc == IF Bug = "swap23" /\ code \in {2, 3} THEN 5 - code ELSE code
        m  == {i \in 1..Len(ScrTab) : ScrTab[i].code = dc /\ ScrTab[i].pay = pay}
    IN IF m = {} THEN 0 ELSE CHOOSE i \in m : TRUE

\* compressed forms are unambiguous, and the template lengths are what the format assumes
ASSUME \A i, j \in 1..Len(ScrTab) : (ScrTab[i].code >= 0 /\ ScrTab[i].code = ScrTab[j].code /\ ScrTab[i].pay = ScrTab[j].pay) => i = j
ASSUME \A i \in 1..Len(ScrTab) : ScrTab[i].code >= 0 => ScrTab[i].len = <<25, 23, 35, 35, 67, 67>>[ScrTab[i].code + 1]
ASSUME \A i \in 1..Len(ScrTab) : ScrTab[i].twin # "" => ScrTab[ScrIdx(ScrTab[i].twin)].code >= 0
ASSUME \A i, j \in 1..Len(ScrTab) : ScrTab[i].name = ScrTab[j].name => i = j

-----------------------------------------------------------------------------
(* Abstract record and the cell streams *)

NoOut  == [v |-> <<0>>, s |-> 0, h |-> <<>>, cb |-> FALSE, n |-> 0]       \* <<0>> is not a Num: cannot be a real value
NilRec == [id |-> 0, h |-> <<>>, cb |-> FALSE, n |-> 0, outs |-> <<>>]
Nil    == <<>>                                                            \* Serialize returned nil: nothing is stored
Garbage == [id |-> -1, h |-> <<>>, cb |-> FALSE, n |-> 0, outs |-> <<>>]  \* the decoder lost the grammar (would misread or panic)

Out(i, a, s) == [i |-> i, a |-> a, v |-> AmtVal(AmtTab[a]), s |-> s]
Abs(r) == [id |-> r.id, h |-> r.h, cb |-> r.cb, n |-> r.n, outs |-> [j \in 1..Len(r.outs) |-> [i |-> r.outs[j].i, v |-> r.outs[j].v, s |-> r.outs[j].s]]]

Cell(t, w, v, s, code, pay) == [t |-> t, w |-> w, v |-> v, s |-> s, code |-> code, pay |-> pay]
Key(id)   == Cell("key", 32, <<>>, id, 0, "")
CS(v)     == Cell("cs", CSW(v), v, 0, 0, "")
CSidx(v)  == Cell("cs", IF Bug = "idx_w" THEN (IF Less(v, FromInt(256)) THEN 1 ELSE CSW(v)) ELSE CSW(v), v, 0, 0, "")
RawC(s)   == Cell("raw", SLen(s), <<>>, s, 0, "")
SpC(s)    == Cell("sp", ComprScrLen[Code(s) + 1], <<>>, 0, Code(s), Pay(s))
Esc       == IF Bug = "escape5" THEN 5 ELSE 6

RECURSIVE Cat(_)
Cat(ss) == IF ss = <<>> THEN <<>> ELSE Head(ss) \o Cat(Tail(ss))

Header(r) == <<Key(r.id), CS(r.h), CS(FromInt(2 * r.n + IF r.cb THEN 1 ELSE 0))>>
EncOut(fmt, o) ==
    IF fmt = "U" THEN <<CSidx(FromInt(o.i)), CS(o.v), CS(FromInt(SLen(o.s))), RawC(o.s)>>
    ELSE <<CSidx(FromInt(o.i)), CS(CompressAmt(o.v))>> \o
         (IF Code(o.s) >= 0 THEN <<SpC(o.s)>> ELSE <<CS(FromInt(SLen(o.s) + Esc)), RawC(o.s)>>)

\* utxo.SerializeU / SerializeC
Enc(fmt, r) == IF r.outs = <<>> THEN Nil ELSE Header(r) \o Cat([j \in 1..Len(r.outs) |-> EncOut(fmt, r.outs[j])])

Size(cells) == LET RECURSIVE Sum(_)
                   Sum(k) == IF k = 0 THEN 0 ELSE cells[k].w + Sum(k - 1)
               IN Sum(Len(cells))

IsCS(cl) == cl.t = "cs" /\ cl.w = CSW(cl.v)        \* a CompactSize the reader takes back as written

\* one output at cell k: [ok, next, out]
ReadOut(fmt, cs, k) ==
    LET bad == [ok |-> FALSE, next |-> 0, out |-> [i |-> 0, v |-> <<>>, s |-> 0]] IN
    IF k + 2 > Len(cs) \/ ~IsCS(cs[k]) \/ ~IsCS(cs[k + 1]) THEN bad
    ELSE IF fmt = "U" THEN
        IF k + 3 > Len(cs) \/ ~IsCS(cs[k + 2]) \/ cs[k + 3].t # "raw" \/ cs[k + 3].w # ToInt(cs[k + 2].v) THEN bad
        ELSE [ok |-> TRUE, next |-> k + 4, out |-> [i |-> ToInt(cs[k].v), v |-> cs[k + 1].v, s |-> cs[k + 3].s]]
    ELSE LET hd == cs[k + 2] IN
        IF hd.t = "sp" THEN           \* VLen of the first byte is the code (< 6): ComprScrLen[code] bytes through DecompressScript
            IF hd.w # ComprScrLen[hd.code + 1] THEN bad
            ELSE [ok |-> TRUE, next |-> k + 3, out |-> [i |-> ToInt(cs[k].v), v |-> DecompressAmt(cs[k + 1].v), s |-> Decompress(hd.code, hd.pay)]]
        ELSE IF ~IsCS(hd) \/ ToInt(hd.v) < 6 THEN bad     \* a length below 6 is taken for a special code
        ELSE IF k + 3 > Len(cs) \/ cs[k + 3].t # "raw" \/ cs[k + 3].w # ToInt(hd.v) - Esc THEN bad
        ELSE [ok |-> TRUE, next |-> k + 4, out |-> [i |-> ToInt(cs[k].v), v |-> DecompressAmt(cs[k + 1].v), s |-> cs[k + 3].s]]

RECURSIVE ReadOuts(_, _, _)
ReadOuts(fmt, cs, k) ==
    IF k > Len(cs) THEN [ok |-> TRUE, outs |-> <<>>]
    ELSE LET o == ReadOut(fmt, cs, k) IN
         IF ~o.ok THEN [ok |-> FALSE, outs |-> <<>>]
         ELSE LET rest == ReadOuts(fmt, cs, o.next) IN [ok |-> rest.ok, outs |-> <<o.out>> \o rest.outs]

\* utxo.NewUtxoRecOwnU / NewUtxoRecOwnC (= NewUtxoRec, FullUtxoRec, NewUtxoRecStatic)
Dec(fmt, cs) ==
    IF cs = Nil THEN NilRec
    ELSE IF Len(cs) < 3 \/ cs[1].t # "key" \/ ~IsCS(cs[2]) \/ ~IsCS(cs[3]) THEN Garbage
    ELSE LET nc == ToInt(cs[3].v)
             os == ReadOuts(fmt, cs, 4)
         IN IF ~os.ok \/ \E j \in 1..Len(os.outs) : os.outs[j].i >= nc \div 2 THEN Garbage
            ELSE [id |-> cs[1].s, h |-> cs[2].v, cb |-> (Bug # "cb_lost" /\ nc % 2 = 1), n |-> nc \div 2, outs |-> os.outs]

\* utxo.OneUtxoRecU / OneUtxoRecC
RECURSIVE Walk(_, _, _, _)
Walk(fmt, cs, k, vout) ==
    IF k > Len(cs) THEN NoOut
    ELSE LET o == ReadOut(fmt, cs, k) IN
         IF ~o.ok THEN [NoOut EXCEPT !.s = -1]
         ELSE IF o.out.i > vout /\ Bug # "one_next" THEN NoOut
         ELSE IF o.out.i = vout \/ (Bug = "one_next" /\ o.out.i > vout)
              THEN [v |-> o.out.v, s |-> o.out.s, h |-> cs[2].v, cb |-> (ToInt(cs[3].v) % 2 = 1), n |-> ToInt(cs[3].v) \div 2]
         ELSE Walk(fmt, cs, o.next, vout)

One(fmt, cs, vout) == IF cs = Nil \/ ToInt(cs[3].v) \div 2 <= vout THEN NoOut ELSE Walk(fmt, cs, 4, vout)

OutOf(r, vout) ==
    LET m == {j \in 1..Len(r.outs) : r.outs[j].i = vout} IN
    IF m = {} THEN NoOut
    ELSE LET o == r.outs[CHOOSE j \in m : TRUE] IN [v |-> o.v, s |-> o.s, h |-> r.h, cb |-> r.cb, n |-> r.n]

Alive(r) == {r.outs[j].i : j \in 1..Len(r.outs)}
Probes(r) == IF r.n <= 4 THEN 0..(r.n + 1)
             ELSE {i \in ({0, 1, r.n - 2, r.n - 1, r.n, r.n + 1} \cup UNION {{i - 1, i, i + 1} : i \in Alive(r)}) : i >= 0}

Fmts == {"U", "C"}

-----------------------------------------------------------------------------
(* Case enumeration *)

Mix(x) == (((x % 10007) * 9973 + (Salt % 10007) * 7919 + 4447) % 10007)
Pick(x, m) == (Mix(Mix(x) + x) % m) + 1

HTab == <<<<>>, FromInt(1), FromInt(252), FromInt(253), FromInt(65535), FromInt(65536), FromInt(840000), FromInt(2147483647),
          Rev(<<4,2,9,4,9,6,7,2,9,4>>), Rev(<<4,2,9,4,9,6,7,2,9,5>>)>>       \* .. 2^32 - 2, 2^32 - 1

RECURSIVE SeqOf(_)
SeqOf(X) == IF X = {} THEN <<>> ELSE <<Min(X)>> \o SeqOf(X \ {Min(X)})

Case(k, n, x, y) == [k |-> k, n |-> n, x |-> x, y |-> y]

SingleRecs == IF "single" \notin Parts THEN {} ELSE
    UNION {{[c |-> Case("single", 1, s, a),
             r |-> [id |-> 1, h |-> HTab[Pick(s * 211 + a, Len(HTab))], cb |-> Pick(s * 223 + a, 2) = 1, n |-> 1, outs |-> <<Out(0, a, s)>>]]
            : a \in {b \in AmtAll : (b + s) % AmtStride = 0}} : s \in {t \in ScrAll : t % NLanes = Lane}}

ShapeCode(n, X, f) == LET RECURSIVE Sum(_)
                          Sum(Y) == IF Y = {} THEN 0 ELSE LET m == Min(Y) IN (m + 1) * 101 * f[m] + Sum(Y \ {m})
                      IN n * 7 + Sum(X)

ShapeRecs == IF "shape" \notin Parts THEN {} ELSE
    UNION {UNION {{[c |-> Case("shape", n, ShapeCode(n, X, f), 0),
                    r |-> [id |-> 2, h |-> HTab[Pick(ShapeCode(n, X, f), Len(HTab))], cb |-> Pick(ShapeCode(n, X, f) + 1, 2) = 1, n |-> n,
                           outs |-> [j \in 1..Cardinality(X) |-> Out(SeqOf(X)[j], Pick(ShapeCode(n, X, f) * 5 + j, Len(AmtTab)), f[SeqOf(X)[j]])]]]
                   : f \in {g \in [X -> ShapeScr] : ShapeCode(n, X, g) % NLanes = Lane}} : X \in SUBSET (0..(n - 1))} : n \in 1..MaxOuts}

NTab == <<126, 127, 253, 254, 32767, 32768, 65536, 65537>>        \* 2n+cb and the indices cross the CompactSize boundaries
Interesting(n) == {i \in {0, 252, 253, 254, 255, 256, 65535, 65536, n - 2, n - 1} : i >= 0 /\ i < n}
PatScr(pat, j) == CASE pat = 1 -> ScrIdx(SpecialNames[((j - 1) % Len(SpecialNames)) + 1])
                    [] pat = 2 -> ScrIdx(RawNames[((j - 1) % Len(RawNames)) + 1])
                    [] pat = 3 -> IF j % 2 = 1 THEN ScrIdx(SpecialNames[((j + Salt) % Len(SpecialNames)) + 1]) ELSE ScrIdx(RawNames[((j + Salt) % Len(RawNames)) + 1])
SetCode(X) == LET RECURSIVE Sum(_)
                  Sum(Y) == IF Y = {} THEN 0 ELSE (Min(Y) % 1009) + 3 * Sum(Y \ {Min(Y)})
              IN Sum(X)
IndexRecs == IF "index" \notin Parts THEN {} ELSE
    UNION {UNION {{[c |-> Case("index", NTab[ni], SetCode(X), pat * 2 + cb),
                    r |-> [id |-> 3, h |-> HTab[Pick(SetCode(X) + ni, Len(HTab))], cb |-> cb = 1, n |-> NTab[ni],
                           outs |-> [j \in 1..Cardinality(X) |-> Out(SeqOf(X)[j], Pick(SetCode(X) * 3 + j + ni, Len(AmtTab)), PatScr(pat, j))]]]
                   : pat \in 1..3, cb \in 0..1} : X \in {X \in SUBSET Interesting(NTab[ni]) : Cardinality(X) \in 1..3}} : ni \in {i \in 1..Len(NTab) : i % NLanes = Lane}}

HeightRecs == IF "height" \notin Parts \/ Lane # 0 THEN {} ELSE
    {[c |-> Case("height", 2, hi, cb),
      r |-> [id |-> 4, h |-> HTab[hi], cb |-> cb = 1, n |-> 2, outs |-> <<Out(0, Pick(hi, Len(AmtTab)), ScrIdx("p2pkh")), Out(1, Pick(hi + 50, Len(AmtTab)), ScrIdx("raw5"))>>]]
       : hi \in 1..Len(HTab), cb \in 0..1}

\* dense records: every output survives except the holes (pattern y: 0 none, 1 first, 2 last, 3 every second, 4 all but the last);
\* amounts and scripts of the slots are a function of the index that the harness owns.  No cell stream is built for these
\* in the model (30001 outputs): the expected value is the identity.
DenseN == IF Big THEN <<5, 300, 13107, 13108, 30000, 30001, 32768>> ELSE <<5, 300>>
DenseRecs == IF "dense" \notin Parts \/ Lane # 0 THEN {} ELSE
    {[c |-> Case("dense", DenseN[ni], pat, cb),
      r |-> [id |-> 5, h |-> HTab[Pick(ni + pat, Len(HTab))], cb |-> cb = 1, n |-> DenseN[ni], outs |-> <<>>]]
       : ni \in 1..Len(DenseN), pat \in 0..4, cb \in 0..1}

\* The snapshot loader (NewUnspentDb) hands the records it reads to the map writer in packs of RECS_PACK_SIZE slots:
\* a full pack when its last slot is filled, the partly filled last pack at the end of the file.  Loaded(n, p) is the
\* set of records (numbered in file order) that reach the map.
PackSize == 65536
Loaded(n, p) ==
    LET full == n \div p
        Handed(k) == IF Bug = "pack_short" THEN ((k - 1) * p + 1)..(k * p - 1) ELSE ((k - 1) * p + 1)..(k * p)
    IN UNION {Handed(k) : k \in 1..full} \cup ((full * p + 1)..n)

\* bulk sets: x one-output records committed in one block, saved, reloaded in a new process (y: 0 plain, 1 compressed);
\* the sizes sit around the loader's pack size.  wide sets: two blocks of n records with y equal-size outputs each
\* (UnspentDB.commit serialises them from many goroutines in groups of 32; SerializeC shares one scratch pool).
\* The records are a function of their number that the harness owns; the expected value is the identity on the set.
BulkSizes == <<PackSize - 1, PackSize, PackSize + 1, 2 * PackSize + 1>>
BulkRecs == IF "bulk" \notin Parts \/ Lane # 0 THEN {} ELSE
    {[c |-> Case("bulk", BulkSizes[si], 1, f), r |-> NilRec] : si \in 1..Len(BulkSizes), f \in 0..1}
    \cup {[c |-> Case("wide", 3000, 60, f), r |-> NilRec] : f \in 0..1}
\* the quick tier takes the pack size and the pack size + 1, one format each, and a smaller wide set in the compressed format
BulkQuick == IF "bulkq" \notin Parts \/ Lane # 0 THEN {} ELSE
    {[c |-> Case("bulk", PackSize, 1, Salt % 2), r |-> NilRec], [c |-> Case("bulk", PackSize + 1, 1, 1 - (Salt % 2)), r |-> NilRec],
     [c |-> Case("wide", 1500, 40, 1), r |-> NilRec]}

RecCases == SingleRecs \cup ShapeRecs \cup IndexRecs \cup HeightRecs \cup DenseRecs \cup BulkRecs \cup BulkQuick

-----------------------------------------------------------------------------
(* Snapshot machine *)

NoDb   == [bit |-> FALSE, open |-> FALSE, mem |-> <<>>]
NoFile == [bit |-> FALSE, exists |-> FALSE, height |-> 0, recs |-> <<>>]
NoRec  == [fmt |-> "", rec |-> NilRec]
SnapIds == 1..3

\* the records the snapshot machine commits: id r has r outputs, classes picked by Salt
SnapScr == SeqOf({i \in 1..Len(ScrTab) : ScrTab[i].len < 65000})
SnapRec(r) == [id |-> 10 + r, h |-> HTab[Pick(900 + r, Len(HTab))], cb |-> Pick(910 + r, 2) = 1, n |-> r,
               outs |-> [j \in 1..r |-> Out(j - 1, Pick(920 + 10 * r + j, Len(AmtTab)), SnapScr[Pick(950 + 10 * r + j, Len(SnapScr))])]]

EmptyMem == [r \in SnapIds |-> NoRec]

\* what a reader of the running process sees for id r
Read(r) == IF db.mem[r] = NoRec THEN NilRec ELSE IF db.mem[r].fmt = codec THEN Abs(db.mem[r].rec) ELSE Garbage
Want(r) == IF truth[r] = NoRec THEN NilRec ELSE Abs(truth[r].rec)

Remove(r, i) == [r EXCEPT !.outs = SelectSeq(r.outs, LAMBDA o : o.i # i)]

SOpen(optC) ==
    /\ phase \in {"start", "snap"} /\ "snap" \in Parts /\ ~db.open /\ opens < MaxOpens
    /\ phase' = "snap" /\ opens' = opens + 1
    /\ c' = Case("Open", 0, IF optC THEN 1 ELSE 0, 0)
    /\ IF ~file.exists
       THEN /\ db' = [bit |-> optC, open |-> TRUE, mem |-> EmptyMem]
            /\ codec' = IF optC /\ Bug # "fresh_bit_only" THEN "C" ELSE "U"     \* a new process starts with the plain codec
       ELSE /\ db' = [bit |-> file.bit, open |-> TRUE, mem |-> file.recs]
            /\ codec' = IF file.bit THEN "C" ELSE "U"
    /\ blk' = IF file.exists THEN file.height ELSE 0
    /\ dirty' = FALSE
    /\ UNCHANGED <<rec, file, truth, used, spends, pl>>

SCommit(r) ==
    /\ phase = "snap" /\ db.open /\ r \notin used
    /\ c' = Case("Commit", 0, r, 0)
    /\ db' = [db EXCEPT !.mem[r] = [fmt |-> codec, rec |-> SnapRec(r)]]
    /\ truth' = [truth EXCEPT ![r] = [fmt |-> "", rec |-> SnapRec(r)]]
    /\ used' = used \cup {r} /\ blk' = blk + 1 /\ dirty' = TRUE
    /\ UNCHANGED <<phase, rec, codec, file, opens, spends, pl>>

SSpend(r, i) ==
    /\ phase = "snap" /\ db.open /\ spends < MaxSpends /\ truth[r] # NoRec /\ i \in Alive(truth[r].rec)
    /\ c' = Case("Spend", 0, r, i)
    /\ LET nt == Remove(truth[r].rec, i) IN truth' = [truth EXCEPT ![r] = IF nt.outs = <<>> THEN NoRec ELSE [fmt |-> "", rec |-> nt]]
    /\ IF db.mem[r] # NoRec /\ db.mem[r].fmt = codec        \* db.del: decode, clear the slot, serialise again (or drop the record)
       THEN LET nm == Remove(db.mem[r].rec, i) IN db' = [db EXCEPT !.mem[r] = IF nm.outs = <<>> THEN NoRec ELSE [fmt |-> codec, rec |-> nm]]
       ELSE db' = db                                         \* undecodable (only reachable with Bug = "fresh_bit_only"): the record is not what it should be
    /\ blk' = blk + 1 /\ dirty' = TRUE /\ spends' = spends + 1
    /\ UNCHANGED <<phase, rec, codec, file, used, opens, pl>>

SClose ==
    /\ phase = "snap" /\ db.open
    /\ c' = Case("Close", 0, 0, 0)
    /\ file' = IF dirty THEN [bit |-> db.bit, exists |-> TRUE, height |-> blk, recs |-> db.mem] ELSE file
    /\ db' = NoDb /\ dirty' = FALSE
    /\ UNCHANGED <<phase, rec, codec, truth, used, blk, opens, spends, pl>>

SnapStep == \/ \E o \in BOOLEAN : SOpen(o)
            \/ \E r \in SnapIds : SCommit(r)
            \/ \E r \in SnapIds : \E i \in 0..2 : SSpend(r, i)
            \/ SClose

-----------------------------------------------------------------------------

RecCase ==
    /\ phase = "start"
    /\ \E rc \in RecCases : c' = rc.c /\ rec' = rc.r
    /\ phase' = "rec"
    /\ UNCHANGED <<codec, db, file, truth, used, blk, dirty, opens, spends, pl>>

(* Two SerializeC calls in flight (UnspentDB.commit runs them in parallel).  Each call takes comp_pool_mutex, fills   *)
(* pool[i] with the compressed value / script of its output i, then writes the record from the pool, then unlocks.    *)
PoolK == 2
PVal(t, i) == t * 10 + i
PoolInit == [mutex |-> 0, pool |-> [i \in 1..PoolK |-> 0], pc |-> [t \in 1..2 |-> "idle"], idx |-> [t \in 1..2 |-> 1],
             out |-> [t \in 1..2 |-> [i \in 1..PoolK |-> 0]]]
PNextIdx(t) == IF pl.idx[t] = PoolK THEN 1 ELSE pl.idx[t] + 1
PLock(t)   == pl.pc[t] = "idle" /\ pl.mutex = 0
              /\ pl' = [pl EXCEPT !.mutex = IF Bug = "pool_unlocked" THEN 0 ELSE t, !.pc[t] = "fill"]   \* broken: unlocked before the pool is used
PFill(t)   == pl.pc[t] = "fill"
              /\ pl' = [pl EXCEPT !.pool[pl.idx[t]] = PVal(t, pl.idx[t]), !.idx[t] = PNextIdx(t), !.pc[t] = IF pl.idx[t] = PoolK THEN "emit" ELSE "fill"]
PEmit(t)   == pl.pc[t] = "emit"
              /\ pl' = [pl EXCEPT !.out[t][pl.idx[t]] = pl.pool[pl.idx[t]], !.idx[t] = PNextIdx(t), !.pc[t] = IF pl.idx[t] = PoolK THEN "unlock" ELSE "emit"]
PUnlock(t) == pl.pc[t] = "unlock"
              /\ pl' = [pl EXCEPT !.mutex = IF pl.mutex = t THEN 0 ELSE pl.mutex, !.pc[t] = "done"]
PoolStep ==
    /\ phase \in {"start", "pool"} /\ "pool" \in Parts
    /\ phase' = "pool" /\ c' = Case("pool", 0, 0, 0)
    /\ \E t \in 1..2 : PLock(t) \/ PFill(t) \/ PEmit(t) \/ PUnlock(t)
    /\ UNCHANGED <<rec, codec, db, file, truth, used, blk, dirty, opens, spends>>

Init == /\ phase = "start" /\ c = Case("start", 0, 0, 0) /\ rec = NilRec
        /\ codec = "U" /\ db = NoDb /\ file = NoFile /\ truth = [r \in SnapIds |-> NoRec] /\ used = {} /\ blk = 0
        /\ dirty = FALSE /\ opens = 0 /\ spends = 0 /\ pl = PoolInit

Next == RecCase \/ SnapStep \/ PoolStep

Spec == Init /\ [][Next]_vars

-----------------------------------------------------------------------------
(* The property *)

IsRec == phase = "rec" /\ c.k \notin {"dense", "bulk", "wide"}

TypeOK == /\ phase \in {"start", "rec", "snap", "pool"}
          /\ codec \in Fmts
          /\ IsRec => /\ rec.n >= 1 /\ \A j \in 1..Len(rec.outs) : rec.outs[j].i < rec.n /\ rec.outs[j].s \in 1..Len(ScrTab)
                      /\ \A j \in 1..(Len(rec.outs) - 1) : rec.outs[j].i < rec.outs[j + 1].i

\* Store ; Load = identity on the abstract record, in both formats
StoreLoadIdentity == IsRec /\ rec.outs # <<>> => \A f \in Fmts : Dec(f, Enc(f, rec)) = Abs(rec)

\* a record whose outputs are all spent is not stored at all
AllSpentNotStored == IsRec /\ rec.outs = <<>> => \A f \in Fmts : Enc(f, rec) = Nil

\* looking up one output = decoding the whole record, for spent, unspent and out-of-range indices
OneOutAgrees == IsRec /\ rec.outs # <<>> =>
    \A f \in Fmts : LET e == Enc(f, rec)
                        d == Dec(f, e)
                    IN \A i \in Probes(rec) : One(f, e, i) = OutOf(d, i)
OneOutIdentity == IsRec =>
    \A f \in Fmts : LET e == Enc(f, rec)
                        a == Abs(rec)
                    IN \A i \in Probes(rec) : One(f, e, i) = OutOf(a, i)

\* the amount compressor is a bijection on what it is given (unbounded arithmetic) ...
AmtRoundTrip == IsRec => \A j \in 1..Len(rec.outs) : DecompressAmt(CompressAmt(rec.outs[j].v)) = rec.outs[j].v
\* ... and every amount of the money range has a compressed form that fits the 64-bit field
MoneyFits == IsRec => \A j \in 1..Len(rec.outs) : ~Less(MaxMoney, rec.outs[j].v) => Fits64(CompressAmt(rec.outs[j].v))

\* the compressed format never needs more script bytes than its code table says, and both formats agree on the header
HeaderSame == IsRec /\ rec.outs # <<>> => SubSeq(Enc("U", rec), 1, 3) = SubSeq(Enc("C", rec), 1, 3)

\* snapshot: whatever process reads the set sees exactly what was committed and not spent
SnapReadIdentity == phase = "snap" /\ db.open => \A r \in SnapIds : Read(r) = Want(r)
\* the header bit names the codec of every record of the file
HeaderNamesCodec == file.exists => \A r \in SnapIds : file.recs[r] # NoRec => file.recs[r].fmt = (IF file.bit THEN "C" ELSE "U")
\* the file holds exactly the set at the time of the save
FileIsTruth == (phase = "snap" /\ ~db.open /\ file.exists /\ used # {}) => \A r \in SnapIds : (file.recs[r] = NoRec) = (truth[r] = NoRec)
\* the loader puts every record of the file into the map, whatever the number of records is relative to the pack size
LoaderComplete == phase # "" => \A p \in 2..4 :   \* (mentions a variable so that TLC reports it as an invariant of the behaviour)
    \A n \in 0..(2 * p + 2) : Loaded(n, p) = 1..n
\* concurrent serialisations do not see each other's scratch entries
PoolSerialised == \A t \in 1..2 : pl.pc[t] = "done" => \A i \in 1..PoolK : pl.out[t][i] = PVal(t, i)
=============================================================================
