------------------------------- MODULE Script -------------------------------
(***************************************************************************)
(* The Bitcoin script rules as an executable specification.                *)
(*                                                                         *)
(* Written from the consensus rules (Bitcoin Core interpreter.cpp:         *)
(* EvalScript / VerifyScript / VerifyWitnessProgram / ExecuteWitnessScript,*)
(* BIPs 16, 62 (flags), 65, 66, 68/112, 141, 143, 146, 147, 341, 342) -    *)
(* NOT transcribed from gocoin.  It is the oracle of property C01: for a   *)
(* case (scriptSig, scriptPubKey, witness, tx context) and a flag set,     *)
(* Verify(C, F) is "T" (accepted), "F" (rejected) or "U" (the verdict      *)
(* depends on a cryptographic check on raw bytes the model cannot decide;  *)
(* only arises for foreign test vectors, never for generated cases).       *)
(*                                                                         *)
(* VALUES (stack elements, push data) are sequences of integers:           *)
(*   <<b1,...,bn>>, all bi in 0..255 : that byte string                    *)
(*   a sequence whose first element is >= 256 : a symbolic token           *)
(*     <<301>> \o v              RIPEMD160(v)          20 bytes            *)
(*     <<302>> \o v              SHA1(v)               20 bytes            *)
(*     <<303>> \o v              SHA256(v)             32 bytes            *)
(*        (HASH160(v) = <<301,303>> \o v, HASH256(v) = <<303,303>> \o v)   *)
(*     <<400+form, k>>           public key of secret k in a given form    *)
(*     <<500+enc, k, ht, m>>     ECDSA signature by k, hash type byte ht,  *)
(*                               message designator m, encoding class enc  *)
(*     <<510+enc, k, ht, m>>     BIP340 signature                          *)
(*     <<600, n, id>>            n arbitrary non-zero bytes (size limits)  *)
(*     <<700, i, len, truthy>>   the serialisation of script C.scr[i]      *)
(*     <<810, lv, par, k, form, m, pad>>  taproot control block            *)
(*     <<820, k, form, sid, lv, m>>       taproot output key               *)
(*        (both optionally followed by a sibling pattern: bit j says on    *)
(*         which side of the node the j-th sibling hash sorts)             *)
(* Equality of values is structural: hashes are injective constructors.    *)
(* The harness (harness/cmd/script) maps tokens to real bytes.             *)
(*                                                                         *)
(* An OP is [o |-> opcode byte, d |-> push data (<<>> for non-push),       *)
(*           t |-> TRUE iff the script ends inside this push]              *)
(***************************************************************************)
EXTENDS Integers, Sequences, SequencesExt, FiniteSets, TLC

CONSTANT CltvPops   \* FALSE = the rules.  TRUE = a deliberately wrong design (CLTV/CSV pop their
                    \* operand): the soft-fork invariant of Script_mc must refute it.

-----------------------------------------------------------------------------
(* ---- flags (names as in Bitcoin Core's SCRIPT_VERIFY_ constants) ---- *)
AllFlags == {"P2SH", "STRICTENC", "DERSIG", "LOW_S", "NULLDUMMY", "SIGPUSHONLY", "MINIMALDATA",
             "DISCOURAGE_UPGRADABLE_NOPS", "CLEANSTACK", "CLTV", "CSV", "WITNESS",
             "DISCOURAGE_UPGRADABLE_WITNESS_PROGRAM", "MINIMALIF", "NULLFAIL", "WITNESS_PUBKEYTYPE",
             "CONST_SCRIPTCODE", "TAPROOT", "DISCOURAGE_UPGRADABLE_TAPROOT_VERSION",
             "DISCOURAGE_OP_SUCCESS", "DISCOURAGE_UPGRADABLE_PUBKEYTYPE"}

\* Core's dependencies (interpreter.cpp asserts / transaction_tests IsValidFlagCombination), plus one
\* restriction of ours: DISCOURAGE_UPGRADABLE_NOPS is only combined with CLTV and CSV switched on
\* (Core releases differ on NOP2/NOP3 under DISCOURAGE_UPGRADABLE_NOPS when CLTV/CSV are off; policy only).
ConsistentFlags(F) ==
    /\ ("CLEANSTACK" \in F => {"P2SH", "WITNESS"} \subseteq F)
    /\ ("WITNESS" \in F => "P2SH" \in F)
    /\ ("TAPROOT" \in F => "WITNESS" \in F)
    /\ ("DISCOURAGE_UPGRADABLE_NOPS" \in F => {"CLTV", "CSV"} \subseteq F)

-----------------------------------------------------------------------------
(* ---- values ---- *)
IsTok(v) == Len(v) > 0 /\ v[1] >= 256
IsBytes(v) == ~IsTok(v)

\* public key forms
PKComp == 0       \* 33 bytes 02/03 x, on the curve
PKUncomp == 1     \* 65 bytes 04 x y
PKHybrid == 2     \* 65 bytes 06/07 x y (valid for the lax rules, refused by STRICTENC)
PKXonly == 3      \* 32 bytes x, liftable  (BIP340)
PKXoff == 4       \* 32 bytes, x not on the curve
PKXbig == 5       \* 32 bytes, x >= field size (x mod p would be on the curve)
PKBadPfx == 6     \* 33 bytes 05 x : not a key format
PKCompOff == 8    \* 33 bytes 02 x, x not on the curve: well-formed, never verifies
PKSizeOf(form) == CASE form \in {0, 6, 8} -> 33 [] form \in {1, 2} -> 65 [] OTHER -> 32

\* ECDSA encodings: 0 strict DER low S (71 bytes incl. hash type), 1 not strict DER but parseable by
\* the lax parser (R padded with an extra 00; 72 bytes), 2 strict DER high S (72 bytes)
\* Schnorr encodings: 0 = 64 bytes if ht = 0 else 64+ht byte; 1 = 64 + ht byte always; 2 = 63 bytes; 3 = 66 bytes
SchnorrSize(enc, ht) == CASE enc = 0 -> (IF ht = 0 THEN 64 ELSE 65) [] enc = 1 -> 65 [] enc = 2 -> 63 [] OTHER -> 66

Size(v) ==
    IF IsBytes(v) THEN Len(v)
    ELSE CASE v[1] \in {301, 302} -> 20
           [] v[1] = 303 -> 32
           [] v[1] \in 400..409 -> PKSizeOf(v[1] - 400)
           [] v[1] = 500 -> 71
           [] v[1] \in {501, 502} -> 72
           [] v[1] \in 510..513 -> SchnorrSize(v[1] - 510, v[3])
           [] v[1] = 600 -> v[2]
           [] v[1] = 700 -> v[3]
           [] v[1] = 810 -> 33 + 32 * v[6] + v[7]
           [] v[1] = 820 -> 32
           [] OTHER -> Assert(FALSE, <<"Size: unknown token", v>>)

\* CastToBool: any non-zero byte, except that a final 0x80 (negative zero) does not count
Bool(v) ==
    IF IsTok(v) THEN (IF v[1] = 700 THEN v[4] = 1 ELSE TRUE)
    ELSE \E i \in 1..Len(v) : v[i] # 0 /\ ~(i = Len(v) /\ v[i] = 128)

BoolV(b) == IF b THEN <<1>> ELSE <<>>

\* first byte where the rules look at it (annex tag); tokens are concretised so that it is never 0x50
FirstByte(v) == IF IsTok(v) \/ Len(v) = 0 THEN -1 ELSE v[1]

(* ---- CScriptNum ---- *)
MinimalNum(v) == Len(v) = 0 \/ (v[Len(v)] % 128) # 0 \/ (Len(v) > 1 /\ v[Len(v) - 1] >= 128)

NumOK(v, max, minimal) == IsBytes(v) /\ Len(v) <= max /\ (minimal => MinimalNum(v))

P256 == <<1, 256, 65536, 16777216>>
RECURSIVE LowSum(_, _)
LowSum(v, i) == IF i = 0 THEN 0 ELSE v[i] * P256[i] + LowSum(v, i - 1)
\* value of an operand of at most 4 bytes (|x| <= 2^31 - 1: fits TLC's integers)
Num(v) ==
    IF Len(v) = 0 THEN 0
    ELSE LET n == Len(v)
             mag == LowSum(v, n - 1) + (v[n] % 128) * P256[n]
         IN IF v[n] >= 128 THEN 0 - mag ELSE mag

\* encode sign * (m1 * 65536 + m0), m0, m1 in 0..65535
EncLimbs(neg, m1, m0) ==
    LET b == <<m0 % 256, m0 \div 256, m1 % 256, m1 \div 256>>
        n == IF b[4] # 0 THEN 4 ELSE IF b[3] # 0 THEN 3 ELSE IF b[2] # 0 THEN 2 ELSE IF b[1] # 0 THEN 1 ELSE 0
        c == SubSeq(b, 1, n)
    IN IF n = 0 THEN <<>>
       ELSE IF c[n] >= 128 THEN Append(c, IF neg THEN 128 ELSE 0)
       ELSE IF neg THEN [c EXCEPT ![n] = c[n] + 128] ELSE c

\* encode h * 65536 + l for small h, l (the value may exceed 32 bits: sums of two 4-byte operands)
EncWide(h, l) ==
    LET h2 == h + (l \div 65536)
        l2 == l % 65536
    IN IF h2 >= 0 THEN EncLimbs(FALSE, h2, l2)
       ELSE IF l2 = 0 THEN EncLimbs(TRUE, 0 - h2, 0)
       ELSE EncLimbs(TRUE, 0 - h2 - 1, 65536 - l2)

EncInt(x) == EncWide(x \div 65536, x % 65536)
EncSum(a, b) == EncWide((a \div 65536) + (b \div 65536), (a % 65536) + (b % 65536))

\* operands of CLTV / CSV: up to 5 bytes; [neg, hi, lo] with magnitude hi * 65536 + lo (hi < 2^23)
Num5(v) ==
    LET n == Len(v)
        B(i) == IF i > n THEN 0 ELSE IF i = n THEN v[i] % 128 ELSE v[i]
        lo == B(1) + 256 * B(2)
        hi == B(3) + 256 * B(4) + 65536 * B(5)
    IN [neg |-> n > 0 /\ v[n] >= 128 /\ (hi # 0 \/ lo # 0), hi |-> hi, lo |-> lo]

LtP(a, b) == a[1] < b[1] \/ (a[1] = b[1] /\ a[2] < b[2])
LockThreshold == <<7629, 25856>>     \* 500000000 = 7629 * 65536 + 25856

-----------------------------------------------------------------------------
(* ---- scripts ---- *)
OpLen(op) ==
    IF op.t THEN 1 + Size(op.d)
    ELSE CASE op.o <= 75 -> 1 + Size(op.d)
           [] op.o = 76 -> 2 + Size(op.d)
           [] op.o = 77 -> 3 + Size(op.d)
           [] op.o = 78 -> 5 + Size(op.d)
           [] OTHER -> 1
RECURSIVE ScriptLenFrom(_, _)
ScriptLenFrom(p, i) == IF i > Len(p) THEN 0 ELSE OpLen(p[i]) + ScriptLenFrom(p, i + 1)
ScriptLen(p) == ScriptLenFrom(p, 1)

\* would the serialised script be "true" as a stack element?
ScriptBool(p) ==
    \E i \in 1..Len(p) :
        \/ (p[i].o # 0 /\ ~(i = Len(p) /\ p[i].o = 128 /\ ~p[i].t))
        \/ Bool(p[i].d)   \* conservative: only used for all-zero scripts

\* CScript() << vch : the opcode Core uses to push a value (FindAndDelete pattern, P2SH witness check)
CanonPushOp(v) == LET n == Size(v) IN IF n < 76 THEN n ELSE IF n <= 255 THEN 76 ELSE IF n <= 65535 THEN 77 ELSE 78

Op(o) == [o |-> o, d |-> <<>>, t |-> FALSE]
PushOp(o, v) == [o |-> o, d |-> v, t |-> FALSE]
\* the minimal push of a value (what MINIMALDATA demands)
PushMin(v) ==
    IF IsBytes(v) /\ Len(v) = 1 /\ v[1] \in 1..16 THEN Op(80 + v[1])
    ELSE IF IsBytes(v) /\ v = <<129>> THEN Op(79)
    ELSE PushOp(CanonPushOp(v), v)
ScrTok(i, p) == <<700, i, ScriptLen(p), IF ScriptBool(p) THEN 1 ELSE 0>>

\* parsing raw bytes into ops (redeem scripts / witness scripts given as bytes)
RECURSIVE Parse(_, _)
Parse(b, i) ==
    IF i > Len(b) THEN <<>>
    ELSE LET o == b[i]
             n == Len(b)
             trunc == <<[o |-> o, d |-> SubSeq(b, i + 1, n), t |-> TRUE]>>
             take(hdr, sz) == IF i + hdr + sz > n THEN trunc
                              ELSE <<[o |-> o, d |-> SubSeq(b, i + hdr + 1, i + hdr + sz), t |-> FALSE]>> \o Parse(b, i + hdr + sz + 1)
         IN CASE o <= 75 -> take(0, o)
              [] o = 76 -> IF i + 1 > n THEN trunc ELSE take(1, b[i + 1])
              [] o = 77 -> IF i + 2 > n THEN trunc ELSE take(2, b[i + 1] + 256 * b[i + 2])
              [] o = 78 -> IF i + 4 > n THEN trunc
                           ELSE IF b[i + 3] # 0 \/ b[i + 4] # 0 THEN trunc     \* >= 65536 bytes: more than any script holds
                           ELSE take(4, b[i + 1] + 256 * b[i + 2])
              [] OTHER -> <<Op(o)>> \o Parse(b, i + 1)

\* the script a stack element denotes: [u |-> unknown?, p |-> ops, len |-> byte length, sid |-> script id]
ToScript(v, C) ==
    IF IsBytes(v) THEN [u |-> FALSE, p |-> Parse(v, 1), len |-> Len(v), sid |-> -9]
    ELSE IF v[1] = 700 THEN [u |-> FALSE, p |-> C.scr[v[2]], len |-> v[3], sid |-> v[2]]
    ELSE [u |-> TRUE, p |-> <<>>, len |-> 0, sid |-> -9]

IsPushOnly(p) == \A i \in 1..Len(p) : ~p[i].t /\ p[i].o <= 96

IsP2SH(p) == /\ Len(p) = 3 /\ p[1] = Op(169) /\ p[3] = Op(135)
             /\ p[2].o = 20 /\ ~p[2].t /\ Size(p[2].d) = 20

\* [is |-> BOOLEAN, ver |-> 0..16, prog |-> value]
WitnessProgram(p) ==
    IF /\ Len(p) = 2 /\ ~p[1].t /\ ~p[2].t
       /\ p[1].o \in ({0} \cup (81..96))
       /\ p[2].o \in 2..40 /\ Size(p[2].d) = p[2].o
    THEN [is |-> TRUE, ver |-> IF p[1].o = 0 THEN 0 ELSE p[1].o - 80, prog |-> p[2].d]
    ELSE [is |-> FALSE, ver |-> 0, prog |-> <<>>]

Disabled == {126, 127, 128, 129, 131, 132, 133, 134, 141, 142, 149, 150, 151, 152, 153}
IsOpSuccess(o) == o \in ({80, 98} \cup (126..129) \cup (131..134) \cup (137..138) \cup (141..142) \cup (149..153) \cup (187..254))

MinimalPush(d, o) ==
    LET n == Size(d) IN
    IF n = 0 THEN o = 0
    ELSE IF n = 1 /\ IsBytes(d) /\ (d[1] \in 1..16 \/ d[1] = 129) THEN FALSE
    ELSE IF n <= 75 THEN o = n
    ELSE IF n <= 255 THEN o = 76
    ELSE IF n <= 65535 THEN o = 77
    ELSE TRUE

-----------------------------------------------------------------------------
(* ---- signature / key encodings ---- *)
HalfOrder == <<127, 255, 255, 255, 255, 255, 255, 255, 255, 255, 255, 255, 255, 255, 255, 255,
               93, 87, 110, 115, 87, 164, 80, 29, 223, 233, 47, 70, 104, 27, 32, 160>>

\* BIP66 IsValidSignatureEncoding on raw bytes (1-based indices)
RawValidDER(s) ==
    LET n == Len(s) IN
    /\ n >= 9 /\ n <= 73
    /\ s[1] = 48
    /\ s[2] = n - 3
    /\ LET lenR == s[4] IN
       /\ 5 + lenR < n
       /\ LET lenS == s[6 + lenR] IN
          /\ lenR + lenS + 7 = n
          /\ s[3] = 2
          /\ lenR # 0
          /\ s[5] < 128
          /\ ~(lenR > 1 /\ s[5] = 0 /\ s[6] < 128)
          /\ s[lenR + 5] = 2
          /\ lenS # 0
          /\ s[lenR + 7] < 128
          /\ ~(lenS > 1 /\ s[lenR + 7] = 0 /\ s[lenR + 8] < 128)

\* big-endian comparison a <= b of byte strings without leading zeros
RECURSIVE LexLE(_, _, _)
LexLE(a, b, i) == IF i > Len(a) THEN TRUE ELSE IF a[i] < b[i] THEN TRUE ELSE IF a[i] > b[i] THEN FALSE ELSE LexLE(a, b, i + 1)
RECURSIVE StripZ(_)
StripZ(a) == IF Len(a) > 0 /\ a[1] = 0 THEN StripZ(Tail(a)) ELSE a
RawLowS(s) ==
    /\ RawValidDER(s)
    /\ LET lenR == s[4]
           lenS == s[6 + lenR]
           sv == StripZ(SubSeq(s, lenR + 7, lenR + 6 + lenS))
       IN Len(sv) < 32 \/ (Len(sv) = 32 /\ LexLE(sv, HalfOrder, 1))

IsEcdsaTok(v) == IsTok(v) /\ v[1] \in 500..502
IsSchnorrTok(v) == IsTok(v) /\ v[1] \in 510..513
IsPKTok(v) == IsTok(v) /\ v[1] \in 400..409

ValidDER(v) == IF IsBytes(v) THEN RawValidDER(v) ELSE IsEcdsaTok(v) /\ v[1] \in {500, 502}
LowS(v) == IF IsBytes(v) THEN RawLowS(v) ELSE IsEcdsaTok(v) /\ v[1] = 500
DefinedHashType(v) ==
    LET ht == IF IsBytes(v) THEN v[Len(v)] ELSE IF IsEcdsaTok(v) THEN v[3] ELSE 0
    IN (ht % 128) \in 1..3

SigEncodingOK(sig, F) ==
    IF Size(sig) = 0 THEN TRUE
    ELSE IF F \cap {"DERSIG", "LOW_S", "STRICTENC"} # {} /\ ~ValidDER(sig) THEN FALSE
    ELSE IF "LOW_S" \in F /\ ~LowS(sig) THEN FALSE
    ELSE IF "STRICTENC" \in F /\ ~DefinedHashType(sig) THEN FALSE
    ELSE TRUE

CompOrUncomp(pk) ==
    IF IsBytes(pk) THEN Len(pk) >= 33 /\ ((pk[1] = 4 /\ Len(pk) = 65) \/ (pk[1] \in {2, 3} /\ Len(pk) = 33))
    ELSE IsPKTok(pk) /\ (pk[1] - 400) \in {PKComp, PKUncomp, PKCompOff}
Compressed(pk) ==
    IF IsBytes(pk) THEN Len(pk) = 33 /\ pk[1] \in {2, 3}
    ELSE IsPKTok(pk) /\ (pk[1] - 400) \in {PKComp, PKCompOff}

PubKeyEncodingOK(pk, F, sv) ==
    /\ ("STRICTENC" \in F => CompOrUncomp(pk))
    /\ (("WITNESS_PUBKEYTYPE" \in F /\ sv = "v0") => Compressed(pk))

\* ECDSA verification.  "T"/"F"/"U".  msgOK: the script code is the one the token was made for.
\* Raw bytes against raw bytes (foreign vectors only): decided by the oracle table of the case when it has one
\* (C.sigok: the (signature, key, script id, code start) combinations that verify, computed by the harness with
\* the digest / ECDSA primitives), else "U" unless the byte strings cannot be a signature / key at all.
EcdsaVerify(sig, pk, msgOK, E, cs) ==
    IF Size(sig) = 0 THEN "F"
    ELSE IF IsBytes(sig) /\ IsBytes(pk) THEN
        IF E.C.oracle THEN (IF \E i \in 1..Len(E.C.sigok) : E.C.sigok[i] = <<sig, pk, E.sid, cs>> THEN "T" ELSE "F")
        ELSE IF Len(sig) < 9 \/ sig[1] # 48 THEN "F"
        ELSE IF ~((Len(pk) = 33 /\ pk[1] \in {2, 3}) \/ (Len(pk) = 65 /\ pk[1] \in {4, 6, 7})) THEN "F"
        ELSE "U"
    ELSE IF IsEcdsaTok(sig) /\ IsPKTok(pk) THEN
        IF (pk[1] - 400) \in {PKComp, PKUncomp, PKHybrid} /\ sig[2] = pk[2] /\ msgOK THEN "T" ELSE "F"
    ELSE "F"    \* a token of another kind, or token against raw bytes: never a valid pair

SchnorrHashTypeOK(ht) == ht \in {0, 1, 2, 3, 129, 130, 131}

-----------------------------------------------------------------------------
(* ---- the interpreter: one step ---- *)
\* interpreter state: st stack (top = last), alt, ex condition stack, n op count, cs index of the last
\* executed OP_CODESEPARATOR (0 = none), wl tapscript validation weight left, ok, unk, k number of ops
\* processed without failure (observation only)
\* environment E: F flags, sv sigversion in {"base","v0","tap"}, p the script, sid its id, C the case

Fail(s) == [s EXCEPT !.ok = FALSE]
Unk(s) == [s EXCEPT !.ok = FALSE, !.unk = TRUE]
Top(st, k) == st[Len(st) - k + 1]
Pop(st, k) == SubSeq(st, 1, Len(st) - k)

Embedded(code, v) == \E i \in 1..Len(code) : ~code[i].t /\ code[i].o <= 78 /\ code[i].o = CanonPushOp(v) /\ code[i].d = v
\* found by FindAndDelete (BASE only)
Found(code, v, E) == /\ E.sv = "base" /\ Embedded(code, v)
                     /\ ~(Size(v) >= 76 /\ "findanddelete-long-signature-missed" \in E.C.kf)
CodeFrom(E, cs) == SubSeq(E.p, cs + 1, Len(E.p))

\* Which message an ECDSA signature token commits to.  Designator m >= 1: "made for the script code that starts
\* at op m of the target script".  BASE: the code is serialised without OP_CODESEPARATORs and without the pushes of
\* the signature(s) being checked (FindAndDelete), so two start positions give the same message iff the ops between
\* them vanish that way; the token itself was made over the code minus its own pushes.  WITNESS_V0 (BIP143): the
\* code is taken as it is from the op after the last executed OP_CODESEPARATOR.
IsSigPush(op, sigs) == ~op.t /\ op.o <= 78 /\ \E v \in sigs : op.o = CanonPushOp(v) /\ op.d = v
NormCode(code, sigs) == SelectSeq(code, LAMBDA op : op.o # 171 /\ ~IsSigPush(op, sigs))
MsgOK(sig, sigs, cs, E) ==
    /\ IsEcdsaTok(sig) /\ E.sid = E.C.tgt /\ sig[4] >= 1 /\ sig[4] - 1 <= Len(E.p)
    /\ IF E.sv = "base" THEN NormCode(CodeFrom(E, sig[4] - 1), {sig}) = NormCode(CodeFrom(E, cs), sigs)
                        ELSE sig[4] = 1 + cs

\* [err |-> the script fails, succ |-> result pushed, unk]
ChecksigPre(sig, pk, s, E) ==
    LET code == CodeFrom(E, s.cs)
        found == Found(code, sig, E)
    IN IF found /\ "CONST_SCRIPTCODE" \in E.F THEN [err |-> TRUE, succ |-> FALSE, unk |-> FALSE]
       ELSE IF ~SigEncodingOK(sig, E.F) \/ ~PubKeyEncodingOK(pk, E.F, E.sv) THEN [err |-> TRUE, succ |-> FALSE, unk |-> FALSE]
       ELSE LET v == EcdsaVerify(sig, pk, MsgOK(sig, {sig}, s.cs, E), E, s.cs)
            IN IF v = "U" THEN [err |-> TRUE, succ |-> FALSE, unk |-> TRUE]
               ELSE IF v = "F" /\ "NULLFAIL" \in E.F /\ Size(sig) > 0 THEN [err |-> TRUE, succ |-> FALSE, unk |-> FALSE]
               ELSE [err |-> FALSE, succ |-> v = "T", unk |-> FALSE]

\* Named deviations of an implementation from the rules (known-finding attribution): a case C may carry a set
\* C.kf of them; Verify then states what an implementation with exactly these deviations would answer.  Generated
\* cases carry none; ScriptGen evaluates them a second time per deviation to attribute a disagreement.
Deviations == {"undefined-hashtype-accepted",       \* BIP341 hash type outside {0,1,2,3,0x81,0x82,0x83}: all-zero digest instead of failure
               "single-without-output-accepted",    \* SIGHASH_SINGLE with no corresponding output: all-zero digest instead of failure
               "internal-key-unchecked",            \* taproot commitment check with an internal key that is not a valid x coordinate
               "findanddelete-long-signature-missed"}   \* FindAndDelete pattern built with a CompactSize length: never matches a push of >= 76 bytes

SchnorrVerify(sig, pk, E, cs, keypath) ==
    /\ Size(sig) \in {64, 65}
    /\ IsSchnorrTok(sig)                            \* 64/65 other bytes are not a signature
    /\ LET ht == sig[3]
           keyOK == IF keypath THEN IsTok(pk) /\ pk[1] = 820 /\ pk[3] = PKXonly /\ sig[2] = pk[2]
                    ELSE IsPKTok(pk) /\ pk[1] = 400 + PKXonly /\ sig[2] = pk[2]
           ctxOK == IF keypath THEN E.C.tgt = -2 ELSE E.sid = E.C.tgt
           nodigest == ~SchnorrHashTypeOK(ht) \/ ((ht % 4) = 3 /\ E.C.tx.nomatch)
       IN /\ (Size(sig) = 65 => ht # 0)
          /\ IF nodigest
             THEN \* BIP341: there is no digest and the check fails.  Under the named deviations the verifier checks the
                  \* signature against the all-zero string, which is what the adversarial token was made over.
                  /\ keyOK
                  /\ \/ (~SchnorrHashTypeOK(ht) /\ "undefined-hashtype-accepted" \in E.C.kf)
                     \/ (SchnorrHashTypeOK(ht) /\ "single-without-output-accepted" \in E.C.kf)
             ELSE keyOK /\ ctxOK /\ sig[4] = 1 + cs

\* [err, succ, wl]
ChecksigTap(sig, pk, s, E) ==
    LET succ == Size(sig) > 0
        wl == IF succ THEN s.wl - 50 ELSE s.wl
    IN IF wl < 0 THEN [err |-> TRUE, succ |-> FALSE, wl |-> wl]
       ELSE IF Size(pk) = 0 THEN [err |-> TRUE, succ |-> FALSE, wl |-> wl]
       ELSE IF Size(pk) = 32 THEN
            IF succ /\ ~SchnorrVerify(sig, pk, E, s.cs, FALSE) THEN [err |-> TRUE, succ |-> FALSE, wl |-> wl]
            ELSE [err |-> FALSE, succ |-> succ, wl |-> wl]
       ELSE IF "DISCOURAGE_UPGRADABLE_PUBKEYTYPE" \in E.F THEN [err |-> TRUE, succ |-> FALSE, wl |-> wl]
       ELSE [err |-> FALSE, succ |-> succ, wl |-> wl]

\* CHECKMULTISIG matching loop. S, K in checking order (last pushed first). "ok" / "fail" / "enc" / "unk"
RECURSIVE MultiSig(_, _, _, _, _, _)
MultiSig(S, K, is, ik, E, cs) ==
    IF is > Len(S) THEN "ok"
    ELSE IF ~SigEncodingOK(S[is], E.F) \/ ~PubKeyEncodingOK(K[ik], E.F, E.sv) THEN "enc"
    ELSE LET v == EcdsaVerify(S[is], K[ik], MsgOK(S[is], {S[j] : j \in 1..Len(S)}, cs, E), E, cs)
             is2 == IF v = "T" THEN is + 1 ELSE is
         IN IF v = "U" THEN "unk"
            ELSE IF Len(S) - is2 + 1 > Len(K) - ik THEN "fail"
            ELSE MultiSig(S, K, is2, ik + 1, E, cs)

CheckLockTime(n, tx) ==
    LET a == <<n.hi, n.lo>> IN
    /\ (LtP(tx.lock, LockThreshold) <=> LtP(a, LockThreshold))
    /\ ~LtP(tx.lock, a)
    /\ tx.seq # <<65535, 65535>>

Bit(x, k) == (x \div (2 ^ k)) % 2
CheckSequence(n, tx) ==
    /\ (tx.ver[1] > 0 \/ tx.ver[2] >= 2)            \* version, as an unsigned number, >= 2
    /\ Bit(tx.seq[1], 15) = 0                       \* bit 31 of the input's nSequence
    /\ Bit(tx.seq[1], 6) = Bit(n.hi, 6)             \* bit 22: same unit
    /\ n.lo <= tx.seq[2]

ExecOp(s, op, idx, E, fExec) ==
    LET F == E.F
        sv == E.sv
        o == op.o
        st == s.st
        n == Len(st)
        minimal == "MINIMALDATA" \in F
        T(k) == st[n - k + 1]
        Set(x) == [s EXCEPT !.st = x]
        NOK(v) == NumOK(v, 4, minimal)
    IN
    CASE o = 79 -> Set(Append(st, <<129>>))
      [] o \in 81..96 -> Set(Append(st, <<o - 80>>))
      [] o = 97 -> s
      [] o \in {99, 100} ->
            IF ~fExec THEN [s EXCEPT !.ex = Append(s.ex, FALSE)]
            ELSE IF n < 1 THEN Fail(s)
            ELSE LET v == T(1) IN
                 IF sv = "tap" /\ ~(Size(v) = 0 \/ v = <<1>>) THEN Fail(s)
                 ELSE IF sv = "v0" /\ "MINIMALIF" \in F /\ ~(Size(v) = 0 \/ v = <<1>>) THEN Fail(s)
                 ELSE [s EXCEPT !.st = Pop(st, 1), !.ex = Append(s.ex, IF o = 99 THEN Bool(v) ELSE ~Bool(v))]
      [] o = 103 -> IF Len(s.ex) = 0 THEN Fail(s) ELSE [s EXCEPT !.ex[Len(s.ex)] = ~s.ex[Len(s.ex)]]
      [] o = 104 -> IF Len(s.ex) = 0 THEN Fail(s) ELSE [s EXCEPT !.ex = SubSeq(s.ex, 1, Len(s.ex) - 1)]
      [] o = 105 -> IF n < 1 \/ ~Bool(T(1)) THEN Fail(s) ELSE Set(Pop(st, 1))
      [] o = 106 -> Fail(s)
      [] o = 107 -> IF n < 1 THEN Fail(s) ELSE [s EXCEPT !.st = Pop(st, 1), !.alt = Append(s.alt, T(1))]
      [] o = 108 -> IF Len(s.alt) < 1 THEN Fail(s)
                    ELSE [s EXCEPT !.st = Append(st, s.alt[Len(s.alt)]), !.alt = SubSeq(s.alt, 1, Len(s.alt) - 1)]
      [] o = 109 -> IF n < 2 THEN Fail(s) ELSE Set(Pop(st, 2))
      [] o = 110 -> IF n < 2 THEN Fail(s) ELSE Set(st \o <<T(2), T(1)>>)
      [] o = 111 -> IF n < 3 THEN Fail(s) ELSE Set(st \o <<T(3), T(2), T(1)>>)
      [] o = 112 -> IF n < 4 THEN Fail(s) ELSE Set(st \o <<T(4), T(3)>>)
      [] o = 113 -> IF n < 6 THEN Fail(s) ELSE Set(Pop(st, 6) \o <<T(4), T(3), T(2), T(1), T(6), T(5)>>)
      [] o = 114 -> IF n < 4 THEN Fail(s) ELSE Set(Pop(st, 4) \o <<T(2), T(1), T(4), T(3)>>)
      [] o = 115 -> IF n < 1 THEN Fail(s) ELSE IF Bool(T(1)) THEN Set(Append(st, T(1))) ELSE s
      [] o = 116 -> Set(Append(st, EncInt(n)))
      [] o = 117 -> IF n < 1 THEN Fail(s) ELSE Set(Pop(st, 1))
      [] o = 118 -> IF n < 1 THEN Fail(s) ELSE Set(Append(st, T(1)))
      [] o = 119 -> IF n < 2 THEN Fail(s) ELSE Set(Append(Pop(st, 2), T(1)))
      [] o = 120 -> IF n < 2 THEN Fail(s) ELSE Set(Append(st, T(2)))
      [] o \in {121, 122} ->
            IF n < 2 \/ ~NOK(T(1)) THEN Fail(s)
            ELSE LET k == Num(T(1))
                     r == Pop(st, 1)
                 IN IF k < 0 \/ k >= Len(r) THEN Fail(s)
                    ELSE LET v == r[Len(r) - k] IN
                         IF o = 121 THEN Set(Append(r, v))
                         ELSE Set(Append(SubSeq(r, 1, Len(r) - k - 1) \o SubSeq(r, Len(r) - k + 1, Len(r)), v))
      [] o = 123 -> IF n < 3 THEN Fail(s) ELSE Set(Pop(st, 3) \o <<T(2), T(1), T(3)>>)
      [] o = 124 -> IF n < 2 THEN Fail(s) ELSE Set(Pop(st, 2) \o <<T(1), T(2)>>)
      [] o = 125 -> IF n < 2 THEN Fail(s) ELSE Set(Pop(st, 2) \o <<T(1), T(2), T(1)>>)
      [] o = 130 -> IF n < 1 THEN Fail(s) ELSE Set(Append(st, EncInt(Size(T(1)))))
      [] o = 135 -> IF n < 2 THEN Fail(s) ELSE Set(Append(Pop(st, 2), BoolV(T(1) = T(2))))
      [] o = 136 -> IF n < 2 \/ T(1) # T(2) THEN Fail(s) ELSE Set(Pop(st, 2))
      [] o = 139 -> IF n < 1 \/ ~NOK(T(1)) THEN Fail(s) ELSE Set(Append(Pop(st, 1), EncSum(Num(T(1)), 1)))
      [] o = 140 -> IF n < 1 \/ ~NOK(T(1)) THEN Fail(s) ELSE Set(Append(Pop(st, 1), EncSum(Num(T(1)), -1)))
      [] o = 143 -> IF n < 1 \/ ~NOK(T(1)) THEN Fail(s) ELSE Set(Append(Pop(st, 1), EncInt(0 - Num(T(1)))))
      [] o = 144 -> IF n < 1 \/ ~NOK(T(1)) THEN Fail(s)
                    ELSE LET x == Num(T(1)) IN Set(Append(Pop(st, 1), EncInt(IF x < 0 THEN 0 - x ELSE x)))
      [] o = 145 -> IF n < 1 \/ ~NOK(T(1)) THEN Fail(s) ELSE Set(Append(Pop(st, 1), BoolV(Num(T(1)) = 0)))
      [] o = 146 -> IF n < 1 \/ ~NOK(T(1)) THEN Fail(s) ELSE Set(Append(Pop(st, 1), BoolV(Num(T(1)) # 0)))
      [] o \in ({147, 148} \cup (154..164)) ->
            IF n < 2 \/ ~NOK(T(1)) \/ ~NOK(T(2)) THEN Fail(s)
            ELSE LET a == Num(T(2))
                     b == Num(T(1))
                     r == Pop(st, 2)
                     res == CASE o = 147 -> EncSum(a, b)
                              [] o = 148 -> EncSum(a, 0 - b)
                              [] o = 154 -> BoolV(a # 0 /\ b # 0)
                              [] o = 155 -> BoolV(a # 0 \/ b # 0)
                              [] o \in {156, 157} -> BoolV(a = b)
                              [] o = 158 -> BoolV(a # b)
                              [] o = 159 -> BoolV(a < b)
                              [] o = 160 -> BoolV(a > b)
                              [] o = 161 -> BoolV(a <= b)
                              [] o = 162 -> BoolV(a >= b)
                              [] o = 163 -> EncInt(IF a < b THEN a ELSE b)
                              [] o = 164 -> EncInt(IF a > b THEN a ELSE b)
                 IN IF o = 157 THEN (IF a = b THEN Set(r) ELSE Fail(s)) ELSE Set(Append(r, res))
      [] o = 165 ->
            IF n < 3 \/ ~NOK(T(1)) \/ ~NOK(T(2)) \/ ~NOK(T(3)) THEN Fail(s)
            ELSE Set(Append(Pop(st, 3), BoolV(Num(T(2)) <= Num(T(3)) /\ Num(T(3)) < Num(T(1)))))
      [] o = 166 -> IF n < 1 THEN Fail(s) ELSE Set(Append(Pop(st, 1), <<301>> \o T(1)))
      [] o = 167 -> IF n < 1 THEN Fail(s) ELSE Set(Append(Pop(st, 1), <<302>> \o T(1)))
      [] o = 168 -> IF n < 1 THEN Fail(s) ELSE Set(Append(Pop(st, 1), <<303>> \o T(1)))
      [] o = 169 -> IF n < 1 THEN Fail(s) ELSE Set(Append(Pop(st, 1), <<301, 303>> \o T(1)))
      [] o = 170 -> IF n < 1 THEN Fail(s) ELSE Set(Append(Pop(st, 1), <<303, 303>> \o T(1)))
      [] o = 171 -> [s EXCEPT !.cs = idx]
      [] o \in {172, 173} ->
            IF n < 2 THEN Fail(s)
            ELSE IF sv = "tap" THEN
                 LET r == ChecksigTap(T(2), T(1), s, E) IN
                 IF r.err THEN Fail(s)
                 ELSE IF o = 173 THEN (IF r.succ THEN [s EXCEPT !.st = Pop(st, 2), !.wl = r.wl] ELSE Fail(s))
                 ELSE [s EXCEPT !.st = Append(Pop(st, 2), BoolV(r.succ)), !.wl = r.wl]
            ELSE LET r == ChecksigPre(T(2), T(1), s, E) IN
                 IF r.unk THEN Unk(s)
                 ELSE IF r.err THEN Fail(s)
                 ELSE IF o = 173 THEN (IF r.succ THEN Set(Pop(st, 2)) ELSE Fail(s))
                 ELSE Set(Append(Pop(st, 2), BoolV(r.succ)))
      [] o = 186 ->
            IF sv # "tap" THEN Fail(s)
            ELSE IF n < 3 \/ ~NOK(T(2)) THEN Fail(s)
            ELSE LET r == ChecksigTap(T(3), T(1), s, E) IN
                 IF r.err THEN Fail(s)
                 ELSE [s EXCEPT !.st = Append(Pop(st, 3), EncSum(Num(T(2)), IF r.succ THEN 1 ELSE 0)), !.wl = r.wl]
      [] o \in {174, 175} ->
            IF sv = "tap" THEN Fail(s)
            ELSE IF n < 1 \/ ~NOK(T(1)) THEN Fail(s)
            ELSE LET nk == Num(T(1)) IN
            IF nk < 0 \/ nk > 20 \/ s.n + nk > 201 THEN Fail(s)
            ELSE IF n < nk + 2 \/ ~NOK(T(nk + 2)) THEN Fail(s)
            ELSE LET ns == Num(T(nk + 2)) IN
            IF ns < 0 \/ ns > nk THEN Fail(s)
            ELSE IF n < nk + ns + 2 THEN Fail(s)
            ELSE LET K == [j \in 1..nk |-> T(1 + j)]              \* checking order: last pushed key first
                     S == [j \in 1..ns |-> T(nk + 2 + j)]
                     code == CodeFrom(E, s.cs)
                     emb == [j \in 1..ns |-> Found(code, S[j], E)]
                     s2 == [s EXCEPT !.n = s.n + nk]
                 IN IF (\E j \in 1..ns : emb[j]) /\ "CONST_SCRIPTCODE" \in F THEN Fail(s)
                    ELSE IF E.C.oracle /\ ns > 1 /\ (\E j \in 1..ns : emb[j]) THEN Unk(s)    \* the oracle table assumes only the signature itself is deleted
                    ELSE LET m == MultiSig(S, K, 1, 1, E, s.cs)
                             succ == m = "ok"
                         IN IF m = "unk" THEN Unk(s)
                            ELSE IF m = "enc" THEN Fail(s)
                            ELSE IF ~succ /\ "NULLFAIL" \in F /\ (\E j \in 1..ns : Size(S[j]) > 0) THEN Fail(s)
                            ELSE IF n < nk + ns + 3 THEN Fail(s)                         \* the dummy element
                            ELSE IF "NULLDUMMY" \in F /\ Size(T(nk + ns + 3)) > 0 THEN Fail(s)
                            ELSE LET r == Pop(st, nk + ns + 3) IN
                                 IF o = 175 THEN (IF succ THEN [s2 EXCEPT !.st = r] ELSE Fail(s))
                                 ELSE [s2 EXCEPT !.st = Append(r, BoolV(succ))]
      [] o = 177 ->
            IF "CLTV" \notin F THEN s
            ELSE IF n < 1 \/ ~NumOK(T(1), 5, minimal) THEN Fail(s)
            ELSE LET x == Num5(T(1)) IN
                 IF x.neg \/ ~CheckLockTime(x, E.C.tx) THEN Fail(s)
                 ELSE IF CltvPops THEN Set(Pop(st, 1)) ELSE s
      [] o = 178 ->
            IF "CSV" \notin F THEN s
            ELSE IF n < 1 \/ ~NumOK(T(1), 5, minimal) THEN Fail(s)
            ELSE LET x == Num5(T(1)) IN
                 IF x.neg THEN Fail(s)
                 ELSE IF Bit(x.hi, 15) = 1 THEN (IF CltvPops THEN Set(Pop(st, 1)) ELSE s)
                 ELSE IF ~CheckSequence(x, E.C.tx) THEN Fail(s)
                 ELSE IF CltvPops THEN Set(Pop(st, 1)) ELSE s
      [] o \in ({176} \cup (179..185)) -> IF "DISCOURAGE_UPGRADABLE_NOPS" \in F THEN Fail(s) ELSE s
      [] OTHER -> Fail(s)      \* RESERVED, VER, VERIF, VERNOTIF, RESERVED1/2, unassigned: BAD_OPCODE

Step(s, op, idx, E) ==
    LET o == op.o
        fExec == \A i \in 1..Len(s.ex) : s.ex[i]
        cnt == IF E.sv \in {"base", "v0"} /\ o > 96 THEN s.n + 1 ELSE s.n
        s1 == [s EXCEPT !.n = cnt]
    IN IF op.t THEN Fail(s)                                             \* GetOp fails
       ELSE IF o <= 78 /\ Size(op.d) > 520 THEN Fail(s)                 \* PUSH_SIZE, executed or not
       ELSE IF cnt > 201 THEN Fail(s)                                   \* OP_COUNT
       ELSE IF o \in Disabled THEN Fail(s)                              \* DISABLED_OPCODE, executed or not
       ELSE IF o = 171 /\ E.sv = "base" /\ "CONST_SCRIPTCODE" \in E.F THEN Fail(s)
       ELSE LET r == IF fExec /\ o <= 78 THEN
                          (IF "MINIMALDATA" \in E.F /\ ~MinimalPush(op.d, o) THEN Fail(s1)
                           ELSE [s1 EXCEPT !.st = Append(s.st, op.d)])
                     ELSE IF fExec \/ o \in 99..104 THEN ExecOp(s1, op, idx, E, fExec)
                     ELSE s1
            IN IF r.ok /\ Len(r.st) + Len(r.alt) > 1000 THEN Fail(r) ELSE IF r.ok THEN [r EXCEPT !.k = s.k + 1] ELSE r

\* fold Step over the ops from index i0 (SequencesExt!FoldLeft: iterative, about 5x cheaper in TLC than a recursive operator)
Run(s0, i0, E) == FoldLeft(LAMBDA s, i : IF s.ok THEN Step(s, E.p[i], i, E) ELSE s, s0,
                           [j \in 1..(Len(E.p) - i0 + 1) |-> j + i0 - 1])

InitState(st, wl) == [st |-> st, alt |-> <<>>, ex |-> <<>>, n |-> 0, cs |-> 0, wl |-> wl, ok |-> TRUE, unk |-> FALSE, k |-> 0]

\* EvalScript: [ok, st, unk]
Eval(p, blen, st0, F, sv, sid, C, wl) ==
    IF sv \in {"base", "v0"} /\ blen > 10000 THEN [ok |-> FALSE, st |-> st0, unk |-> FALSE]
    ELSE LET E == [F |-> F, sv |-> sv, p |-> p, sid |-> sid, C |-> C]
             r == Run(InitState(st0, wl), 1, E)
         IN [ok |-> r.ok /\ Len(r.ex) = 0, st |-> r.st, unk |-> r.unk]

-----------------------------------------------------------------------------
(* ---- witness programs ---- *)
CSize(n) == IF n < 253 THEN 1 ELSE IF n <= 65535 THEN 3 ELSE 5
RECURSIVE SerSizeFrom(_, _)
SerSizeFrom(w, i) == IF i > Len(w) THEN 0 ELSE CSize(Size(w[i])) + Size(w[i]) + SerSizeFrom(w, i + 1)
SerSize(w) == CSize(Len(w)) + SerSizeFrom(w, 1)

\* first op of a tapscript that is undecodable or OP_SUCCESSx: 0 none, > 0 index of an OP_SUCCESS, < 0 undecodable
RECURSIVE SuccessScan(_, _)
SuccessScan(p, i) == IF i > Len(p) THEN 0 ELSE IF p[i].t THEN 0 - i ELSE IF IsOpSuccess(p[i].o) THEN i ELSE SuccessScan(p, i + 1)

\* "T" / "F" / "U"
ExecWitnessScript(st, sc, F, sv, C, wl) ==
    LET scan == IF sv = "tap" THEN SuccessScan(sc.p, 1) ELSE 0 IN
    IF scan < 0 THEN "F"
    ELSE IF scan > 0 THEN (IF "DISCOURAGE_OP_SUCCESS" \in F THEN "F" ELSE "T")
    ELSE IF sv = "tap" /\ Len(st) > 1000 THEN "F"
    ELSE IF \E i \in 1..Len(st) : Size(st[i]) > 520 THEN "F"
    ELSE LET r == Eval(sc.p, sc.len, st, F, sv, sc.sid, C, wl) IN
         IF r.unk THEN "U"
         ELSE IF ~r.ok THEN "F"
         ELSE IF Len(r.st) # 1 THEN "F"
         ELSE IF ~Bool(r.st[1]) THEN "F" ELSE "T"

TaprootCommitmentOK(control, prog, script, C) ==
    /\ IsTok(control) /\ control[1] = 810
    /\ IsTok(prog) /\ prog[1] = 820
    /\ IsTok(script) /\ script[1] = 700
    /\ control[4] = prog[2] /\ control[5] = prog[3]      \* same internal key bytes
    /\ (prog[3] = PKXonly \/ "internal-key-unchecked" \in C.kf)    \* which are a liftable x coordinate
    /\ control[3] = 0                                    \* parity bit as computed
    /\ script[2] = prog[4]                               \* the committed leaf script
    /\ 2 * (control[2] \div 2) = prog[5]                 \* and leaf version
    /\ control[6] = prog[6]                              \* at the committed depth
    /\ control[7] = 0
    /\ (IF Len(control) >= 8 THEN control[8] ELSE -1) = (IF Len(prog) >= 7 THEN prog[7] ELSE -1)   \* with the committed siblings

VerifyWitnessProgram(wit, ver, prog, F, isP2SH, C) ==
    IF ver = 0 THEN
        IF Size(prog) = 32 THEN
            IF Len(wit) = 0 THEN "F"
            ELSE LET sv == wit[Len(wit)]
                     sc == ToScript(sv, C)
                 IN IF <<303>> \o sv # prog THEN "F"
                    ELSE IF sc.u THEN "U"
                    ELSE ExecWitnessScript(Pop(wit, 1), sc, F, "v0", C, 0)
        ELSE IF Size(prog) = 20 THEN
            IF Len(wit) # 2 THEN "F"
            ELSE LET p == <<Op(118), Op(169), PushOp(20, prog), Op(136), Op(172)>>
                 IN ExecWitnessScript(wit, [u |-> FALSE, p |-> p, len |-> 25, sid |-> -1], F, "v0", C, 0)
        ELSE "F"
    ELSE IF ver = 1 /\ Size(prog) = 32 /\ ~isP2SH THEN
        IF "TAPROOT" \notin F THEN "T"
        ELSE IF Len(wit) = 0 THEN "F"
        ELSE LET annex == Len(wit) >= 2 /\ FirstByte(wit[Len(wit)]) = 80
                 st == IF annex THEN Pop(wit, 1) ELSE wit
             IN IF Len(st) = 1 THEN
                    LET E == [F |-> F, sv |-> "tap", p |-> <<>>, sid |-> -2, C |-> C]
                    IN IF SchnorrVerify(st[1], prog, E, 0, TRUE) THEN "T" ELSE "F"
                ELSE LET control == st[Len(st)]
                         script == st[Len(st) - 1]
                         rest == Pop(st, 2)
                         cn == Size(control)
                     IN IF cn < 33 \/ cn > 4129 \/ ((cn - 33) % 32) # 0 THEN "F"
                        ELSE IF ~TaprootCommitmentOK(control, prog, script, C) THEN "F"
                        ELSE IF 2 * (control[2] \div 2) = 192 THEN
                             ExecWitnessScript(rest, ToScript(script, C), F, "tap", C, SerSize(wit) + 50)
                        ELSE IF "DISCOURAGE_UPGRADABLE_TAPROOT_VERSION" \in F THEN "F"
                        ELSE "T"
    ELSE IF "DISCOURAGE_UPGRADABLE_WITNESS_PROGRAM" \in F THEN "F"
    ELSE "T"

-----------------------------------------------------------------------------
(* ---- VerifyScript ---- *)
\* C = [sig |-> ops, pk |-> ops, wit |-> values, scr |-> scripts, tgt |-> Int, tx |-> [ver, lock, seq, nomatch], kf |-> deviations,
\*      oracle |-> BOOLEAN, sigok |-> oracle table (foreign vectors)]
Verify(C, F) ==
    IF "SIGPUSHONLY" \in F /\ ~IsPushOnly(C.sig) THEN "F"
    ELSE LET r1 == Eval(C.sig, ScriptLen(C.sig), <<>>, F, "base", -3, C, 0) IN
    IF r1.unk THEN "U" ELSE IF ~r1.ok THEN "F"
    ELSE LET r2 == Eval(C.pk, ScriptLen(C.pk), r1.st, F, "base", 0, C, 0) IN
    IF r2.unk THEN "U" ELSE IF ~r2.ok THEN "F"
    ELSE IF Len(r2.st) = 0 \/ ~Bool(r2.st[Len(r2.st)]) THEN "F"
    ELSE
    LET wp == WitnessProgram(C.pk)
        bare == "WITNESS" \in F /\ wp.is
        vb == IF ~bare THEN "T"
              ELSE IF Len(C.sig) # 0 THEN "F"                                  \* WITNESS_MALLEATED
              ELSE VerifyWitnessProgram(C.wit, wp.ver, wp.prog, F, FALSE, C)
    IN IF vb # "T" THEN vb
    ELSE
    LET st3 == IF bare THEN SubSeq(r2.st, 1, 1) ELSE r2.st
        p2sh == "P2SH" \in F /\ IsP2SH(C.pk)
    IN
    IF ~p2sh THEN
        IF "CLEANSTACK" \in F /\ Len(st3) # 1 THEN "F"
        ELSE IF "WITNESS" \in F /\ ~bare /\ Len(C.wit) # 0 THEN "F"            \* WITNESS_UNEXPECTED
        ELSE "T"
    ELSE IF ~IsPushOnly(C.sig) THEN "F"
    ELSE LET redeem == r1.st[Len(r1.st)]
             sc == ToScript(redeem, C)
         IN IF sc.u THEN "U"
         ELSE LET r3 == Eval(sc.p, sc.len, Pop(r1.st, 1), F, "base", sc.sid, C, 0) IN
         IF r3.unk THEN "U" ELSE IF ~r3.ok THEN "F"
         ELSE IF Len(r3.st) = 0 \/ ~Bool(r3.st[Len(r3.st)]) THEN "F"
         ELSE LET wp2 == WitnessProgram(sc.p)
                  nested == "WITNESS" \in F /\ wp2.is
                  vn == IF ~nested THEN "T"
                        ELSE IF ~(Len(C.sig) = 1 /\ C.sig[1].o = CanonPushOp(redeem) /\ C.sig[1].o <= 78) THEN "F"   \* WITNESS_MALLEATED_P2SH
                        ELSE VerifyWitnessProgram(C.wit, wp2.ver, wp2.prog, F, TRUE, C)
              IN IF vn # "T" THEN vn
                 ELSE LET st4 == IF nested THEN SubSeq(r3.st, 1, 1) ELSE r3.st IN
                      IF "CLEANSTACK" \in F /\ Len(st4) # 1 THEN "F"
                      ELSE IF "WITNESS" \in F /\ ~nested /\ Len(C.wit) # 0 THEN "F"
                      ELSE "T"

-----------------------------------------------------------------------------
(* ---- the same interpreter as a state machine (one action per opcode family), used by          *)
(* ---- Script_mc.cfg (invariants on every intermediate state) and TraceScript (R->V)            *)
VARIABLES env,      \* the environment E of the script being executed
          pc,       \* index of the next op
          ist       \* interpreter state
mvars == <<env, pc, ist>>

Family(o) ==
    CASE o <= 78 -> "push"
      [] o \in {79} \cup (81..96) -> "const"
      [] o \in {99, 100, 103, 104} -> "cond"
      [] o \in {105, 106} -> "verify"
      [] o \in 107..125 \/ o = 130 -> "stack"
      [] o \in {135, 136} -> "equal"
      [] o \in 139..165 -> "arith"
      [] o \in 166..170 -> "hash"
      [] o = 171 -> "codesep"
      [] o \in {172, 173, 186} -> "checksig"
      [] o \in {174, 175} -> "multisig"
      [] o \in {177, 178} -> "locktime"
      [] o \in {97, 176} \cup (179..185) -> "nop"
      [] OTHER -> "bad"

StepFamily(f) ==
    /\ ist.ok /\ pc <= Len(env.p)
    /\ Family(env.p[pc].o) = f
    /\ ist' = Step(ist, env.p[pc], pc, env)
    /\ pc' = pc + 1
    /\ UNCHANGED env

Families == {"push", "const", "cond", "verify", "stack", "equal", "arith", "hash", "codesep", "checksig",
             "multisig", "locktime", "nop", "bad"}
MNext == \E f \in Families : StepFamily(f)

\* invariants of the interpreter (evaluated in every reachable state by Script_mc.cfg / TraceScript)
StackBound == ist.ok => Len(ist.st) + Len(ist.alt) <= 1000
OpCountBound == ist.ok => ist.n <= 201
ElementBound == ist.ok => \A i \in 1..Len(ist.st) : Size(ist.st[i]) <= 520
CondDepth == ist.ok => Len(ist.ex) <= pc - 1
=============================================================================
