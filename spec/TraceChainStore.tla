--------------------------- MODULE TraceChainStore ---------------------------
(* R->V for C07: the hook trace of a real node running a workload (deliveries,  *)
(* Idle, snapshot saves, aborts) must be a behaviour of ChainStore: the order    *)
(* of file-system effects is part of the specification (data before index,      *)
(* blocks flushed before a snapshot starts, rename only of a complete file,     *)
(* tmp removed only after an abort...), and the tip after every delivery must    *)
(* be the model's.  Events inside one delivery (undo files, flags, commits) are  *)
(* folded into the CSDeliver step at the delivery's end.                         *)
EXTENDS ChainStore, Json

Trace == ndJsonDeserialize("trace.ndjson")
VARIABLE l
tvars == <<allvars, l>>

Ev(e) == l <= Len(Trace) /\ Trace[l].ev = e /\ l' = l + 1
Stutter(e) == Ev(e) /\ UNCHANGED allvars

TInit == CInit /\ l = 1 /\ TLCSet(1, 1)

TReset ==
    /\ Ev("reset")
    /\ known' = {} /\ kids' = [b \in Blocks \cup {0} |-> <<>>] /\ tip' = 0
    /\ utxo' = BaseUtxo /\ undo' = [h \in {} |-> {}] /\ nDeliv' = 0 /\ balOn' = 1 /\ flushed' = {}
    /\ last' = [accepted |-> FALSE, later |-> FALSE, viol |-> {}]
    /\ queue' = <<>> /\ datW' = {} /\ idxF' = <<>> /\ dbF' = 0 /\ oldF' = None /\ tmpF' = {}
    /\ saver' = Idle0 /\ writers' = {} /\ crashed' = FALSE /\ nSaves' = 0 /\ nCrashes' = 0 /\ panicked' = "" /\ wpc' = 0

TNext ==
    \/ TReset
    \/ /\ Ev("op_deliver") /\ CSDeliver(Trace[l].b)
       /\ tip' = Trace[l].tip /\ last'.accepted = Trace[l].acc
    \/ Ev("blk_data_written") /\ BlkDataWritten
    \/ Ev("blk_index_written") /\ BlkIndexWritten
    \/ Ev("save_start") /\ SaveStart
    \/ Ev("save_db_to_old") /\ SaveDbToOld
    \/ Ev("writer_created") /\ WriterCreated
    \/ /\ Ev("save_exit_sent")
       /\ IF Trace[l].abort THEN SaverAborted ELSE SaveDone
    \/ Ev("writer_renamed") /\ WriterRenamed
    \/ Ev("writer_removed") /\ WriterRemoved
    \/ \E e \in {"blk_published", "blk_flag_written", "cb_block_added", "cb_side_block_added", "cb_utxo_committed",
                 "cb_tip_set", "commit_start", "commit_mem_done", "commit_done", "undo_tmp_written", "undo_renamed",
                 "undo_start", "undo_deleted", "undo_done", "ulb_undone", "ulb_tip_set", "ptb_utxo_committed",
                 "ptb_tip_set", "db_invalid_marked", "abort_send", "abort_waited", "save_done", "writer_chunk",
                 "writer_before_rename", "writer_before_remove"} : Stutter(e)

TSpec == TInit /\ [][TNext]_tvars
HighWater == TLCSet(1, IF l > TLCGet(1) THEN l ELSE TLCGet(1))
Accepted == IF TLCGet(1) = Len(Trace) + 1 THEN TRUE ELSE Print(<<"VFREJECT", TLCGet(1)>>, FALSE)
=============================================================================
