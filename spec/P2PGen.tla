------------------------------ MODULE P2PGen ------------------------------
(* Generation wrapper: every transition of P2P becomes one session for the *)
(* replay driver: the shortest message sequence that reaches the source    *)
(* state, the next message, and what the model says about it (outcome and  *)
(* session state after it). VIEW hides the history, the counters, the      *)
(* score and the last outcome, so that every abstract session state is     *)
(* expanded once, over the whole class alphabet.                           *)
EXTENDS P2P, Json

VARIABLE h      \* history: the messages sent so far

gvars == <<vars, h>>
GView == <<alive, ver, cmpct, auth, addrd, ahr, bip, gd, h1, h2, mp>>   \* (o1, o2 hidden: see GViewOrph)
GViewOrph == <<GView, o1, o2>>
GViewEnv == <<GView, pf>>          \* for the narrow exports with the environment actions     \* for the deep, narrow export that brings both colliding orphans into the pool
GViewScore == <<GView, score>>     \* for the deep, narrow export that reaches the ban

St == [alive |-> alive', ver |-> ver', cmpct |-> cmpct', auth |-> auth', addrd |-> addrd', ahr |-> ahr',
       bip |-> bip', gd |-> gd', h1 |-> h1', h2 |-> h2', mp |-> mp', pf |-> pf', o1 |-> o1', o2 |-> o2']
Pre == [alive |-> alive, ver |-> ver, cmpct |-> cmpct, auth |-> auth, addrd |-> addrd, ahr |-> ahr,
        bip |-> bip, gd |-> gd, h1 |-> h1, h2 |-> h2, mp |-> mp, pf |-> pf, o1 |-> o1, o2 |-> o2]

GInit == Init /\ h = << >>

Step(x) ==
  /\ Recv(x)
  /\ h' = Append(h, x)
  /\ PrintT(<<"VFT", ToJson([path |-> h, last |-> x, out |-> out', pre |-> Pre, st |-> St,
                             det |-> ((x.k = "valid" /\ ~(x.cmd \in Orphans /\ h1 # "no")) \/ x.cmd = "frame" \/ ~ver \/ (x.cmd = "version"))])>>)

\* valid messages first: TLC generates the successors of a state in this order, so the retained (shortest)
\* path to every session state consists of messages whose effect the model determines
GNext == \/ \E x \in {y \in Alphabet : y.k = "valid"} : Step(x)
         \/ \E x \in {y \in Alphabet : y.k # "valid"} : Step(x)

GSpec == GInit /\ [][GNext]_gvars

\* the class alphabet, printed once, to be compared with the concretiser's own derivation
ASSUME \A a \in FullAlphabet : PrintT(<<"VFC", ToJson(a)>>)
ASSUME \A c \in CmdSet : PrintT(<<"VFG", ToJson([cmd |-> c, g |-> Grammar(c)])>>)
=============================================================================
