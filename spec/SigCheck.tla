------------------------------ MODULE SigCheck ------------------------------
(***************************************************************************)
(* C03 - which (public key, signature, message) triples are signatures.    *)
(*                                                                         *)
(* TLC has no 256-bit arithmetic, so this module is a DECISION TABLE over  *)
(* input classes plus a small state machine for the library's own signers. *)
(* It is written from the standards the property names, not from the code: *)
(*   SEC 1 v2  2.3.3/2.3.4 (octet string <-> point), 3.2.2.1 (public key   *)
(*             validation), 4.1.3/4.1.4/4.1.6 (ECDSA sign, verify, recover)*)
(*   BIP 66    (strict DER) - only to tell canonical encodings from others *)
(*   BIP 340   (lift_x, verification, default signing)                     *)
(*   BIP 341   (output key = lift_x(p) + t*G, t < n, parity bit)           *)
(*   RFC 6979  (deterministic nonce)                                       *)
(* A class names HOW an input is built (e.g. "the s of a valid signature   *)
(* plus n, as a 33-byte integer"); the harness reference (harness/ref,     *)
(* math/big) builds concrete representatives of each class algebraically   *)
(* and the real library must return the verdict given here.                *)
(*                                                                         *)
(* Verdicts: "accept", "reject", and "either" for encodings about which    *)
(* the property is silent (a valid signature in a non-canonical but        *)
(* readable DER form: consensus reads it laxly, BIP 66 refuses it earlier).*)
(***************************************************************************)
EXTENDS Integers, Sequences, FiniteSets, TLC

CONSTANTS
    Bug,        \* "none", or the name of a deliberately broken rule (the _mc run must then refute an invariant)
    DerSet      \* the DER classes crossed with the ECDSA table (all of DerAll in the thorough tier)

-----------------------------------------------------------------------------
(* Scalars offered as r, s (ECDSA), t (tweak).  n = group order, p = field prime.                                *)
(*   zero 0 | one 1 | mid a generic value in [2, n-3] | nm2 n-2 | nm1 n-1 | n | npk n+k, k small | p | max 2^256-1 *)
(*   b33  v+n >= 2^256 for a generic v: needs 33 bytes                                                            *)
(*   wrap (r only) r = k < p - n where n+k is the abscissa of the nonce point R: SEC 1 4.1.3 takes r = x(R) mod n,  *)
(*        so r = x(R) - n for the (about 2^128 of 2^256) points with x(R) in [n, p); verification must reduce x(R)  *)
(*        modulo n before comparing, and recovery must try x = r + n (recovery id bit 1)                           *)
ScalarClasses == {"zero", "one", "mid", "nm2", "nm1", "n", "npk", "p", "max", "b33"}
RClasses == ScalarClasses \cup {"wrap"}

\* SEC 1 4.1.4 step 1: r, s are integers in [1, n-1]
InRange(c) == IF Bug = "le_n" THEN c \in {"one", "mid", "nm2", "nm1", "n", "wrap"}
              ELSE c \in {"one", "mid", "nm2", "nm1", "wrap"}

\* the class's value is not a multiple of n (so that it has an inverse / is a possible r modulo n)
NonZeroModN(c) == c \notin {"zero", "n"}

\* Facts about secp256k1 (re-checked by the harness reference on every run): is (value mod n) the x coordinate
\* of a curve point?  1 and n-2 are, n-1 is not, p-n is, 2^256-1-n is not; k of "npk" is chosen among {1,2,3,4,6};
\* "mid" and "b33" start from the x coordinate of a random point.  For "wrap" it is n + r that is the abscissa.
RIsAbscissa(c) == c \in {"one", "mid", "nm2", "npk", "p", "b33", "wrap"}

\* its canonical big-endian form has the top bit set (so DER needs a 00 pad; "mid" is drawn that way when needed)
HighBit(c) == c \in {"mid", "nm2", "nm1", "n", "npk", "p", "max"}

-----------------------------------------------------------------------------
(* Public key octet strings (SEC 1 2.3.4; hybrid = X9.62 form 06/07 that also states the parity of y).           *)
PkClasses == {"comp_even", "comp_odd", "uncomp", "hyb_ok",      \* encodings of a curve point
              "hyb_bad",                                        \* hybrid prefix contradicting the parity of y
              "comp_x_ge_p", "uncomp_x_ge_p", "uncomp_y_ge_p",  \* a coordinate c of a curve point written as c+p
              "comp_x_nosqrt",                                  \* x^3+7 is not a square
              "uncomp_offcurve", "hyb_offcurve",                \* y^2 # x^3+7
              "len_short", "len_long", "bad_prefix", "empty"}

PkRule(pk) ==   \* "" = the octet string encodes a public key; otherwise the rule it breaks
    CASE pk \in {"comp_even", "comp_odd", "uncomp", "hyb_ok"} -> ""
      [] pk = "hyb_bad" -> IF Bug = "hybrid" THEN "" ELSE "pk-hybrid-parity"
      [] pk \in {"comp_x_ge_p", "uncomp_x_ge_p", "uncomp_y_ge_p"} -> "pk-coordinate-range"
      [] pk \in {"comp_x_nosqrt", "uncomp_offcurve", "hyb_offcurve"} -> "pk-not-on-curve"
      [] OTHER -> "pk-format"
PkValid(pk) == PkRule(pk) = ""

\* classes whose point has to be CHOSEN (tiny coordinate): r and s then come out of a two-scalar forgery
\* (R = aG + bQ, r = x(R), s = r/b, m = a s) and cannot be prescribed
PkChosen(pk) == pk \in {"comp_x_ge_p", "uncomp_x_ge_p", "uncomp_y_ge_p"}

-----------------------------------------------------------------------------
(* DER classes of the signature octets handed to the verifier.                                                   *)
DerAll == {"strict", "strict_ht",                                   \* canonical; the same followed by a hash-type byte
           "pad_r", "pad_s", "neg", "trail", "longlen", "seqlen",  \* readable, not canonical
           "badtag", "badinttag", "trunc", "zerolen", "empty"}     \* not a signature at all
DerKind(d) == CASE d \in {"strict", "strict_ht"} -> "exact"
                [] d \in {"pad_r", "pad_s", "neg", "trail", "longlen", "seqlen"} -> "lax"
                [] OTHER -> "bad"

-----------------------------------------------------------------------------
(* ECDSA acceptance (SEC 1 4.1.4).  eq = the verification equation holds for (r mod n, s mod n) and the point   *)
(* the key octets were derived from - i.e. what an implementation without range / validity checks would test.   *)
EcdsaCases == [tab : {"ecdsa"}, pk : PkClasses, rc : RClasses, sc : ScalarClasses, eq : BOOLEAN, der : DerSet]

EcdsaConsistent(t) ==
    /\ t.eq => RIsAbscissa(t.rc) /\ NonZeroModN(t.sc)
    /\ t.der = "neg" => HighBit(t.rc) \/ HighBit(t.sc)
    /\ t.der = "zerolen" => t.rc = "zero"          \* an INTEGER of length 0 carries r = 0
    /\ t.pk = "empty" => ~t.eq                     \* nothing to relate the equation to

\* can a representative be built without solving a discrete logarithm?
EcdsaConstructible(t) ==
    (t.eq /\ PkChosen(t.pk)) => t.rc \in {"mid", "b33"} /\ t.sc \in {"mid", "b33"}

EcdsaRules(t) ==    \* the conjuncts of SEC 1 4.1.4 that fail
    (IF PkValid(t.pk) THEN {} ELSE {PkRule(t.pk)})
    \cup (IF InRange(t.rc) THEN {} ELSE {"r-range"})
    \cup (IF InRange(t.sc) THEN {} ELSE {"s-range"})
    \cup (IF t.eq THEN {} ELSE {"equation"})
    \cup (IF DerKind(t.der) = "bad" THEN {"der"} ELSE {})

EcdsaVerdict(t) ==
    IF EcdsaRules(t) # {} THEN "reject"
    ELSE IF DerKind(t.der) = "exact" THEN "accept" ELSE "either"

-----------------------------------------------------------------------------
(* ECDSA public key recovery (SEC 1 4.1.6) from (r, s, e, recid) given as integers.                              *)
(*   recid bit 0 = parity of y(R), bit 1 = x(R) = r + n.  ok = returns the key for which the signature verifies  *)
RecoverCases == [tab : {"recover"}, rc : RClasses \ {"b33"}, sc : ScalarClasses \ {"b33"}, recid : 0..3]
\* "b33" excluded: RecoverPublicKey takes r and s as byte strings of any length - covered by npk / max / p
RecoverOk(t) ==     \* a key comes back
    /\ InRange(t.rc) /\ InRange(t.sc)
    /\ \/ t.recid < 2 /\ t.rc \in {"one", "mid", "nm2"}      \* x(R) = r: r itself is an abscissa
       \/ t.recid >= 2 /\ t.rc = "wrap"                      \* x(R) = r + n < p is an abscissa
\* the other pairing of a small r with the recovery id (r = 1 with x = n+1, a "wrap" r with x = r): a key comes
\* back iff that x happens to be an abscissa - decided by the reference
RecoverHi(t) == InRange(t.sc) /\ ((t.recid >= 2 /\ t.rc = "one") \/ (t.recid < 2 /\ t.rc = "wrap"))
RecoverVerdict(t) == IF RecoverHi(t) THEN "byref" ELSE IF RecoverOk(t) THEN "key" ELSE "none"

-----------------------------------------------------------------------------
(* BIP 340 verification.  pk: x-only key; rc: the first half; sc: the second half; eq: s*G - e*P = R holds      *)
(* (as points, with e computed from the bytes offered) for the signature the representative was derived from.   *)
XoClasses == {"lift_ok", "no_lift", "ge_p"}
SchnorrRClasses == {"even", "odd", "ge_p", "not_x"}     \* R has even y | odd y | r >= p | r < p is no abscissa
SchnorrSClasses == {"mid", "zero", "n", "ge_n"}
SchnorrCases == [tab : {"schnorr"}, pk : XoClasses, rc : SchnorrRClasses, sc : SchnorrSClasses, eq : BOOLEAN]
\* a valid equation needs the secret key of P and a nonce for R: only for an honest key, an honest R, an honest s
SchnorrConsistent(t) == t.eq => t.pk = "lift_ok" /\ t.rc \in {"even", "odd"} /\ t.sc = "mid"
SchnorrRules(t) ==
    (IF t.pk = "lift_ok" THEN {} ELSE {"pk-" \o t.pk})
    \cup (IF t.rc = "ge_p" THEN {"r-range"} ELSE {})
    \cup (IF t.sc \in {"n", "ge_n"} THEN {"s-range"} ELSE {})
    \cup (IF t.rc = "odd" /\ Bug # "oddR" THEN {"R-odd-y"} ELSE {})
    \cup (IF t.eq THEN {} ELSE {"equation"})
SchnorrVerdict(t) == IF SchnorrRules(t) = {} THEN "accept" ELSE "reject"

-----------------------------------------------------------------------------
(* BIP 341 output key check: q = x(lift_x(p) + t*G) and parity bit = y mod 2, t < n, result not infinity.        *)
(*   ik: internal key: liftable | not liftable, with q built the way an implementation that "completes" the key *)
(*       with a bogus y and adds by the chord rule would compute it | x0+p for a tiny liftable x0               *)
(*   tw: the tweak; "cancel" = minus the secret key of the internal key: lift_x(p) + t*G is the point at infinity *)
(*       (p = x(t*G) with t*G of odd y).  BIP 341 needs a Q to compare with, so the check fails for EVERY output  *)
(*       key and both parity bits; the candidates offered are p itself (= x(t*G)), the all-zero key, and "left":  *)
(*       whatever x coordinate ECPublicTweakAdd leaves in the key when it is called on these inputs              *)
IkClasses == {"lift_ok", "no_lift", "ge_p"}
TwClasses == {"zero", "one", "mid", "nm1", "n", "npk", "max", "cancel"}
TweakCases == [tab : {"tweak"}, ik : IkClasses, tw : TwClasses, par : {"right", "wrong"},
               q : {"match", "differ", "self", "zero", "left"}]
TweakConsistent(t) ==
    /\ t.tw = "cancel" => t.ik = "lift_ok" /\ t.q \in {"self", "zero", "left"}    \* there is no x to match;
                                                                                 \* par: "right" = bit 0, "wrong" = bit 1
    /\ t.tw # "cancel" => t.q \in {"match", "differ"}
    /\ t.ik = "no_lift" => t.tw \in {"mid", "npk"}                \* the chord construction needs a generic t
TwInRange(c) == c \in {"zero", "one", "mid", "nm1", "cancel"}
TweakRules(t) ==
    (IF t.ik = "lift_ok" THEN {} ELSE {"ik-" \o t.ik})
    \cup (IF TwInRange(t.tw) THEN {} ELSE {"t-range"})
    \cup (IF t.tw = "cancel" THEN {"infinity"} ELSE {})
    \cup (IF t.par = "right" \/ Bug = "parity" \/ t.tw = "cancel" THEN {} ELSE {"parity"})    \* (no parity to be right about at infinity)
    \cup (IF t.q = "differ" THEN {"q-mismatch"} ELSE {})
TweakVerdict(t) == IF TweakRules(t) = {} THEN "accept" ELSE "reject"

-----------------------------------------------------------------------------
(* Parsers on their own: does the octet string denote a public key / an x-only key?                              *)
ParseCases == [tab : {"parse"}, pk : PkClasses] \cup [tab : {"parsexo"}, pk : XoClasses]
ParseRules(t) == IF t.tab = "parse" THEN (IF PkValid(t.pk) THEN {} ELSE {PkRule(t.pk)})
                 ELSE (IF t.pk = "lift_ok" THEN {} ELSE {"xonly-" \o t.pk})
ParseVerdict(t) == IF ParseRules(t) = {} THEN "accept" ELSE "reject"

(* Signature.IsLowS (s <= (n-1)/2) and Signature.Bytes (canonical DER) on boundary values.                       *)
LowSClasses == {"one", "mid_low", "half", "half1", "mid_high", "nm1"}      \* half = (n-1)/2, half1 = half + 1
LowSCases == [tab : {"lows"}, sc : LowSClasses]
LowSVerdict(t) == IF t.sc \in {"one", "mid_low", "half"} THEN "accept" ELSE "reject"

-----------------------------------------------------------------------------
\* one uniform record shape for every table row (TLC compares records field by field)
Row(tab, pk, rc, sc, eq, der, x1, x2, v, rules, cons) ==
    [tab |-> tab, pk |-> pk, rc |-> rc, sc |-> sc, eq |-> eq, der |-> der, x1 |-> x1, x2 |-> x2,
     v |-> v, rules |-> rules, cons |-> cons]
NoCase == Row("none", "-", "-", "-", FALSE, "-", "-", "-", "-", {}, FALSE)

Rows ==
    {Row("ecdsa", t.pk, t.rc, t.sc, t.eq, t.der, "-", "-", EcdsaVerdict(t), EcdsaRules(t), EcdsaConstructible(t)) :
        t \in {u \in EcdsaCases : EcdsaConsistent(u)}}
    \cup {Row("recover", "-", t.rc, t.sc, FALSE, "-", ToString(t.recid), "-", RecoverVerdict(t), {}, TRUE) : t \in RecoverCases}
    \cup {Row("schnorr", t.pk, t.rc, t.sc, t.eq, "-", "-", "-", SchnorrVerdict(t), SchnorrRules(t), TRUE) :
        t \in {u \in SchnorrCases : SchnorrConsistent(u)}}
    \cup {Row("tweak", t.ik, "-", t.tw, FALSE, "-", t.par, t.q, TweakVerdict(t), TweakRules(t), TRUE) :
        t \in {u \in TweakCases : TweakConsistent(u)}}
    \cup {Row(t.tab, t.pk, "-", "-", FALSE, "-", "-", "-", ParseVerdict(t), ParseRules(t), TRUE) : t \in ParseCases}
    \cup {Row("lows", "-", "-", t.sc, FALSE, "-", "-", "-", LowSVerdict(t), {}, TRUE) : t \in LowSCases}

-----------------------------------------------------------------------------
(* The signers: btc.EcdsaSign with the random nonce ("rand"), with EcdsaSignWithRFC6979 ("rfc"), and            *)
(* secp256k1.SchnorrSign ("bip340").  A behaviour fixes a key class, a message class and an aux class and then  *)
(* signs / observes; the current signature may be tampered with (one bit of the message, r, s or the key).       *)
Kinds == {"rand", "rfc", "bip340"}
KeyClasses == {"one", "two", "mid_even", "mid_odd", "high", "nm1"}  \* secret keys; even/odd = parity of y(d*G)
MsgClasses == {"zero", "mid", "nm1", "n", "max"}                    \* the 32-byte message as an integer
AuxClasses == {"zero", "mid", "max"}                                \* BIP 340 auxiliary randomness
Tampers == {"msg", "r", "s", "key"}

VARIABLES
    c,          \* table part: the row picked (NoCase before)
    kc, mc, ac, \* signer part: the classes of this behaviour ("-" while unused)
    cur,        \* kind of the current signature, "none" before the first Sign
    prev,       \* kind of the signature made before the current one ("none" if there was none)
    tam         \* what has been tampered with since the last Sign ("" = nothing)

vars == <<c, kc, mc, ac, cur, prev, tam>>

Init == /\ c = NoCase
        /\ kc = "-" /\ mc = "-" /\ ac = "-"
        /\ cur = "none" /\ prev = "none" /\ tam = ""

Pick == /\ c = NoCase /\ kc = "-"
        /\ c' \in Rows
        /\ UNCHANGED <<kc, mc, ac, cur, prev, tam>>

Begin == /\ c = NoCase /\ kc = "-"
         /\ kc' \in KeyClasses /\ mc' \in MsgClasses /\ ac' \in AuxClasses
         /\ UNCHANGED <<c, cur, prev, tam>>

Sign(k) == /\ kc # "-"
           /\ (k # "bip340" => ac = "zero")        \* aux is an input of BIP 340 signing only
           /\ cur' = k /\ prev' = cur /\ tam' = ""
           /\ UNCHANGED <<c, kc, mc, ac>>

\* verify, recover, re-encode, sign again: none of them changes the signature
Observe == /\ cur # "none"
           /\ UNCHANGED vars

Tamper(w) == /\ cur # "none" /\ tam = ""
             /\ tam' = w
             /\ UNCHANGED <<c, kc, mc, ac, cur, prev>>

Next == Pick \/ Begin \/ (\E k \in Kinds : Sign(k)) \/ Observe \/ (\E w \in Tampers : Tamper(w))
Spec == Init /\ [][Next]_vars

\* What the property promises about the current signature
Deterministic(k) == k \in {"rfc", "bip340"}
Promise ==
    [verifies  |-> (tam = "" \/ Bug = "tamper"),    \* an own signature verifies; a tampered one does not
     lowS      |-> cur \in {"rand", "rfc"},         \* ECDSA: s <= (n-1)/2
     strictDer |-> cur \in {"rand", "rfc"},         \* ECDSA: Signature.Bytes is canonical DER
     equalsRef |-> Deterministic(cur),              \* bytes equal the RFC 6979 / BIP 340 reference output
     recovers  |-> cur \in {"rand", "rfc"}]         \* ECDSA: recovery with the right id returns the signer's key

-----------------------------------------------------------------------------
(* Sanity of the tables (the _mc run); each is refuted under the matching Bug.                                   *)
TypeOK == /\ c.tab \in {"none", "ecdsa", "recover", "schnorr", "tweak", "parse", "parsexo", "lows"}
          /\ c.v \in {"-", "accept", "reject", "either", "key", "none", "byref"}
          /\ cur \in Kinds \cup {"none"} /\ prev \in Kinds \cup {"none"} /\ tam \in Tampers \cup {""}

\* accepted rows break no rule; rows that break a rule are refused
AcceptIffNoRule == c # NoCase /\ c.tab \in {"ecdsa", "schnorr", "tweak", "parse", "parsexo"} => (c.v = "reject" <=> c.rules # {})

\* SEC 1: the multiples of n (0 and n itself) and everything above are never an acceptable r or s
RangeExact == c.tab = "ecdsa" /\ c.v # "reject" =>
                  c.rc \in {"one", "mid", "nm2", "wrap"} /\ c.sc \in {"one", "mid", "nm2", "nm1"}

\* a valid signature whose nonce point has x(R) >= n is a valid signature (accepted in every canonical encoding)
WrapAccepted == \A pk \in {"comp_even", "comp_odd", "uncomp", "hyb_ok"}, sc \in {"one", "mid", "nm2", "nm1"}, d \in {"strict", "strict_ht"} \cap DerSet :
                    EcdsaVerdict([tab |-> "ecdsa", pk |-> pk, rc |-> "wrap", sc |-> sc, eq |-> TRUE, der |-> d]) = "accept"

\* a key octet string is accepted by the verifier iff the parser row for the same class accepts it
KeyRuleUniform == c.tab = "ecdsa" /\ c.v # "reject" => ParseVerdict([tab |-> "parse", pk |-> c.pk]) = "accept"

\* octet strings that are not one of the four encodings of a curve point are refused, by the verifier and by the parser
InvalidKeysRefused == c.tab \in {"ecdsa", "parse"} /\ c.pk \notin {"comp_even", "comp_odd", "uncomp", "hyb_ok"} => c.v = "reject"

\* "either" only for a valid signature in a readable, non-canonical encoding
EitherOnlyLax == c.tab = "ecdsa" /\ c.v = "either" => DerKind(c.der) = "lax"

\* BIP 340 / BIP 341: exactly one accepted row shape
SchnorrExact == c.tab = "schnorr" /\ c.v = "accept" => c.pk = "lift_ok" /\ c.rc = "even" /\ c.sc = "mid" /\ c.eq
\* when the sum is the point at infinity nothing is accepted, whatever output key and parity bit are offered
InfinityRefused == c.tab = "tweak" /\ c.sc = "cancel" => c.v = "reject" /\ "infinity" \in c.rules
TweakExact == c.tab = "tweak" /\ c.v = "accept" => c.pk = "lift_ok" /\ c.x1 = "right" /\ c.x2 = "match" /\ c.sc \in {"zero", "one", "mid", "nm1"}

\* recovery returns a key only for r, s in [1, n-1]
RecoverExact == c.tab = "recover" /\ c.v = "key" => c.rc \in {"one", "mid", "nm2", "wrap"} /\ c.sc \in {"one", "mid", "nm2", "nm1"}

\* a tampered signature is never promised to verify; deterministic kinds are promised to equal the reference
TamperRefused == tam # "" => ~Promise.verifies
=============================================================================
