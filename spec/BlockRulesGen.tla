---------------------------- MODULE BlockRulesGen ----------------------------
(* G->R export for BlockRules: the decision table.  One line per distinct   *)
(* (context, descriptor) with the verdict of the rules and the numbers the  *)
(* classes stand for in that context ("VFT"); the contexts ("VFC"); the     *)
(* compact-encoding classes ("VFB").  State export: the printing invariant  *)
(* is evaluated once per distinct state (run with -workers 1).              *)
EXTENDS BlockRules, Json

SetToSeq(S) == LET RECURSIVE F(_) F(s) == IF s = {} THEN <<>> ELSE LET x == CHOOSE y \in s : TRUE IN <<x>> \o F(s \ {x}) IN F(S)

CtxExport(id) == LET c == Ctx(id) IN
    [id |-> Name(id), net |-> c.net, P |-> c.P, segs |-> c.segs,
     tail |-> [i \in 1..Len(c.tail) |-> [t |-> c.tail[i], bits |-> c.tb[i]]],
     act |-> [b34 |-> c.act["b34"], b66 |-> c.act["b66"], b65 |-> c.act["b65"], csv |-> c.act["csv"], sw |-> c.act["sw"]],
     txs |-> c.txs, mtp |-> c.mtp]

ASSUME \A id \in DOMAIN CtxTab : PrintT(<<"VFC", ToJson(CtxExport(id))>>)
ASSUME \A e \in CExps : \A m \in CMants : PrintT(<<"VFB", ToJson(CompactClass(e, m))>>)

EmitInv ==
    LET c == Ctx(cid) IN
    PrintT(<<"VFT", ToJson([c |-> Name(cid), base |-> bid, devs |-> SetToSeq(devs), d |-> d,
                            r |-> [time |-> TimeVal(c, d), lock |-> LockVal(c, d), bits |-> BitsTerm(c, d),
                                   req |-> ReqBits(c, d), mtp |-> MTP(c)],
                            ok |-> Valid(c, d), either |-> Either(c, d), viol |-> SetToSeq(Violations(c, d))])>>)
=============================================================================
