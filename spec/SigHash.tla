------------------------------ MODULE SigHash ------------------------------
(***************************************************************************)
(* Signature hashes of Bitcoin: what a signature commits to.               *)
(*                                                                         *)
(* PART 1 - the PREIMAGE.  The digest is a pure function, and SHA-256 is   *)
(* not modelled; the specification therefore defines the LAYOUT of the     *)
(* hashed message: Preimage(q) is a sequence of field descriptors (which   *)
(* transaction field, which input / output, which nested hash, which       *)
(* constant) - or "one" (the constant uint256 1 of the original            *)
(* SIGHASH_SINGLE bug) - or "undefined" (BIP341 defines no digest: the     *)
(* signature check must fail).  Written from                               *)
(*   - the original algorithm (Bitcoin Core SignatureHash, SIGVERSION_BASE *)
(*     with CTransactionSignatureSerializer; EvalScript OP_CHECKSIG:       *)
(*     scriptCode from the last executed OP_CODESEPARATOR, FindAndDelete   *)
(*     of the signature push, removal of every OP_CODESEPARATOR),          *)
(*   - BIP143 (segwit v0),                                                 *)
(*   - BIP341 "Common signature message" + BIP342 "Signature validation    *)
(*     rules" (extension: tapleaf hash, key_version, codesep_pos),         *)
(* i.e. what Bitcoin REQUIRES, not lib/btc/tx.go / taproot.go.             *)
(*                                                                         *)
(* A script is a sequence of opcode TOKENS (one token = one opcode, which  *)
(* is the unit BIP342 counts codesep_pos in).  The scripts of the model    *)
(* hold exactly one signature check (OP_CHECKSIG, or a 1-of-1              *)
(* OP_CHECKMULTISIG before tapscript); which OP_CODESEPARATORs were        *)
(* executed before it follows from the tokens (an OP_CODESEPARATOR inside  *)
(* OP_0 OP_IF .. OP_ENDIF is not executed).  The P2WPKH form of BIP143     *)
(* has the implied scriptCode DUP HASH160 <hash> EQUALVERIFY CHECKSIG.     *)
(*                                                                         *)
(* PART 2 - the CACHE state machine of lib/btc (TxVerVars): the lazily     *)
(* filled hashPrevouts / hashSequence / hashOutputs (BIP143) and           *)
(* tapSingleHashes / tapOutSingleHash (BIP341) under hashLock, one action  *)
(* per step of Tx.WitnessSigHash / Tx.TaprootSigHash / Tx.SignatureHash,   *)
(* requests from 1..NThreads threads in any order.  Property               *)
(* CacheTransparent: every result equals the uncached Preimage.            *)
(***************************************************************************)
EXTENDS Integers, Sequences, FiniteSets, TLC

CONSTANTS
    Modes,          \* subset of {"legacy", "bip143", "bip341"} enumerated by PNext
    NIns, NOuts,    \* sets: numbers of inputs (>= 1) and outputs (>= 0) of the transaction shapes
    HT1,            \* one-byte hash types tried for legacy / BIP143 (subset of 0..255)
    HT4Lo, HT4Hi,   \* four-byte hash types lo + 256*hi (hi in 1..2^24-1) tried for legacy / BIP143
    TapHTKey,       \* hash-type bytes tried for taproot key-path spends (subset of 0..255)
    TapHTScript,    \* hash-type bytes tried for tapscript spends
    MaxSep,         \* scripts hold 0..MaxSep OP_CODESEPARATORs
    WithUCS,        \* TRUE: an OP_CODESEPARATOR may sit in an unexecuted branch
    WithSig,        \* TRUE: legacy scripts may embed a push of the signature itself (FindAndDelete)
    WithLong,       \* TRUE: legacy scripts embedding the signature are also tried with a signature of 76 bytes or more
    MDepths,        \* lengths of the Merkle path of script-path spends (0 = single-leaf tree; at most 128)
    WithMulti,      \* TRUE: legacy / BIP143 scripts may check the signature with a 1-of-1 OP_CHECKMULTISIG
    Bug,            \* "none" = the rules; other values = deliberately broken rules that TLC must refute
    \* ---- cache machine
    CNIn, CNOut,    \* shape of the one transaction object
    CIdx,           \* the inputs whose digests are requested (subset of 0..CNIn-1)
    CModes,         \* modes of the requests
    CHT,            \* hash-type bytes of the requests
    NThreads,       \* 1..2
    MaxReq          \* requests completed in a behaviour
ASSUME NIns \subseteq (1..8) /\ NOuts \subseteq (0..8) /\ HT1 \subseteq (0..255)
ASSUME TapHTKey \subseteq (0..255) /\ TapHTScript \subseteq (0..255) /\ MaxSep \in 0..2

(***************************************************************************)
(* Field descriptors.  One uniform record shape (TLC compares records      *)
(* field by field): k kind, n number, of nested descriptors, t tokens.     *)
(*                                                                         *)
(*  kind           bytes the harness serialises                            *)
(*  version        nVersion, 4 bytes LE              locktime: nLockTime   *)
(*  count n        CompactSize(n)                                          *)
(*  outpoint n     prevout of input n: 32-byte txid + 4-byte index         *)
(*  sequence n     nSequence of input n, 4 bytes LE                        *)
(*  zeroseq        00 00 00 00 (a sequence number blanked by NONE/SINGLE)  *)
(*  txout n        output n: 8-byte amount + CompactSize + scriptPubKey    *)
(*  blankout       CTxOut(): amount -1 (ff x 8) + empty script (00)        *)
(*  varscript t    CompactSize(length) + the script made of tokens t       *)
(*  amount         value of the output spent by THIS input (BIP143), 8 LE  *)
(*  spentamount n  value of the output spent by input n (BIP341), 8 LE     *)
(*  spentscript n  CompactSize + scriptPubKey of the output spent by n     *)
(*  hashtype32 t   t = <<lo, hi>>: the hash type lo + 256*hi as 4 bytes LE *)
(*  hashtype8 n    the hash-type byte (BIP341 hash_type)                   *)
(*  epoch          00            keyver n: key_version byte (00)           *)
(*  spendtype n    one byte ext_flag*2 + annex_present                     *)
(*  inpos n        input index, 4 bytes LE                                 *)
(*  codesep n      codesep_pos, 4 bytes LE; n = -1 stands for 0xFFFFFFFF   *)
(*                 (TLC integers are 32-bit signed)                        *)
(*  leafver n      leaf version byte (0xc0)                                *)
(*  varannex       CompactSize(length) + annex (first byte 0x50 included)  *)
(*  zerohash       32 zero bytes                                           *)
(*  dsha of        SHA256(SHA256(concatenation of `of`))                   *)
(*  sha of         SHA256(concatenation of `of`)                           *)
(*  tagged_X of    BIP340 tagged hash with tag X                           *)
(***************************************************************************)
F(k)      == [k |-> k, n |-> 0, of |-> <<>>, t |-> <<>>]
FN(k, n)  == [k |-> k, n |-> n, of |-> <<>>, t |-> <<>>]
FH(k, of) == [k |-> k, n |-> 0, of |-> of,   t |-> <<>>]
FT(k, t)  == [k |-> k, n |-> 0, of |-> <<>>, t |-> t]

RECURSIVE Flat(_)
Flat(ss) == IF Len(ss) = 0 THEN <<>> ELSE Head(ss) \o Flat(Tail(ss))
Range(s) == {s[i] : i \in DOMAIN s}
\* <<g(0), ..., g(n-1)>> for inputs / outputs numbered from 0 as in the transaction
Each(n, g(_)) == [j \in 1..n |-> g(j - 1)]

RECURSIVE Leaves(_)
Leaves(fs) == UNION {IF Len(f.of) = 0 THEN {f} ELSE Leaves(f.of) : f \in Range(fs)}

(***************************************************************************)
(* Script tokens: the opcode value for plain opcodes, PSIG / PPK / PPKH /   *)
(* PDATA for the canonical push of the signature being checked / of the    *)
(* public key / of its HASH160 / of some bytes, 2000+i for an opaque run   *)
(* of non-OP_CODESEPARATOR opcodes (function-level cases).                 *)
(***************************************************************************)
OP0 == 0   OP1 == 81   IFOP == 99   ENDIF == 104   DROP == 117   DUP == 118   EQUALVERIFY == 136
HASH160 == 169   CS == 171   CHK == 172   CHKMS == 174   CHKADD == 186
PSIG == 1000   PPK == 1001   PPKH == 1002      \* PPKH: push of HASH160(public key)
PDATA == 1003                                  \* push of some bytes: ONE opcode, several bytes

\* macro items the scripts are composed of
ItemToks(i) == CASE i = "K" -> <<PPK, CHK>>                \* <pubkey> OP_CHECKSIG (signature below the key)
                 [] i = "M" -> <<OP1, PPK, OP1, CHKMS>>    \* 1 <pubkey> 1 OP_CHECKMULTISIG (dummy and signature below)
                 [] i = "A" -> <<OP0, PPK, CHKADD>>        \* 0 <pubkey> OP_CHECKSIGADD (tapscript; signature below)
                 [] i = "C" -> <<CS>>                      \* executed OP_CODESEPARATOR
                 [] i = "U" -> <<OP0, IFOP, CS, ENDIF>>    \* OP_CODESEPARATOR in a branch not taken
                 [] i = "S" -> <<PSIG>>                    \* the signature pushed by the script itself, used by K / M
                 [] i = "D" -> <<PSIG, DROP>>              \* a copy of the signature pushed and dropped
Count(s, x) == Cardinality({i \in DOMAIN s : s[i] = x})
Pos(s, x)   == CHOOSE i \in DOMAIN s : s[i] = x
ItemSeqs(sigs, multi) ==
    {s \in UNION {[1..n -> {"K", "M", "C", "U", "S", "D"}] : n \in 1..4} :
        /\ Count(s, "K") + Count(s, "M") = 1
        /\ (~(multi /\ WithMulti) => Count(s, "M") = 0)
        /\ Count(s, "C") + Count(s, "U") <= MaxSep
        /\ (~WithUCS => Count(s, "U") = 0)
        /\ Count(s, "S") + Count(s, "D") <= (IF sigs /\ WithSig THEN 1 ELSE 0)
        /\ (Count(s, "S") = 1 => \A i \in DOMAIN s : s[i] \in {"K", "M"} => Pos(s, "S") < i)}
Scripts(sigs, multi) == {Flat([i \in DOMAIN s |-> ItemToks(s[i])]) : s \in ItemSeqs(sigs, multi)}
P2wpkhCode == <<DUP, HASH160, PPKH, EQUALVERIFY, CHK>>
\* tapscripts also with a data push in front, so that opcode positions and byte offsets differ (BIP342 counts opcodes)
\* ... and with OP_CHECKSIGADD in the place of OP_CHECKSIG
TapScripts == Scripts(FALSE, FALSE) \cup {<<PDATA, DROP>> \o s : s \in Scripts(FALSE, FALSE)}
              \cup {Flat([i \in DOMAIN s |-> ItemToks(IF s[i] = "K" THEN "A" ELSE s[i])]) : s \in ItemSeqs(FALSE, FALSE)}

(***************************************************************************)
(* The interpreter's part (EvalScript, OP_CHECKSIG / BIP342 execution).    *)
(***************************************************************************)
ChkPos(s) == CHOOSE i \in DOMAIN s : s[i] \in {CHK, CHKMS, CHKADD}      \* the one signature-checking opcode
\* every OP_IF of these scripts consumes OP_0: tokens up to the matching OP_ENDIF are not executed
NotExecuted(s, p) == \E q \in 1..(p - 1) : s[q] = IFOP /\ \A r \in (q + 1)..(p - 1) : s[r] # ENDIF
ExecutedSeps(s)   == {p \in DOMAIN s : s[p] = CS /\ ~NotExecuted(s, p) /\ p < ChkPos(s)}
LastSep(s)        == IF ExecutedSeps(s) = {} THEN 0 ELSE CHOOSE p \in ExecutedSeps(s) : \A r \in ExecutedSeps(s) : r <= p
\* "the script from the most recently executed OP_CODESEPARATOR to the end"
SubScript(s)      == SubSeq(s, LastSep(s) + 1, Len(s))
\* FindAndDelete(scriptCode, CScript() << vchSig): every push of the signature disappears (legacy only)
FindAndDelete(s)  == SelectSeq(s, LAMBDA x : x # PSIG)
\* what OP_CHECKSIG hands to the digest function
CodeArg(mode, s)  == IF mode = "legacy" THEN FindAndDelete(SubScript(s)) ELSE SubScript(s)
\* BIP342: opcode position of the last executed OP_CODESEPARATOR, first opcode = 0, none = 0xFFFFFFFF
CodeSepPos(s)     == IF LastSep(s) = 0 THEN -1 ELSE LastSep(s) - 1
\* the signature comes from scriptSig / witness unless the script itself pushes and keeps it
FeedSig(s)        == \A p \in DOMAIN s : s[p] = PSIG => (p < Len(s) /\ s[p + 1] = DROP)

(***************************************************************************)
(* The digest functions.  q: [mode, nin, nout, idx, ht = <<lo, hi>>,       *)
(* script, annex, path, x0]; code: the scriptCode argument.                *)
(***************************************************************************)
Digest(how, fs) == [def |-> "digest", how |-> how, fields |-> fs]
One             == [def |-> "one", how |-> "", fields |-> <<>>]
Undefined       == [def |-> "undefined", how |-> "", fields |-> <<>>]

Lo(q)   == q.ht[1]
Acp(q)  == Lo(q) >= 128                 \* SIGHASH_ANYONECANPAY = 0x80; only the low byte is examined
Base(q) == Lo(q) % 32                   \* nHashType & 0x1f  (legacy and BIP143)
StripSeps(code) == SelectSeq(code, LAMBDA x : x # CS)

\* ---- original algorithm
LegacyInput(q, code, j) ==
    << FN("outpoint", j),
       IF j = q.idx THEN FT("varscript", StripSeps(code)) ELSE FT("varscript", <<>>),
       IF j # q.idx /\ Base(q) \in {2, 3} /\ Bug # "no_seq_zero" THEN F("zeroseq") ELSE FN("sequence", j) >>
Legacy(q, code) ==
    IF Base(q) = 3 /\ q.idx >= q.nout THEN One
    ELSE Digest("dsha",
        <<F("version")>>
        \o (IF Acp(q) /\ Bug # "acp_all_inputs"
              THEN <<FN("count", 1)>> \o LegacyInput(q, code, q.idx)
              ELSE <<FN("count", q.nin)>> \o Flat(Each(q.nin, LAMBDA j : LegacyInput(q, code, j))))
        \o (IF Base(q) = 2 /\ Bug # "none_keeps_outputs" THEN <<FN("count", 0)>>
            ELSE IF Base(q) = 3
              THEN <<FN("count", q.idx + 1)>> \o Each(q.idx, LAMBDA j : F("blankout")) \o <<FN("txout", q.idx)>>
              ELSE <<FN("count", q.nout)>> \o Each(q.nout, LAMBDA j : FN("txout", j)))
        \o <<F("locktime"), FT("hashtype32", q.ht)>>)

\* ---- BIP143
HashPrevouts(q) == FH("dsha", Each(q.nin, LAMBDA j : FN("outpoint", j)))
HashSequence(q) == FH("dsha", Each(q.nin, LAMBDA j : FN("sequence", j)))
HashOutputs(q)  == FH("dsha", Each(q.nout, LAMBDA j : FN("txout", j)))
HashSingle(q)   == FH("dsha", <<FN("txout", q.idx)>>)
W_prevouts(q) == IF ~Acp(q) \/ Bug = "acp_all_inputs" THEN HashPrevouts(q) ELSE F("zerohash")
W_sequence(q) == IF ~Acp(q) /\ Base(q) \notin {2, 3} THEN HashSequence(q) ELSE F("zerohash")
W_outputs(q)  == IF Base(q) \notin {2, 3} \/ (Bug = "none_keeps_outputs" /\ Base(q) = 2) THEN HashOutputs(q)
                 ELSE IF Base(q) = 3 /\ q.idx < q.nout THEN HashSingle(q)
                 ELSE F("zerohash")
W_fields(q, code, hp, hs, ho) ==
    << F("version"), hp, hs, FN("outpoint", q.idx), FT("varscript", code), F("amount"),
       FN("sequence", q.idx), ho, F("locktime"), FT("hashtype32", q.ht) >>
Bip143(q, code) == Digest("dsha", W_fields(q, code, W_prevouts(q), W_sequence(q), W_outputs(q)))

\* ---- BIP341 / BIP342
TapValid == {0, 1, 2, 3, 129, 130, 131}
TapOut(q) == Lo(q) % 4                   \* hash_type & 3: 0 (DEFAULT) and 1 = ALL, 2 = NONE, 3 = SINGLE
TapDefined(q) == /\ ~q.x0                 \* a 65-byte signature must not carry hash type 0x00
                 /\ Lo(q) \in TapValid /\ q.ht[2] = 0
                 /\ (TapOut(q) = 3 => q.idx < q.nout)
ShaPrevouts(q)  == FH("sha", Each(q.nin, LAMBDA j : FN("outpoint", j)))
ShaAmounts(q)   == FH("sha", Each(q.nin, LAMBDA j : FN("spentamount", j)))
ShaScripts(q)   == FH("sha", Each(q.nin, LAMBDA j : FN("spentscript", j)))
ShaSequences(q) == FH("sha", Each(q.nin, LAMBDA j : FN("sequence", j)))
ShaOutputs(q)   == FH("sha", Each(q.nout, LAMBDA j : FN("txout", j)))
TapSingles(q)   == <<ShaPrevouts(q), ShaAmounts(q), ShaScripts(q), ShaSequences(q)>>
TapLeaf(q)      == FH("tagged_TapLeaf", <<FN("leafver", 192), FT("varscript", q.script)>>)
T_fields(q, singles, outs) ==
    << F("epoch"), FN("hashtype8", Lo(q)), F("version"), F("locktime") >>
    \o singles \o outs
    \o << FN("spendtype", (IF q.path = "script" THEN 2 ELSE 0) + (IF q.annex THEN 1 ELSE 0)) >>
    \o (IF Acp(q) THEN <<FN("outpoint", q.idx), FN("spentamount", q.idx), FN("spentscript", q.idx), FN("sequence", q.idx)>>
                  ELSE <<FN("inpos", q.idx)>>)
    \o (IF q.annex THEN <<FH("sha", <<F("varannex")>>)>> ELSE <<>>)
    \o (IF TapOut(q) = 3 THEN <<FH("sha", <<FN("txout", q.idx)>>)>> ELSE <<>>)
    \o (IF q.path = "script" THEN <<TapLeaf(q), FN("keyver", 0), FN("codesep", CodeSepPos(q.script))>> ELSE <<>>)
T_singles(q) == IF ~Acp(q) \/ Bug = "acp_all_inputs" THEN TapSingles(q) ELSE <<>>
T_outs(q)    == IF TapOut(q) \notin {2, 3} \/ (Bug = "none_keeps_outputs" /\ TapOut(q) = 2) THEN <<ShaOutputs(q)>> ELSE <<>>
Bip341(q) == IF ~TapDefined(q) THEN Undefined
             ELSE Digest("tagged_TapSighash", T_fields(q, T_singles(q), T_outs(q)))

\* function level: the scriptCode is an argument; interpreter level: it follows from the script
PreimageCode(q, code) == CASE q.mode = "legacy" -> Legacy(q, code)
                           [] q.mode = "bip143" -> Bip143(q, code)
                           [] q.mode = "bip341" -> Bip341(q)
Preimage(q) == PreimageCode(q, CodeArg(q.mode, q.script))

(***************************************************************************)
(* Enumeration of the cases (state = one case)                             *)
(***************************************************************************)
VARIABLES c,                         \* part 1: the case being looked at
          slot, lock, pc, cur, loc,  \* part 2: cache slots, hashLock, per-thread control / request / locals
          ndone, last                \* completed requests; the last completed one: [t, req, same: result = uncached Preimage]
pvars == <<c>>
cvars == <<slot, lock, pc, cur, loc, ndone, last>>
vars  == <<c, slot, lock, pc, cur, loc, ndone, last>>

NoCase == [q |-> [mode |-> "none"]]
Q(m, nin, nout, idx, ht, s, annex, path, x0) ==
    [mode |-> m, nin |-> nin, nout |-> nout, idx |-> idx, ht |-> ht, script |-> s, annex |-> annex, path |-> path, x0 |-> x0,
     long |-> FALSE, mp |-> [n |-> 0, side |-> 0]]
\* long: the signature is a zero-padded (pre-BIP66, non-strict DER) encoding of 76..255 bytes, so the push that
\* FindAndDelete looks for, CScript() << vchSig, is an OP_PUSHDATA1 push.  Same Preimage: PSIG is "the push of the
\* signature" whatever its length.  Enumerated for legacy scripts that embed the signature.
Long(q) == [q EXCEPT !.long = TRUE]
\* mp: position of the leaf in the taproot script tree: n = length of the Merkle path in the control block, side = how
\* the running hash compares with the sibling at each level (BIP341: the lexicographically smaller one is hashed first):
\* 0 always smaller, 1 always larger, 2 / 3 alternating starting smaller / larger.  The Preimage does not depend on it:
\* tapleaf_hash in the BIP342 extension is the hash of the LEAF (version, script) wherever the leaf sits in the tree.
MerklePaths == {[n |-> n, side |-> sd] : n \in MDepths, sd \in 0..3} \ 
               ({[n |-> 0, side |-> sd] : sd \in 1..3} \cup {[n |-> 1, side |-> sd] : sd \in 2..3}
                \cup {[n |-> n, side |-> sd] : n \in MDepths \ {0, 1, 2}, sd \in 0..1})
Case(q) == [q |-> q, code |-> CodeArg(q.mode, q.script), feed |-> FeedSig(q.script),
            csp |-> CodeSepPos(q.script), pre |-> Preimage(q)]

OldHTs == {<<l, 0>> : l \in HT1} \cup {<<l, h>> : l \in HT4Lo, h \in HT4Hi}
KeyScript == <<PPK, CHK>>

PCases ==
    \E nin \in NIns, nout \in NOuts : \E idx \in 0..(nin - 1) :
       \/ "legacy" \in Modes /\ \E ht \in OldHTs, s \in Scripts(TRUE, TRUE), long \in BOOLEAN :
              /\ long => (PSIG \in Range(s) /\ WithLong)
              /\ c' = Case(IF long THEN Long(Q("legacy", nin, nout, idx, ht, s, FALSE, "bare", FALSE))
                                   ELSE Q("legacy", nin, nout, idx, ht, s, FALSE, "bare", FALSE))
       \/ "bip143" \in Modes /\ \E ht \in OldHTs, s \in Scripts(FALSE, TRUE) :
              c' = Case(Q("bip143", nin, nout, idx, ht, s, FALSE, "p2wsh", FALSE))
       \/ "bip143" \in Modes /\ \E ht \in OldHTs :
              c' = Case(Q("bip143", nin, nout, idx, ht, P2wpkhCode, FALSE, "p2wpkh", FALSE))
       \/ "bip341" \in Modes /\ \E lo \in TapHTKey, annex \in BOOLEAN, x0 \in BOOLEAN : (x0 => lo = 0) /\
              c' = Case(Q("bip341", nin, nout, idx, <<lo, 0>>, KeyScript, annex, "key", x0))
       \/ "bip341" \in Modes /\ \E lo \in TapHTScript, annex \in BOOLEAN, x0 \in BOOLEAN, s \in TapScripts, mp \in MerklePaths :
              /\ x0 => lo = 0
              /\ mp.n > 0 => (lo \in TapValid /\ ~x0)        \* trees with several leaves: for every defined hash type
              /\ c' = Case([Q("bip341", nin, nout, idx, <<lo, 0>>, s, annex, "script", x0) EXCEPT !.mp = mp])

PInit == c = NoCase
PNext == c = NoCase /\ PCases /\ UNCHANGED cvars

(***************************************************************************)
(* What the SIGHASH flags mean - checked on every enumerated case.         *)
(***************************************************************************)
IsCase == c.q.mode # "none"
Defd   == IsCase /\ c.pre.def = "digest"
Lv     == Leaves(c.pre.fields)
Old    == c.q.mode \in {"legacy", "bip143"}
CAcp   == Acp(c.q)
\* which outputs mode: "all", "none", "single"
OutMode == IF Old THEN (IF Base(c.q) = 2 THEN "none" ELSE IF Base(c.q) = 3 THEN "single" ELSE "all")
           ELSE (IF TapOut(c.q) = 2 THEN "none" ELSE IF TapOut(c.q) = 3 THEN "single" ELSE "all")
Ins  == 0..(c.q.nin - 1)
Outs == 0..(c.q.nout - 1)

DefinedExactly == IsCase =>
    /\ (c.pre.def = "undefined") = (c.q.mode = "bip341" /\ (c.q.x0 \/ Lo(c.q) \notin TapValid \/ (Lo(c.q) % 4 = 3 /\ c.q.idx >= c.q.nout)))
    /\ (c.pre.def = "one") = (c.q.mode = "legacy" /\ Lo(c.q) % 32 = 3 /\ c.q.idx >= c.q.nout)
CommitsHashType == Defd =>
    IF Old THEN c.pre.fields[Len(c.pre.fields)] = FT("hashtype32", c.q.ht)
           ELSE c.pre.fields[1] = F("epoch") /\ c.pre.fields[2] = FN("hashtype8", Lo(c.q))
CommitsOwnInput == Defd =>
    /\ FN("outpoint", c.q.idx) \in Lv
    /\ FN("sequence", c.q.idx) \in Lv
    /\ (c.q.mode = "bip143" => F("amount") \in Lv)
    /\ (c.q.mode = "bip341" => FN("spentamount", c.q.idx) \in Lv /\ FN("spentscript", c.q.idx) \in Lv)
    /\ (c.q.mode = "bip341" /\ ~CAcp => FN("inpos", c.q.idx) \in Lv)
AnyoneCanPayOnlyOwnInput == Defd /\ CAcp =>
    \A f \in Lv : f.k \in {"outpoint", "sequence", "spentamount", "spentscript"} => f.n = c.q.idx
OtherInputsCommitted == Defd /\ ~CAcp =>
    /\ \A j \in Ins : FN("outpoint", j) \in Lv
    /\ (c.q.mode = "bip341" => \A j \in Ins : FN("spentamount", j) \in Lv /\ FN("spentscript", j) \in Lv /\ FN("sequence", j) \in Lv)
    /\ (Old /\ OutMode = "all" => \A j \in Ins : FN("sequence", j) \in Lv)
    /\ (Old /\ OutMode # "all" => \A j \in Ins \ {c.q.idx} : FN("sequence", j) \notin Lv)
OutputsCommitted == Defd =>
    {f.n : f \in {g \in Lv : g.k = "txout"}} =
        (CASE OutMode = "all" -> Outs [] OutMode = "none" -> {} [] OutMode = "single" -> {c.q.idx} \cap Outs)   \* BIP143: SINGLE without a matching output commits to none
ScriptCommitted == Defd =>
    /\ (c.q.mode = "legacy" => \E f \in Lv : f.k = "varscript" /\ f.t = StripSeps(FindAndDelete(SubScript(c.q.script))))
    /\ (c.q.mode = "bip143" => FT("varscript", SubScript(c.q.script)) \in Lv)
    /\ (c.q.mode = "legacy" => \A f \in Lv : f.k = "varscript" => CS \notin Range(f.t) /\ PSIG \notin Range(f.t))
    /\ (c.q.mode = "bip341" /\ c.q.path = "script" =>
            LET n == Len(c.pre.fields) IN
            /\ c.pre.fields[n] = FN("codesep", CodeSepPos(c.q.script)) /\ c.pre.fields[n - 1] = FN("keyver", 0)
            /\ c.pre.fields[n - 2] = TapLeaf(c.q))
    /\ (c.q.mode = "bip341" => FN("spendtype", (IF c.q.path = "script" THEN 2 ELSE 0) + (IF c.q.annex THEN 1 ELSE 0)) \in Lv)
    /\ (c.q.mode = "bip341" => (c.q.annex = (F("varannex") \in Lv)))

(***************************************************************************)
(* PART 2: the cache machine.  One transaction object of shape CNIn x      *)
(* CNOut.  A request r = [mode, idx, lo].  Slots hold descriptors; Nil =   *)
(* nil pointer; a slot that was allocated (new([32]byte)) but not yet      *)
(* filled holds zero bytes - invisible to other threads only because of    *)
(* hashLock.                                                               *)
(***************************************************************************)
Threads  == 1..NThreads
Nil      == F("nil")
Zero     == F("zerohash")
Zero4    == FH("tapsingles", <<Zero, Zero, Zero, Zero>>)
Requests == {[mode |-> m, idx |-> i, lo |-> l] : m \in CModes, i \in CIdx \cap (0..(CNIn - 1)), l \in CHT}
RQ(r)    == Q(r.mode, CNIn, CNOut, r.idx, <<r.lo, 0>>, KeyScript, FALSE, IF r.mode = "bip341" THEN "key" ELSE "bare", FALSE)
Fresh(r) == Preimage(RQ(r))                    \* the uncached definition
NoReq    == [mode |-> "none", idx |-> 0, lo |-> 0]
Locked   == Bug # "nolock"
\* "lock_if_nil": TaprootSigHash takes hashLock only while one of its two cache pointers is nil ("the lock only
\* guards filling the caches") - broken, because tapSingleHashes is published before it is filled
TakesLock(r) == IF Bug = "lock_if_nil" /\ r.mode = "bip341"
                  THEN slot["tapSingleHashes"] = Nil \/ slot["tapOutSingleHash"] = Nil
                  ELSE Locked
\* the cache slots a request reads (and fills when they are nil); the other slots it never touches
NeedSlots(r) == LET q == RQ(r) IN
    CASE r.mode = "bip143" -> (IF ~Acp(q) THEN {"hashPrevouts"} ELSE {})
                              \cup (IF ~Acp(q) /\ Base(q) \notin {2, 3} THEN {"hashSequence"} ELSE {})
                              \cup (IF Base(q) \notin {2, 3} THEN {"hashOutputs"} ELSE {})
      [] r.mode = "bip341" -> IF Lo(q) \notin TapValid THEN {}
                              ELSE (IF ~Acp(q) THEN {"tapSingleHashes"} ELSE {})
                                   \cup (IF TapOut(q) \notin {2, 3} THEN {"tapOutSingleHash"} ELSE {})
      [] OTHER -> {}
CInit == /\ slot = [s \in {"hashPrevouts", "hashSequence", "hashOutputs", "tapSingleHashes", "tapOutSingleHash"} |-> Nil]
         /\ lock = 0
         /\ pc = [t \in Threads |-> "idle"]
         /\ cur = [t \in Threads |-> NoReq]
         /\ loc = [t \in Threads |-> [hp |-> Nil, hs |-> Nil, ho |-> Nil, ts |-> <<>>, to |-> <<>>]]
         /\ ndone = 0
         /\ last = [t |-> 0, req |-> NoReq, same |-> TRUE]

Goto(t, l)     == pc' = [pc EXCEPT ![t] = l]
SetLoc(t, f, v) == loc' = [loc EXCEPT ![t][f] = v]
Done(t, res)   == /\ last' = [t |-> t, req |-> cur[t], same |-> (res = Fresh(cur[t]))]
                  /\ ndone' = ndone + 1
                  /\ Goto(t, "idle")
                  /\ cur' = [cur EXCEPT ![t] = NoReq]
                  /\ lock' = IF lock = t THEN 0 ELSE lock
Begin(t, r, l) == /\ pc[t] = "idle" /\ ndone + Cardinality({u \in Threads : pc[u] # "idle"}) < MaxReq
                  /\ (TakesLock(r) => lock = 0)
                  /\ lock' = IF TakesLock(r) THEN t ELSE lock
                  /\ cur' = [cur EXCEPT ![t] = r]
                  /\ Goto(t, l)
                  /\ UNCHANGED <<slot, loc, ndone, last>>

\* --- Tx.SignatureHash: no lock, no cache
SignatureHash(t, r) ==
    /\ r.mode = "legacy" /\ pc[t] = "idle" /\ ndone + Cardinality({u \in Threads : pc[u] # "idle"}) < MaxReq
    /\ last' = [t |-> t, req |-> r, same |-> (Legacy(RQ(r), CodeArg("legacy", KeyScript)) = Fresh(r))]
    /\ ndone' = ndone + 1
    /\ UNCHANGED <<slot, lock, pc, cur, loc>>

\* --- Tx.WitnessSigHash
\* a cached slot: nil -> allocate (zero bytes visible) -> fill; else read what is there
UseSlot(t, s, f, fill, next, nextfill) ==
    IF slot[s] = Nil
      THEN slot' = [slot EXCEPT ![s] = Zero] /\ Goto(t, nextfill) /\ UNCHANGED loc
      ELSE SetLoc(t, f, slot[s]) /\ Goto(t, next) /\ UNCHANGED slot
FillSlot(t, s, f, v, next) == slot' = [slot EXCEPT ![s] = v] /\ SetLoc(t, f, v) /\ Goto(t, next)

WLock(t, r) == r.mode = "bip143" /\ Begin(t, r, "wPrev")
WPrevouts(t) == /\ pc[t] = "wPrev"
                /\ IF Acp(RQ(cur[t])) THEN SetLoc(t, "hp", Zero) /\ Goto(t, "wSeq") /\ UNCHANGED slot
                   ELSE UseSlot(t, "hashPrevouts", "hp", 0, "wSeq", "wPrevFill")
                /\ UNCHANGED <<lock, cur, ndone, last>>
WPrevoutsFill(t) == /\ pc[t] = "wPrevFill" /\ FillSlot(t, "hashPrevouts", "hp", HashPrevouts(RQ(cur[t])), "wSeq")
                    /\ UNCHANGED <<lock, cur, ndone, last>>
WSequence(t) == /\ pc[t] = "wSeq"
                /\ IF Acp(RQ(cur[t])) \/ Base(RQ(cur[t])) \in {2, 3} THEN SetLoc(t, "hs", Zero) /\ Goto(t, "wOut") /\ UNCHANGED slot
                   ELSE UseSlot(t, "hashSequence", "hs", 0, "wOut", "wSeqFill")
                /\ UNCHANGED <<lock, cur, ndone, last>>
WSequenceFill(t) == /\ pc[t] = "wSeqFill"
                    /\ FillSlot(t, "hashSequence", "hs",
                                IF Bug = "wrong_input" THEN FH("dsha", <<FN("sequence", cur[t].idx)>>) ELSE HashSequence(RQ(cur[t])), "wOut")
                    /\ UNCHANGED <<lock, cur, ndone, last>>
WOutputs(t) == /\ pc[t] = "wOut"
               /\ LET q == RQ(cur[t]) IN
                  IF Base(q) \notin {2, 3} THEN UseSlot(t, "hashOutputs", "ho", 0, "wFin", "wOutFill")
                  ELSE IF Base(q) = 3 /\ q.idx < q.nout
                    THEN /\ SetLoc(t, "ho", IF Bug = "single_cached" /\ slot["hashOutputs"] # Nil THEN slot["hashOutputs"] ELSE HashSingle(q))
                         /\ Goto(t, "wFin") /\ UNCHANGED slot
                  ELSE SetLoc(t, "ho", Zero) /\ Goto(t, "wFin") /\ UNCHANGED slot
               /\ UNCHANGED <<lock, cur, ndone, last>>
WOutputsFill(t) == /\ pc[t] = "wOutFill" /\ FillSlot(t, "hashOutputs", "ho", HashOutputs(RQ(cur[t])), "wFin")
                   /\ UNCHANGED <<lock, cur, ndone, last>>
WFinish(t) == /\ pc[t] = "wFin"
              /\ Done(t, Digest("dsha", W_fields(RQ(cur[t]), CodeArg("bip143", KeyScript), loc[t].hp, loc[t].hs, loc[t].ho)))
              /\ UNCHANGED <<slot, loc>>

\* --- Tx.TaprootSigHash
TLock(t, r) == r.mode = "bip341" /\ Begin(t, r, "tSingles")
TSingles(t) == /\ pc[t] = "tSingles"
               /\ LET q == RQ(cur[t]) IN
                  IF Lo(q) \notin TapValid THEN Goto(t, "tFin") /\ UNCHANGED <<slot, loc>>      \* no digest
                  ELSE IF Acp(q) THEN SetLoc(t, "ts", <<>>) /\ Goto(t, "tOut") /\ UNCHANGED slot
                  ELSE IF slot["tapSingleHashes"] = Nil     \* new(taprootSHType): four zero hashes until filled
                    THEN slot' = [slot EXCEPT !["tapSingleHashes"] = Zero4] /\ Goto(t, "tSinglesFill") /\ UNCHANGED loc
                    ELSE SetLoc(t, "ts", slot["tapSingleHashes"].of) /\ Goto(t, "tOut") /\ UNCHANGED slot
               /\ UNCHANGED <<lock, cur, ndone, last>>
TSinglesFill(t) == /\ pc[t] = "tSinglesFill"
                   /\ slot' = [slot EXCEPT !["tapSingleHashes"] = FH("tapsingles", TapSingles(RQ(cur[t])))]
                   /\ SetLoc(t, "ts", TapSingles(RQ(cur[t]))) /\ Goto(t, "tOut")
                   /\ UNCHANGED <<lock, cur, ndone, last>>
TOutputs(t) == /\ pc[t] = "tOut"
               /\ LET q == RQ(cur[t]) IN
                  IF TapOut(q) \in {2, 3} THEN SetLoc(t, "to", <<>>) /\ Goto(t, "tFin") /\ UNCHANGED slot
                  ELSE IF Bug = "shared_outputs" /\ slot["hashOutputs"] # Nil
                    THEN SetLoc(t, "to", <<slot["hashOutputs"]>>) /\ Goto(t, "tFin") /\ UNCHANGED slot
                  ELSE IF slot["tapOutSingleHash"] = Nil
                    THEN slot' = [slot EXCEPT !["tapOutSingleHash"] = Zero] /\ Goto(t, "tOutFill") /\ UNCHANGED loc
                    ELSE SetLoc(t, "to", <<slot["tapOutSingleHash"]>>) /\ Goto(t, "tFin") /\ UNCHANGED slot
               /\ UNCHANGED <<lock, cur, ndone, last>>
TOutputsFill(t) == /\ pc[t] = "tOutFill"
                   /\ slot' = [slot EXCEPT !["tapOutSingleHash"] = ShaOutputs(RQ(cur[t]))]
                   /\ SetLoc(t, "to", <<ShaOutputs(RQ(cur[t]))>>) /\ Goto(t, "tFin")
                   /\ UNCHANGED <<lock, cur, ndone, last>>
TFinish(t) == /\ pc[t] = "tFin"
              /\ LET q == RQ(cur[t]) IN
                 Done(t, IF ~TapDefined(q) THEN Undefined ELSE Digest("tagged_TapSighash", T_fields(q, loc[t].ts, loc[t].to)))
              /\ UNCHANGED <<slot, loc>>

CStep(t) == \/ \E r \in Requests : SignatureHash(t, r) \/ WLock(t, r) \/ TLock(t, r)
            \/ WPrevouts(t) \/ WPrevoutsFill(t) \/ WSequence(t) \/ WSequenceFill(t)
            \/ WOutputs(t) \/ WOutputsFill(t) \/ WFinish(t)
            \/ TSingles(t) \/ TSinglesFill(t) \/ TOutputs(t) \/ TOutputsFill(t) \/ TFinish(t)
CNext == (\E t \in Threads : CStep(t)) /\ UNCHANGED pvars

\* the result of a request depends neither on what is cached nor on the order of the requests
CacheTransparent == last.same
\* hashLock: at most one thread is inside WitnessSigHash / TaprootSigHash
MutualExclusion  == Locked => Cardinality({t \in Threads : pc[t] # "idle"}) <= 1 /\ (lock # 0 <=> \E t \in Threads : pc[t] # "idle")
\* a filled slot holds the hash of ALL inputs / outputs and never changes again
\* a slot is filled only by a request that needs it (the warm-up prefixes of the burst scenarios rely on this)
FillsAreNeeded == [][\A s \in DOMAIN slot : (slot[s] = Nil /\ slot'[s] # Nil) => \E t \in Threads : s \in NeedSlots(cur[t])]_vars
SlotsStable == [][\A s \in DOMAIN slot : (slot[s] \notin {Nil, Zero, Zero4}) => slot'[s] = slot[s]]_vars

Init  == PInit /\ CInit
PSpec == Init /\ [][PNext]_vars
CSpec == Init /\ [][CNext]_vars
=============================================================================
