---------------------------- MODULE SigHashGen ----------------------------
(* G->R export for SigHash (run with -workers 1).                          *)
(*  GenMode = "cases"   every enumerated case with its Preimage:  VFT lines *)
(*  GenMode = "vectors" function-level legacy / BIP143 cases whose shape is *)
(*                      read from VecFile (Bitcoin Core's sighash.json and  *)
(*                      the segwit spends of tx_valid.json: nin, nout, idx, *)
(*                      hash type, scriptCode as opaque runs separated by   *)
(*                      OP_CODESEPARATOR):                        VFT lines *)
(*  GenMode = "cache"   the request table with the uncached Preimage (VFR)  *)
(*                      and every order of completed requests of the cache  *)
(*                      machine (h is part of the state: no VIEW): VFB lines*)
EXTENDS SigHash, Json

CONSTANTS GenMode, VecFile

VARIABLE h           \* cache mode: sequence of completed requests [t, r]

gvars == <<vars, h>>

Vecs == IF GenMode = "vectors" THEN JsonDeserialize(VecFile) ELSE <<>>
VecCase(v) == LET q == Q(v.mode, v.nin, v.nout, v.idx, <<v.lo, v.hi>>, v.toks, FALSE, "func", FALSE) IN
              [q |-> q, code |-> q.script, feed |-> TRUE, csp |-> -1, pre |-> PreimageCode(q, q.script), vec |-> v.id]

ASSUME GenMode = "cache" => \A r \in Requests : PrintT(<<"VFR", ToJson([req |-> r, pre |-> Fresh(r)])>>)

GCases == PNext /\ PrintT(<<"VFT", ToJson(c')>>) /\ UNCHANGED h
GVecs  == /\ c = NoCase /\ \E i \in DOMAIN Vecs : c' = VecCase(Vecs[i])
          /\ PrintT(<<"VFT", ToJson(c')>>) /\ UNCHANGED <<cvars, h>>
GCache == /\ CNext
          /\ h' = IF ndone' > ndone THEN Append(h, [t |-> last'.t, r |-> last'.req]) ELSE h
          /\ (ndone' > ndone => PrintT(<<"VFB", ToJson([steps |-> h'])>>))

GInit == Init /\ h = <<>>
GNext == \/ GenMode = "cases" /\ GCases
         \/ GenMode = "vectors" /\ GVecs
         \/ GenMode = "cache" /\ GCache
GSpec == GInit /\ [][GNext]_gvars
=============================================================================
