---------------------------- MODULE SigHashGen ----------------------------
(* G->R export for SigHash (run with -workers 1).                          *)
(*  GenMode = "cases"   every enumerated case with its Preimage:  VFT lines *)
(*  GenMode = "vectors" function-level legacy / BIP143 cases whose shape is *)
(*                      read from VecFile (Bitcoin Core's sighash.json and  *)
(*                      the segwit spends of tx_valid.json: nin, nout, idx, *)
(*                      hash type, scriptCode as opaque runs separated by   *)
(*                      OP_CODESEPARATOR):                        VFT lines *)
(*  GenMode = "cache"   the request table with the uncached Preimage (VFR)  *)
(*                      and every order of completed requests of the cache  *)
(*                      machine (h is part of the state: no VIEW): VFB lines*)
(*  GenMode = "burst"   the request table (VFR) for the sampled inputs CIdx  *)
(*                      of a transaction with many inputs, and the burst    *)
(*                      scenarios (VFS): a cache warm-up prefix (none, or   *)
(*                      ONE completed request of a hash-type class - the    *)
(*                      classes fill different subsets of the cache slots)  *)
(*                      followed by a concurrent burst whose goroutines     *)
(*                      cycle through the request kinds of `burst`; `cold`  *)
(*                      = the slots the burst has to fill concurrently      *)
EXTENDS SigHash, Json

CONSTANTS GenMode, VecFile,
          BurstLen     \* burst scenarios: 1..BurstLen request kinds per burst

VARIABLE h           \* cache mode: sequence of completed requests [t, r]

gvars == <<vars, h>>

Vecs == IF GenMode = "vectors" THEN JsonDeserialize(VecFile) ELSE <<>>
VecCase(v) == LET q == Q(v.mode, v.nin, v.nout, v.idx, <<v.lo, v.hi>>, v.toks, FALSE, "func", FALSE) IN
              [q |-> q, code |-> q.script, feed |-> TRUE, csp |-> -1, pre |-> PreimageCode(q, q.script), vec |-> v.id]

ASSUME GenMode \in {"cache", "burst"} => \A r \in Requests : PrintT(<<"VFR", ToJson([req |-> r, pre |-> Fresh(r)])>>)

GCases == PNext /\ PrintT(<<"VFT", ToJson(c')>>) /\ UNCHANGED h
GVecs  == /\ c = NoCase /\ \E i \in DOMAIN Vecs : c' = VecCase(Vecs[i])
          /\ PrintT(<<"VFT", ToJson(c')>>) /\ UNCHANGED <<cvars, h>>
GCache == /\ CNext
          /\ h' = IF ndone' > ndone THEN Append(h, [t |-> last'.t, r |-> last'.req]) ELSE h
          /\ (ndone' > ndone => PrintT(<<"VFB", ToJson([steps |-> h'])>>))

\* ---- burst scenarios
Kinds    == {[mode |-> m, lo |-> l] : m \in CModes, l \in CHT} \ {[mode |-> m, lo |-> 0] : m \in {"legacy", "bip143"}}
NoKind   == [mode |-> "none", lo |-> 0]
KNeed(k) == IF k = NoKind THEN {} ELSE NeedSlots([mode |-> k.mode, idx |-> 0, lo |-> k.lo])
Scenarios == {[warm |-> w, burst |-> b] : w \in Kinds \cup {NoKind}, b \in UNION {[1..n -> Kinds] : n \in 1..BurstLen}}
GBurst == /\ h = <<>>
          /\ \E s \in Scenarios :
                /\ h' = <<s>>
                /\ PrintT(<<"VFS", ToJson([warm |-> s.warm, burst |-> s.burst,
                                            cold |-> (UNION {KNeed(s.burst[i]) : i \in DOMAIN s.burst}) \ KNeed(s.warm)])>>)
          /\ UNCHANGED vars

GInit == Init /\ h = <<>>
GNext == \/ GenMode = "cases" /\ GCases
         \/ GenMode = "vectors" /\ GVecs
         \/ GenMode = "cache" /\ GCache
         \/ GenMode \in {"burst", "scenarios"} /\ GBurst      \* "scenarios": without the request table
GSpec == GInit /\ [][GNext]_gvars
=============================================================================
