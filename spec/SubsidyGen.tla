----------------------------- MODULE SubsidyGen -----------------------------
(* G->R export of the block subsidy the Ledger model uses (Amt!Subsidy): every halving boundary *)
(* (last block of an era, first block of the next, one further) up to the 64th halving and the   *)
(* largest height the code can represent.                                                       *)
EXTENDS Amt, Json, TLC
VARIABLE k
Heights(i) == IF i = 0 THEN {0, 1, 2, 104999, 209998}
              ELSE {i * HalvingInterval - 1, i * HalvingInterval, i * HalvingInterval + 1, i * HalvingInterval + 104999}
Line(h) == [height |-> h, subsidy |-> Subsidy(h)]
Init == k = 0
Next == /\ k <= 66
        /\ \A h \in Heights(k) : PrintT(<<"VFT", ToJson(Line(h))>>)
        /\ k' = k + 1
Spec == Init /\ [][Next]_k
Monotone == \A h \in Heights(k) : AmtLE(Subsidy(h + HalvingInterval), Subsidy(h)) /\ InRange(Subsidy(h))
=============================================================================
