------------------------------- MODULE Wire -------------------------------
(***************************************************************************)
(* Wire format of transactions and blocks (BIP141 / BIP144, Bitcoin Core's *)
(* serialize.h and UnserializeTransaction) -- what Bitcoin REQUIRES of a   *)
(* decoder, not what lib/btc/tx.go happens to do.                          *)
(*                                                                         *)
(* The specification works with LENGTHS AND STRUCTURE, never byte values.  *)
(* A byte string is a LAYOUT: a sequence of tokens                         *)
(*    O(n)        n opaque bytes   (Fixed(n) fields and Bytes(len) bodies) *)
(*    C(f, v)     a CompactSize in form f \in {1,3,5,9} (its byte length)  *)
(*                holding the value v; minimal iff f = MinForm(v).         *)
(*                The marker and the flag are the one-byte tokens C(1,0)   *)
(*                and C(1,flag) (Core reads the marker as the CompactSize  *)
(*                of an empty vin vector and the flag as one byte).        *)
(* A token may be cut short (n < its full size): the stream ends there.    *)
(*                                                                         *)
(*   Encode(tx)     the one canonical layout of an abstract transaction    *)
(*   Decode(s)      verdict of Bitcoin's deserialiser reading layout s:    *)
(*                  accept (+ bytes consumed + decoded structure),         *)
(*                  refuse (+ the rule), or "dep": the reader would have   *)
(*                  to interpret opaque bytes as a CompactSize, i.e. the   *)
(*                  answer depends on content the layout does not fix.     *)
(*                  (The harness carries a byte-level reference decoder    *)
(*                  that implements exactly the rules below; it is checked *)
(*                  against every definite verdict of this module and is   *)
(*                  the judge for the "dep" layouts.)                      *)
(*   Size, NoWitSize, Weight, VSize, BlockWeight   BIP141 definitions      *)
(*   Perts(s)       the perturbations of a layout                          *)
(*                                                                         *)
(* TLC enumerates Shapes x Perts (state = one case), the invariants at the *)
(* bottom are evaluated on every case.                                     *)
(***************************************************************************)
EXTENDS Integers, Sequences, FiniteSets, TLC

CONSTANTS
    MaxIn, MaxOut, MaxWit,  \* shape bounds: inputs, outputs, witness items per input
    Lens,                   \* script / witness item length classes, e.g. {0,1,252,253,65535,65536}
    DefLen,                 \* the ordinary class (every field not singled out has this length)
    MaxOdd,                 \* at most this many variable-length fields of a shape are off DefLen
    HugeVals,               \* counts / lengths tried by the "huge" perturbation
    BlockMax,               \* block shapes hold 0..BlockMax transactions of BlockPool (0 = tx cases only)
    BigCounts,              \* long blocks: BigPatterns repeated up to these many transactions ({} = none)
    CSVals,                 \* values of the stand-alone CompactSize cases
    Lenient                 \* FALSE = Bitcoin's rules.  TRUE = a deliberately broken reader (takes
                            \* non-minimal CompactSize and superfluous witness records); Wire_mc must refute it.

(***************************************************************************)
(* Numbers.  TLC integers are 32 bit; values >= 2^31 are named by negative *)
(* codes.  The only facts ever used about them: their minimal form and     *)
(* that they exceed MAX_SIZE.                                              *)
(***************************************************************************)
U32MAX  == -1       \* 0xffffffff
P32     == -2       \* 2^32
I64MAX  == -3       \* 2^63 - 1
P63     == -4       \* 2^63
U64MAX  == -5       \* 2^64 - 1
MAXSIZE == 33554432 \* serialize.h MAX_SIZE = 0x02000000: larger vector / script lengths are refused unread
I32MAX  == 2147483647

MinForm(v) == IF v < 0 THEN (IF v = U32MAX THEN 5 ELSE 9)
              ELSE IF v < 253 THEN 1 ELSE IF v < 65536 THEN 3 ELSE 5
TooLarge(v) == v < 0 \/ v > MAXSIZE
Forms == {1, 3, 5, 9}

\* ready-made values for the cfg files (negative codes cannot be written there)
HugeQuick == {MAXSIZE + 1, U32MAX, P63}
HugeAll   == {MAXSIZE, MAXSIZE + 1, I32MAX, U32MAX, P32, I64MAX, P63, U64MAX}
CSAll     == {0, 1, 252, 253, 254, 255, 256, 65535, 65536, I32MAX, U32MAX, P32, I64MAX, P63, U64MAX}

(***************************************************************************)
(* Tokens and layouts                                                      *)
(***************************************************************************)
O(n, role)    == [k |-> "O", n |-> n, f |-> 0, v |-> 0, role |-> role]
C(f, v, role) == [k |-> "C", n |-> f, f |-> f, v |-> v, role |-> role]
CS(v, role)   == C(MinForm(v), v, role)         \* the minimal encoding

\* (the folds below split their range in halves: TLC's evaluation contexts grow with the recursion depth
\*  and a layout of a long block has thousands of tokens)
RECURSIVE FlatR(_, _, _)
FlatR(ss, a, b) == IF a > b THEN <<>> ELSE IF a = b THEN ss[a]
                   ELSE FlatR(ss, a, (a + b) \div 2) \o FlatR(ss, (a + b) \div 2 + 1, b)
Flat(ss) == FlatR(ss, 1, Len(ss))
RECURSIVE SumR(_, _, _)
SumR(q, a, b) == IF a > b THEN 0 ELSE IF a = b THEN q[a]
                 ELSE SumR(q, a, (a + b) \div 2) + SumR(q, (a + b) \div 2 + 1, b)
SumSeq(q) == SumR(q, 1, Len(q))
NonEmpty(s) == SelectSeq(s, LAMBDA t : t.n > 0)  \* Bytes(0) contributes no bytes

RECURSIVE BytesR(_, _, _)
BytesR(s, a, b) == IF a > b THEN 0 ELSE IF a = b THEN s[a].n
                   ELSE BytesR(s, a, (a + b) \div 2) + BytesR(s, (a + b) \div 2 + 1, b)
Before(s, i) == BytesR(s, 1, i - 1)               \* bytes in front of token i
NBytes(s) == BytesR(s, 1, Len(s))

(***************************************************************************)
(* Abstract transactions and their canonical encoding                      *)
(*   tx = [wit : BOOLEAN            extended (BIP144) serialisation        *)
(*         ins : Seq([script : Nat, stack : Seq(Nat)])                     *)
(*         outs: Seq(Nat)]          pk_script lengths                      *)
(***************************************************************************)
EncIn(in)   == <<O(36, "prevout"), CS(in.script, "slen"), O(in.script, "script"), O(4, "seq")>>
EncOut(l)   == <<O(8, "value"), CS(l, "pklen"), O(l, "pk")>>
EncStack(w) == <<CS(Len(w), "nitems")>> \o Flat([j \in 1..Len(w) |-> <<CS(w[j], "ilen"), O(w[j], "item")>>])

EncodeTx(tx) == NonEmpty(
       <<O(4, "ver")>>
    \o (IF tx.wit THEN <<C(1, 0, "marker"), C(1, 1, "flag")>> ELSE <<>>)
    \o <<CS(Len(tx.ins), "nin")>>  \o Flat([i \in 1..Len(tx.ins) |-> EncIn(tx.ins[i])])
    \o <<CS(Len(tx.outs), "nout")>> \o Flat([i \in 1..Len(tx.outs) |-> EncOut(tx.outs[i])])
    \o (IF tx.wit THEN Flat([i \in 1..Len(tx.ins) |-> EncStack(tx.ins[i].stack)]) ELSE <<>>)
    \o <<O(4, "lock")>>)

EncodeBlock(b) == <<O(80, "hdr"), CS(Len(b.txs), "ntx")>> \o Flat([i \in 1..Len(b.txs) |-> EncodeTx(b.txs[i])])

(***************************************************************************)
(* BIP141 sizes, declaratively, from the abstract transaction              *)
(***************************************************************************)
InSize(in)    == 36 + MinForm(in.script) + in.script + 4
OutSize(l)    == 8 + MinForm(l) + l
StackSize(w)  == MinForm(Len(w)) + SumSeq([j \in 1..Len(w) |-> MinForm(w[j]) + w[j]])
NoWitSize(tx) == 4 + MinForm(Len(tx.ins)) + SumSeq([i \in 1..Len(tx.ins) |-> InSize(tx.ins[i])])
                   + MinForm(Len(tx.outs)) + SumSeq([i \in 1..Len(tx.outs) |-> OutSize(tx.outs[i])]) + 4
WitSize(tx)   == IF tx.wit THEN 2 + SumSeq([i \in 1..Len(tx.ins) |-> StackSize(tx.ins[i].stack)]) ELSE 0
Size(tx)      == NoWitSize(tx) + WitSize(tx)            \* total size: the BIP144 serialisation
Weight(tx)    == 3 * NoWitSize(tx) + Size(tx)           \* BIP141: base size * 3 + total size
VSize(tx)     == (Weight(tx) + 3) \div 4                \* ceil(Weight / 4)
HasWitness(tx) == \E i \in 1..Len(tx.ins) : Len(tx.ins[i].stack) > 0

\* block weight from the per-transaction sizes q = <<[size, nowit], ...>>
BlockBase(q)   == 80 + MinForm(Len(q)) + SumSeq([i \in 1..Len(q) |-> q[i].nowit])
BlockTotal(q)  == 80 + MinForm(Len(q)) + SumSeq([i \in 1..Len(q) |-> q[i].size])
BlockWeight(q) == 3 * BlockBase(q) + BlockTotal(q)

(***************************************************************************)
(* The reader.  Position = (i, r): r bytes of token i are already taken;   *)
(* off = the same position as a byte offset.                               *)
(* Reader state S = [st, why, i, r, off, val, ins, outs, stk, cur, txs].   *)
(***************************************************************************)
RECURSIVE Adv(_, _, _, _)
\* advance n bytes; <<0,0>> when fewer than n bytes are left.  Adv(.., 0) normalises a position.
Adv(s, i, r, n) == IF i > Len(s) THEN (IF n = 0 THEN <<i, 0>> ELSE <<0, 0>>)
                   ELSE LET a == s[i].n - r
                        IN  IF n < a THEN <<i, r + n>> ELSE Adv(s, i + 1, 0, n - a)

Start == [st |-> "ok", why |-> "", i |-> 1, r |-> 0, off |-> 0, val |-> 0,
          ins |-> <<>>, outs |-> <<>>, stk |-> <<>>, cur |-> <<>>, txs |-> <<>>, wit |-> FALSE]
Fail(S, w) == [S EXCEPT !.st = "refuse", !.why = w]
Dep(S)     == [S EXCEPT !.st = "dep", !.why = "content"]
Pos(s, S)  == S.off
Rem(s, S)  == NBytes(s) - Pos(s, S)

\* n opaque bytes (a fixed field, or the body of a script / witness item)
RdFixed(s, S, n) ==
    IF S.st # "ok" THEN S
    ELSE LET p == Adv(s, S.i, S.r, n)
         IN  IF p[1] = 0 THEN Fail(S, "truncated") ELSE [S EXCEPT !.i = p[1], !.r = p[2], !.off = @ + n]

\* serialize.h ReadCompactSize(is, range_check = true): end of data, then canonicity, then range
RdCS(s, S) ==
    IF S.st # "ok" THEN S
    ELSE LET p == Adv(s, S.i, S.r, 0)
         IN  IF p[1] > Len(s) THEN Fail(S, "truncated")
             ELSE LET t == s[p[1]]
                  IN  IF p[2] # 0 \/ t.k = "O" THEN Dep(S)
                      ELSE IF t.n < t.f THEN Fail(S, "truncated")
                      ELSE IF t.f # MinForm(t.v) /\ ~Lenient THEN Fail(S, "nonminimal")
                      ELSE IF TooLarge(t.v) THEN Fail(S, "oversize")
                      ELSE [S EXCEPT !.i = p[1] + 1, !.r = 0, !.off = @ + t.f, !.val = t.v]

\* one byte (the flag).  The first byte of a longer CompactSize token is its prefix 0xfd / 0xfe / 0xff.
RdByte(s, S) ==
    IF S.st # "ok" THEN S
    ELSE LET p == Adv(s, S.i, S.r, 0)
         IN  IF p[1] > Len(s) THEN Fail(S, "truncated")
             ELSE LET t == s[p[1]]
                      q == Adv(s, p[1], 0, 1)
                  IN  IF p[2] # 0 \/ t.k = "O" THEN Dep(S)
                      ELSE [S EXCEPT !.i = q[1], !.r = q[2], !.off = @ + 1,
                                     !.val = IF t.f = 1 THEN t.v ELSE IF t.f = 3 THEN 253 ELSE IF t.f = 5 THEN 254 ELSE 255]

\* A vector whose claimed element count cannot fit in the remaining bytes is refused whatever the
\* bytes are (every element takes at least `min` bytes): used only to sharpen a "dep" verdict.
Sharpen(s, A, R, min) ==
    IF A.st # "ok" THEN A
    ELSE IF R.st = "dep" /\ A.val * min > Rem(s, A) THEN Fail(A, "short")
    ELSE R

RdIn(s, S) ==
    LET A == RdFixed(s, S, 36)
        B == RdCS(s, A)
        D == RdFixed(s, RdFixed(s, B, B.val), 4)
    IN  IF D.st = "ok" THEN [D EXCEPT !.ins = Append(@, B.val)] ELSE D
RECURSIVE RdIns(_, _, _)
RdIns(s, S, k) == IF k = 0 \/ S.st # "ok" THEN S ELSE RdIns(s, RdIn(s, S), k - 1)
RdVecIns(s, S) == LET A == RdCS(s, S) IN Sharpen(s, A, RdIns(s, [A EXCEPT !.ins = <<>>], A.val), 41)

RdOut(s, S) ==
    LET A == RdFixed(s, S, 8)
        B == RdCS(s, A)
        D == RdFixed(s, B, B.val)
    IN  IF D.st = "ok" THEN [D EXCEPT !.outs = Append(@, B.val)] ELSE D
RECURSIVE RdOuts(_, _, _)
RdOuts(s, S, k) == IF k = 0 \/ S.st # "ok" THEN S ELSE RdOuts(s, RdOut(s, S), k - 1)
RdVecOuts(s, S) == LET A == RdCS(s, S) IN Sharpen(s, A, RdOuts(s, [A EXCEPT !.outs = <<>>], A.val), 9)

RdItem(s, S) ==
    LET B == RdCS(s, S)
        D == RdFixed(s, B, B.val)
    IN  IF D.st = "ok" THEN [D EXCEPT !.cur = Append(@, B.val)] ELSE D
RECURSIVE RdItems(_, _, _)
RdItems(s, S, k) == IF k = 0 \/ S.st # "ok" THEN S ELSE RdItems(s, RdItem(s, S), k - 1)
RdStack(s, S) ==
    LET A == RdCS(s, S)
        R == Sharpen(s, A, RdItems(s, [A EXCEPT !.cur = <<>>], A.val), 1)
    IN  IF R.st = "ok" THEN [R EXCEPT !.stk = Append(@, R.cur)] ELSE R
RECURSIVE RdStacks(_, _, _)
RdStacks(s, S, k) == IF k = 0 \/ S.st # "ok" THEN S ELSE RdStacks(s, RdStack(s, S), k - 1)

(***************************************************************************)
(* UnserializeTransaction (primitives/transaction.h), witness allowed:     *)
(*   version; vin; if vin is empty: flags byte, and if flags # 0 vin and   *)
(*   vout again, else vout; if flags & 1: one stack per input, and         *)
(*   "Superfluous witness record" when they are all empty; any other flag  *)
(*   bit: "Unknown transaction optional data" (at the latest); lock time.  *)
(***************************************************************************)
RdTx(s, S0) ==
    LET V     == RdFixed(s, [S0 EXCEPT !.ins = <<>>, !.outs = <<>>, !.stk = <<>>, !.wit = FALSE], 4)
        I1    == RdVecIns(s, V)
        ext   == I1.st = "ok" /\ Len(I1.ins) = 0
        Fl    == RdByte(s, I1)
        flags == IF ext /\ Fl.st = "ok" THEN Fl.val ELSE 0
        \* A flag byte with any bit other than bit 0 ends in a refusal whatever follows (vin, vout and the
        \* stacks are read and either fail or "Unknown transaction optional data" is thrown): "badflag".
        body  == IF ~ext THEN RdVecOuts(s, I1)
                 ELSE IF Fl.st # "ok" THEN Fl
                 ELSE IF flags \div 2 # 0 THEN Fail(Fl, "badflag")
                 ELSE IF flags = 0 THEN [Fl EXCEPT !.outs = <<>>]
                 ELSE RdVecOuts(s, RdVecIns(s, Fl))
        hasw  == flags = 1
        W     == IF hasw THEN RdStacks(s, body, Len(body.ins)) ELSE body
        W2    == IF hasw /\ W.st = "ok" /\ ~Lenient /\ (\A j \in 1..Len(W.stk) : Len(W.stk[j]) = 0)
                 THEN Fail(W, "superfluous") ELSE W
        L     == RdFixed(s, W2, 4)
    IN  [L EXCEPT !.wit = hasw]

DecOf(S) == [wit |-> S.wit,
             ins |-> [j \in 1..Len(S.ins) |-> [script |-> S.ins[j], stack |-> IF S.wit THEN S.stk[j] ELSE <<>>]],
             outs |-> S.outs]
EmptyTx == [wit |-> FALSE, ins |-> <<>>, outs |-> <<>>]

Verdict(st) == IF st = "ok" THEN "accept" ELSE st

\* a stand-alone transaction (btc.NewTx: the caller learns how many bytes were consumed)
DecodeTx(s) ==
    LET L == RdTx(s, Start)
    IN  [v |-> Verdict(L.st), why |-> L.why, n |-> IF L.st = "ok" THEN Pos(s, L) ELSE 0,
         dec |-> IF L.st = "ok" THEN DecOf(L) ELSE EmptyTx, txs |-> <<>>]

\* a block: 80-byte header, vector of transactions
RdTxIn(s, S) ==
    LET L == RdTx(s, S)
        x == DecOf(L)
    IN  IF L.st = "ok" THEN [L EXCEPT !.txs = Append(@, [size |-> Pos(s, L) - Pos(s, S), nowit |-> NoWitSize(x), dec |-> x])] ELSE L
RECURSIVE RdTxs(_, _, _)
RdTxs(s, S, k) == IF k = 0 \/ S.st # "ok" THEN S ELSE IF k = 1 THEN RdTxIn(s, S)
                  ELSE RdTxs(s, RdTxs(s, S, k \div 2), k - k \div 2)      \* k transactions, in halves
DecodeBlock(s) ==
    LET H == RdFixed(s, Start, 80)
        A == RdCS(s, H)
        L == Sharpen(s, A, RdTxs(s, A, A.val), 10)
    IN  [v |-> Verdict(L.st), why |-> L.why, n |-> IF L.st = "ok" THEN Pos(s, L) ELSE 0,
         dec |-> EmptyTx, txs |-> IF L.st = "ok" THEN L.txs ELSE <<>>]

\* a lone CompactSize (VLen / VULe / ReadVLen): range_check = false, canonicity is what the tx reader adds
DecodeCS(s) ==
    LET R(v, w, n) == [v |-> v, why |-> w, n |-> n, dec |-> EmptyTx, txs |-> <<>>]
    IN  IF Len(s) = 0 \/ s[1].n < s[1].f THEN R("refuse", "truncated", 0)
        ELSE IF s[1].f # MinForm(s[1].v) /\ ~Lenient THEN R("refuse", "nonminimal", 0)
        ELSE R("accept", "", s[1].f)

(***************************************************************************)
(* Canonical(s): s is exactly one canonical transaction encoding           *)
(***************************************************************************)
AllMinimal(s) == \A i \in 1..Len(s) : s[i].k = "C" => s[i].n = s[i].f /\ s[i].f = MinForm(s[i].v)
Canonical(s) ==
    /\ AllMinimal(s)                                        \* every CompactSize complete and minimal
    /\ LET d == DecodeTx(s)
       IN  /\ d.v = "accept"                                \* nothing missing, known flag
           /\ d.n = NBytes(s)                               \* no trailing bytes
           /\ d.dec.wit => HasWitness(d.dec)                \* flag => some witness

(***************************************************************************)
(* Shapes                                                                  *)
(***************************************************************************)
SeqsUpTo(S, k) == UNION {[1..m -> S] : m \in 0..k}
OddL(l)    == IF l = DefLen THEN 0 ELSE 1
OddSeq(q)  == SumSeq([j \in 1..Len(q) |-> OddL(q[j])])
OddIn(in)  == OddL(in.script) + OddSeq(in.stack)
OddTx(tx)  == SumSeq([i \in 1..Len(tx.ins) |-> OddIn(tx.ins[i])]) + OddSeq(tx.outs)

StackSet == {w \in SeqsUpTo(Lens, MaxWit) : OddSeq(w) <= MaxOdd}
InLegacy == {[script |-> l, stack |-> <<>>] : l \in Lens}
InWit    == {in \in [script : Lens, stack : StackSet] : OddIn(in) <= MaxOdd}
OutSeqs  == {q \in SeqsUpTo(Lens, MaxOut) : OddSeq(q) <= MaxOdd}
TxShapes ==
    {tx \in [wit : {FALSE}, ins : SeqsUpTo(InLegacy, MaxIn), outs : OutSeqs] : OddTx(tx) <= MaxOdd}
    \cup {tx \in [wit : {TRUE}, ins : SeqsUpTo(InWit, MaxIn), outs : OutSeqs] : OddTx(tx) <= MaxOdd}

\* a legacy encoding of a transaction without inputs but with outputs starts "00 <nout>": the reader takes
\* it for marker + flag (the known ambiguity of the format); only the (0 inputs, 0 outputs) one reads back.
Ambiguous(tx) == ~tx.wit /\ Len(tx.ins) = 0 /\ Len(tx.outs) > 0
ValidTx(tx)   == ~Ambiguous(tx) /\ (tx.wit => HasWitness(tx))

In1(l, w) == [script |-> l, stack |-> w]
BlockPool == {
    [wit |-> FALSE, ins |-> <<In1(1, <<>>)>>, outs |-> <<1>>],                               \* legacy 1 x 1
    [wit |-> TRUE,  ins |-> <<In1(0, <<1>>)>>, outs |-> <<1>>],                              \* segwit 1 x 1, one item
    [wit |-> FALSE, ins |-> <<In1(253, <<>>), In1(0, <<>>)>>, outs |-> <<0, 252>>],          \* legacy 2 x 2, 3-byte length
    [wit |-> TRUE,  ins |-> <<In1(1, <<>>), In1(1, <<1, 0>>)>>, outs |-> <<1>>],             \* one empty, one 2-item stack
    [wit |-> TRUE,  ins |-> <<In1(1, <<>>)>>, outs |-> <<1>>],                               \* superfluous witness record
    [wit |-> FALSE, ins |-> <<>>, outs |-> <<1, 1>>] }                                       \* "00 02": read as marker + flag 2
BlockShapes == IF BlockMax = 0 THEN {} ELSE {[txs |-> q] : q \in SeqsUpTo(BlockPool, BlockMax)}

\* Long blocks.  A decoder is free to work through the transactions of a block in batches (lib/btc hashes
\* them in parallel packs of >= 4096 bytes): many small transactions and a few of 3 - 9 kB, so that the
\* transaction bytes cross such a boundary never, once and many times, at and away from the last one.
BigPool == <<
    [wit |-> FALSE, ins |-> <<In1(1, <<>>)>>, outs |-> <<1>>],                               \* 1  legacy, ~60 bytes
    [wit |-> TRUE,  ins |-> <<In1(0, <<1>>)>>, outs |-> <<1>>],                              \* 2  segwit, ~65 bytes
    [wit |-> FALSE, ins |-> <<In1(253, <<>>), In1(0, <<>>)>>, outs |-> <<0, 252>>],          \* 3  legacy, 617 bytes
    [wit |-> TRUE,  ins |-> <<In1(1, <<>>), In1(1, <<1, 0>>)>>, outs |-> <<1>>],             \* 4  segwit, two inputs
    [wit |-> FALSE, ins |-> <<In1(3000, <<>>)>>, outs |-> <<1>>],                            \* 5  legacy, ~3 kB
    [wit |-> TRUE,  ins |-> <<In1(0, <<5000, 1>>)>>, outs |-> <<4096>>] >>                   \* 6  segwit, ~9 kB
BigPatterns == {<<1, 2, 3, 4>>, <<5, 6>>, <<2, 1, 5>>, <<1>>}
Cyc(n, pat) == [txs |-> [i \in 1..n |-> BigPool[pat[((i - 1) % Len(pat)) + 1]]]]
BigBlockShapes == {Cyc(n, pat) : n \in BigCounts, pat \in BigPatterns}
BigLayout == 150    \* layouts with more tokens are perturbed only at the header, the count and the end

CSShapes == UNION {{[v |-> v, f |-> f] : f \in {g \in Forms : g >= MinForm(v)}} : v \in CSVals}

Shapes == {[kind |-> "tx", tx |-> x, b |-> [txs |-> <<>>], c |-> [v |-> 0, f |-> 1]] : x \in TxShapes}
     \cup {[kind |-> "block", tx |-> EmptyTx, b |-> x, c |-> [v |-> 0, f |-> 1]] : x \in BlockShapes \cup BigBlockShapes}
     \cup {[kind |-> "cs", tx |-> EmptyTx, b |-> [txs |-> <<>>], c |-> x] : x \in CSShapes}

Encode(sh) == IF sh.kind = "tx" THEN EncodeTx(sh.tx)
              ELSE IF sh.kind = "block" THEN EncodeBlock(sh.b)
              ELSE <<C(sh.c.f, sh.c.v, "cs")>>
Decode(kind, s) == IF kind = "tx" THEN DecodeTx(s) ELSE IF kind = "block" THEN DecodeBlock(s) ELSE DecodeCS(s)

(***************************************************************************)
(* Perturbations of a layout s                                             *)
(*   cut(i, a)   the stream ends a bytes into token i                      *)
(*   form(i, f)  CompactSize i re-encoded in the longer form f             *)
(*   val(i, v)   CompactSize i claims v (one less, one more, huge)         *)
(*   flag(i, b)  the flag byte is b (0, even, odd other than 1, high bit)   *)
(*   trail(n)    n extra bytes follow                                      *)
(***************************************************************************)
NoPert == [k |-> "none", i |-> 0, a |-> 0]
CutPoints(t, full) == {0} \cup (IF t.n >= 2 THEN {1} ELSE {}) \cup (IF full /\ t.n >= 3 THEN {t.n - 1} ELSE {})
IsCount(t) == t.k = "C" /\ t.role \notin {"marker", "flag", "cs"}
InTx(t)    == t.role \notin {"hdr", "ntx"}

Perts(kind, s) ==
    LET full == kind # "block"       \* block layouts are long: a thinner set inside their transactions
        idx  == IF Len(s) > BigLayout THEN {1, 2, Len(s) - 1, Len(s)} ELSE 1..Len(s)
        cnt  == {j \in idx : IsCount(s[j])}
    IN  IF kind = "cs" THEN {[k |-> "cut", i |-> 1, a |-> a] : a \in 0..(s[1].n - 1)}
        ELSE
           UNION {{[k |-> "cut", i |-> i, a |-> a] : a \in CutPoints(s[i], full)} : i \in idx}
      \cup UNION {{[k |-> "form", i |-> i, a |-> f] :
                        f \in {g \in Forms : g > s[i].f /\ (full \/ ~InTx(s[i]) \/ g = 3)}} : i \in cnt}
      \cup UNION {{[k |-> "val", i |-> i, a |-> a] :      \* -100 / -101 stand for v - 1 / v + 1
                        a \in HugeVals \cup {-101} \cup (IF s[i].v > 0 THEN {-100} ELSE {})} :
                   i \in {j \in cnt : full \/ ~InTx(s[j])}}
      \cup {[k |-> "flag", i |-> i, a |-> b] : i \in {j \in idx : s[j].role = "flag"},
                                              b \in IF full THEN {0, 2, 3, 4, 5, 129} ELSE {2, 3, 129}}
      \cup {[k |-> "trail", i |-> 0, a |-> n] : n \in {1, 5}}

NewVal(t, a) == IF a = -100 THEN t.v - 1 ELSE IF a = -101 THEN t.v + 1 ELSE a

Apply(s, p) ==
    CASE p.k = "none"  -> s
      [] p.k = "cut"   -> SubSeq(s, 1, p.i - 1) \o (IF p.a > 0 THEN <<[s[p.i] EXCEPT !.n = p.a]>> ELSE <<>>)
      [] p.k = "form"  -> [s EXCEPT ![p.i].f = p.a, ![p.i].n = p.a]
      [] p.k = "val"   -> LET v == NewVal(s[p.i], p.a)
                          IN  [s EXCEPT ![p.i].v = v, ![p.i].f = MinForm(v), ![p.i].n = MinForm(v)]
      [] p.k = "flag"  -> [s EXCEPT ![p.i].v = p.a]
      [] p.k = "trail" -> Append(s, O(p.a, "trail"))

(***************************************************************************)
(* The case space: one state = one (shape, perturbation)                   *)
(***************************************************************************)
VARIABLE c

Init == c \in {[sh |-> x, p |-> NoPert] : x \in Shapes}
Next == /\ c.p.k = "none"
        /\ \E s \in {Encode(c.sh)} : \E q \in Perts(c.sh.kind, s) : c' = [c EXCEPT !.p = q]
Spec == Init /\ [][Next]_c

Base(cc)   == Encode(cc.sh)
Layout(cc) == Apply(Base(cc), cc.p)

(***************************************************************************)
(* Invariants (each is evaluated on every case)                            *)
(***************************************************************************)
\* (layouts and verdicts are bound by quantifiers over singleton sets, not by LET: TLC evaluates a bound
\*  value once, whereas it re-evaluates a LET definition that depends on the state at every use)
TypeOK ==
    \A s \in {Layout(c)} : \A d \in {Decode(c.sh.kind, s)} :
        /\ d.v \in {"accept", "refuse", "dep"}
        /\ d.n \in 0..NBytes(s)
        /\ d.v = "refuse" => d.why \in {"truncated", "nonminimal", "oversize", "superfluous", "short", "badflag"}
        /\ \A i \in 1..Len(s) : s[i].n >= 1 /\ (s[i].k = "C" => s[i].n <= s[i].f /\ s[i].f >= MinForm(s[i].v))
        /\ (c.p.k = "none" /\ c.sh.kind # "cs") => AllMinimal(s)

\* BIP141 relations between the sizes of whatever was accepted
SizeLaws ==
    LET TxLaw(x, n) ==
            /\ Size(x) = n                                      \* consumed = total size of the decoded tx
            /\ Size(x) >= NoWitSize(x)
            /\ (Size(x) = NoWitSize(x)) <=> ~x.wit
            /\ x.wit => Size(x) - NoWitSize(x) >= 2 + Len(x.ins) + 1    \* marker, flag, a count per input, one item
            /\ Weight(x) = 4 * NoWitSize(x) + WitSize(x)
            /\ 4 * VSize(x) >= Weight(x) /\ 4 * (VSize(x) - 1) < Weight(x)
            /\ NoWitSize(x) <= VSize(x) /\ VSize(x) <= Size(x)
            /\ NoWitSize(x) >= 10
    IN  \A d \in {Decode(c.sh.kind, Layout(c))} : d.v = "accept" =>
          /\ c.sh.kind = "tx" => TxLaw(d.dec, d.n)
          /\ c.sh.kind = "block" =>
               /\ \A i \in 1..Len(d.txs) : TxLaw(d.txs[i].dec, d.txs[i].size) /\ d.txs[i].nowit = NoWitSize(d.txs[i].dec)
               /\ BlockTotal(d.txs) = d.n
               /\ BlockWeight(d.txs) = 4 * (80 + MinForm(Len(d.txs))) + SumSeq([i \in 1..Len(d.txs) |-> Weight(d.txs[i].dec)])
               /\ BlockWeight(d.txs) >= 4 * BlockBase(d.txs) /\ BlockWeight(d.txs) <= 4 * BlockTotal(d.txs)

\* re-encoding what was decoded gives back the consumed bytes, at the layout level: the same number of
\* bytes and every CompactSize of the re-encoding sits, in the same form with the same value, where the
\* input has one (so every length prefix the reader used was minimal).
RECURSIVE CSetR(_, _, _, _)
\* the complete CompactSize tokens a..b of a layout as <<offset, form, value>> triples; off = offset of token a
CSetR(s, a, b, off) ==
    IF a > b THEN {}
    ELSE IF a = b THEN (IF s[a].k = "C" /\ s[a].n = s[a].f THEN {<<off, s[a].f, s[a].v>>} ELSE {})
    ELSE CSetR(s, a, (a + b) \div 2, off) \cup CSetR(s, (a + b) \div 2 + 1, b, off + BytesR(s, a, (a + b) \div 2))
SameCS(s, e, off) == CSetR(e, 1, Len(e), off) \subseteq CSetR(s, 1, Len(s), 0)
ReencodeIdentity ==
    \A s \in {Layout(c)} : \A d \in {Decode(c.sh.kind, s)} :
        d.v = "accept" =>
          /\ c.sh.kind = "tx" => \A e \in {EncodeTx(d.dec)} : NBytes(e) = d.n /\ SameCS(s, e, 0)
          /\ c.sh.kind = "block" =>
               \A e \in {EncodeBlock([txs |-> [i \in 1..Len(d.txs) |-> d.txs[i].dec]])} :
                   NBytes(e) = d.n /\ SameCS(s, e, 0)

\* canonical encodings are accepted and decode to the transaction they encode; the others are not canonical
RoundTrip ==
    c.p.k = "none" =>
      \A s \in {Layout(c)} : \A d \in {Decode(c.sh.kind, s)} :
          /\ c.sh.kind = "tx" =>
               /\ ValidTx(c.sh.tx) <=> Canonical(s)
               /\ ValidTx(c.sh.tx) => d.v = "accept" /\ d.dec = c.sh.tx /\ d.n = NBytes(s) /\ EncodeTx(d.dec) = s
               /\ (c.sh.tx.wit /\ ~HasWitness(c.sh.tx)) => d.v = "refuse" /\ d.why = "superfluous"
               /\ Size(c.sh.tx) = NBytes(s)
          /\ c.sh.kind = "block" =>
               IF \A i \in 1..Len(c.sh.b.txs) : ValidTx(c.sh.b.txs[i])
               THEN /\ d.v = "accept" /\ d.n = NBytes(s)
                    /\ [i \in 1..Len(d.txs) |-> d.txs[i].dec] = c.sh.b.txs
               ELSE d.v = "refuse"
          /\ c.sh.kind = "cs" => d.v = (IF c.sh.c.f = MinForm(c.sh.c.v) THEN "accept" ELSE "refuse")

\* what each perturbation does to the verdict
PertLaws ==
    \A s0 \in {Base(c)} : \A d0 \in {Decode(c.sh.kind, s0)} :
    \A s \in {Apply(s0, c.p)} : \A d \in {Decode(c.sh.kind, s)} :
        /\ c.p.k = "cut" =>     \* a proper prefix of what an accepting reader consumed is refused: data missing
             /\ (d0.v = "accept" /\ NBytes(s) < d0.n) => d.v = "refuse" /\ d.why = "truncated"
             /\ d0.v # "dep" => d.v # "dep"
        /\ (c.p.k = "form" /\ d0.v # "dep") =>    \* a non-minimal length prefix is always refused
             /\ d.v = "refuse"
             \* ("badflag": the re-encoded count of a transaction without inputs is read as the flag byte)
             /\ d0.v = "accept" => d.why \in {"nonminimal", "badflag"}
        /\ (c.p.k = "val" /\ d0.v # "dep" /\ TooLarge(s[c.p.i].v)) => d.v = "refuse"   \* huge counts / lengths
        /\ c.p.k = "trail" => d.v = d0.v /\ d.n = d0.n /\ d.dec = d0.dec /\ d.txs = d0.txs /\ d.why = d0.why
        /\ (c.p.k = "flag" /\ c.p.a = 0) => \/ d.v = "accept" /\ d.n = 10 /\ d.dec = EmptyTx
                                            \/ d.v = "refuse" /\ d.why = "truncated"
        /\ (c.p.k = "flag" /\ c.p.a # 0) => d.v = "refuse"
        /\ d.v = "accept" => d.n <= NBytes(s)
=============================================================================
