-------------------------------- MODULE Amt --------------------------------
(***************************************************************************)
(* Exact money arithmetic for the specification.  TLC integers are 32 bit, *)
(* satoshi amounts need 64 (and the defects of interest need more: sums    *)
(* that wrap 2^64 in the code).  An amount is a record [h, u, e] of three  *)
(* base-10^8 digits meaning                                                *)
(*        h * 10^16  +  u * 10^8  +  e      satoshi,   0 <= u, e < 10^8    *)
(* Every operation normalises, so digits never leave the 32-bit range.     *)
(* The model never wraps - the code does, and that difference is what C04  *)
(* looks for.                                                              *)
(***************************************************************************)
EXTENDS Integers, Sequences

COIN == 100000000

A(u, e) == [h |-> 0, u |-> u, e |-> e]          \* u BTC + e satoshi
Zero == A(0, 0)
Pow63 == [h |-> 922, u |-> 33720368, e |-> 54775808]   \* 2^63 = 9223372036854775808
MaxMoney == A(21000000, 0)

Norm(h, u, e) == LET u1 == u + (e \div COIN) IN [h |-> h + (u1 \div COIN), u |-> u1 % COIN, e |-> e % COIN]   \* \div floors, % is non-negative

AmtAdd(a, b) == Norm(a.h + b.h, a.u + b.u, a.e + b.e)

AmtLT(a, b) ==
    \/ a.h < b.h
    \/ a.h = b.h /\ a.u < b.u
    \/ a.h = b.h /\ a.u = b.u /\ a.e < b.e
AmtLE(a, b) == a = b \/ AmtLT(a, b)

\* a - b for b <= a (only used for fees of valid transactions)
AmtSub(a, b) == Norm(a.h - b.h, a.u - b.u, a.e - b.e)

AmtPlusSat(a, d) == Norm(a.h, a.u, a.e + d)    \* a + d satoshi, |d| < 10^8

\* (index-based: Head/Tail recursion is quadratic in TLC and some transactions have thousands of outputs)
AmtSumSeq(s) == LET F[i \in 0..Len(s)] == IF i = 0 THEN Zero ELSE AmtAdd(F[i - 1], s[i]) IN F[Len(s)]

InRange(a) == a.h = 0 /\ AmtLE(a, MaxMoney)

\* block subsidy: 50 BTC halved (integer shift) every 210000 blocks, nothing after 64 halvings.
\* 5 000 000 000 = 9765625 * 2^9 does not fit a TLC integer, so the shift is done on that factorisation.
RECURSIVE Pow2(_)
Pow2(k) == IF k = 0 THEN 1 ELSE 2 * Pow2(k - 1)
HalvingInterval == 210000
Subsidy(height) ==
    LET k == height \div HalvingInterval
    IN IF k = 0 THEN A(50, 0)
       ELSE IF k = 1 THEN A(25, 0)
       ELSE IF k <= 9 THEN Norm(0, 0, 9765625 * Pow2(9 - k))
       ELSE IF k <= 33 THEN Norm(0, 0, 9765625 \div Pow2(k - 9))
       ELSE Zero
=============================================================================
