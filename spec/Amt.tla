-------------------------------- MODULE Amt --------------------------------
(***************************************************************************)
(* Exact money arithmetic for the specification.  TLC integers are 32 bit, *)
(* satoshi amounts need 64 (and the defects of interest need more: sums    *)
(* that wrap 2^64 in the code).  An amount is a record [h, u, e] meaning   *)
(*        h * 2^62  +  u * 10^8  +  e      satoshi,    0 <= e < 10^8       *)
(* with u * 10^8 + e < 2^62.  Addition normalises e; the model never       *)
(* wraps - the code does, and that difference is what C04 looks for.       *)
(***************************************************************************)
EXTENDS Integers, Sequences

COIN == 100000000

A(u, e) == [h |-> 0, u |-> u, e |-> e]          \* u BTC + e satoshi
Zero == A(0, 0)
Pow63 == [h |-> 2, u |-> 0, e |-> 0]            \* 2^63
MaxMoney == A(21000000, 0)

Norm(h, u, e) == [h |-> h, u |-> u + (e \div COIN), e |-> e % COIN]

AmtAdd(a, b) == Norm(a.h + b.h, a.u + b.u, a.e + b.e)

AmtLT(a, b) ==
    \/ a.h < b.h
    \/ a.h = b.h /\ a.u < b.u
    \/ a.h = b.h /\ a.u = b.u /\ a.e < b.e
AmtLE(a, b) == a = b \/ AmtLT(a, b)

\* a - b for b <= a (only used for fees of valid transactions)
AmtSub(a, b) == Norm(a.h - b.h, a.u - b.u - 1, a.e - b.e + COIN)

AmtPlusSat(a, d) == Norm(a.h, a.u - 1, a.e + d + COIN)    \* a + d satoshi, |d| < 10^8, a >= 1 BTC

RECURSIVE AmtSumSeq(_)
AmtSumSeq(s) == IF s = <<>> THEN Zero ELSE AmtAdd(Head(s), AmtSumSeq(Tail(s)))

InRange(a) == a.h = 0 /\ AmtLE(a, MaxMoney)

\* block subsidy; only the first two eras are reachable with real chains here
Subsidy(height) == IF height < 210000 THEN A(50, 0) ELSE IF height < 420000 THEN A(25, 0) ELSE A(12, 50000000)
=============================================================================
