----------------------------- MODULE UtxoRecGen -----------------------------
(* G->R export of UtxoRec (run with -workers 1).                             *)
(* Record cases: one line per case with the abstract record (class names,    *)
(* decimal digits of every number) and the model's prediction: encoded size  *)
(* in both formats, the special-script code of every survivor, whether the   *)
(* compressed amount fits 64 bits, and for every probe index whether a       *)
(* single-output lookup finds an output.  The expected decoded VALUE is the  *)
(* record itself (the property is an identity).                              *)
(* Snapshot machine: history variable h (hidden by VIEW); a line is printed  *)
(* for every behaviour that ends with a reload (Open on an existing file) or *)
(* with the Close of the last process (shorter behaviours are prefixes of    *)
(* these); every step carries the set the model expects a reader to see.     *)
EXTENDS UtxoRec, Json

VARIABLE h

gvars == <<vars, h>>
GView == vars

OutJ(o) == [i |-> o.i, a |-> o.a, ak |-> AmtTab[o.a], v |-> o.v, s |-> ScrTab[o.s].name, sl |-> ScrTab[o.s].len]
RecJ(r) == [id |-> r.id, h |-> r.h, cb |-> r.cb, n |-> r.n, outs |-> [j \in 1..Len(r.outs) |-> OutJ(r.outs[j])]]

AllFit(r) == \A j \in 1..Len(r.outs) : Fits64(CompressAmt(r.outs[j].v))
PredJ(r) == [sizeU |-> Size(Enc("U", r)),
             sizeC |-> IF AllFit(r) THEN Size(Enc("C", r)) ELSE -1,
             codes |-> [j \in 1..Len(r.outs) |-> ScrTab[r.outs[j].s].code],
             probes |-> LET P == SeqOf(Probes(r)) IN [j \in 1..Len(P) |-> [i |-> P[j], alive |-> P[j] \in Alive(r)]]]

EmitRec == PrintT(<<"VFT", ToJson([k |-> "rec", c |-> c', rec |-> RecJ(rec'),
                                   pred |-> IF c'.k \in {"dense", "bulk", "wide"} THEN [sizeU |-> -1, sizeC |-> -1, codes |-> <<>>, probes |-> <<>>] ELSE PredJ(rec')])>>)

SetJ == [r \in SnapIds |-> IF truth'[r] = NoRec THEN RecJ(NilRec) ELSE RecJ(truth'[r].rec)]
StepJ == [a |-> c'.k, x |-> c'.x, y |-> c'.y, open |-> db'.open, bit |-> db'.bit, height |-> blk', reload |-> (c'.k = "Open" /\ file.exists),
          fexists |-> file'.exists, fbit |-> file'.bit, fheight |-> file'.height, set |-> SetJ]

EmitSnap == ((c'.k = "Close" /\ opens = MaxOpens) \/ (c'.k = "Open" /\ file.exists)) => PrintT(<<"VFT", ToJson([k |-> "snap", steps |-> h'])>>)

GInit == Init /\ h = <<>>

GNext == \/ RecCase /\ h' = h /\ EmitRec
         \/ SnapStep /\ h' = Append(h, StepJ) /\ EmitSnap

GSpec == GInit /\ [][GNext]_gvars
=============================================================================
