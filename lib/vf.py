"""vf - orchestration core for the gocoin TLA+ model-based checks.

Stdlib only.  One Ctx per check run.  Contract (see MANIFEST.json):
  exit 0  property held on everything explored (evidence rewritten)
  exit 1  a violation reproduced on the real code, line "VIOLATION property=<id> replay=<path>"
  exit 2  anything else (build failure, TLC error, timeout, self-test failure): never a verdict
"""
import json, os, re, shutil, subprocess, sys, tempfile, time, hashlib, random

VERIF = os.path.dirname(os.path.dirname(os.path.abspath(__file__)))
TLA_CP = "/opt/veriftools/tla/tla2tools.jar:/opt/veriftools/tla/CommunityModules-deps.jar"


class Infra(Exception):
    """Machinery problem: exit 2, never a violation."""


class Ctx:
    def __init__(self, pid, tier, seed):
        self.pid = pid
        self.tier = tier
        self.seed = seed
        self.repo = os.environ.get("VERIF_REPO", "/repo")
        base = os.environ.get("VERIF_SCRATCH")
        if not base:
            base = "/dev/shm" if os.path.isdir("/dev/shm") and os.access("/dev/shm", os.W_OK) else tempfile.gettempdir()
        self.scratch = tempfile.mkdtemp(prefix="vf-%s-" % pid, dir=base)
        self.t0 = time.time()
        self.violations = []      # list of (signature, replay path)
        self.known_hits = []      # list of known-finding entries observed
        self.cov = {"samples": []}
        self.assumptions = []
        self.level = "model_checking"
        self._tlc_n = 0
        self._built = {}
        self.rng = random.Random(seed)
        self.findings = load_findings(pid)
        self.log("scratch=%s repo=%s tier=%s seed=%d" % (self.scratch, self.repo, tier, seed))

    # ------------------------------------------------------------------ utils
    def log(self, *a):
        print("[%s %6.1fs]" % (self.pid, time.time() - getattr(self, "t0", time.time())), *a, flush=True)

    def cleanup(self):
        if os.environ.get("VERIF_KEEP"):
            self.log("keeping scratch", self.scratch)
            return
        shutil.rmtree(self.scratch, ignore_errors=True)

    def goenv(self):
        env = dict(os.environ)
        env.update({"GOFLAGS": "-mod=mod", "GOPROXY": "off", "GOSUMDB": "off", "GOTOOLCHAIN": "local",
                    "CGO_ENABLED": env.get("CGO_ENABLED", "1")})
        return env

    # ------------------------------------------------------------------ build
    def build(self, cmd, race=False, tags="verif"):
        """Build harness/cmd/<cmd> against the CURRENT working tree of self.repo. Returns binary path."""
        key = (cmd, race, tags)
        if key in self._built:
            return self._built[key]
        hdir = os.path.join(VERIF, "harness")
        modfile = os.path.join(self.scratch, "go.mod")
        if not os.path.exists(modfile):
            src = open(os.path.join(hdir, "go.mod")).read()
            src = re.sub(r"=> */repo\b", "=> " + self.repo, src)
            open(modfile, "w").write(src)
            open(os.path.join(self.scratch, "go.sum"), "w").write("")
        out = os.path.join(self.scratch, "bin-%s%s" % (cmd, "-race" if race else ""))
        args = ["go", "build", "-modfile=" + modfile, "-tags", tags, "-o", out]
        if race:
            args.append("-race")
        args.append("./cmd/" + cmd)
        t = time.time()
        p = subprocess.run(args, cwd=hdir, env=self.goenv(), stdout=subprocess.PIPE, stderr=subprocess.STDOUT, text=True)
        if p.returncode != 0:
            raise Infra("harness build failed for %s:\n%s" % (cmd, p.stdout[-4000:]))
        self.log("built %s%s in %.1fs" % (cmd, " (race)" if race else "", time.time() - t))
        self._built[key] = out
        return out

    def run(self, argv, timeout=600, env=None, stdin=None, check=False, cwd=None):
        e = self.goenv()
        if env:
            e.update(env)
        try:
            p = subprocess.run(argv, cwd=cwd or self.scratch, env=e, input=stdin, stdout=subprocess.PIPE,
                               stderr=subprocess.PIPE, text=True, timeout=timeout)
        except subprocess.TimeoutExpired:
            raise Infra("timeout after %ds: %s" % (timeout, " ".join(argv[:4])))
        if check and p.returncode != 0:
            raise Infra("command failed rc=%d: %s\n%s\n%s" % (p.returncode, " ".join(argv[:6]), p.stdout[-2000:], p.stderr[-4000:]))
        return p

    # -------------------------------------------------------------------- TLC
    def tlc(self, module, cfg, workers=None, simulate=None, depth=None, timeout=900, heap=None,
            extra=None, defines=None, files=None, deadlock=None, dfs=False, stdout_to=None):
        """Run TLC on spec/<module>.tla with spec/cfg/<cfg>.cfg in a scratch copy of spec/.
        defines: dict name->TLA text, written to a generated module VFDefs.tla? (not used) --
        instead constants may be overridden by substituting @@NAME@@ markers in the cfg.
        files: dict relative name -> content, dropped next to the spec (trace files).
        Returns TLCResult."""
        self._tlc_n += 1
        d = os.path.join(self.scratch, "tlc%d" % self._tlc_n)
        shutil.copytree(os.path.join(VERIF, "spec"), d)
        cfgtxt = open(os.path.join(d, "cfg", cfg + ".cfg")).read()
        for k, v in (defines or {}).items():
            cfgtxt = cfgtxt.replace("@@%s@@" % k, str(v))
        if "@@" in cfgtxt:
            raise Infra("unsubstituted marker in cfg %s: %s" % (cfg, re.findall(r"@@\w+@@", cfgtxt)))
        open(os.path.join(d, module + ".cfg"), "w").write(cfgtxt)
        for name, content in (files or {}).items():
            if isinstance(content, str) and os.path.isabs(content) and os.path.exists(content):
                os.symlink(content, os.path.join(d, name))
            else:
                open(os.path.join(d, name), "w").write(content)
        if workers is None:
            workers = os.cpu_count() or 4
        jtmp = os.path.join(d, "jtmp")      # TLC unpacks its standard modules into java.io.tmpdir and leaves them there
        os.makedirs(jtmp, exist_ok=True)
        java = ["java", "-XX:+UseParallelGC", "-Xss512m", "-Djava.io.tmpdir=" + jtmp]
        java.append("-Xmx%s" % (heap or "8g"))
        if dfs:
            java.append("-Dtlc2.tool.queue.IStateQueue=StateDeque")
        java += ["-cp", TLA_CP, "tlc2.TLC", "-metadir", os.path.join(d, "meta"), "-workers", str(workers),
                 "-config", module + ".cfg", "-noGenerateSpecTE"]
        if simulate:
            java += ["-simulate", simulate]
            if depth:
                java += ["-depth", str(depth)]
            java += ["-seed", str(self.seed)]
        if deadlock is False:
            java.append("-deadlock")
        java += (extra or [])
        java.append(module + ".tla")
        t = time.time()
        outpath = stdout_to or os.path.join(d, "tlc.out")
        with open(outpath, "w") as fo:
            try:
                p = subprocess.run(java, cwd=d, stdout=fo, stderr=subprocess.STDOUT, timeout=timeout)
                rc = p.returncode
            except subprocess.TimeoutExpired:
                rc = -9
        r = TLCResult(module, cfg, outpath, rc, time.time() - t, d)
        self.log("tlc %s/%s rc=%d %.1fs generated=%s distinct=%s%s" % (module, cfg, rc, r.wall, r.generated, r.distinct,
                 " TIMEOUT" if rc == -9 else ""))
        return r

    # --------------------------------------------------------------- verdicts
    def violation(self, signature, replay_obj, what=""):
        """Record a violation reproduced on the real code, unless a known finding covers its signature."""
        for f in self.findings:
            if f.get("status", "open") == "open" and f["signature"] == signature:
                if f not in self.known_hits:
                    self.known_hits.append(f)
                return False
        for sig, _ in self.violations:
            if sig == signature:
                self.dup_violations = getattr(self, "dup_violations", 0) + 1
                return True
        rdir = os.path.join(VERIF, "replays", self.pid)
        os.makedirs(rdir, exist_ok=True)
        name = "%s-seed%d-%d.json" % (self.tier, self.seed, len(self.violations))
        path = os.path.join(rdir, name)
        json.dump({"property": self.pid, "signature": signature, "what": what, "seed": self.seed, "tier": self.tier,
                   "replay": replay_obj}, open(path, "w"), indent=1, default=str)
        self.violations.append((signature, path))
        self.log("violation signature=%s %s" % (signature, what))
        return True

    def sample(self, obj, limit=3):
        if len(self.cov["samples"]) < limit:
            self.cov["samples"].append(obj)

    def finish(self):
        """Write evidence, print verdict lines, return exit code."""
        for f in self.known_hits:
            print("KNOWN-FINDING: property=%s %s" % (self.pid, f["what"]), flush=True)
        for sig, path in self.violations:
            print("VIOLATION property=%s replay=%s" % (self.pid, path), flush=True)
        ev = {"property_id": self.pid, "tier": self.tier, "seed": self.seed, "level": self.level,
              "coverage": self.cov, "assumptions": self.assumptions, "wall_s": round(time.time() - self.t0, 2),
              "violations": len(self.violations)}
        if self.known_hits:
            ev["coverage"]["known_findings_observed"] = [f["signature"] for f in self.known_hits]
        os.makedirs(os.path.join(VERIF, "evidence"), exist_ok=True)
        tmp = os.path.join(VERIF, "evidence", ".%s.tmp" % self.pid)
        json.dump(ev, open(tmp, "w"), indent=1, default=str)
        os.replace(tmp, os.path.join(VERIF, "evidence", "%s.json" % self.pid))
        return 1 if self.violations else 0


class TLCResult:
    def __init__(self, module, cfg, outpath, rc, wall, d):
        self.module, self.cfg, self.outpath, self.rc, self.wall, self.dir = module, cfg, outpath, rc, wall, d
        self.generated = self.distinct = self.depth = None
        self.timeout = rc == -9
        self.errors = []
        self.invariant = None
        self.sim_traces = None
        tail = []
        with open(outpath, errors="replace") as f:
            for line in f:
                if line.startswith('"VF') or line.startswith("<<\"VF"):
                    continue
                tail.append(line)
                if len(tail) > 400:
                    tail.pop(0)
                m = re.match(r"(\d+) states generated, (\d+) distinct states found", line)
                if m:
                    self.generated, self.distinct = int(m.group(1)), int(m.group(2))
                m = re.match(r"The depth of the complete state graph search is (\d+)", line)
                if m:
                    self.depth = int(m.group(1))
                m = re.match(r"Error: Invariant (\S+) is violated", line)
                if m:
                    self.invariant = m.group(1)
                m = re.match(r"Error: Action property (\S+) is violated", line)
                if m:
                    self.invariant = m.group(1)
                if line.startswith("Error:"):
                    self.errors.append(line.strip())
                m = re.match(r"Progress: (\d+) states checked, (\d+) traces generated", line)
                if m:
                    self.generated, self.sim_traces = int(m.group(1)), int(m.group(2))
                m = re.search(r"The number of states generated: (\d+)", line)
                if m:
                    self.generated = int(m.group(1))
        self.tail = "".join(tail[-80:])
        self.ok = (rc == 0 and not self.errors)

    def lines(self, tag):
        """Yield JSON payloads printed by the spec as PrintT(<<tag, ToJson(x)>>) or tag-prefixed strings."""
        pre = '<<"%s", "' % tag
        with open(self.outpath, errors="replace") as f:
            for line in f:
                if line.startswith(pre):
                    s = line.rstrip("\n")
                    s = s[len(pre):]
                    if s.endswith('">>'):
                        s = s[:-3]
                    # TLC prints the TLA string with \" and \\ escapes
                    s = s.replace('\\"', '"').replace("\\\\", "\\")
                    yield s

    def require_ok(self, what=""):
        if not self.ok:
            raise Infra("TLC %s/%s failed (%s) rc=%d\n%s" % (self.module, self.cfg, what, self.rc, self.tail))


def load_findings(pid):
    p = os.path.join(VERIF, "known_findings.json")
    if not os.path.exists(p):
        return []
    return [f for f in json.load(open(p)).get("findings", []) if f["property"] == pid]


def main(checks):
    import argparse
    ap = argparse.ArgumentParser()
    ap.add_argument("pid")
    ap.add_argument("--tier", default=os.environ.get("VERIF_TIER") or "quick", choices=["quick", "thorough"])
    ap.add_argument("--replay")
    a = ap.parse_args()
    seed = int(os.environ.get("VERIF_SEED") or "1")
    if a.pid not in checks:
        print("unknown property", a.pid)
        sys.exit(2)
    ctx = Ctx(a.pid, a.tier, seed)
    rc = 2
    try:
        if a.replay:
            rc = checks[a.pid].replay_cmd(ctx, a.replay)
        else:
            checks[a.pid].run(ctx)
            rc = ctx.finish()
    except Infra as e:
        print("[%s] INFRA: %s" % (a.pid, e), flush=True)
        rc = 2
        if ctx.violations:      # a violation reproduced on the real code stands, whatever broke afterwards
            rc = ctx.finish()
    except Exception:
        import traceback
        traceback.print_exc()
        rc = 2
    finally:
        ctx.cleanup()
    sys.exit(rc)
