"""C17 - per-address balances equal the projection of the UTXO set.

The Ledger scenario families are replayed with the real client/wallet balance index switched on
(callbacks installed by wallet.LoadBalancesFromUtxo, UseMapCnt = 3 so the list->map switch happens), with
BalEnable / BalDisable steps interleaved by the model; after every checked step GetAllUnspent for every
address ever paid and the browsed totals must equal the projection of the UTXO set the model predicts
(which is itself compared with the real UTXO dump)."""
import json
from vf import Infra
import ledger_common as L

KINDS = ("balance",)


def run(ctx):
    quick = ctx.tier == "quick"
    binp = ctx.build("ledger")
    states = transitions = replayed = 0
    fams = [("Rules", 2 if quick else 3), ("ForkA", 5 if quick else 7), ("ForkB", 5 if quick else 7), ("Bal", 5 if quick else 7)]
    first = None
    for fam, depth in fams:
        r = L.mc(ctx, fam, depth, allowbal="TRUE")
        if r.invariant:
            raise Infra("design-level counterexample in Ledger/%s (%s)\n%s" % (fam, r.invariant, r.tail))
        r.require_ok("mc " + fam)
        states += r.distinct
        transitions += r.generated
        ex, lines, scen, n = L.export(ctx, fam, depth, fam, allowbal="TRUE")
        summ, fails = L.split_parallel(ctx, binp, scen, lines, fam, 16, bal=True)
        ctx.log("%s depth %d with balance index: %d transitions replayed, %d failures" % (fam, depth, summ["lines"], summ["fail"]))
        L.report(ctx, fam, fails, KINDS)
        replayed += summ["lines"]
        if first is None:
            first = (scen, lines)
            with open(lines) as fh:
                for i, l in enumerate(fh):
                    if i in (10, 300):
                        ctx.sample(json.loads(l))
    # R->V: seeded random block trees / delivery orders with the index on (and rebuilt now and then)
    ctx.seed += 900
    hist, events, st2 = L.record_validate(ctx, binp, 6 if quick else 60, 14 if quick else 18, 4 if quick else 8, tag="rvbal", bal=True)
    ctx.seed -= 900
    ctx.log("R->V with balance index: %d random histories (%d events)" % (hist, events))
    replayed += hist
    states += st2
    ctx.cov["recorded_random_histories"] = hist
    ctx.level = "model_checking"
    ctx.cov.update({"states": states, "transitions": transitions, "traces_validated_against_impl": replayed,
                    "exhaustive": True, "families": [f for f, _ in fams],
                    "rule": "Ledger families with BalEnable/BalDisable interleaved; every transition replayed on lib/chain with the real client/wallet callbacks; GetAllUnspent + Browse totals compared with the projection of the UTXO set"})
    ctx.assumptions += ["UseMapCnt = 3, minimum indexed value = 100000 satoshi", "P2TR / P2PKH / P2WPKH / P2SH / P2WSH outputs; bare and OP_RETURN-like scripts are not indexed by design"]


def replay_cmd(ctx, path):
    j = json.load(open(path))
    print(json.dumps(j, indent=1)[:4000])
    print("re-run: VERIF_SEED=%d bin/check %s --tier %s" % (j["seed"], j["property"], j["tier"]))
    return 2
