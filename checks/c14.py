"""C14 - wallet keys are a deterministic function of the seed and follow BIP32 / BIP39.

spec/HDPath.tla   the key LIST as a function of the configuration: type 3 = H2(S0 || 0 1 .. i-1); type 4 = walk over
                  hdpath, keycnt children of the last element, hdsubs siblings of the last-but-one (uint32 index
                  arithmetic), which Root / Prnt / Leaf extended public keys are shown, address and export forms per
                  atype / testnet; every key is a symbolic derivation TERM.  BIP39's bit layout is executable.
  1. TLC, exhaustive over bounded configuration families: FollowsPath, HashChain, Deterministic, PubPrivCommute,
     ListedAddressIsSigningKey, ExportReimportIdentity, Refusals, Bip39Layout; three deliberately broken variants
     must be refuted.
  2. the evaluator harness/refhd (BIP32, BIP39, scrypt, RIPEMD-160, Base58Check, Bech32(m), secp256k1 over math/big;
     nothing of gocoin) must pass its self-test and reproduce the BIP32 vectors 1 / 2 of lib/btc/wallethd_test.go and
     the 24 BIP39 vectors of lib/others/bip39/bip39_test.go, read from the repository's sources.
  3. G->R: the configurations TLC enumerates (families thinned by the seed + random walks up to depth 6) are replayed on
     the REAL wallet binary: `wallet -l` twice (determinism), `-dump *`, `-xprv`, `-words`; every listed address, WIF,
     extended key and mnemonic is compared with refhd's evaluation of the model's term; public derivation through
     btc.HDWallet from the printed xpub strings is compared with the private keys for every pair the model names;
     exported WIF / xprv strings are re-imported (btc.DecodePrivateAddr, btc.StringWallet, the binary's .others).
  4. sweep: pseudo-random secrets through btc.PublicFromPrivate against refhd (plus a cheap consistency screen whose
     every hit is judged by refhd), random HD parents x child indexes incl. children whose key / HASH160 starts with a
     zero byte (found by search) through btc.HDWallet against refhd.
  5. binding self-test: corrupted predictions must be rejected by the driver.
"""
import json, os
from vf import Infra
from c13 import lanes, build_wallet, q, count, prime_at_most

INVS = ["TypeOK", "FollowsPath", "HashChain", "Deterministic", "PubPrivCommute", "ListedAddressIsSigningKey",
        "ExportReimportIdentity", "SourceAndSpellingIrrelevant", "Refusals", "Bip39Layout"]
BUGS = [("drop_hardened", "FollowsPath"), ("from_one", "FollowsPath"), ("swap_version", "ListedAddressIsSigningKey")]

BASE = dict(WTYPES="4", MAXDEPTH=1, INDEXES="0", HARDS="TRUE", SUBS="1", KEYCNTS="2", BIP39S="0", SCRYPTS="0",
            ATYPES=q("p2kh"), NETS="FALSE", PASSKINDS=q("ascii"), MNEMS=q("plain"), PASSSRCS=q("file"), SEEDSYNS=q("none"), CFGSYNS=q("plain"))
ALL_AT = q("p2kh", "segwit", "bech32", "tap", "pks")
ALL_PK = q("ascii", "nonascii", "long")
ALL_SRC = q("file", "stdin", "typed", "typedsave", "forceask")
ALL_SEEDSYN = q("none", "empty", "plain", "inner", "padded", "crlf", "qstart", "qend", "qboth", "qinner", "eqhash", "nonascii")
ALL_CFGSYN = q("plain", "quoted", "padded", "crlf", "upperkey", "flags")
ALL_MN = q("plain", "messy", "pass", "pass_space", "pass_lead", "pass_trail", "pass_tab", "pass_nl", "pass_inner", "pass_nonascii", "badsum", "badword")


def fam(**kw):
    d = dict(BASE)
    d.update(kw)
    return d


def families(quick):
    f = []
    f.append(("paths", fam(MAXDEPTH=3 if quick else 4, INDEXES="0,1,2147483647", HARDS="FALSE,TRUE", SUBS="1,2" if quick else "1,2,3",
                           KEYCNTS="2" if quick else "1,3"), 150 if quick else 2500))
    f.append(("forms", fam(WTYPES="3,4", MAXDEPTH=2, INDEXES="0,44", HARDS="FALSE,TRUE", SUBS="2", BIP39S="0,12", ATYPES=ALL_AT, NETS="FALSE,TRUE"),
              120 if quick else 900))
    f.append(("seeds", fam(WTYPES="3,4", KEYCNTS="3", BIP39S="0,12,15,18,21,24,1", SCRYPTS="0,4,10", ATYPES=q("bech32"), PASSKINDS=ALL_PK, MNEMS=ALL_MN),
              1000))
    # how the password reaches the wallet: file, -stdin, typed (with and without saving it, -p), every kind of seed
    f.append(("sources", fam(WTYPES="3,4", MAXDEPTH=2, INDEXES="0,1", HARDS="FALSE,TRUE", SUBS="2", BIP39S="0,12,1", ATYPES=q("p2kh", "bech32"),
                             PASSKINDS=q("ascii", "nonascii"), MNEMS=q("plain", "messy", "pass_trail"), PASSSRCS=ALL_SRC, SEEDSYNS=q("none", "plain")),
              100 if quick else 700))
    # spelling of wallet.cfg: the seed= line (literal key material) and the lines / switches that feed the derivation
    f.append(("syntax", fam(WTYPES="3,4", MAXDEPTH=1 if quick else 2, INDEXES="0,44", HARDS="FALSE,TRUE", SUBS="2", BIP39S="0,12", SCRYPTS="0,4", ATYPES=q("segwit", "tap"),
                            NETS="FALSE" if quick else "FALSE,TRUE", SEEDSYNS=ALL_SEEDSYN, CFGSYNS=ALL_CFGSYN), 150 if quick else 1500))
    return f


def wide():
    return fam(MAXDEPTH=6, INDEXES="0,1,2,44,2147483646,2147483647", HARDS="FALSE,TRUE", SUBS="1,2,3", KEYCNTS="1,2,3",
               BIP39S="0,12,15,18,21,24,1", SCRYPTS="0,4", ATYPES=ALL_AT, NETS="FALSE,TRUE", PASSKINDS=ALL_PK, MNEMS=ALL_MN,
               PASSSRCS=ALL_SRC, SEEDSYNS=ALL_SEEDSYN, CFGSYNS=ALL_CFGSYN)


def estimate(d):
    paths = sum((count(d["INDEXES"]) * count(d["HARDS"])) ** n for n in range(1, int(d["MAXDEPTH"]) + 1))
    base = count(d["KEYCNTS"]) * count(d["ATYPES"]) * count(d["NETS"])
    nb = count(d["BIP39S"])
    seeds4 = (nb - (1 if "1" in d["BIP39S"].split(",") else 0)) * count(d["SCRYPTS"]) * count(d["PASSKINDS"]) + \
             (count(d["SCRYPTS"]) * count(d["MNEMS"]) if "1" in d["BIP39S"].split(",") else 0)
    syn = count(d["PASSSRCS"]) * count(d["SEEDSYNS"]) * count(d["CFGSYNS"])
    seeds4 *= syn
    base *= 1
    n = 0
    if "4" in d["WTYPES"].split(","):
        n += base * count(d["SUBS"]) * paths * seeds4
    if "3" in d["WTYPES"].split(","):
        n += base * count(d["SCRYPTS"]) * count(d["PASSKINDS"]) * syn
    return n


def replay(ctx, binp, wallet, path, tag, workers=16, timeout=3000, first=0):
    d = os.path.join(ctx.scratch, "hd-" + tag)
    os.makedirs(d, exist_ok=True)
    p = ctx.run([binp, "replay", "-in", path, "-wallet", wallet, "-dir", d, "-salt", str(ctx.seed), "-workers", str(workers),
                 "-first", str(first)], timeout=timeout)
    return parse(p)


def parse(p):
    if p.returncode != 0:
        raise Infra("hdpath driver failed: " + p.stderr[-2000:])
    fails, summ = [], None
    for ln in p.stdout.splitlines():
        if not ln.startswith("{"):
            continue
        j = json.loads(ln)
        if j.get("summary"):
            summ = j
        elif not j.get("ok", True):
            fails.append(j)
    if summ is None:
        raise Infra("hdpath driver gave no summary")
    if summ.get("infra"):
        raise Infra("hdpath driver could not judge cases (model / evaluator / binary out of step): %s" % summ["infra"][:3])
    return summ, fails


def export_job(name, d, target, enttable, simulate=None, depth=None, timeout=3000, tlcseed=None):
    def job(c2):
        dd = dict(d, THIN=1, SALT=0)
        if simulate is None:
            thin = prime_at_most(estimate(d) // max(1, target))     # a prime stride does not alias with the enumeration's inner loops
            dd.update(THIN=thin, SALT=c2.seed % thin)
        laneseed = c2.seed
        if tlcseed is not None:
            c2.seed = tlcseed
        try:
            r = c2.tlc("HDPathGen", "HDPath_gen", workers=1, defines=dd, simulate=simulate, depth=depth, timeout=timeout,
                       files={"hd_enttable.json": enttable})
        finally:
            c2.seed = laneseed
        if r.invariant:
            raise Infra("design-level counterexample in HDPath (%s, family %s)\n%s" % (r.invariant, name, r.tail))
        if simulate is None:
            r.require_ok("export " + name)
        elif r.errors:
            raise Infra("simulation export %s failed\n%s" % (name, r.tail))
        path = os.path.join(c2.scratch, "lines-%s.json" % name)
        n, seen = 0, set()
        with open(path, "w") as f:
            for s in r.lines("VFT"):
                if simulate is not None:
                    if s in seen:
                        continue
                    seen.add(s)
                f.write(s + "\n")
                n += 1
        os.remove(r.outpath)
        return name, path, n, r.distinct or 0, r.generated or 0, dd["THIN"]
    return job


def run(ctx):
    quick = ctx.tier == "quick"
    ncpu = os.cpu_count() or 4
    wallet = build_wallet(ctx)
    binp = ctx.build("hdpath")
    states = transitions = 0

    # ---- 2. the evaluator against its own vectors and the vectors in the repository's tests
    p = ctx.run([binp, "vectors", "-repo", ctx.repo], timeout=600)
    if p.returncode != 0:
        raise Infra("hdpath vectors failed: " + p.stderr[-2000:])
    v = json.loads(p.stdout.strip().splitlines()[-1])
    if v.get("fails"):
        raise Infra("the evaluator harness/refhd does not reproduce the published vectors: %s" % v["fails"][:3])
    ctx.cov["evaluator"] = {k: v[k] for k in ("selftest_checks", "bip32_vectors", "bip39_vectors")}

    ent_full = os.path.join(ctx.scratch, "hd_enttable.json")
    ctx.run([binp, "prep", "-salt", str(ctx.seed), "-out", ent_full, "-per", "2" if quick else "8"], check=True)
    ent_none = os.path.join(ctx.scratch, "hd_enttable_none.json")
    open(ent_none, "w").write("[]")

    # ---- 1. the design, exhaustively (all cores), and the broken variants refuted
    mc = fam(WTYPES="3,4", MAXDEPTH=3 if quick else 4, INDEXES="0,1,2147483647", HARDS="FALSE,TRUE", SUBS="1,2,3", KEYCNTS="2" if quick else "1,3",
             BIP39S="0,12,1", SCRYPTS="0,4", ATYPES=q("p2kh", "tap"), NETS="FALSE" if quick else "FALSE,TRUE", MNEMS=q("plain", "badsum", "pass"),
             PASSSRCS=q("file", "stdin", "typedsave"), SEEDSYNS=q("none", "qboth"), CFGSYNS=q("plain", "flags") if not quick else q("plain"))
    r = ctx.tlc("HDPath", "HDPath_mc", defines=dict(mc, BUG="none", INVS=" ".join(INVS)), timeout=3000, files={"hd_enttable.json": ent_full})
    if r.invariant:
        raise Infra("design-level counterexample in HDPath (%s)\n%s" % (r.invariant, r.tail))
    r.require_ok("mc")
    states += r.distinct
    transitions += r.generated
    ctx.cov["mc"] = {"states": r.distinct, "wall_s": round(r.wall, 1)}

    def bugjob(bug, inv):
        def job(c2):
            d = fam(MAXDEPTH=2, INDEXES="0,1,2147483647", HARDS="FALSE,TRUE", SUBS="1,2", NETS="FALSE,TRUE", BUG=bug, INVS="TypeOK " + inv)
            rr = c2.tlc("HDPath", "HDPath_mc", workers=2, defines=d, timeout=900, files={"hd_enttable.json": ent_none})
            if rr.invariant != inv:
                raise Infra("sanity: HDPath with Bug=%s should violate %s, TLC says %s\n%s" % (bug, inv, rr.invariant, rr.tail))
            return "%s violates %s" % (bug, inv)
        return job
    ctx.cov["refuted_variants"] = lanes(ctx, [bugjob(b, i) for b, i in BUGS], max(1, ncpu // 2))

    # ---- 3. export + replay
    jobs = []
    for i, (n, d, t) in enumerate(families(quick)):
        jobs.append(export_job(n, d, t, ent_full if n == "seeds" else ent_none))
    nlanes, nwalk = (1, 150) if quick else (6, 500)
    for k in range(nlanes):
        jobs.append(export_job("walk%d" % k, wide(), 0, ent_none, simulate="num=%d" % nwalk, depth=11, timeout=3000, tlcseed=ctx.seed * 100 + k))
    exported = lanes(ctx, jobs, max(1, ncpu - 2))
    keys = ("lines", "listings", "refusals", "keys_compared", "extended_keys_compared", "public_derivations_compared", "reimports",
            "mnemonics_compared", "bip39_cases", "index_wrap_cases", "wallet_runs")
    total = {k: 0 for k in keys}
    by = {"by_atype": {}, "by_depth": {}, "by_seed": {}, "by_source_syntax_seedline": {}}
    fam_cov = {}
    first = None
    for name, path, n, distinct, generated, thin in exported:
        if n == 0:
            raise Infra("export %s produced no case" % name)
        states += distinct
        transitions += generated
        summ, fails = replay(ctx, binp, wallet, path, name, workers=ncpu)
        for k in keys:
            total[k] += summ[k]
        for b in by:
            for k, v2 in summ[b].items():
                by[b][k] = by[b].get(k, 0) + v2
        fam_cov[name] = {"cases": n, "thin": thin, "states": distinct, "failures": summ["fail"]}
        ctx.log("family %s: %d cases replayed (1 of %d): %d listings, %d refusals, %d keys, %d extended keys, %d public derivations, %d re-imports: %d failures" %
                (name, n, thin, summ["listings"], summ["refusals"], summ["keys_compared"], summ["extended_keys_compared"],
                 summ["public_derivations_compared"], summ["reimports"], summ["fail"]))
        for f in fails:
            ctx.violation(f["sig"], {"case": line_of(path, f["line"]), "salt": ctx.seed, "line": f["line"]},
                          "%s | cmd: %s | wallet.cfg: %s" % (f["what"], " ; ".join(" ".join(c) for c in f.get("cmds", [])), f.get("wallet_cfg", "").replace("\n", " / ")))
        if name == "paths":
            first = path
            with open(path) as fh:
                for i, l in enumerate(fh):
                    if i in (2, 30, 90):
                        j = json.loads(l)
                        ctx.sample({"hdpath": pstr(j["path"]), "hdsubs": j["cfg"]["subs"], "keycnt": j["cfg"]["keycnt"],
                                    "listed_terms": [pstr(k["path"]) for k in j["out"]["keys"]], "xpubs": [x["tag"] + "=" + pstr(x["path"]) for x in j["out"]["xpubs"]]})

    # ---- 4. sweep
    n, pre, hd = (8000, 400000, 64) if quick else (60000, 3000000, 2000)
    sd = os.path.join(ctx.scratch, "sweep")
    os.makedirs(sd, exist_ok=True)
    p = ctx.run([binp, "sweep", "-n", str(n), "-pre", str(pre), "-hd", str(hd), "-salt", str(ctx.seed), "-workers", str(ncpu), "-wallet", wallet, "-dir", sd], timeout=3000)
    summ, fails = parse(p)
    ctx.log("sweep: %s: %d failures" % (summ["sweep"], summ["fail"]))
    for f in fails:
        ctx.violation(f["sig"], {"sweep": {"n": n, "pre": pre, "hd": hd, "salt": ctx.seed}}, f["what"])
    ctx.cov["sweep"] = summ["sweep"]

    # ---- 5. binding self-test
    if not [s for s, _ in ctx.violations if s != "C14:pubkey-parity"]:
        selftest(ctx, binp, wallet, first)

    ctx.level = "exploration"
    ctx.cov.update({"evaluations": total["lines"] + n + pre + summ["sweep"].get("hd_children_compared", 0),
                    "distinct_nontrivial": total["listings"] + total["refusals"] + total["bip39_cases"],
                    "states": states, "transitions": transitions, "families": fam_cov, **total, **by,
                    "rule": "configurations enumerated by TLC from spec/HDPath.tla (breadth-first families thinned by a prime stride chosen by the seed + random "
                            "walks to depth 6); each listed key's derivation term evaluated by harness/refhd and compared with the wallet binary's output; "
                            "seeded key / HD sweeps of lib/btc against refhd"})
    ctx.assumptions += ["IL >= n and child key = 0 cannot be reached by search (probability 2^-127): not exercised",
                        "index arithmetic last + i / prev + s follows the code's uint32 wrap (2^31 - 1 + 1 = hardened 0): BIP32 does not define it; such cases are compared under that reading and counted as index_wrap_cases",
                        "BIP39 passphrases and passwords are byte strings: NFKD normalisation is not exercised (gocoin does none)",
                        "the wallet's taproot addresses commit to the bare key (no BIP341 tweak): compared as the wallet defines them",
                        "litecoin mode, uncompressed keys (-u is refused by the wallet) and the interactive prompts are not covered"]


def pstr(p):
    return "m" + "".join("/%d%s" % (e["n"], "'" if e["h"] else "") for e in p)


def line_of(path, n):
    with open(path) as f:
        for i, l in enumerate(f):
            if i == n:
                return json.loads(l)
    return None


def selftest(ctx, binp, wallet, first):
    mut = os.path.join(ctx.scratch, "mut.json")
    want, kinds, n = set(), {}, 0
    with open(first) as f, open(mut, "w") as g:
        for l in f:
            j = json.loads(l)
            if j["phase"] != "listed" or not j["out"]["ok"]:
                continue
            k = None
            if "index" not in kinds and j["out"]["keys"][0]["path"][-1]["n"] < 100:
                j["out"]["keys"][0]["path"][-1]["n"] += 1       # the first listed key should be the next child
                j["out"]["via"] = []
                k = "index"
            elif "hardened" not in kinds and len(j["path"]) >= 2:
                for key in j["out"]["keys"]:
                    key["path"][0]["h"] = not key["path"][0]["h"]     # every key below the other kind of first element
                j["out"]["via"] = []
                j["out"]["xpubs"] = []
                k = "hardened"
            elif "xpub" not in kinds and len(j["out"]["xpubs"]) >= 2:
                j["out"]["xpubs"] = j["out"]["xpubs"][:-1]             # one extended public key less than shown
                j["out"]["via"] = [v for v in j["out"]["via"] if v[1] <= len(j["out"]["xpubs"])]
                k = "xpub"
            elif "count" not in kinds and len(j["out"]["keys"]) >= 2:
                j["out"]["keys"] = j["out"]["keys"][:-1]
                j["out"]["via"] = [v for v in j["out"]["via"] if v[0] <= len(j["out"]["keys"])]
                k = "count"
            elif "refuse" not in kinds:
                j["out"]["ok"] = False
                j["out"]["why"] = "selftest"
                k = "refuse"
            elif "version" not in kinds:
                j["out"]["form"]["p2pkh"] = 111 - j["out"]["form"]["p2pkh"]
                k = "version"
            if k:
                kinds[k] = True
                g.write(json.dumps(j) + "\n")
                want.add(n)
                n += 1
            if len(kinds) == 6:
                break
    if len(kinds) < 4:
        raise Infra("binding self-test: no suitable cases to corrupt (%s)" % sorted(kinds))
    summ, fails = replay(ctx, binp, wallet, mut, "mut", workers=4)
    got = set(f["line"] for f in fails)
    if got != want:
        raise Infra("binding self-test failed: corrupted predictions %s (%s), driver objected to %s" % (sorted(want), sorted(kinds), sorted(got)))
    ctx.cov["selftest"] = {"corrupted": len(want), "rejected": len(got), "kinds": sorted(kinds)}


def replay_cmd(ctx, path):
    j = json.load(open(path))
    rp = j["replay"]
    wallet = build_wallet(ctx)
    binp = ctx.build("hdpath")
    ctx.seed = rp.get("salt", ctx.seed)
    if "sweep" in rp:
        s = rp["sweep"]
        d = os.path.join(ctx.scratch, "sweep")
        os.makedirs(d, exist_ok=True)
        p = ctx.run([binp, "sweep", "-n", str(s["n"]), "-pre", str(s["pre"]), "-hd", str(s["hd"]), "-salt", str(s["salt"]), "-workers", "8", "-wallet", wallet, "-dir", d], timeout=3000)
        summ, fails = parse(p)
    else:
        pth = os.path.join(ctx.scratch, "one.json")
        open(pth, "w").write(json.dumps(rp["case"]) + "\n")
        summ, fails = replay(ctx, binp, wallet, pth, "rp", workers=1, first=rp.get("line", 0))
    for f in fails:
        print("reproduced:", f["sig"], f["what"])
    return 1 if fails else 0
