"""C08 - secp256k1 field and group arithmetic equals the mathematical definition.

spec/Curve.tla   a sequencer and case oracle (TLC has no 256-bit arithmetic), four parts:
   field     registers = symbolic expression + magnitude + normalised flag + known-zero flag; one action per Field
             method, enabled only inside the magnitude contract; operands 0, 1, p-1, p, p+1, 2^256-1, generic values,
             raw limb patterns at the limit of magnitudes 1 / 8 / 16 / 32 and "0 written as 2m*p"
   group     registers = P(f), f a linear form over 1, k, lambda, 2^128, 2^256-1, 2^200-1; Add / AddXY / Double / Neg /
             ECmult / ECmultGen / SetXO; the model decides infinity, doubling and cancellation cases exactly
   limbs     raw limb patterns: every limb independently from {0, 1, all-ones, all-ones +-1, p's limb there, that +-1}
             (the full product, 5000 patterns) x 8 magnitude variants, with the operations the contract allows
   tables    TableScalar(table, i, j) transcribed from z_init.go + the comb and wNAF identities (checked by TLC on
             scaled-down windows)
   formulas  the field-operation sequences of XYZ.Double / Add / AddXY on magnitudes: every step inside the contract
             for all input magnitudes <= 8, outputs again <= 8 (checked by TLC)
  0. reference self-test (harness/ref against published vectors)
  1. TLC: formulas, tables identities (broken variants refuted), field / group type invariants
  2. G->R: every transition of the abstract state graph (VIEW = representation attributes) is exported with the
     concrete shortest path and replayed on secp256k1.Field / XYZ / XY; the reference evaluates the model's expression /
     form after EVERY step (normalised bytes, infinity flag, magnitudes of the real limbs, observers); every input that
     is not the destination must keep its value, and the group calls are repeated with the same operand objects; plus
     simulated longer behaviours
  3. every table entry the model names is compared with TableScalar*G from the reference
  3b. every limb pattern through every allowed Field method (Normalize, IsOdd, IsZero, GetB32, Equals, Mul, Sqr, Inv,
     InvVar, Negate, SetAdd, MulInt); decompression (SetXO, DecompressPoint, ParsePubkey, ParseXOnlyPubkey, recovery)
     of every point of two long runs of consecutive multiples of G
  4. sweeps: ECmultGen / BaseMultiply / Multiply / BaseMultiplyAdd / GetPublicKey over arithmetic progressions, random
     ECmult, the wNAF and lambda-split identities on the real helpers
  5. binding self-test: exports made with a deliberately wrong model (Bug = negmag, dbl) and corrupted table lines
     must be rejected by the replay
"""
import copy, json, os, threading
from vf import Infra

ALL = '"*"'


def q(names):
    return ",".join('"%s"' % n for n in names)


def driver(ctx, binp, args, timeout=6000):
    p = ctx.run([binp] + args, timeout=timeout)
    if p.returncode != 0:
        raise Infra("curve %s failed: %s" % (args[0], p.stderr[-2000:]))
    fails, summ = [], None
    for ln in p.stdout.splitlines():
        if not ln.startswith("{"):
            continue
        j = json.loads(ln)
        if j.get("summary"):
            summ = j
        elif not j.get("ok", True):
            fails.append(j)
    if summ is None:
        raise Infra("curve %s gave no summary" % args[0])
    return summ, fails


def defs(mode, maxlen=1, fa=ALL, fb=ALL, ga=ALL, gb=ALL, cmax=4, eclen=1, emitat=0, bug="none", invs=None):
    d = dict(MODE=mode, MAXLEN=maxlen, FA=fa, FB=fb, GA=ga, GB=gb, CMAX=cmax, ECLEN=eclen, BUG=bug)
    if invs is None:
        d["EMITAT"] = emitat
    else:
        d["INVS"] = invs
    return d


def lanes(ctx, jobs, width):
    """Run {key: callable(private ctx copy)} on `width` threads (the TLC runs are independent and mostly single-threaded
    exports); returns {key: result}.  Each lane has its own scratch subdirectory."""
    keys = list(jobs)
    res, err = {}, []
    lock = threading.Lock()
    nxt = [0]

    def worker(w):
        c2 = copy.copy(ctx)
        c2.scratch = os.path.join(ctx.scratch, "lane%d" % w)
        os.makedirs(c2.scratch, exist_ok=True)
        c2._tlc_n = 0
        while True:
            with lock:
                i = nxt[0]
                nxt[0] += 1
            if i >= len(keys) or err:
                return
            try:
                res[keys[i]] = jobs[keys[i]](c2)
            except BaseException as e:  # noqa
                err.append(e)
                return

    th = [threading.Thread(target=worker, args=(w,)) for w in range(max(1, min(width, len(keys))))]
    for t in th:
        t.start()
    for t in th:
        t.join()
    if err:
        raise err[0]
    return res


def export(ctx, tag, d, vf, simulate=None, depth=None, timeout=3000):
    r = ctx.tlc("CurveGen", "Curve_gen", workers=1, defines=d, simulate=simulate, depth=depth, timeout=timeout, heap="3g")
    if r.invariant:
        raise Infra("Curve (%s) violates %s\n%s" % (tag, r.invariant, r.tail))
    if not r.ok:
        r.require_ok("export " + tag)
    path = os.path.join(ctx.scratch, "lines-%s.json" % tag)
    n = 0
    seen = set()
    with open(path, "w") as f:
        for s in r.lines(vf):
            if simulate and s in seen:       # simulated behaviours repeat their last-step candidates
                continue
            if simulate:
                seen.add(s)
            f.write(s + "\n")
            n += 1
    if n == 0:
        raise Infra("export %s produced nothing\n%s" % (tag, r.tail))
    os.remove(r.outpath)
    return r, path, n


def record(ctx, fails, mode, extra):
    for f in sorted(fails, key=lambda f: (f["sig"], f.get("raw") or "", f.get("inst") or 0, f.get("step") or 0)):
        rp = dict(extra, mode=mode, raw=f.get("raw"), inst=f.get("inst"), step=f.get("step"), bytes=f.get("bytes"), sig=f["sig"])
        ctx.violation(f["sig"], rp, f["what"] + " " + json.dumps(f.get("bytes") or {}, sort_keys=True)[:900])


def export_sets(quick):
    """The bounded configurations that are exported (tag, line tag, constants, simulation, depth) and the two
    deliberately wrong models of the binding self-test."""
    FSUB_A = q(["B:mid", "B:max", "W:lim:8", "W:kp:32", "B:zero"])
    FSUB_B = q(["B:mid2", "B:p", "W:lim:32", "I:1", "B:pm1"])
    G5 = q(["kA", "nkS", "gA", "inf", "kS"])
    if quick:
        sets = [("F1", "VFF", defs("field", 1), None, None),
                ("F2", "VFF", defs("field", 2, fa=FSUB_A, fb=FSUB_B), None, None),
                ("F3", "VFF", defs("field", 3, emitat=3), "num=80", 3),
                ("G1", "VFG", defs("group", 1, ga=G5, gb=G5), None, None),
                ("G2", "VFG", defs("group", 2, ga=q(["kS", "inf"]), gb=q(["kA", "nkS"]), eclen=0), None, None),
                ("G3", "VFG", defs("group", 3, eclen=3, emitat=3), "num=12", 3)]
    else:
        sets = [("F1", "VFF", defs("field", 2), None, None),
                ("F2", "VFF", defs("field", 3, fa=q(["B:mid", "W:lim:8", "B:max"]), fb=q(["B:p", "W:lim:32", "B:mid2"])), None, None),
                ("F3", "VFF", defs("field", 5, emitat=5), "num=4000", 5),
                ("G1", "VFG", defs("group", 1), None, None),
                ("G2", "VFG", defs("group", 2, ga=q(["kS", "inf", "gA"]), gb=q(["kA", "nkS", "k2S"]), eclen=1), None, None),
                ("G3", "VFG", defs("group", 5, eclen=5, emitat=5), "num=200", 5)]
    SELF = [("field", "negmag", defs("field", 1, fa=q(["W:lim:8", "B:mid"]), fb=q(["B:max"]), bug="negmag"), "VFF", "C08:field:Negate:magnitude"),
            ("group", "dbl", defs("group", 1, ga=q(["kS"]), gb=q(["kA"]), bug="dbl"), "VFG", "C08:group:Double:point")]
    return sets, SELF


def run(ctx):
    quick = ctx.tier == "quick"
    ncpu = os.cpu_count() or 4
    binp = ctx.build("curve")
    cov = ctx.cov
    states = transitions = 0

    # ---- 0. the oracle
    s, _ = driver(ctx, binp, ["selftest"], timeout=600)
    if s["fails"]:
        raise Infra("reference self-test failed: %s" % s["fails"][:5])
    cov["reference_selftest_checks"] = s["checks"]

    # ---- 1. TLC on the design
    # (the field / group / limbs parts are explored by the export runs below, which check TypeOK on the way)
    mc = [("formulas", defs("formulas", invs="TypeOK ContractRespected OutputsBounded")),
          ("tables", defs("tables", invs="TypeOK TablesOK"))]
    BUGS = [("formulas", "dblmag", "ContractRespected"), ("tables", "comb", "TablesOK"), ("tables", "oddtab", "TablesOK")]
    sets, SELF = export_sets(quick)
    jobs = {}
    for tag, d in mc:
        jobs[("mc", tag)] = (lambda d: lambda c2: c2.tlc("Curve", "Curve_mc", workers=2, defines=d, timeout=1800, heap="3g"))(d)
    for mode, bug, inv in BUGS:
        jobs[("bug", bug)] = (lambda m, b, i: lambda c2: c2.tlc("Curve", "Curve_mc", workers=2, defines=defs(m, bug=b, invs=i), timeout=900, heap="3g"))(mode, bug, inv)
    for tag, vf, d, sim, depth in sets + [("T", "VFB", defs("tables", 0), None, None), ("L", "VFL", defs("limbs", 0), None, None)]:
        jobs[("exp", tag)] = (lambda t, v, d, sm, dp: lambda c2: export(c2, t, d, v, simulate=sm, depth=dp))(tag, vf, d, sim, depth)
    for mode, bug, d, vf, want in SELF:
        jobs[("exp", "self-" + bug)] = (lambda b, d, v: lambda c2: export(c2, "self-" + b, d, v))(bug, d, vf)
    tl = lanes(ctx, jobs, max(2, ncpu // 2))
    for tag, d in mc:
        r = tl[("mc", tag)]
        if r.invariant:
            raise Infra("Curve (%s) violates %s: the transcription of xyz.go / z_init.go or the contract is wrong\n%s" % (tag, r.invariant, r.tail))
        r.require_ok("mc " + tag)
        states += r.distinct
        transitions += r.generated
    refuted = []
    for mode, bug, inv in BUGS:
        r = tl[("bug", bug)]
        if r.invariant != inv:
            raise Infra("sanity: Curve %s with Bug=%s should violate %s, TLC says %s\n%s" % (mode, bug, inv, r.invariant, r.tail))
        refuted.append("%s/%s violates %s" % (mode, bug, inv))
    cov["refuted_variants"] = refuted

    # ---- 2. exports and replays
    inst = 2 if quick else 3
    total = {"cases": 0, "steps": 0, "checks": 0, "fail": 0}
    nontriv = 0
    ops, unjudged, skipped = {}, {}, {}
    keep = {}
    for tag, vf, d, sim, depth in sets:
        r, path, n = tl[("exp", tag)]
        if not sim:
            states += r.distinct or 0
            transitions += r.generated or 0
        s, f = driver(ctx, binp, ["replay", "-in", path, "-seed", str(ctx.seed), "-inst", str(inst), "-workers", str(ncpu)])
        if s.get("infra"):
            raise Infra("replay %s: model and reference disagree: %s" % (tag, s["infra"][:3]))
        if s["lines"] != n:
            raise Infra("replay %s consumed %d of %d lines" % (tag, s["lines"], n))
        record(ctx, f, "replay", dict(seed=ctx.seed, ninst=inst))
        ctx.log("%s: %d lines x %d instances, %d operations, %d comparisons: %d failures" % (tag, n, inst, s["steps"], s["checks"], s["fail"]))
        for k in total:
            total[k] += s[k]
        nontriv += s["distinct_nontrivial"]
        for src, dst in ((s["ops"], ops), (s["unjudged"], unjudged), (s["skipped"], skipped)):
            for k, v in src.items():
                dst[k] = dst.get(k, 0) + v
        if tag in ("F1", "G1"):
            keep[tag] = path
            with open(path) as fh:
                for i, l in enumerate(fh):
                    if i == 777:
                        ctx.sample(json.loads(l))
        else:
            os.remove(path)

    # ---- 3. tables
    r, tpath, n = tl[("exp", "T")]
    every = 1     # all 9217 entries in both tiers (8 s of reference CPU)
    s, f = driver(ctx, binp, ["tables", "-in", tpath, "-every", str(every), "-workers", str(ncpu)])
    if s.get("infra"):
        raise Infra("tables: %s" % s["infra"][:3])
    record(ctx, f, "tables", dict(every=every))
    ctx.log("tables: %d of %d entries compared with TableScalar*G: %d failures" % (s["lines"], n, s["fail"]))
    cov["table_entries_named_by_model"] = n
    cov["table_entries_compared"] = s["lines"]
    total["cases"] += s["cases"]
    total["checks"] += s["checks"]
    total["fail"] += s["fail"]
    nontriv += s["distinct_nontrivial"]
    with open(tpath) as fh:
        ctx.sample(json.loads(fh.readlines()[8200]))

    # ---- 3b. raw limb patterns; decompression of long runs of consecutive points
    r, lpath, n = tl[("exp", "L")]
    states += r.distinct or 0
    transitions += r.generated or 0
    s, f = driver(ctx, binp, ["limbs", "-in", lpath, "-seed", str(ctx.seed), "-workers", str(ncpu)])
    if s.get("infra"):
        raise Infra("limbs: %s" % s["infra"][:3])
    if s["lines"] != n:
        raise Infra("limbs consumed %d of %d lines" % (s["lines"], n))
    record(ctx, f, "limbs", dict(seed=ctx.seed))
    ctx.log("limb patterns: %d (pattern, magnitude variant) cases, %d operations, %d comparisons: %d failures" % (n, s["steps"], s["checks"], s["fail"]))
    cov["limb_pattern_cases"] = n
    for k in total:
        total[k] += s[k]
    nontriv += s["distinct_nontrivial"]
    with open(lpath) as fh:
        ctx.sample(json.loads(fh.readlines()[31337]), limit=5)
    nlift = 300000 if quick else 3000000
    s, f = driver(ctx, binp, ["lift", "-n", str(nlift), "-seed", str(ctx.seed), "-workers", str(ncpu)])
    if s.get("infra"):
        raise Infra("lift: %s" % s["infra"][:3])
    record(ctx, f, "lift", dict(seed=ctx.seed, n=nlift))
    ctx.log("decompression of 2 x %d consecutive multiples of G (%d calls): %s" % (nlift, s["steps"], s.get("hits") or "no deviation"))
    cov["lifted_points"] = 2 * nlift
    for k in total:
        total[k] += s[k]
    nontriv += 2 * nlift

    # ---- 4. sweeps
    nsweep = 30000 if quick else 600000
    s, f = driver(ctx, binp, ["sweep", "-n", str(nsweep), "-seed", str(ctx.seed), "-workers", str(ncpu)])
    if s.get("infra"):
        raise Infra("sweep: %s" % s["infra"][:3])
    record(ctx, f, "sweep", dict(seed=ctx.seed, n=nsweep))
    ctx.log("sweeps over %d scalars (%d operations, %d comparisons): %s" % (nsweep, s["steps"], s["checks"], s.get("hits") or "no deviation"))
    cov["sweep_scalars"] = nsweep
    cov["sweep_hits"] = s.get("hits", {})
    for k in total:
        total[k] += s[k]
    nontriv += nsweep

    # ---- 5. binding self-test
    selftest(ctx, binp, tpath, lpath, SELF, tl)

    ctx.level = "exploration"
    cov.update({"states": states, "transitions": transitions,
                "evaluations": total["cases"], "operations_on_real_code": total["steps"], "comparisons": total["checks"],
                "failed_comparisons": total["fail"], "distinct_nontrivial": nontriv,
                "last_operation_of_replayed_lines": ops, "results_not_defined_by_the_property": unjudged, "behaviours_cut_short": skipped,
                "rule": "TLC BFS over the abstract state graph of Curve (VIEW = magnitudes, normalised / zero flags, operand names; forms and "
                        "representations) within the bounds in checks/c08.py, one exported line per transition with a concrete shortest path, "
                        "plus simulated behaviours; every line replayed %d times with fresh generic values; every named table entry; every limb "
                        "pattern of the product class x 8 magnitude variants; every point of two runs of consecutive multiples of G; swept "
                        "scalars. Counted as distinct and non-trivial: distinct exported lines (each exercises at least one Field / XYZ / XY "
                        "method on a boundary operand or a computed value), compared table entries, swept scalars" % inst,
                "exhaustive": False})
    ctx.assumptions += [
        "numeric values come from harness/ref (math/big), self-tested on every run; the specification supplies sequences, representation attributes and the case analysis",
        "the named constants 1, k, lambda, 2^128, 2^256-1, 2^200-1 are independent over small integers: checked numerically for every form evaluated",
        "carry paths inside field_5x52.go are only sampled (boundary operands, limb patterns at the magnitude limits, random values); only the 5x52 build exists on this machine",
        "the square root of a non-residue is not defined by the property: observed, not judged; the inverse of zero is taken to be zero (a^(p-2))",
    ]


def selftest(ctx, binp, tpath, lpath, SELF, tl):
    # a model whose Negate keeps the magnitude, a model whose Double does not double: the replay must object
    for mode, bug, d, vf, want in SELF:
        r, path, n = tl[("exp", "self-" + bug)]
        s, f = driver(ctx, binp, ["replay", "-in", path, "-seed", str(ctx.seed), "-inst", "1", "-workers", "4"])
        sigs = set(x["sig"] for x in f)
        if want not in sigs:
            raise Infra("binding self-test: export with Bug=%s was not rejected with %s (got %s, infra %s)" % (bug, want, sorted(sigs), s.get("infra")))
    # a limb line whose magnitude claim is too small must be refused (the driver checks the claim against the limbs)
    for l in open(lpath):
        j = json.loads(l)
        if j["v"] == {"kind": "mul", "c": 16} and j["l"][1] == "M":
            j["m"] = 2
            break
    p = os.path.join(ctx.scratch, "mut-limbs.json")
    open(p, "w").write(json.dumps(j) + "\n")
    s, f = driver(ctx, binp, ["limbs", "-in", p, "-seed", "1", "-workers", "1"])
    if not s.get("infra"):
        raise Infra("binding self-test: a limb line with a wrong magnitude claim was accepted")
    # corrupted table line
    lines = open(tpath).read().splitlines()
    j = json.loads(lines[5000])
    j["scalar"]["c"] += 2
    p = os.path.join(ctx.scratch, "mut-table.json")
    open(p, "w").write(json.dumps(j) + "\n")
    s, f = driver(ctx, binp, ["tables", "-in", p, "-every", "1", "-workers", "1"])
    if len(f) != 1 or not f[0]["sig"].endswith(":entry"):
        raise Infra("binding self-test: corrupted table scalar was not rejected: %s" % f)


def replay_cmd(ctx, path):
    j = json.load(open(path))
    rp = j["replay"]
    binp = ctx.build("curve")
    mode = rp.get("mode")
    p = os.path.join(ctx.scratch, "one.json")
    if mode == "replay":
        open(p, "w").write(rp["raw"] + "\n")
        s, f = driver(ctx, binp, ["replay", "-in", p, "-seed", str(rp["seed"]), "-inst", str(rp["ninst"]), "-only", str(rp["inst"]), "-workers", "1"])
    elif mode == "tables":
        open(p, "w").write(rp["raw"] + "\n")
        s, f = driver(ctx, binp, ["tables", "-in", p, "-every", "1", "-workers", "1"])
    elif mode == "sweep":
        s, f = driver(ctx, binp, ["sweep", "-n", str(rp["n"]), "-seed", str(rp["seed"]), "-workers", str(os.cpu_count() or 4)])
    elif mode == "limbs":
        open(p, "w").write(rp["raw"] + "\n")
        s, f = driver(ctx, binp, ["limbs", "-in", p, "-seed", str(rp["seed"]), "-workers", "1"])
    elif mode == "lift":
        s, f = driver(ctx, binp, ["lift", "-n", str(rp["n"]), "-seed", str(rp["seed"]), "-workers", str(os.cpu_count() or 4)])
    else:
        print("unknown replay mode", mode)
        return 2
    hit = [x for x in f if x["sig"] == j["signature"]]
    for x in hit[:3]:
        print("reproduced:", x["what"], json.dumps(x.get("bytes") or {}, sort_keys=True))
    return 1 if hit else 0
