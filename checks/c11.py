"""C11 - block processing is race-free and schedule independent; a visible snapshot describes its header block.

spec/UtxoSave.tla   Main / Saver / Writer goroutines of lib/utxo/unspent_db.go, one action per hook-to-hook segment
  1. TLC, all interleavings (<= 3..4 main operations, <= 2 saves + the one Close starts): VisibleSnapshotMatchesHeader,
     NoMutationUnderIteration, TmpNamesDoNotCollide, AbortSendNeverBlocks, deadlock freedom; liveness under weak
     fairness (abortWriting / Close return, saves terminate) in UtxoSave_live.cfg; broken variants must be refuted.
     Save() waits for lastFileClosed before it starts a save (constant WaitWriter = TRUE), so at most one file writer
     exists and the invariants hold unconditionally.  The variant WaitWriter = FALSE (the code before the fix) is refuted
     by TLC (tmp-name collision, torn visible snapshot); its counterexamples are replayed on the code as a regression
     test: the repaired code blocks in Save(), code without the wait reproduces the collision => violation.
  2. G->R, gated: TLC-simulated complete interleavings are forced on the real UnspentDB through verif.Gate; after
     every step files / exported fields / bucket locks are compared with the model and every visible UTXO.db is
     parsed (deterministic watcher).  A subset runs under the race detector.
  3. R->V: hook traces of ungated, VERIF_YIELD-perturbed random histories are validated by TraceUtxoSave (all
     invariants evaluated); watcher goroutine on UTXO.db; also under the race detector.
  4. schedule independence on a real chain: stress driver (blocks engaging every fan-out + Idle/Save/HurryUp/Abort,
     reorganisations) and the Ledger G->R suite (ForkA / ForkB / Rules) re-run for GOMAXPROCS 1,2,4,16 with
     VERIF_YIELD perturbation; results must not depend on the schedule; all of it also under the race detector:
     a report whose two accesses are inside the repository is a violation of the first clause.
     Also: blocks refused inside commitTxs while the script workers of an earlier 150-input transaction run (child
     processes, GOMAXPROCS 1..16, normal + race: refused, state unchanged, no crash), and the background block writer
     (Idle) next to BlockTrusted of written blocks (every record must come back after a reopen).
  5. binding self-tests.
"""
import glob, json, os, re, shutil
from vf import Infra
import ledger_common as L

OPS = '"Commit","Undo","Idle","Save","HurryUp","Abort","Close"'
INVS = "VisibleSnapshotMatchesHeader NoMutationUnderIteration TmpNamesDoNotCollide OneWriterAtATime AbortSendNeverBlocks"


# ----------------------------------------------------------------------------------------------- helpers
def tlc(ctx, *a, **kw):
    """ctx.tlc, repeated when the JVM was killed from outside (SIGTERM/SIGKILL by another user of the machine)."""
    for attempt in range(3):
        r = ctx.tlc(*a, **kw)
        if r.rc not in (143, 137, -15) or r.timeout:
            return r
        ctx.log("TLC was killed from outside (rc=%d): repeating the run" % r.rc)
    return r


def mc(ctx, maxops, rpb, cap, throttle, waitwriter="TRUE", bug="none", invs=INVS, maxsaves=2, cfg="UtxoSave_mc", timeout=3000):
    d = dict(MAXOPS=maxops, MAXSAVES=maxsaves, RPB=rpb, CAP=cap, THROTTLE=throttle, OPS=OPS, WAITWRITER=waitwriter, BUG=bug, INVS=invs)
    if cfg != "UtxoSave_mc":
        d.pop("BUG"); d.pop("INVS")
    return tlc(ctx, "UtxoSave", cfg, defines=d, timeout=timeout)


def lexport(ctx, *a, **kw):
    for attempt in range(3):
        try:
            return L.export(ctx, *a, **kw)
        except Infra as e:
            if not re.search(r"rc=(143|137|-15)\b", str(e)) or attempt == 2:
                raise
            ctx.log("TLC was killed from outside: repeating the Ledger export")


def export(ctx, tag, maxops, rpb, throttle, mode, waitwriter, simulate=None, depth=None, maxsaves=2, timeout=1500):
    d = dict(MAXOPS=maxops, MAXSAVES=maxsaves, RPB=rpb, THROTTLE=throttle, OPS=OPS, WAITWRITER=waitwriter, MODE=mode)
    r = tlc(ctx, "UtxoSaveGen", "UtxoSave_gen", workers=1, defines=d, simulate=simulate, depth=depth, timeout=timeout)
    if not r.ok:
        r.require_ok("export " + tag)
    seen, out = set(), []
    for s in r.lines("VFT"):
        if s not in seen:          # (simulation evaluates the final step more than once)
            seen.add(s)
            out.append(s)
    return r, out


def write_lines(ctx, name, lines):
    p = os.path.join(ctx.scratch, name)
    with open(p, "w") as f:
        for s in lines:
            f.write(s + "\n")
    return p


def race_env(ctx, tag):
    return {"GORACE": "halt_on_error=0 exitcode=0 log_path=%s" % os.path.join(ctx.scratch, "race-" + tag)}


def race_reports(ctx, tag):
    """Parse the detector's reports of a run. Returns (genuine, harness): lists of (signature, text)."""
    genuine, harness = [], []
    repo = os.path.realpath(ctx.repo) + "/"
    for fn in glob.glob(os.path.join(ctx.scratch, "race-" + tag + ".*")):
        txt = open(fn, errors="replace").read()
        for blk in txt.split("=================="):
            if "WARNING: DATA RACE" not in blk:
                continue
            tops = []
            for sec in re.split(r"\n\s*\n", blk):
                m = re.search(r"^(?:Previous )?(?:[Aa]tomic )?(?:[Rr]ead|[Ww]rite) at 0x[0-9a-f]+ by .*?:\n((?:  .*\n?)+)", sec, re.M)
                if not m:
                    continue
                frames = re.findall(r"^  (\S.*)\n\s+(\S+?):(\d+)", m.group(1), re.M)
                top = None
                for fun, path, line in frames:
                    if "/go-" in path or "/go/src/" in path or path.startswith("/usr/lib/go") or "vfAlloc" in fun:
                        continue   # runtime / standard library frame (or the harness's poisoning allocator standing in
                                   # for utxo.Memory_Free): the caller is the one that matters
                    top = (fun.split("(")[0] if not fun.startswith("github.com") else re.sub(r"\(\)$", "", fun), path)
                    break
                tops.append(top)
            if len(tops) < 2 or any(t is None for t in tops[:2]):
                harness.append(("unparsed", blk[:3000]))
                continue
            inrepo = [os.path.realpath(t[1]).startswith(repo) and "/lib/others/verif/" not in t[1] for t in tops[:2]]
            names = sorted("%s@%s" % (t[0].replace("github.com/piotrnar/gocoin/", ""), os.path.basename(t[1])) for t in tops[:2])
            sig = "%s:race:%s" % (ctx.pid, "|".join(names))
            (genuine if all(inrepo) else harness).append((sig, blk[:6000]))
    return genuine, harness


def note_races(ctx, tag, replay):
    g, h = race_reports(ctx, tag)
    for sig, txt in g:
        ctx.violation(sig, dict(replay, race_report=txt), "data race inside the repository (%s)" % sig)
    if h:
        ctx.log("WARNING: %d race report(s) with an access inside the harness (not counted against gocoin): %s" % (len(h), h[0][1][:1500]))
        ctx.cov["harness_race_reports"] = ctx.cov.get("harness_race_reports", 0) + len(h)
    ctx.cov["race_reports_in_repo"] = ctx.cov.get("race_reports_in_repo", 0) + len(g)
    return len(g)


def jlines(p):
    res = []
    for ln in p.stdout.splitlines():
        if ln.startswith("{"):
            try:
                res.append(json.loads(ln))
            except ValueError:
                pass
    return res


def gsig(ctx, f):
    """Signature of a gated-replay failure (stable across seeds for the same defect)."""
    k = f["kind"]
    what = f["what"]
    if k == "collision":
        return "%s:tmp-collision:resave-same-block" % ctx.pid
    if k == "visible" and "before that: writer" in what:
        return "%s:visible:resave-same-block" % ctx.pid
    if k == "visible":
        return "%s:visible:%s" % (ctx.pid, re.sub(r"\d+", "N", what)[:70])
    return "%s:%s:%s" % (ctx.pid, k, re.sub(r"\d+", "N", re.sub(r"\(goroutines:.*", "", what))[:90])


def gated(ctx, binp, path, o, tag, env=None, wait="300s", timeout=3000):
    """Run the gated replay over a file of schedules; the driver stops at a failing line, restart behind it."""
    total = {"lines": 0, "steps": 0, "fail": 0, "aborted_saves": 0, "overlapping": 0, "waited_in_save": 0}
    fails, start = [], 0
    for attempt in range(12):
        d = os.path.join(ctx.scratch, "gr-" + tag)
        os.makedirs(d, exist_ok=True)
        p = ctx.run([binp, "replay", "-in", path, "-opts", json.dumps(o), "-dir", d, "-start", str(start), "-wait", wait], timeout=timeout, env=env)
        shutil.rmtree(d, ignore_errors=True)
        if p.returncode != 0:
            raise Infra("gated replay driver failed rc=%d: %s" % (p.returncode, p.stderr[-3000:]))
        summ = None
        for j in jlines(p):
            if j.get("summary"):
                summ = j
            elif "kind" in j:
                fails.append(j)
        if summ is None:
            raise Infra("gated replay driver gave no summary: " + p.stderr[-2000:])
        for k in total:
            total[k] += summ.get(k, 0)
        if summ["stopped"] < 0:
            return total, fails
        start = summ["stopped"] + 1
    return total, fails


def report_gated(ctx, fails, o, what_prefix=""):
    n = 0
    for f in fails:
        if f["kind"] in ("infra", "deadlock"):
            # no verdicts from timeouts: a goroutine that did not arrive within the (generous) wait is machinery
            raise Infra("gated replay: %s: %s" % (f["kind"], f["what"][:2000]))
        ctx.violation(gsig(ctx, f), {"opts": o, "line": f.get("line"), "step": f.get("step"), "kind": f["kind"], "events": f.get("events")},
                      (what_prefix if f["kind"] in ("collision", "visible") and f.get("n", 0) >= 0 else "") + f["what"])
        n += 1
    return n


def validate(ctx, trace_path, o, throttle, maxsaves):
    d = dict(MAXSAVES=maxsaves, INITH=o["inith"], MAXH=o["maxh"], RPB=o["rpb"], THROTTLE=throttle)
    r = tlc(ctx, "TraceUtxoSave", "UtxoSave_trace", workers=1, defines=d, timeout=3000, files={"trace.ndjson": trace_path})
    hw = None
    for line in open(r.outpath, errors="replace"):
        m = re.search(r'VFREJECT", (\d+)', line)
        if m:
            hw = int(m.group(1))
    if r.ok:
        return True, None, r
    if hw is None and not r.invariant:
        raise Infra("trace validation run broke\n" + r.tail)
    return False, hw, r


def record(ctx, binp, tag, o, traces, ops, seed, env=None):
    tr = os.path.join(ctx.scratch, "trace-%s.ndjson" % tag)
    d = os.path.join(ctx.scratch, "rec-" + tag)
    os.makedirs(d, exist_ok=True)
    p = ctx.run([binp, "record", "-out", tr, "-opts", json.dumps(o), "-seed", str(seed), "-traces", str(traces), "-ops", str(ops), "-dir", d],
                timeout=3000, env=env)
    shutil.rmtree(d, ignore_errors=True)
    if p.returncode != 0:
        raise Infra("record driver failed rc=%d: %s" % (p.returncode, p.stderr[-3000:]))
    js = jlines(p)
    summ = next((j for j in js if j.get("summary")), None)
    if summ is None:
        raise Infra("record driver gave no summary")
    return tr, summ, [j for j in js if "kind" in j]


def stress(ctx, binp, tag, seed, rounds, env=None, compress=False, alloc="goheap"):
    return child(ctx, binp, "stress", tag, ["-seed", str(seed), "-rounds", str(rounds), "-alloc", alloc] + (["-compress"] if compress else []), env)


def child(ctx, binp, cmd, tag, args, env=None):
    """Run a driver that may be killed by the code under test (panic / SIGSEGV in a stray goroutine).
    Returns (summary or None, failures, crash or None)."""
    d = os.path.join(ctx.scratch, "%s-%s" % (cmd, tag))
    os.makedirs(d, exist_ok=True)
    p = ctx.run([binp, cmd, "-dir", d] + args, timeout=3000, env=env)
    shutil.rmtree(d, ignore_errors=True)
    js = jlines(p)
    summ = next((j for j in js if j.get("summary")), None)
    fails = [j for j in js if "kind" in j]
    crash = None
    if p.returncode != 0:
        m = re.search(r"^(panic: .*|fatal error: .*|unexpected fault address.*|\[signal SIG.*)$", p.stderr, re.M)
        repo = os.path.realpath(ctx.repo) + "/"
        fr = re.findall(r"^(\S.*)\n\t(\S+?):(\d+)", p.stderr, re.M)
        top = next((f for f in fr if os.path.realpath(f[1]).startswith(repo) and "/lib/others/verif/" not in f[1]), None)
        if not m or top is None:
            raise Infra("%s driver failed rc=%d: %s" % (cmd, p.returncode, p.stderr[-3000:]))
        i = p.stderr.find(m.group(1))
        crash = {"what": m.group(1), "where": "%s (%s:%s)" % (re.sub(r"\([^()]*\)$", "", top[0]).replace("github.com/piotrnar/gocoin/", ""), os.path.basename(top[1]), top[2]),
                 "func": re.sub(r"\([^()]*\)$", "", top[0]).replace("github.com/piotrnar/gocoin/", ""), "stderr": p.stderr[i:i + 5000]}
    elif summ is None:
        raise Infra("%s driver gave no summary: %s" % (cmd, p.stderr[-2000:]))
    return summ, fails, crash


def report_run(ctx, fails, tag, replay):
    for f in fails:
        if f["kind"] == "infra":
            raise Infra("%s: %s" % (tag, f["what"]))
        sig = "%s:%s:%s:%s" % (ctx.pid, f["kind"], tag.split("-")[0], re.sub(r"\d+", "N", re.sub(r"\b[0-9a-f]{12,}\b", "H", f["what"]))[:70])
        ctx.violation(sig, dict(replay, failure=f), "%s: %s" % (tag, f["what"]))


def ledger_replay(ctx, binp, scen, lines, tag, env):
    """harness/cmd/ledger replay with an environment (GOMAXPROCS, VERIF_YIELD, GORACE); returns (summary, keys)."""
    d = os.path.join(ctx.scratch, "lg-" + tag)
    os.makedirs(d, exist_ok=True)
    p = ctx.run([binp, "replay", "-scenario", scen, "-in", lines, "-dir", d, "-workers", "8", "-maxfail", "100000"], timeout=3000, env=env)
    shutil.rmtree(d, ignore_errors=True)
    if p.returncode != 0:
        raise Infra("ledger driver failed rc=%d: %s" % (p.returncode, p.stderr[-3000:]))
    js = jlines(p)
    summ = next((j for j in js if j.get("summary")), None)
    if summ is None:
        raise Infra("ledger driver gave no summary: " + p.stderr[-1500:])
    keys = set()
    for j in js:
        if "kind" in j:
            if j["kind"] == "infra":
                raise Infra("ledger driver: " + j["what"][:2000])
            keys.add((j["kind"], j.get("b", 0), tuple(j.get("viol") or [])))
    return summ, keys


# ----------------------------------------------------------------------------------------------- the check
def run(ctx):
    quick = ctx.tier == "quick"
    binp = ctx.build("utxosave")
    binr = ctx.build("utxosave", race=True)
    states = transitions = 0
    replayed = traces_ok = 0

    # ---- 1. the design: all interleavings
    sets = [(3, 1, 1, "TRUE"), (3, 1, 1, "FALSE"), (3, 2, 2, "TRUE")]
    if not quick:
        sets += [(4, 1, 1, "TRUE"), (4, 2, 1, "TRUE"), (4, 2, 2, "FALSE"), (5, 1, 1, "TRUE")]
    for maxops, rpb, cap, thr in sets:
        r = mc(ctx, maxops, rpb, cap, thr)
        if r.invariant:
            raise Infra("design-level counterexample in UtxoSave (%s) - model and code must be re-examined\n%s" % (r.invariant, r.tail))
        r.require_ok("mc")
        states += r.distinct
        transitions += r.generated
    r = mc(ctx, 3, 1, 1, "TRUE", cfg="UtxoSave_live", timeout=3000)
    if r.errors:
        raise Infra("liveness (abortWriting / Close return, saves terminate) fails in the model\n" + r.tail)
    r.require_ok("liveness")
    ctx.cov["liveness"] = "AbortReturns, CloseReturns, SaveTerminates hold under weak fairness (%d states, no constraint)" % r.distinct
    if not quick:
        r = mc(ctx, 4, 1, 1, "TRUE", cfg="UtxoSave_live", timeout=3000)
        r.require_ok("liveness 4")
    # broken variants must be refuted (the invariants bite)
    refuted = []
    for bug, inv in (("noabort_undo", "NoMutationUnderIteration"), ("noabort_undo", "VisibleSnapshotMatchesHeader"), ("rename_on_abort", "VisibleSnapshotMatchesHeader")):
        rb = mc(ctx, 3, 1, 1, "TRUE", bug=bug, invs=inv, timeout=900)
        if rb.invariant != inv:
            raise Infra("sanity: variant %s should violate %s, TLC says %s\n%s" % (bug, inv, rb.invariant, rb.tail))
        refuted.append("%s violates %s" % (bug, inv))
    ctx.cov["refuted_variants"] = refuted

    # ---- 1b. the refuted variant WaitWriter = FALSE (Save() without lastFileClosed.Wait(), the code before the fix):
    #          TLC must refute both invariants, and its counterexamples are a regression test of the code:
    #          the repaired Save() blocks where the old model starts the second save (nothing to report);
    #          code without the wait follows the counterexample and shows the collision => violation
    for inv in ("TmpNamesDoNotCollide", "VisibleSnapshotMatchesHeader"):
        rc = mc(ctx, 3, 1, 1, "FALSE", waitwriter="FALSE", invs=inv, timeout=900)
        if rc.invariant != inv:
            raise Infra("sanity: the variant without the wait in Save() should violate %s, TLC says %s\n%s" % (inv, rc.invariant, rc.tail))
        refuted.append("WaitWriter=FALSE violates " + inv)
    reproduced = waited = 0
    for mode, thr in (("collide", "TRUE"), ("visible", "FALSE")):
        rx, lines = export(ctx, "%s-%s" % (mode, thr), 3, 1, thr, mode, "FALSE")
        groups = {}
        for s_ in lines:
            j = json.loads(s_)
            st = j["steps"]
            key = (tuple(x["op"] for x in st if x["op"]), st[-1]["p"], st[-1]["i"], st[-1]["hook"])
            if key not in groups or len(st) < len(json.loads(groups[key])["steps"]):
                groups[key] = s_
        sel = sorted(groups.values(), key=len)[:6]
        if not sel:
            raise Infra("the refuted variant exported no counterexample (%s)" % mode)
        o = dict(nb=2, rpb=1, maxh=2, inith=1, throttle=(thr == "TRUE"), oldmodel=True)
        p = write_lines(ctx, "cx-%s-%s.json" % (mode, thr), sel)
        summ, fails = gated(ctx, binp, p, o, "cx")
        replayed += summ["lines"]
        waited += summ.get("waited_in_save", 0)
        reproduced += report_gated(ctx, fails, o, "Save() starts a save next to a live file writer of an earlier save (counterexample of the variant without lastFileClosed.Wait() reproduced on the real UnspentDB): ")
        if summ["lines"] != summ.get("waited_in_save", 0) + len(fails):
            raise Infra("regression lines: %d replayed, %d blocked in Save(), %d failed - the rest neither blocked nor collided" % (summ["lines"], summ.get("waited_in_save", 0), len(fails)))
    ctx.cov["old_variant_counterexamples"] = {"blocked_in_Save_as_the_repaired_model_predicts": waited, "reproduced_on_the_code": reproduced}

    # ---- 2. gated replay of complete interleavings
    num = 120 if quick else 1200
    fam = [("g1", 5, 2, "TRUE"), ("g2", 5, 1, "FALSE")] + ([] if quick else [("g3", 4, 1, "TRUE")])
    first = None
    aborted = overlapping = 0
    for tag, maxops, rpb, thr in fam:
        rx, lines = export(ctx, tag, maxops, rpb, thr, "full", "TRUE", simulate="num=%d" % num, depth=400)
        if len(lines) < num // 4:
            raise Infra("export %s: only %d complete behaviours of %d simulated\n%s" % (tag, len(lines), num, rx.tail))
        o = dict(nb=2, rpb=rpb, maxh=2, inith=1, throttle=(thr == "TRUE"))
        p = write_lines(ctx, "lines-%s.json" % tag, lines)
        summ, fails = gated(ctx, binp, p, o, tag)
        ctx.log("gated %s: %d interleavings (%d steps, %d aborted saves) replayed, %d failures" %
                (tag, summ["lines"], summ["steps"], summ["aborted_saves"], len(fails)))
        report_gated(ctx, fails, o)
        replayed += summ["lines"]
        aborted += summ["aborted_saves"]
        overlapping += summ["overlapping"]
        if first is None:
            first = (p, o, lines)
            for i in (3, 40):
                if i < len(lines):
                    j = json.loads(lines[i])
                    ctx.sample({"schedule": [[s["p"] + str(s["i"]), s["op"] or s["hook"]] for s in j["steps"]], "final": j["steps"][-1]["pr"]})
        # a subset under the race detector
        sub = write_lines(ctx, "lines-%s-race.json" % tag, lines[:(10 if quick else 150)])
        summ, fails = gated(ctx, binr, sub, o, tag + "r", env=race_env(ctx, "g" + tag), wait="300s")
        report_gated(ctx, fails, o)
        note_races(ctx, "g" + tag, {"cmd": "utxosave replay (race build)", "opts": o, "family": tag})
        replayed += summ["lines"]
    if aborted == 0 and not ctx.violations:
        raise Infra("gated replay did not exercise the abort path")
    if overlapping and not ctx.violations:
        raise Infra("gated replay: %d schedules start a save next to a live writer although the model waits" % overlapping)
    ctx.cov["gated_aborted_saves"] = aborted

    # ---- 3 + 4: the ungated drivers are independent processes: run them four at a time
    import concurrent.futures
    ex = concurrent.futures.ThreadPoolExecutor(4)
    ntr = 20 if quick else 150
    recsets = [("R1", dict(nb=2, rpb=2, maxh=3, inith=1, target_ms=30), "TRUE"),
               ("R2", dict(nb=2, rpb=1, maxh=3, inith=2, target_ms=0), "FALSE"),
               ("R3", dict(nb=2, rpb=2, maxh=2, inith=1, target_ms=400), "TRUE")]
    recjobs = []
    for tag, o, thr in recsets:
        for race in (False, True):
            if race and quick and tag != "R1":
                continue
            env = race_env(ctx, "r" + tag) if race else None
            k = max(5, ntr // 3) if race else ntr
            fut = ex.submit(record, ctx, binr if race else binp, tag + ("r" if race else ""), o, k, 9, ctx.seed * 31 + len(tag) + (7 if race else 0), env)
            recjobs.append((tag, o, thr, race, k, fut))
    # stress chain: GOMAXPROCS x race x record format x allocator of the UTXO records
    #   goheap = the library default; memory = lib/others/memory as the client installs it; poison = freed records
    #   are overwritten with 0xEE and recycled late (any use of a freed record changes the outcome)
    procs = (1, 4, 16) if quick else (1, 2, 4, 16)
    stjobs = []
    if quick:
        plan = [(1, False, False, "goheap"), (4, False, False, "poison"), (16, False, False, "memory"), (16, True, False, "poison"),
                (4, False, True, "memory"), (16, False, True, "poison"), (16, True, True, "goheap")]
    else:
        plan = [(g, False, False, a) for g in procs for a in ("goheap", "poison")] + [(4, False, False, "memory"), (16, False, False, "memory")] + \
               [(g, True, False, "poison") for g in procs] + [(g, False, True, "poison") for g in procs] + [(16, False, True, "goheap"), (4, False, True, "memory")] + \
               [(g, True, True, "goheap") for g in (1, 16)]
    for gmp, race, comp, alloc in plan:
        tag = "s%s%d%s%s" % ("c" if comp else "", gmp, "r" if race else "", alloc[0])
        env = {"GOMAXPROCS": str(gmp)}
        if race:
            env.update(race_env(ctx, tag))
        rounds = (2 if race else 4) if quick else (8 if race else 20)
        stjobs.append((gmp, race, tag, comp, alloc, ex.submit(stress, ctx, binr if race else binp, tag, ctx.seed + gmp, rounds, env, comp, alloc)))
    # refusal inside commitTxs while script workers run (child processes: a crash of the child is the finding),
    # and the block writer next to BlockTrusted (outcome after a reopen)
    chjobs = []
    for gmp in (1, 2, 4, 16):
        for race in (False, True):
            if race and quick and gmp not in (1, 16):
                continue
            tag = "f%d%s" % (gmp, "r" if race else "")
            env = {"GOMAXPROCS": str(gmp)}
            if race:
                env.update(race_env(ctx, tag))
            args = ["-seed", str(ctx.seed + gmp), "-rounds", str((2 if race else 3) if quick else (6 if race else 12))]
            chjobs.append(("refuse", gmp, race, tag, args, ex.submit(child, ctx, binr if race else binp, "refuse", tag, args, env)))
    for gmp in (2, 4, 16):
        for k in range(2 if quick else 6):
            tag = "b%d-%d" % (gmp, k)
            args = ["-seed", str(ctx.seed * 10 + k), "-rounds", "60", "-batch", "400"]
            chjobs.append(("blockdb", gmp, False, tag, args, ex.submit(child, ctx, binp, "blockdb", tag, args, {"GOMAXPROCS": str(gmp)})))
    tag = "b4r"
    args = ["-seed", str(ctx.seed), "-rounds", "20", "-batch", "300"]
    chjobs.append(("blockdb", 4, True, tag, args, ex.submit(child, ctx, binr, "blockdb", tag, args, dict(race_env(ctx, tag), GOMAXPROCS="4"))))

    # Ledger suite: exports first (TLC, sequential), then the replays
    lbin = ctx.build("ledger")
    lbinr = ctx.build("ledger", race=True)
    fams = [("ForkA", 4), ("ForkB", 4)] if quick else [("ForkA", 6), ("ForkB", 6), ("Rules", 3)]
    ljobs = []
    for fam_, depth in fams:
        exr, lines, scen, n = lexport(ctx, fam_, depth, "c11-" + fam_)
        ljobs.append((fam_, depth, 0, 0, False, ex.submit(ledger_replay, ctx, lbin, scen, lines, "base" + fam_, {})))
        confs = [(1, 0), (4, ctx.seed + 1), (16, ctx.seed + 2)] if quick else [(1, 0), (2, ctx.seed), (4, ctx.seed + 1), (16, ctx.seed + 2)]
        for gmp, ys in confs:
            for race in (False, True):
                if race and quick and gmp != 16:
                    continue
                tag = "l%s%d%s" % (fam_, gmp, "r" if race else "")
                env = {"GOMAXPROCS": str(gmp)}
                if ys:
                    env["VERIF_YIELD"] = str(ys)
                if race:
                    env.update(race_env(ctx, tag))
                use = lines
                if race:   # the race build is ~10x slower: every 3rd / 6th (quick: 8th) behaviour
                    allines = open(lines).read().splitlines()
                    use = write_lines(ctx, "ll-%s.json" % tag, allines[::(8 if quick else (6 if fam_ == "Rules" else 3))])
                ljobs.append((fam_, depth, gmp, ys, race, ex.submit(ledger_replay, ctx, lbinr if race else lbin, scen, use, tag, env)))

    # ---- 3. record -> validate (ungated, perturbed), watcher on UTXO.db
    bad_trace = None
    watcher_checks = 0
    for tag, o, thr, race, k, fut in recjobs:
        tr, summ, fails = fut.result()
        report_run(ctx, fails, "record-" + tag, {"cmd": "utxosave record", "opts": o, "seed": ctx.seed})
        watcher_checks += summ["watcher_checks"]
        if race:
            note_races(ctx, "r" + tag, {"cmd": "utxosave record (race build)", "opts": o, "seed": ctx.seed})
        acc, hw, r = validate(ctx, tr, o, thr, max(3, summ["max_saves"]))
        lines = open(tr).read().splitlines()
        if not acc:
            what = "recorded hook trace is not a behaviour of UtxoSave at event %s: %s" % (hw, lines[hw - 1][:200] if hw and hw <= len(lines) else "")
            if r.invariant:
                what = "invariant %s violated on a recorded history (event %s)" % (r.invariant, hw)
            ctx.violation("%s:trace:%s:%s" % (ctx.pid, tag, r.invariant or re.sub(r"\d+", "N", lines[hw - 1] if hw and hw <= len(lines) else "")[:60]),
                          {"opts": o, "trace": lines[max(0, (hw or 1) - 80):(hw or 1) + 1], "tlc": r.tail[-3000:]}, what)
        else:
            traces_ok += k
            states += r.distinct or 0
        ctx.log("trace set %s%s: %d events, %d aborted saves, accepted=%s" % (tag, " (race)" if race else "", summ["events"], summ["aborted_saves"], acc))
        if bad_trace is None and acc and summ["aborted_saves"] > 0:
            bad_trace = (tr, o, thr, max(3, summ["max_saves"]))

    # ---- 4a. stress on a real chain
    refs = set()
    deliveries = 0
    for gmp, race, tag, comp, alloc, fut in stjobs:
        summ, fails, crash = fut.result()
        if crash:
            ctx.violation("%s:crash:stress%s:%s" % (ctx.pid, "-compressed" if comp else "", crash["func"]),
                          {"cmd": "utxosave stress -alloc %s%s" % (alloc, " -compress" if comp else ""), "seed": ctx.seed + gmp, "gomaxprocs": gmp, "race": race, "crash": crash},
                          "stress driver%s: block processing died in %s: %s" % (" (compressed UTXO records)" if comp else "", crash["where"], crash["what"]))
        report_run(ctx, fails, "stress%s-gomaxprocs%d-alloc-%s" % ("compressed" if comp else "", gmp, alloc), {"cmd": "utxosave stress -alloc %s%s" % (alloc, " -compress" if comp else ""), "seed": ctx.seed + gmp, "gomaxprocs": gmp, "race": race})
        if race:
            note_races(ctx, tag, {"cmd": "utxosave stress -alloc %s%s (race build)" % (alloc, " -compress" if comp else ""), "seed": ctx.seed + gmp, "gomaxprocs": gmp})
        if summ:
            refs.add(json.dumps(summ["ref"], sort_keys=True))
            deliveries += summ["deliveries"]
            watcher_checks += summ["watcher_checks"]
    if len(refs) > 1:
        ctx.violation("%s:schedule:stress-reference" % ctx.pid, {"refs": sorted(refs)}, "the unperturbed reference run of the stress chain differs between GOMAXPROCS settings / record formats")
    ctx.log("stress: %d deliveries over GOMAXPROCS %s, %d watcher parses" % (deliveries, list(procs), watcher_checks))
    ctx.cov["stress_deliveries"] = deliveries
    ctx.cov["watcher_checks"] = watcher_checks

    # ---- 4c. refusals inside commitTxs / block writer next to BlockTrusted
    nchild = {"refuse": 0, "blockdb": 0}
    for cmd, gmp, race, tag, args, fut in chjobs:
        summ, fails, crash = fut.result()
        rp = {"cmd": "utxosave %s %s" % (cmd, " ".join(args)), "gomaxprocs": gmp, "race": race}
        if race:
            note_races(ctx, tag, rp)
        if crash:
            ctx.violation("%s:crash:%s:%s" % (ctx.pid, cmd, crash["func"]), dict(rp, crash=crash),
                          "%s driver: the process died in %s: %s%s" % (cmd, crash["where"], crash["what"],
                          " (a block refused inside commitTxs must leave no script worker behind)" if cmd == "refuse" else ""))
        report_run(ctx, fails, "%s-gomaxprocs%d" % (cmd, gmp), rp)
        if summ:
            nchild[cmd] += summ.get("deliveries", 0) + summ.get("blocks", 0)
    ctx.log("refusals inside commitTxs: %d deliveries; block writer vs BlockTrusted: %d blocks stored and read back" % (nchild["refuse"], nchild["blockdb"]))
    ctx.cov["refused_block_deliveries"] = nchild["refuse"]
    ctx.cov["blockdb_blocks_written_next_to_BlockTrusted"] = nchild["blockdb"]

    # ---- 4b. the Ledger G->R suite under GOMAXPROCS x VERIF_YIELD (+ race): the model is schedule-free
    base = {}
    ledger_runs = 0
    for fam_, depth, gmp, ys, race, fut in ljobs:
        summ, keys = fut.result()
        replayed += summ["lines"]
        if gmp == 0:
            base[fam_] = (summ, keys)
            continue
        base_summ, base_keys = base[fam_]
        ledger_runs += 1
        tag = "l%s%d%s" % (fam_, gmp, "r" if race else "")
        if race:
            note_races(ctx, tag, {"cmd": "ledger replay (race build)", "family": fam_, "depth": depth, "gomaxprocs": gmp, "yield": ys})
            if not keys <= base_keys:
                ctx.violation("%s:schedule:ledger:%s" % (ctx.pid, fam_), {"family": fam_, "gomaxprocs": gmp, "yield": ys, "extra": sorted(map(str, keys - base_keys))},
                              "Ledger replay of %s under GOMAXPROCS=%d, yield seed %d (race build) deviates from the model where the default schedule does not" % (fam_, gmp, ys))
        elif summ["fail"] != base_summ["fail"] or keys != base_keys:
            ctx.violation("%s:schedule:ledger:%s" % (ctx.pid, fam_), {"family": fam_, "gomaxprocs": gmp, "yield": ys, "base_fail": base_summ["fail"], "fail": summ["fail"],
                          "diff": sorted(map(str, keys ^ base_keys))},
                          "Ledger replay of %s gives different verdicts / states under GOMAXPROCS=%d, yield seed %d than under the default schedule" % (fam_, gmp, ys))
    ctx.log("ledger suite: %d schedule configurations compared with the default schedule" % ledger_runs)
    ctx.cov["ledger_schedule_runs"] = ledger_runs
    ex.shutdown()

    # ---- 5. binding self-tests (only meaningful when the unmodified inputs were accepted)
    if not ctx.violations:
        selftest(ctx, binp, first, bad_trace)

    ctx.level = "model_checking"
    ctx.cov.update({"states": states, "transitions": transitions, "traces_validated_against_impl": replayed + traces_ok,
                    "gated_interleavings_and_ledger_behaviours_replayed": replayed, "recorded_traces_validated": traces_ok, "exhaustive": True,
                    "rule": "TLC BFS over UtxoSave (constants in checks/c11.py); TLC-simulated complete interleavings forced on lib/utxo.UnspentDB through hook gates; "
                            "perturbed ungated hook traces validated; stress chain + Ledger suite under GOMAXPROCS 1..16 with VERIF_YIELD; all drivers also under the Go race detector"})
    ctx.assumptions += [
        "one model step = the code between two hooks of one goroutine, assumed atomic (every blocking operation is the first operation of its segment); block id = height, the UTXO set of a block is one value per bucket, one record = one 64 KiB chunk",
        "Save() waits for the file writer of the previous save (WaitWriter = TRUE): at most one writer at a time; the variant without the wait is refuted by TLC and its counterexamples are replayed on the code as a regression test (repaired code: Main is seen blocked in lastFileClosed.Wait(); otherwise the collision is reported)",
        "gated runs use UTXO_WRITING_TIME_TARGET = 1 h (no time.After branch fires) or 0; the time.After branches are covered by the model (Timeouts) and by the ungated recorded runs; the channel-full select (100 chunks of 64 KiB) is covered by the model only",
        "Main is one goroutine (as in client/main.go); Relocate / DefragMap / PurgeUnspendable are not driven; os.Create failing in the writer is not modelled",
        "the race detector only sees schedules that happened; a report counts when both conflicting accesses are in repository code (not lib/others/verif, not the harness)",
        "the bucket read locks are redundant for commit/undo once abortWriting has returned (TLC: the early_unlock variant violates nothing); the gated replay still compares them with the model (held until save() returns)"]


def selftest(ctx, binp, first, bad_trace):
    if first is None:
        raise Infra("self-test: nothing exported")
    p, o, lines = first
    # 5a corrupted predictions must be rejected by the gated replay
    muts = []
    for s in lines:
        j = json.loads(s)
        st = j["steps"]
        k = next((i for i, x in enumerate(st) if x["hook"] == "save_exit_sent" and x["ab"]), None)
        if k is not None and not any(m[0] == "ab" for m in muts):
            st[k]["ab"] = False
            muts.append(("ab", json.dumps(j)))
            continue
        k = next((i for i, x in enumerate(st) if x["hook"] == "writer_created" and x["pr"]["tmps"]), None)
        if k is not None and not any(m[0] == "tmp" for m in muts):
            st[k]["pr"]["tmps"] = []
            muts.append(("tmp", json.dumps(j)))
            continue
        k = next((i for i, x in enumerate(st) if x["hook"] == "save_iter" and x["pr"]["quiet"] and x["pr"]["locks"][0]), None)
        if k is not None and not any(m[0] == "lock" for m in muts):
            st[k]["pr"]["locks"] = [False] * len(st[k]["pr"]["locks"])
            muts.append(("lock", json.dumps(j)))
            continue
        k = next((i for i, x in enumerate(st) if x["hook"] == "writer_renamed" and x["pr"]["db"] >= 0 and x["pr"]["dbgood"]), None)
        if k is not None and not any(m[0] == "db" for m in muts):
            st[k]["pr"]["db"] = (st[k]["pr"]["db"] + 1) % 3
            muts.append(("db", json.dumps(j)))
        if len(muts) == 4:
            break
    if len(muts) < 4:
        raise Infra("self-test: no suitable schedules (%s)" % [m[0] for m in muts])
    mp = write_lines(ctx, "mut.json", [m[1] for m in muts])
    summ, fails = gated(ctx, binp, mp, o, "mut", wait="30s")
    kinds = sorted(f["kind"] for f in fails)
    if summ["fail"] != 4 or kinds != sorted(["diverge", "files", "locks", "files"]):
        raise Infra("binding self-test failed: corrupted predictions rejected as %s (expected diverge, files, locks, files)" % kinds)
    # 5b corrupted trace must be rejected by TLC at the corrupted event
    if bad_trace is None:
        raise Infra("self-test: no recorded trace with an aborted save")
    tr, o, thr, ms = bad_trace
    lines = open(tr).read().splitlines()
    k = next(i for i, l in enumerate(lines) if '"save_exit_sent"' in l and '"ab":true' in l)
    lines[k] = lines[k].replace('"ab":true', '"ab":false')
    trm = os.path.join(ctx.scratch, "trace-mut.ndjson")
    open(trm, "w").write("\n".join(lines[:k + 4]) + "\n")
    acc, hw, r = validate(ctx, trm, o, thr, ms)
    if acc or hw != k + 1:
        raise Infra("binding self-test failed: corrupted trace accepted=%s high-water=%s expected %d" % (acc, hw, k + 1))


def replay_cmd(ctx, path):
    j = json.load(open(path))
    rp = j["replay"]
    if "line" in rp and rp.get("line"):
        binp = ctx.build("utxosave")
        p = write_lines(ctx, "one.json", [json.dumps(rp["line"])])
        summ, fails = gated(ctx, binp, p, rp["opts"], "rp", wait="60s")
        for f in fails:
            print("reproduced:", f["kind"], f["what"])
        return 1 if fails else 0
    print(json.dumps({k: v for k, v in rp.items() if k not in ("race_report",)}, indent=1)[:4000])
    if "race_report" in rp:
        print(rp["race_report"])
    print("re-run: VERIF_SEED=%d bin/check %s --tier %s   (race reports: same seed and GOMAXPROCS)" % (j["seed"], j["property"], j["tier"]))
    return 2
