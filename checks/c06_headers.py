"""C06 in header-first mode: spec/HeaderSync.tla (ProcessNewHeader / netBlockReceived / HandleNetBlock /
retry_cached_blocks on top of Chain.AcceptHeader, CommitBlock, MoveToBlock, ParseTillBlock, DeleteBranch) over the
Fork families with every interleaving of header and data arrivals (bounded), exported transition by transition and
replayed on the real lib/chain + client/network by harness/cmd/headersync (tip, full UTXO dump, BlockIndex
membership and "node has data" compared after every checked step).

    import c06_headers
    cov = c06_headers.stage(ctx)      # dict of measured counts; violations go through ctx.violation("C06:hdr:...")

The model describes the code as it is, including the behaviours that break the property (named findings: kf); the
replay must see exactly those failures on the real code, then they are reported. For each repair the model has a
switch; which variant applies is decided by looking at the code under test (two probe histories for lib/chain,
the source text for the three functions of package main that the driver has to transcribe)."""
import concurrent.futures, hashlib, json, os, re, shutil, threading, time
from vf import Infra

# ---------------------------------------------------------------------------------------------- configurations
# (tag, Blocks, family, MaxArrive, HdrOnly, WholeOnly): exported transition by transition (the export run also checks
# the invariants) and replayed
QUICK = [
    ("H0", "H0", "ForkH", 5, "None", "None"),        # A2 header-only while B2 fails: livelock; cached invalid block
    ("H5", "H5", "ForkH", 7, "H5Hdr", "H5Whole"),    # C1 C2 withheld: stranded after a failed reorganisation
    ("H2", "H2", "ForkH", 8, "None", "H2Whole"),     # data for a header that was deleted with its invalid parent
    ("H3", "H3", "ForkH", 4, "None", "None"),        # PostCheckBlock failure below a header
]
QUICK_MC = [("H1", "H1", "ForkH", 5, "None", "None")]     # model checking only (more workers)
QUICK_CAP = 700         # behaviours replayed per configuration in the quick tier (all findings + a seeded sample)
# simulation over the complete families: (family, depth, behaviours)
QUICK_SIM = [("ForkA", 12, 6), ("ForkB", 12, 6), ("ForkC", 12, 6), ("ForkD", 12, 6)]
THOROUGH = [
    ("H1", "H1", "ForkH", 6, "None", "None"),
    ("H2", "H2", "ForkH", 5, "None", "None"),
    ("H2w", "H2", "ForkH", 8, "None", "H2Whole"),
    ("H3", "H3", "ForkH", 6, "None", "None"),
    ("H4", "H4", "ForkH", 4, "None", "None"),
    ("H5", "H5", "ForkH", 7, "H5Hdr", "H5Whole"),
    ("H6", "H6", "ForkH", 8, "H6Hdr", "H6Whole"),       # three branches, A3 and C3 withheld
    ("A5", "A5", "ForkA", 5, "None", "None"),
    ("B7", "B7", "ForkB", 5, "None", "None"),
    ("C5", "C5", "ForkC", 5, "None", "None"),
    ("D5", "D5", "ForkD", 6, "None", "None"),
]
# (measured once with H1@7 H3@7 H6@10 A5@6 A7@5 C5@6: 164182 behaviours, 1.16 million steps replayed, 27 min: all agree)
THOROUGH_MC = [("H1", "H1", "ForkH", 8, "None", "None"), ("A5", "A5", "ForkA", 7, "None", "None"), ("D5", "D5", "ForkD", 7, "None", "None")]
THOROUGH_SIM = [("ForkA", 18, 80), ("ForkB", 20, 80), ("ForkC", 16, 80), ("ForkD", 18, 80), ("ForkH", 22, 100)]

NOTE_TAGS = ["hdr-new", "hdr-old", "hdr-fresh", "hdr-orphan", "hdr-rejected", "side", "connected", "cached", "undo", "reorg",
             "retried", "tip-refused", "branch-deleted", "postcheck-refused", "not-yet-committed", "far-missing-data",
             "cache-wrong-delete", "parent-discarded", "retry-gap", "detached-refused", "cached-discarded"]

FINDINGS = {
    "livelock": "after a reorganisation failed at an invalid block, ParseTillBlock asks FindFarthestNode for the next "
                "destination; that node may be a header whose data is not held while all blocks before it are: "
                "MoveToBlock -> ParseTillBlock ('not yet commited') -> FindFarthestNode (same node) -> MoveToBlock ... "
                "recurse without bound and the process dies with 'fatal error: stack overflow' (lib/chain/chain_tree.go "
                "ParseTillBlock, last lines)",
    "stranded": "after a reorganisation failed at an invalid block, FindFarthestNode returns a header chain with missing "
                "data; MoveToBlock refuses ('cannot continue A1') and the tip stays where the failed reorganisation "
                "stopped, although the previous active branch (complete, valid) has more work (lib/chain/chain_tree.go "
                "ParseTillBlock, last lines)",
    "panic": "ParseTillBlock deletes an invalid block's branch with DeleteBranch(nxt, nil): the client is not told, "
             "BlocksToGet keeps the deleted nodes; when data for such a node arrives HasAllParents is true (the deleted "
             "parents still have TxCount != 0), CommitBlock reorganises towards a node that is not in the tree and "
             "FindPathTo panics ('unknown path to block') after the old branch was already undone "
             "(lib/chain/chain_accept.go CommitBlock / chain_tree.go ParseTillBlock; client/main.go HandleNetBlock)",
    "cachedel": "a cached block that fails LocalAcceptBlock is removed from CachedBlocks by network.DiscardBlock and a "
                "second time by retry_cached_blocks: network.CachedBlocksDel panics (client/main.go retry_cached_blocks)",
    "cachedrop": "a cached block that fails LocalAcceptBlock is removed from CachedBlocks by network.DiscardBlock; the "
                 "second CachedBlocksDel in retry_cached_blocks then deletes the only other cached block of that height: "
                 "that block's data is lost while ReceivedBlocks still lists it (client/main.go retry_cached_blocks, "
                 "client/network/vars.go CachedBlocksDel)",
}

# the functions of the client that the driver transcribes (package main / unexported): normalised source text
TRANSCRIBED = {
    "client/main.go": ["retry_cached_blocks", "HandleNetBlock", "CheckParentDiscarded"],
}
KEY_STATEMENTS = {   # statements whose order the transcription relies on, in longer functions
    ("client/main.go", "LocalAcceptBlock"): [r"Unspent\.AbortWriting\(\)", r"Blocks\.BlockAdd\(newbl\.BlockTreeNode\.Height, bl\)",
                                             r"bl\.LastKnownHeight = network\.LastCommitedHeader\.Height",
                                             r"e = common\.BlockChain\.CommitBlock\(bl, newbl\.BlockTreeNode\)",
                                             r"highestAcceptedBlock = bl\.Height", r"network\.DiscardBlock\(newbl\.BlockTreeNode\)"],
    ("client/network/data.go", "netBlockReceived"): [r"ReceivedBlocks\[idx\]; got", r"b2g := BlocksToGet\[idx\]", r"c\.ProcessNewHeader\(b\[:80\]\)",
                                                     r"common\.BlockChain\.PostCheckBlock\(b2g\.Block\)", r"b2g\.Block\.MerkleRootMatch\(\)",
                                                     r"DelB2G\(idx\)", r"common\.BlockChain\.DeleteBranch\(b2g\.BlockTreeNode, delB2G_callback\)",
                                                     r"ReceivedBlocks\[idx\] = orb", r"DelB2G\(idx\)", r"queueNewBlock\("],
    ("client/network/hdrs.go", "ProcessNewHeader"): [r"DiscardedBlocks\[bl\.Hash\.BIdx\(\)\]", r"ReceivedBlocks\[bl\.Hash\.BIdx\(\)\]",
                                                     r"BlocksToGet\[bl\.Hash\.BIdx\(\)\]", r"common\.BlockChain\.PreCheckBlock\(bl\)",
                                                     r"common\.BlockChain\.AcceptHeader\(bl\)", r"AddB2G\(b2g\)"],
}


def _func_text(path, name):
    src = open(path, errors="replace").read()
    m = re.search(r"^func (\([^)]*\) )?%s\(" % re.escape(name), src, re.M)
    if not m:
        return None
    i = src.index("{", m.end())
    depth, j = 0, i
    while j < len(src):
        if src[j] == "{":
            depth += 1
        elif src[j] == "}":
            depth -= 1
            if depth == 0:
                break
        j += 1
    body = src[m.start():j + 1]
    body = re.sub(r"//[^\n]*", "", body)
    return re.sub(r"\s+", " ", body).strip()


def client_variant(ctx):
    """Which transcription of package main applies. Unknown text => Infra (the driver's copy would be stale)."""
    fix_cachedel = False
    digests = {}
    for rel, names in TRANSCRIBED.items():
        for name in names:
            t = _func_text(os.path.join(ctx.repo, rel), name)
            if t is None:
                raise Infra("c06_headers: %s no longer has func %s (the driver transcribes it)" % (rel, name))
            digests[name] = hashlib.sha256(t.encode()).hexdigest()[:16]
    t = _func_text(os.path.join(ctx.repo, "client/main.go"), "retry_cached_blocks")
    unconditional = re.search(r"e := LocalAcceptBlock\(newbl\) if e != nil \{[^}]*\} if usif\.Exit_now\.Get\(\) \{ return false \} network\.CachedBlocksDel\(newbl\)", t)
    guarded = re.search(r"if e == nil \{ network\.CachedBlocksDel\(newbl\) \}", t)
    if guarded and not unconditional:
        fix_cachedel = True
    elif not unconditional:
        raise Infra("c06_headers: client/main.go retry_cached_blocks changed in a way the driver's transcription does not know "
                    "(digest %s); re-transcribe harness/cmd/headersync" % digests["retry_cached_blocks"])
    for name in ("HandleNetBlock", "CheckParentDiscarded"):
        want = EXPECTED_DIGEST.get(name)
        if want and digests[name] != want:
            raise Infra("c06_headers: client/main.go %s changed (digest %s, transcribed from %s); re-transcribe harness/cmd/headersync"
                        % (name, digests[name], want))
    for (rel, name), pats in KEY_STATEMENTS.items():
        t = _func_text(os.path.join(ctx.repo, rel), name)
        if t is None:
            raise Infra("c06_headers: %s no longer has func %s" % (rel, name))
        pos = 0
        for p in pats:
            m = re.compile(p).search(t, pos)
            if not m:
                raise Infra("c06_headers: %s %s no longer has the statement /%s/ in the transcribed order" % (rel, name, p))
            pos = m.end()
    return fix_cachedel, digests


EXPECTED_DIGEST = {"HandleNetBlock": "e2f1b135ca607064", "CheckParentDiscarded": "dcf390a2f966aa8e"}

# ---------------------------------------------------------------------------------------------- TLC plumbing
_tlc_lock = threading.Lock()


def _tlc(ctx, *a, **kw):
    # Ctx.tlc numbers its scratch directories with an unguarded counter: serialise the start of the runs
    res = {}

    def go():
        try:
            res["r"] = ctx.tlc(*a, **kw)
        except BaseException as e:      # noqa
            res["e"] = e
    with _tlc_lock:
        n = ctx._tlc_n
        th = threading.Thread(target=go)
        th.start()
        for _ in range(500):            # until the run has taken its number and copied the specification
            if "e" in res or (ctx._tlc_n > n and os.path.isdir(os.path.join(ctx.scratch, "tlc%d" % (n + 1), "cfg"))):
                break
            time.sleep(0.02)
    th.join()
    if "e" in res:
        raise res["e"]
    return res["r"]


def _defs(cfg, fixes, kfinv="OnlyNamedFindings", emitat=0, maxarrive=None):
    tag, blocks, fam, ma, hdr, whole = cfg
    f = lambda b: "TRUE" if b else "FALSE"
    return dict(BLOCKS=blocks, FAM=fam, MAXARRIVE=maxarrive or ma, FIXFARTHEST=f(fixes["farthest"]), FIXCACHEDEL=f(fixes["cachedel"]),
                FIXDETACHED=f(fixes["detached"]), HDRONLY=hdr, WHOLEONLY=whole, KFINV=kfinv, EMITAT=emitat)


def mc(ctx, cfg, fixes, kfinv, workers=3, timeout=1500):
    return _tlc(ctx, "HeaderSync", "HeaderSync_mc", workers=workers, defines=_defs(cfg, fixes, kfinv), timeout=timeout, heap="3g")


def export(ctx, cfg, fixes, kfinv, tag, simulate=None, depth=None, timeout=1500):
    d = _defs(cfg, fixes, kfinv, emitat=depth or 0, maxarrive=(depth + 2) if depth else None)
    r = _tlc(ctx, "HeaderSyncGen", "HeaderSync_gen", workers=1, defines=d, simulate=simulate, depth=depth, timeout=timeout, heap="3g")
    if r.invariant:
        raise Infra("design-level counterexample in HeaderSync/%s (%s): a behaviour of the model of the code breaks the property "
                    "in a way that is not a named finding\n%s" % (tag, r.invariant, r.tail))
    r.require_ok("export " + tag)
    path = os.path.join(ctx.scratch, "hs-lines-%s.json" % tag)
    scen = os.path.join(ctx.scratch, "hs-scen-%s.json" % tag)
    n = 0
    seen = set()
    notes = set()
    with open(path, "w") as f:
        for s in r.lines("VFT"):
            if simulate:
                if s in seen:
                    continue
                seen.add(s)
            for m in re.finditer(r'"notes":\[([^\]]*)\]', s):
                notes.update(x.strip('"') for x in m.group(1).split(",") if x)
            f.write(s + "\n")
            n += 1
    r.notes = notes
    ss = list(r.lines("VFS"))
    if not ss:
        raise Infra("export %s printed no scenario" % tag)
    open(scen, "w").write(ss[0])
    if n == 0:
        raise Infra("export %s printed no behaviours" % tag)
    return r, path, scen, n


def replay(ctx, binp, scen, lines, tag, fixes, procs=8, timeout=3000):
    d = os.path.join(ctx.scratch, "hs-" + tag)
    os.makedirs(d, exist_ok=True)
    p = ctx.run([binp, "replay", "-scenario", scen, "-in", lines, "-dir", d, "-procs", str(procs)], timeout=timeout,
                env={"HS_FIXCACHEDEL": "1" if fixes["cachedel"] else "0"})
    shutil.rmtree(d, ignore_errors=True)
    if p.returncode != 0:
        raise Infra("headersync driver failed rc=%d: %s" % (p.returncode, p.stderr[-3000:]))
    out, summary = [], None
    for ln in p.stdout.splitlines():
        if not ln.startswith("{"):
            continue
        j = json.loads(ln)
        if j.get("summary"):
            summary = j
        else:
            out.append(j)
    if summary is None:
        raise Infra("headersync driver gave no summary: " + p.stdout[-500:] + p.stderr[-1500:])
    return summary, out


def report(ctx, tag, results):
    """Turn driver results into violations (signatures C06:hdr:...)."""
    n = 0
    for r in results:
        k = r.get("kind", "")
        if k == "" or r.get("obs") is not None:
            continue
        if k == "infra":
            raise Infra("headersync driver: " + r.get("what", ""))
        rep = {"config": tag, "line": r.get("line"), "step": r.get("step"), "kind": k, "observed": r.get("what", "")[:3000]}
        if k == "finding":
            sig = "C06:hdr:%s" % r["kf"]
            what = "header-first: " + FINDINGS.get(r["kf"], r["kf"]) + " -- reproduced: " + _history(r.get("line"))
        else:
            sig = "C06:hdr:%s:%s:b%d" % (k, tag, r.get("b", 0))
            what = "header-first, %s: %s -- history: %s" % (tag, r.get("what", "")[:400], _history(r.get("line")))
        ctx.violation(sig, rep, what)
        n += 1
    return n


def _history(line):
    if not line:
        return "?"
    st = line.get("steps") or (line.get("path", []) + [line["last"]])
    return " ".join("%s(%d)" % (s["a"], s["b"]) for s in st)


# ---------------------------------------------------------------------------------------------- probes, self-test
def probe(ctx, binp):
    """Decide which variant of lib/chain is under test: two fixed histories (see `headersync probe`) are run on it."""
    d = os.path.join(ctx.scratch, "hs-probe")
    p = ctx.run([binp, "probe", "-dir", d], timeout=300)
    shutil.rmtree(d, ignore_errors=True)
    obs = {}
    for ln in p.stdout.splitlines():
        if ln.startswith("{"):
            j = json.loads(ln)
            if "obs" in j and j["obs"] is not None:
                obs[j["n"]] = j["obs"]
    far, det = obs.get(0, {}), obs.get(1, {})
    fix_far = not far.get("crash") and far.get("tip") == 1
    fix_det = not det.get("crash") and det.get("tip") == 2
    ctx.log("probes: farthest -> %s ; detached -> %s" % ((far.get("crash") or "tip %s" % far.get("tip"))[:60],
                                                        (det.get("crash") or "tip %s" % det.get("tip"))[:60]))
    return fix_far, fix_det


def sample_lines(ctx, lines, cap, tag):
    """quick tier: every behaviour that ends in a finding (a few per class) and a seeded sample of the others."""
    keep, rest, per = [], [], {}
    with open(lines) as f:
        for l in f:
            m = re.search(r'"kf":"(\w+)"', l[-400:]) or re.search(r'"kf":"(\w+)"', l)
            if m:
                per[m.group(1)] = per.get(m.group(1), 0) + 1
                if per[m.group(1)] <= 6:
                    keep.append(l)
            else:
                rest.append(l)
    if len(rest) > cap:
        rest = ctx.rng.sample(rest, cap)
    out = os.path.join(ctx.scratch, "hs-sample-%s.json" % tag)
    with open(out, "w") as g:
        g.writelines(keep + rest)
    return out, len(keep) + len(rest)


def selftest(ctx, binp, scen, lines, fixes):
    """Corrupted predictions must be rejected by the driver."""
    mut = os.path.join(ctx.scratch, "hs-mut.json")
    want = []
    with open(lines) as f, open(mut, "w") as g:
        for l in f:
            j = json.loads(l)
            la = j.get("last")
            if not la or la["p"]["kf"]:
                continue
            p = la["p"]
            if "hasdata" not in want and la["a"] != "AcceptHeader" and p["acc"] and len(p["hasdata"]) >= 2:
                p["hasdata"] = p["hasdata"][1:]
                want.append("hasdata")
            elif "tip" not in want and p["tip"] != 0 and "connected" in p["notes"]:
                p["tip"] = 0
                want.append("tip")
            elif "utxo" not in want and p["unew"] and "hasdata" in want:
                p["unew"] = p["unew"][1:]
                want.append("utxo")
            elif "hdrs" not in want and la["a"] == "AcceptHeader" and p["acc"]:
                p["hdrs"] = [b for b in p["hdrs"] if b != la["b"]]
                want.append("hdrs")
            elif "nofail" not in want and la["a"] != "AcceptHeader" and "tip" in want:
                p["kf"] = "livelock"
                want.append("nofail")
            else:
                continue
            g.write(json.dumps(j) + "\n")
            if len(want) == 5:
                break
    if len(want) < 5:
        raise Infra("header self-test: no suitable lines (%s)" % want)
    summ, res = replay(ctx, binp, scen, mut, "mut", fixes, procs=2, timeout=300)
    got = sorted(r.get("kind", "") for r in res)
    if got != sorted(want):
        raise Infra("header binding self-test failed: corrupted %s, driver rejected %s" % (sorted(want), got))


# ---------------------------------------------------------------------------------------------- the stage
def stage(ctx):
    quick = ctx.tier == "quick"
    t0 = time.time()
    binp = ctx.build("headersync")
    fix_cachedel, digests = client_variant(ctx)
    fixes = {"farthest": False, "detached": False, "cachedel": fix_cachedel}
    cfgs, mcs, sims = (QUICK, QUICK_MC, QUICK_SIM) if quick else (THOROUGH, THOROUGH_MC, THOROUGH_SIM)
    cores = os.cpu_count() or 4
    cov = {"states": 0, "transitions": 0, "replayed": 0, "replayed_steps": 0, "exported": 0, "findings": {}, "configs": [],
           "retry_gap_lines": 0}
    fixes["farthest"], fixes["detached"] = probe(ctx, binp)
    allfixed = all(fixes.values())
    kfinv = "NoFinding" if allfixed else "OnlyNamedFindings"
    ctx.log("header-first model variant: %s (client text digests %s)" % (fixes, digests))

    pool = concurrent.futures.ThreadPoolExecutor(max(4, cores // 2))
    jobs = {}
    for cfg in cfgs:
        jobs[("gen", cfg[0])] = pool.submit(export, ctx, cfg, fixes, kfinv, cfg[0])
    for fam, depth, num in sims:
        cfg = ("sim" + fam, fam, fam, depth, "None", "None")
        jobs[("sim", fam)] = pool.submit(export, ctx, cfg, fixes, kfinv, "sim" + fam, "num=%d" % num, depth)
    for cfg in mcs:
        jobs[("mc", cfg[0])] = pool.submit(mc, ctx, cfg, fixes, kfinv, 4)
    # the repaired design must leave nothing to exempt; the design as it is must be refuted without the exemptions
    repaired = {"farthest": True, "detached": True, "cachedel": True}
    for cfg in ([c for c in cfgs if c[0] in ("H5", "H2")] if quick else cfgs):
        jobs[("fixed", cfg[0])] = pool.submit(mc, ctx, cfg, repaired, "NoFinding", 2 if quick else 4)
    if not allfixed:
        jobs[("strict", cfgs[0][0])] = pool.submit(mc, ctx, cfgs[0], fixes, "NoFinding", 1)

    first = None
    notes_seen = set()
    procs = max(4, cores)
    todo = [("gen", c[0]) for c in cfgs] + [("sim", s_[0]) for s_ in sims]
    for kind, tag in todo:
        ex, lines, scen, n = jobs[(kind, tag)].result()
        cov["exported"] += n
        notes_seen.update(ex.notes)
        cov["states"] += ex.distinct or 0
        cov["transitions"] += ex.generated or 0
        name = tag if kind == "gen" else "sim" + tag
        rl = lines
        if quick and kind == "gen":
            rl, _ = sample_lines(ctx, lines, QUICK_CAP, name)
        summ, res = replay(ctx, binp, scen, rl, name, fixes, procs=procs)
        _account(ctx, cov, name, summ, ex)
        report(ctx, name, res)
        if first is None:
            first = (scen, lines)
            with open(lines) as fh:
                for i, l in enumerate(fh):
                    if i in (40, 900):
                        ctx.sample(json.loads(l))
    for (kind, tag), fut in jobs.items():
        if kind in ("gen", "sim"):
            continue
        r = fut.result()
        if kind == "mc":
            if r.invariant:
                raise Infra("design-level counterexample in HeaderSync/%s (%s): a behaviour of the model of the code breaks the "
                            "property in a way that is not a named finding\n%s" % (tag, r.invariant, r.tail))
            r.require_ok("mc " + tag)
        if kind == "fixed":
            if r.invariant:
                raise Infra("the repaired design (all Fix* switches on) still breaks %s on %s\n%s" % (r.invariant, tag, r.tail))
            r.require_ok("mc repaired " + tag)
        if kind == "strict":
            if r.invariant != "NoFinding":
                raise Infra("sanity: NoFinding should be refuted on the model of the code as it is (%s), got %s\n%s" % (tag, r.invariant, r.tail))
            cov["design_counterexample"] = "NoFinding refuted on %s for the code as it is" % tag
            continue
        cov["states"] += r.distinct or 0
        cov["transitions"] += r.generated or 0
    pool.shutdown()
    if all(s_.startswith("C06:hdr:") and s_.split(":")[2] in FINDINGS for s_, _ in ctx.violations):
        selftest(ctx, binp, first[0], first[1], fixes)
        cov["selftest"] = "5 corrupted predictions rejected"
    # vacuity: every branch of the model leaves a tag in `note`; which ones were exercised by the exported behaviours
    # ("hdr-duplicate" and "moveto-missing-data" are defensive branches the client's protocol never reaches)
    expected = set(NOTE_TAGS) - ({"far-missing-data", "not-yet-committed"} if fixes["farthest"] else set()) \
        - ({"cache-wrong-delete"} if fixes["cachedel"] else set()) - (set() if fixes["detached"] else {"detached-refused"})
    cov["notes_seen"] = sorted(notes_seen)
    cov["notes_never"] = sorted(expected - notes_seen)
    if not quick and cov["notes_never"]:
        raise Infra("vacuity: branches of HeaderSync never taken by any exported behaviour: %s" % cov["notes_never"])
    cov["variant"] = fixes
    cov["wall_s"] = round(time.time() - t0, 1)
    ctx.log("header-first stage: %d states, %d transitions, %d behaviours replayed (%d steps) in %.0fs; findings %s" %
            (cov["states"], cov["transitions"], cov["replayed"], cov["replayed_steps"], cov["wall_s"], cov["findings"]))
    return cov


def _account(ctx, cov, tag, summ, r):
    cov["replayed"] += summ["lines"]
    cov["replayed_steps"] += summ["steps"]
    cov["retry_gap_lines"] += summ.get("retry_gap_lines", 0)
    for k, v in summ["counts"].items():
        if k.startswith("finding:"):
            cov["findings"][k[8:]] = cov["findings"].get(k[8:], 0) + v
    cov["configs"].append({"config": tag, "lines": summ["lines"], "counts": summ["counts"],
                           "states": r.distinct if r else None, "transitions": r.generated if r else None})
    ctx.log("hdr %s: %d behaviours replayed, %s" % (tag, summ["lines"], summ["counts"]))
