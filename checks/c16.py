"""C16 - the block store returns exactly the blocks that were stored.

spec/BlockStore.tla   model of lib/chain/blockdb.go (one action per public call / critical section)
  1. TLC, exhaustive, small constants, several option sets: GetReturnsStored, UnwrittenIsCached,
     IndexPositionExact, ReopenExact, AppendNeverOverwrites            (the design)
  2. G->R: every transition of a bounded model is exported (BlockStoreGen) and replayed on the real
     BlockDB; Get results, the index walk after reopen and the on-disk index file are compared
  3. G->R: simulated long behaviours under other option sets (compression, retention)
  4. R->V: seeded random histories of the real BlockDB over a larger universe are validated by
     TraceBlockStore (all invariants evaluated in every state)
  5. binding self-test: a corrupted prediction / trace line must be rejected
"""
import json, os
from vf import Infra

BLEN = lambda b: 1 + (b % 2)


def opts(blocks, unit=100, **kw):
    o = {"blen": {str(b): BLEN(b) for b in blocks}, "blenseq": [BLEN(b) for b in range(1, max(blocks) + 1)],
         "unit": unit, "maxcache": 1, "maxdat": 0, "keep": 0, "backup": False, "compress": False, "salt": 1}
    o.update(kw)
    return o


def replay(ctx, binp, lines_path, o, tag):
    p = ctx.run([binp, "replay", "-in", lines_path, "-opts", json.dumps(o), "-workers", "16",
                 "-dir", os.path.join(ctx.scratch, "bs-" + tag)], timeout=3000)
    if p.returncode != 0:
        raise Infra("replay driver failed: " + p.stderr[-2000:])
    fails, summary = [], None
    for ln in p.stdout.splitlines():
        if not ln.startswith("{"):
            continue
        j = json.loads(ln)
        if j.get("summary"):
            summary = j
        elif not j.get("ok", True):
            fails.append(j)
    if summary is None:
        raise Infra("replay driver gave no summary")
    return summary, fails


def export(ctx, defines, tag, simulate=None, depth=None, timeout=1500):
    r = ctx.tlc("BlockStoreGen", "BlockStore_gen", workers=1, defines=defines, simulate=simulate, depth=depth, timeout=timeout)
    if not r.ok and not (simulate and r.rc in (0,)):
        r.require_ok("export " + tag)
    path = os.path.join(ctx.scratch, "lines-%s.json" % tag)
    n = 0
    with open(path, "w") as f:
        for s in r.lines("VFT"):
            f.write(s + "\n")
            n += 1
    return r, path, n


def signature(what):
    # stable shape of a failure, used to match known findings
    import re
    return "C16:" + re.sub(r"\d+", "N", what)[:80]


def run(ctx):
    quick = ctx.tier == "quick"
    binp = ctx.build("blockstore")
    states = transitions = 0
    replayed = 0
    traces_validated = 0

    # ---- 1. the design, exhaustively
    mcsets = [dict(MAXCACHE=1, MAXDAT=3, KEEP=0, MAXRECS=3 if quick else 4, MAXREOPEN=2, FIXED="TRUE"),
              dict(MAXCACHE=2, MAXDAT=2, KEEP=1, MAXRECS=3 if quick else 4, MAXREOPEN=1 if quick else 2, FIXED="TRUE")]
    if not quick:
        mcsets.append(dict(MAXCACHE=1, MAXDAT=0, KEEP=0, MAXRECS=5, MAXREOPEN=2, FIXED="TRUE"))
    for d in mcsets:
        r = ctx.tlc("BlockStore", "BlockStore_mc", defines=d, timeout=3000)
        if r.invariant:
            raise Infra("design-level counterexample in BlockStore (%s) - model and code must be re-examined\n%s" % (r.invariant, r.tail))
        r.require_ok("mc")
        states += r.distinct
        transitions += r.generated
    # the design with the unrepaired load rule must be refuted (shows the invariants are not vacuous)
    r = ctx.tlc("BlockStore", "BlockStore_mc", defines=dict(MAXCACHE=1, MAXDAT=3, KEEP=0, MAXRECS=3, MAXREOPEN=2, FIXED="FALSE"), timeout=600)
    if not r.invariant:
        raise Infra("sanity: the model with the old LoadBlockIndex rule should violate an invariant, TLC found none")
    ctx.cov["refuted_variant"] = "FixedLoad=FALSE violates " + r.invariant

    # ---- 2. every transition of a bounded model, replayed on the real store
    gensets = [("A", [1, 2, 3], dict(MAXCACHE=1, MAXDAT=3, KEEP=0, MAXRECS=3, MAXREOPEN=1))]
    if not quick:
        gensets += [("B", [1, 2, 3], dict(MAXCACHE=2, MAXDAT=2, KEEP=1, MAXRECS=3, MAXREOPEN=2)),
                    ("C", [1, 2, 3, 4], dict(MAXCACHE=1, MAXDAT=0, KEEP=0, MAXRECS=3, MAXREOPEN=1))]
    first_lines = None
    for tag, blocks, d in gensets:
        dd = dict(d, BLOCKS=",".join(map(str, blocks)), EMITAT=0)
        r, path, n = export(ctx, dd, tag, timeout=3000)
        if n != r.generated - 1:
            raise Infra("export %s: %d lines for %s generated states" % (tag, n, r.generated))
        o = opts(blocks, maxcache=d["MAXCACHE"], maxdat=d["MAXDAT"], keep=d["KEEP"], salt=ctx.seed)
        summ, fails = replay(ctx, binp, path, o, tag)
        replayed += summ["lines"]
        ctx.log("replayed %d transitions (%d steps) of gen set %s: %d failures" % (summ["lines"], summ["steps"], tag, summ["fail"]))
        for f in fails:
            ctx.violation(signature(f["what"]), {"opts": o, "line": f["line"], "step": f["step"]}, f["what"])
        if first_lines is None:
            first_lines = (path, o)
            with open(path) as fh:
                for i, l in enumerate(fh):
                    if i in (5, 5000):
                        ctx.sample(json.loads(l))

    # ---- 3. simulated deeper behaviours under the other option sets (compression, retention, bigger cache)
    simsets = [("S1", [1, 2, 3, 4], dict(MAXCACHE=2, MAXDAT=3, KEEP=1, MAXRECS=6, MAXREOPEN=3), dict()),
               ("S2", [1, 2, 3, 4, 5], dict(MAXCACHE=1, MAXDAT=0, KEEP=0, MAXRECS=8, MAXREOPEN=3), dict(compress=True, unit=3000)),
               ("S3", [1, 2, 3, 4], dict(MAXCACHE=3, MAXDAT=2, KEEP=2, MAXRECS=7, MAXREOPEN=3), dict(backup=True))]
    for tag, blocks, d, extra in simsets:
        depth = 14
        num = 300 if quick else 5000
        dd = dict(d, BLOCKS=",".join(map(str, blocks)), EMITAT=depth)
        r, path, n = export(ctx, dd, tag, simulate="num=%d" % num, depth=depth, timeout=1500)
        if n == 0:
            raise Infra("simulation export %s produced nothing\n%s" % (tag, r.tail))
        o = opts(blocks, maxcache=d["MAXCACHE"], maxdat=d["MAXDAT"], keep=d["KEEP"], salt=ctx.seed, **extra)
        summ, fails = replay(ctx, binp, path, o, tag)
        replayed += summ["lines"]
        ctx.log("replayed %d simulated behaviours of set %s: %d failures" % (summ["lines"], tag, summ["fail"]))
        for f in fails:
            ctx.violation(signature(f["what"]), {"opts": o, "line": f["line"], "step": f["step"]}, f["what"])

    # ---- 4. record -> validate
    recsets = [("R1", list(range(1, 9)), dict(maxcache=2, maxdat=5, keep=0)),
               ("R2", list(range(1, 11)), dict(maxcache=3, maxdat=0, keep=0, compress=True, unit=5000)),
               ("R3", list(range(1, 9)), dict(maxcache=1, maxdat=4, keep=2))]
    ntr = 20 if quick else 300
    bad_trace = None
    for tag, blocks, extra in recsets:
        o = opts(blocks, salt=ctx.seed, **extra)
        tr = os.path.join(ctx.scratch, "trace-%s.ndjson" % tag)
        p = ctx.run([binp, "record", "-out", tr, "-opts", json.dumps(o), "-seed", str(ctx.seed * 7 + len(tag)),
                     "-traces", str(ntr), "-ops", "40", "-dir", ctx.scratch], timeout=1500)
        if p.returncode != 0:
            raise Infra("record driver failed: " + p.stderr[-2000:])
        nev = sum(1 for _ in open(tr))
        acc, hw, r = validate(ctx, tr, o, blocks)
        if not acc:
            line = open(tr).read().splitlines()[hw - 1] if hw and hw <= nev else ""
            what = "recorded history is not a behaviour of BlockStore at event %s: %s" % (hw, line[:300])
            if r.invariant:
                what = "invariant %s violated on a recorded history (event %s)" % (r.invariant, hw)
            ctx.violation(signature(what), {"opts": o, "trace": open(tr).read().splitlines()[:hw + 1][-60:], "tlc": r.tail[-3000:]}, what)
        else:
            traces_validated += ntr
            states += r.distinct or 0
        if bad_trace is None:
            bad_trace = (tr, o, blocks)
        ctx.log("trace set %s: %d events, accepted=%s" % (tag, nev, acc))

    # ---- 5. binding self-tests (only meaningful when the unmodified inputs were accepted)
    if ctx.violations:
        finish_cov(ctx, states, transitions, traces_validated, replayed)
        return
    # 5a corrupted prediction must be rejected by the replay driver
    path, o = first_lines
    mut = os.path.join(ctx.scratch, "mut.json")
    done = False
    with open(path) as f, open(mut, "w") as g:
        for l in f:
            j = json.loads(l)
            if not done and j["last"]["a"] == "Get" and j["last"]["res"] == "ok":
                j["last"]["res"] = "err"
                done = True
                g.write(json.dumps(j) + "\n")
    summ, fails = replay(ctx, binp, mut, o, "mut")
    if not done or summ["fail"] != 1:
        raise Infra("binding self-test failed: corrupted prediction was not rejected")
    # 5b corrupted trace must be rejected by TLC
    tr, o, blocks = bad_trace
    lines = open(tr).read().splitlines()
    k = next(i for i, l in enumerate(lines) if '"ev":"Get"' in l and '"res":"ok"' in l)
    lines[k] = lines[k].replace('"res":"ok"', '"res":"err"')
    trm = os.path.join(ctx.scratch, "trace-mut.ndjson")
    open(trm, "w").write("\n".join(lines[:k + 3]) + "\n")
    acc, hw, r = validate(ctx, trm, o, blocks)
    if acc or hw != k + 1:
        raise Infra("binding self-test failed: corrupted trace accepted=%s high-water=%s expected %d" % (acc, hw, k + 1))

    finish_cov(ctx, states, transitions, traces_validated, replayed)


def finish_cov(ctx, states, transitions, traces_validated, replayed):
    ctx.level = "model_checking"
    ctx.cov.update({"states": states, "transitions": transitions, "traces_validated_against_impl": traces_validated + replayed,
                    "replayed_transitions_and_behaviours": replayed, "recorded_traces_validated": traces_validated,
                    "exhaustive": True,
                    "rule": "TLC BFS over BlockStore with the constants in checks/c16.py; every exported transition replayed on lib/chain.BlockDB"})
    ctx.assumptions += ["block bytes are pseudo-random / repetitive / mixed patterns of BLen*unit bytes; hash = sha256d(header)",
                        "retention (DataFilesKeep) removal runs in a goroutine: Get on a block of a removed file accepts ok or error",
                        "cache eviction order is not observed, only its consequence (every stored block stays readable)"]


def validate(ctx, trace_path, o, blocks):
    d = dict(BLOCKS=",".join(map(str, blocks)), MAXCACHE=o["maxcache"], MAXDAT=o["maxdat"], KEEP=o["keep"],
             CMPPOS="FALSE" if o["compress"] else "TRUE")
    r = ctx.tlc("TraceBlockStore", "BlockStore_trace", workers=1, defines=d, timeout=1500,
                files={"trace.ndjson": trace_path,
                       "TraceOpts.tla": "---- MODULE TraceOpts ----\nBLenSeq == <<%s>>\n====\n" % ", ".join(str(x) for x in o["blenseq"])})
    hw = None
    for line in open(r.outpath, errors="replace"):
        if "VFREJECT" in line:
            import re
            m = re.search(r"VFREJECT\", (\d+)", line)
            if m:
                hw = int(m.group(1))
    if r.ok:
        return True, None, r
    if hw is None and not r.invariant:
        raise Infra("trace validation run broke\n" + r.tail)
    return False, hw, r


def replay_cmd(ctx, path):
    j = json.load(open(path))
    rp = j["replay"]
    binp = ctx.build("blockstore")
    if "line" in rp:
        p = os.path.join(ctx.scratch, "one.json")
        open(p, "w").write(json.dumps(rp["line"]) + "\n")
        summ, fails = replay(ctx, binp, p, rp["opts"], "rp")
        for f in fails:
            print("reproduced:", f["what"])
        return 1 if fails else 0
    print("trace replays: re-run the check with the same VERIF_SEED")
    return 2


