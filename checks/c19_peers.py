"""C19, grown: the peers database (client/peersdb) kept in the embedded store.

spec/PeersDB.tla   map peer -> [Time, SeenAlive, Banned, BanReason, CameFromIP, NodeAgent, Services] + the PeerAddr objects
                   held by connections (lastSaved) + logical clock; one action per public call (NewAddrFromString,
                   NewIncommingConnection, Alive, Dead, Ban, Save, NewPeer(bytes), DeleteFromIP, ExpirePeers,
                   GetRecentPeers, Sync, ClosePeerDB, InitPeers, process death, Tick). Durability is the Qdb abstraction of
                   C19 (contents after InitPeers = contents at the last Sync / Close), the files are not modelled again.
  1. TLC, exhaustive: NoBannedReturned, BanSticks, CodecIdentity, StoredCanonical, ExpireSafe / ExpireFloor /
     ExpireComplete, ReopenExact, RecentWellFormed, NoKnifeEdge - with the real constants (2500 / 2750 / 67500 and bulk
     records) and with tiny ones; three broken variants (empty ban reason, reversed age comparison, ignored filter)
     must be refuted
  2. G->R: every transition of bounded models (PeersDBGen) is replayed on the real package - every InitPeers in a fresh
     process - and the whole database (Browse), the PeerAddr objects and the answers of GetRecentPeers for the whole
     menu (4 caller filters x limits x sorted) are compared with the prediction; four layouts: empty database, 2749 bulk
     records (trigger + the MinPeersInDB+1 newest), 2750 with expirable bulk, 67499 (database full)
  3. codec sweep: PeerAddr.Bytes() / NewPeer() against a reference codec written from the format comment
  4. binding self-test: corrupted predictions (ban flag, GetRecentPeers answer, bulk count, PeerAddr field) must be rejected

stage(ctx) is called from checks/c19.py; signatures are prefixed "C19:peers:".
"""
import json, os, re, random, time
from concurrent.futures import ThreadPoolExecutor
from vf import Infra

REAL = dict(MINPEERS=2500, TRIGPEERS=2750, FULLPEERS=67500)
ALL_ACTS = ["Connect", "Incoming", "Alive", "Dead", "Ban", "Save", "Drop", "NewPeer", "Seed", "Unban", "DeleteFromIP", "Expire",
            "GetRecent", "Sync", "Close", "Crash", "Reopen", "Tick"]
# Seed classes (PeersDB!SeedRec): 100*b + 10*a + g ; g: 1 fresh 2 33h 3 83h 4 7.6d ; a: seen alive ; b: age class of the ban
SEEDS_SMALL = "1,2,11,13,113,313,413"
SEEDS_MID = "1,2,11,13,113,313,413,102"
SEEDS_ALL = "1,2,3,11,12,13,113,213,313,413,102"

DEF = dict(PEERS="1,2", AGES="0", FROMS="0,1", REASONS="1", SEEDS="", TICKS="2", LIMITS="0,1,5", MAXOPS=4, MAXTICKS=1, MAXREOPEN=1,
           FILLNEW=0, FILLKEEP=0, FILLDEAD=0, BUGEXPSIGN="FALSE", BUGNOFILTER="FALSE", **REAL)


def S(xs):
    return ",".join('"%s"' % x for x in xs)


def defs(acts, **kw):
    d = dict(DEF)
    d["ACTS"] = S(acts)
    d.update(kw)
    return d


def without(*xs):
    return [a for a in ALL_ACTS if a not in xs]


def opts_for(d, salt):
    return {"salt": salt, "fillnew": int(d["FILLNEW"]), "fillkeep": int(d["FILLKEEP"]), "filldead": int(d["FILLDEAD"])}


def tlc_retry(ctx, *a, **kw):
    """ctx.tlc from several threads: the scratch directory counter is not atomic, a clash shows as FileExistsError"""
    for i in range(5):
        try:
            return ctx.tlc(*a, **kw)
        except FileExistsError:
            time.sleep(0.2 + 0.1 * i)
    raise Infra("could not start TLC (scratch directory clash)")


# ------------------------------------------------------------------------------------------------ signatures
def signature(what):
    if what.startswith("died:"):
        m = re.search(r"(panic: [^|\n]*|fatal error: [^|\n]*|exit status \d+)", what)
        s = m.group(1) if m else what[:80]
        s = re.sub(r"0x[0-9a-f]+", "X", s)
        s = re.sub(r"\d+", "N", s)
        return "C19:peers:died:" + s[:70].strip()
    m = re.match(r"([\w]+):([\w]+):", what)
    if m:
        return "C19:peers:%s:%s" % (m.group(1), m.group(2))
    return "C19:peers:" + re.sub(r"\d+", "N", what)[:60]


# ------------------------------------------------------------------------------------------------ G->R
def export(ctx, d, tag, emitacts=(), simulate=None, depth=None, emitat=0, every=1, phase=0, timeout=1200):
    dd = dict(d, EMITAT=emitat, EMITACTS=S(emitacts), EMITEVERY=every, EMITPHASE=phase % every)
    r = tlc_retry(ctx, "PeersDBGen", "PeersDB_gen", workers=1, defines=dd, simulate=simulate, depth=depth, timeout=timeout)
    if not r.ok:
        r.require_ok("export " + tag)
    lines = list(r.lines("VFT"))
    if not lines:
        raise Infra("export %s produced nothing\n%s" % (tag, r.tail))
    return r, lines


def replay(ctx, binp, lines, o, tag, maxfail=4, workers=12):
    path = os.path.join(ctx.scratch, "peers-lines-%s.json" % tag)
    with open(path, "w") as f:
        for l in lines:
            f.write(l + "\n")
    p = ctx.run([binp, "replay", "-in", path, "-opts", json.dumps(o), "-workers", str(workers),
                 "-dir", os.path.join(ctx.scratch, "peers-rp-" + tag), "-maxfail", str(maxfail)], timeout=3000)
    if p.returncode != 0:
        raise Infra("peersdb replay driver failed: " + p.stderr[-2000:])
    fails, summary, other = [], None, []
    for ln in p.stdout.splitlines():
        if not ln.startswith("{"):
            continue
        j = json.loads(ln)
        if j.get("summary"):
            summary = j
        elif not j.get("ok", True):
            fails.append(j)
        else:
            other.append(j)
    if summary is None:
        raise Infra("peersdb replay driver gave no summary")
    if summary["infra"]:
        raise Infra("peersdb replay %s: %d lines could not be replayed: %s" % (tag, summary["infra"], [x.get("infra") for x in other][:3]))
    if summary["assume"]:
        raise Infra("peersdb replay %s: the store synced / defragmented by itself on %d lines (%s): the durability abstraction of "
                    "PeersDB (disk = contents at the last Sync) does not describe these runs" % (tag, summary["assume"], [x.get("assume") for x in other][:2]))
    return summary, fails


def report(ctx, fails, o):
    for f in fails:
        ctx.violation(signature(f["what"]), {"kind": "peers-line", "opts": o, "line": f.get("src")},
                      "peers database: " + f["what"] + (" (+%d more on this line)" % (len(f["all"]) - 1) if len(f.get("all", [])) > 1 else ""))


def pick(lines, k, rng):
    if k >= len(lines):
        return list(lines)
    return [lines[i] for i in sorted(rng.sample(range(len(lines)), k))]


# ------------------------------------------------------------------------------------------------ the stage
def stage(ctx):
    quick = ctx.tier == "quick"
    t0 = time.time()
    binp = ctx.build("peersdb")
    rng = random.Random(ctx.seed * 7919 + 19)
    ncpu = os.cpu_count() or 4
    mcw = max(2, min(4, ncpu // 4))
    res = {"states": 0, "transitions": 0, "replayed": 0, "replayed_calls": 0, "exported": 0}

    # ---- configurations
    hand = without("Expire", "Seed", "GetRecent")                      # handles, bans, durability; empty database
    layouts = {"B": dict(FILLNEW=2500, FILLKEEP=249, FILLDEAD=0),       # Count = 2749 + n: trigger at n >= 2, newest model peer immune
               "C": dict(FILLNEW=2499, FILLKEEP=0, FILLDEAD=251),       # Count = 2750 + n: bulk expires, boundary inside the bulk
               "D": dict(FILLNEW=67499, FILLKEEP=0, FILLDEAD=0)}        # Count = 67499 + n: the database is full at n >= 2
    if quick:
        mc = [("hand", defs(hand, MAXOPS=4)),
              ("tiny", defs(["Seed", "Expire", "NewPeer", "Connect", "Dead"], PEERS="1,2,3", SEEDS=SEEDS_SMALL, FROMS="0", LIMITS="1,5", MAXOPS=4,
                            MINPEERS=1, TRIGPEERS=1, FULLPEERS=2)),
              ("bulk" + "BC"[ctx.seed % 2], defs(["Seed", "Expire"], PEERS="1,2,3", SEEDS=SEEDS_SMALL, FROMS="0", LIMITS="1,5",
                                                  MAXOPS=4, **layouts["BC"[ctx.seed % 2]]))]
    else:
        mc = [("hand", defs(hand, MAXOPS=5, TICKS="2,2000", MAXTICKS=1)),
              ("hand3", defs(hand, PEERS="1,2,4", MAXOPS=4, FROMS="0,1,2")),
              ("tiny", defs(["Seed", "Expire", "NewPeer", "Connect", "Alive", "Ban", "Dead", "GetRecent"], PEERS="1,2,3", SEEDS=SEEDS_ALL, FROMS="0",
                            LIMITS="0,1,2,5", MAXOPS=4, MINPEERS=1, TRIGPEERS=1, FULLPEERS=2)),
              ("tiny4", defs(["Seed", "Expire"], PEERS="1,2,3,4", SEEDS=SEEDS_SMALL, FROMS="0", LIMITS="1,5", MAXOPS=5, MINPEERS=2, TRIGPEERS=2, FULLPEERS=3)),
              ("ticks", defs(["Seed", "Expire", "Sync", "Tick", "Connect", "Alive", "Ban"], PEERS="1,2", SEEDS="1,11", FROMS="0", LIMITS="1,5",
                             TICKS="2000,5000,11000", MAXTICKS=2, MAXOPS=6, MINPEERS=0, TRIGPEERS=0, FULLPEERS=5))]
        for k, lay in layouts.items():
            mc.append(("bulk" + k, defs(["Seed", "Expire", "Connect", "Dead"], PEERS="1,2,3", SEEDS=SEEDS_ALL, FROMS="0", LIMITS="1,5", MAXOPS=4, **lay)))
    broken = [("empty ban reason", defs(hand, REASONS="0,1", MAXOPS=3), ("CodecIdentity", "NoBannedReturned", "BanSticks")),
              ("reversed age comparison in ExpirePeers", defs(["Seed", "Expire"], PEERS="1,2,3", SEEDS=SEEDS_SMALL, MAXOPS=4, MINPEERS=1, TRIGPEERS=1,
                                                                 FULLPEERS=5, BUGEXPSIGN="TRUE"), ("ExpireSafe", "ExpireComplete")),
              ("GetRecentPeers ignoring the filter", defs(["Connect", "Ban", "Alive"], MAXOPS=3, BUGNOFILTER="TRUE"), ("NoBannedReturned", "RecentWellFormed"))]

    gseeds = SEEDS_MID if quick else SEEDS_ALL
    # (tag, constants, last calls that are printed, print every n-th qualifying transition, how many of the printed lines are replayed)
    gen = [("A", defs(hand, MAXOPS=4 if quick else 5), (), 8 if quick else 1, 2200 if quick else 25000),
           ("B", defs(["Seed", "Expire", "Connect", "Dead"], PEERS="1,2,3", SEEDS=gseeds, FROMS="0", LIMITS="1,5", MAXOPS=4, **layouts["B"]),
            ("Expire", "Dead"), 3 if quick else 1, 700 if quick else 8000),
           ("C", defs(["Seed", "Expire"], PEERS="1,2,3", SEEDS=gseeds, FROMS="0", LIMITS="1,5", MAXOPS=4, **layouts["C"]), ("Expire",), 3 if quick else 1,
            350 if quick else 4000),
           ("D", defs(["Seed", "Expire"], PEERS="1,2,3", SEEDS=gseeds, FROMS="0", LIMITS="1,5", MAXOPS=4, **layouts["D"]), ("Expire",), 20 if quick else 4,
            40 if quick else 500)]
    # deeper random behaviours: all calls, three peers (one with a private address), two clock jumps
    sim = ("S", defs(without("GetRecent", "Expire", "Seed"), PEERS="1,2,4", FROMS="0,1", TICKS="2,2000,5000", MAXTICKS=2, MAXOPS=12, MAXREOPEN=3,
                     LIMITS="0,1,5"), 40 if quick else 1000, 9)

    # ---- 1 + 2a: TLC runs side by side (exports are single-threaded)
    with ThreadPoolExecutor(max_workers=6) as ex:
        f_mc = [(name, ex.submit(tlc_retry, ctx, "PeersDB", "PeersDB_mc", workers=mcw, defines=d, timeout=3000)) for name, d in mc]
        f_br = [(name, want, ex.submit(tlc_retry, ctx, "PeersDB", "PeersDB_mc", workers=1, defines=d, timeout=900)) for name, d, want in broken]
        f_gen = [(tag, d, k, ex.submit(export, ctx, d, tag, emit, None, None, 0, every, ctx.seed)) for tag, d, emit, every, k in gen]
        f_sim = ex.submit(export, ctx, sim[1], sim[0], (), "num=%d" % sim[2], sim[3], sim[3])

        for name, fut in f_mc:
            r = fut.result()
            if r.invariant:
                raise Infra("design-level counterexample in PeersDB/%s (%s) - model and code must be re-examined\n%s" % (name, r.invariant, r.tail))
            r.require_ok("mc " + name)
            res["states"] += r.distinct
            res["transitions"] += r.generated
        refuted = []
        for name, want, fut in f_br:
            r = fut.result()
            if r.invariant not in want:
                raise Infra("sanity: the design with %s should violate one of %s, TLC says %s\n%s" % (name, want, r.invariant, r.tail[-1500:]))
            refuted.append("%s violates %s" % (name, r.invariant))
        res["refuted_variants"] = refuted
        ctx.log("peers: design checked (%d states, %d transitions), %d broken variants refuted, %.0fs" % (res["states"], res["transitions"], len(refuted), time.time() - t0))

        # ---- 2b: replay
        kept = {}
        for tag, d, k, fut in f_gen:
            r, lines = fut.result()
            res["exported"] += len(lines)
            o = opts_for(d, ctx.seed)
            sel = pick(lines, k, rng)
            summ, fails = replay(ctx, binp, sel, o, tag)
            res["replayed"] += summ["lines"]
            res["replayed_calls"] += summ["steps"]
            ctx.log("peers: layout %s: %d transitions exported, %d replayed (%d calls), %d failures, %d slow retries" % (
                tag, len(lines), summ["lines"], summ["steps"], summ["fail"], summ["slow_retries"]))
            report(ctx, fails, o)
            kept[tag] = (sel, o, bool(fails))
            if tag == "B":
                ctx.sample({"peers_transition": json.loads(sel[len(sel) // 2])}, limit=4)
        r, lines = f_sim.result()
        o = opts_for(sim[1], ctx.seed)
        # the driver numbers peers 1..n unless told otherwise
        lines = [json.dumps(dict(json.loads(l), peers=[int(x) for x in sim[1]["PEERS"].split(",")])) for l in lines]
        sel = pick(lines, 400 if quick else 3000, rng)
        summ, fails = replay(ctx, binp, sel, o, "S")
        res["exported"] += len(lines)
        res["replayed"] += summ["lines"]
        res["replayed_calls"] += summ["steps"]
        ctx.log("peers: simulated behaviours: %d exported, %d replayed (%d calls), %d failures" % (len(lines), summ["lines"], summ["steps"], summ["fail"]))
        report(ctx, fails, o)

    # ---- 3. codec sweep
    p = ctx.run([binp, "codec", "-seed", str(ctx.seed), "-n", "2000" if quick else "40000"], timeout=900)
    if p.returncode != 0:
        raise Infra("peersdb codec driver failed: " + p.stderr[-2000:])
    cs = None
    for ln in p.stdout.splitlines():
        j = json.loads(ln)
        if j.get("summary"):
            cs = j
        elif not j.get("ok", True):
            ctx.violation("C19:peers:" + j["sig"], {"kind": "peers-codec", "seed": ctx.seed}, "peers database record codec: " + j["what"][:600])
    if cs is None:
        raise Infra("codec sweep gave no summary")
    res["codec_evaluations"] = cs["evaluations"]
    res["codec_classes"] = cs.get("distinct_classes", 0)
    res["codec_identity_exact"] = cs.get("identity_exact", 0)
    if cs.get("ban_without_word_lost"):
        ctx.log("peers: observation (Q1, not judged): Ban(\"\") of a never-alive peer without extra fields is not serialised (%d records of the sweep)" % cs["ban_without_word_lost"])

    # ---- 4. binding self-test: corrupted predictions must be rejected
    selftest(ctx, binp, kept)
    ctx.log("peers: stage done in %.0fs" % (time.time() - t0))
    ctx.assumptions += [
        "peers database: durability is the durable-map abstraction established for lib/others/qdb by this property (contents after InitPeers = "
        "contents at the last Sync / ClosePeerDB); the driver checks that the store did not sync or defragment by itself in a replayed line",
        "peers database: time.Now() is not hooked; model minute m = r0 + 60 (m - now) seconds, Tick ages the stored records; no comparison of "
        "the package is within one minute of its boundary in any model state (invariant NoKnifeEdge) and a line runs for less than 25 s",
        "peers database: MinPeersInDB / MaxPeersInDB are the package's constants; bulk records with private addresses bring the database to size",
        "peers database: the filters of GetRecentPeers are the closures of client/network (copied into the driver; ConnectionActive is false); "
        "the NewPeer step repeats the merge of network.ParseAddr, Unban repeats usif.UnbanPeer, on the real NewPeer / Bytes / Put",
        "peers database: Ban(\"\"), GetRecentPeers(0, unsorted) and the record of a banned peer after NewIncommingConnection are not judged (Q1-Q4 of PeersDB.tla)",
    ]
    return res


def selftest(ctx, binp, kept):
    muts = []

    def first(tag, fn):
        sel, o, failed = kept[tag]
        if failed:
            return
        for l in sel:
            j = json.loads(l)
            if fn(j):
                muts.append((tag, o, json.dumps(j)))
                return
        raise Infra("binding self-test: no suitable exported line in set %s" % tag)

    def m_ban(j):
        if not j["pred"]["open"]:
            return False
        for r in j["pred"]["db"]:
            if r["in"] and r["ban"] != 0 and r["al"]:
                r["ban"] = 0
                r["rs"] = 0
                return True

    def m_recent(j):
        if not j["pred"]["open"]:
            return False
        for q in j["pred"]["q"]:
            if q["f"] == "getaddr" and q["srt"] and q["n"] >= 1 and q["lim"] >= 1:
                q["n"] -= 1
                return True

    def m_handle(j):
        for r in j["pred"]["hnd"]:
            if r["in"] and j["pred"]["open"]:
                r["ls"] = r["ls"] + 7 if r["ls"] else 29990
                return True

    def m_bulk(j):
        if j["pred"]["fill"]["dead"] < 251:
            j["pred"]["fill"]["dead"] += 1
            return True

    def m_expire(j):
        seeded = {s["p"] for s in j["path"] if s["a"] == "Seed"}
        for i, r in enumerate(j["pred"]["db"]):
            if not r["in"] and (i + 1) in seeded:      # a record the model says has expired
                r.update({"in": True, "t": 30000 - 2000, "sv": 2 if (i + 1) % 2 else 1})
                return True

    first("A", m_ban)
    first("A", m_recent)
    first("A", m_handle)
    first("C", m_bulk)
    first("B", m_expire)
    by = {}
    for tag, o, l in muts:
        by.setdefault(tag, (o, []))[1].append(l)
    for tag, (o, ls) in by.items():
        summ, fails = replay(ctx, binp, ls, o, "mut" + tag, maxfail=100, workers=4)
        if len(fails) != len(ls):
            raise Infra("binding self-test failed: %d of %d corrupted predictions of set %s were rejected" % (len(fails), len(ls), tag))


def replay_line(ctx, rp):
    """re-run one saved replay object of this stage (kind peers-line / peers-codec); returns the exit code"""
    binp = ctx.build("peersdb")
    if rp.get("kind") == "peers-codec":
        p = ctx.run([binp, "codec", "-seed", str(rp["seed"]), "-n", "2000"], timeout=900)
        bad = [json.loads(l) for l in p.stdout.splitlines() if l.startswith("{") and not json.loads(l).get("ok", True)]
        for j in bad:
            print("reproduced:", j["what"][:400])
        return 1 if bad else 0
    summ, fails = replay(ctx, binp, [json.dumps(rp["line"])], rp["opts"], "one", maxfail=5, workers=1)
    for f in fails:
        for w in f.get("all", [f["what"]]):
            print("reproduced:", w)
    return 1 if fails else 0
