"""C09 - transaction and block wire decoding is exact, canonical and total.

spec/Wire.tla   the wire grammar (layouts of Fixed / CompactSize / Bytes / Vec fields), Encode, the verdict
                of Bitcoin's deserialiser (BIP141/BIP144, serialize.h) on a layout, BIP141 sizes, perturbations
  1. TLC, exhaustive over shapes x perturbations: TypeOK, SizeLaws, ReencodeIdentity, RoundTrip, PertLaws;
     the deliberately lenient reader (Lenient = TRUE) must be refuted
  2. G->R: every case is exported (WireGen: layout + predicted verdict / consumed / decoded structure / sizes),
     concretised to bytes (random content per seed) and run on btc.NewTx, Tx.SetHash, Serialize,
     SerializeNew, Weight, VSize, TxSize, btc.NewBlock + BuildTxList(Ext), VLen & co in child processes
     under an address-space limit (panics, aborts, hangs and allocation out of proportion are observed)
  3. seeded byte-level mutations (every truncation, single-byte changes, both) of valid encodings, judged
     by the harness' reference decoder, which is itself checked against every definite verdict of (2)
     Every accepted exported transaction also goes through a mutate-after-decode stage: the decoded Tx is edited
     through its public fields (scriptSig +23/+1/-1/emptied, input/output appended/removed, pk_script +1, witness
     item added/removed, witness dropped/added, SegWit nil and back, lock time, sequence; a second edit on top),
     with cold and warm caches, and SetHash(tx.SerializeNew()) / SetHash(nil) / Serialize / SerializeNew / WTxID /
     Weight / VSize are called in three orders; txid, wtxid, sizes, weight, vsize and both serialisations must be
     those of the EDITED structure (harness serialiser + sha256) and equal those of the same bytes decoded afresh.
  4. binding self-tests: a corrupted prediction / layout must be rejected; every rule and perturbation
     kind must occur among the exported cases (no vacuous run)
"""
import copy, json, os, threading
from vf import Infra

LENS6 = "0,1,252,253,65535,65536"


def gensets(quick):
    if quick:
        return [("A", dict(MAXIN=1, MAXOUT=1, MAXWIT=1, LENS=LENS6, MAXODD=3, HUGE="HugeQuick", BLOCKMAX=2, BIGCOUNTS="8,40,300"), 2),
                ("B", dict(MAXIN=2, MAXOUT=2, MAXWIT=2, LENS="1", MAXODD=0, HUGE="HugeQuick", BLOCKMAX=0, BIGCOUNTS=""), 2)]
    return [("A", dict(MAXIN=1, MAXOUT=1, MAXWIT=1, LENS=LENS6, MAXODD=3, HUGE="HugeAll", BLOCKMAX=3, BIGCOUNTS="8,17,40,300,1000"), 4),
            ("B", dict(MAXIN=2, MAXOUT=2, MAXWIT=2, LENS=LENS6, MAXODD=1, HUGE="HugeAll", BLOCKMAX=0, BIGCOUNTS=""), 8),
            ("C", dict(MAXIN=2, MAXOUT=1, MAXWIT=2, LENS="0,1,253", MAXODD=2, HUGE="HugeQuick", BLOCKMAX=0, BIGCOUNTS=""), 4)]


def tlc(ctx, *a, **kw):
    """ctx.tlc, run once more when the JVM was terminated from outside (SIGTERM: other jobs on a shared machine
    clean up stray TLC processes by name); anything else is reported as it is."""
    r = ctx.tlc(*a, **kw)
    if r.rc in (143, -15):
        ctx.log("TLC was terminated by a signal - running it again")
        r = ctx.tlc(*a, **kw)
    return r


def export(ctx, tag, d, parts, out, timeout, seen):
    """WireGen over `parts` partitions of the shapes, each a TLC run with -workers 1, in parallel.
    A case already exported by an earlier set (the sets overlap in their smallest shapes) is written once."""
    res = [None] * parts
    errs = []

    def one(k):
        try:
            sub = copy.copy(ctx)            # own run counter: the scratch directories must not collide
            sub._tlc_n = ctx._tlc_n + 100 + 10 * k
            res[k] = tlc(sub, "WireGen", "Wire_gen", workers=1, defines=dict(d, PART=k, PARTS=parts), timeout=timeout, heap="3g")
        except Exception as e:              # noqa
            errs.append(e)
    th = [threading.Thread(target=one, args=(k,)) for k in range(parts)]
    for t in th:
        t.start()
    for t in th:
        t.join()
    ctx._tlc_n += 100 + 10 * parts
    if errs:
        raise Infra("export %s: %s" % (tag, errs[0]))
    n = gen = 0
    for k, r in enumerate(res):
        r.require_ok("export %s part %d" % (tag, k))
        m = 0
        for s in r.lines("VFT"):
            m += 1
            h = hash(s)
            if h in seen:
                continue
            seen.add(h)
            out.write(s + "\n")
            n += 1
        if m != r.generated - 1:
            raise Infra("export %s part %d: %d lines for %s generated states" % (tag, k, m, r.generated))
        gen += r.generated
    return n


def replay(ctx, binp, path, mut, tag, workers=None, timeout=3000):
    w = workers or min(16, os.cpu_count() or 4)
    d = os.path.join(ctx.scratch, "wire-" + tag)
    os.makedirs(d, exist_ok=True)
    p = ctx.run([binp, "replay", "-in", path, "-seed", str(ctx.seed), "-workers", str(w), "-mut", str(mut), "-dir", d],
                timeout=timeout)
    if p.returncode != 0:
        raise Infra("replay driver failed: " + p.stderr[-2000:])
    sigs, summary = [], None
    for ln in p.stdout.splitlines():
        if not ln.startswith("{"):
            continue
        j = json.loads(ln)
        if j.get("summary"):
            summary = j
        elif not j.get("ok", True):
            sigs.append(j)
    if summary is None:
        raise Infra("replay driver gave no summary")
    return summary, sigs


REASONS = ["truncated", "nonminimal", "oversize", "superfluous", "badflag", "short"]
PERTS = ["none", "cut", "form", "val", "flag", "trail"]


def stats(path):
    st = {}
    samples = {}
    with open(path) as f:
        for l in f:
            j = json.loads(l)
            k = "%s/%s/%s%s" % (j["t"], j["p"]["k"], j["e"]["v"], ("/" + j["e"]["why"]) if j["e"].get("why") else "")
            st[k] = st.get(k, 0) + 1
            if k not in samples and len(l) < 900:
                samples[k] = j
            if k == "tx/none/accept" and j["sh"]["wit"] and len(j["sh"]["ins"]) == 2 and "witaccept" not in samples and len(l) < 1500:
                samples["witaccept"] = j
    return st, samples


def run(ctx):
    quick = ctx.tier == "quick"
    binp = ctx.build("wire")
    states = 0

    # ---- 1. the rules, exhaustively over shapes x perturbations
    for tag, d, _ in gensets(quick):
        r = tlc(ctx, "Wire", "Wire_mc", defines=dict(d, LENIENT="FALSE"), timeout=3000)
        if r.invariant:
            raise Infra("Wire.tla: invariant %s violated (set %s) - the model must be re-examined\n%s" % (r.invariant, tag, r.tail))
        r.require_ok("mc " + tag)
        states += r.distinct
    r = tlc(ctx, "Wire", "Wire_mc", defines=dict(MAXIN=1, MAXOUT=1, MAXWIT=1, LENS="0,1,253", MAXODD=3, HUGE="HugeQuick", BLOCKMAX=1,
                                                BIGCOUNTS="", LENIENT="TRUE"), timeout=900)
    if not r.invariant:
        raise Infra("sanity: the lenient reader (non-minimal CompactSize, superfluous witness accepted) should violate an invariant")
    ctx.cov["refuted_variant"] = "Lenient=TRUE violates " + r.invariant

    # ---- 2. export every case
    path = os.path.join(ctx.scratch, "cases.ndjson")
    ncases = 0
    seen = set()
    with open(path, "w") as out:
        for tag, d, parts in gensets(quick):
            n = export(ctx, tag, d, parts, out, timeout=3000, seen=seen)
            ctx.log("exported %d cases of set %s" % (n, tag))
            ncases += n
    st, samples = stats(path)
    kinds = {k.split("/")[1] for k in st}
    whys = {k.split("/")[3] for k in st if k.count("/") == 3}
    missing = [p for p in PERTS if p not in kinds] + [w for w in REASONS if w not in whys]
    for need in ("tx/none/accept", "block/none/accept", "cs/none/accept", "tx/val/dep/content", "tx/trail/accept", "block/cut/refuse/truncated"):
        if need not in st:
            missing.append(need)
    if missing:
        raise Infra("vacuous export: never produced %s" % missing)
    ctx.cov["cases_by_kind"] = {k: st[k] for k in sorted(st)}

    # ---- 3. replay on the real decoders, plus the mutation tier
    summ, sigs = replay(ctx, binp, path, 40 if quick else 400, "main")
    ctx.log("replayed %d cases, %d evaluations (%d distinct inputs), %d child aborts, %d failure signatures" %
            (ncases, summ["evals"], summ["distinct"], summ["crashes"], len(sigs)))
    if summ["units"] < ncases:
        raise Infra("replay processed %d units for %d cases" % (summ["units"], ncases))
    for s in sigs:
        ex = s["examples"][0]
        ctx.violation("C09:" + s["sig"], {"kind": ex["kind"], "hex": ex["hex"], "pert": ex.get("p"), "line": ex.get("li"), "sub": ex.get("sub"),
                                           "count": s["count"], "others": [e["hex"] for e in s["examples"][1:] if len(e["hex"]) < 4000]},
                      "%s (%d inputs)" % (ex["what"], s["count"]))
    if summ.get("infra"):
        raise Infra("harness / specification disagreement:\n  " + "\n  ".join(summ["infra"][:10]))

    # ---- 4. binding self-tests: corrupted predictions and layouts must be rejected
    lines = []
    with open(path) as f:
        for l in f:
            if '"t":"tx"' in l and '"p":{"k":"none"' in l and '"e":{"v":"accept"' in l and '"wit":true' in l and len(l) < 1500:
                lines.append(l)
                if len(lines) == 3:
                    break
    if len(lines) < 3:
        raise Infra("self-test: no suitable case")
    a = json.loads(lines[0])
    a["e"]["n"] += 1                                         # wrong consumed
    b = json.loads(lines[1])
    b["e"]["nowit"] -= 1                                     # wrong size
    c = json.loads(lines[2])
    k = next(i for i, t in enumerate(c["s"]) if isinstance(t, list) and i > 2)
    c["s"][k] = [3, c["s"][k][1], 3]                         # non-minimal layout, prediction still "accept"
    d = json.loads(lines[2])
    d["e"] = {"v": "refuse", "why": "truncated", "strict": True}   # valid encoding predicted as refused
    mut = os.path.join(ctx.scratch, "selftest.ndjson")
    with open(mut, "w") as f:
        for x in (a, b, c, d):
            f.write(json.dumps(x, separators=(",", ":")) + "\n")
    s2, sg2 = replay(ctx, binp, mut, 0, "self", workers=1, timeout=300)
    if len(s2.get("infra") or []) != 4:
        raise Infra("binding self-test failed: 4 corrupted predictions, %d rejected: %s" % (len(s2.get("infra") or []), s2.get("infra")))

    ctx.level = "exploration"
    for k in ("witaccept", "tx/form/refuse/nonminimal", "block/trail/accept"):
        if k in samples:
            ctx.sample(samples[k])
    ctx.cov.update({
        "evaluations": summ["evals"],
        "distinct_nontrivial": summ["distinct"],
        "cases_from_tlc": ncases,
        "tlc_states_checked": states,
        "mutation_inputs": sum(v for k, v in summ["per"].items() if k.startswith("mut")),
        "mutation_inputs_valid_per_reference": summ["ref_accepts_in_mutations"],
        "child_aborts": summ["crashes"],
        "exhaustive_over_structure_within_bounds": True,
        "rule": "TLC enumerates every (shape, perturbation) of spec/Wire.tla under the constants of checks/c09.py "
                "(shapes up to 2 inputs x 2 outputs x 2 witness items, length classes 0/1/252/253/65535/65536, blocks of up to "
                "%d transactions of every pool combination plus long blocks of 8..%d transactions in four patterns (small, mixed, "
                "3-9 kB transactions) whose bytes cross lib/btc's 4096-byte hashing packs never / once / many times; truncations at and inside every field, every non-minimal CompactSize form, counts -1/+1/huge, "
                "flag bytes 00/02/03/04/05/81, trailing bytes); each case is concretised (seeded random content) and run on lib/btc; "
                "plus seeded truncations / single-byte / byte+truncation mutations of valid encodings judged by the reference decoder; "
                "distinct_nontrivial counts distinct non-empty byte strings given to the decoders" % ((2, 300) if quick else (3, 1000))})
    ctx.assumptions += [
        "content of opaque fields (hashes, scripts, values, witness items) is pseudo-random per seed: exhaustive over structure, sampled over content",
        "layouts whose reading depends on opaque content (verdict 'dep', e.g. a count lowered by one) are judged by the harness' reference decoder, "
        "which is compared with every definite verdict of Wire.tla (verdict, rule, consumed bytes, decoded lengths, sizes)",
        "txid / wtxid are compared with double SHA-256 (crypto/sha256) of the harness' own BIP144 serialisations",
        "allocation bound 4 MiB + 128 x input length per call (runtime.ReadMemStats), children run with 256 MiB address-space headroom; "
        "a call that makes no progress for 10 s counts as a hang",
        "an empty block and a block followed by extra bytes may be refused or accepted (if accepted, with the predicted result); "
        "the coinbase wtxid may be reported as zero",
        "mutate-after-decode contract (as wallet/signtx.go and client/rpcapi/mining.go use lib/btc): after editing a Tx the caller "
        "calls SetHash(tx.SerializeNew()); SetHash(nil) re-hashes tx.Raw (the bytes last given to it) and is only judged when Raw is current; "
        "a Tx with SegWit != nil but no witness item is not produced by the edits (known finding 'superfluous'); the sighash caches "
        "(TxVerVars) are C02's subject",
        "helper-level canonicity (VLen accepting a non-minimal form in isolation) is not judged, only its effect through NewTx / NewBlock"]


def replay_cmd(ctx, path):
    j = json.load(open(path))
    rp = j["replay"]
    binp = ctx.build("wire")
    hf = os.path.join(ctx.scratch, "one.hex")
    open(hf, "w").write(rp["hex"])
    p = ctx.run([binp, "one", "-kind", rp["kind"], "-hexfile", hf], timeout=120)
    fails = []
    for ln in p.stdout.splitlines():
        if ln.startswith("{"):
            x = json.loads(ln)
            if not x.get("summary"):
                fails.append(x)
                print("reproduced:", x["sig"], x["what"])
    if p.returncode != 0 and not fails:
        err = (p.stderr or "").strip().splitlines()
        key = [l for l in err if l.startswith(("fatal error", "panic", "runtime:", "[signal"))][:4]
        at = [l.strip() for l in err if "/lib/btc/" in l][:3]
        print("reproduced: the decoder killed the process:\n  " + "\n  ".join(key + at))
        return 1
    return 1 if fails else 0
