"""C01 - script verification accepts exactly what Bitcoin consensus accepts.

spec/Script.tla     the script rules as an executable specification (interpreter step function, EvalScript as a
                    fold, VerifyScript / VerifyWitnessProgram / ExecuteWitnessScript orchestration, taproot), written
                    from Bitcoin Core's interpreter semantics and the BIPs, plus the same interpreter as a state machine
spec/ScriptGen.tla  case families: programs enumerated position by position over per-family alphabets (BFS: all
                    programs up to a length; simulation: random longer ones) x spend-type wrappers x flag subsets, and
                    explicit case sets (orchestration, taproot, CHECKMULTISIG, lock times, limit templates)
  1. TLC, Script_mc.cfg: soft-fork monotonicity of every flag, totality of the model, interpreter invariants in every
     intermediate state, fold = stepwise machine; a deliberately wrong design (CLTV pops) must be refuted
  2. cross-validation of the MODEL against Bitcoin Core's own vectors in /repo/lib/test (script_tests.json,
     tx_valid.json, tx_invalid.json): decoded by the harness into abstract cases, judged by TLC; a disagreement is a
     bug of the model (exit 2), never a finding
  3. G->R: every exported (case, flag set, verdict) is concretised (real pushes, hashes, keys, signatures) and run on
     script.VerifyTxScript; verdict must equal the model's; a panic or a call over the wall bound breaks totality
  4. binding self-test: corrupted predictions must be rejected by the replay driver
  5. R->V: seeded random programs of up to ~300 opcodes run by the real interpreter (bare / P2WSH / tapscript) with the
     per-opcode hook of lib/script (build tag verif); spec/TraceScript.tla replays every trace on the specification's
     step function comparing position, opcode, exec flag, stack / altstack / condition depth, top element, verdict
  6. concurrency: a mix of the exported cases (accept and reject rows of every script kind) plus key-hash spends with
     eight different keys is judged sequentially, then script.VerifyTxScript runs on the same prepared inputs from many
     goroutines (GOMAXPROCS 2/4/16; different cases side by side and the same case everywhere); every verdict must be the
     sequential one; once more under the Go race build (reports with both accesses inside the repository are violations)
"""
import copy, glob, json, os, re, hashlib, time
from concurrent.futures import ThreadPoolExecutor
from vf import Infra

# lengths of the exhaustive enumeration per tier live in spec/ScriptGen.tla (TierLen); seeded random longer programs:
# family -> (depth, behaviours)
SIMS = {"quick": {"ctrl": (6, 40), "stack": (8, 30), "arith2": (5, 30)},
        "thorough": {"ctrl": (7, 900), "ctrl2": (7, 600), "stack": (9, 900), "arith1": (6, 300), "arith2": (5, 900), "hash": (6, 300),
                     "push": (4, 300)}}
SIM_PART = 300          # behaviours per TLC simulation process (each gets its own seed derived from VERIF_SEED)
MC_QUICK = [("ctrl", 3), ("lock", 0), ("codesep", 0), ("keypath", 0)]
MC_THOROUGH = MC_QUICK + [("stack", 6), ("arith2", 3), ("sig", 3), ("tsig", 3), ("msig", 2), ("scriptpath", 0), ("orch", 0),
                          ("opcodes", 4), ("wprog", 0)]
MAX_RECORDED = 12       # distinct violation signatures written per run (the rest are counted)


def sub(ctx, k):
    """ctx.tlc keeps a per-context run counter: give every parallel TLC run its own range"""
    c = copy.copy(ctx)
    c._tlc_n = 1000 * (k + 1)
    return c


def vft_to_file(r, path):
    n = 0
    with open(path, "w") as f:
        for s in r.lines("VFT"):
            try:
                json.loads(s)
            except ValueError:
                raise Infra("exported line is not JSON (interleaved output?): " + s[:200])
            f.write(s + "\n")
            n += 1
    return n


def export(ctx, k, fam, maxlen, sim=None, part=0):
    c = sub(ctx, k)
    c.seed = ctx.seed * 1000 + part
    d = dict(FAM=fam, MAXLEN=maxlen, EMITAT=0, TIER=ctx.tier)
    kw = dict(workers=None if fam == "all" else 4, timeout=6000)
    tag = fam
    if sim:
        depth, num = sim
        d.update(MAXLEN=depth, EMITAT=depth)
        kw = dict(workers=1, simulate="num=%d" % num, depth=depth + 1, timeout=3000)   # +1: the first step chooses the family
        tag = "%s-sim%d.%d" % (fam, depth, part)
    for attempt in (1, 2):
        r = c.tlc("ScriptGen", "Script_gen", defines=d, **kw)
        if r.rc in (143, 137, -15, 130) and attempt == 1:
            ctx.log("TLC was killed from outside (rc=%d), retrying %s once" % (r.rc, tag))
            continue
        break
    if not r.ok:
        r.require_ok("export " + tag)
    path = os.path.join(ctx.scratch, "cases-%s.ndjson" % tag)
    n = vft_to_file(r, path)
    if n == 0:
        raise Infra("export %s produced nothing\n%s" % (tag, r.tail))
    return tag, path, n, r


def replay(ctx, binp, path, timeout=3000):
    p = ctx.run([binp, "replay", "-in", path, "-seed", str(ctx.seed)], timeout=timeout)
    if p.returncode != 0:
        raise Infra("replay driver failed: " + p.stderr[-3000:])
    fails, infra, summary = [], [], None
    for ln in p.stdout.splitlines():
        if not ln.startswith("{"):
            continue
        j = json.loads(ln)
        if j.get("summary"):
            summary = j
        elif j.get("infra"):
            infra.append(j)
        elif not j.get("ok", True):
            fails.append(j)
    if summary is None:
        raise Infra("replay driver gave no summary: " + p.stderr[-2000:])
    if infra:
        raise Infra("concretiser could not build %d case(s), first: %s" % (len(infra), json.dumps(infra[0])[:1500]))
    return summary, fails


def signature(f):
    """rule-level signature when a named deviation of the model predicts exactly gocoin's answer, else the case"""
    if f.get("deviation"):
        return "C01:" + f["deviation"]
    C = f["case"]["C"]
    if f["fam"] == "tappath":       # one rule: the tapscript digest commits to the true tapleaf hash, whatever the Merkle path
        m = re.search(r"<<(\d+), (-?\d+)>>", f.get("tag") or "")
        return "C01:tappath:%s>%s:%s" % (f["want"], f["got"], "merkle-path" if m and int(m.group(1)) > 0 else "single-leaf")
    if f["kind"] == "set":          # hand-written probe: the tag names the rule
        return "C01:%s:%s:%s>%s:%s" % (f["fam"], f["w"], f["want"], f["got"], f.get("tag"))
    # enumerated program: group by spend type, direction and the non-push opcodes of the locked script
    tgt = C["scr"][C["tgt"] - 1] if 0 < C["tgt"] <= len(C["scr"]) else C["pk"]
    ops = sorted({op["o"] for op in tgt if op["o"] > 0x60})
    return "C01:%s:%s:%s:%s>%s:ops=%s" % (f["fam"], f["w"], f["kind"], f["want"], f["got"], "".join("%02x" % o for o in ops[:8]))


def record_failures(ctx, fails, state):
    for f in fails:
        sig = signature(f)
        state["failing_evaluations"] += 1
        state["by_signature"][sig] = state["by_signature"].get(sig, 0) + 1
        if sig in state["seen"]:
            continue
        state["seen"].add(sig)
        if len(ctx.violations) >= MAX_RECORDED:      # known findings do not count against the cap
            state["not_recorded"] = state.get("not_recorded", 0) + 1
            continue
        what = "%s; flags=%s scriptSig=%s scriptPubKey=%s witness=%s: gocoin answered %s, the rules say %s" % (
            f["what"], ",".join(f["flags"]) or "NONE", f["scriptSig"], f["scriptPubKey"], f["witness"], f["got"], f["want"])
        if f.get("deviation"):
            what = "[%s] " % f["deviation"] + what
        ctx.violation(sig, {"line": f["case"], "seed": ctx.seed, "bytes": {k: f[k] for k in ("scriptSig", "scriptPubKey", "witness", "tx")}},
                      what[:1500])


def vectors(ctx, binp):
    vpath = os.path.join(ctx.scratch, "vectors.ndjson")
    p = ctx.run([binp, "vectors", "-dir", os.path.join(ctx.repo, "lib", "test"), "-out", vpath], timeout=600)
    if p.returncode != 0:
        raise Infra("vector decoder failed: " + p.stderr[-2000:])
    stats = json.loads(p.stderr.strip().splitlines()[-1])
    vec = [json.loads(l) for l in open(vpath)]
    r = ctx.tlc("ScriptGen", "Script_vec", workers=1, timeout=3000, files={"vectors.ndjson": vpath})
    r.require_ok("vectors")
    res = {}
    for s in r.lines("VFT"):
        j = json.loads(s)
        res[j["i"]] = j["v"]
    if len(res) != len(vec):
        raise Infra("model judged %d of %d decoded vector inputs" % (len(res), len(vec)))
    out = {"script_tests": {"total": stats.get("script_tests", 0), "inside": 0, "agree": 0},
           "tx_valid": {"total": stats.get("tx_valid", 0), "inside": 0, "agree": 0},
           "tx_invalid": {"total": stats.get("tx_invalid", 0), "inside": 0, "agree": 0, "not_script_related": 0}}
    bad = []
    txs = {}
    for i, v in enumerate(vec, 1):
        m = res[i]
        if v["src"] == "script_tests":
            if m == "U":
                continue
            out["script_tests"]["inside"] += 1
            if m == v["expect"]:
                out["script_tests"]["agree"] += 1
            else:
                bad.append("script_tests.json entry %d (%s): Core %s, model %s" % (v["vec"], v["note"][:60], v["expect"], m))
        else:
            txs.setdefault((v["src"], v["vec"]), []).append((v, m))
    for (src, vi), l in sorted(txs.items()):
        if l[0][0]["inp"] == -1:
            out[src]["not_script_related"] = out[src].get("not_script_related", 0) + 1
            continue
        ms = [m for _, m in l]
        if src == "tx_valid":
            if "F" in ms:
                out[src]["inside"] += 1
                bad.append("tx_valid.json entry %d: Core valid, model rejects input %d" % (vi, ms.index("F")))
            elif "U" not in ms:
                out[src]["inside"] += 1
                out[src]["agree"] += 1
        else:
            if "F" in ms:
                out[src]["inside"] += 1
                out[src]["agree"] += 1
            elif "U" not in ms:
                out[src]["inside"] += 1
                bad.append("tx_invalid.json entry %d: Core invalid, model accepts every input" % vi)
    for k in ("script_tests_undecodable", "tx_valid_undecodable", "tx_invalid_undecodable"):
        if stats.get(k):
            out[k] = stats[k]
    if bad:
        raise Infra("the MODEL disagrees with Bitcoin Core's vectors (model bug, not a finding):\n  " + "\n  ".join(bad[:20]))
    inside = sum(out[k]["inside"] for k in ("script_tests", "tx_valid", "tx_invalid"))
    if inside < 1000:
        raise Infra("only %d vectors inside the modelled subset - decoder broken?" % inside)
    return out


def validate_trace(ctx, k, tpath):
    """(accepted, first rejected line number or None, TLCResult)"""
    r = sub(ctx, k).tlc("TraceScript", "Script_trace", workers=1, timeout=3000, files={"trace.ndjson": tpath})
    hw = None
    for line in open(r.outpath, errors="replace"):
        if "VFREJECT" in line:
            m = re.search(r'VFREJECT", (\d+)', line)
            if m:
                hw = int(m.group(1))
    if r.ok:
        return True, None, r
    if hw is None and not r.invariant:
        raise Infra("trace validation run broke\n" + r.tail)
    return False, hw, r


def one_trace(lines, hw):
    """the trace (begin .. end) that contains line hw (1-based)"""
    b = max(i for i in range(hw) if '"ev":"begin"' in lines[i])
    e = next((i for i in range(b + 1, len(lines)) if '"ev":"begin"' in lines[i]), len(lines))
    return lines[b:e], hw - b


def record_validate(ctx, binp, ntraces, chunk):
    stats = {"traces": 0, "events": 0, "accepted_by_gocoin": 0, "longest": 0, "rejected": 0}
    jobs = []
    for c in range(0, ntraces, chunk):
        tpath = os.path.join(ctx.scratch, "trace-%d.ndjson" % c)
        p = ctx.run([binp, "record", "-out", tpath, "-seed", str(ctx.seed * 1000 + c), "-traces", str(min(chunk, ntraces - c))], timeout=1500)
        if p.returncode != 0:
            raise Infra("record driver failed: " + p.stderr[-2000:])
        summ = json.loads(p.stdout.strip().splitlines()[-1])
        stats["traces"] += summ["traces"]
        stats["events"] += summ["events"]
        stats["accepted_by_gocoin"] += summ["accepted"]
        stats["longest"] = max(stats["longest"], summ["longest"])
        jobs.append(tpath)
    first = None
    viol = []
    with ThreadPoolExecutor(max_workers=3) as ex:
        futs = [(tp, ex.submit(validate_trace, ctx, 200 + i, tp)) for i, tp in enumerate(jobs)]
        for tp, fu in futs:
            acc, hw, r = fu.result()
            lines = open(tp).read().splitlines()
            if any('"ev":"crash"' in l for l in lines):
                l = next(l for l in lines if '"ev":"crash"' in l)
                viol.append(("C01:trace:crash", {"trace": [l]}, "the interpreter panicked or hung on a random program: " + l[:400]))
            if acc:
                first = first or tp
                continue
            stats["rejected"] += 1
            if r.invariant:
                viol.append(("C01:trace:invariant:" + r.invariant, {"tlc": r.tail[-3000:]}, "interpreter invariant %s violated on a recorded trace" % r.invariant))
                continue
            tr, rel = one_trace(lines, hw)
            bad = json.loads(tr[rel - 1])
            prog = json.loads(tr[0])
            if bad["ev"] == "op":
                what = "opcode 0x%02x at position %d: recorded state after it (depth %d, alt %d, cond %d, top %s) is not what the rules give" % (
                    bad["op"], bad["pos"], bad["depth"], bad["alt"], bad["cond"], bad["top"])
                sig = "C01:trace:%s:opcode-0x%02x" % (prog["sv"], bad["op"])
            else:
                nxt = sum(1 for l in tr[1:rel - 1] if '"ev":"op"' in l)
                op = prog["prog"][nxt]["o"] if nxt < len(prog["prog"]) else -1
                what = "verdict %s after %d opcodes (next opcode 0x%02x) is not what the rules give" % (bad["res"], nxt, op & 0xff)
                sig = "C01:trace:%s:verdict-at-0x%02x" % (prog["sv"], op & 0xff)
            viol.append((sig, {"trace": tr, "rejected_event": rel}, "%s script, flags %s: %s" % (prog["sv"], prog["flags"], what)))
    return stats, first, viol


def race_reports(ctx, tag):
    """reports of the Go race detector (classification as in checks/c02.py / c11.py): (inside the repository, elsewhere), lists of
    (signature, text); a report counts against gocoin when the innermost non-runtime frames of BOTH accesses are in ctx.repo"""
    genuine, other = [], []
    repo = os.path.realpath(ctx.repo) + "/"
    for fn in glob.glob(os.path.join(ctx.scratch, "race-" + tag + ".*")):
        txt = open(fn, errors="replace").read()
        for blk in txt.split("=================="):
            if "WARNING: DATA RACE" not in blk:
                continue
            tops = []
            for sec in re.split(r"\n\s*\n", blk):
                m = re.search(r"^(?:Previous )?(?:[Aa]tomic )?(?:[Rr]ead|[Ww]rite) at 0x[0-9a-f]+ by .*?:\n((?:  .*\n?)+)", sec, re.M)
                if not m:
                    continue
                top = None
                for fun, path, line in re.findall(r"^  (\S.*)\n\s+(\S+?):(\d+)", m.group(1), re.M):
                    if "/go-" in path or "/go/src/" in path or path.startswith("/usr/lib/go") or "/golang" in path:
                        continue
                    top = (re.sub(r"\(\)$", "", fun).replace("github.com/piotrnar/gocoin/", ""), path)
                    break
                tops.append(top)
            if len(tops) < 2 or any(t is None for t in tops[:2]):
                other.append(("unparsed", blk[:3000]))
                continue
            inrepo = [os.path.realpath(t[1]).startswith(repo) for t in tops[:2]]
            names = sorted(set("%s@%s" % (t[0], os.path.basename(t[1])) for t in tops[:2]))
            (genuine if all(inrepo) else other).append(("C01:race:" + "|".join(names), blk[:6000]))
    return genuine, other


def conc_driver(ctx, binp, path, calls, procs, env=None, timeout=3000):
    p = ctx.run([binp, "conc", "-in", path, "-seed", str(ctx.seed), "-calls", str(calls), "-procs", procs], timeout=timeout, env=env)
    fails, summary = [], None
    for ln in p.stdout.splitlines():
        if ln.startswith("{"):
            j = json.loads(ln)
            if j.get("summary"):
                summary = j
            elif not j.get("ok", True):
                fails.append(j)
    if p.returncode != 0 or summary is None:
        raise Infra("concurrency driver failed (rc=%d): %s" % (p.returncode, p.stderr[-3000:]))
    return summary, fails


def concurrency(ctx, binp, racebin, path, cov):
    """script.VerifyTxScript from many goroutines: every verdict must be the sequential one; then the same mix under the race build"""
    quick = ctx.tier == "quick"
    summ, fails = conc_driver(ctx, binp, path, 100000 if quick else 400000, "2,4,16")
    for f in fails:
        ctx.violation("C01:concurrent:%s:%s:%s>%s" % (f["fam"], f["w"], f["want"], f["got"][:5]),
                      {"stage": "concurrency", "seed": ctx.seed, "case": f},
                      "VerifyTxScript answered %s for a %s/%s case (%s, flags %s) when called from %d goroutines at GOMAXPROCS=%d; alone it answers %s, "
                      "as the rules say" % (f["got"], f["fam"], f["w"], f["tag"], ",".join(f["flags"]) or "NONE", f["goroutines"], f["gomaxprocs"], f["want"]))
    env = {"GORACE": "halt_on_error=0 exitcode=0 log_path=%s" % os.path.join(ctx.scratch, "race-conc")}
    rsumm, rfails = conc_driver(ctx, racebin, path, 12000 if quick else 60000, "4", env=env)
    g, h = race_reports(ctx, "conc")
    for sig, txt in g:
        ctx.violation(sig, {"stage": "concurrency", "kind": "race", "seed": ctx.seed, "race_report": txt},
                      "data race inside the repository while VerifyTxScript runs in several goroutines (%s)" % sig)
    for f in rfails:
        ctx.violation("C01:concurrent:%s:%s:%s>%s" % (f["fam"], f["w"], f["want"], f["got"][:5]), {"stage": "concurrency (race build)", "seed": ctx.seed, "case": f},
                      "VerifyTxScript answered %s for a %s/%s case under the race build with %d goroutines; alone %s" % (f["got"], f["fam"], f["w"], f["goroutines"], f["want"]))
    cov["concurrency"] = {"cases": summ["lines"], "case_flag_rows": summ["items"], "rows_accepted": summ["items_accepted"], "script_kinds": summ["kinds"],
                          "key_hash_rows": summ["hot_items"], "calls": summ["calls"], "wrong": summ["fail"], "gomaxprocs": [2, 4, 16],
                          "race_build_calls": rsumm["calls"], "race_build_wrong": rsumm["fail"], "race_reports_in_repo": len(g)}
    ctx.log("concurrency: %d calls over %d rows of %d script kinds, %d wrong; race build: %d calls, %d wrong, %d report(s) inside the repository" % (
        summ["calls"], summ["items"], summ["kinds"], summ["fail"], rsumm["calls"], rsumm["fail"], len(g)))
    if h and not ctx.violations:
        raise Infra("race report with an access outside the repository (harness or runtime, not a verdict):\n" + h[0][1][:3000])


def run(ctx):
    quick = ctx.tier == "quick"
    binp = ctx.build("script")
    cov = ctx.cov

    mc = MC_QUICK if quick else MC_THOROUGH
    jobs = [("all", 0, None, 0)]
    for fam, (depth, num) in SIMS[ctx.tier].items():
        jobs += [(fam, 0, (depth, min(SIM_PART, num - p0)), p0 // SIM_PART) for p0 in range(0, num, SIM_PART)]
    ex = ThreadPoolExecutor(max_workers=6)
    t0 = time.time()
    # everything that needs TLC is started at once (the long export first); results are collected phase by phase
    f_exp = [ex.submit(export, ctx, k, fam, ml, sim, part) for k, (fam, ml, sim, part) in enumerate(jobs)]
    f_vec = ex.submit(vectors, sub(ctx, 90), binp)
    f_mc = [(fam, ml, ex.submit(sub(ctx, 50 + k).tlc, "ScriptGen", "Script_mc", workers=4, timeout=3000,
                                defines=dict(FAM=fam, MAXLEN=ml, CLTVPOPS="FALSE", TIER=ctx.tier))) for k, (fam, ml) in enumerate(mc)]
    f_bad = ex.submit(sub(ctx, 49).tlc, "ScriptGen", "Script_mc", workers=2, timeout=1500,
                      defines=dict(FAM="lock", MAXLEN=0, CLTVPOPS="TRUE", TIER=ctx.tier))
    f_rec = ex.submit(record_validate, sub(ctx, 91), binp, 160 if quick else 4000, 80 if quick else 500)
    f_race = ex.submit(ctx.build, "script", True)
    try:
        run_phases(ctx, binp, cov, mc, f_mc, f_bad, f_vec, f_exp, f_rec, t0, f_race)
    finally:
        ex.shutdown(wait=True, cancel_futures=True)


def run_phases(ctx, binp, cov, mc, f_mc, f_bad, f_vec, f_exp, f_rec, t0, f_race):
    # ---- 1. the design
    states = 0
    for fam, ml, fu in f_mc:
        r = fu.result()
        if r.invariant:
            raise Infra("design-level counterexample in Script (%s, family %s)\n%s" % (r.invariant, fam, r.tail))
        r.require_ok("mc " + fam)
        states += r.distinct or 0
    r = f_bad.result()
    if r.invariant != "SoftForkInv":
        raise Infra("sanity: the design in which CLTV/CSV pop their operand must violate SoftForkInv, TLC reported %s\n%s" % (r.invariant, r.tail))
    cov["mc"] = {"families": ["%s/%d" % m for m in mc], "states": states,
                 "invariants": ["SoftForkInv", "TotalInv", "InterpInv", "FoldInv"], "refuted_variant": "CltvPops=TRUE violates SoftForkInv"}
    ctx.log("design: %d states over %d families, broken variant refuted" % (states, len(mc)))

    # ---- 2. the model against Core's vectors
    vec_problem = None          # a vector disagreement is raised after G->R, so that reproduced violations stand
    try:
        cov["core_vectors_judged_by_model"] = f_vec.result()
        ctx.log("vectors: %s" % json.dumps(cov["core_vectors_judged_by_model"]))
    except Infra as e:
        vec_problem = e

    # ---- 3. generate -> replay
    state = {"seen": set(), "by_signature": {}, "failing_evaluations": 0}
    totals = {"lines": 0, "evaluations": 0, "distinct": 0, "distinct_nontrivial": 0, "model_accepts": 0}
    fams = {}
    first = None
    allpath = None
    for fu in f_exp:
        tag, path, n, r = fu.result()
        if tag == "all":
            allpath = path
        summ, fails = replay(ctx, binp, path)
        if summ["lines"] != n:
            raise Infra("replay %s: %d of %d lines" % (tag, summ["lines"], n))
        for k in totals:
            totals[k] += summ[k]
        for fname, (ev, acc, fl) in sorted(summ["families"].items()):
            key = fname if tag == "all" else tag
            fams[key] = {"evaluations": ev, "model_accepts": acc, "fail": fl}
        cov.setdefault("tlc_wall_s", {})[tag] = round(r.wall, 1)
        record_failures(ctx, fails, state)
        if first is None and not fails and summ["model_accepts"] > 0:
            first = path
        if len(cov["samples"]) < 3:
            with open(path) as fh:
                for i, l in enumerate(fh):
                    if i == 7:
                        j = json.loads(l)
                        j["fv"] = j["fv"][:2]
                        ctx.sample(j)
        ctx.log("%s: %d cases, %d evaluations, %d accepted by the model, %d disagreements" % (tag, n, summ["evaluations"], summ["model_accepts"], summ["fail"]))
    cov["generate_replay_wall_s"] = round(time.time() - t0, 1)

    # ---- 4. binding self-test
    if first is None:
        raise Infra("no family without disagreements to run the binding self-test on")
    mut = os.path.join(ctx.scratch, "mut.ndjson")
    flipped = 0
    with open(first) as f, open(mut, "w") as g:
        for l in f:
            j = json.loads(l)
            if flipped < 2:
                want = "T" if flipped == 0 else "F"
                for fv in j["fv"]:
                    if fv["v"] == want:
                        fv["v"] = "F" if want == "T" else "T"
                        flipped += 1
                        j["fv"] = [fv]
                        g.write(json.dumps(j) + "\n")
                        break
    summ, fails = replay(ctx, binp, mut)
    if flipped != 2 or summ["fail"] != 2:
        raise Infra("binding self-test failed: %d corrupted predictions, %d rejected" % (flipped, summ["fail"]))

    # ---- 5. record -> validate: long random programs, every intermediate state compared
    rstats, tfirst, viol = f_rec.result()
    for sig, obj, what in viol:
        ctx.violation(sig, obj, what)
    cov["recorded_traces"] = rstats
    ctx.log("R->V: %s" % json.dumps(rstats))
    if tfirst is not None:
        lines = open(tfirst).read().splitlines()
        k = next(i for i, l in enumerate(lines) if '"ev":"op"' in l and i > 3)
        j = json.loads(lines[k])
        j["depth"] += 1
        lines[k] = json.dumps(j)
        e = next(i for i in range(k, len(lines)) if '"ev":"end"' in lines[i])
        mutp = os.path.join(ctx.scratch, "trace-mut.ndjson")
        open(mutp, "w").write("\n".join(lines[:e + 1]) + "\n")
        acc, hw, r = validate_trace(ctx, 300, mutp)
        if acc or hw != k + 1:
            raise Infra("binding self-test failed: corrupted trace accepted=%s first rejected line=%s expected %d" % (acc, hw, k + 1))

    # ---- 6. concurrency: the interpreter is called from one goroutine per input by lib/chain and client/txpool
    concurrency(ctx, binp, f_race.result(), allpath, cov)

    if vec_problem is not None:
        raise vec_problem

    ctx.level = "exploration"
    cov.update({
        "evaluations": totals["evaluations"],
        "distinct_nontrivial": totals["distinct_nontrivial"],
        "distinct_cases": totals["distinct"],
        "model_accepts": totals["model_accepts"],
        "exported_cases": totals["lines"],
        "families": fams,
        "failing_evaluations": state["failing_evaluations"],
        "failures_by_signature": state["by_signature"],
        "signatures_over_the_recording_cap": state.get("not_recorded", 0),
        "exhaustive": True,
        "rule": "TLC enumerates, per family, every program up to the family's length over its alphabet (BFS) and seeded random longer "
                "ones (simulation), every spend-type wrapper and every consistent subset of the family's optional flags; explicit case sets "
                "for orchestration / taproot / CHECKMULTISIG / lock times / limits; the verdict is computed by spec/Script.tla (Verify) and "
                "each (case, flag set) is run on script.VerifyTxScript. distinct = distinct (scriptSig, scriptPubKey, witness, tx context, "
                "flags) after concretisation; non-trivial = the model accepts it, or the verdict differs between flag sets of the same "
                "case, or the locked script executes >= 2 opcodes without failing in the model, or it is a stack-check variant / a "
                "hand-written rule probe (set families)",
    })
    ctx.assumptions += [
        "hashes, keys and signatures are symbolic in the model; the harness concretises them with crypto/sha256, crypto/sha1, "
        "lib/others/ripemd160 and gocoin's signing / digest primitives (judged by C02/C03)",
        "an ok=false signature token is a valid signature over another message / by another key; undefined taproot hash types and "
        "SIGHASH_SINGLE without output are signed over the all-zero string (the adversarial choice)",
        "flag sets: Core's dependencies (CLEANSTACK => P2SH+WITNESS, WITNESS => P2SH, TAPROOT => WITNESS) and "
        "DISCOURAGE_UPGRADABLE_NOPS only together with CLTV and CSV",
        "raw byte strings shorter than 9 bytes or not starting with 0x30 are never valid ECDSA signatures; 20/32-byte hash outputs are "
        "never DER signatures or public keys",
    ]


def replay_cmd(ctx, path):
    j = json.load(open(path))
    rp = j["replay"]
    binp = ctx.build("script")
    if "trace" in rp:
        tp = os.path.join(ctx.scratch, "one-trace.ndjson")
        open(tp, "w").write("\n".join(rp["trace"]) + "\n")
        acc, hw, r = validate_trace(ctx, 1, tp)
        print("recorded trace %s by the specification (first rejected event: %s)" % ("accepted" if acc else "REJECTED", hw))
        return 0 if acc else 1
    p = os.path.join(ctx.scratch, "one.ndjson")
    open(p, "w").write(json.dumps(rp["line"]) + "\n")
    ctx.seed = rp.get("seed", ctx.seed)
    summ, fails = replay(ctx, binp, p)
    for f in fails:
        print("reproduced:", f["what"], "flags", f["flags"], "got", f["got"], "want", f["want"])
    return 1 if fails else 0
