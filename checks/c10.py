"""C10 - UTXO records and snapshot files are lossless.

spec/UtxoRec.tla   the record grammar in both formats as cell streams (CompactSize widths, the compressed
                   format's special-script codes 0..5 and the len+6 escape, the amount compressor stated exactly on
                   decimal digit sequences), script CLASSES, amount digit classes, separate operators for the
                   encoders, the full decoders and the single-output walkers; and a small machine over UnspentDB
                   (Open = new process with process-global codec, Commit, Spend, Close = save header + records).
  1. TLC: StoreLoadIdentity, OneOutAgrees, OneOutIdentity, AllSpentNotStored, AmtRoundTrip, MoneyFits, HeaderSame,
     SnapReadIdentity, HeaderNamesCodec, FileIsTruth over every enumerated case; each rule broken on purpose
     (constant Bug) must be refuted.  Two of the broken variants are what the code at the pinned commit does.
  2. G->R: every enumerated record shape (single: script class x amount class; shape: 1..3 outputs x every survivor
     subset x script classes; index: 2n+cb and survivor indices at the CompactSize boundaries; height; dense) is
     concretised and taken through Serialize -> NewUtxoRec / FullUtxoRec / NewUtxoRecStatic / NewUtxoRecOwn(cbs) /
     OneUtxoRec in BOTH formats, directly and through the package-level function variables; every behaviour of the
     snapshot machine is run on a real UnspentDB, one child process per Open.  The oracle is the identity.
     Generated sets whose sizes sit around the snapshot loader's pack size (65535 / 65536 / 65537 / 131073 records) and
     wide blocks (thousands of multi-output records per block: UnspentDB.commit serialises them from many goroutines
     over SerializeC's shared scratch pool) are committed, read back live, saved and read back in a new process; the
     wide blocks run once more under the Go race detector (a report inside lib/utxo is a violation).
  3. seeded random records (near-template mutations, random survivor subsets, amounts up to 2^64-1), random sets
     through Save / reload with every create x reopen option, and the same through chain.NewChainExt(CompressUTXO).
  4. binding self-test: corrupted expectations must be rejected.
There is no R->V step: encode / decode are pure functions (the comparison would be the same with roles swapped).
"""
import copy, json, os, threading
from vf import Infra

ALL = ["TypeOK", "StoreLoadIdentity", "AllSpentNotStored", "OneOutAgrees", "OneOutIdentity", "AmtRoundTrip", "MoneyFits",
       "HeaderSame", "SnapReadIdentity", "HeaderNamesCodec", "FileIsTruth", "LoaderComplete", "PoolSerialised"]

# deliberately broken rule -> (parts to enumerate, invariant that has to notice)
BUGS = [("escape5", '"single"', "StoreLoadIdentity"), ("swap23", '"single"', "StoreLoadIdentity"), ("cb_lost", '"height"', "StoreLoadIdentity"),
        ("one_next", '"shape"', "OneOutAgrees"), ("idx_w", '"index"', "StoreLoadIdentity"), ("amt_e9", '"single"', "AmtRoundTrip"),
        ("noncanon", '"single"', "StoreLoadIdentity"), ("fresh_bit_only", '"snap"', "SnapReadIdentity"),
        ("fresh_bit_only", '"snap"', "HeaderNamesCodec"), ("pack_short", '"height"', "LoaderComplete"), ("pool_unlocked", '"pool"', "PoolSerialised")]


def lanes(ctx, jobs, width):
    res = [None] * len(jobs)
    ctx._c10_lanes = getattr(ctx, "_c10_lanes", 0) + 1
    gen = ctx._c10_lanes
    err, lock, nxt = [], threading.Lock(), [0]

    def worker(w):
        c2 = copy.copy(ctx)
        c2.scratch = os.path.join(ctx.scratch, "lane%d-%d" % (gen, w))
        os.makedirs(c2.scratch, exist_ok=True)
        c2._tlc_n = 0
        while True:
            with lock:
                i = nxt[0]
                nxt[0] += 1
            if i >= len(jobs) or err:
                return
            try:
                res[i] = jobs[i](c2)
            except BaseException as e:  # noqa
                err.append(e)
                return

    th = [threading.Thread(target=worker, args=(w,)) for w in range(min(width, len(jobs)))]
    for t in th:
        t.start()
    for t in th:
        t.join()
    if err:
        raise err[0]
    return res


def defs(ctx, parts, lane=0, nlanes=1, maxouts=3, scrsel=10, stride=1, big=False, maxopens=3, maxspends=1, bug=None, invs=None):
    d = dict(PARTS=parts, MAXOUTS=maxouts, SCRSEL=scrsel, STRIDE=stride, BIG="TRUE" if big else "FALSE", SALT=ctx.seed % 10007,
             LANE=lane, NLANES=nlanes, MAXOPENS=maxopens, MAXSPENDS=maxspends)
    if invs is not None:
        d.update(BUG=bug or "none", INVS=" ".join(invs))
    return d


def run_driver(ctx, argv, timeout=3000):
    p = ctx.run(argv, timeout=timeout)
    if p.returncode != 0:
        raise Infra("driver %s failed rc=%d: %s" % (argv[1], p.returncode, p.stderr[-2000:]))
    fails, infra, summ = [], [], None
    for ln in p.stdout.splitlines():
        if not ln.startswith("{"):
            continue
        j = json.loads(ln)
        if j.get("summary"):
            summ = j
        elif j.get("kind") == "infra":
            infra.append(j)
        elif not j.get("ok", True):
            fails.append(j)
    if summ is None:
        raise Infra("driver %s gave no summary: %s" % (argv[1], p.stderr[-1000:]))
    if infra:
        raise Infra("driver %s: model and driver disagree: %s" % (argv[1], json.dumps(infra[0])[:1500]))
    return summ, fails


def export_lane(tag, d, timeout, count_exact):
    def job(c2):
        r = c2.tlc("UtxoRecGen", "UtxoRec_gen", workers=1, defines=d, timeout=timeout)
        if r.invariant:
            raise Infra("design-level counterexample in UtxoRec (%s, export %s)\n%s" % (r.invariant, tag, r.tail))
        r.require_ok("export " + tag)
        path = os.path.join(c2.scratch, "lines-%s.json" % tag)
        n = 0
        with open(path, "w") as f:
            for s in r.lines("VFT"):
                f.write(s + "\n")
                n += 1
        if count_exact and n != r.generated - 1:
            raise Infra("export %s: %d lines for %s generated states" % (tag, n, r.generated))
        os.remove(r.outpath)
        return tag, path, n, r.distinct, r.generated
    return job


def report(ctx, fails, stage):
    for f in fails:
        what = f["what"]
        if f.get("record_bytes"):
            what += " | record bytes (%s format): %s" % (f.get("fmt", "?"), f["record_bytes"][:600])
        ctx.violation(f["sig"], {"stage": stage, "seed": ctx.seed, "line": f.get("line"), "fmt": f.get("fmt"),
                                 "record_bytes": f.get("record_bytes")}, what)


def run(ctx):
    quick = ctx.tier == "quick"
    binp = ctx.build("utxorec")
    ncpu = os.cpu_count() or 4
    width = max(1, ncpu - 2)
    states = transitions = 0
    big = not quick

    # ---- 1. the grammar and the snapshot machine hold on the enumerated cases; every broken rule is refuted
    def mcjob(parts, **kw):
        def job(c2):
            r = c2.tlc("UtxoRec", "UtxoRec_mc", workers=2, defines=defs(ctx, parts, bug="none", invs=ALL, **kw), timeout=3000)
            if r.invariant:
                raise Infra("design-level counterexample in UtxoRec (%s): the model must be re-examined\n%s" % (r.invariant, r.tail))
            r.require_ok("mc " + parts)
            return r.distinct, r.generated
        return job

    def bugjob(bug, parts, inv):
        def job(c2):
            r = c2.tlc("UtxoRec", "UtxoRec_mc", workers=2, defines=defs(ctx, parts, nlanes=2 if parts == '"index"' else 1, lane=0, maxouts=2, scrsel=4, stride=20,
                                                                         maxopens=2, bug=bug, invs=["TypeOK", inv]), timeout=900)
            if r.invariant != inv:
                raise Infra("sanity: UtxoRec with Bug=%s should violate %s, TLC says %s\n%s" % (bug, inv, r.invariant, r.tail))
            return "%s violates %s" % (bug, inv)
        return job

    mc = [mcjob('"single","height","dense"', stride=5 if quick else 1, big=big), mcjob('"shape"', maxouts=2 if quick else 3, scrsel=8 if quick else 12, big=big),
          mcjob('"index"', nlanes=4, lane=ctx.seed % 4), mcjob('"snap","pool"', maxopens=3, maxspends=2)]
    res = lanes(ctx, mc + [bugjob(*b) for b in BUGS], width)
    for d, g in res[:len(mc)]:
        states += d
        transitions += g
    ctx.cov["refuted_variants"] = res[len(mc):]
    ctx.log("design holds on %d states; %d broken variants refuted" % (states, len(BUGS)))

    # ---- 2. every enumerated case exported and replayed on the real code
    jobs = []
    ns = 8 if quick else 12
    for l in range(ns):
        jobs.append(export_lane("single%d" % l, defs(ctx, '"single"', lane=l, nlanes=ns, big=big), 3000, True))
    nsh = 2 if quick else 12
    for l in range(nsh):
        jobs.append(export_lane("shape%d" % l, defs(ctx, '"shape"', lane=l, nlanes=nsh, maxouts=3, scrsel=10 if quick else 30, big=big), 3000, True))
    for l in range(4):
        jobs.append(export_lane("index%d" % l, defs(ctx, '"index"', lane=l, nlanes=4), 3000, True))
    jobs.append(export_lane("misc", defs(ctx, '"height","dense"', big=big), 3000, True))
    jobs.append(export_lane("snap", defs(ctx, '"snap"', maxopens=3, maxspends=1 if quick else 2), 3000, False))
    # sets around the snapshot loader's pack size and wide blocks that make commit serialise from many goroutines
    jobs.append(export_lane("bulk", defs(ctx, '"bulkq"' if quick else '"bulk"'), 3000, True))
    allpath = os.path.join(ctx.scratch, "lines-all.json")
    widepath = os.path.join(ctx.scratch, "lines-wide.json")
    nwide = 0
    nlines = 0
    first_rec = first_snap = None
    with open(allpath, "w") as fo:
        for tag, path, n, distinct, generated in lanes(ctx, jobs, width):
            states += distinct
            transitions += generated
            nlines += n
            with open(path) as fi:
                for i, l in enumerate(fi):
                    fo.write(l)
                    if tag == "bulk" and '"k":"wide"' in l:
                        with open(widepath, "a") as fw:
                            fw.write(l)
                        nwide += 1
                    if tag == "shape0" and i in (3, 40, 400):
                        j = json.loads(l)
                        ctx.sample({"case": j["c"], "record": {"n": j["rec"]["n"], "coinbase": j["rec"]["cb"], "height_digits_lsd_first": j["rec"]["h"],
                                                               "survivors": [{"index": o["i"], "script_class": o["s"], "amount_class": o["ak"],
                                                                              "amount_digits_lsd_first": o["v"]} for o in j["rec"]["outs"]]},
                                    "model_prediction": j["pred"]})
            if tag == "single0":
                first_rec = path
            elif tag == "snap":
                first_snap = path
            else:
                os.remove(path)
    ctx.log("exported %d cases / behaviours" % nlines)
    summ, fails = run_driver(ctx, [binp, "replay", "-in", allpath, "-seed", str(ctx.seed), "-workers", str(ncpu), "-dir", os.path.join(ctx.scratch, "rp")])
    ctx.log("replayed %d record cases and %d snapshot behaviours (%d processes): %d comparisons, %d failures" %
            (summ["rec_cases"], summ["snap_behaviours"], summ["processes"], summ["evaluations"], summ["fail"]))
    report(ctx, fails, "replay")
    if summ["lines"] != nlines and not any(f["sig"].endswith((":fatal", ":hang")) for f in fails):
        raise Infra("replay saw %d of %d lines" % (summ["lines"], nlines))
    evaluations = summ["evaluations"]
    distinct = summ["distinct"]

    # the wide blocks once more under the Go race detector: unsynchronised access inside lib/utxo while records are
    # serialised is a stored record about to be changed, whether or not this run's schedule made it visible
    if nwide == 0:
        raise Infra("no wide case exported")
    racebin = ctx.build("utxorec", race=True)
    ws, wf = run_driver(ctx, [racebin, "replay", "-in", widepath, "-seed", str(ctx.seed), "-workers", "2", "-dir", os.path.join(ctx.scratch, "race")])
    report(ctx, wf, "race")
    if ws["lines"] != nwide and not wf:
        raise Infra("race run saw %d of %d lines" % (ws["lines"], nwide))
    evaluations += ws["evaluations"]
    ctx.cov["race_detector"] = {"wide_sets_run_with_-race": nwide, "processes": ws["processes"], "reports": len(wf)}
    ctx.log("race detector: %d wide sets, %d processes, %d failures" % (nwide, ws["processes"], ws["fail"]))

    # ---- 3. seeded random records and sets, and the chain-level path
    nr = 3000 if quick else 200000
    rs, rf = run_driver(ctx, [binp, "random", "-seed", str(ctx.seed), "-n", str(nr), "-dir", os.path.join(ctx.scratch, "rnd")] + (["-big"] if big else []))
    report(ctx, rf, "random")
    evaluations += rs["evaluations"]
    distinct += rs["distinct"]
    ss, sf = run_driver(ctx, [binp, "snaprand", "-seed", str(ctx.seed), "-n", str(300 if quick else 6000), "-dir", os.path.join(ctx.scratch, "sr")] + (["-big"] if big else []))
    report(ctx, sf, "snaprand")
    cs, cf = run_driver(ctx, [binp, "chain", "-seed", str(ctx.seed), "-dir", os.path.join(ctx.scratch, "ch")])
    report(ctx, cf, "chain")
    evaluations += ss["evaluations"] + cs["evaluations"]
    ctx.log("random: %d records (%d failures); random sets: %d processes (%d failures); chain API: %d failures" %
            (rs["records"], rs["fail"], ss["processes"], ss["fail"], cs["fail"]))

    # ---- 4. binding self-test
    try:
        selftest(ctx, binp, first_rec, first_snap)
    except Infra as e:
        if not ctx.violations:
            raise
        ctx.log("self-test not conclusive on a tree with violations: %s" % str(e)[:300])

    ctx.level = "exploration"
    ctx.cov.update({
        "evaluations": evaluations, "distinct_nontrivial": distinct, "exhaustive": True,
        "rule": "TLC enumerates every case of spec/UtxoRec.tla under the constants of checks/c10.py (single: every script class x every amount class; "
                "shape: 1..3 outputs x every survivor subset x script classes; index: 2n+coinbase and survivor indices at the CompactSize boundaries; "
                "heights; dense records; generated sets of 65535 / 65536 / 65537 / 131073 one-output records (the snapshot loader's pack size) and wide blocks of "
                "1500..3000 records x 40..60 outputs committed concurrently, read back live and after reload; every behaviour of the snapshot machine that ends with a reload or the last Close) and the driver adds seeded random "
                "records / sets. evaluations = comparisons made on the real code (one per decoder call or single-output lookup or set read whose result was "
                "compared with the stored record). distinct_nontrivial = number of DISTINCT serialised records (sha256 of the bytes Serialize produced, per "
                "format) with at least one unspent output that went through the decoders, counted by the driver; all-spent records, repeated byte strings and "
                "snapshot reads are not counted",
        "cases_from_tlc": nlines, "cases_by_kind": summ["kinds"], "tlc_states_checked": states, "tlc_transitions": transitions,
        "snapshot_processes": summ["processes"] + ss["processes"], "random_records": rs["records"],
        "grammar_observations_not_judged": {"encoded_size_compared_U_C": summ["size_compared"], "encoded_size_differs_U_C": summ["size_disagree"],
                                            "special_code_and_file_header_compared": summ["codes_compared"], "differs": summ["codes_disagree"]}})
    ctx.assumptions += ["script bytes per class are built by the driver (own math/big secp256k1: valid points by solving the curve equation, x >= p / y >= p / off-curve / hybrid keys by hand; self-checked on every run)",
                        "one UnspentDB per process lifetime, as in the client: every Open of the snapshot machine is a new process (utxo.Serialize / NewUtxoRecOwn / OneUtxoRec are process-global)",
                        "the encoded size and the special-script code predicted by the model are compared as observations only: the property does not fix the byte layout",
                        "amounts above 21e14 are outside what consensus admits but inside what the property states ('any amount'); they are judged"]


def selftest(ctx, binp, first_rec, first_snap):
    """corrupted expectations must be rejected, each with the field it was corrupted in"""
    mut = os.path.join(ctx.scratch, "mut.json")
    want = {}
    with open(first_rec) as f, open(mut, "w") as g:
        for l in f:
            j = json.loads(l)
            o = j["rec"]["outs"]
            if not o or o[0]["v"] == [] or o[0]["s"] in ("p2pk04_xgep", "p2pk04_ygep") or j["pred"]["sizeC"] < 0:
                continue
            e = copy.deepcopy(j["rec"])
            k = len(want)
            if k == 0:
                e["outs"][0]["v"][0] = (e["outs"][0]["v"][0] + 1) % 10 or 1
                want["value"] = 1
            elif k == 1:
                e["outs"][0]["s"], e["outs"][0]["sl"] = ("raw5", 5) if o[0]["s"] != "raw5" else ("raw6", 6)
                want["script"] = 1
            elif k == 2:
                e["cb"] = not e["cb"]
                want["coinbase"] = 1
            elif k == 3:
                e["outs"] = []
                want["slot"] = 1
            elif k == 4:
                e["n"] += 1
                want["count"] = 1
            else:
                break
            j["expect"] = e
            g.write(json.dumps(j) + "\n")
    # a snapshot behaviour whose last predicted set is altered
    done = False
    with open(first_snap) as f, open(mut, "a") as g:
        for l in f:
            j = json.loads(l)
            st = j["steps"]
            if st[0]["x"] == 0 and st[-1]["a"] == "Open" and st[-1]["reload"] and not st[-1]["bit"]:
                recs = [r for r in st[-1]["set"] if r["id"] != 0 and r["outs"] and r["outs"][0]["v"]]
                if recs:
                    recs[0]["outs"][0]["v"][0] = (recs[0]["outs"][0]["v"][0] + 1) % 10 or 1
                    g.write(json.dumps(j) + "\n")
                    done = True
                    break
    summ, fails = run_driver(ctx, [binp, "replay", "-in", mut, "-seed", str(ctx.seed), "-workers", "2", "-dir", os.path.join(ctx.scratch, "mut")])
    got = set()
    for f in fails:
        p = f["sig"].split(":")
        got.add(p[3] if p[1] == "rec" else "snap")
    need = set(want) | {"snap"}
    if not done or len(want) != 5 or not need <= got:
        raise Infra("binding self-test failed: corrupted expectations gave %s, expected %s" % (sorted(got), sorted(need)))
    ctx.cov["binding_selftest"] = "corrupted expectations rejected: " + ", ".join(sorted(need))


def replay_cmd(ctx, path):
    j = json.load(open(path))
    rp = j["replay"]
    ctx.seed = rp.get("seed", ctx.seed)
    binp = ctx.build("utxorec")
    line = rp.get("line") or {}
    k = line.get("k")
    d = os.path.join(ctx.scratch, "rp")
    if k in ("rec", "snap", "concrete"):
        p = os.path.join(ctx.scratch, "one.json")
        open(p, "w").write(json.dumps(line) + "\n")
        summ, fails = run_driver(ctx, [binp, "replay", "-in", p, "-seed", str(ctx.seed), "-workers", "1", "-dir", d])
    elif k == "too-large":
        print("the failing random record is too large to be stored in the replay file: re-run the check with VERIF_SEED=%d --tier %s" % (ctx.seed, j.get("tier")))
        return 2
    elif k == "snaprand":
        summ, fails = run_driver(ctx, [binp, "snaprand", "-seed", str(line["seed"]), "-n", str(line["n"]), "-dir", d])
    elif k == "chain":
        summ, fails = run_driver(ctx, [binp, "chain", "-seed", str(line["seed"]), "-dir", d])
    else:
        print("unknown replay kind")
        return 2
    hit = [f for f in fails if f["sig"] == j["signature"]]
    for f in hit[:5]:
        print("reproduced:", f["sig"], f["what"][:400])
    return 1 if hit else 0
