"""C20 - the UTXO memory allocator never corrupts or aliases live data.

spec/Alloc.tla   model of lib/others/memory (Malloc / Free / defragClass, the node pointers of both free
                 lists written one by one as the code does; threads interleave at the classMu sections)
  1. TLC, exhaustive, small constants: NoOverlap, ListsWellFormed, CountersExact, CapacityOK,
     RelocateExactlyOnce, ContentsKept ...; deliberately broken variants (five bugs, non-exclusive
     defragmentation) must be refuted
  2. G->R: every transition of a sequential small model (AllocGen) is replayed on the real allocator with
     two large classes shrunk to the model's capacities: returned (page, slot), the whole class
     bookkeeping (page list, headers, both free lists) and the counters are compared after every step
  3. R->V: seeded runs of 1..16 goroutines on the real allocator (sizes on every class boundary, the large
     classes, the private-mapping path, real defragmentation passes); Go-level checks of contents, len/cap,
     overlap, Allocs, relocate callbacks; the hook trace is validated by TraceAlloc (Strict), and by its
     policy-free reading (Strict = FALSE) to tell a violation of C20 from a mere difference of policy
  4. the recording driver under the Go race detector
  5. binding self-tests: corrupted prediction / corrupted trace lines must be rejected
"""
import atexit, json, os, re, shutil, subprocess, threading, time
import vf
from vf import Infra

STRICT_INVS = "TNoOverlap TListsWellFormed TCountersExact TCapacityOK TFreeBranchLive THeadIsPageHead TRelocateAtMostOnce"
BUGS = ["keep_cur", "defrag_keep_global", "free_no_dec", "class_off", "pop_keeps_pagelist"]


# ----------------------------------------------------------------------------- TLC, several at a time
class Job:
    pass


JOBS = []


def _kill_jobs():
    for j in JOBS:
        j.killed = True
        try:
            if j.p.poll() is None:
                j.p.kill()
        except Exception:
            pass


atexit.register(_kill_jobs)


def tlc_start(ctx, module, cfg, workers, defines, files=None, simulate=None, depth=None, heap="4g"):
    """Same as ctx.tlc but does not wait: several TLC runs share the machine."""
    ctx._tlc_n += 1
    d = os.path.join(ctx.scratch, "tlc%d" % ctx._tlc_n)
    shutil.copytree(os.path.join(vf.VERIF, "spec"), d)
    cfgtxt = open(os.path.join(d, "cfg", cfg + ".cfg")).read()
    for k, v in (defines or {}).items():
        cfgtxt = cfgtxt.replace("@@%s@@" % k, str(v))
    if "@@" in cfgtxt:
        raise Infra("unsubstituted marker in cfg %s: %s" % (cfg, re.findall(r"@@\w+@@", cfgtxt)))
    open(os.path.join(d, module + ".cfg"), "w").write(cfgtxt)
    for name, content in (files or {}).items():
        if isinstance(content, str) and os.path.isabs(content) and os.path.exists(content):
            os.symlink(content, os.path.join(d, name))
        else:
            open(os.path.join(d, name), "w").write(content)
    java = ["java", "-XX:+UseParallelGC", "-Xss64m", "-Xmx%s" % heap, "-cp", vf.TLA_CP, "tlc2.TLC",
            "-metadir", os.path.join(d, "meta"), "-workers", str(workers), "-config", module + ".cfg", "-noGenerateSpecTE"]
    if simulate:
        java += ["-simulate", simulate]
        if depth:
            java += ["-depth", str(depth)]
        java += ["-seed", str(ctx.seed)]
    java.append(module + ".tla")
    j = Job()
    j.module, j.cfg, j.d, j.t0 = module, cfg, d, time.time()
    j.outpath = os.path.join(d, "tlc.out")
    j.java, j.tries, j.rc, j.killed = java, 1, None, False
    j.done = threading.Event()

    def nanny():
        # a TLC process killed from outside (another job's clean-up on a shared machine) is not a result:
        # it is started again, at once, up to two times
        while True:
            with open(j.outpath, "w") as fo:
                j.p = subprocess.Popen(j.java, cwd=j.d, stdout=fo, stderr=subprocess.STDOUT)
                rc = j.p.wait()
            if rc in (143, 137, -15, -9) and not j.killed and j.tries < 3:
                ctx.log("tlc %s/%s was killed by a signal (rc=%d), restarting" % (j.module, j.cfg, rc))
                j.tries += 1
                shutil.rmtree(os.path.join(j.d, "meta"), ignore_errors=True)
                continue
            j.rc = rc
            j.done.set()
            return
    JOBS.append(j)
    threading.Thread(target=nanny, daemon=True).start()
    return j


def tlc_wait(ctx, j, timeout):
    if not j.done.wait(timeout=max(1, timeout - (time.time() - j.t0))):
        j.killed = True
        try:
            j.p.kill()
        except Exception:
            pass
        j.done.wait(30)
        j.rc = -9
    r = vf.TLCResult(j.module, j.cfg, j.outpath, j.rc, time.time() - j.t0, j.d)
    ctx.log("tlc %s/%s rc=%d %.1fs generated=%s distinct=%s%s" % (j.module, j.cfg, j.rc, r.wall, r.generated, r.distinct,
                                                                 " TIMEOUT" if j.rc == -9 else ""))
    return r


# ----------------------------------------------------------------------------- pieces
def signature(what):
    return "C20:" + re.sub(r"\d+", "N", what)[:90]


def mc_defs(threads, maxops, maxpages, topages, cachelow=1, sizes="2, 3, 5", maxdefrag=1, excl="TRUE", bug="none"):
    return dict(CLASSES="1, 2", SIZES=sizes, THREADS=", ".join("t%d" % i for i in range(1, threads + 1)), MAXOPS=maxops,
                MAXPAGES=maxpages, MAXDEFRAG=maxdefrag, CACHELOW=cachelow, TOPAGES=topages, EXCLUSIVE=excl, BUG=bug)


def run_replay(ctx, binp, lines_path, tag, procs=8):
    """Split the exported lines over several driver processes (the hook sink is per process)."""
    lines = open(lines_path).read().splitlines()
    procs = max(1, min(procs, len(lines)))
    chunks = [lines[i::procs] for i in range(procs)]
    ps = []
    for i, ch in enumerate(chunks):
        p = os.path.join(ctx.scratch, "rp-%s-%d.json" % (tag, i))
        open(p, "w").write("\n".join(ch) + "\n")
        ps.append(subprocess.Popen([binp, "replay", "-in", p], stdout=subprocess.PIPE, stderr=subprocess.PIPE, text=True,
                                   env=ctx.goenv(), cwd=ctx.scratch))
    tot = {"lines": 0, "steps": 0, "fail": 0, "policy": 0}
    fails = []
    for p in ps:
        try:
            out, err = p.communicate(timeout=3000)
        except subprocess.TimeoutExpired:
            p.kill()
            raise Infra("replay driver timed out")
        summary = None
        for ln in out.splitlines():
            if not ln.startswith("{"):
                continue
            j = json.loads(ln)
            if j.get("summary"):
                summary = j
            elif not j.get("ok", True):
                fails.append(j)
        if summary is None:
            crash = crash_in_allocator(err)
            if crash:
                fails.append({"kind": "property", "what": "replay driver died inside the allocator: " + crash, "line": None, "step": -1})
                continue
            raise Infra("replay driver gave no summary rc=%s\n%s" % (p.returncode, err[-3000:]))
        for k in tot:
            tot[k] += summary.get(k, 0)
    return tot, fails


def crash_in_allocator(stderr):
    """Go runtime crash dump whose stack passes through lib/others/memory -> one-line description, else None."""
    if not re.search(r"^(fatal error|panic|unexpected fault address|SIGSEGV)", stderr, re.M) and "signal SIGSEGV" not in stderr:
        return None
    m = re.search(r"lib/others/memory\.\(?\*?\w*\)?\.?(\w+)", stderr)
    if not m:
        return None
    first = [l for l in stderr.splitlines() if l.startswith(("fatal error", "panic", "unexpected fault"))]
    return "%s in memory.%s" % (first[0] if first else "crash", m.group(1))


def export(ctx, defines, tag, simulate=None, depth=None, timeout=1500):
    j = tlc_start(ctx, "AllocGen", "Alloc_gen", 1, defines, simulate=simulate, depth=depth)
    r = tlc_wait(ctx, j, timeout)
    if not r.ok:
        r.require_ok("export " + tag)
    path = os.path.join(ctx.scratch, "lines-%s.json" % tag)
    n = 0
    with open(path, "w") as f:
        for s in r.lines("VFT"):
            f.write(s + "\n")
            n += 1
    return r, path, n


def record(ctx, binp, tag, seed, runs, ops, rounds, g=0, small=False, defrag=True, env=None, timeout=1500):
    tr = os.path.join(ctx.scratch, "trace-%s.ndjson" % tag)
    argv = [binp, "record", "-out", tr, "-seed", str(seed), "-runs", str(runs), "-ops", str(ops), "-rounds", str(rounds), "-g", str(g)]
    if small:
        argv.append("-smallcap")
    if defrag:
        argv.append("-defrag")
    p = ctx.run(argv, timeout=timeout, env=env)
    fails, summary = [], None
    for ln in p.stdout.splitlines():
        if ln.startswith("{"):
            j = json.loads(ln)
            if j.get("summary"):
                summary = j
            elif "fail" in j:
                fails.append(j)
    crash = None
    if p.returncode not in (0, 3, 66) or summary is None:
        crash = crash_in_allocator(p.stderr)
        if not crash:
            raise Infra("record driver failed rc=%s\n%s" % (p.returncode, p.stderr[-3000:]))
        fails.append({"fail": "crash", "what": "driver died inside the allocator while it only touched live slices: " + crash,
                      "stack": p.stderr[-3000:], "in_allocator": True})
    for f in fails:
        if f["fail"] == "crash" and not f.get("in_allocator"):
            raise Infra("record driver crashed outside the allocator: %s\n%s" % (f["what"], f.get("stack", "")[-2000:]))
    if defrag and not fails and (summary or {}).get("passes_2_classes_relocating", 0) < 1:
        # DefragAllImproved starts one goroutine per class over the threshold: the workload must make them overlap
        raise Infra("record %s: no defragmentation pass with two or more classes relocating records (%s)" % (tag, summary))
    return tr, fails, summary, p


def validate_start(ctx, trace_path, opts_path, info, strict):
    d = dict(CLASSES=", ".join(str(i) for i in range(1, info["classes"] + 1)), TRIGMIN=info["defrag_from"] + 1,
             TOPAGES=info["defrag_to"], STRICT="TRUE" if strict else "FALSE", INVS=STRICT_INVS if strict else "GhostOK")
    j = tlc_start(ctx, "TraceAlloc", "Alloc_trace", 1, d, files={"trace.ndjson": trace_path, "opts.json": opts_path})
    j.again = lambda: validate_start(ctx, trace_path, opts_path, info, strict)
    return j


def validate_wait(ctx, j, timeout=2400):
    r = tlc_wait(ctx, j, timeout)
    if not r.ok and not r.invariant and r.rc not in (10, 12, 13, -9) and getattr(j, "again", None):
        # neither accepted nor rejected: TLC itself failed (seen once on an overloaded machine); a problem of
        # the specification would show again, so the same trace is validated a second time before giving up
        ctx.log("trace validation broke (rc=%s: %s), running it again" % (r.rc, " | ".join(r.errors[:3])))
        j2 = j.again()
        j2.again = None
        r = tlc_wait(ctx, j2, timeout)
    hw = None
    for line in open(r.outpath, errors="replace"):
        if "VFREJECT" in line:
            m = re.search(r"VFREJECT\", (\d+)", line)
            if m:
                hw = int(m.group(1))
    if r.ok:
        return True, None, r
    if hw is None and not r.invariant:
        raise Infra("trace validation run broke (rc=%s): %s\n%s" % (r.rc, " | ".join(r.errors[:6]), r.tail[-1500:]))
    return False, hw, r


def judge_trace(ctx, tag, tr, opts_path, info, strict_res, seed_note):
    """strict_res = (accepted, high-water, TLCResult) of the Strict run. Returns number of accepted events."""
    acc, hw, r = strict_res
    nev = sum(1 for _ in open(tr))
    if acc:
        return nev, r
    lines = open(tr).read().splitlines()
    at = (hw or 1)
    strict_what = "event %s %s" % (at, lines[at - 1][:300] if at <= nev else "")
    if r.invariant:
        strict_what = "invariant %s after event %s" % (r.invariant, at - 1 if hw else "?")
    # is C20 itself broken, or only the modelled policy?
    acc2, hw2, r2 = validate_wait(ctx, validate_start(ctx, tr, opts_path, info, False))
    if acc2:
        raise Infra("trace set %s: the run is not a behaviour of Alloc (%s) but nothing the property demands is broken: "
                    "model and code differ in policy - re-examine spec/Alloc.tla against lib/others/memory" % (tag, strict_what))
    at2 = hw2 or at
    ev = ""
    try:
        ev = json.loads(lines[at2 - 1]).get("ev", "")
    except Exception:
        pass
    what = "recorded run breaks C20 at event %d (%s): %s" % (at2, ev, lines[at2 - 1][:240] if at2 <= nev else "")
    if r2.invariant:
        what = "invariant %s violated on a recorded run (after event %s)" % (r2.invariant, at2 - 1)
    reason = r2.invariant or r.invariant or "rejected"
    if ev in ("dbegin", "dall", "dallend") or (ev == "dsel" and not r2.invariant and pass_mismatch(lines, at2)):
        # defragClass runs for a class the pass did not choose (or twice for one class): "one goroutine per class"
        # is what protects the per-class state
        reason = "wrong-class"
        what = "defragClass ran for a class DefragAllImproved did not start it for (event %d %s): %s" % (at2, ev, lines[at2 - 1][:160])
    ctx.violation("C20:trace:%s:%s" % (ev, reason),
                  {"set": tag, "note": seed_note, "trace_tail": lines[max(0, at2 - 60):at2 + 1],
                   "strict": strict_what, "tlc": r2.tail[-2500:]}, what)
    return 0, r


def pass_mismatch(lines, at):
    """Is the dsel event at line `at` (1-based) outside what the current pass chose/started? (dall / dbegin since the
    last dallend)"""
    try:
        c = json.loads(lines[at - 1])["c"]
    except Exception:
        return False
    begun = 0
    for l in reversed(lines[:at - 1]):
        if '"ev":"dallend"' in l or '"ev":"Reset"' in l:
            break
        if '"ev":"dbegin"' in l and json.loads(l)["c"] == c:
            begun += 1
    return begun != 1


def race_reports(stderr):
    """-> list of (in_allocator, first memory frame, text)"""
    out = []
    for blk in re.split(r"(?m)^==================\n", stderr):
        if "WARNING: DATA RACE" not in blk:
            continue
        m = re.search(r"lib/others/memory\.\(?\*?\w*\)?\.?(\w+)", blk)
        out.append((bool(m), m.group(1) if m else "", blk[:3000]))
    return out


# ----------------------------------------------------------------------------- the check
def run(ctx):
    quick = ctx.tier == "quick"
    binp = ctx.build("alloc")
    p = ctx.run([binp, "info"], check=True)
    info = json.loads(p.stdout)
    ncpu = os.cpu_count() or 4

    race_bin = {}

    def build_race():
        try:
            race_bin["p"] = ctx.build("alloc", race=True)
        except Exception as e:      # reported when the race step needs it
            race_bin["err"] = e
    th = threading.Thread(target=build_race)
    th.start()

    states = transitions = 0
    replayed = 0
    traces_validated = 0
    events_validated = 0

    # ---- 1. the design, exhaustively (several configurations side by side)
    if quick:
        mcsets = [("3thr x 2ops", mc_defs(3, 2, 2, 0)), ("2thr x 3ops", mc_defs(2, 3, 3, 0)),
                  ("2thr x 3ops, real ToPages", mc_defs(2, 3, 3, 4, cachelow=0))]
    else:
        mcsets = [("3thr x 3ops", mc_defs(3, 3, 3, 0, cachelow=0)), ("2thr x 4ops", mc_defs(2, 4, 3, 0)),
                  ("2thr x 4ops, real ToPages, 2 defrags", mc_defs(2, 4, 3, 4, cachelow=0, maxdefrag=2))]
    # the first configuration is the largest: it gets half of the machine
    share = [max(2, ncpu // 2)] + [max(2, (ncpu // 2 - 2) // (len(mcsets) - 1))] * (len(mcsets) - 1)
    if quick:
        share = [max(2, (ncpu - 2) // len(mcsets))] * len(mcsets)
    jobs = [(t, tlc_start(ctx, "Alloc", "Alloc_mc", w, d, heap="6g")) for (t, d), w in zip(mcsets, share)]
    bugjobs = [(b, tlc_start(ctx, "Alloc", "Alloc_mc", 1, mc_defs(2, 2, 2, 0, cachelow=0, bug=b), heap="1g")) for b in BUGS]
    bugjobs.append(("non-exclusive defrag", tlc_start(ctx, "Alloc", "Alloc_mc", 1, mc_defs(2, 3, 2, 0, cachelow=0, excl="FALSE"), heap="1g")))
    refuted = []
    for b, j in bugjobs:
        r = tlc_wait(ctx, j, 900)
        if not r.invariant:
            raise Infra("sanity: the broken variant '%s' of the model should violate an invariant, TLC found none\n%s" % (b, r.tail[-1500:]))
        refuted.append("%s violates %s" % (b, r.invariant))
    ctx.cov["refuted_variants"] = refuted

    # ---- 3a. record seeded concurrent runs and start their validation (TLC works on them while 2. runs)
    S = ctx.seed
    if quick:
        recsets = [("R1", dict(seed=S, runs=3, ops=80, rounds=4)),
                   ("R2", dict(seed=S + 1000, runs=4, ops=90, rounds=4, small=True)),
                   ("R3", dict(seed=S + 2000, runs=2, ops=100, rounds=3, g=16, defrag=False, env={"VERIF_YIELD": str(S)}))]
    else:
        recsets = []
        for k in range(4):
            recsets.append(("R1.%d" % k, dict(seed=S * 31 + k, runs=6, ops=400, rounds=6)))
            recsets.append(("R2.%d" % k, dict(seed=S * 37 + 1000 + k, runs=6, ops=300, rounds=6, small=True)))
        for k in range(3):
            recsets.append(("R3.%d" % k, dict(seed=S * 41 + 2000 + k, runs=3, ops=400, rounds=4, g=16, defrag=k == 0, env={"VERIF_YIELD": str(S + k)})))
    pending = []
    good_trace = None
    for tag, kw in recsets:
        tr, fails, summary, _ = record(ctx, binp, tag, **kw)
        ctx.log("trace set %s: %s" % (tag, summary))
        summary = summary or {}
        ctx.cov["defrag_passes"] = ctx.cov.get("defrag_passes", 0) + summary.get("defrag_passes", 0)
        ctx.cov["defrag_passes_with_2+_classes_relocating"] = ctx.cov.get("defrag_passes_with_2+_classes_relocating", 0) + \
            summary.get("passes_2_classes_relocating", 0)
        for f in fails:
            ctx.violation("C20:run:" + f["fail"] + ":" + re.sub(r"\d+", "N", f["what"])[:60],
                          {"set": tag, "args": {k: v for k, v in kw.items()}, "failure": f}, f["what"])
        if fails:
            continue          # the trace of a run that already broke the property adds nothing
        pending.append((tag, kw, tr, tr + ".opts.json"))
    # validate, a few TLC processes at a time
    slots = max(1, min(6, ncpu // 2))
    running = []
    results = {}

    def reap(one):
        tag, kw, tr, op, j = one
        results[tag] = (kw, tr, op, validate_wait(ctx, j))
    for item in pending:
        if len(running) >= slots:
            reap(running.pop(0))
        running.append(item + (validate_start(ctx, item[2], item[3], info, True),))

    # ---- 2. every transition of the sequential small model, replayed on the real allocator (runs while 1. computes)
    gen = dict(SIZES="1, 2, 3, 4, 5", MAXOPS=5 if quick else 6, MAXPAGES=3, MAXDEFRAG=1, EMITAT=0)
    r, path, n = export(ctx, gen, "A", timeout=3000)
    if n != r.generated - 1:
        raise Infra("export A: %d lines for %s generated states" % (n, r.generated))
    summ, fails = run_replay(ctx, binp, path, "A", procs=max(2, ncpu // 2))
    replayed += summ["lines"]
    ctx.log("replayed %d transitions (%d steps): %d failures (%d policy)" % (summ["lines"], summ["steps"], summ["fail"], summ["policy"]))
    policy = handle_replay_fails(ctx, fails)
    with open(path) as fh:
        for i, l in enumerate(fh):
            if i in (40, 30000):
                ctx.sample(json.loads(l))
    first_lines = path
    if not quick:
        # deeper simulated behaviours: more pages, several defragmentation passes
        sim = dict(SIZES="1, 2, 3, 4, 5", MAXOPS=40, MAXPAGES=12, MAXDEFRAG=6, EMITAT=40)
        r2, path2, n2 = export(ctx, sim, "S", simulate="num=4000", depth=40, timeout=3000)
        if n2 == 0:
            raise Infra("simulation export produced nothing\n" + r2.tail)
        summ, fails = run_replay(ctx, binp, path2, "S", procs=max(2, ncpu // 2))
        replayed += summ["lines"]
        ctx.log("replayed %d simulated behaviours (%d steps): %d failures" % (summ["lines"], summ["steps"], summ["fail"]))
        policy += handle_replay_fails(ctx, fails)

    for t, j in jobs:
        r = tlc_wait(ctx, j, 3000 if quick else 6000)
        if r.invariant:
            raise Infra("design-level counterexample in Alloc (%s, %s) - model and code must be re-examined\n%s" % (t, r.invariant, r.tail))
        r.require_ok("mc " + t)
        states += r.distinct
        transitions += r.generated
    # ---- 3b. verdicts on the recorded runs
    for one in running:
        reap(one)
    for tag, kw, tr, op in pending:
        kw, tr, op, res = results[tag]
        nacc, r = judge_trace(ctx, tag, tr, op, info, res, "record args %s" % kw)
        if nacc:
            traces_validated += kw["runs"]
            events_validated += nacc
            states += r.distinct or 0
            if good_trace is None:
                good_trace = (tr, op)
    if ctx.violations:
        th.join()
        finish_cov(ctx, states, transitions, traces_validated, events_validated, replayed)
        return
    if policy:
        th.join()
        raise Infra("replay: the real allocator and spec/Alloc.tla disagree on policy (no clause of C20 broken in any "
                    "replayed or recorded run): %s" % policy[0])

    # ---- 4. the same driver under the race detector
    th.join()
    if "p" not in race_bin:
        raise Infra("race build failed: %s" % race_bin.get("err"))
    racesets = [dict(seed=S + 5, runs=2, ops=60, rounds=3, g=8)] if quick else \
               [dict(seed=S + 5 + k, runs=3, ops=200, rounds=4, g=g) for k, g in enumerate((2, 4, 16))] + \
               [dict(seed=S + 9, runs=2, ops=150, rounds=4, g=8, small=True)]
    nrace = 0
    for kw in racesets:
        tr, fails, summary, p = record(ctx, race_bin["p"], "race%d" % nrace, env={"GORACE": "halt_on_error=0 exitcode=66"}, **kw)
        nrace += 1
        for f in fails:
            ctx.violation("C20:run:" + f["fail"] + ":" + re.sub(r"\d+", "N", f["what"])[:60], {"set": "race", "args": kw, "failure": f}, f["what"])
        reps = race_reports(p.stderr)
        for inmem, fn, txt in reps:
            if inmem:
                ctx.violation("C20:race:memory." + fn, {"args": kw, "report": txt}, "data race reported by the Go race detector in memory.%s" % fn)
        if reps and not any(x[0] for x in reps):
            raise Infra("race detector reports a race outside lib/others/memory (harness?)\n" + reps[0][2])
    ctx.cov["race_detector_runs"] = nrace
    if ctx.violations:
        finish_cov(ctx, states, transitions, traces_validated, events_validated, replayed)
        return

    # ---- 5. binding self-tests
    # 5a a corrupted prediction must be rejected by the replay driver
    mut = os.path.join(ctx.scratch, "mut.json")
    want = []
    with open(first_lines) as f, open(mut, "w") as g:
        for l in f:
            j = json.loads(l)
            if "slot" not in want and j["last"]["a"] == "malloc" and len(j["path"]) >= 2:
                j["last"]["s"] += 1
                want.append("slot")
                g.write(json.dumps(j) + "\n")
            elif "allocs" not in want and j["last"]["a"] == "free":
                j["last"]["allocs"] += 1
                want.append("allocs")
                g.write(json.dumps(j) + "\n")
            elif "state" not in want and j["last"]["a"] == "free" and j["last"]["st"]["g"]:
                j["last"]["st"]["g"] = j["last"]["st"]["g"][::-1] + [{"p": 1, "s": 0}]
                want.append("state")
                g.write(json.dumps(j) + "\n")
            if len(want) == 3:
                break
    summ, fails = run_replay(ctx, binp, mut, "mut", procs=1)
    kinds = sorted(f["kind"] for f in fails)
    if len(want) != 3 or summ["fail"] != 3 or kinds != ["policy", "policy", "policy"]:
        raise Infra("binding self-test failed: corrupted predictions %s gave %s" % (want, [(f["kind"], f["what"][:80]) for f in fails]))
    # 5b corrupted traces must be rejected by TLC
    tr, op = good_trace
    lines = open(tr).read().splitlines()
    k = next(i for i, l in enumerate(lines) if '"ev":"free"' in l and i > 40)
    dbl = os.path.join(ctx.scratch, "trace-dbl.ndjson")          # a slot freed twice
    open(dbl, "w").write("\n".join(lines[:k + 1] + [lines[k]] + lines[k + 1:k + 3]) + "\n")
    m = next(i for i, l in enumerate(lines) if '"ev":"malloc"' in l)
    jm = json.loads(lines[m])
    jm["s"] += 1                                                   # another free slot than the model's choice
    pol = os.path.join(ctx.scratch, "trace-pol.ndjson")
    open(pol, "w").write("\n".join(lines[:m] + [json.dumps(jm)]) + "\n")
    js = [validate_start(ctx, dbl, op, info, True), validate_start(ctx, dbl, op, info, False),
          validate_start(ctx, pol, op, info, True), validate_start(ctx, pol, op, info, False)]
    res = [validate_wait(ctx, j) for j in js]
    if res[0][0] or res[0][1] != k + 2 or res[1][0] or res[1][1] != k + 2:
        raise Infra("binding self-test failed: double free accepted=%s/%s high-water=%s/%s expected %d" %
                    (res[0][0], res[1][0], res[0][1], res[1][1], k + 2))
    if res[2][0] or res[2][1] != m + 1 or not res[3][0]:
        raise Infra("binding self-test failed: policy deviation strict accepted=%s hw=%s (expected reject at %d), relaxed accepted=%s" %
                    (res[2][0], res[2][1], m + 1, res[3][0]))

    finish_cov(ctx, states, transitions, traces_validated, events_validated, replayed)


def handle_replay_fails(ctx, fails):
    policy = []
    for f in fails:
        if f.get("kind") == "property":
            ctx.violation(signature(f["what"].split("\n")[0]), {"line": f.get("line"), "step": f.get("step")}, f["what"][:400])
        else:
            policy.append(f["what"][:400])
    return policy


def finish_cov(ctx, states, transitions, traces_validated, events_validated, replayed):
    ctx.level = "model_checking"
    ctx.cov.update({"states": states, "transitions": transitions, "traces_validated_against_impl": traces_validated + replayed,
                    "replayed_transitions_and_behaviours": replayed, "recorded_runs_validated": traces_validated,
                    "recorded_events_validated": events_validated, "exhaustive": True,
                    "rule": "TLC BFS over Alloc with the constants in checks/c20.py; every exported transition replayed on "
                            "lib/others/memory; recorded concurrent runs validated by TraceAlloc"})
    ctx.assumptions += ["defragmentation runs with no concurrent Malloc/Free (defragClass takes no lock; documented contract, "
                        "the client calls it from the main thread only); TLC refutes the design without it",
                        "mmap/munmap are trusted; a fault of the driver inside the allocator is reported as a violation",
                        "Bytes is not compared (page cache refill is asynchronous); Allocs, PrivateMmaps, SharedMmaps, pageCount, "
                        "freeSlots and the page headers are",
                        "the order of events of one class is the order of the hook calls made inside classMu"]


def replay_cmd(ctx, path):
    j = json.load(open(path))
    rp = j["replay"]
    binp = ctx.build("alloc")
    if rp.get("line"):
        p = os.path.join(ctx.scratch, "one.json")
        open(p, "w").write(json.dumps(rp["line"]) + "\n")
        summ, fails = run_replay(ctx, binp, p, "rp", procs=1)
        for f in fails:
            print("reproduced:", f["what"][:400])
        return 1 if fails else 0
    if rp.get("args"):
        kw = dict(rp["args"])
        for _ in range(5):          # schedules differ between runs
            tr, fails, summary, _p = record(ctx, binp, "rp", **kw)
            for f in fails:
                print("reproduced:", f["what"][:400])
            if fails:
                return 1
        return 0
    print("trace replays: re-run the check with the same VERIF_SEED")
    return 2
