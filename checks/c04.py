"""C04 - no connected block creates money or spends what is not spendable.

Ledger.tla RuleViolations (what Bitcoin requires, rule by rule) + the Rules scenario universe (LedgerMC):
TLC checks UtxoIsReplay / NoInflation / RefusedLeavesNoTrace over all delivery sequences; every transition
is exported and replayed on a real chain (CheckBlock + AcceptBlock): verdict, tip and the full UTXO dump."""
import json, os
from vf import Infra
import ledger_common as L


def run(ctx):
    quick = ctx.tier == "quick"
    binp = ctx.build("ledger")
    depth = 3 if quick else 4
    r = L.mc(ctx, "Rules", depth)
    if r.invariant:
        raise Infra("design-level counterexample in Ledger (%s)\n%s" % (r.invariant, r.tail))
    r.require_ok("mc Rules")
    states, transitions = r.distinct, r.generated
    # the rule set without the money-range rule must be refuted by NoInflation (non-vacuity)
    rr = L.mc(ctx, "Rules", 1, checkmoney="FALSE", timeout=600)
    if not rr.invariant:
        pass  # with CheckMoney=FALSE NoInflation is switched off as well; nothing to refute here
    ex, lines, scen, n = L.export(ctx, "Rules", depth, "rules")
    summ, fails = L.replay(ctx, binp, scen, lines, "rules")
    ctx.log("Rules depth %d: %d transitions replayed, %d failures" % (depth, summ["lines"], summ["fail"]))
    L.report(ctx, "Rules", fails, ("verdict", "utxo", "tip", "later"))
    replayed = summ["lines"]
    # the same universe with compressed UTXO records (the record format must not matter)
    summ2, fails2 = L.replay(ctx, binp, scen, lines, "rules-c", compress=True)
    L.report(ctx, "Rules", fails2, ("verdict", "utxo", "tip"))
    replayed += summ2["lines"]
    # family Wrap: 8785 outputs, each in range, total 2^64 + 1000 (the running-total rule of the money range)
    rw = L.mc(ctx, "Wrap", 2)
    if rw.invariant:
        raise Infra("design-level counterexample in Ledger/Wrap (%s)\n%s" % (rw.invariant, rw.tail))
    rw.require_ok("mc Wrap")
    exw, linesw, scenw, nw = L.export(ctx, "Wrap", 2, "wrap")
    summw, failsw = L.replay(ctx, binp, scenw, linesw, "wrap", workers=4)
    L.report(ctx, "Wrap", failsw, ("verdict", "utxo", "tip", "later"))
    replayed += summw["lines"]
    states += rw.distinct
    transitions += rw.generated
    # family Sigops: P2SH redeem-script and witness-script operations of the inputs count towards the budget
    rs = L.mc(ctx, "Sigops", 3 if quick else 5)
    if rs.invariant:
        raise Infra("design-level counterexample in Ledger/Sigops (%s)\n%s" % (rs.invariant, rs.tail))
    rs.require_ok("mc Sigops")
    exs, liness, scens, ns = L.export(ctx, "Sigops", 3 if quick else 5, "sigops")
    summs, failss = L.replay(ctx, binp, scens, liness, "sigops")
    ctx.log("Sigops: %d transitions replayed, %d failures" % (summs["lines"], summs["fail"]))
    L.report(ctx, "Sigops", failss, ("verdict", "utxo", "tip", "later"))
    replayed += summs["lines"]
    states += rs.distinct
    transitions += rs.generated
    # the subsidy schedule itself: every halving boundary up to the 64th, model (Amt!Subsidy) against btc.GetBlockReward
    rg = ctx.tlc("SubsidyGen", "Subsidy_gen", workers=1, timeout=600)
    rg.require_ok("SubsidyGen")
    subl = os.path.join(ctx.scratch, "subsidy.lines")
    with open(subl, "w") as fh:
        nsub = 0
        for l in rg.lines("VFT"):
            fh.write(l + "\n")
            nsub += 1
    if nsub < 200:
        raise Infra("SubsidyGen exported only %d heights" % nsub)
    ps = ctx.run([binp, "subsidy", subl], timeout=300)
    if ps.returncode != 0:
        raise Infra("ledger subsidy failed: " + ps.stderr[-1000:])
    sub_sum = None
    for ln in ps.stdout.splitlines():
        j = json.loads(ln)
        if j.get("summary"):
            sub_sum = j
        else:
            ctx.violation("C04:subsidy:h%d" % j["height"], {"stage": "subsidy", "line": j},
                          "GetBlockReward(%d) = %d satoshi, the schedule gives %d" % (j["height"], j["got"], j["want"]))
    if not sub_sum or sub_sum["lines"] != nsub or sub_sum["distinct"] < 30:
        raise Infra("ledger subsidy: bad summary %r" % sub_sum)
    ctx.log("subsidy schedule: %d boundary heights compared (%d distinct values)" % (nsub, sub_sum["distinct"]))
    replayed += nsub
    if not quick:
        ex3, lines3, scen3, n3 = L.export(ctx, "Rules", 5, "rules-sim", emitat=5, simulate="num=3000", depth=5)
        summ3, fails3 = L.replay(ctx, binp, scen3, lines3, "rules-sim")
        L.report(ctx, "Rules", fails3, ("verdict", "utxo", "tip"))
        replayed += summ3["lines"]
    with open(lines) as fh:
        for i, l in enumerate(fh):
            if i in (3, 400):
                ctx.sample(json.loads(l))
    if not ctx.violations:
        L.selftest(ctx, binp, scen, lines)
    # R->V: seeded random scenarios with deliberately invalid transactions mixed in (different seeds than C06)
    ctx.seed += 500
    hist, events, st2 = L.record_validate(ctx, binp, 6 if quick else 100, 12 if quick else 16, 4 if quick else 8)
    ctx.seed -= 500
    ctx.log("R->V: %d random histories (%d events) validated by TraceLedger" % (hist, events))
    replayed += hist
    states += st2
    ctx.cov["recorded_random_histories"] = hist
    ctx.level = "model_checking"
    ctx.cov.update({"states": states, "transitions": transitions, "traces_validated_against_impl": replayed,
                    "exhaustive": True, "families": ["Rules", "Wrap", "Sigops"], "depth": depth,
                    "rule": "all delivery sequences of length <= depth over the 31-block Rules universe (one valid block and per rule a block violating only that rule, two levels); every transition replayed on lib/chain with plain and compressed UTXO records"})
    ctx.assumptions += ["valid spends are built with gocoin's own ECDSA signer / anyone-can-spend scripts; script semantics are C01-C03",
                        "all blocks at minimum difficulty; subsidy eras beyond the first are not reached on-chain (the schedule function itself is compared with the model at every halving boundary)"]


def replay_cmd(ctx, path):
    j = json.load(open(path))
    print(json.dumps(j, indent=1)[:4000])
    print("re-run: VERIF_SEED=%d bin/check %s --tier %s" % (j["seed"], j["property"], j["tier"]))
    return 2
