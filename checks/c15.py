"""C15 - address encodings are bijective and error-detecting.

spec/Addr.tla   BIP173 / BIP350 / BIP141 address rules, fully executable in TLC (polymod, charset, case rules,
                convert_bits, version <-> checksum variant, lengths), Base58 digit structure executable,
                Base58Check / WIF as structural classes (SHA-256 is outside TLC).  Written from the BIPs.
  1. TLC, exhaustive over the seed addresses (every alternative character at every position, all single
     deletions / insertions / transpositions / case flips / truncations, padding, variant swaps, sampled
     2..4 substitutions) and over the case tables: EncodeDecodeIdentity, AcceptedReencodes,
     SubstitutionDetected, SingleSubstitutionDetected, MixedCaseRefused, VariantSwapRefused, PaddingRefused,
     RawAcceptedIffLegal, ShortRefused, B58Bijective.  The BIP test vectors are an ASSUME.
     Each named rule is also broken on purpose (constant Bug) and TLC must refute the matching invariant.
  2. G->R: every case TLC generates (AddrGen) with the model's verdict / script / canonical string is replayed
     on btc.NewAddrFromString + OutScript + String, btc.NewAddrFromPkScript, bech32.Decode / Encode /
     SegwitDecode / SegwitEncode, btc.Encodeb58 / Decodeb58, and - built per class by the driver with
     crypto/sha256 and its own Base58 codec - Base58Check addresses and WIF keys (btc.DecodePrivateAddr):
     damaged classes, thousands of random well-formed strings per layout, and CONSTRUCTED well-formed strings whose
     checksum / key / hash bytes take the values a length-blind parser would misread as a flag or version byte.
  3. binding self-test: corrupted predictions must be rejected by the driver.
There is no R->V step: the functions are pure, a recorded run would be the same comparison with roles swapped.
"""
import copy, json, os, threading
from vf import Infra

INVS = ["TypeOK", "EncodeDecodeIdentity", "EncoderAgreesWithDecoder", "AcceptedReencodes", "SubstitutionDetected",
        "SingleSubstitutionDetected", "SubKIsReal", "MixedCaseRefused", "FlipIsMixed", "VariantSwapRefused",
        "PaddingRefused", "RawAcceptedIffLegal", "ShortRefused", "B58Bijective"]

# deliberately broken rule -> the invariant that has to notice
BUGS = [("mixedcase", "MixedCaseRefused", ""), ("padding", "PaddingRefused", ""), ("v0len", "RawAcceptedIffLegal", "2"),
        ("variant", "VariantSwapRefused", ""), ("lastchar", "SingleSubstitutionDetected", ""), ("len90", "RawAcceptedIffLegal", "3")]
ALLTABLES = "1,2,3,4,5,6,7"

P = 46337  # modulus of the model's pseudo-random choices


def lanes(ctx, jobs, width):
    """Run jobs (callables taking a private Ctx copy) on `width` threads; each lane has its own scratch subdirectory."""
    res = [None] * len(jobs)
    ctx._c15_lanes = getattr(ctx, "_c15_lanes", 0) + 1
    gen = ctx._c15_lanes
    err = []
    lock = threading.Lock()
    nxt = [0]

    def worker(w):
        c2 = copy.copy(ctx)
        c2.scratch = os.path.join(ctx.scratch, "lane%d-%d" % (gen, w))
        os.makedirs(c2.scratch, exist_ok=True)
        c2._tlc_n = 0
        while True:
            with lock:
                i = nxt[0]
                nxt[0] += 1
            if i >= len(jobs) or err:
                return
            try:
                res[i] = jobs[i](c2)
            except BaseException as e:  # noqa
                err.append(e)
                return

    th = [threading.Thread(target=worker, args=(w,)) for w in range(min(width, len(jobs)))]
    for t in th:
        t.start()
    for t in th:
        t.join()
    if err:
        raise err[0]
    return res


def defs(ctx, lo, hi, alt, nsample, shortlen, tables, bug="none", invs=None):
    d = dict(SEEDLO=lo, SEEDHI=hi, SALT=ctx.seed % P, ALTMODE=alt, NSAMPLE=nsample, SHORTLEN=shortlen,
             TABLES=tables)
    if invs is not None:
        d.update(BUG=bug, INVS=" ".join(invs))
    return d


def replay(ctx, binp, path, ninst, workers=16, vol=0):
    p = ctx.run([binp, "replay", "-in", path, "-salt", str(ctx.seed), "-inst", str(ninst), "-vol", str(vol), "-workers", str(workers)], timeout=3000)
    if p.returncode != 0:
        raise Infra("replay driver failed: " + p.stderr[-2000:])
    fails, summ = [], None
    for ln in p.stdout.splitlines():
        if not ln.startswith("{"):
            continue
        j = json.loads(ln)
        if j.get("summary"):
            summ = j
        elif not j.get("ok", True):
            fails.append(j)
    if summ is None:
        raise Infra("replay driver gave no summary")
    if summ.get("infra"):
        raise Infra("replay driver: model and driver disagree about the case format / oracle: %s" % summ["infra"][:3])
    return summ, fails


def export_lane(binp, tag, d, timeout, ninst, keep=False, vol=0):
    """One lane: TLC exports the cases of a slice of the model (1 worker), the driver replays them at once."""
    def job(c2):
        r = c2.tlc("AddrGen", "Addr_gen", workers=1, defines=d, timeout=timeout)
        if r.invariant:
            raise Infra("design-level counterexample in Addr (%s, export %s)\n%s" % (r.invariant, tag, r.tail))
        r.require_ok("export " + tag)
        path = os.path.join(c2.scratch, "lines-%s.json" % tag)
        n = 0
        with open(path, "w") as f:
            for s in r.lines("VFT"):
                f.write(s + "\n")
                n += 1
        if n != r.generated - 1:
            raise Infra("export %s: %d lines for %s generated states" % (tag, n, r.generated))
        os.remove(r.outpath)
        summ, fails = replay(c2, binp, path, ninst, workers=4, vol=vol)
        if not keep:
            os.remove(path)
        return tag, path, r.distinct, r.generated, summ, fails
    return job


def run(ctx):
    quick = ctx.tier == "quick"
    binp = ctx.build("addr")
    nseeds = 20 if quick else 200
    nsample = 20 if quick else 300
    shortlen = 3 if quick else 4
    ncpu = os.cpu_count() or 4
    states = transitions = 0

    # ---- 1. the rules, exhaustively over seeds and tables (every alternative character at every position)
    r = ctx.tlc("Addr", "Addr_mc", defines=defs(ctx, 1, nseeds, "all", nsample, shortlen, ALLTABLES, "none", INVS), timeout=3000)
    if r.invariant:
        raise Infra("design-level counterexample in Addr (%s): the model misreads the BIPs or a seed is degenerate\n%s" % (r.invariant, r.tail))
    r.require_ok("mc")
    states += r.distinct
    transitions += r.generated
    ctx.cov["mc"] = {"seeds": nseeds, "alternatives": "all", "states": r.distinct, "wall_s": round(r.wall, 1)}

    # each named rule broken on purpose must be refuted by its invariant (the invariants are not vacuous)
    def bugjob(bug, inv, tabs):
        def job(c2):
            rr = c2.tlc("Addr", "Addr_mc", workers=2, defines=defs(ctx, 1, 2, "class", 1, 1, tabs, bug, ["TypeOK", inv]), timeout=900)
            if rr.invariant != inv:
                raise Infra("sanity: Addr with Bug=%s should violate %s, TLC says %s\n%s" % (bug, inv, rr.invariant, rr.tail))
            return "%s violates %s" % (bug, inv)
        return job
    ctx.cov["refuted_variants"] = lanes(ctx, [bugjob(b, i, tb) for b, i, tb in BUGS], max(1, ncpu // 2))

    # ---- 2. every generated case, replayed on the real decoders / encoders
    alt = "class" if quick else "all"
    per = 10 if quick else 8
    ninst = 2 if quick else 6
    vol = 2000 if quick else 20000   # random well-formed Base58Check / WIF strings per accepted class
    jobs = [export_lane(binp, "tabraw", defs(ctx, 1, 0, alt, nsample, shortlen, "2"), 3000, ninst),
            export_lane(binp, "tables", defs(ctx, 1, 0, alt, nsample, shortlen, "1,3,4,5,6,7"), 3000, ninst, vol=vol)]
    for lo in range(1, nseeds + 1, per):
        jobs.append(export_lane(binp, "s%d" % lo, defs(ctx, lo, min(nseeds, lo + per - 1), alt, nsample, shortlen, ""), 3000, ninst, keep=(lo == 1)))
    total = {"lines": 0, "cases": 0, "checks": 0, "accepted": 0, "refused": 0}
    kinds, observations, obs_examples = {}, {}, []
    first = None
    nfail = 0
    for tag, path, distinct, generated, summ, fails in lanes(ctx, jobs, max(1, ncpu - 2)):
        states += distinct
        transitions += generated
        for k in total:
            total[k] += summ[k]
        for k, v in summ["kinds"].items():
            kinds[k] = kinds.get(k, 0) + v
        for k, v in (summ.get("observations") or {}).items():
            observations[k] = observations.get(k, 0) + v
        obs_examples += summ.get("observation_examples") or []
        nfail += summ["fail"]
        for f in fails:
            ctx.violation(f["sig"], {"line": f["line"], "inst": f["inst"], "ninst": ninst, "vol": vol, "salt": ctx.seed}, f["what"])
        if tag == "s1":
            first = path
            with open(path) as fh:
                for i, l in enumerate(fh):
                    if i in (0, 7, 400):
                        j = json.loads(l)
                        ctx.sample({"case": j["c"], "string": "".join(chr(c) for c in j["s"]), "model_accepts": j["r"]["addr"]["ok"],
                                    "script": bytes(j["r"]["addr"]["script"]).hex()})
    ctx.log("replayed %d cases (%d comparisons) from %d exported lines: %d accepted, %d refused, %d failures" %
            (total["cases"], total["checks"], total["lines"], total["accepted"], total["refused"], nfail))

    # ---- 3. binding self-test: corrupted predictions must be rejected (only meaningful when the originals were accepted)
    if first is None:
        raise Infra("no seed lane")
    try:
        selftest(ctx, binp, first)
    except Infra as e:
        if not ctx.violations:
            raise
        ctx.log("self-test not conclusive on a tree with violations: %s" % str(e)[:200])
    finish_cov(ctx, states, transitions, total, kinds, observations, obs_examples, nseeds, alt)


def selftest(ctx, binp, first):
    mut = os.path.join(ctx.scratch, "mut.json")
    want = set()
    with open(first) as f, open(mut, "w") as g:
        for l in f:
            j = json.loads(l)
            k = j["c"]["k"]
            if k == "seed" and "a" not in want:
                j["r"]["addr"]["ok"] = False
                want.add("a")
            elif k == "seed" and "b" not in want:
                j["r"]["addr"]["script"][-1] ^= 1
                want.add("b")
            elif k == "sub" and "c" not in want and not j["r"]["addr"]["ok"]:
                j["r"]["addr"] = {"ok": True, "script": [0, 20] + [7] * 20, "tn": False}
                want.add("c")
            elif k == "seed" and "d" not in want:
                j["r"]["seg"]["prog"][0] ^= 1
                want.add("d")
            else:
                continue
            g.write(json.dumps(j) + "\n")
            if len(want) == 4:
                break
    summ, fails = replay(ctx, binp, mut, 1)
    sigs = sorted(set(f["sig"].split(":")[1] + ":" + f["sig"].split(":")[2] for f in fails))
    need = ["NewAddrFromString:accepted", "NewAddrFromString:refused", "OutScript:value", "bech32.SegwitDecode:value"]
    if len(want) != 4 or any(n not in sigs for n in need):
        raise Infra("binding self-test failed: corrupted predictions gave %s, expected %s" % (sigs, need))


def finish_cov(ctx, states, transitions, total, kinds, observations, obs_examples, nseeds, alt):
    ctx.level = "model_checking"
    ctx.cov.update({"states": states, "transitions": transitions, "traces_validated_against_impl": total["cases"],
                    "comparisons": total["checks"], "exported_lines": total["lines"], "cases_by_kind": kinds,
                    "accepted_by_impl": total["accepted"], "refused_by_impl": total["refused"],
                    "not_judged_observations": observations, "observation_examples": obs_examples[:5],
                    "exhaustive": True,
                    "rule": "TLC BFS over Addr: %d seed addresses x every single edit (alternatives: %s in the model check, %s replayed) + case tables; every exported case replayed on lib/btc and lib/others/bech32" % (nseeds, "all", alt)})
    ctx.assumptions += ["SHA-256 is not modelled: Base58Check / WIF strings are built per structural class by the driver (crypto/sha256, own Base58 codec)",
                        "Base58 version bytes other than 0/5/111/196 and WIF key range are not judged (the property does not state them)",
                        "an encoder that encodes an unsupported input (e.g. empty hrp) is recorded as an observation, not a violation"]


def replay_cmd(ctx, path):
    j = json.load(open(path))
    rp = j["replay"]
    ctx.seed = rp.get("salt", ctx.seed)
    binp = ctx.build("addr")
    p = os.path.join(ctx.scratch, "one.json")
    open(p, "w").write(json.dumps(rp["line"]) + "\n")
    summ, fails = replay(ctx, binp, p, rp.get("ninst", 1), workers=1, vol=rp.get("vol", 0))
    hit = [f for f in fails if f["sig"] == j["signature"]]
    for f in hit:
        print("reproduced:", f["what"])
    return 1 if hit else 0
